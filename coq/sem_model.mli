
val implb : bool -> bool -> bool

val xorb : bool -> bool -> bool

val negb : bool -> bool

type nat =
| O
| S of nat

val fst : ('a1 * 'a2) -> 'a1

val snd : ('a1 * 'a2) -> 'a2

val length : 'a1 list -> nat

type comparison =
| Eq
| Lt
| Gt

val compOpp : comparison -> comparison

type positive =
| XI of positive
| XO of positive
| XH

type n =
| N0
| Npos of positive

type z =
| Z0
| Zpos of positive
| Zneg of positive

val eqb : bool -> bool -> bool

module Nat :
 sig
  val eqb : nat -> nat -> bool
 end

module Pos :
 sig
  val succ : positive -> positive

  val add : positive -> positive -> positive

  val add_carry : positive -> positive -> positive

  val pred_double : positive -> positive

  val mul : positive -> positive -> positive

  val compare_cont : comparison -> positive -> positive -> comparison

  val compare : positive -> positive -> comparison

  val eqb : positive -> positive -> bool
 end

module N :
 sig
  val eqb : n -> n -> bool
 end

module Z :
 sig
  val double : z -> z

  val succ_double : z -> z

  val pred_double : z -> z

  val pos_sub : positive -> positive -> z

  val add : z -> z -> z

  val opp : z -> z

  val sub : z -> z -> z

  val mul : z -> z -> z

  val compare : z -> z -> comparison

  val leb : z -> z -> bool

  val ltb : z -> z -> bool

  val eqb : z -> z -> bool

  val abs : z -> z

  val pos_div_eucl : positive -> z -> z * z

  val div_eucl : z -> z -> z * z

  val div : z -> z -> z

  val modulo : z -> z -> z
 end

val zeq_bool : z -> z -> bool

val map : ('a1 -> 'a2) -> 'a1 list -> 'a2 list

val existsb : ('a1 -> bool) -> 'a1 list -> bool

val forallb : ('a1 -> bool) -> 'a1 list -> bool

val combine : 'a1 list -> 'a2 list -> ('a1 * 'a2) list

type q = { qnum : z; qden : positive }

val qeq_bool : q -> q -> bool

val qle_bool : q -> q -> bool

val qplus : q -> q -> q

val qmult : q -> q -> q

val qopp : q -> q

val qminus : q -> q -> q

val qinv : q -> q

val qdiv : q -> q -> q

type sort =
| SBool
| SInt
| SReal
| SU of n

type value =
| VB of bool
| VZ of z
| VQ of q
| VU of n * n

val sort_eqb : sort -> sort -> bool

val has_sort : value -> sort -> bool

val default_of : sort -> value

val val_eqb : value -> value -> bool option

type term =
| TVar of n
| TBool of bool
| TInt of z
| TReal of q
| TAbs of n * n
| TNot of term
| TAnd of term list
| TOr of term list
| TXor of term * term
| TImp of term list
| TIte of term * term * term
| TEq of term list
| TDistinct of term list
| TAdd of term list
| TSub of term list
| TNeg of term
| TMul of term list
| TRDiv of term * term
| TIDiv of term * term
| TMod of term * term
| TLe of term list
| TLt of term list
| TGe of term list
| TGt of term list
| TApp of n * term list

type interp = { ivar : (n -> value); ifun : (n -> value list -> value) }

type sig0 = { sig_vars : (n * sort) list;
              sig_funs : (n * (sort list * sort)) list }

val smt_div : z -> z -> z

val smt_mod : z -> z -> z

val lookup : n -> (n * 'a1) list -> 'a1 option

val as_bool : value option -> bool option

val all_bools : value option list -> bool list option

val all_some : 'a1 option list -> 'a1 list option

val num_add : value -> value -> value option

val num_sub : value -> value -> value option

val num_mul : value -> value -> value option

val num_neg : value -> value option

val num_le : value -> value -> bool option

val num_lt : value -> value -> bool option

val fold_num :
  (value -> value -> value option) -> value -> value list -> value option

val chain : (value -> value -> bool option) -> value list -> bool option

val none_equal : value -> value list -> bool option

val pairwise_distinct : value list -> bool option

val imp_right : bool list -> bool

val sem : interp -> (n * value) list -> term -> value option

type def = { d_params : (n * sort) list; d_res : sort; d_body : term }

type model = (n * def) list

val dummy_interp : interp

val clamp : sort -> value option -> value

val eval_def : def -> value list -> value

val interp_of : model -> interp

val covers_var : model -> (n * sort) -> bool

val covers_fun : model -> (n * (sort list * sort)) -> bool

val model_covers : sig0 -> model -> bool

val is_true : value option -> bool

val model_ok : sig0 -> model -> term list -> bool

val const_wellsorted : def -> bool
