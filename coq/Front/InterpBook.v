(* C19 / C21: the bookkeeping of the SMT-LIB interpreter (src/api/Interpret.cc, src/api/MainSolver.cc)
   as a state machine over abstract commands.  Definitions only; proofs in InterpBookProofs.v.

   What is modelled (file:line of the pinned tree):
     Interpret::interp           Interpret.cc:144-380   dispatch, "before set-logic" guards, wrong-mode guards
     t_assert                    Interpret.cc:221-241   parseTerm; assertions.push(tr) BEFORE insertFormula can throw
     MainSolver::insertFormula   MainSolver.cc:131-154  sort check (throws), insertedFormulasCount++ = partition index
     parseTerm / BANG_T          Interpret.cc:521-544   tryAddTermNameFor at the annotation, before the command can still fail
     defineFun/storeDefinedFun   Interpret.cc:951-1020
     declareFun/declareConst     Interpret.cc:880-949   (never scoped; re-declaration is accepted by the code)
     push / pop                  Interpret.cc:588-625, MainSolver.cc:91-124  pop n pops one by one and stops at the bottom
     getAssignment               Interpret.cc:627-648   iterates the name table
     getInterpolants             Interpret.cc:1305-1390 names -> let bindings; partition masks from the INDEX in `assertions`
     SMTConfig::setOption        SMTConfig.cc:349-354   pre-initialisation options are refused after set-logic

   Terms are abstract: a term that a command carries is the list of things parsing it does, in order,
   plus the identity and Bool-ness of the result.  The satisfiability answer of check-sat is an input
   (the bookkeeping does not depend on how it is computed).

   [fixes] selects repaired variants (all false = the code as it is). *)
From Coq Require Import List Arith NArith ZArith Bool Lia.
From OsmtV.Names Require Import ScopedVec TermNames DefinedFuns.
Import ListNotations.

Record fixes := mk_fixes {
  fx_erase : bool;     (* TermNames::eraseTermName drops the map entry with its last name *)
  fx_assert : bool;    (* assertions.push only after insertFormula succeeded *)
  fx_pop : bool;       (* pop n checks n <= level before popping anything *)
  fx_names : bool;     (* names inserted while parsing a command that is then rejected are rolled back *)
  fx_guard : bool      (* TermNames::popScope does nothing when no scope is open *)
}.
Definition as_is : fixes := mk_fixes false false false false false.

Inductive status := StUndef | StSat | StUnsat | StUnknown.
Inductive resp := ROk | RErr | ROut.       (* silent success / at least one (error ...) line / output, no error *)

Inductive pev :=
| PName (n : name) (t : term)     (* the annotation (! <t> :named n) is reached *)
| PUse (f : N)                     (* an identifier that must be a declared or defined symbol *)
| PFail.                           (* unknown symbol or ill-sorted application *)
Record aterm := mk_aterm { a_evs : list pev; a_id : term; a_bool : bool }.

Inductive opt := OGlobal | OModels | OCores | OItp | OAssign.

Inductive cmd :=
| CSetLogic (known : bool)
| CSetOpt (o : opt) (v : bool)
| CDeclSort (s : N)
| CDeclFun (f : N) (sorts_known : bool)
| CDefFun (f : N) (sorts_known : bool) (body : aterm) (sort_matches : bool)
| CAssert (a : aterm)
| CPush (n : Z)
| CPop (n : Z)
| CCheckSat (r : status)
| CGetModel
| CGetValue (ts : list aterm)
| CGetUnsatCore
| CGetAssignment
| CGetItp (groups : list (list name)).

Record book := mk_book {
  b_init : bool;
  b_global : bool; b_models : bool; b_cores : bool; b_itp : bool; b_assign : bool;
  b_assertions : list term;        (* Interpret::assertions, index order; never shrinks *)
  b_inserted : nat;                (* MainSolver::insertedFormulasCount *)
  b_frames : list (list term);     (* assertion stack, current level first *)
  b_parts : list (term * nat);     (* partition index given to each inserted formula *)
  b_names : tn;
  b_defs : df;
  b_decls : list N;                (* user_declarations, in order *)
  b_sorts : list N;
  b_status : status
}.

(* sort 0 stands for the sorts every logic predeclares (Bool, Int, Real): re-declaring them is refused *)
Definition book_init : book :=
  mk_book false false false false false false [] 0 [[]] [] tn_init df_init [] [0%N] StUndef.

Definition level (b : book) : nat := length (b_frames b) - 1.

Definition set_names (b : book) (x : tn) : book :=
  mk_book (b_init b) (b_global b) (b_models b) (b_cores b) (b_itp b) (b_assign b) (b_assertions b)
          (b_inserted b) (b_frames b) (b_parts b) x (b_defs b) (b_decls b) (b_sorts b) (b_status b).

Definition known_sym (b : book) (f : N) : bool :=
  df_has (b_defs b) f || existsb (N.eqb f) (b_decls b).

(* parseTerm: returns the state (names may have been added) and whether a term came out *)
Fixpoint parse (b : book) (evs : list pev) : book * bool :=
  match evs with
  | [] => (b, true)
  | PFail :: _ => (b, false)
  | PUse f :: r => if known_sym b f then parse b r else (b, false)
  | PName n t :: r =>
      let (x, ok) := try_insert n t (b_names b) in
      if ok then parse (set_names b x) r else (b, false)
  end.

(* a command whose term(s) have been parsed is rejected: the repaired variant forgets the names *)
Definition reject_after_parse (fx : fixes) (b0 b : book) : book :=
  if fx_names fx then set_names b (b_names b0) else b.

Fixpoint index_of (t : term) (l : list term) : option nat :=
  match l with
  | [] => None
  | x :: r => if N.eqb t x then Some 0 else option_map S (index_of t r)
  end.

Definition push1 (b : book) : book :=
  mk_book (b_init b) (b_global b) (b_models b) (b_cores b) (b_itp b) (b_assign b) (b_assertions b)
          (b_inserted b) ([] :: b_frames b) (b_parts b) (push_scope (b_global b) (b_names b))
          (df_push (b_defs b)) (b_decls b) (b_sorts b) (b_status b).

(* one successful MainSolver::pop + defined_functions.popScope; None = undefined behaviour *)
Definition pop1 (fx : fixes) (b : book) : option book :=
  match b_frames b with
  | _ :: (_ :: _) as rest =>
      match pop_scope (fx_erase fx) (fx_guard fx) (b_global b) (b_names b), df_pop (b_defs b) with
      | Some x, Some d =>
          Some (mk_book (b_init b) (b_global b) (b_models b) (b_cores b) (b_itp b) (b_assign b) (b_assertions b)
                        (b_inserted b) rest (b_parts b) x d (b_decls b) (b_sorts b) (b_status b))
      | _, _ => None
      end
  | _ => None
  end.

Fixpoint push_n (k : nat) (b : book) : book :=
  match k with O => b | S k' => push_n k' (push1 b) end.

(* while (n-- and success) { success = pop(); }  -> (state, success) *)
Fixpoint pop_n (fx : fixes) (k : nat) (b : book) : option (book * bool) :=
  match k with
  | O => Some (b, true)
  | S k' =>
      if Nat.eqb (level b) 0 then Some (b, false)
      else match pop1 fx b with Some b' => pop_n fx k' b' | None => None end
  end.

Definition int_max : Z := 2147483647.

Definition add_assertion_vec (b : book) (t : term) : book :=
  mk_book (b_init b) (b_global b) (b_models b) (b_cores b) (b_itp b) (b_assign b) (b_assertions b ++ [t])
          (b_inserted b) (b_frames b) (b_parts b) (b_names b) (b_defs b) (b_decls b) (b_sorts b) (b_status b).

Definition insert_formula (b : book) (t : term) : book :=
  mk_book (b_init b) (b_global b) (b_models b) (b_cores b) (b_itp b) (b_assign b) (b_assertions b)
          (S (b_inserted b))
          (match b_frames b with [] => [[t]] | top :: rest => (top ++ [t]) :: rest end)
          (b_parts b ++ [(t, b_inserted b)]) (b_names b) (b_defs b) (b_decls b) (b_sorts b) (b_status b).

Definition set_opt (b : book) (o : opt) (v : bool) : book :=
  mk_book (b_init b)
          (match o with OGlobal => v | _ => b_global b end)
          (match o with OModels => v | _ => b_models b end)
          (match o with OCores => v | _ => b_cores b end)
          (match o with OItp => v | _ => b_itp b end)
          (match o with OAssign => v | _ => b_assign b end)
          (b_assertions b) (b_inserted b) (b_frames b) (b_parts b) (b_names b) (b_defs b) (b_decls b)
          (b_sorts b) (b_status b).

Definition set_status (b : book) (r : status) : book :=
  mk_book (b_init b) (b_global b) (b_models b) (b_cores b) (b_itp b) (b_assign b) (b_assertions b)
          (b_inserted b) (b_frames b) (b_parts b) (b_names b) (b_defs b) (b_decls b) (b_sorts b) r.

Definition is_sat (s : status) : bool := match s with StSat => true | _ => false end.
Definition is_unsat (s : status) : bool := match s with StUnsat => true | _ => false end.

(* get-value parses every term, reports the failing ones and answers for the others *)
Fixpoint parse_all (b : book) (ts : list aterm) : book * bool :=
  match ts with
  | [] => (b, true)
  | a :: r => let (b1, ok) := parse b (a_evs a) in
              let (b2, ok2) := parse_all b1 r in (b2, ok && ok2)
  end.

(* get-interpolants: every name of every group must be live; in all groups but the last every
   named term must be a top-level assertion (index in [assertions]) *)
Definition group_terms (b : book) (g : list name) : option (list term) :=
  fold_right (fun n acc => match term_by_name (b_names b) n, acc with
                           | Some t, Some l => Some (t :: l) | _, _ => None end) (Some []) g.
Definition group_indices (b : book) (g : list name) : option (list nat) :=
  match group_terms b g with
  | None => None
  | Some ts => fold_right (fun t acc => match index_of t (b_assertions b), acc with
                                        | Some i, Some l => Some (i :: l) | _, _ => None end) (Some []) ts
  end.
Definition all_resolve (b : book) (gs : list (list name)) : bool :=
  forallb (fun g => match group_terms b g with Some _ => true | None => false end) gs.
Definition masks (b : book) (gs : list (list name)) : option (list (list nat)) :=
  fold_right (fun g acc => match group_indices b g, acc with
                           | Some i, Some l => Some (i :: l) | _, _ => None end) (Some []) (removelast gs).
(* what the partition manager knows: the partition index of the formulas named in the group *)
Definition group_parts (b : book) (g : list name) : option (list nat) :=
  match group_terms b g with
  | None => None
  | Some ts => fold_right (fun t acc => match al_find t (b_parts b), acc with
                                        | Some i, Some l => Some (i :: l) | _, _ => None end) (Some []) ts
  end.

Definition step (fx : fixes) (b : book) (c : cmd) : option (book * resp) :=
  match c with
  | CSetLogic known =>
      if b_init b then Some (b, RErr)
      else if known then
        Some (mk_book true (b_global b) (b_models b) (b_cores b) (b_itp b) (b_assign b) (b_assertions b)
                      (b_inserted b) (b_frames b) (b_parts b) (b_names b) (b_defs b) (b_decls b) (b_sorts b)
                      (b_status b), ROk)
      else Some (b, RErr)
  | CSetOpt o v =>
      match o with
      | OItp => if b_init b then Some (b, RErr) else Some (set_opt b o v, ROk)
      | _ => Some (set_opt b o v, ROk)
      end
  | CDeclSort s =>
      if negb (b_init b) then Some (b, RErr)
      else if existsb (N.eqb s) (b_sorts b) then Some (b, RErr)
      else Some (mk_book (b_init b) (b_global b) (b_models b) (b_cores b) (b_itp b) (b_assign b) (b_assertions b)
                         (b_inserted b) (b_frames b) (b_parts b) (b_names b) (b_defs b) (b_decls b)
                         (b_sorts b ++ [s]) (b_status b), ROk)
  | CDeclFun f sorts_known =>
      if negb (b_init b) then Some (b, RErr)
      else if negb sorts_known then Some (b, RErr)
      else Some (mk_book (b_init b) (b_global b) (b_models b) (b_cores b) (b_itp b) (b_assign b) (b_assertions b)
                         (b_inserted b) (b_frames b) (b_parts b) (b_names b) (b_defs b) (b_decls b ++ [f])
                         (b_sorts b) (b_status b), ROk)
  | CDefFun f sorts_known body sort_matches =>
      if negb (b_init b) then Some (b, RErr)
      else if negb sorts_known then Some (b, RErr)
      else let (b1, ok) := parse b (a_evs body) in
           if negb ok then Some (reject_after_parse fx b b1, RErr)
           else if negb sort_matches then Some (reject_after_parse fx b b1, RErr)
           else let (d, stored) := df_store (b_global b1) f (a_id body) (b_defs b1) in
                if stored
                then Some (mk_book (b_init b1) (b_global b1) (b_models b1) (b_cores b1) (b_itp b1) (b_assign b1)
                                   (b_assertions b1) (b_inserted b1) (b_frames b1) (b_parts b1) (b_names b1) d
                                   (b_decls b1) (b_sorts b1) (b_status b1), ROk)
                else Some (reject_after_parse fx b b1, RErr)
  | CAssert a =>
      if negb (b_init b) then Some (b, RErr)
      else let (b1, ok) := parse b (a_evs a) in
           if negb ok then Some (reject_after_parse fx b b1, RErr)
           else if a_bool a then Some (insert_formula (add_assertion_vec b1 (a_id a)) (a_id a), ROk)
           else if fx_assert fx then Some (reject_after_parse fx b b1, RErr)
           else Some (reject_after_parse fx b (add_assertion_vec b1 (a_id a)), RErr)
  | CPush n =>
      if negb (b_init b) then Some (b, RErr)
      else if (int_max <? n)%Z then Some (b, RErr)
      else if (n <? 0)%Z then Some (b, RErr)
      else Some (push_n (Z.to_nat n) b, ROk)
  | CPop n =>
      if negb (b_init b) then Some (b, RErr)
      else if (int_max <? n)%Z then Some (b, RErr)
      else if (n <? 0)%Z then Some (b, RErr)
      else if fx_pop fx && (level b <? Z.to_nat n) then Some (b, RErr)
      else match pop_n fx (Z.to_nat n) b with
           | Some (b', true) => Some (b', ROk)
           | Some (b', false) => Some (b', RErr)
           | None => None
           end
  | CCheckSat r =>
      if negb (b_init b) then Some (b, RErr) else Some (set_status b r, ROut)
  | CGetModel =>
      if negb (b_init b) then Some (b, RErr)
      else if negb (is_sat (b_status b)) then Some (b, RErr)
      else if negb (b_models b) then Some (b, RErr)
      else Some (b, ROut)
  | CGetValue ts =>
      if negb (b_init b) then Some (b, RErr)
      else if negb (is_sat (b_status b)) then Some (b, RErr)
      else if negb (b_models b) then Some (b, RErr)
      else let (b1, ok) := parse_all b ts in
           if ok then Some (b1, ROut) else Some (reject_after_parse fx b b1, RErr)
  | CGetUnsatCore =>
      if negb (b_cores b) then Some (b, RErr)
      else if negb (b_init b) then Some (b, RErr)
      else if negb (is_unsat (b_status b)) then Some (b, RErr)
      else Some (b, ROut)
  | CGetAssignment =>
      if negb (b_init b) then Some (b, RErr)
      else if negb (is_sat (b_status b)) then Some (b, RErr)
      else if negb (b_assign b) && negb (sv_is_empty (tn_scoped (b_names b))) then Some (b, RErr)
      else Some (b, ROut)
  | CGetItp gs =>
      if negb (b_itp b) then Some (b, RErr)
      else if negb (b_init b) then Some (b, RErr)
      else if negb (all_resolve b gs) then Some (b, RErr)
      else match masks b gs with
           | None => Some (b, RErr)
           | Some _ => if is_unsat (b_status b) then Some (b, ROut) else Some (b, RErr)
           end
  end.

Fixpoint run_from (fx : fixes) (b : book) (cs : list cmd) : option book :=
  match cs with
  | [] => Some b
  | c :: r => match step fx b c with Some (b', _) => run_from fx b' r | None => None end
  end.
Definition reachable (fx : fixes) (b : book) : Prop := exists cs, run_from fx book_init cs = Some b.

(* ---- what later commands can read ---------------------------------------------------------------- *)
Definition obs_equiv (b1 b2 : book) : Prop :=
  b_init b1 = b_init b2 /\ b_global b1 = b_global b2 /\ b_models b1 = b_models b2 /\
  b_cores b1 = b_cores b2 /\ b_itp b1 = b_itp b2 /\ b_assign b1 = b_assign b2 /\
  b_assertions b1 = b_assertions b2 /\ b_inserted b1 = b_inserted b2 /\ b_frames b1 = b_frames b2 /\
  (forall t, al_find t (b_parts b1) = al_find t (b_parts b2)) /\
  iteration (b_names b1) = iteration (b_names b2) /\
  sv_limits (tn_scoped (b_names b1)) = sv_limits (tn_scoped (b_names b2)) /\
  (forall n, term_by_name (b_names b1) n = term_by_name (b_names b2) n) /\
  (forall t, names_for_term (b_names b1) t = names_for_term (b_names b2) t) /\
  (forall f, df_find (b_defs b1) f = df_find (b_defs b2) f) /\
  df_scoped (b_defs b1) = df_scoped (b_defs b2) /\
  b_decls b1 = b_decls b2 /\ b_sorts b1 = b_sorts b2 /\ b_status b1 = b_status b2.

Definition rejected (r : option (book * resp)) : Prop := exists b', r = Some (b', RErr).

(* the three situations in which the code as it is changes state although it rejects the command *)
Fixpoint names_free (evs : list pev) : bool :=
  match evs with
  | [] => true
  | PName _ _ :: _ => false
  | _ :: r => names_free r
  end.

Definition benign (b : book) (c : cmd) : bool :=
  match c with
  | CAssert a => names_free (a_evs a) && a_bool a
  | CDefFun _ _ body _ => names_free (a_evs body)
  | CGetValue ts => forallb (fun a => names_free (a_evs a)) ts
  | CPop n => (n <? 0)%Z || (int_max <? n)%Z || Nat.eqb (level b) 0
  | _ => true
  end.
