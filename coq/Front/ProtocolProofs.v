(* C18: proofs about Front/Protocol.v *)
From Coq Require Import List Bool.
From OsmtV.Front Require Import ProtocolBase Protocol_Gen Protocol.
Import ListNotations.

Lemma uncaught_classes_lemma : forall c s e, caught c s e = false <-> In e (escaping c s).
Proof.
  intros c s e. unfold escaping. rewrite filter_In. split.
  - intro H. split; [destruct e; simpl; auto 20 | rewrite H; reflexivity].
  - intros [_ H]. apply negb_true_iff in H. exact H.
Qed.

Definition well (o : outcome) : Prop :=
  ending_of o <> Abort /\ (problem o = true <-> ending_of o = Exit true) /\ (diag o = true <-> problem o = true).

Lemma well_finish : forall pb, well (finish (negb pb) pb pb).
Proof.
  intro pb. unfold well, finish; simpl. rewrite negb_involutive.
  split; [discriminate | split; split; intro H; try congruence].
Qed.

Lemma caught_good : forall c s e,
  (forall e, existsb (fun h => catches h e) (interp_handlers c) = true) -> caught c s e = true.
Proof. intros c s e H. unfold caught. rewrite existsb_app, H. apply orb_true_r. Qed.

Lemma exec_cmd_good : forall c pb x, good c ->
  match exec_cmd c (negb pb) pb pb x with
  | Stop o => well o
  | Continue ok' dg' pb' => ok' = negb pb' /\ dg' = pb'
  end.
Proof.
  intros c pb x (G1 & G2 & G3 & G4). unfold exec_cmd. rewrite G2.
  destruct (res x) as [| | s e]; simpl.
  - auto.
  - rewrite andb_false_r. auto.
  - destruct (caught c s e) eqn:E.
    + rewrite andb_false_r. auto.
    + destruct G4 as [G4 | G4].
      * rewrite G4. unfold well; simpl. split; [discriminate | split; split; auto].
      * rewrite (caught_good c s e G4) in E. discriminate.
Qed.

Lemma exec_all_good : forall c xs pb, good c -> well (exec_all c (negb pb) pb pb xs).
Proof.
  induction xs as [| x r IH]; intros pb G; simpl.
  - apply well_finish.
  - pose proof (exec_cmd_good c pb x G) as H.
    destruct (exec_cmd c (negb pb) pb pb x) as [ok' dg' pb' | o]; [| exact H].
    destruct H as [-> ->]. destruct (is_exit x); [apply well_finish | apply IH; exact G].
Qed.

Lemma parse_failed_good : forall c, good c -> well (parse_failed c).
Proof.
  intros c (G1 & _). unfold parse_failed, well; simpl. rewrite G1.
  split; [discriminate | split; split; auto].
Qed.

Lemma well_fatal : well (mkOut true true (Exit true)).
Proof. unfold well; simpl. split; [discriminate | split; split; auto]. Qed.

Lemma run_file_good : forall c s, good c -> well (run_file c s).
Proof.
  intros c s G. unfold run_file.
  destruct (first_syntax (cmds s)).
  - destruct (tl s); [apply (exec_all_good c (cmds s) false G) | apply parse_failed_good; exact G].
  - apply parse_failed_good; exact G.
  - apply parse_failed_good; exact G.
  - apply well_fatal.
Qed.

Lemma run_pipe_good : forall c xs t pb, good c -> well (run_pipe_from c (negb pb) pb pb xs t).
Proof.
  induction xs as [| x r IH]; intros t pb G; simpl.
  - destruct t; [apply well_finish |].
    destruct G as (_ & G2 & G3 & _). rewrite G3, G2, andb_false_r. apply (well_finish true).
  - destruct (syn x).
    + pose proof (exec_cmd_good c pb x G) as H.
      destruct (exec_cmd c (negb pb) pb pb x) as [ok' dg' pb' | o]; [| exact H].
      destruct H as [-> ->]. destruct (is_exit x); [apply well_finish | apply IH; exact G].
    + destruct (yyerror_clears c); [apply well_fatal |].
      destruct G as (G1 & G2 & G'). rewrite G2, andb_false_r. apply (IH t true). repeat split; tauto.
    + destruct G as (G1 & G2 & G'). rewrite G2, andb_false_r. apply (well_finish true).
    + apply well_fatal.
Qed.

Lemma run_good : forall c m s, good c -> well (run c m s).
Proof.
  intros c m s G. destruct m; simpl.
  - apply run_file_good; exact G.
  - apply (run_pipe_good c (cmds s) (tl s) false G).
Qed.

Lemma fixed_cfg_good : good fixed_cfg.
Proof.
  unfold good, fixed_cfg; simpl. repeat split; auto.
  right. intro e. destruct e; reflexivity.
Qed.

(* refutations on the regenerated configuration *)
Definition bad_syntax_cmd : cmd := mkCmd SynParse ROk false.

Lemma status_refuted_lemma : forall c,
  main_checks_parse c || yyerror_clears c = false ->
  exists s, let o := run c MFile s in
            problem o = true /\ diag o = true /\ ending_of o = Exit false.
Proof.
  intros c H. exists (mkScript [bad_syntax_cmd] TNone). simpl. unfold run_file, parse_failed; simpl.
  rewrite H. auto.
Qed.

Lemma pending_refuted_lemma : forall c,
  pipe_reports_pending c = false ->
  exists s, let o := run c MPipe s in
            problem o = true /\ diag o = false /\ ending_of o = Exit false.
Proof.
  intros c H. exists (mkScript [] TPending). simpl. rewrite H. simpl. auto.
Qed.

Lemma abort_refuted_lemma : forall c s e,
  caught c s e = false -> main_catches c = false ->
  exists sc m, ending_of (run c m sc) = Abort.
Proof.
  intros c s e H1 H2. exists (mkScript [mkCmd SynOk (RThrow s e) false] TNone), MFile.
  simpl. unfold run_file; simpl. unfold exec_cmd; simpl. rewrite H1, H2. reflexivity.
Qed.

(* the front end regenerated from the current tree is a good one (holds since the fix: commits 0fce10d, f4f7f0c, fe50f31) *)
Lemma gen_cfg_good : good gen_cfg.
Proof.
  unfold good, gen_cfg; simpl. repeat split; try reflexivity.
  right. intro e. destruct e; reflexivity.
Qed.
