(* C18: the status / diagnostic protocol of the opensmt executable.  Definitions only.

   Code anchors (/repo/src):
     bin/opensmt.cc:96-132        main: pipe mode -> interpPipe(); file mode -> interpFile(fin), value dropped;
                                  exit status = interpreter.okStatus() ? 0 : 1; no try block
     api/Interpret.cc:1110-1119   interpFile: one parser call for the whole file; rval != 0 -> return (nothing executed)
     api/Interpret.cc:1101-1108   execute: commands in order while !f_exit
     api/Interpret.cc:144-380     interp: one try block around the command switch, handler: ApiException -> notify_formatted(true, what)
                                  inner handlers: 233 (insertFormula: ApiException), 348/362 (push/pop: std::out_of_range),
                                  488-490 (term application: ArithDivisionByZeroException, ApiException), 743 (get-value printing: std::logic_error)
     api/Interpret.cc:1057-1093   notify_formatted(error=true): prints (error ...) and clears _okStatus
     api/Interpret.cc:1133-1244   interpPipe: per frame parse; parse error -> notify_formatted(true, scanner);
                                  unbalanced ')' -> error + done; end of input -> break (pending text dropped silently)
     parsers/smt2new/smt2newparser.yy:56-63   osmt_yyerror: printf only (exit(1) commented out)
     parsers/smt2new/smt2newlexer.ll:170,173  lexer: printf + exit(1)
   The facts marked in Protocol_Gen.v are regenerated from those files on every check. *)
From Coq Require Import List Bool.
From OsmtV.Front Require Import ProtocolBase Protocol_Gen.
Import ListNotations.

Record cfg := mkCfg {
  main_checks_parse : bool;      (* main turns a failed interpFile into a non-zero status *)
  main_catches : bool;           (* main has a try block turning an exception into diagnostic + non-zero status *)
  yyerror_clears : bool;         (* yyerror ends the run with non-zero status / clears okStatus *)
  interp_handlers : list handler;
  notify_clears : bool;          (* notify_formatted(true, ..) clears okStatus *)
  pipe_reports_pending : bool    (* interpPipe reports text pending at end of input *)
}.

Definition gen_cfg : cfg :=
  mkCfg gen_main_checks_parse gen_main_has_try gen_yyerror_clears_status gen_interp_handlers
        gen_notify_clears_status gen_pipe_reports_pending.

(* where in a command an exception is thrown: decides which inner handlers are in scope *)
Inductive site := SGeneric | SPushPop | STermApp | SInsertFormula | SGetValuePrint.

Definition site_handlers (s : site) : list handler :=
  match s with
  | SGeneric => []
  | SPushPop => [HOutOfRange]
  | STermApp => [HDivZero; HApi]
  | SInsertFormula => [HApi]
  | SGetValuePrint => [HLogicError]
  end.

Definition caught (c : cfg) (s : site) (e : exn) : bool :=
  existsb (fun h => catches h e) (site_handlers s ++ interp_handlers c).

Definition escaping (c : cfg) (s : site) : list exn := filter (fun e => negb (caught c s e)) all_exn.

(* one command of the input, as the front end meets it *)
Inductive syntax := SynOk | SynParse | SynUnbalanced | SynLexFatal.
Inductive result := ROk | RError | RThrow (s : site) (e : exn).
Record cmd := mkCmd { syn : syntax; res : result; is_exit : bool }.
Inductive tail := TNone | TPending.          (* text after the last complete command: nothing / an incomplete command or stray tokens *)
Record script := mkScript { cmds : list cmd; tl : tail }.
Inductive mode := MFile | MPipe.

Inductive ending := Exit (nonzero : bool) | Abort.
(* diag: something was printed on stdout for a problem; problem: the input had a problem that was met *)
Record outcome := mkOut { diag : bool; problem : bool; ending_of : ending }.

Definition finish (ok dg pb : bool) : outcome := mkOut dg pb (Exit (negb ok)).

(* executing one syntactically correct command *)
Inductive step := Continue (ok dg pb : bool) | Stop (o : outcome).

Definition exec_cmd (c : cfg) (ok dg pb : bool) (x : cmd) : step :=
  match res x with
  | ROk => Continue ok dg pb
  | RError => Continue (ok && negb (notify_clears c)) true true
  | RThrow s e =>
      if caught c s e then Continue (ok && negb (notify_clears c)) true true
      else if main_catches c then Stop (mkOut true true (Exit true))
      else Stop (mkOut dg true Abort)                       (* std::terminate -> SIGABRT *)
  end.

Fixpoint exec_all (c : cfg) (ok dg pb : bool) (xs : list cmd) : outcome :=
  match xs with
  | [] => finish ok dg pb
  | x :: r => match exec_cmd c ok dg pb x with
              | Stop o => o
              | Continue ok' dg' pb' => if is_exit x then finish ok' dg' pb' else exec_all c ok' dg' pb' r
              end
  end.

(* the first syntactic problem in text order *)
Fixpoint first_syntax (xs : list cmd) : syntax :=
  match xs with
  | [] => SynOk
  | x :: r => match syn x with SynOk => first_syntax r | s => s end
  end.

Definition parse_failed (c : cfg) : outcome :=
  mkOut true true (Exit (main_checks_parse c || yyerror_clears c)).

Definition run_file (c : cfg) (s : script) : outcome :=
  match first_syntax (cmds s) with
  | SynLexFatal => mkOut true true (Exit true)                   (* printf + exit(1) *)
  | SynParse | SynUnbalanced => parse_failed c
  | SynOk => match tl s with
             | TPending => parse_failed c
             | TNone => exec_all c true false false (cmds s)
             end
  end.

Fixpoint run_pipe_from (c : cfg) (ok dg pb : bool) (xs : list cmd) (t : tail) : outcome :=
  match xs with
  | [] => match t with
          | TNone => finish ok dg pb
          | TPending => if pipe_reports_pending c then finish (ok && negb (notify_clears c)) true true
                        else finish ok dg true                   (* dropped silently *)
          end
  | x :: r =>
      match syn x with
      | SynLexFatal => mkOut true true (Exit true)
      | SynParse => if yyerror_clears c then mkOut true true (Exit true)
                    else run_pipe_from c (ok && negb (notify_clears c)) true true r t   (* (error scanner) *)
      | SynUnbalanced => finish (ok && negb (notify_clears c)) true true              (* error + done *)
      | SynOk => match exec_cmd c ok dg pb x with
                 | Stop o => o
                 | Continue ok' dg' pb' => if is_exit x then finish ok' dg' pb' else run_pipe_from c ok' dg' pb' r t
                 end
      end
  end.

Definition run (c : cfg) (m : mode) (s : script) : outcome :=
  match m with
  | MFile => run_file c s
  | MPipe => run_pipe_from c true false false (cmds s) (tl s)
  end.

(* a front end in which every problem is reported and no exception reaches the runtime *)
Definition good (c : cfg) : Prop :=
  (main_checks_parse c || yyerror_clears c = true) /\ notify_clears c = true /\ pipe_reports_pending c = true /\
  (main_catches c = true \/ forall e, existsb (fun h => catches h e) (interp_handlers c) = true).

(* the repaired front end proposed in proposed_fixes/C18_*.diff *)
Definition fixed_cfg : cfg := mkCfg true false false [HApi; HStdException; HAll] true true.
