(* C08 / C09: the request -> partition-mask mapping of Interpret::getInterpolants (src/api/Interpret.cc:1305-1378).

     t_assert               Interpret.cc:221-241    parseTerm; `assertions.push(tr)` BEFORE MainSolver::insertFormula, which throws for a
                                                     non-Bool term (MainSolver.cc:105-108) -> the vector and the partition count diverge
     insertFormula          MainSolver.cc:105-128   partition index of an accepted assertion = insertedFormulasCount++
     push / pop             the `assertions` vector is never popped; MainSolver pops its frames
     getInterpolants        Interpret.cc:1305-1362  a name stands for its TERM (let-binding name -> term, 1311-1314); a group is a term:
                                                     is_top_level_assertion(group) -> bit get_assertion_index(group)
                                                     else isAnd(group) -> one bit per child, each child must be a top-level assertion
                                                     else "Invalid arguments of get-interpolants command";
                                                     masks are cumulative (p is never reset), the last group is ignored
     get_assertion_index    Interpret.cc:1385-1390  FIRST index i with assertions[i] == term
     Logic::mkAnd           logics/Logic.cc:362-403 the group `(and n1 .. nk)` is rebuilt by the term constructor: duplicates collapse,
                                                     `true` is dropped, `false` / complementary members fold to `false`, one survivor is returned as is

   Terms are hash-consed identities; what matters about them here is equality and complementarity, so a term is `true`, `false`,
   an opaque Boolean term n, or the negation of one.  (An assertion that is itself an `and` of other assertions is not modelled.)
   [fixd] = the repaired front end (assertions.push after insertFormula succeeded). *)
From Coq Require Import List Bool Arith PeanoNat Lia.
Import ListNotations.

Inductive term := T_true | T_false | T_pos (n : nat) | T_neg (n : nat).

Definition term_eqb (a b : term) : bool :=
  match a, b with
  | T_true, T_true | T_false, T_false => true
  | T_pos n, T_pos m | T_neg n, T_neg m => Nat.eqb n m
  | _, _ => false
  end.
Definition compl (a b : term) : bool :=
  match a, b with
  | T_pos n, T_neg m | T_neg n, T_pos m => Nat.eqb n m
  | T_true, T_false | T_false, T_true => true
  | _, _ => false
  end.

Inductive ev := EAssert (t : term) (isbool : bool) | EPush | EPop.

Record st := mk_st {
  asrt : list term;                      (* Interpret::assertions *)
  ins : nat;                             (* MainSolver::insertedFormulasCount *)
  cur : list (list (nat * term))         (* assertion stack, current frame first: (partition index, term) *)
}.
Definition init : st := mk_st [] 0 [[]].

Definition add_top (x : nat * term) (fs : list (list (nat * term))) : list (list (nat * term)) :=
  match fs with [] => [[x]] | f :: r => (f ++ [x]) :: r end.

Definition step (fixd : bool) (s : st) (e : ev) : st :=
  match e with
  | EAssert t true => mk_st (asrt s ++ [t]) (S (ins s)) (add_top (ins s, t) (cur s))
  | EAssert t false => mk_st (if fixd then asrt s else asrt s ++ [t]) (ins s) (cur s)
  | EPush => mk_st (asrt s) (ins s) ([] :: cur s)
  | EPop => mk_st (asrt s) (ins s) (match cur s with _ :: (_ :: _) as r => r | fs => fs end)
  end.
Definition run (fixd : bool) (h : list ev) : st := fold_left (step fixd) h init.

Definition current (s : st) : list (nat * term) := concat (cur s).

Fixpoint first_index (t : term) (l : list term) : option nat :=
  match l with
  | [] => None
  | x :: r => if term_eqb t x then Some 0 else option_map S (first_index t r)
  end.

Definition term_of (s : st) (i : nat) : option term :=
  option_map snd (find (fun x => Nat.eqb (fst x) i) (current s)).

Fixpoint map_opt {X Y : Type} (f : X -> option Y) (l : list X) : option (list Y) :=
  match l with
  | [] => Some []
  | x :: r => match f x, map_opt f r with Some y, Some ys => Some (y :: ys) | _, _ => None end
  end.

(* Logic::mkAnd on Boolean arguments *)
Inductive mk := MTerm (t : term) | MAnd (ts : list term).
Fixpoint dedup (ts : list term) : list term :=
  match ts with [] => [] | t :: r => if existsb (term_eqb t) r then dedup r else t :: dedup r end.
Definition mk_and (ts : list term) : mk :=
  if existsb (term_eqb T_false) ts || existsb (fun a => existsb (compl a) ts) ts then MTerm T_false
  else match dedup (filter (fun t => negb (term_eqb t T_true)) ts) with
       | [] => MTerm T_true
       | [t] => MTerm t
       | l => MAnd l
       end.

(* one group given by the partition indices of the (current) assertions its names stand for;
   result: the bits that are set; None = the request is refused *)
Definition impl_group (s : st) (g : list nat) : option (list nat) :=
  match map_opt (term_of s) g with
  | None => None
  | Some [t] => option_map (fun i => [i]) (first_index t (asrt s))
  | Some ts =>
      match mk_and ts with
      | MTerm t => option_map (fun i => [i]) (first_index t (asrt s))
      | MAnd l => map_opt (fun t => first_index t (asrt s)) l
      end
  end.

Fixpoint impl_masks (s : st) (acc : list nat) (groups : list (list nat)) : option (list (list nat)) :=
  match groups with
  | [] => Some []
  | [_] => Some []
  | g :: r => match impl_group s g with
              | None => None
              | Some m => option_map (cons (acc ++ m)) (impl_masks s (acc ++ m) r)
              end
  end.

(* what the property asks for: the partitions of the named assertions themselves, cumulatively *)
Fixpoint spec_masks (acc : list nat) (groups : list (list nat)) : list (list nat) :=
  match groups with
  | [] => []
  | [_] => []
  | g :: r => (acc ++ g) :: spec_masks (acc ++ g) r
  end.

Definition asserted (h : list ev) : list term :=
  flat_map (fun e => match e with EAssert t _ => [t] | _ => [] end) h.
Definition no_rejected (h : list ev) : Prop := forall t b, In (EAssert t b) h -> b = true.

(* a group whose conjunction Logic::mkAnd leaves alone *)
Definition no_fold (ts : list term) : Prop :=
  NoDup ts /\ (forall t, In t ts -> t <> T_true /\ t <> T_false) /\ (forall a b, In a ts -> In b ts -> compl a b = false).

Definition group_ok (s : st) (g : list nat) : Prop :=
  g <> [] /\ exists ts, map_opt (term_of s) g = Some ts /\ no_fold ts.

(* ---- proofs ------------------------------------------------------------------------------------- *)
Lemma term_eqb_eq : forall a b, term_eqb a b = true <-> a = b.
Proof.
  intros [| |n|n] [| |m|m]; simpl; split; intros H; try discriminate; try reflexivity;
    try (apply Nat.eqb_eq in H; now subst); try (injection H as ->; apply Nat.eqb_refl).
Qed.

Lemma first_index_nth : forall l t i, NoDup l -> nth_error l i = Some t -> first_index t l = Some i.
Proof.
  induction l as [|x l IH]; intros t [|i] Hnd H; simpl in *; try discriminate.
  - injection H as ->. now rewrite (proj2 (term_eqb_eq t t) eq_refl).
  - inversion Hnd; subst. destruct (term_eqb t x) eqn:E.
    + apply term_eqb_eq in E. subst. exfalso. apply H2. eapply nth_error_In; eauto.
    + now rewrite (IH t i H3 H).
Qed.

(* invariant of the repaired bookkeeping: partition indices are positions in `assertions` *)
Definition wf (s : st) : Prop :=
  length (asrt s) = ins s /\ (forall i t, In (i, t) (current s) -> nth_error (asrt s) i = Some t)
  /\ NoDup (map fst (current s)).

Lemma in_current_add_top : forall x fs y, In y (concat (add_top x fs)) <-> In y (concat fs) \/ y = x.
Proof.
  intros x [|f r] y; simpl.
  - intuition (subst; auto).
  - rewrite !in_app_iff. simpl. intuition (subst; auto).
Qed.

Lemma map_fst_add_top : forall (x : nat * term) (fs : list (list (nat * term))), exists l1 l2, map fst (concat fs) = l1 ++ l2 /\ map fst (concat (add_top x fs)) = l1 ++ fst x :: l2.
Proof.
  intros x [|f r]; simpl.
  - exists [], []. auto.
  - exists (map fst f), (map fst (concat r)). rewrite !map_app. simpl. rewrite <- app_assoc. auto.
Qed.

Lemma current_pop_incl : forall (fs : list (list (nat * term))) (y : nat * term), In y (concat (match fs with _ :: (_ :: _) as r => r | fs0 => fs0 end)) -> In y (concat fs).
Proof.
  intros [|f [|g r]] y; simpl; auto. intros H. apply in_or_app. right. exact H.
Qed.

Lemma wf_bound : forall s, wf s -> forall i t, In (i, t) (current s) -> i < ins s.
Proof.
  intros s [Hl [Hn _]] i t H. rewrite <- Hl. apply nth_error_Some. rewrite (Hn i t H). discriminate.
Qed.

Lemma wf_step_true : forall s e, wf s -> wf (step true s e).
Proof.
  intros s e Hw. pose proof (wf_bound s Hw) as Hb. destruct Hw as [Hl [Hn Hd]]. destruct e as [t [|]| |]; unfold wf, current in *; simpl.
  - repeat split.
    + rewrite app_length. simpl. lia.
    + intros i u H. apply in_current_add_top in H. destruct H as [H|H].
      * rewrite nth_error_app1; auto. rewrite Hl. eapply Hb; eauto.
      * injection H as -> ->. rewrite nth_error_app2; [|lia]. rewrite Hl, Nat.sub_diag. reflexivity.
    + destruct (map_fst_add_top (ins s, t) (cur s)) as [l1 [l2 [E1 E2]]]. rewrite E2. simpl.
      apply (NoDup_Add (Add_app (ins s) l1 l2)). rewrite <- E1. split; [exact Hd|].
      intros Hin. apply in_map_iff in Hin. destruct Hin as [[j u] [Ej Hin]]. simpl in Ej. subst j.
      pose proof (Hb _ _ Hin). lia.
  - auto.
  - auto.
  - destruct (cur s) as [|f [|g r]]; repeat split; auto.
    + intros i t H. apply Hn. simpl in *. apply in_or_app. right. exact H.
    + simpl in *. rewrite map_app in Hd. clear -Hd. induction (map fst f) as [|x l IH]; simpl in *; auto.
      inversion Hd; subst. auto.
Qed.

Lemma run_step : forall fixd h s, fold_left (step fixd) h s = fold_left (step fixd) h s. Proof. reflexivity. Qed.

Lemma wf_run_from : forall h s, wf s -> wf (fold_left (step true) h s).
Proof. induction h as [|e h IH]; simpl; intros s H; auto. apply IH. now apply wf_step_true. Qed.

Lemma step_same_when_accepted : forall s e, (forall t b, e = EAssert t b -> b = true) -> step false s e = step true s e.
Proof. intros s [t [|]| |] H; simpl; auto. specialize (H t false eq_refl). discriminate. Qed.

Lemma run_same_when_no_rejected : forall h s, no_rejected h -> fold_left (step false) h s = fold_left (step true) h s.
Proof.
  induction h as [|e h IH]; simpl; intros s H; auto.
  rewrite step_same_when_accepted; [|intros t b ->; apply (H t b); now left].
  apply IH. intros t b Hin. apply (H t b). now right.
Qed.

Lemma asrt_run_true : forall h s, asrt (fold_left (step true) h s)
  = asrt s ++ flat_map (fun e => match e with EAssert t true => [t] | _ => [] end) h.
Proof.
  induction h as [|e h IH]; simpl; intros s; [now rewrite app_nil_r|].
  rewrite IH. destruct e as [t [|]| |]; simpl; auto. now rewrite <- app_assoc.
Qed.

Lemma term_of_in : forall s i t, term_of s i = Some t -> In (i, t) (current s).
Proof.
  intros s i t. unfold term_of. destruct (find _ (current s)) as [[j u]|] eqn:E; simpl; [|discriminate].
  intros [= ->]. apply find_some in E. destruct E as [H1 H2]. simpl in H2. apply Nat.eqb_eq in H2. now subst.
Qed.

Lemma map_opt_term_of_first_index : forall s g ts, wf s -> NoDup (asrt s) ->
  map_opt (term_of s) g = Some ts -> map_opt (fun t => first_index t (asrt s)) ts = Some g.
Proof.
  intros s g ts [Hl [Hn Hd]] Hnd. revert ts. induction g as [|i g IH]; simpl; intros ts H.
  - injection H as <-. reflexivity.
  - destruct (term_of s i) as [t|] eqn:Et; [|discriminate]. destruct (map_opt (term_of s) g) as [us|]; [|discriminate].
    injection H as <-. simpl. rewrite (first_index_nth _ _ i Hnd (Hn _ _ (term_of_in _ _ _ Et))). now rewrite (IH us eq_refl).
Qed.

Lemma mk_and_no_fold : forall ts, no_fold ts -> 2 <= length ts -> mk_and ts = MAnd ts.
Proof.
  intros ts [Hnd [Hc Hcp]] Hlen. unfold mk_and.
  assert (E1 : existsb (term_eqb T_false) ts = false).
  { destruct (existsb (term_eqb T_false) ts) eqn:E; auto. apply existsb_exists in E. destruct E as [x [Hx E]].
    apply term_eqb_eq in E. subst. destruct (Hc _ Hx) as [_ H]. congruence. }
  assert (E2 : existsb (fun a => existsb (compl a) ts) ts = false).
  { destruct (existsb (fun a => existsb (compl a) ts) ts) eqn:E; auto. apply existsb_exists in E. destruct E as [x [Hx E]].
    apply existsb_exists in E. destruct E as [y [Hy E]]. rewrite (Hcp x y Hx Hy) in E. discriminate. }
  rewrite E1, E2. simpl.
  assert (F : filter (fun t => negb (term_eqb t T_true)) ts = ts).
  { clear -Hc. induction ts as [|t ts IH]; simpl; auto.
    destruct (term_eqb t T_true) eqn:E; simpl.
    - apply term_eqb_eq in E. destruct (Hc t (or_introl eq_refl)) as [H _]. congruence.
    - f_equal. apply IH. intros u Hu. apply Hc. now right. }
  rewrite F.
  assert (D : dedup ts = ts).
  { clear -Hnd. induction ts as [|t ts IH]; simpl; auto. inversion Hnd; subst.
    destruct (existsb (term_eqb t) ts) eqn:E.
    - apply existsb_exists in E. destruct E as [x [Hx E]]. apply term_eqb_eq in E. subst. contradiction.
    - f_equal. now apply IH. }
  rewrite D. destruct ts as [|a [|b r]]; simpl in Hlen; try lia. reflexivity.
Qed.

Lemma impl_group_correct : forall s g, wf s -> NoDup (asrt s) -> group_ok s g -> impl_group s g = Some g.
Proof.
  intros s g Hw Hnd [Hne [ts [Hts Hnf]]]. unfold impl_group. rewrite Hts.
  pose proof (map_opt_term_of_first_index s g ts Hw Hnd Hts) as Hm.
  destruct ts as [|t [|u r]].
  - destruct g; [contradiction|]. simpl in Hts. destruct (term_of s n); [|discriminate].
    destruct (map_opt (term_of s) g); discriminate.
  - simpl in Hm. destruct (first_index t (asrt s)) as [i|]; [|discriminate]. simpl.
    destruct g as [|j [|k g']]; simpl in *; try discriminate. now injection Hm as ->.
  - rewrite (mk_and_no_fold _ Hnf); [exact Hm | simpl; lia].
Qed.

Lemma impl_masks_correct : forall s groups acc, wf s -> NoDup (asrt s) ->
  (forall g, In g groups -> group_ok s g) -> impl_masks s acc groups = Some (spec_masks acc groups).
Proof.
  intros s groups. induction groups as [|g r IH]; intros acc Hw Hnd Hok; [reflexivity|].
  destruct r as [|g2 r]; [reflexivity|].
  change (impl_masks s acc (g :: g2 :: r)) with
    (match impl_group s g with None => None | Some m => option_map (cons (acc ++ m)) (impl_masks s (acc ++ m) (g2 :: r)) end).
  rewrite (impl_group_correct s g Hw Hnd (Hok g (or_introl eq_refl))).
  rewrite (IH (acc ++ g) Hw Hnd); [reflexivity|]. intros g' Hg'. apply Hok. now right.
Qed.

(* the mapping is right for histories without rejected asserts in which no term is asserted twice (popped ones included),
   for groups that Logic::mkAnd does not fold *)
Theorem request_mask_correct : forall h groups,
  no_rejected h -> NoDup (asserted h) ->
  (forall g, In g groups -> group_ok (run false h) g) ->
  impl_masks (run false h) [] groups = Some (spec_masks [] groups).
Proof.
  intros h groups Hr Hnd Hok. unfold run in *. rewrite (run_same_when_no_rejected h init Hr) in *.
  apply impl_masks_correct; auto.
  - apply wf_run_from. unfold wf, init, current; simpl. repeat split; auto. intros i t []. constructor.
  - rewrite asrt_run_true. simpl.
    assert (E : flat_map (fun e => match e with EAssert t true => [t] | _ => [] end) h = asserted h).
    { clear -Hr. unfold asserted. induction h as [|e h IH]; simpl; auto.
      rewrite IH; [|intros t b Hin; apply (Hr t b); now right].
      destruct e as [t [|]| |]; auto. specialize (Hr t false (or_introl eq_refl)). discriminate. }
    now rewrite E.
Qed.

(* with the repair (assertions.push only after insertFormula succeeded) rejected asserts are harmless *)
Theorem request_mask_correct_fixed : forall h groups,
  NoDup (flat_map (fun e => match e with EAssert t true => [t] | _ => [] end) h) ->
  (forall g, In g groups -> group_ok (run true h) g) ->
  impl_masks (run true h) [] groups = Some (spec_masks [] groups).
Proof.
  intros h groups Hnd Hok. apply impl_masks_correct; auto.
  - apply wf_run_from. unfold wf, init, current; simpl. repeat split; auto. intros i t []. constructor.
  - unfold run. rewrite asrt_run_true. exact Hnd.
Qed.

(* ---- the mapping is wrong in general: four witnesses, each replayed on the implementation --------- *)
(* (assert x) with x : Real, then three named assertions; (get-interpolants a1 (and a2 a3)):
   corpus/C08/index_shift_rejected_assert.smt2 *)
Definition h_rejected : list ev := [EAssert (T_pos 9) false; EAssert (T_pos 1) true; EAssert (T_pos 2) true; EAssert (T_pos 3) true].
(* (assert a1)(push)(assert (! F :named a2))(pop)(assert (! F :named a3))(assert a4); (get-interpolants a3 (and a1 a4)):
   corpus/C08/reasserted_after_pop.smt2 *)
Definition h_popped : list ev := [EAssert (T_pos 1) true; EPush; EAssert (T_pos 2) true; EPop; EAssert (T_pos 2) true; EAssert (T_pos 3) true].
(* the same term asserted twice; (get-interpolants (and a3 a2 a4) a1): corpus/C08/duplicate_term.smt2 *)
Definition h_dup : list ev := [EAssert (T_neg 1) true; EAssert (T_pos 1) true; EAssert (T_pos 1) true; EAssert (T_neg 0) true].
(* (and a2 a3) with complementary members: corpus/C08/and_group_folds.smt2;
   (and a4 a1) with a4 = false: corpus/C08/and_group_folds_wrong_itp.smt2 *)
Definition h_fold : list ev := [EAssert (T_pos 1) true; EAssert (T_neg 0) true; EAssert (T_pos 0) true].
Definition h_fold2 : list ev := [EAssert (T_pos 1) true; EAssert (T_neg 2) true; EAssert (T_pos 3) true; EAssert T_false true].

Theorem request_mask_correct_refuted :
  (* holds for the repaired and the unrepaired front end alike (no rejected assert in these histories): every requested index
     is current in each case; the computed masks differ from the requested ones, or the request is refused *)
  impl_masks (run true h_popped) [] [[2]; [0; 3]] = Some [[1]]
  /\ spec_masks [] [[2]; [0; 3]] = [[2]]
  /\ impl_masks (run true h_dup) [] [[2; 1; 3]; [0]] = Some [[1; 3]]
  /\ spec_masks [] [[2; 1; 3]; [0]] = [[2; 1; 3]]
  /\ impl_masks (run true h_fold) [] [[1; 2]; [0]] = None
  /\ impl_masks (run true h_fold2) [] [[3; 0]; [1; 2]] = Some [[3]]
  /\ spec_masks [] [[3; 0]; [1; 2]] = [[3; 0]]
  /\ run true h_popped = run false h_popped /\ run true h_dup = run false h_dup
  /\ run true h_fold = run false h_fold /\ run true h_fold2 = run false h_fold2.
Proof. vm_compute. repeat split. Qed.

(* the front end BEFORE /repo commit 125fd6d (assertions.push before insertFormula): a rejected assert shifts the indices;
   after the commit (fixd = true) the same request gets the requested mask *)
Theorem request_mask_unrepaired_refuted :
  impl_masks (run false h_rejected) [] [[0]; [1; 2]] = Some [[1]]
  /\ spec_masks [] [[0]; [1; 2]] = [[0]]
  /\ impl_masks (run true h_rejected) [] [[0]; [1; 2]] = Some [[0]].
Proof. vm_compute. repeat split. Qed.

(* non-vacuity of request_mask_correct *)
Example request_mask_example :
  impl_masks (run false [EAssert (T_pos 1) true; EPush; EAssert (T_pos 2) true; EAssert (T_neg 3) true]) [] [[0; 2]; [1]]
  = Some [[0; 2]].
Proof. reflexivity. Qed.

(* entry point used by the extracted driver *)
Definition request_masks (fixd : bool) (h : list ev) (groups : list (list nat)) : option (list (list nat)) :=
  impl_masks (run fixd h) [] groups.
