(* C18: exception classes of the code base and the handler types that occur in catch clauses.
   DQ-free comments.  Hierarchy (file:line in /repo/src):
     ApiException                 : public std::runtime_error      common/ApiException.h:11
     LANonLinearException         : public std::runtime_error      logics/ArithLogic.h:11
     ArithDivisionByZeroException : public std::runtime_error      logics/ArithLogic.h:22
     InternalException            : public std::exception          common/InternalException.h:11
     strConvException             : (private) std::exception       common/StringConv.h:15
         -- private base: a handler for std::exception does NOT catch it
     std::logic_error, std::out_of_range : logic_error, std::invalid_argument : logic_error   (std::stoi, Interpret.cc:711,
         TSolver::fillTheoryFunctions, InterpolationContext.cc:914, UFInterpolator.cc:119)
     std::overflow_error / underflow_error : runtime_error         tsolvers/stpsolver/SafeInt.h:19,26
     std::ios_base::failure       : system_error : runtime_error   options/SMTConfig.h:493
     std::bad_alloc               : std::exception
     OutOfMemoryException         (no base)                         minisat/core/XAlloc.h:32 *)
From Coq Require Import List Bool.
Import ListNotations.

Inductive exn :=
| ExApi | ExNonLinear | ExDivZero | ExInternal | ExStrConv
| ExLogicError | ExOutOfRange | ExInvalidArg | ExOverflow | ExIosFailure | ExBadAlloc | ExOutOfMemory.

Definition all_exn : list exn :=
  [ExApi; ExNonLinear; ExDivZero; ExInternal; ExStrConv; ExLogicError; ExOutOfRange; ExInvalidArg; ExOverflow;
   ExIosFailure; ExBadAlloc; ExOutOfMemory].

Inductive handler :=
| HApi | HNonLinear | HDivZero | HInternal | HOutOfRange | HLogicError | HRuntimeError | HStdException | HAll.

(* C++ [except.handle]: the handler type is the thrown type or an unambiguous *public* base of it *)
Definition catches (h : handler) (e : exn) : bool :=
  match h, e with
  | HAll, _ => true
  | HApi, ExApi => true
  | HNonLinear, ExNonLinear => true
  | HDivZero, ExDivZero => true
  | HInternal, ExInternal => true
  | HOutOfRange, ExOutOfRange => true
  | HLogicError, (ExLogicError | ExOutOfRange | ExInvalidArg) => true
  | HRuntimeError, (ExApi | ExNonLinear | ExDivZero | ExOverflow | ExIosFailure) => true
  | HStdException, (ExStrConv | ExOutOfMemory) => false
  | HStdException, _ => true
  | _, _ => false
  end.
