(* C19: proofs about the interpreter bookkeeping model (InterpBook.v). *)
From Coq Require Import List Arith NArith ZArith Bool Lia.
From OsmtV.Names Require Import ScopedVec TermNames DefinedFuns.
From OsmtV.Front Require Import InterpBook.
Import ListNotations.

Lemma set_names_eta : forall b, set_names b (b_names b) = b.
Proof. intros []; reflexivity. Qed.

Lemma set_names_twice : forall b x y, set_names (set_names b x) y = set_names b y.
Proof. intros; reflexivity. Qed.

Lemma reject_same : forall fx b, reject_after_parse fx b b = b.
Proof. intros fx b; unfold reject_after_parse. destruct (fx_names fx); [apply set_names_eta|reflexivity]. Qed.

Lemma obs_equiv_refl : forall b, obs_equiv b b.
Proof. intros b; unfold obs_equiv; repeat split; reflexivity. Qed.

(* parsing a term without :named annotations changes nothing *)
Lemma parse_names_free : forall evs b, names_free evs = true -> fst (parse b evs) = b.
Proof.
  induction evs as [|e r IH]; intros b H; [reflexivity|].
  destruct e as [n t|f|]; cbn [names_free] in H; try discriminate; cbn [parse].
  - destruct (known_sym b f); [apply IH; exact H|reflexivity].
  - reflexivity.
Qed.

Lemma parse_all_names_free : forall ts b,
  forallb (fun a => names_free (a_evs a)) ts = true -> fst (parse_all b ts) = b.
Proof.
  induction ts as [|a r IH]; intros b H; [reflexivity|].
  cbn [forallb] in H. apply andb_prop in H. destruct H as [H1 H2]. cbn [parse_all].
  pose proof (parse_names_free (a_evs a) b H1) as E.
  destruct (parse b (a_evs a)) as [b1 ok]. cbn [fst] in E. subst b1.
  pose proof (IH b H2) as E2. destruct (parse_all b r) as [b2 ok2]. exact E2.
Qed.

(* parsing only ever touches the name table *)
Lemma parse_only_names : forall evs b, exists x, fst (parse b evs) = set_names b x.
Proof.
  induction evs as [|e r IH]; intros b.
  - exists (b_names b). symmetry; apply set_names_eta.
  - destruct e as [n t|f|]; cbn [parse].
    + destruct (try_insert n t (b_names b)) as [x ok]. destruct ok.
      * destruct (IH (set_names b x)) as (y & E). exists y. rewrite E. apply set_names_twice.
      * exists (b_names b). symmetry; apply set_names_eta.
    + destruct (known_sym b f); [apply IH|]. exists (b_names b). symmetry; apply set_names_eta.
    + exists (b_names b). symmetry; apply set_names_eta.
Qed.

Lemma parse_all_only_names : forall ts b, exists x, fst (parse_all b ts) = set_names b x.
Proof.
  induction ts as [|a r IH]; intros b.
  - exists (b_names b). symmetry; apply set_names_eta.
  - cbn [parse_all]. destruct (parse_only_names (a_evs a) b) as (x & E).
    destruct (parse b (a_evs a)) as [b1 ok]. cbn [fst] in E. subst b1.
    destruct (IH (set_names b x)) as (y & E2).
    destruct (parse_all (set_names b x) r) as [b2 ok2]. cbn [fst] in *. subst b2.
    exists y. apply set_names_twice.
Qed.

Lemma reject_rolls_back : forall fx b x, fx_names fx = true -> reject_after_parse fx b (set_names b x) = b.
Proof.
  intros fx b x H. unfold reject_after_parse. rewrite H.
  change (b_names b) with (b_names b). rewrite set_names_twice. apply set_names_eta.
Qed.

(* ---- multi-level pop ---------------------------------------------------------------------------- *)
Lemma pop1_level : forall fx b b1, pop1 fx b = Some b1 -> level b1 = level b - 1 /\ level b <> 0.
Proof.
  intros fx b b1 H. unfold pop1 in H. unfold level.
  destruct (b_frames b) as [|f0 [|f1 rest]] eqn:E; try discriminate.
  destruct (pop_scope (fx_erase fx) (fx_guard fx) (b_global b) (b_names b)); try discriminate.
  destruct (df_pop (b_defs b)); try discriminate.
  inversion H; subst; clear H. cbn [b_frames length]. split; lia.
Qed.

Lemma pop_n_false_level : forall fx k b b', pop_n fx k b = Some (b', false) -> level b < k /\ level b' = 0.
Proof.
  intros fx k; induction k as [|k IH]; intros b b' H; cbn [pop_n] in H; [discriminate|].
  destruct (Nat.eqb (level b) 0) eqn:E.
  - inversion H; subst. apply Nat.eqb_eq in E. split; lia.
  - destruct (pop1 fx b) as [b1|] eqn:E1; [|discriminate].
    destruct (pop1_level _ _ _ E1) as [Hl _]. destruct (IH _ _ H) as [H1 H2]. split; [lia|exact H2].
Qed.

Lemma pop_n_level0 : forall fx k b b' r, level b = 0 -> pop_n fx k b = Some (b', r) -> b' = b.
Proof.
  intros fx k b b' r Hl H. destruct k; cbn [pop_n] in H.
  - inversion H; reflexivity.
  - rewrite Hl in H. cbn in H. inversion H; reflexivity.
Qed.

(* ---- rejected commands that are no-ops on the code as it is (and on every variant) -------------- *)
Lemma rejected_noop_partial_lemma : forall fx b c b',
  benign b c = true -> step fx b c = Some (b', RErr) -> b' = b.
Proof.
  intros fx b c b' Hb H.
  destruct c as [known|o v|s|f sk|f sk body sm|a|n|n|r| |ts| | |gs]; cbn [benign step] in *.
  - destruct (b_init b); [inversion H; reflexivity|]. destruct known; inversion H; reflexivity.
  - destruct o; try discriminate. destruct (b_init b); [inversion H; reflexivity|discriminate].
  - destruct (negb (b_init b)); [inversion H; reflexivity|].
    destruct (existsb (N.eqb s) (b_sorts b)); [inversion H; reflexivity|discriminate].
  - destruct (negb (b_init b)); [inversion H; reflexivity|].
    destruct (negb sk); [inversion H; reflexivity|discriminate].
  - destruct (negb (b_init b)); [inversion H; reflexivity|].
    destruct (negb sk); [inversion H; reflexivity|].
    pose proof (parse_names_free (a_evs body) b Hb) as E.
    destruct (parse b (a_evs body)) as [b1 ok]. cbn [fst] in E. subst b1.
    destruct (negb ok); [inversion H; apply reject_same|].
    destruct (negb sm); [inversion H; apply reject_same|].
    destruct (df_store (b_global b) f (a_id body) (b_defs b)) as [d stored].
    destruct stored; [discriminate|inversion H; apply reject_same].
  - apply andb_prop in Hb. destruct Hb as [Hn Hbool].
    destruct (negb (b_init b)); [inversion H; reflexivity|].
    pose proof (parse_names_free (a_evs a) b Hn) as E.
    destruct (parse b (a_evs a)) as [b1 ok]. cbn [fst] in E. subst b1.
    destruct (negb ok); [inversion H; apply reject_same|].
    rewrite Hbool in H. discriminate.
  - destruct (negb (b_init b)); [inversion H; reflexivity|].
    destruct (int_max <? n)%Z; [inversion H; reflexivity|].
    destruct (n <? 0)%Z; [inversion H; reflexivity|discriminate].
  - destruct (negb (b_init b)); [inversion H; reflexivity|].
    destruct (int_max <? n)%Z eqn:E1; [inversion H; reflexivity|].
    destruct (n <? 0)%Z eqn:E2; [inversion H; reflexivity|].
    cbn [orb] in Hb. apply Nat.eqb_eq in Hb.
    destruct (fx_pop fx && (level b <? Z.to_nat n)); [inversion H; reflexivity|].
    destruct (pop_n fx (Z.to_nat n) b) as [[b2 ok]|] eqn:Ep; [|discriminate].
    pose proof (pop_n_level0 _ _ _ _ _ Hb Ep) as ->.
    destruct ok; [discriminate|inversion H; reflexivity].
  - destruct (negb (b_init b)); [inversion H; reflexivity|discriminate].
  - destruct (negb (b_init b)); [inversion H; reflexivity|].
    destruct (negb (is_sat (b_status b))); [inversion H; reflexivity|].
    destruct (negb (b_models b)); [inversion H; reflexivity|discriminate].
  - destruct (negb (b_init b)); [inversion H; reflexivity|].
    destruct (negb (is_sat (b_status b))); [inversion H; reflexivity|].
    destruct (negb (b_models b)); [inversion H; reflexivity|].
    pose proof (parse_all_names_free ts b Hb) as E.
    destruct (parse_all b ts) as [b1 ok]. cbn [fst] in E. subst b1.
    destruct ok; [discriminate|inversion H; apply reject_same].
  - destruct (negb (b_cores b)); [inversion H; reflexivity|].
    destruct (negb (b_init b)); [inversion H; reflexivity|].
    destruct (negb (is_unsat (b_status b))); [inversion H; reflexivity|discriminate].
  - destruct (negb (b_init b)); [inversion H; reflexivity|].
    destruct (negb (is_sat (b_status b))); [inversion H; reflexivity|].
    destruct (negb (b_assign b) && negb (sv_is_empty (tn_scoped (b_names b)))); [inversion H; reflexivity|discriminate].
  - destruct (negb (b_itp b)); [inversion H; reflexivity|].
    destruct (negb (b_init b)); [inversion H; reflexivity|].
    destruct (negb (all_resolve b gs)); [inversion H; reflexivity|].
    destruct (masks b gs); [|inversion H; reflexivity].
    destruct (is_unsat (b_status b)); [discriminate|inversion H; reflexivity].
Qed.

(* ---- with the three repairs every rejected command is a no-op ------------------------------------ *)
Lemma rejected_noop_repaired_lemma : forall fx b c b',
  fx_assert fx = true -> fx_pop fx = true -> fx_names fx = true ->
  step fx b c = Some (b', RErr) -> b' = b.
Proof.
  intros fx b c b' Ha Hp Hn H.
  destruct (benign b c) eqn:Hb; [apply (rejected_noop_partial_lemma fx b c b' Hb H)|].
  destruct c as [known|o v|s|f sk|f sk body sm|a|n|n|r| |ts| | |gs]; cbn [benign] in Hb; try discriminate; cbn [step] in H.
  - destruct (negb (b_init b)); [inversion H; reflexivity|].
    destruct (negb sk); [inversion H; reflexivity|].
    destruct (parse_only_names (a_evs body) b) as (x & E).
    destruct (parse b (a_evs body)) as [b1 ok]. cbn [fst] in E. subst b1.
    destruct (negb ok); [inversion H; apply reject_rolls_back; exact Hn|].
    destruct (negb sm); [inversion H; apply reject_rolls_back; exact Hn|].
    destruct (df_store (b_global (set_names b x)) f (a_id body) (b_defs (set_names b x))) as [d stored].
    destruct stored; [discriminate|inversion H; apply reject_rolls_back; exact Hn].
  - destruct (negb (b_init b)); [inversion H; reflexivity|].
    destruct (parse_only_names (a_evs a) b) as (x & E).
    destruct (parse b (a_evs a)) as [b1 ok]. cbn [fst] in E. subst b1.
    destruct (negb ok); [inversion H; apply reject_rolls_back; exact Hn|].
    destruct (a_bool a); [discriminate|]. rewrite Ha in H. inversion H; apply reject_rolls_back; exact Hn.
  - destruct (negb (b_init b)); [inversion H; reflexivity|].
    destruct (int_max <? n)%Z; [inversion H; reflexivity|].
    destruct (n <? 0)%Z; [inversion H; reflexivity|].
    rewrite Hp in H. cbn [andb] in H.
    destruct (level b <? Z.to_nat n) eqn:El; [inversion H; reflexivity|].
    destruct (pop_n fx (Z.to_nat n) b) as [[b2 ok]|] eqn:Ep; [|discriminate].
    destruct ok; [discriminate|].
    apply pop_n_false_level in Ep. apply Nat.ltb_ge in El. lia.
  - destruct (negb (b_init b)); [inversion H; reflexivity|].
    destruct (negb (is_sat (b_status b))); [inversion H; reflexivity|].
    destruct (negb (b_models b)); [inversion H; reflexivity|].
    destruct (parse_all_only_names ts b) as (x & E).
    destruct (parse_all b ts) as [b1 ok]. cbn [fst] in E. subst b1.
    destruct ok; [discriminate|inversion H; apply reject_rolls_back; exact Hn].
Qed.

(* ---- the defects are not accidents of one witness ----------------------------------------------- *)
Lemma parse_keeps_assertions : forall evs b, b_assertions (fst (parse b evs)) = b_assertions b /\
                                             b_init (fst (parse b evs)) = b_init b.
Proof.
  intros evs b. destruct (parse_only_names evs b) as (x & E). rewrite E. split; reflexivity.
Qed.

Lemma app_one_neq : forall {A} (l : list A) x, l ++ [x] <> l.
Proof.
  intros A l x H. apply (f_equal (@length A)) in H. rewrite app_length in H. simpl in H. lia.
Qed.

(* every assert of a well-formed non-Bool term is rejected AND lengthens the assertion vector *)
Lemma nonbool_assert_always_changes_lemma : forall b a,
  b_init b = true -> snd (parse b (a_evs a)) = true -> a_bool a = false ->
  exists b', step as_is b (CAssert a) = Some (b', RErr) /\
             b_assertions b' = b_assertions b ++ [a_id a] /\ b_inserted b' = b_inserted b.
Proof.
  intros b a Hi Hok Hb. cbn [step]. rewrite Hi. cbn [negb].
  destruct (parse_only_names (a_evs a) b) as (x & E).
  destruct (parse b (a_evs a)) as [b1 ok]. cbn [fst snd] in *. subst ok b1. cbn [negb].
  rewrite Hb. cbn [as_is fx_assert]. eexists; split; [reflexivity|]. split; reflexivity.
Qed.

(* every pop beyond the bottom at a positive level is rejected AND empties the stack *)
Lemma partial_pop_always_changes_lemma : forall b n b' r,
  b_init b = true -> (Z.of_nat (level b) < n <= int_max)%Z -> 0 < level b ->
  step as_is b (CPop n) = Some (b', r) -> r = RErr /\ level b' = 0.
Proof.
  intros b n b' r Hi Hn Hl H. cbn [step] in H. rewrite Hi in H. cbn [negb] in H.
  assert (E1 : (int_max <? n)%Z = false) by (apply Z.ltb_ge; lia). rewrite E1 in H.
  assert (E2 : (n <? 0)%Z = false) by (apply Z.ltb_ge; lia). rewrite E2 in H.
  cbn [as_is fx_pop andb] in H.
  destruct (pop_n as_is (Z.to_nat n) b) as [[b2 ok]|] eqn:Ep; [|discriminate].
  destruct ok.
  - exfalso. clear H. assert (Hk : level b < Z.to_nat n) by lia.
    revert Hk Ep. generalize (Z.to_nat n) as k. clear. intros k; revert b.
    induction k as [|k IH]; intros b Hk Ep; [lia|].
    cbn [pop_n] in Ep. destruct (Nat.eqb (level b) 0); [discriminate|].
    destruct (pop1 as_is b) as [b1|] eqn:E1; [|discriminate].
    destruct (pop1_level _ _ _ E1) as [Hl1 Hl2]. apply (IH b1); [lia|exact Ep].
  - inversion H; subst. split; [reflexivity|]. apply pop_n_false_level in Ep. tauto.
Qed.
