(* C06 — unsat cores are unsatisfiable and name current assertions only.  Theorems only; the model is
   Core/CoreExtract.v (UnsatCoreBuilder::computeClauses / mapClausesToTerms / partitionNamedTerms, the
   partition-index map, and the part of TermNames the builder reads), the proofs Core/CoreProofs.v.

   PARTIAL.  The extraction algorithm is proved relative to (a) the validity of the resolution proof it
   traverses and (b) the correctness of the clause partition masks with respect to the partition map at the
   time the core is built.  Both are established per run only (checks/C06.py judges every printed core).
   The full statement of the property (comment at the end) additionally needs: the solver's refutation
   belongs to the current assertion stack, and every top-level assertion keeps its name -- both FAIL on the
   unchanged implementation (known findings), see design/C06.md. *)
From Coq Require Import List NArith Bool Arith.
From OsmtV.Core Require Import CoreExtract CoreProofs.
Import ListNotations.
Local Open Scope N_scope.

(* The set of assertions the builder extracts is unsatisfiable: for every interpretation domain W, clause
   semantics holds_c and assertion semantics holds_t, if the proof is a valid refutation (acyclic, learnt
   clauses implied by their premises, non-original leaves valid, root false) and every original leaf is
   implied by the assertions its mask denotes, then no interpretation satisfies all extracted terms. *)
Theorem core_unsat : forall (W : Type) (holds_c : W -> cref -> Prop) (holds_t : W -> term -> Prop)
  undef P cmask parts orig leaves,
  valid_refutation W holds_c undef P -> computeClauses undef P = Some leaves ->
  masks_correct W holds_c holds_t cmask parts orig leaves ->
  ~ sat W holds_t (mapClausesToTerms cmask parts orig leaves).
Proof. exact core_unsat_lemma. Qed.
Print Assumptions core_unsat.

(* Named mode (no minimisation): named and hidden terms together are the extracted set ... *)
Theorem core_named_unsat : forall (W : Type) (holds_c : W -> cref -> Prop) (holds_t : W -> term -> Prop)
  undef P cmask parts orig leaves names_empty contains,
  valid_refutation W holds_c undef P -> computeClauses undef P = Some leaves ->
  masks_correct W holds_c holds_t cmask parts orig leaves ->
  let nh := partitionNamedTerms false names_empty contains (mapClausesToTerms cmask parts orig leaves) in
  ~ sat W holds_t (fst nh ++ snd nh).
Proof. exact core_named_unsat_lemma. Qed.
Print Assumptions core_named_unsat.

(* ... hence the named terms with ALL unnamed current assertions are unsatisfiable, provided every extracted
   term without a name is an unnamed current assertion. *)
Theorem core_with_unnamed_unsat : forall (W : Type) (holds_c : W -> cref -> Prop) (holds_t : W -> term -> Prop)
  undef P cmask parts orig leaves names_empty contains unnamed,
  valid_refutation W holds_c undef P -> computeClauses undef P = Some leaves ->
  masks_correct W holds_c holds_t cmask parts orig leaves ->
  (forall t, In t (mapClausesToTerms cmask parts orig leaves) -> (names_empty = true \/ contains t = false) -> In t unnamed) ->
  ~ sat W holds_t (fst (partitionNamedTerms false names_empty contains (mapClausesToTerms cmask parts orig leaves)) ++ unnamed).
Proof. exact core_with_unnamed_unsat_lemma. Qed.
Print Assumptions core_with_unnamed_unsat.

(* The leaves collected by the traversal are original clauses of the proof. *)
Theorem core_leaves_are_original : forall undef P leaves, computeClauses undef P = Some leaves ->
  forall c, In c leaves -> exists d, pfind c P = Some d /\ d_type d = CLA_ORIG.
Proof.
  intros undef P leaves H. unfold computeClauses in H.
  destruct (dfs P (compute_fuel P) [undef] [] []) as [[L PR]|] eqn:E; [|discriminate]. injection H as <-.
  apply (dfs_acc_orig P _ _ _ _ _ _ E). intros c [].
Qed.
Print Assumptions core_leaves_are_original.

(* computeClauses answers (the fuel 1 + sum of chain lengths is enough) whenever every clause reference in the proof
   resolves: None then only stands for the failed asserted lookup of the code. *)
Theorem core_traversal_total : forall undef P, closed_proof P -> pfind undef P <> None -> computeClauses undef P <> None.
Proof. intros undef P. exact (computeClauses_total P undef). Qed.
Print Assumptions core_traversal_total.

(* masks_correct cannot be dropped, and it is about the partition map AT THE TIME THE CORE IS BUILT: a term that
   is asserted a second time gets a new index (FlaPartitionMap::store_top_level_fla_index overwrites), the
   clauses of its first assertion keep the old bit, and the extracted set becomes satisfiable although the
   refutation is valid and each mask was right when its clause was added.  Reproduced: known finding. *)
Theorem core_unsat_reindexed_refuted :
  valid_refutation bool rx_holds_c 99 rx_proof /\
  computeClauses 99 rx_proof = Some [12; 10] /\
  masks_correct bool rx_holds_c rx_holds_t rx_cmask rx_parts_first rx_id [10] /\
  sat bool rx_holds_t (mapClausesToTerms rx_cmask rx_parts_final rx_id [12; 10]).
Proof.
  destruct reindex_witness as (A & B & C & D & E). split; [exact A|]. split; [exact B|]. split; [exact C|].
  rewrite D. exact E.
Qed.
Print Assumptions core_unsat_reindexed_refuted.

(* The repaired partition map (every index a term received is kept: pm_set true) restores mask correctness on the same
   history, and core_unsat then applies: the extracted set is {a, (not a)}. *)
Theorem core_unsat_reindexed_repaired :
  masks_correct bool rx_holds_c rx_holds_t rx_cmask rx_parts_final_repaired rx_id [12; 10] /\
  mapClausesToTerms rx_cmask rx_parts_final_repaired rx_id [12; 10] = [1; 2] /\
  ~ sat bool rx_holds_t (mapClausesToTerms rx_cmask rx_parts_final_repaired rx_id [12; 10]).
Proof.
  destruct reindex_repaired_witness as (A & B). destruct reindex_witness as (V & C & _).
  split; [exact A|]. split; [exact B|]. exact (core_unsat_lemma bool rx_holds_c rx_holds_t 99 rx_proof rx_cmask _ rx_id _ V C A).
Qed.
Print Assumptions core_unsat_reindexed_repaired.

(* Names, repaired TermNames (eraseTermName drops the entry of a term with its last name): for every history of
   tryInsert / pushScope / popScope, every term the builder classifies as named prints a name, that name is
   live (it belongs to an open scope) and denotes the term. *)
Theorem core_names_in_scope : forall ops s, tn_run true ops tn_init = Some s ->
  forall minCore allTerms t,
  In t (fst (partitionNamedTerms minCore false (tn_contains s) allTerms)) ->
  exists n, tn_name_for_term s t = PickName n /\ In (n, t) (tn_live s).
Proof.
  intros ops s H minCore allTerms t Ht. apply partition_named_contains in Ht. destruct Ht as [_ Hc].
  exact (names_in_scope_lemma ops s H t Hc).
Qed.
Print Assumptions core_names_in_scope.

(* No repetition (both variants): when every named term prints a name, distinct terms print distinct names. *)
Theorem core_names_no_repetition : forall fx ops s, tn_run fx ops tn_init = Some s ->
  forall named, NoDup named -> (forall t, In t named -> exists n, tn_name_for_term s t = PickName n) ->
  NoDup (printed_names s named).
Proof. exact printed_names_nodup. Qed.
Print Assumptions core_names_no_repetition.

(* The code as it is: a name popped with its level leaves a term that contains() reports; the builder classifies
   it as named and printing it is front() of an empty vector (undefined behaviour; observed: the popped name).
   (push 1)(assert (! a :named n1))(pop 1)(assert (! (not a) :named n2)) with a = 7, (not a) = 8. *)
Theorem core_names_in_scope_refuted : exists ops s t,
  tn_run false ops tn_init = Some s /\
  In t (fst (partitionNamedTerms false (tn_empty s) (tn_contains s) [7; 8])) /\
  tn_name_for_term s t = PickUB /\ (forall n, ~ In (n, t) (tn_live s)).
Proof.
  destruct popped_name_witness as (s & H1 & H2 & H3 & H4).
  exists [NPush; NInsert 1 7; NPop; NInsert 2 8], s, 7. split; [exact H1|]. split; [rewrite H2; left; reflexivity|].
  split; [unfold printed_names in H3; simpl in H3; injection H3 as A _; exact A|].
  intros n Hn. rewrite H4 in Hn. destruct Hn as [Hn|[]]. discriminate.
Qed.
Print Assumptions core_names_in_scope_refuted.

(* Non-vacuity: a proof DAG with a shared premise, a theory leaf and an unreachable clause; the traversal returns
   the two original leaves reached, the masks select two of three assertions, named/hidden split by a name table
   built by a push/pop history on the repaired model. *)
Example c06_nonvacuous :
  let P := [(1, mk_der CLA_ORIG []); (2, mk_der CLA_ORIG []); (3, mk_der CLA_THEORY []); (4, mk_der CLA_ORIG []);
            (5, mk_der CLA_LEARNT [1; 3]); (6, mk_der CLA_LEARNT [5; 2; 1]); (99, mk_der CLA_LEARNT [6; 5])] in
  let cmask := fun c => match c with 1 => [0%nat] | 2 => [2%nat] | 4 => [1%nat] | _ => [] end in
  let parts := pm_set false 30 2 (pm_set false 10 0 (pm_set false 20 1 [])) in
  computeClauses 99 P = Some [1; 2] /\
  mapClausesToTerms cmask parts (fun t => t) [1; 2] = [10; 30] /\
  exists s, tn_run true [NInsert 1 10; NPush; NInsert 2 20; NPop] tn_init = Some s /\
    buildCore false false (tn_empty s) (tn_contains s) cmask parts (fun t => t) 99 P = Some (NamedCore [10] [30]) /\
    printed_names s [10] = [PickName 1].
Proof.
  split; [vm_compute; reflexivity|]. split; [vm_compute; reflexivity|].
  eexists. split; [vm_compute; reflexivity|]. split; vm_compute; reflexivity.
Qed.
Print Assumptions c06_nonvacuous.

(* FULL STATEMENT (not proved; established per run by checks/C06.py):
     after every unsat answer, for the proof P, masks and partition map of the solver state,
       printed names  =  names of :named top-level assertions of the current assertion stack, without repetition, and
       ~ sat (their terms ++ all unnamed current assertions);
     with :print-cores-full every printed formula is a current assertion and the printed set is unsatisfiable.
   Missing between the theorems above and this statement: valid_refutation and masks_correct for the solver's actual
   proof (C10/C12 establish proof validity per run), "the refutation belongs to the current stack" (violated: stale
   refutation after pop), "every assertion keeps its identity" (violated: ite rewriting, re-asserted terms). *)
