(* C13: the rewrite schemas of the preprocessing pipeline as semantic identities, and the composition lemma for
   conservative extensions.  (The instances applied by the C++ rewriters are validated per run, checks/C13.py.) *)
From Coq Require Import List Bool ZArith QArith Lia.
From OsmtV.IntArith Require Import DivModModel DivModProofs.
Import ListNotations.

(* ---- composition: model preservation + extension of every model = equisatisfiability ---- *)
Section Conservative.
  Variable interp : Type.
  Variable agree : interp -> interp -> Prop.          (* the two interpretations agree on the user's symbols *)
  Variables P Q : interp -> Prop.                      (* original holds / preprocessed holds *)
  Hypothesis preserves : forall I, Q I -> P I.
  Hypothesis extends : forall I, P I -> exists I', agree I I' /\ Q I'.

  Lemma conservative_equisat : (exists I, P I) <-> (exists I, Q I).
  Proof.
    split; intros [I H]; [destruct (extends I H) as [I' [_ H']]; eauto | exists I; auto].
  Qed.

  (* composing two steps *)
  Variable R : interp -> Prop.
  Hypothesis agree_trans : forall a b c, agree a b -> agree b c -> agree a c.
  Hypothesis preserves2 : forall I, R I -> Q I.
  Hypothesis extends2 : forall I, Q I -> exists I', agree I I' /\ R I'.
  Lemma conservative_compose :
    (forall I, R I -> P I) /\ (forall I, P I -> exists I', agree I I' /\ R I').
  Proof.
    split; [auto|]. intros I H. destruct (extends I H) as [I1 [A1 H1]]. destruct (extends2 I1 H1) as [I2 [A2 H2]]. eauto.
  Qed.
End Conservative.

(* ---- equality substitution: the defining equality is kept, so nothing is lost ---- *)
Lemma subst_keep_eq {A} (phi : A -> Prop) (x t : A) : (x = t /\ phi x) <-> (x = t /\ phi t).
Proof. split; intros [E H]; split; auto; [rewrite <- E | rewrite E]; exact H. Qed.

(* ---- ITE elimination / purification: a fresh symbol with a total functional definition ---- *)
Lemma ite_def_iff {A} (c : bool) (a b v : A) :
  ((c = true -> v = a) /\ (c = false -> v = b)) <-> v = (if c then a else b).
Proof. destruct c; split; intros H; [destruct H as [H _]; auto | split; [auto | discriminate] | destruct H as [_ H]; auto | split; [discriminate | auto]]. Qed.

Lemma ite_def_exists_unique {A} (c : bool) (a b : A) :
  exists v, ((c = true -> v = a) /\ (c = false -> v = b)) /\ forall w, ((c = true -> w = a) /\ (c = false -> w = b)) -> w = v.
Proof.
  exists (if c then a else b). split; [now apply ite_def_iff|]. intros w H. now apply ite_def_iff in H.
Qed.

(* the formula with the ite replaced by the fresh symbol, conjoined with the definition, is a conservative extension *)
Lemma ite_elim_conservative {A} (phi : A -> Prop) (c : bool) (a b : A) :
  phi (if c then a else b) <-> exists v, ((c = true -> v = a) /\ (c = false -> v = b)) /\ phi v.
Proof.
  split.
  - intros H. exists (if c then a else b). split; [now apply ite_def_iff | exact H].
  - intros [v [Hd H]]. apply ite_def_iff in Hd. now subst v.
Qed.

(* ---- div / mod elimination (DivModRewriter): fresh q, r with n = d*q + r, 0 <= r <= |d| - 1 ---- *)
Lemma divmod_elim_conservative (phi : Z -> Z -> Prop) (n d : Z) : d <> 0%Z ->
  (phi (smt_div n d) (smt_mod n d) <-> exists q r, (n = d * q + r /\ 0 <= r <= Z.abs d - 1)%Z /\ phi q r).
Proof.
  intros Hd. split.
  - intros H. exists (smt_div n d), (smt_mod n d). split; [|exact H].
    destruct (smt_divmod_spec n d Hd). split; [assumption | lia].
  - intros [q [r [[H1 H2] H]]]. destruct (smt_divmod_unique n d q r Hd H1 ltac:(lia)) as [-> ->]. exact H.
Qed.

(* ---- distinct: pairwise expansion ---- *)
Fixpoint pairwise_neq {A} (l : list A) : Prop :=
  match l with [] => True | x :: r => Forall (fun y => x <> y) r /\ pairwise_neq r end.
Lemma distinct_expand {A} (l : list A) : NoDup l <-> pairwise_neq l.
Proof.
  induction l as [|x r IH]; simpl; [split; auto; constructor|].
  split.
  - intros H. inversion H as [|? ? Hn Hr]; subst. split; [|now apply IH].
    apply Forall_forall. intros y Hy E. subst. contradiction.
  - intros [Hf Hr]. constructor; [|now apply IH]. intros Hin. rewrite Forall_forall in Hf. exact (Hf x Hin eq_refl).
Qed.

(* ---- arithmetic equalities split into two inequalities ---- *)
Lemma eq_split_Z (a b : Z) : a = b <-> (a <= b /\ b <= a)%Z.
Proof. lia. Qed.
Lemma eq_split_Q (a b : Q) : (a == b)%Q <-> (a <= b /\ b <= a)%Q.
Proof. split; [intros H; rewrite H; split; apply Qle_refl | intros [H1 H2]; now apply Qle_antisym]. Qed.

(* ---- learnt transitivity facts are valid ---- *)
Lemma eq_transitivity_valid {A} (a b c : A) : a = b -> b = c -> a = c.
Proof. congruence. Qed.

(* ---- Boolean flattening (rewriteMaxArity): nested conjunctions / disjunctions merge into the parent ---- *)
Lemma flatten_and (ls : list (list bool)) : forallb (fun b => b) (concat ls) = forallb (forallb (fun b => b)) ls.
Proof. induction ls as [|l r IH]; simpl; [reflexivity|]. now rewrite forallb_app, IH. Qed.
Lemma flatten_or (ls : list (list bool)) : existsb (fun b => b) (concat ls) = existsb (existsb (fun b => b)) ls.
Proof. induction ls as [|l r IH]; simpl; [reflexivity|]. now rewrite existsb_app, IH. Qed.
