(* SatELite-style simplification as implemented in /repo/src/smtsolvers/SimpSMTSolver.cc (C12, "d" events):
     merge            (SimpSMTSolver.cc:296  SimpSMTSolver::merge)           resolvent of two clauses on variable v
     eliminateVar     (SimpSMTSolver.cc:576  SimpSMTSolver::eliminateVar)    cross product pos x neg of resolvents
     Clause::subsumes (minisat/core/SolverTypes.h:404)                       subsumption / self-subsumption test
     strengthenClause (SimpSMTSolver.cc:263) called from backwardSubsumptionCheck (:423) and asymm (:497)
   Theorems: every clause these steps add is entailed by the clauses they are computed from
   ([merge_sound], [elim_resolvents_sound], [strengthen_sound], [asymm_sound]).
   The abstraction word / size pre-test of subsumes only short-cuts to lit_Error and is not modelled. *)
From Coq Require Import ZArith List Bool Lia PArith.
From OsmtV.Sat Require Import PropLogic RupCheck.
Import ListNotations.
Local Open Scope Z_scope.

Definition lit_has_var (v : positive) (l : lit) : bool :=
  match var_of l with Some w => Pos.eqb w v | None => false end.
Definition same_var (l q : lit) : bool :=
  match var_of l, var_of q with Some v, Some w => Pos.eqb v w | _, _ => false end.

(* first literal of ps over the variable of q (the inner loop of merge) *)
Fixpoint find_var (q : lit) (ps : clause) : option lit :=
  match ps with [] => None | p :: r => if same_var p q then Some p else find_var q r end.

(* the qs-part of merge: None = the resolvent is a tautology *)
Fixpoint merge_qs (ps : clause) (v : positive) (qs : clause) : option clause :=
  match qs with
  | [] => Some []
  | q :: r =>
    if lit_has_var v q then merge_qs ps v r
    else match find_var q ps with
         | Some p => if p =? - q then None else merge_qs ps v r         (* same literal already in ps: skip *)
         | None => match merge_qs ps v r with Some o => Some (q :: o) | None => None end
         end
  end.

(* merge(_ps, _qs, v, out): ps is the longer clause *)
Definition merge (c1 c2 : clause) (v : positive) : option clause :=
  let ps_smallest := (length c1 <? length c2)%nat in
  let ps := if ps_smallest then c2 else c1 in
  let qs := if ps_smallest then c1 else c2 in
  match merge_qs ps v qs with
  | None => None
  | Some o => Some (o ++ filter (fun l => negb (lit_has_var v l)) ps)
  end.

(* eliminateVar: pos = clauses containing v, neg = clauses containing ~v; all non-tautological resolvents *)
Definition elim_resolvents (F : cnf) (v : positive) : cnf :=
  let pos := filter (fun c => existsb (Z.eqb (Zpos v)) c) F in
  let neg := filter (fun c => existsb (Z.eqb (Zneg v)) c) F in
  flat_map (fun p => flat_map (fun n => match merge p n v with Some r => [r] | None => [] end) neg) pos.

(* Clause::subsumes *)
Inductive subres := SubError | SubAll | SubLit (l : lit).

Fixpoint sub_scan (x : lit) (d : clause) (ret : option lit) : option (option lit) :=
  match d with
  | [] => None
  | y :: r => if x =? y then Some ret
              else match ret with
                   | None => if x =? - y then Some (Some x) else sub_scan x r ret
                   | Some _ => sub_scan x r ret
                   end
  end.

Fixpoint subsumes_aux (c d : clause) (ret : option lit) : subres :=
  match c with
  | [] => match ret with None => SubAll | Some l => SubLit l end
  | x :: r => match sub_scan x d ret with None => SubError | Some ret' => subsumes_aux r d ret' end
  end.
Definition subsumes (c d : clause) : subres :=
  if (length d <? length c)%nat then SubError else subsumes_aux c d None.

(* backwardSubsumptionCheck: l = c.subsumes(d); strengthenClause(d, ~l) *)
Definition strengthen (c d : clause) : option clause :=
  match subsumes c d with SubLit l => Some (remove_lit (- l) d) | _ => None end.

(* asymm(v, c): if propagating the negation of the other literals gives a conflict, drop the v-literal *)
Definition asymm (F : cnf) (v : positive) (c : clause) : option clause :=
  let c' := filter (fun l => negb (lit_has_var v l)) c in
  if rup F c' then Some c' else None.

Definition notaut (c : clause) : Prop := forall x, In x c -> ~ In (- x) c.

(* ------------------------------------------------------------------------------------------ *)

Lemma same_var_cases : forall p q, same_var p q = true -> p = q \/ p = - q.
Proof.
  intros [|a|a] [|b|b]; unfold same_var; simpl; try discriminate; intros H; apply Pos.eqb_eq in H; subst; auto.
Qed.

Lemma find_var_some : forall q ps p, find_var q ps = Some p -> In p ps /\ (p = q \/ p = - q).
Proof.
  induction ps as [|x r IH]; simpl; intros p H; [discriminate|].
  destruct (same_var x q) eqn:E.
  - injection H as <-. split; auto. now apply same_var_cases.
  - destruct (IH p H); auto.
Qed.

Lemma merge_qs_true : forall a ps v qs o q, merge_qs ps v qs = Some o ->
  In q qs -> lit_has_var v q = false -> lit_true a q = true ->
  clause_true a o = true \/ In q ps.
Proof.
  induction qs as [|x r IH]; simpl; intros o q H Hin Hv T; [contradiction|].
  destruct (lit_has_var v x) eqn:Vx.
  - destruct Hin as [->|Hin]; [congruence|]. eapply IH; eauto.
  - destruct (find_var x ps) as [p|] eqn:Fv.
    + destruct (Z.eqb_spec p (- x)) as [->|N]; [discriminate|].
      destruct Hin as [->|Hin]; [|eapply IH; eauto].
      right. destruct (find_var_some _ _ _ Fv) as [Hp [->| ->]]; auto. congruence.
    + destruct (merge_qs ps v r) as [o'|] eqn:M; [|discriminate]. injection H as <-.
      destruct Hin as [->|Hin].
      * left. simpl. now rewrite T.
      * destruct (IH o' q eq_refl Hin Hv T) as [H1|H1]; auto. left. simpl. rewrite H1. apply orb_true_r.
Qed.

(* ps and qs clash on v: one has the literal lv over v, the other its negation *)
Theorem merge_sound : forall a c1 c2 v r lv,
  merge c1 c2 v = Some r -> lit_has_var v lv = true ->
  (forall l, In l c1 -> lit_has_var v l = true -> l = lv) ->
  (forall l, In l c2 -> lit_has_var v l = true -> l = - lv) ->
  clause_true a c1 = true -> clause_true a c2 = true -> clause_true a r = true.
Proof.
  intros a c1 c2 v r lv H Hlv H1 H2 T1 T2.
  assert (Hneq : forall x y, In x c1 -> In y c2 -> lit_true a x = true -> lit_true a y = true ->
                             lit_has_var v x = false \/ lit_has_var v y = false).
  { intros x y Hx Hy Tx Ty. destruct (lit_has_var v x) eqn:Vx; auto. destruct (lit_has_var v y) eqn:Vy; auto.
    exfalso. rewrite (H1 x Hx Vx) in Tx. rewrite (H2 y Hy Vy) in Ty. apply lit_true_opp_false in Ty. congruence. }
  apply clause_true_iff in T1. destruct T1 as [x [Hx Tx]].
  apply clause_true_iff in T2. destruct T2 as [y [Hy Ty]].
  unfold merge in H.
  set (sm := (length c1 <? length c2)%nat) in *.
  set (ps := if sm then c2 else c1) in *. set (qs := if sm then c1 else c2) in *.
  destruct (merge_qs ps v qs) as [o|] eqn:M; [|discriminate]. injection H as <-.
  rewrite clause_true_app. apply orb_true_iff.
  (* a true literal not over v, in ps or in qs *)
  assert (Hps : forall z, In z ps -> lit_true a z = true -> lit_has_var v z = false ->
                          clause_true a (filter (fun l => negb (lit_has_var v l)) ps) = true).
  { intros z Hz Tz Vz. apply clause_true_iff. exists z; split; auto. apply filter_In. split; auto. now rewrite Vz. }
  assert (Hqs : forall z, In z qs -> lit_true a z = true -> lit_has_var v z = false ->
                          clause_true a o = true \/ clause_true a (filter (fun l => negb (lit_has_var v l)) ps) = true).
  { intros z Hz Tz Vz. destruct (merge_qs_true a ps v qs o z M Hz Vz Tz) as [K|K]; auto. right. eapply Hps; eauto. }
  destruct (Hneq x y Hx Hy Tx Ty) as [V|V]; subst ps qs; destruct sm; eauto.
Qed.

Lemma in_elim_resolvents : forall F v r, In r (elim_resolvents F v) ->
  exists p n, In p F /\ In n F /\ In (Zpos v) p /\ In (Zneg v) n /\ merge p n v = Some r.
Proof.
  unfold elim_resolvents; intros F v r H.
  apply in_flat_map in H. destruct H as [p [Hp H]].
  apply in_flat_map in H. destruct H as [n [Hn H]].
  apply filter_In in Hp. destruct Hp as [Hp Ep]. apply filter_In in Hn. destruct Hn as [Hn En].
  destruct (merge p n v) as [r'|] eqn:M; [|contradiction]. destruct H as [<-|[]].
  exists p, n. repeat split; auto.
  - apply existsb_exists in Ep. destruct Ep as [x [Hx E]]. apply Z.eqb_eq in E. now subst.
  - apply existsb_exists in En. destruct En as [x [Hx E]]. apply Z.eqb_eq in E. now subst.
Qed.

(* A clause over v that contains v positively and not negatively (clauses of the solver have no two
   literals over one variable: addOriginalClause_ removes duplicates and drops tautologies). *)
Definition one_per_var (c : clause) : Prop := forall x y, In x c -> In y c -> same_var x y = true -> x = y.

Lemma has_var_cases : forall v l, lit_has_var v l = true -> l = Zpos v \/ l = Zneg v.
Proof.
  intros v [|p|p]; unfold lit_has_var; simpl; try discriminate; intros H; apply Pos.eqb_eq in H; subst; auto.
Qed.

Theorem elim_resolvents_sound : forall F v r,
  (forall c, In c F -> one_per_var c) -> In r (elim_resolvents F v) -> entails F r.
Proof.
  intros F v r Hw H a Ha. destruct (in_elim_resolvents F v r H) as [p [n [Hp [Hn [Ip [In_ M]]]]]].
  apply (merge_sound a p n v r (Zpos v) M).
  - unfold lit_has_var; simpl. apply Pos.eqb_refl.
  - intros l Hl Vl. apply (Hw p Hp l (Zpos v) Hl Ip).
    destruct (has_var_cases v l Vl) as [-> | ->]; unfold same_var; simpl; apply Pos.eqb_refl.
  - intros l Hl Vl. apply (Hw n Hn l (Zneg v) Hl In_).
    destruct (has_var_cases v l Vl) as [-> | ->]; unfold same_var; simpl; apply Pos.eqb_refl.
  - apply Ha; auto.
  - apply Ha; auto.
Qed.

Lemma sub_scan_some : forall x d ret ret', sub_scan x d ret = Some ret' ->
  (In x d /\ ret' = ret) \/ (ret = None /\ ret' = Some x /\ In (- x) d).
Proof.
  induction d as [|y r IH]; simpl; intros ret ret' H; [discriminate|].
  destruct (Z.eqb_spec x y) as [->|N].
  - injection H as <-. left; auto.
  - destruct ret as [l|].
    + destruct (IH _ _ H) as [[H1 H2]|[H1 _]]; [left; auto | discriminate].
    + destruct (Z.eqb_spec x (- y)) as [->|N2].
      * injection H as <-. right. repeat split; auto. left. lia.
      * destruct (IH _ _ H) as [[H1 H2]|[H1 [H2 H3]]]; [left; auto | right; auto].
Qed.

Lemma subsumes_aux_lit : forall c d ret l, subsumes_aux c d ret = SubLit l ->
  (forall x, In x c -> In x d \/ x = l) /\
  ((ret = Some l) \/ (ret = None /\ In l c /\ In (- l) d)).
Proof.
  induction c as [|x r IH]; simpl; intros d ret l H.
  - destruct ret as [l'|]; [|discriminate]. injection H as <-. split; [contradiction|auto].
  - destruct (sub_scan x d ret) as [ret'|] eqn:S; [|discriminate].
    destruct (IH d ret' l H) as [A B].
    destruct (sub_scan_some _ _ _ _ S) as [[S1 ->]|[-> [-> S3]]].
    + split.
      * intros y [<-|Hy]; auto.
      * destruct B as [B|[B1 [B2 B3]]]; auto.
    + destruct B as [[= <-]|[B _]]; [|discriminate]. split.
      * intros y [<-|Hy]; auto.
      * right; auto.
Qed.

Theorem strengthen_sound : forall a c d r, notaut c ->
  strengthen c d = Some r -> clause_true a c = true -> clause_true a d = true -> clause_true a r = true.
Proof.
  unfold strengthen, subsumes; intros a c d r Hnt H Tc Td.
  destruct (length d <? length c)%nat; [discriminate|].
  destruct (subsumes_aux c d None) as [| |l] eqn:S; try discriminate. injection H as <-.
  destruct (subsumes_aux_lit _ _ _ _ S) as [A [B|[_ [Lc Ld]]]]; [discriminate|].
  apply clause_true_iff in Tc. destruct Tc as [x [Hx Tx]].
  destruct (Z.eq_dec x l) as [->|N].
  - (* the clashing literal is true: some other literal of d is *)
    apply clause_true_iff in Td. destruct Td as [y [Hy Ty]].
    apply clause_true_iff. exists y; split; auto. apply in_remove_lit; split; auto.
    intros ->. apply lit_true_opp_false in Ty. congruence.
  - destruct (A x Hx) as [Hd|E]; [|congruence].
    apply clause_true_iff. exists x; split; auto. apply in_remove_lit; split; auto.
    intros ->. apply (Hnt l Lc). exact Hx.
Qed.

Corollary strengthen_entailed : forall F c d r, notaut c -> In c F -> In d F -> strengthen c d = Some r -> entails F r.
Proof. intros F c d r Hn Hc Hd H a Ha. eapply strengthen_sound; eauto. Qed.

Theorem asymm_sound : forall F v c r, asymm F v c = Some r -> entails F r.
Proof.
  unfold asymm; intros F v c r H.
  destruct (rup F (filter (fun l => negb (lit_has_var v l)) c)) eqn:E; [|discriminate].
  injection H as <-. now apply rup_sound.
Qed.

(* non-vacuity *)
Example elim_example :
  elim_resolvents [[1; 2; 3]; [-1; 2; 4]; [-1; -2]; [1; 5]] 1%positive = [[4; 2; 3]; [5; 2; 4]; [-2; 5]]
  /\ merge [1; 2] [-1; -2] 1%positive = None
  /\ strengthen [1; 2] [-1; 2; 3] = Some [2; 3]
  /\ subsumes [1; 2] [2; 1; 3] = SubAll /\ subsumes [1; 2] [-1; -2; 3] = SubError
  /\ asymm [[-2; 3]; [-3; 1]] 2%positive [1; 2; 5] = None
  /\ asymm [[1; 2]; [-2; 1]] 2%positive [1; 2] = Some [1].
Proof. repeat split; vm_compute; reflexivity. Qed.
