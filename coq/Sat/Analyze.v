(* Conflict analysis of the CDCL core (C12): a Gallina model of
     CoreSMTSolver::analyze        /repo/src/smtsolvers/CoreSMTSolver.cc:590-820
     CoreSMTSolver::litRedundant   /repo/src/smtsolvers/CoreSMTSolver.cc:825-914
   over an ABSTRACT trail, for the configuration  ccmin_mode == 2 (SMTConfig.h:581-583, default),
   sat_minimize_conflicts == 1 (SMTConfig.cc:572, default), and the proofs that for EVERY well-formed trail
   and every falsified conflict clause the learnt clause is entailed by the reason clauses and the conflict
   clause ([analyze_implied]) and is asserting with the right backjump level ([analyze_asserting]).

   [analyze_nomin] is the same function without the minimisation phase: this is the behaviour of the C++
   when resolution-proof logging is on (litRedundant returns false at once, CoreSMTSolver.cc:828-829) or
   sat_minimize_conflicts <= 0.

   What is abstracted
   * the trail is a list of entries, HEAD = MOST RECENT assignment (the C++ walks trail[index--] downwards,
     CoreSMTSolver.cc:604,648); vardata[x].level / vardata[x].reason are the fields of the entry of x;
   * a reason is the clause itself ([Some r], r's first literal is the implied literal: the loops skip
     index 0 of a reason, CoreSMTSolver.cc:622 and :890); CRef_Undef is [None];
   * lazily explained theory propagations (CRef_Fake, TheoryIF.cc:191): the entry carries the clause that
     theory_handler.getReason returns (CoreSMTSolver.cc:668) and the flag [te_theory = true].  Phase 1
     materialises the reason of every literal it resolves on (CoreSMTSolver.cc:653-696, vardata[var(p)].reason
     = ctr); litRedundant with sat_minimize_conflicts == 1 gives up on a literal whose reason is still
     CRef_Fake (CoreSMTSolver.cc:876-883).  The model tracks the set [mat] of variables materialised by
     phase 1.  cancelUntilVar (CoreSMTSolver.cc:412-438) only shrinks the trail ABOVE the index the walk has
     reached and does not touch vardata, so it does not influence the analysis;
   * level-0 facts enqueued with CRef_Undef are entries with reason [Some [te_lit]]; analyze never reads
     the reason of a level-0 variable (CoreSMTSolver.cc:628, :894 test the level first);
   * activity bumping, glue, statistics, proof logging, clause allocation: not modelled (no influence on
     out_learnt / out_btlevel);
   * situations the C++ excludes by assert (or where it would read outside the trail) give [None].
     One assert is NOT modelled: assert(index >= 0) at CoreSMTSolver.cc:650 is evaluated after the
     post-decrement of the while condition, so in a debug build it also rejects the case that the literal
     found is trail[0] (it would have to be index >= -1 to express "did not run off the trail").  The
     model allows p = oldest entry (behaviour of the NDEBUG build /verif/build/impl; in the solver
     trail[0] is the level-0 literal of the term true, MainSolver.cc:65, which is never marked).

   Theorems (all for arbitrary trails / clauses / decision levels)
     analyze_implied        trail_wf tr -> falsified c tr -> analyze tr dl c = Some (learnt, bt) ->
                            entails (reasons tr ++ [c]) learnt
     analyze_asserting      ... -> (all levels <= dl) -> 0 < dl -> (c has a literal of level >= dl) ->
                            asserting tr dl learnt bt
                            (first literal of level dl, all others of level in 1..dl-1 and <= bt, bt = 0 for a
                            unit clause and otherwise the level of some other literal, all literals false on the
                            trail).  The two extra hypotheses are the documented preconditions of the C++
                            (CoreSMTSolver.cc:579-581); [ex_low_not_asserting] shows that they are needed.
     analyze_total          under the same hypotheses and [decisions_open_levels] (a decision is strictly above
                            all older entries): analyze tr dl c <> None; in particular the fuel of litRedundant
                            (|trail| + 2) always suffices ([minimize_total] needs no hypothesis at all).
                            "The oldest entry of every level >= 1 is a decision" would not be enough: two
                            decisions on one level make the C++ fail assert :720 ([ex_bad_none]).
     analyze_nomin_implied / analyze_nomin_asserting / analyze_nomin_total   the same for [analyze_nomin]. *)
From Coq Require Import ZArith NArith PArith List Bool Lia FSetPositive.
From OsmtV.Sat Require Import PropLogic.
Import ListNotations.
Local Open Scope Z_scope.

Module PS := PositiveSet.

(* ------------------------------------------------------------------------------------------ *)
(* trail                                                                                       *)

(* var(l); the integer 0 is not a literal, it is given variable 1 to keep the model total *)
Definition lvar (l : Z) : positive := match l with Zpos p | Zneg p => p | Z0 => xH end.

Record tentry := mkT {
  te_lit : Z;                     (* the literal that is TRUE on the trail *)
  te_level : nat;                 (* vardata[var].level *)
  te_reason : option clause;      (* vardata[var].reason: None = CRef_Undef (decision / assumption) *)
  te_theory : bool                (* the reason is CRef_Fake when analyze starts *)
}.
Definition trail := list tentry.   (* head = most recent *)
Definition te_var (e : tentry) : positive := lvar (te_lit e).

Definition find_var (tr : trail) (v : positive) : option tentry :=
  find (fun e => Pos.eqb (te_var e) v) tr.
(* level(x), reason(x)   CoreSMTSolver.h (vardata lookups) *)
Definition level_of (tr : trail) (v : positive) : nat :=
  match find_var tr v with Some e => te_level e | None => O end.
Definition reason_of (tr : trail) (v : positive) : option clause :=
  match find_var tr v with Some e => te_reason e | None => None end.

Definition false_in (q : Z) (tr : trail) : Prop := q <> 0 /\ exists e, In e tr /\ te_lit e = - q.
Definition falsified (c : clause) (tr : trail) : Prop := forall q, In q c -> false_in q tr.
Definition assigned (v : positive) (tr : trail) : Prop := exists e, In e tr /\ te_var e = v.

Inductive trail_wf : trail -> Prop :=
| wf_nil : trail_wf []
| wf_cons : forall e tr,
    trail_wf tr ->
    te_lit e <> 0 ->
    ~ assigned (te_var e) tr ->
    (forall e', In e' tr -> (te_level e' <= te_level e)%nat) ->
    (te_reason e = None -> (0 < te_level e)%nat) ->
    (forall r, te_reason e = Some r -> exists rest, r = te_lit e :: rest /\ falsified rest tr) ->
    trail_wf (e :: tr).

Definition reasons (tr : trail) : list clause :=
  flat_map (fun e => match te_reason e with Some r => [r] | None => [] end) tr.

(* boolean checkers (used by the examples and by the tie) *)
Definition false_inb (q : Z) (tr : trail) : bool :=
  negb (q =? 0) && existsb (fun e => te_lit e =? - q) tr.
Definition falsifiedb (c : clause) (tr : trail) : bool := forallb (fun q => false_inb q tr) c.
Definition wf_entryb (e : tentry) (tr : trail) : bool :=
  negb (te_lit e =? 0)
  && negb (existsb (fun e' => Pos.eqb (te_var e') (te_var e)) tr)
  && forallb (fun e' => (te_level e' <=? te_level e)%nat) tr
  && match te_reason e with
     | None => (0 <? te_level e)%nat
     | Some [] => false
     | Some (l :: rest) => (l =? te_lit e) && falsifiedb rest tr
     end.
Fixpoint trail_wfb (tr : trail) : bool :=
  match tr with [] => true | e :: tr' => wf_entryb e tr' && trail_wfb tr' end.

(* ------------------------------------------------------------------------------------------ *)
(* phase 1: first UIP                                                                          *)

(* the body of the for loop CoreSMTSolver.cc:622-646 over the literals [qs] of the clause
   (all literals of the conflict clause, all but the first of a reason clause) *)
Fixpoint absorb (tr : trail) (dl : nat) (qs : clause) (seen : PS.t) (out : list Z) (pathC : Z)
  : PS.t * list Z * Z :=
  match qs with
  | [] => (seen, out, pathC)
  | q :: qs' =>
    let v := lvar q in
    if PS.mem v seen then absorb tr dl qs' seen out pathC                     (* :626 *)
    else if (0 <? level_of tr v)%nat then                                     (* :628 *)
      if (dl <=? level_of tr v)%nat                                           (* :632 *)
      then absorb tr dl qs' (PS.add v seen) out (pathC + 1)                   (* :634 *)
      else absorb tr dl qs' (PS.add v seen) (out ++ [q]) pathC                (* :637 *)
    else absorb tr dl qs' seen out pathC                                      (* level 0: dropped *)
  end.

(* the do-while loop CoreSMTSolver.cc:611-730 after the first absorb: walk down the trail to the next
   seen literal p (:648-651), confl = reason(p) (:698), assert(pathC == 1 || confl != CRef_Undef) (:720),
   seen[var p] = 0, pathC-- (:721-722), continue while pathC > 0 (:730).  Result: p, seen, the tail of
   out_learnt (indices >= 1), the set of variables whose lazy theory reason has been materialised. *)
Fixpoint walk (tr : trail) (dl : nat) (rest : trail) (seen : PS.t) (out : list Z) (pathC : Z) (mat : PS.t)
  : option (Z * PS.t * list Z * PS.t) :=
  match rest with
  | [] => None                                                                (* assert(index >= 0) :650 *)
  | e :: rest' =>
    let v := te_var e in
    if PS.mem v seen then
      let mat' := if te_theory e then PS.add v mat else mat in                (* :653-696 *)
      let seen' := PS.remove v seen in                                        (* :721 *)
      match te_reason e with
      | None => if pathC =? 1 then Some (te_lit e, seen', out, mat') else None   (* :720 *)
      | Some r =>
        if 0 <? pathC - 1 then                                                (* :722, :730 *)
          let '(s, o, pc) := absorb tr dl (tl r) seen' out (pathC - 1) in     (* :622 j = 1 *)
          walk tr dl rest' s o pc mat'
        else Some (te_lit e, seen', out, mat')
      end
    else walk tr dl rest' seen out pathC mat
  end.

(* ------------------------------------------------------------------------------------------ *)
(* phase 2: minimisation (ccmin_mode == 2)                                                     *)

(* abstractLevel(x) = 1 << (level(x) & 31)     CoreSMTSolver.h:697 *)
Definition abstractLevel (tr : trail) (v : positive) : N :=
  N.shiftl 1 (N.of_nat (level_of tr v mod 32)).

(* for (j = top; j < analyze_toclear.size(); j++) seen[var(analyze_toclear[j])] = 0   :878-880, :904-906
   [clr] is the segment analyze_toclear[top..] of the current litRedundant call (most recent first; the
   order is irrelevant for the resulting set) *)
Definition lr_undo (clr : list Z) (seen : PS.t) : PS.t :=
  fold_left (fun s q => PS.remove (lvar q) s) clr seen.

(* the for loop CoreSMTSolver.cc:890-910 over the literals c[1..] of the reason of the popped literal;
   [inr s]: the call fails, s = seen after undoing the marks of this call *)
Fixpoint lr_scan (tr : trail) (abs : N) (qs : list Z) (seen : PS.t) (stack clr : list Z)
  : (PS.t * list Z * list Z) + PS.t :=
  match qs with
  | [] => inl (seen, stack, clr)
  | q :: qs' =>
    let v := lvar q in
    if negb (PS.mem v seen) && (0 <? level_of tr v)%nat then                  (* :894 *)
      if (match reason_of tr v with Some _ => true | None => false end)
         && negb (N.land (abstractLevel tr v) abs =? 0)%N                     (* :896 *)
      then lr_scan tr abs qs' (PS.add v seen) (q :: stack) (q :: clr)         (* :898-900 *)
      else inr (lr_undo clr seen)                                             (* :904-907 *)
    else lr_scan tr abs qs' seen stack clr
  end.

(* the while loop CoreSMTSolver.cc:834-911; analyze_stack: head = last().  [None]: out of fuel or an
   assert of the C++ fails *)
Fixpoint lr_loop (fuel : nat) (tr : trail) (abs : N) (mat : PS.t) (seen : PS.t) (stack clr : list Z)
  : option (bool * PS.t) :=
  match stack with
  | [] => Some (true, seen)                                                   (* :913 *)
  | p :: stack' =>
    match fuel with
    | O => None
    | S fuel' =>
      match find_var tr (lvar p) with
      | None => None
      | Some e =>
        match te_reason e with
        | None => None                                                        (* assert :836 *)
        | Some r =>
          if te_theory e && negb (PS.mem (te_var e) mat)                      (* cr == CRef_Fake :876 *)
          then Some (false, lr_undo clr seen)                                 (* :878-882 *)
          else match lr_scan tr abs (tl r) seen stack' clr with               (* pop :888, scan :890 *)
               | inr s => Some (false, s)
               | inl (s, st, cl) => lr_loop fuel' tr abs mat s st cl
               end
        end
      end
    end
  end.

(* every variable is pushed at most once per call (it is marked seen when pushed) and only variables of
   trail entries are pushed, so |trail| + 2 iterations always suffice *)
Definition litRedundant (tr : trail) (abs : N) (mat : PS.t) (p : Z) (seen : PS.t) : option (bool * PS.t) :=
  lr_loop (S (S (length tr))) tr abs mat seen [p] [].                         (* :831-833 *)

(* for (i = j = 1; ...) if (reason(var(out_learnt[i])) == CRef_Undef || !litRedundant(...)) keep   :746-748 *)
Fixpoint minimize (tr : trail) (abs : N) (mat : PS.t) (qs : list Z) (seen : PS.t)
  : option (list Z * PS.t) :=
  match qs with
  | [] => Some ([], seen)
  | q :: qs' =>
    match reason_of tr (lvar q) with
    | None => match minimize tr abs mat qs' seen with
              | Some (k, s) => Some (q :: k, s) | None => None end
    | Some _ =>
      match litRedundant tr abs mat q seen with
      | None => None
      | Some (true, s1) => minimize tr abs mat qs' s1
      | Some (false, s1) => match minimize tr abs mat qs' s1 with
                            | Some (k, s) => Some (q :: k, s) | None => None end
      end
    end
  end.

(* :742-744 *)
Definition abstract_levels (tr : trail) (tail : list Z) : N :=
  fold_left (fun acc q => N.lor acc (abstractLevel tr (lvar q))) tail 0%N.

(* ------------------------------------------------------------------------------------------ *)
(* phase 3: backjump level                                                                     *)

(* for (i = 2; ...) if (level(out_learnt[i]) > level(out_learnt[max_i])) max_i = i    :785-789
   indices are relative to the tail out_learnt[1..] *)
Fixpoint max_idx (tr : trail) (l : list Z) (i best bestlvl : nat) : nat :=
  match l with
  | [] => best
  | q :: l' =>
    if (bestlvl <? level_of tr (lvar q))%nat
    then max_idx tr l' (S i) i (level_of tr (lvar q))
    else max_idx tr l' (S i) best bestlvl
  end.

(* put x at position k of l, return the old element *)
Fixpoint swap_in (x : Z) (l : list Z) (k : nat) : Z * list Z :=
  match l with
  | [] => (x, [])
  | y :: l' =>
    match k with
    | O => (y, x :: l')
    | S k' => let '(p, l'') := swap_in x l' k' in (p, y :: l'')
    end
  end.

(* :781-795 *)
Definition backjump (tr : trail) (l0 : Z) (kept : list Z) : clause * nat :=
  match kept with
  | [] => ([l0], O)
  | q1 :: rest =>
    match max_idx tr rest 1 0 (level_of tr (lvar q1)) with
    | O => (l0 :: q1 :: rest, level_of tr (lvar q1))
    | S k => let '(p, rest') := swap_in q1 rest k in (l0 :: p :: rest', level_of tr (lvar p))
    end
  end.

(* ------------------------------------------------------------------------------------------ *)
(* analyze                                                                                     *)

Definition phase1 (tr : trail) (dl : nat) (c : clause) : option (Z * PS.t * list Z * PS.t) :=
  let '(s0, o0, pc0) := absorb tr dl c PS.empty [] 0 in                       (* p == lit_Undef: j = 0 *)
  walk tr dl tr s0 o0 pc0 PS.empty.

(* dl = decisionLevel() *)
Definition analyze (tr : trail) (dl : nat) (c : clause) : option (clause * nat) :=
  match phase1 tr dl c with
  | None => None
  | Some (p, s1, tail, mat) =>
    match minimize tr (abstract_levels tr tail) mat tail s1 with
    | None => None
    | Some (kept, _) => Some (backjump tr (- p) kept)                         (* out_learnt[0] = ~p :734 *)
    end
  end.

Definition analyze_nomin (tr : trail) (dl : nat) (c : clause) : option (clause * nat) :=
  match phase1 tr dl c with
  | None => None
  | Some (p, _, tail, _) => Some (backjump tr (- p) tail)
  end.

(* ------------------------------------------------------------------------------------------ *)
(* basic facts                                                                                 *)

Definition sIn (v : positive) (s : PS.t) : Prop := PS.mem v s = true.

Lemma sIn_add : forall v x s, sIn v (PS.add x s) <-> v = x \/ sIn v s.
Proof.
  intros v x s. unfold sIn. change (PS.In v (PS.add x s) <-> v = x \/ PS.In v s).
  rewrite PS.add_spec. intuition.
Qed.
Lemma sIn_remove : forall v x s, sIn v (PS.remove x s) <-> sIn v s /\ v <> x.
Proof.
  intros v x s. unfold sIn. change (PS.In v (PS.remove x s) <-> PS.In v s /\ v <> x).
  rewrite PS.remove_spec. intuition.
Qed.
Lemma sIn_empty : forall v, ~ sIn v PS.empty.
Proof. intros v H. unfold sIn in H. unfold PS.empty in H. rewrite PS.mem_Leaf in H. discriminate. Qed.
Lemma not_sIn : forall v s, PS.mem v s = false -> ~ sIn v s.
Proof. unfold sIn; intros; congruence. Qed.

Lemma lvar_opp : forall q, lvar (- q) = lvar q.
Proof. intros [|p|p]; reflexivity. Qed.

Lemma lit_true_opp_true : forall a q, q <> 0 -> lit_true a q = false -> lit_true a (- q) = true.
Proof. intros a q Hq H. rewrite lit_true_opp by auto. now rewrite H. Qed.

Lemma false_in_incl : forall q t1 t2, incl t1 t2 -> false_in q t1 -> false_in q t2.
Proof. intros q t1 t2 Hi [Hq [e [He E]]]. split; auto. exists e; auto. Qed.
Lemma falsified_incl : forall c t1 t2, incl t1 t2 -> falsified c t1 -> falsified c t2.
Proof. intros c t1 t2 Hi H q Hq. eapply false_in_incl; eauto. Qed.

Lemma false_inb_sound : forall q tr, false_inb q tr = true -> false_in q tr.
Proof.
  intros q tr H. unfold false_inb in H. apply andb_true_iff in H. destruct H as [H1 H2].
  split.
  - intros ->. discriminate.
  - apply existsb_exists in H2. destruct H2 as [e [He E]]. exists e; split; auto. now apply Z.eqb_eq.
Qed.
Lemma falsifiedb_sound : forall c tr, falsifiedb c tr = true -> falsified c tr.
Proof.
  intros c tr H q Hq. unfold falsifiedb in H. rewrite forallb_forall in H. apply false_inb_sound; auto.
Qed.
Lemma trail_wfb_sound : forall tr, trail_wfb tr = true -> trail_wf tr.
Proof.
  induction tr as [|e tr IH]; simpl; intros H; [constructor|].
  apply andb_true_iff in H. destruct H as [H Hr]. unfold wf_entryb in H.
  repeat (apply andb_true_iff in H; destruct H as [H ?]).
  constructor; auto.
  - intros E. rewrite E in H. discriminate.
  - intros [e' [He' E]]. apply negb_true_iff in H2.
    assert (existsb (fun e'0 : tentry => (te_var e'0 =? te_var e)%positive) tr = true); [|congruence].
    apply existsb_exists. exists e'; split; auto. now apply Pos.eqb_eq.
  - intros e' He'. rewrite forallb_forall in H1. apply Nat.leb_le. auto.
  - intros E. rewrite E in H0. now apply Nat.ltb_lt.
  - intros r E. rewrite E in H0. destruct r as [|l rest]; [discriminate|].
    apply andb_true_iff in H0. destruct H0 as [A B]. apply Z.eqb_eq in A. subst l.
    exists rest; split; auto. now apply falsifiedb_sound.
Qed.

Lemma find_var_in : forall tr e, trail_wf tr -> In e tr -> find_var tr (te_var e) = Some e.
Proof.
  intros tr e Hwf. induction Hwf as [|e0 tr Hwf IH Hnz Hna Hmono Hdec Hreas]; intros Hin; [destruct Hin|].
  unfold find_var; simpl. destruct Hin as [->|Hin].
  - now rewrite Pos.eqb_refl.
  - destruct (Pos.eqb_spec (te_var e0) (te_var e)) as [E|N].
    + exfalso. apply Hna. exists e; split; auto.
    + apply IH; auto.
Qed.

Lemma find_var_some : forall tr v e, find_var tr v = Some e -> In e tr /\ te_var e = v.
Proof.
  intros tr v e H. unfold find_var in H. apply find_some in H. destruct H as [H1 H2]. split; auto.
  now apply Pos.eqb_eq.
Qed.

Lemma entry_unique : forall tr e1 e2, trail_wf tr -> In e1 tr -> In e2 tr -> te_var e1 = te_var e2 -> e1 = e2.
Proof.
  intros tr e1 e2 Hwf H1 H2 E. pose proof (find_var_in tr e1 Hwf H1) as F1.
  pose proof (find_var_in tr e2 Hwf H2) as F2. rewrite E in F1. congruence.
Qed.

Lemma level_of_in : forall tr e, trail_wf tr -> In e tr -> level_of tr (te_var e) = te_level e.
Proof. intros tr e Hwf Hin. unfold level_of. now rewrite (find_var_in tr e Hwf Hin). Qed.

Lemma level_of_false : forall tr e q, trail_wf tr -> In e tr -> te_lit e = - q -> level_of tr (lvar q) = te_level e.
Proof.
  intros tr e q Hwf Hin E. rewrite <- (level_of_in tr e Hwf Hin). unfold te_var. rewrite E, lvar_opp. reflexivity.
Qed.

Lemma wf_suffix : forall pre rest, trail_wf (pre ++ rest) -> trail_wf rest.
Proof. induction pre as [|e pre IH]; simpl; intros rest H; auto. inversion H; subst. auto. Qed.

Lemma reasons_in : forall tr e r, In e tr -> te_reason e = Some r -> In r (reasons tr).
Proof.
  intros tr e r Hin E. unfold reasons. apply in_flat_map. exists e; split; auto. rewrite E. now left.
Qed.

Lemma reasons_incl : forall e tr, incl (reasons tr) (reasons (e :: tr)).
Proof. intros e tr r Hr. unfold reasons in *. simpl. apply in_or_app. now right. Qed.

(* hint (a): every level-0 literal of a well-formed trail is entailed by the reason clauses *)
Lemma level0_entailed : forall tr, trail_wf tr ->
  forall e, In e tr -> te_level e = O -> entails (reasons tr) [te_lit e].
Proof.
  intros tr Hwf. induction Hwf as [|e0 tr Hwf IH Hnz Hna Hmono Hdec Hreas]; intros e Hin Hl; [destruct Hin|].
  destruct Hin as [->|Hin].
  - destruct (te_reason e) as [r|] eqn:Er; [|specialize (Hdec eq_refl); lia].
    destruct (Hreas r eq_refl) as [rest [-> Hf]].
    intros a Ha. simpl. rewrite orb_false_r.
    assert (Hr : clause_true a (te_lit e :: rest) = true).
    { apply Ha. eapply reasons_in; [left; reflexivity|exact Er]. }
    simpl in Hr. apply orb_true_iff in Hr. destruct Hr as [Hr|Hr]; auto.
    exfalso. apply clause_true_iff in Hr. destruct Hr as [q [Hq Tq]].
    destruct (Hf q Hq) as [Hq0 [e' [He' E']]].
    assert (L0 : te_level e' = O) by (specialize (Hmono e' He'); lia).
    specialize (IH e' He' L0 a). rewrite E' in IH. simpl in IH. rewrite orb_false_r in IH.
    assert (lit_true a (- q) = true).
    { apply IH. eapply models_incl; [apply (reasons_incl e tr)|exact Ha]. }
    apply lit_true_opp_false in H. congruence.
  - eapply entails_incl; [apply reasons_incl|]. apply IH; auto.
Qed.
(* ------------------------------------------------------------------------------------------ *)
(* counting the pending literals                                                               *)

Definition pendb (dl : nat) (seen : PS.t) (e : tentry) : bool :=
  PS.mem (te_var e) seen && (dl <=? te_level e)%nat.
Definition cnt (dl : nat) (seen : PS.t) (rest : trail) : nat := length (filter (pendb dl seen) rest).

Lemma cnt_ext : forall dl s1 s2 rest,
  (forall e, In e rest -> pendb dl s1 e = pendb dl s2 e) -> cnt dl s1 rest = cnt dl s2 rest.
Proof. intros. unfold cnt. f_equal. now apply filter_ext_in. Qed.

Lemma cnt_cons : forall dl s e rest,
  cnt dl s (e :: rest) = ((if pendb dl s e then 1 else 0) + cnt dl s rest)%nat.
Proof. intros. unfold cnt. simpl. destruct (pendb dl s e); reflexivity. Qed.

Lemma cnt_pos : forall dl s rest e, In e rest -> pendb dl s e = true -> (1 <= cnt dl s rest)%nat.
Proof.
  intros dl s rest e Hin Hp. unfold cnt.
  assert (H : In e (filter (pendb dl s) rest)) by (apply filter_In; auto).
  destruct (filter (pendb dl s) rest); [destruct H | simpl; lia].
Qed.

Lemma cnt_pos_inv : forall dl s rest, (1 <= cnt dl s rest)%nat -> exists e, In e rest /\ pendb dl s e = true.
Proof.
  intros dl s rest H. unfold cnt in H. destruct (filter (pendb dl s) rest) as [|e l] eqn:E; [simpl in H; lia|].
  assert (In e (filter (pendb dl s) rest)) by (rewrite E; now left).
  apply filter_In in H0. exists e; auto.
Qed.

Lemma cnt_empty : forall dl rest, cnt dl PS.empty rest = O.
Proof.
  intros dl rest. destruct (cnt dl PS.empty rest) eqn:E; auto.
  destruct (cnt_pos_inv dl PS.empty rest) as [e [_ H]]; [lia|].
  unfold pendb in H. apply andb_true_iff in H. destruct H as [H _]. exfalso. apply (sIn_empty (te_var e)). exact H.
Qed.

Lemma mem_add_other : forall v x s, v <> x -> PS.mem v (PS.add x s) = PS.mem v s.
Proof.
  intros v x s N. destruct (PS.mem v s) eqn:E.
  - apply sIn_add. now right.
  - destruct (PS.mem v (PS.add x s)) eqn:E2; auto. apply sIn_add in E2. destruct E2; [contradiction|].
    unfold sIn in H. congruence.
Qed.
Lemma mem_remove_other : forall v x s, v <> x -> PS.mem v (PS.remove x s) = PS.mem v s.
Proof.
  intros v x s N. destruct (PS.mem v s) eqn:E.
  - apply sIn_remove. now split.
  - destruct (PS.mem v (PS.remove x s)) eqn:E2; auto. apply sIn_remove in E2. destruct E2 as [H _].
    unfold sIn in H. congruence.
Qed.

(* marking the variable of a pending-level entry *)
Lemma cnt_add_hi : forall dl s rest e, trail_wf rest -> In e rest -> ~ sIn (te_var e) s ->
  (dl <= te_level e)%nat -> cnt dl (PS.add (te_var e) s) rest = S (cnt dl s rest).
Proof.
  intros dl s rest e Hwf. induction Hwf as [|e0 tr Hwf IH Hnz Hna Hmono Hdec Hreas]; intros Hin Hns Hl; [destruct Hin|].
  rewrite !cnt_cons. destruct Hin as [->|Hin].
  - assert (P1 : pendb dl (PS.add (te_var e) s) e = true).
    { unfold pendb. apply andb_true_iff; split; [apply sIn_add; now left | now apply Nat.leb_le]. }
    assert (P2 : pendb dl s e = false).
    { unfold pendb. destruct (PS.mem (te_var e) s) eqn:E; auto. contradiction. }
    rewrite P1, P2. simpl. f_equal. apply cnt_ext. intros e' He'. unfold pendb.
    rewrite mem_add_other; auto. intros E. apply Hna. exists e'; auto.
  - assert (N : te_var e0 <> te_var e).
    { intros E. apply Hna. exists e; auto. }
    assert (P : pendb dl (PS.add (te_var e) s) e0 = pendb dl s e0).
    { unfold pendb. now rewrite mem_add_other. }
    rewrite P, IH by auto. lia.
Qed.

Lemma cnt_add_lo : forall dl s rest e, trail_wf rest -> In e rest ->
  (te_level e < dl)%nat -> cnt dl (PS.add (te_var e) s) rest = cnt dl s rest.
Proof.
  intros dl s rest e Hwf Hin Hl. apply cnt_ext. intros e' He'. unfold pendb.
  destruct (Pos.eq_dec (te_var e') (te_var e)) as [E|N].
  - assert (e' = e) by (eapply entry_unique; eauto). subst e'.
    assert ((dl <=? te_level e)%nat = false) by (apply Nat.leb_gt; lia). rewrite H. now rewrite !andb_false_r.
  - now rewrite mem_add_other.
Qed.

Lemma cnt_remove_absent : forall dl s rest v, ~ assigned v rest -> cnt dl (PS.remove v s) rest = cnt dl s rest.
Proof.
  intros dl s rest v Hna. apply cnt_ext. intros e He. unfold pendb. rewrite mem_remove_other; auto.
  intros E. apply Hna. exists e; auto.
Qed.

(* ------------------------------------------------------------------------------------------ *)
(* phase 1                                                                                     *)

Section Phase1.
Variables (tr : trail) (dl : nat) (c : clause).
Hypothesis Hwf : trail_wf tr.
Let G := reasons tr ++ [c].

Definition pendfalse (a : assignment) (seen : PS.t) (rest : trail) : Prop :=
  exists e, In e rest /\ sIn (te_var e) seen /\ (dl <= te_level e)%nat /\ lit_true a (te_lit e) = false.

Record InvS (rest : trail) (seen : PS.t) (out : list Z) : Prop := {
  is_cover : forall v, sIn v seen -> exists e, In e rest /\ te_var e = v;
  is_low : forall e, In e rest -> sIn (te_var e) seen -> (te_level e < dl)%nat -> In (- te_lit e) out;
  is_out : forall q, In q out -> false_in q tr /\ (0 < level_of tr (lvar q) < dl)%nat
}.

Lemma models_G_reasons : forall a, models a G -> models a (reasons tr).
Proof. intros a Ha. apply models_app in Ha. tauto. Qed.

Lemma absorb_spec : forall pre rest, tr = pre ++ rest ->
  forall qs seen out pc seen' out' pc',
  falsified qs rest -> InvS rest seen out -> pc = Z.of_nat (cnt dl seen rest) ->
  absorb tr dl qs seen out pc = (seen', out', pc') ->
  InvS rest seen' out' /\ pc' = Z.of_nat (cnt dl seen' rest) /\ pc <= pc' /\
  (forall v, sIn v seen -> sIn v seen') /\
  (forall q, In q qs -> (0 < level_of tr (lvar q))%nat -> sIn (lvar q) seen') /\
  (forall a, models a G ->
     clause_true a out = true \/ pendfalse a seen rest \/ clause_true a qs = true ->
     clause_true a out' = true \/ pendfalse a seen' rest).
Proof.
  intros pre rest Htr.
  assert (Hwfr : trail_wf rest) by (apply (wf_suffix pre); now rewrite <- Htr).
  assert (Hsub : incl rest tr) by (rewrite Htr; apply incl_appr, incl_refl).
  induction qs as [|q qs IH]; intros seen out pc seen' out' pc' Hf HI Hpc Hab.
  - simpl in Hab. inversion Hab; subst. repeat split; try apply HI; auto; try lia.
    + intros q [].
    + intros a Ha [H|[H|H]]; auto. discriminate.
  - assert (Hf' : falsified qs rest) by (intros x Hx; apply Hf; now right).
    destruct (Hf q (or_introl eq_refl)) as [Hq0 [eq [Heq Eeq]]].
    assert (Hvar : te_var eq = lvar q) by (unfold te_var; now rewrite Eeq, lvar_opp).
    assert (Hlvl : level_of tr (lvar q) = te_level eq) by (apply level_of_false; auto).
    assert (Hqlit : - te_lit eq = q) by (rewrite Eeq; lia).
    simpl in Hab.
    destruct (PS.mem (lvar q) seen) eqn:Eseen.
    { (* already seen *)
      destruct (IH _ _ _ _ _ _ Hf' HI Hpc Hab) as [A [B [C [D [E F]]]]].
      repeat split; try apply A; auto.
      - intros x [<-|Hx] Hl; auto.
      - intros a Ha Hpre. apply F; auto. destruct Hpre as [H|[H|H]]; auto.
        simpl in H. apply orb_true_iff in H. destruct H as [H|H]; auto.
        destruct (Nat.le_gt_cases dl (te_level eq)) as [Hhi|Hlo].
        + right; left. exists eq. rewrite Hvar. repeat split; auto.
          rewrite Eeq. rewrite lit_true_opp by auto. now rewrite H.
        + left. apply clause_true_iff. exists q; split; auto.
          rewrite <- Hqlit. apply (is_low _ _ _ HI); auto. now rewrite Hvar. }
    destruct (0 <? level_of tr (lvar q))%nat eqn:Epos.
    2:{ (* level 0 *)
      apply Nat.ltb_ge in Epos.
      destruct (IH _ _ _ _ _ _ Hf' HI Hpc Hab) as [A [B [C [D [E F]]]]].
      repeat split; try apply A; auto.
      - intros x [<-|Hx] Hl; auto. lia.
      - intros a Ha Hpre. apply F; auto. destruct Hpre as [H|[H|H]]; auto.
        simpl in H. apply orb_true_iff in H. destruct H as [H|H]; auto.
        exfalso. assert (L0 : te_level eq = O) by lia.
        pose proof (level0_entailed tr Hwf eq (Hsub _ Heq) L0 a (models_G_reasons a Ha)) as T.
        simpl in T. rewrite orb_false_r in T. rewrite Eeq in T. apply lit_true_opp_false in T. congruence. }
    apply Nat.ltb_lt in Epos. apply not_sIn in Eseen.
    destruct (dl <=? level_of tr (lvar q))%nat eqn:Ehi.
    { (* pending level *)
      apply Nat.leb_le in Ehi.
      assert (HI1 : InvS rest (PS.add (lvar q) seen) out).
      { constructor.
        - intros v Hv. apply sIn_add in Hv. destruct Hv as [->|Hv]; [exists eq; auto | apply (is_cover _ _ _ HI); auto].
        - intros e He Hs Hl. apply sIn_add in Hs. destruct Hs as [Hs|Hs]; [|apply (is_low _ _ _ HI); auto].
          assert (e = eq) by (apply (entry_unique rest); auto; congruence). subst e. lia.
        - apply HI. }
      assert (Hpc1 : pc + 1 = Z.of_nat (cnt dl (PS.add (lvar q) seen) rest)).
      { rewrite <- Hvar. rewrite cnt_add_hi; auto; try lia. now rewrite Hvar. }
      destruct (IH _ _ _ _ _ _ Hf' HI1 Hpc1 Hab) as [A [B [C [D [E F]]]]].
      repeat split; try apply A; auto; try lia.
      - intros v Hv. apply D. apply sIn_add. now right.
      - intros x [<-|Hx] Hl; auto. apply D. apply sIn_add. now left.
      - intros a Ha Hpre. apply F; auto. destruct Hpre as [H|[H|H]]; auto.
        + right; left. destruct H as [e [He [Hs [Hl Hfalse]]]]. exists e. repeat split; auto.
          apply sIn_add. now right.
        + simpl in H. apply orb_true_iff in H. destruct H as [H|H]; auto.
          right; left. exists eq. repeat split; auto; try lia.
          * apply sIn_add. now left.
          * rewrite Eeq. rewrite lit_true_opp by auto. now rewrite H. }
    { (* lower level: goes to out_learnt *)
      apply Nat.leb_gt in Ehi.
      assert (HI1 : InvS rest (PS.add (lvar q) seen) (out ++ [q])).
      { constructor.
        - intros v Hv. apply sIn_add in Hv. destruct Hv as [->|Hv]; [exists eq; auto | apply (is_cover _ _ _ HI); auto].
        - intros e He Hs Hl. apply in_or_app. apply sIn_add in Hs. destruct Hs as [Hs|Hs].
          + assert (e = eq) by (apply (entry_unique rest); auto; congruence). subst e. right. left. auto.
          + left. apply (is_low _ _ _ HI); auto.
        - intros x Hx. apply in_app_or in Hx. destruct Hx as [Hx|[<-|[]]]; [apply HI; auto|].
          split; [|lia]. split; auto. exists eq; auto. }
      assert (Hpc1 : pc = Z.of_nat (cnt dl (PS.add (lvar q) seen) rest)).
      { rewrite <- Hvar. rewrite cnt_add_lo; auto; lia. }
      destruct (IH _ _ _ _ _ _ Hf' HI1 Hpc1 Hab) as [A [B [C [D [E F]]]]].
      repeat split; try apply A; auto; try lia.
      - intros v Hv. apply D. apply sIn_add. now right.
      - intros x [<-|Hx] Hl; auto. apply D. apply sIn_add. now left.
      - intros a Ha Hpre. apply F; auto. destruct Hpre as [H|[H|H]]; auto.
        + left. rewrite clause_true_app. now rewrite H.
        + right; left. destruct H as [e [He [Hs [Hl Hfalse]]]]. exists e. repeat split; auto.
          apply sIn_add. now right.
        + simpl in H. apply orb_true_iff in H. destruct H as [H|H]; auto.
          left. rewrite clause_true_app. simpl. rewrite H. now rewrite orb_true_r. }
Qed.

Lemma walk_spec : forall rest pre seen out pc mat p seen' out' mat',
  tr = pre ++ rest -> InvS rest seen out -> pc = Z.of_nat (cnt dl seen rest) ->
  (forall a, models a G -> clause_true a out = true \/ pendfalse a seen rest) ->
  walk tr dl rest seen out pc mat = Some (p, seen', out', mat') ->
  (forall a, models a G -> clause_true a (- p :: out') = true) /\
  (forall q, In q out' -> false_in q tr /\ (0 < level_of tr (lvar q) < dl)%nat) /\
  (forall v, sIn v seen' -> exists q, In q out' /\ lvar q = v) /\
  (exists e, In e tr /\ te_lit e = p /\ (1 <= pc -> (dl <= te_level e)%nat)).
Proof.
  induction rest as [|e rest IH]; intros pre seen out pc mat p seen' out' mat' Htr HI Hpc Hsem Hw;
    [discriminate|].
  assert (Hwfr : trail_wf (e :: rest)) by (apply (wf_suffix pre); now rewrite <- Htr).
  assert (Htr' : tr = (pre ++ [e]) ++ rest) by (rewrite <- app_assoc; exact Htr).
  assert (Hsub : incl (e :: rest) tr) by (rewrite Htr; apply incl_appr, incl_refl).
  inversion Hwfr as [|e0 tr0 Hwf0 Hnz Hna Hmono Hdec Hreas]; subst e0 tr0.
  simpl in Hw. rewrite cnt_cons in Hpc.
  destruct (PS.mem (te_var e) seen) eqn:Eseen.
  2:{ (* not seen: walk on *)
    assert (Pe : pendb dl seen e = false) by (unfold pendb; now rewrite Eseen).
    rewrite Pe in Hpc. simpl in Hpc.
    apply (IH (pre ++ [e]) seen out pc mat p seen' out' mat'); auto.
    - constructor.
      + intros v Hv. destruct (is_cover _ _ _ HI v Hv) as [e' [[<-|He'] E]].
        * subst v. unfold sIn in Hv. congruence.
        * exists e'; auto.
      + intros e' He'. apply (is_low _ _ _ HI). now right.
      + apply HI.
    - intros a Ha. destruct (Hsem a Ha) as [H|[e' [[<-|He'] [Hs H]]]]; auto.
      + unfold sIn in Hs. congruence.
      + right. exists e'; auto. }
  (* e is the next seen literal p *)
  assert (Fhi : (1 <= cnt dl seen rest)%nat -> (dl <= te_level e)%nat).
  { intros H. destruct (cnt_pos_inv _ _ _ H) as [e' [He' Pe']]. unfold pendb in Pe'.
    apply andb_true_iff in Pe'. destruct Pe' as [_ L]. apply Nat.leb_le in L. specialize (Hmono e' He'). lia. }
  assert (Hcover' : forall v, sIn v (PS.remove (te_var e) seen) -> exists e', In e' rest /\ te_var e' = v /\ sIn v seen).
  { intros v Hv. apply sIn_remove in Hv. destruct Hv as [Hv N].
    destruct (is_cover _ _ _ HI v Hv) as [e' [[<-|He'] E]]; [congruence|]. exists e'; auto. }
  assert (Exit : pc <= 1 ->
    (forall a, models a G -> clause_true a (- te_lit e :: out) = true) /\
    (forall q, In q out -> false_in q tr /\ (0 < level_of tr (lvar q) < dl)%nat) /\
    (forall v, sIn v (PS.remove (te_var e) seen) -> exists q, In q out /\ lvar q = v) /\
    (exists e0, In e0 tr /\ te_lit e0 = te_lit e /\ (1 <= pc -> (dl <= te_level e0)%nat))).
  { intros Hle.
    assert (Hnone : forall e', In e' rest -> sIn (te_var e') seen -> (dl <= te_level e')%nat -> False).
    { intros e' He' Hs Hl.
      assert (P : pendb dl seen e' = true) by (unfold pendb; apply andb_true_iff; split; auto; now apply Nat.leb_le).
      pose proof (cnt_pos _ _ _ _ He' P) as C1. specialize (Fhi C1).
      assert (Pe : pendb dl seen e = true) by (unfold pendb; apply andb_true_iff; split; auto; now apply Nat.leb_le).
      rewrite Pe in Hpc. lia. }
    split; [|split; [|split]].
    - intros a Ha. simpl. apply orb_true_iff. destruct (Hsem a Ha) as [H|[e' [[<-|He'] [Hs [Hl H]]]]]; auto.
      + left. now apply lit_true_opp_true.
      + exfalso. eapply Hnone; eauto.
    - apply HI; auto.
    - intros v Hv. destruct (Hcover' v Hv) as [e' [He' [E Hs]]]. exists (- te_lit e'). split.
      + apply (is_low _ _ _ HI); [now right | now rewrite E |].
        destruct (Nat.le_gt_cases dl (te_level e')); auto. exfalso. apply (Hnone e'); auto. now rewrite E.
      + rewrite lvar_opp. exact E.
    - exists e. repeat split; auto. { apply Hsub. now left. }
      intros H1. destruct (pendb dl seen e) eqn:Pe.
      + unfold pendb in Pe. apply andb_true_iff in Pe. destruct Pe as [_ L]. now apply Nat.leb_le.
      + apply Fhi. simpl in Hpc. lia. }
  destruct (te_reason e) as [r|] eqn:Er.
  2:{ destruct (pc =? 1) eqn:E1; [|discriminate]. apply Z.eqb_eq in E1. inversion Hw; subst.
      apply Exit. lia. }
  destruct (0 <? pc - 1) eqn:Egt.
  2:{ apply Z.ltb_ge in Egt. inversion Hw; subst. apply Exit. lia. }
  apply Z.ltb_lt in Egt.
  destruct (Hreas r eq_refl) as [rr [-> Hfr]]. simpl in Hw.
  destruct (absorb tr dl rr (PS.remove (te_var e) seen) out (pc - 1)) as [[s o] pc1] eqn:Eab.
  assert (Hhi : (dl <= te_level e)%nat).
  { apply Fhi. destruct (pendb dl seen e); simpl in Hpc; lia. }
  assert (Pe : pendb dl seen e = true) by (unfold pendb; apply andb_true_iff; split; auto; now apply Nat.leb_le).
  rewrite Pe in Hpc.
  assert (HI1 : InvS rest (PS.remove (te_var e) seen) out).
  { constructor.
    - intros v Hv. destruct (Hcover' v Hv) as [e' [He' [E _]]]. exists e'; auto.
    - intros e' He' Hs Hl. apply sIn_remove in Hs. destruct Hs as [Hs _]. apply (is_low _ _ _ HI); auto. now right.
    - apply HI. }
  assert (Hpc1 : pc - 1 = Z.of_nat (cnt dl (PS.remove (te_var e) seen) rest)).
  { rewrite cnt_remove_absent; auto. lia. }
  destruct (absorb_spec (pre ++ [e]) rest Htr' rr _ _ _ _ _ _ Hfr HI1 Hpc1 Eab) as [A [B [C [D [E F]]]]].
  assert (Hsem1 : forall a, models a G -> clause_true a o = true \/ pendfalse a s rest).
  { intros a Ha. apply F; auto.
    destruct (Hsem a Ha) as [H|[e' [[<-|He'] [Hs [Hl H]]]]]; auto.
    + right; right.
      assert (T : clause_true a (te_lit e :: rr) = true).
      { apply Ha. unfold G. apply in_or_app. left. eapply reasons_in; [|exact Er]. apply Hsub. now left. }
      simpl in T. rewrite H in T. exact T.
    + right; left. exists e'. repeat split; auto. apply sIn_remove. split; auto.
      intros E'. apply Hna. exists e'; auto. }
  destruct (IH (pre ++ [e]) s o pc1 _ p seen' out' mat' Htr' A B Hsem1 Hw) as [R1 [R2 [R3 [e0 [R4 [R5 R6]]]]]].
  split; [|split; [|split]]; auto. exists e0. repeat split; auto. intros _. apply R6. lia.
Qed.

Lemma phase1_spec : forall p s1 tail mat,
  falsified c tr -> phase1 tr dl c = Some (p, s1, tail, mat) ->
  (forall a, models a G -> clause_true a (- p :: tail) = true) /\
  (forall q, In q tail -> false_in q tr /\ (0 < level_of tr (lvar q) < dl)%nat) /\
  (forall v, sIn v s1 -> exists q, In q tail /\ lvar q = v) /\
  (exists e, In e tr /\ te_lit e = p /\
     ((0 < dl)%nat -> (exists q, In q c /\ (dl <= level_of tr (lvar q))%nat) -> (dl <= te_level e)%nat)).
Proof.
  intros p s1 tail mat Hf Hp. unfold phase1 in Hp.
  destruct (absorb tr dl c PS.empty [] 0) as [[s0 o0] pc0] eqn:Eab.
  assert (HI0 : InvS tr PS.empty []).
  { constructor.
    - intros v Hv. exfalso. eapply sIn_empty; exact Hv.
    - intros e _ Hs. exfalso. eapply sIn_empty; exact Hs.
    - intros q []. }
  assert (Hpc0 : 0 = Z.of_nat (cnt dl PS.empty tr)) by (rewrite cnt_empty; reflexivity).
  destruct (absorb_spec [] tr eq_refl c _ _ _ _ _ _ Hf HI0 Hpc0 Eab) as [A [B [C [D [E F]]]]].
  assert (Hsem0 : forall a, models a G -> clause_true a o0 = true \/ pendfalse a s0 tr).
  { intros a Ha. apply F; auto. right; right. apply Ha. unfold G. apply in_or_app. right. now left. }
  destruct (walk_spec tr [] s0 o0 pc0 _ p s1 tail mat eq_refl A B Hsem0 Hp) as [R1 [R2 [R3 [e0 [R4 [R5 R6]]]]]].
  split; [|split; [|split]]; auto. exists e0. repeat split; auto. intros Hdl [q [Hq Hl]]. apply R6.
  assert (Hs : sIn (lvar q) s0) by (apply E; auto; lia).
  destruct (Hf q Hq) as [Hq0 [eq [Heq Eeq]]].
  assert (Hlvl : level_of tr (lvar q) = te_level eq) by (apply level_of_false; auto).
  assert (P : pendb dl s0 eq = true).
  { unfold pendb. apply andb_true_iff. split.
    - unfold te_var. rewrite Eeq, lvar_opp. exact Hs.
    - apply Nat.leb_le. lia. }
  pose proof (cnt_pos _ _ _ _ Heq P). lia.
Qed.

(* totality of phase 1 *)
Definition decisions_open_levels (t : trail) : Prop :=
  forall pre e post, t = pre ++ e :: post -> te_reason e = None ->
  forall e', In e' post -> (te_level e' < te_level e)%nat.

Lemma walk_total : forall rest pre seen out pc mat,
  (forall e, In e tr -> (te_level e <= dl)%nat) -> decisions_open_levels tr ->
  tr = pre ++ rest -> InvS rest seen out -> pc = Z.of_nat (cnt dl seen rest) -> 1 <= pc ->
  walk tr dl rest seen out pc mat <> None.
Proof.
  induction rest as [|e rest IH]; intros pre seen out pc mat Hmax Hdec Htr HI Hpc H1.
  { unfold cnt in Hpc. simpl in Hpc. lia. }
  assert (Hwfr : trail_wf (e :: rest)) by (apply (wf_suffix pre); now rewrite <- Htr).
  assert (Htr' : tr = (pre ++ [e]) ++ rest) by (rewrite <- app_assoc; exact Htr).
  assert (Hsub : incl (e :: rest) tr) by (rewrite Htr; apply incl_appr, incl_refl).
  inversion Hwfr as [|e0 tr0 Hwf0 Hnz Hna Hmono Hdec0 Hreas]; subst e0 tr0.
  simpl. rewrite cnt_cons in Hpc.
  destruct (PS.mem (te_var e) seen) eqn:Eseen.
  2:{ assert (Pe : pendb dl seen e = false) by (unfold pendb; now rewrite Eseen).
      rewrite Pe in Hpc. simpl in Hpc.
      apply (IH (pre ++ [e])); auto.
      constructor.
      + intros v Hv. destruct (is_cover _ _ _ HI v Hv) as [e' [[<-|He'] E]].
        * subst v. unfold sIn in Hv. congruence.
        * exists e'; auto.
      + intros e' He'. apply (is_low _ _ _ HI). now right.
      + apply HI. }
  assert (Hpend : (1 <= cnt dl seen rest)%nat -> exists e', In e' rest /\ (dl <= te_level e')%nat).
  { intros H. destruct (cnt_pos_inv _ _ _ H) as [e' [He' Pe']]. unfold pendb in Pe'.
    apply andb_true_iff in Pe'. destruct Pe' as [_ L]. apply Nat.leb_le in L. exists e'; auto. }
  destruct (te_reason e) as [r|] eqn:Er.
  2:{ destruct (pc =? 1) eqn:E1; [discriminate|]. apply Z.eqb_neq in E1. exfalso.
      destruct Hpend as [e' [He' L]]. { destruct (pendb dl seen e); simpl in Hpc; lia. }
      pose proof (Hdec pre e rest Htr Er e' He').
      assert (te_level e <= dl)%nat by (apply Hmax, Hsub; now left). lia. }
  destruct (0 <? pc - 1) eqn:Egt; [|discriminate].
  apply Z.ltb_lt in Egt.
  destruct (Hreas r eq_refl) as [rr [-> Hfr]]. simpl.
  destruct (absorb tr dl rr (PS.remove (te_var e) seen) out (pc - 1)) as [[s o] pc1] eqn:Eab.
  assert (Hhi : (dl <= te_level e)%nat).
  { destruct Hpend as [e' [He' L]]. { destruct (pendb dl seen e); simpl in Hpc; lia. }
    specialize (Hmono e' He'). lia. }
  assert (Pe : pendb dl seen e = true) by (unfold pendb; apply andb_true_iff; split; auto; now apply Nat.leb_le).
  rewrite Pe in Hpc.
  assert (HI1 : InvS rest (PS.remove (te_var e) seen) out).
  { constructor.
    - intros v Hv. apply sIn_remove in Hv. destruct Hv as [Hv N].
      destruct (is_cover _ _ _ HI v Hv) as [e' [[<-|He'] E]]; [congruence|]. exists e'; auto.
    - intros e' He' Hs Hl. apply sIn_remove in Hs. destruct Hs as [Hs _]. apply (is_low _ _ _ HI); auto. now right.
    - apply HI. }
  assert (Hpc1 : pc - 1 = Z.of_nat (cnt dl (PS.remove (te_var e) seen) rest)).
  { rewrite cnt_remove_absent; auto. lia. }
  destruct (absorb_spec (pre ++ [e]) rest Htr' rr _ _ _ _ _ _ Hfr HI1 Hpc1 Eab) as [A [B [C _]]].
  apply (IH (pre ++ [e])); auto. lia.
Qed.

Lemma phase1_total :
  falsified c tr -> (forall e, In e tr -> (te_level e <= dl)%nat) -> decisions_open_levels tr ->
  (0 < dl)%nat -> (exists q, In q c /\ (dl <= level_of tr (lvar q))%nat) ->
  phase1 tr dl c <> None.
Proof.
  intros Hf Hmax Hdec Hdl [q [Hq Hl]]. unfold phase1.
  destruct (absorb tr dl c PS.empty [] 0) as [[s0 o0] pc0] eqn:Eab.
  assert (HI0 : InvS tr PS.empty []).
  { constructor.
    - intros v Hv. exfalso. eapply sIn_empty; exact Hv.
    - intros e _ Hs. exfalso. eapply sIn_empty; exact Hs.
    - intros x []. }
  assert (Hpc0 : 0 = Z.of_nat (cnt dl PS.empty tr)) by (rewrite cnt_empty; reflexivity).
  destruct (absorb_spec [] tr eq_refl c _ _ _ _ _ _ Hf HI0 Hpc0 Eab) as [A [B [C [D [E F]]]]].
  apply (walk_total tr []); auto.
  assert (Hs : sIn (lvar q) s0) by (apply E; auto; lia).
  destruct (Hf q Hq) as [Hq0 [eq [Heq Eeq]]].
  assert (Hlvl : level_of tr (lvar q) = te_level eq) by (apply level_of_false; auto).
  assert (P : pendb dl s0 eq = true).
  { unfold pendb. apply andb_true_iff. split.
    - unfold te_var. rewrite Eeq, lvar_opp. exact Hs.
    - apply Nat.leb_le. lia. }
  pose proof (cnt_pos _ _ _ _ Heq P). lia.
Qed.

End Phase1.

(* ------------------------------------------------------------------------------------------ *)
(* phase 3                                                                                     *)

Lemma max_idx_spec : forall tr l pre best bl,
  (best < length pre)%nat -> level_of tr (lvar (nth best (pre ++ l) 0)) = bl ->
  (forall x, In x pre -> (level_of tr (lvar x) <= bl)%nat) ->
  (max_idx tr l (length pre) best bl < length (pre ++ l))%nat /\
  forall x, In x (pre ++ l) ->
    (level_of tr (lvar x) <= level_of tr (lvar (nth (max_idx tr l (length pre) best bl) (pre ++ l) 0%Z)))%nat.
Proof.
  intros tr. induction l as [|q l IH]; intros pre best bl Hb Hn Hall; simpl.
  - rewrite app_nil_r in *. split; auto. intros x Hx. rewrite Hn. auto.
  - assert (Eapp : pre ++ q :: l = (pre ++ [q]) ++ l) by (now rewrite <- app_assoc).
    assert (Elen : S (length pre) = length (pre ++ [q])) by (rewrite app_length; simpl; lia).
    rewrite Eapp, Elen.
    destruct (bl <? level_of tr (lvar q))%nat eqn:E.
    + apply Nat.ltb_lt in E. apply IH.
      * rewrite <- Elen. lia.
      * rewrite <- Eapp. now rewrite nth_middle.
      * intros x Hx. apply in_app_or in Hx. destruct Hx as [Hx|[<-|[]]]; auto. specialize (Hall x Hx). lia.
    + apply Nat.ltb_ge in E. apply IH.
      * rewrite <- Elen. lia.
      * rewrite <- Eapp. exact Hn.
      * intros x Hx. apply in_app_or in Hx. destruct Hx as [Hx|[<-|[]]]; auto.
Qed.

Lemma swap_in_spec : forall l x k p l', swap_in x l k = (p, l') ->
  (forall z, In z (p :: l') <-> In z (x :: l)) /\ ((k < length l)%nat -> p = nth k l 0).
Proof.
  induction l as [|y l IH]; intros x k p l' H; simpl in H.
  - inversion H; subst. split; [tauto | simpl; lia].
  - destruct k as [|k].
    + inversion H; subst. split; [simpl; tauto | reflexivity].
    + destruct (swap_in x l k) as [p1 l1] eqn:E. inversion H; subst.
      destruct (IH _ _ _ _ E) as [A B]. split.
      * intros z. specialize (A z). simpl in *. tauto.
      * intros Hk. simpl in Hk. simpl. apply B. lia.
Qed.

Lemma backjump_spec : forall tr l0 kept learnt bt, backjump tr l0 kept = (learnt, bt) ->
  exists rest, learnt = l0 :: rest /\
    (forall z, In z rest <-> In z kept) /\
    (kept = [] -> rest = [] /\ bt = O) /\
    (forall q, In q rest -> (level_of tr (lvar q) <= bt)%nat) /\
    (kept <> [] -> exists q, In q rest /\ level_of tr (lvar q) = bt).
Proof.
  intros tr l0 kept learnt bt H. unfold backjump in H. destruct kept as [|q1 r].
  - inversion H; subst. exists []. repeat split; auto; try tauto. intros q [].
  - destruct (max_idx_spec tr r [q1] 0 (level_of tr (lvar q1))) as [Hk Hmax]; auto.
    { intros x [<-|[]]. lia. }
    simpl length in *. simpl app in *.
    destruct (max_idx tr r 1 0 (level_of tr (lvar q1))) as [|k] eqn:Ek.
    + inversion H; subst. exists (q1 :: r). repeat split; auto; try tauto; try discriminate.
      intros _. exists q1; split; auto. now left.
    + destruct (swap_in q1 r k) as [p r'] eqn:Es. inversion H; subst.
      destruct (swap_in_spec _ _ _ _ _ Es) as [A B].
      assert (Hp : p = nth (S k) (q1 :: r) 0) by (simpl; apply B; simpl in Hk; lia).
      exists (p :: r'). repeat split; try apply A; try discriminate.
      * intros q Hq. rewrite Hp. apply Hmax. now apply A.
      * intros _. exists p; split; auto. now left.
Qed.

(* ------------------------------------------------------------------------------------------ *)
(* the theorems for the variant without minimisation                                           *)

Definition asserting (tr : trail) (dl : nat) (learnt : clause) (bt : nat) : Prop :=
  exists l rest, learnt = l :: rest /\
    level_of tr (lvar l) = dl /\
    (forall q, In q rest -> (0 < level_of tr (lvar q) < dl)%nat /\ (level_of tr (lvar q) <= bt)%nat) /\
    (rest = [] -> bt = O) /\
    (rest <> [] -> exists q, In q rest /\ level_of tr (lvar q) = bt) /\
    falsified learnt tr.

Lemma finish_implied : forall tr c p kept learnt bt,
  (forall a, models a (reasons tr ++ [c]) -> clause_true a (- p :: kept) = true) ->
  backjump tr (- p) kept = (learnt, bt) -> entails (reasons tr ++ [c]) learnt.
Proof.
  intros tr c p kept learnt bt H Hb a Ha.
  destruct (backjump_spec _ _ _ _ _ Hb) as [rest [-> [A _]]].
  eapply clause_true_incl; [|apply (H a Ha)].
  intros z [<-|Hz]; [now left | right; now apply A].
Qed.

Lemma finish_asserting : forall tr dl p tail kept learnt bt,
  trail_wf tr -> (forall e, In e tr -> (te_level e <= dl)%nat) ->
  (forall q, In q tail -> false_in q tr /\ (0 < level_of tr (lvar q) < dl)%nat) ->
  (exists e, In e tr /\ te_lit e = p /\ (dl <= te_level e)%nat) ->
  incl kept tail ->
  backjump tr (- p) kept = (learnt, bt) -> asserting tr dl learnt bt.
Proof.
  intros tr dl p tail kept learnt bt Hwf Hmax Htail [e [He [Ep Hl]]] Hincl Hb.
  destruct (backjump_spec _ _ _ _ _ Hb) as [rest [-> [A [B [C D]]]]].
  assert (Hnz : te_lit e <> 0).
  { destruct (in_split _ _ He) as [pre [post E]]. subst tr. apply wf_suffix in Hwf. now inversion Hwf. }
  exists (- p), rest. repeat split; auto.
  - rewrite lvar_opp, <- Ep. change (lvar (te_lit e)) with (te_var e). rewrite level_of_in; auto.
    specialize (Hmax e He). lia.
  - apply Htail, Hincl, A; auto.
  - apply Htail, Hincl, A; auto.
  - intros E. subst rest. apply B. destruct kept as [|x k]; auto. exfalso. apply (A x). now left.
  - intros N. apply D. intros E. subst kept. destruct rest as [|x r]; [now apply N|]. apply (A x). now left.
  - destruct H as [<-|Hq].
    + subst p. lia.
    + apply Htail, Hincl, A; auto.
  - destruct H as [<-|Hq].
    + exists e; split; auto. rewrite Ep. lia.
    + apply Htail, Hincl, A; auto.
Qed.

Theorem analyze_nomin_implied : forall tr dl c learnt bt,
  trail_wf tr -> falsified c tr -> analyze_nomin tr dl c = Some (learnt, bt) ->
  entails (reasons tr ++ [c]) learnt.
Proof.
  intros tr dl c learnt bt Hwf Hf H. unfold analyze_nomin in H.
  destruct (phase1 tr dl c) as [[[[p s1] tail] mat]|] eqn:E1; [|discriminate]. inversion H as [Hb].
  destruct (phase1_spec tr dl c Hwf p s1 tail mat Hf E1) as [R1 _].
  eapply (finish_implied tr c p tail); eauto.
Qed.

Theorem analyze_nomin_asserting : forall tr dl c learnt bt,
  trail_wf tr -> falsified c tr -> (forall e, In e tr -> (te_level e <= dl)%nat) ->
  (0 < dl)%nat -> (exists q, In q c /\ (dl <= level_of tr (lvar q))%nat) ->
  analyze_nomin tr dl c = Some (learnt, bt) -> asserting tr dl learnt bt.
Proof.
  intros tr dl c learnt bt Hwf Hf Hmax Hdl Hex H. unfold analyze_nomin in H.
  destruct (phase1 tr dl c) as [[[[p s1] tail] mat]|] eqn:E1; [|discriminate]. inversion H as [Hb].
  destruct (phase1_spec tr dl c Hwf p s1 tail mat Hf E1) as [R1 [R2 [R3 [e [R4 [R5 R6]]]]]].
  apply (finish_asserting tr dl p tail tail); auto.
  - exists e; auto.
  - apply incl_refl.
Qed.

(* ------------------------------------------------------------------------------------------ *)
(* phase 2                                                                                     *)

Section Phase2.
Variables (tr : trail) (abs : N) (mat : PS.t).

(* the reason of v has been examined: all its other literals are marked or of level 0 *)
Definition closedvar (S : PS.t) (v : positive) : Prop :=
  exists e r, find_var tr v = Some e /\ te_reason e = Some r /\
    forall q, In q (tl r) -> level_of tr (lvar q) = O \/ sIn (lvar q) S.

Lemma closedvar_mono : forall S S' v, (forall x, sIn x S -> sIn x S') -> closedvar S v -> closedvar S' v.
Proof.
  intros S S' v Hs [e [r [A [B C]]]]. exists e, r. repeat split; auto.
  intros q Hq. destruct (C q Hq); auto.
Qed.

Lemma lr_undo_spec : forall clr s v, sIn v (lr_undo clr s) <-> sIn v s /\ ~ In v (map lvar clr).
Proof.
  induction clr as [|q clr IH]; intros s v; simpl.
  - tauto.
  - unfold lr_undo in *. simpl. rewrite IH. rewrite sIn_remove. intuition.
Qed.

(* S = S0 + the marks of the current call, which are recorded in clr *)
Definition Rel (S0 S : PS.t) (clr : list Z) : Prop :=
  (forall v, sIn v S <-> sIn v S0 \/ In v (map lvar clr)) /\
  (forall v, In v (map lvar clr) -> ~ sIn v S0).

Lemma undo_Rel : forall S0 S clr, Rel S0 S clr -> forall v, sIn v (lr_undo clr S) <-> sIn v S0.
Proof.
  intros S0 S clr [R1 R2] v. rewrite lr_undo_spec, R1. split.
  - intros [[H|H] N]; tauto.
  - intros H. split; auto. intros N. apply (R2 v); auto.
Qed.

Lemma lr_scan_spec : forall S0 qs S stack clr, Rel S0 S clr ->
  match lr_scan tr abs qs S stack clr with
  | inl (S', stack', clr') =>
      Rel S0 S' clr' /\ (forall v, sIn v S -> sIn v S') /\
      (forall q, In q qs -> level_of tr (lvar q) = O \/ sIn (lvar q) S') /\
      (forall v, sIn v S' -> sIn v S \/ In v (map lvar stack')) /\
      (forall v, In v (map lvar stack) -> In v (map lvar stack'))
  | inr S'' => forall v, sIn v S'' <-> sIn v S0
  end.
Proof.
  intros S0. induction qs as [|q qs IH]; intros S stack clr HR; cbn [lr_scan].
  - repeat split; try apply HR; auto. intros q [].
  - destruct (negb (PS.mem (lvar q) S) && (0 <? level_of tr (lvar q))%nat) eqn:E1.
    + apply andb_true_iff in E1. destruct E1 as [E1 E2]. apply negb_true_iff in E1. apply not_sIn in E1.
      destruct ((match reason_of tr (lvar q) with Some _ => true | None => false end)
                && negb (N.land (abstractLevel tr (lvar q)) abs =? 0)%N) eqn:E3.
      * assert (HR1 : Rel S0 (PS.add (lvar q) S) (q :: clr)).
        { destruct HR as [R1 R2]. split.
          - intros v. rewrite sIn_add, R1. simpl. intuition.
          - intros v [<-|Hv]; auto. intros H. apply E1. apply R1. now left. }
        specialize (IH (PS.add (lvar q) S) (q :: stack) (q :: clr) HR1).
        destruct (lr_scan tr abs qs (PS.add (lvar q) S) (q :: stack) (q :: clr)) as [[[S' st'] cl']|S'']; cbv beta iota in IH |- *; auto.
        destruct IH as [A [B [C [D E]]]]. split; [|split; [|split; [|split]]]; auto.
        -- intros v Hv. apply B. apply sIn_add. now right.
        -- intros x [<-|Hx]; auto. right. apply B. apply sIn_add. now left.
        -- intros v Hv. destruct (D v Hv) as [H|H]; auto. apply sIn_add in H. destruct H as [->|H]; auto.
           right. apply E. now left.
        -- intros v Hv. apply E. now right.
      * apply undo_Rel; auto.
    + specialize (IH S stack clr HR).
      destruct (lr_scan tr abs qs S stack clr) as [[[S' st'] cl']|S'']; cbv beta iota in IH |- *; auto.
      destruct IH as [A [B [C [D E]]]]. split; [|split; [|split; [|split]]]; auto.
      intros x [<-|Hx]; auto.
      apply andb_false_iff in E1. destruct E1 as [E1|E1].
      * right. apply B. apply negb_false_iff in E1. exact E1.
      * left. apply Nat.ltb_ge in E1. lia.
Qed.

Section Base.
Variable B : positive -> Prop.

Lemma lr_loop_spec : forall S0 fuel S stack clr b S',
  Rel S0 S clr ->
  (forall v, sIn v S -> B v \/ closedvar S v \/ In v (map lvar stack)) ->
  lr_loop fuel tr abs mat S stack clr = Some (b, S') ->
  (b = false -> forall v, sIn v S' <-> sIn v S0) /\
  (b = true -> (forall v, sIn v S -> sIn v S') /\
               (forall v, sIn v S' -> B v \/ closedvar S' v) /\
               (forall v, In v (map lvar stack) -> closedvar S' v)).
Proof.
  intros S0. induction fuel as [|fuel IH]; intros S stack clr b S' HR HJ H.
  - destruct stack; [|discriminate]. simpl in H. inversion H; subst. split; [discriminate|]. intros _.
    repeat split; auto.
    + intros v Hv. destruct (HJ v Hv) as [?|[?|[]]]; auto.
    + intros v [].
  - destruct stack as [|p stack].
    { simpl in H. inversion H; subst. split; [discriminate|]. intros _. repeat split; auto.
      - intros v Hv. destruct (HJ v Hv) as [?|[?|[]]]; auto.
      - intros v []. }
    simpl in H.
    destruct (find_var tr (lvar p)) as [e|] eqn:Ef; [|discriminate].
    destruct (te_reason e) as [r|] eqn:Er; [|discriminate].
    destruct (te_theory e && negb (PS.mem (te_var e) mat)).
    { inversion H; subst. split; [|discriminate]. intros _. apply undo_Rel; auto. }
    pose proof (lr_scan_spec S0 (tl r) S stack clr HR) as Hscan.
    destruct (lr_scan tr abs (tl r) S stack clr) as [[[S1 st1] cl1]|S'']; cbv beta iota in Hscan.
    2:{ inversion H; subst. split; [|discriminate]. intros _. exact Hscan. }
    destruct Hscan as [A [Bm [C [D E]]]].
    assert (Hclp : closedvar S1 (lvar p)) by (exists e, r; auto).
    assert (HJ1 : forall v, sIn v S1 -> B v \/ closedvar S1 v \/ In v (map lvar st1)).
    { intros v Hv. destruct (D v Hv) as [Hs|Hs]; auto.
      destruct (HJ v Hs) as [H1|[H1|[<-|H1]]]; auto.
      right; left. eapply closedvar_mono; eauto. }
    destruct (IH S1 st1 cl1 b S' A HJ1 H) as [F T]. split; auto.
    intros ->. destruct (T eq_refl) as [T1 [T2 T3]]. repeat split; auto.
    intros v [<-|Hv]; auto. eapply closedvar_mono; eauto.
Qed.

Lemma litRedundant_spec : forall q S b S',
  (forall v, sIn v S -> B v \/ closedvar S v) ->
  litRedundant tr abs mat q S = Some (b, S') ->
  (b = false -> forall v, sIn v S' <-> sIn v S) /\
  (b = true -> (forall v, sIn v S -> sIn v S') /\
               (forall v, sIn v S' -> B v \/ closedvar S' v) /\
               closedvar S' (lvar q)).
Proof.
  intros q S b S' HI H. unfold litRedundant in H.
  assert (HR : Rel S S []) by (split; simpl; [tauto | intros v []]).
  assert (HJ : forall v, sIn v S -> B v \/ closedvar S v \/ In v (map lvar [q])).
  { intros v Hv. destruct (HI v Hv); auto. }
  destruct (lr_loop_spec S _ S [q] [] b S' HR HJ H) as [F T]. split; auto.
  intros ->. destruct (T eq_refl) as [T1 [T2 T3]]. repeat split; auto. apply T3. now left.
Qed.

End Base.

Lemma minimize_spec : forall qs (B : positive -> Prop) S K S',
  (forall v, sIn v S -> (B v \/ In v (map lvar qs)) \/ closedvar S v) ->
  minimize tr abs mat qs S = Some (K, S') ->
  (forall v, sIn v S' -> (B v \/ In v (map lvar K)) \/ closedvar S' v) /\
  incl K qs /\
  (forall q, In q qs -> In q K \/ closedvar S' (lvar q)) /\
  (forall v, sIn v S -> sIn v S').
Proof.
  induction qs as [|q qs IH]; intros B S K S' HI H; simpl in H.
  - inversion H; subst. split; [|split; [|split]]; auto; try apply incl_refl; try (intros q []).
  - assert (Keep : forall S1 K1, (forall v, sIn v S1 <-> sIn v S) ->
               minimize tr abs mat qs S1 = Some (K1, S') -> K = q :: K1 ->
      (forall v, sIn v S' -> (B v \/ In v (map lvar K)) \/ closedvar S' v) /\
      incl K (q :: qs) /\
      (forall x, In x (q :: qs) -> In x K \/ closedvar S' (lvar x)) /\
      (forall v, sIn v S -> sIn v S')).
    { intros S1 K1 Heq Hm ->.
      destruct (IH (fun v => B v \/ v = lvar q) S1 K1 S') as [A [Bi [C D]]]; auto.
      - intros v Hv. apply Heq in Hv. destruct (HI v Hv) as [[H1|[H1|H1]]|H1]; auto.
        right. eapply closedvar_mono; [|exact H1]. intros x Hx. now apply Heq.
      - split; [|split; [|split]].
        + intros v Hv. destruct (A v Hv) as [[[H1|H1]|H1]|H1]; auto.
          * left; right. left. auto.
          * left; right. now right.
        + intros x [<-|Hx]; [now left | right; auto].
        + intros x [<-|Hx]; [left; now left|]. destruct (C x Hx); auto. left; now right.
        + intros v Hv. apply D. now apply Heq. }
    destruct (reason_of tr (lvar q)) as [r|] eqn:Er.
    2:{ destruct (minimize tr abs mat qs S) as [[K1 S2]|] eqn:Em; [|discriminate]. inversion H; subst.
        apply (Keep S K1); auto. tauto. }
    destruct (litRedundant tr abs mat q S) as [[[|] S1]|] eqn:El; [| |discriminate].
    + (* redundant: dropped *)
      destruct (litRedundant_spec (fun v => B v \/ In v (map lvar (q :: qs))) q S true S1 HI El) as [_ T].
      destruct (T eq_refl) as [T1 [T2 T3]].
      destruct (IH B S1 K S') as [A [Bi [C D]]]; auto.
      * intros v Hv. destruct (T2 v Hv) as [[H1|[<-|H1]]|H1]; auto.
      * split; [|split; [|split]]; auto.
        -- intros x Hx. right. auto.
        -- intros x [<-|Hx]; auto. right. eapply closedvar_mono; eauto.
    + destruct (litRedundant_spec (fun v => B v \/ In v (map lvar (q :: qs))) q S false S1 HI El) as [F _].
      destruct (minimize tr abs mat qs S1) as [[K1 S2]|] eqn:Em; [|discriminate]. inversion H; subst.
      apply (Keep S1 K1); auto.
Qed.

End Phase2.

(* ------------------------------------------------------------------------------------------ *)
(* why the dropped literals are redundant (hint (c): closure argument along the trail)         *)

Lemma reason_forces : forall tr a S e rr older,
  trail_wf tr -> incl older tr -> In e tr -> te_reason e = Some (te_lit e :: rr) ->
  falsified rr older -> models a (reasons tr) ->
  (forall q, In q rr -> level_of tr (lvar q) = O \/ sIn (lvar q) S) ->
  (forall e', In e' older -> sIn (te_var e') S -> lit_true a (te_lit e') = true) ->
  lit_true a (te_lit e) = true.
Proof.
  intros tr a S e rr older Hwf Hincl He Er Hf Ha Hcl Hold.
  assert (T : clause_true a (te_lit e :: rr) = true) by (apply Ha; eapply reasons_in; eauto).
  simpl in T. apply orb_true_iff in T. destruct T as [T|T]; auto. exfalso.
  apply clause_true_iff in T. destruct T as [q [Hq Tq]].
  destruct (Hf q Hq) as [Hq0 [e' [He' E']]].
  assert (T' : lit_true a (te_lit e') = true).
  { destruct (Hcl q Hq) as [L0|Hs].
    - rewrite (level_of_false tr e' q Hwf (Hincl _ He') E') in L0.
      pose proof (level0_entailed tr Hwf e' (Hincl _ He') L0 a Ha) as T'. simpl in T'.
      now rewrite orb_false_r in T'.
    - apply Hold; auto. unfold te_var. now rewrite E', lvar_opp. }
  rewrite E' in T'. apply lit_true_opp_false in T'. congruence.
Qed.

Lemma closure_true : forall tr a S K,
  trail_wf tr -> models a (reasons tr) -> falsified K tr ->
  (forall q, In q K -> lit_true a q = false) ->
  (forall v, sIn v S -> In v (map lvar K) \/ closedvar tr S v) ->
  forall rest pre, tr = pre ++ rest ->
  forall e, In e rest -> sIn (te_var e) S -> lit_true a (te_lit e) = true.
Proof.
  intros tr a S K Hwf Ha HfK HK HI. induction rest as [|e0 rest IH]; intros pre Htr e He Hs; [destruct He|].
  assert (Htr' : tr = (pre ++ [e0]) ++ rest) by (rewrite <- app_assoc; exact Htr).
  destruct He as [<-|He]; [|apply (IH (pre ++ [e0])); auto].
  assert (Hwfr : trail_wf (e0 :: rest)) by (apply (wf_suffix pre); now rewrite <- Htr).
  assert (Hsub : incl (e0 :: rest) tr) by (rewrite Htr; apply incl_appr, incl_refl).
  assert (He0 : In e0 tr) by (apply Hsub; now left).
  inversion Hwfr as [|e1 tr1 Hwf1 Hnz Hna Hmono Hdec Hreas]; subst e1 tr1.
  destruct (HI _ Hs) as [Hb|[e' [r [F [R C]]]]].
  - apply in_map_iff in Hb. destruct Hb as [q [Eq Hq]].
    destruct (HfK q Hq) as [Hq0 [eq [Heq Eeq]]].
    assert (eq = e0).
    { apply (entry_unique tr); auto. unfold te_var at 1. now rewrite Eeq, lvar_opp. }
    subst eq. rewrite Eeq. apply lit_true_opp_true; auto.
  - rewrite (find_var_in tr e0 Hwf He0) in F. inversion F; subst e'.
    destruct (Hreas r R) as [rr [-> Hfr]]. simpl in C.
    apply (reason_forces tr a S e0 rr rest); auto.
    + intros x Hx. apply Hsub. now right.
    + intros e' He' Hs'. apply (IH (pre ++ [e0])); auto.
Qed.

Lemma minimize_sound : forall tr abs mat c p tail S K S',
  trail_wf tr ->
  (forall a, models a (reasons tr ++ [c]) -> clause_true a (- p :: tail) = true) ->
  falsified tail tr ->
  (forall v, sIn v S -> exists q, In q tail /\ lvar q = v) ->
  minimize tr abs mat tail S = Some (K, S') ->
  incl K tail /\ forall a, models a (reasons tr ++ [c]) -> clause_true a (- p :: K) = true.
Proof.
  intros tr abs mat c p tail S K S' Hwf P1 P2 P3 Hm.
  destruct (minimize_spec tr abs mat tail (fun _ => False) S K S') as [A [Bi [C D]]]; auto.
  { intros v Hv. destruct (P3 v Hv) as [q [Hq <-]]. left; right. now apply in_map. }
  split; auto. intros a Ha.
  destruct (clause_true a (- p :: K)) eqn:E; auto. exfalso.
  pose proof (proj1 (clause_false_iff a _) E) as Hfalse.
  assert (Har : models a (reasons tr)) by (apply models_app in Ha; tauto).
  assert (HfK : falsified K tr) by (intros q Hq; apply P2; auto).
  assert (HK : forall q, In q K -> lit_true a q = false) by (intros q Hq; apply Hfalse; now right).
  assert (HI : forall v, sIn v S' -> In v (map lvar K) \/ closedvar tr S' v).
  { intros v Hv. destruct (A v Hv) as [[[]|H]|H]; auto. }
  pose proof (closure_true tr a S' K Hwf Har HfK HK HI tr [] eq_refl) as Hcl.
  specialize (P1 a Ha). apply clause_true_iff in P1. destruct P1 as [l [[<-|Hl] Tl]].
  - rewrite (Hfalse (- p)) in Tl; [discriminate | now left].
  - destruct (C l Hl) as [HlK|[e [r [F [R Cl]]]]].
    + rewrite (HK l HlK) in Tl. discriminate.
    + destruct (find_var_some _ _ _ F) as [He Ev].
      destruct (P2 l Hl) as [Hl0 [el [Hel Eel]]].
      assert (el = e).
      { apply (entry_unique tr); auto. rewrite Ev. unfold te_var. now rewrite Eel, lvar_opp. }
      subst el.
      destruct (in_split _ _ He) as [pre [older Etr]].
      assert (Hwfr : trail_wf (e :: older)) by (apply (wf_suffix pre); now rewrite <- Etr).
      inversion Hwfr as [|e1 tr1 Hwf1 Hnz Hna Hmono Hdec Hreas]; subst e1 tr1.
      destruct (Hreas r R) as [rr [-> Hfr]]. simpl in Cl.
      assert (Hsub : incl older tr).
      { rewrite Etr. intros x Hx. apply in_or_app. right. now right. }
      assert (T : lit_true a (te_lit e) = true).
      { apply (reason_forces tr a S' e rr older); auto. }
      rewrite Eel in T. apply lit_true_opp_false in T. congruence.
Qed.

(* ------------------------------------------------------------------------------------------ *)
(* the theorems                                                                                *)

Theorem analyze_implied : forall tr dl c learnt bt,
  trail_wf tr -> falsified c tr -> analyze tr dl c = Some (learnt, bt) ->
  entails (reasons tr ++ [c]) learnt.
Proof.
  intros tr dl c learnt bt Hwf Hf H. unfold analyze in H.
  destruct (phase1 tr dl c) as [[[[p s1] tail] mat]|] eqn:E1; [|discriminate].
  destruct (minimize tr (abstract_levels tr tail) mat tail s1) as [[K S']|] eqn:E2; [|discriminate].
  inversion H as [Hb].
  destruct (phase1_spec tr dl c Hwf p s1 tail mat Hf E1) as [R1 [R2 [R3 _]]].
  assert (P2 : falsified tail tr) by (intros q Hq; apply R2; auto).
  destruct (minimize_sound tr _ mat c p tail s1 K S' Hwf R1 P2 R3 E2) as [_ Hs].
  eapply (finish_implied tr c p K); eauto.
Qed.

Theorem analyze_asserting : forall tr dl c learnt bt,
  trail_wf tr -> falsified c tr -> (forall e, In e tr -> (te_level e <= dl)%nat) ->
  (0 < dl)%nat -> (exists q, In q c /\ (dl <= level_of tr (lvar q))%nat) ->
  analyze tr dl c = Some (learnt, bt) -> asserting tr dl learnt bt.
Proof.
  intros tr dl c learnt bt Hwf Hf Hmax Hdl Hex H. unfold analyze in H.
  destruct (phase1 tr dl c) as [[[[p s1] tail] mat]|] eqn:E1; [|discriminate].
  destruct (minimize tr (abstract_levels tr tail) mat tail s1) as [[K S']|] eqn:E2; [|discriminate].
  inversion H as [Hb].
  destruct (phase1_spec tr dl c Hwf p s1 tail mat Hf E1) as [R1 [R2 [R3 [e [R4 [R5 R6]]]]]].
  assert (P2 : falsified tail tr) by (intros q Hq; apply R2; auto).
  destruct (minimize_sound tr _ mat c p tail s1 K S' Hwf R1 P2 R3 E2) as [Hi _].
  apply (finish_asserting tr dl p tail K); auto.
  exists e; auto.
Qed.

(* ------------------------------------------------------------------------------------------ *)
(* totality: the fuel of litRedundant always suffices                                          *)

Lemma filter_length_le : forall (A : Type) (f g : A -> bool) l,
  (forall x, f x = true -> g x = true) -> (length (filter f l) <= length (filter g l))%nat.
Proof.
  intros A f g l H. induction l as [|x l IH]; simpl; auto.
  destruct (f x) eqn:Ef.
  - rewrite (H x Ef). simpl. lia.
  - destruct (g x); simpl; lia.
Qed.

Lemma filter_length_lt : forall (A : Type) (f g : A -> bool) l e,
  (forall x, f x = true -> g x = true) -> In e l -> g e = true -> f e = false ->
  (length (filter f l) < length (filter g l))%nat.
Proof.
  intros A f g l e H. induction l as [|x l IH]; simpl; intros Hin Hg Hf; [destruct Hin|].
  destruct Hin as [->|Hin].
  - rewrite Hf, Hg. simpl. pose proof (filter_length_le A f g l H). lia.
  - specialize (IH Hin Hg Hf). destruct (f x) eqn:Ef.
    + rewrite (H x Ef). simpl. lia.
    + destruct (g x); simpl; lia.
Qed.

Section Fuel.
Variables (tr : trail) (abs : N) (mat : PS.t).

(* number of trail entries whose variable is not marked *)
Definition uns (S : PS.t) : nat := length (filter (fun e => negb (PS.mem (te_var e) S)) tr).

Lemma uns_add : forall S v, reason_of tr v <> None -> ~ sIn v S -> (uns (PS.add v S) < uns S)%nat.
Proof.
  intros S v Hr Hns. unfold reason_of in Hr. destruct (find_var tr v) as [e|] eqn:F; [|congruence].
  destruct (find_var_some _ _ _ F) as [He Ev]. unfold uns.
  apply (filter_length_lt _ _ _ tr e); auto.
  - intros x Hx. apply negb_true_iff in Hx. apply negb_true_iff.
    destruct (PS.mem (te_var x) S) eqn:E; auto.
    assert (sIn (te_var x) (PS.add v S)) by (apply sIn_add; now right). unfold sIn in H. congruence.
  - rewrite Ev. apply negb_true_iff. destruct (PS.mem v S) eqn:E; auto. contradiction.
  - rewrite Ev. apply negb_false_iff. apply sIn_add. now left.
Qed.

Definition stack_ok (stack : list Z) : Prop := forall p, In p stack -> reason_of tr (lvar p) <> None.

Lemma lr_scan_measure : forall qs S stack clr S' stack' clr',
  stack_ok stack -> lr_scan tr abs qs S stack clr = inl (S', stack', clr') ->
  stack_ok stack' /\ (length stack' + uns S' <= length stack + uns S)%nat.
Proof.
  induction qs as [|q qs IH]; intros S stack clr S' stack' clr' Hok H; cbn [lr_scan] in H.
  - inversion H; subst. auto.
  - destruct (negb (PS.mem (lvar q) S) && (0 <? level_of tr (lvar q))%nat) eqn:E1; [|eapply IH; eauto].
    apply andb_true_iff in E1. destruct E1 as [E1 E2]. apply negb_true_iff in E1. apply not_sIn in E1.
    destruct ((match reason_of tr (lvar q) with Some _ => true | None => false end)
              && negb (N.land (abstractLevel tr (lvar q)) abs =? 0)%N) eqn:E3; [|discriminate].
    apply andb_true_iff in E3. destruct E3 as [E3 _].
    assert (Hr : reason_of tr (lvar q) <> None) by (destruct (reason_of tr (lvar q)); congruence).
    assert (Hok1 : stack_ok (q :: stack)) by (intros p [<-|Hp]; auto).
    destruct (IH _ _ _ _ _ _ Hok1 H) as [A B].
    split; auto. pose proof (uns_add S (lvar q) Hr E1). simpl in B. lia.
Qed.

Lemma lr_loop_total : forall fuel S stack clr,
  stack_ok stack -> (length stack + uns S <= fuel)%nat -> lr_loop fuel tr abs mat S stack clr <> None.
Proof.
  induction fuel as [|fuel IH]; intros S stack clr Hok Hm.
  - destruct stack; [simpl; discriminate | simpl in Hm; lia].
  - destruct stack as [|p stack]; [simpl; discriminate|]. simpl.
    pose proof (Hok p (or_introl eq_refl)) as Hp. unfold reason_of in Hp.
    destruct (find_var tr (lvar p)) as [e|]; [|congruence].
    destruct (te_reason e) as [r|]; [|congruence].
    destruct (te_theory e && negb (PS.mem (te_var e) mat)); [discriminate|].
    destruct (lr_scan tr abs (tl r) S stack clr) as [[[S1 st1] cl1]|S''] eqn:Es; [|discriminate].
    destruct (lr_scan_measure _ _ _ _ _ _ _ (fun x Hx => Hok x (or_intror Hx)) Es) as [A B].
    apply IH; auto. simpl in Hm. lia.
Qed.

Lemma litRedundant_total : forall q S, reason_of tr (lvar q) <> None -> litRedundant tr abs mat q S <> None.
Proof.
  intros q S Hr. unfold litRedundant. apply lr_loop_total.
  - intros p [<-|[]]. exact Hr.
  - simpl. unfold uns. pose proof (filter_length_le _ (fun e => negb (PS.mem (te_var e) S)) (fun _ => true) tr (fun _ _ => eq_refl)).
    assert (E : filter (fun _ : tentry => true) tr = tr).
    { clear. induction tr as [|x l IHl]; simpl; congruence. }
    rewrite E in H. lia.
Qed.

Lemma minimize_total : forall qs S, minimize tr abs mat qs S <> None.
Proof.
  induction qs as [|q qs IH]; intros S; simpl; [discriminate|].
  destruct (reason_of tr (lvar q)) as [r|] eqn:Er.
  - pose proof (litRedundant_total q S) as Hl. rewrite Er in Hl. specialize (Hl ltac:(discriminate)).
    destruct (litRedundant tr abs mat q S) as [[[|] S1]|]; [| |congruence].
    + apply IH.
    + specialize (IH S1). destruct (minimize tr abs mat qs S1) as [[k s]|]; [discriminate|congruence].
  - specialize (IH S). destruct (minimize tr abs mat qs S) as [[k s]|]; [discriminate|congruence].
Qed.

End Fuel.

Theorem analyze_total : forall tr dl c,
  trail_wf tr -> falsified c tr -> (forall e, In e tr -> (te_level e <= dl)%nat) ->
  decisions_open_levels tr -> (0 < dl)%nat -> (exists q, In q c /\ (dl <= level_of tr (lvar q))%nat) ->
  analyze tr dl c <> None.
Proof.
  intros tr dl c Hwf Hf Hmax Hdec Hdl Hex. unfold analyze.
  pose proof (phase1_total tr dl c Hwf Hf Hmax Hdec Hdl Hex) as H1.
  destruct (phase1 tr dl c) as [[[[p s1] tail] mat]|]; [|congruence].
  pose proof (minimize_total tr (abstract_levels tr tail) mat tail s1) as H2.
  destruct (minimize tr (abstract_levels tr tail) mat tail s1) as [[K S']|]; [discriminate|congruence].
Qed.

Theorem analyze_nomin_total : forall tr dl c,
  trail_wf tr -> falsified c tr -> (forall e, In e tr -> (te_level e <= dl)%nat) ->
  decisions_open_levels tr -> (0 < dl)%nat -> (exists q, In q c /\ (dl <= level_of tr (lvar q))%nat) ->
  analyze_nomin tr dl c <> None.
Proof.
  intros tr dl c Hwf Hf Hmax Hdec Hdl Hex. unfold analyze_nomin.
  pose proof (phase1_total tr dl c Hwf Hf Hmax Hdec Hdl Hex) as H1.
  destruct (phase1 tr dl c) as [[[[p s1] tail] mat]|]; [discriminate|congruence].
Qed.

(* boolean checker for [decisions_open_levels] *)
Fixpoint decisions_openb (t : trail) : bool :=
  match t with
  | [] => true
  | e :: t' =>
    (match te_reason e with
     | None => forallb (fun e' => (te_level e' <? te_level e)%nat) t'
     | Some _ => true
     end) && decisions_openb t'
  end.

Lemma decisions_openb_sound : forall t, decisions_openb t = true -> decisions_open_levels t.
Proof.
  intros t H pre. revert t H. induction pre as [|x pre IH]; intros t H e post Et Er e' He'.
  - simpl in Et. subst t. simpl in H. rewrite Er in H. apply andb_true_iff in H. destruct H as [H _].
    rewrite forallb_forall in H. apply Nat.ltb_lt. auto.
  - simpl in Et. subst t. simpl in H. apply andb_true_iff in H. destruct H as [_ H].
    apply (IH _ H e post eq_refl Er e' He').
Qed.

(* ------------------------------------------------------------------------------------------ *)
(* examples (non-vacuity)                                                                      *)

(* oldest first:  1@0 (fact) | 2@1 dec, 3@1 <- 2 | 4@2 dec, 5@2 <- 4,1 | 6@3 dec, 7@3 <- 6, 9@3 <- 7,5,
   8@3 <- 7,3,2 ;  conflict (-8 \/ -9 \/ -1).
   first UIP is 7 (not the decision 6); -1 is a level-0 literal and is dropped; the clause before
   minimisation is (-7 -3 -2 -5); -3 is redundant (its reason 3 <- 2 only mentions the marked variable 2);
   -5 is not (its reason mentions the decision 4); -5 (level 2) is swapped to index 1. *)
Definition ex_trail : trail :=
  [ mkT 8 3 (Some [8; -7; -3; -2]) false;
    mkT 9 3 (Some [9; -7; -5]) false;
    mkT 7 3 (Some [7; -6]) false;
    mkT 6 3 None false;
    mkT 5 2 (Some [5; -4; -1]) false;
    mkT 4 2 None false;
    mkT 3 1 (Some [3; -2]) false;
    mkT 2 1 None false;
    mkT 1 0 (Some [1]) false ].
Definition ex_confl : clause := [-8; -9; -1].

Example ex_wf : trail_wf ex_trail.
Proof. apply trail_wfb_sound. vm_compute. reflexivity. Qed.
Example ex_falsified : falsified ex_confl ex_trail.
Proof. apply falsifiedb_sound. vm_compute. reflexivity. Qed.
Example ex_levels : forall e, In e ex_trail -> (te_level e <= 3)%nat.
Proof. intros e H. simpl in H. repeat (destruct H as [<-|H]; [simpl; lia|]). destruct H. Qed.
Example ex_decisions : decisions_open_levels ex_trail.
Proof. apply decisions_openb_sound. vm_compute. reflexivity. Qed.
Example ex_confl_level : exists q, In q ex_confl /\ (3 <= level_of ex_trail (lvar q))%nat.
Proof. exists (-8). split; [now left | vm_compute; lia]. Qed.

Example ex_phase1 : match phase1 ex_trail 3 ex_confl with
                    | Some (p, _, tail, _) => Some (p, tail) | None => None end = Some (7, [-3; -2; -5]).
Proof. vm_compute. reflexivity. Qed.
Example ex_analyze : analyze ex_trail 3 ex_confl = Some ([-7; -5; -2], 2%nat).
Proof. vm_compute. reflexivity. Qed.
Example ex_analyze_nomin : analyze_nomin ex_trail 3 ex_confl = Some ([-7; -5; -2; -3], 2%nat).
Proof. vm_compute. reflexivity. Qed.

(* the theorems apply to the example *)
Example ex_implied : entails (reasons ex_trail ++ [ex_confl]) [-7; -5; -2].
Proof. exact (analyze_implied _ _ _ _ _ ex_wf ex_falsified ex_analyze). Qed.
Example ex_asserting : asserting ex_trail 3 [-7; -5; -2] 2.
Proof. exact (analyze_asserting _ _ _ _ _ ex_wf ex_falsified ex_levels ltac:(lia) ex_confl_level ex_analyze). Qed.
Example ex_total : analyze ex_trail 3 ex_confl <> None.
Proof. exact (analyze_total _ _ _ ex_wf ex_falsified ex_levels ex_decisions ltac:(lia) ex_confl_level). Qed.

(* the same trail with 3 propagated by the theory with a lazy reason (CRef_Fake): litRedundant gives up on
   -3 (sat_minimize_conflicts == 1), nothing is removed *)
Definition ex_trail_th : trail :=
  [ mkT 8 3 (Some [8; -7; -3; -2]) false;
    mkT 9 3 (Some [9; -7; -5]) true;
    mkT 7 3 (Some [7; -6]) false;
    mkT 6 3 None false;
    mkT 5 2 (Some [5; -4; -1]) false;
    mkT 4 2 None false;
    mkT 3 1 (Some [3; -2]) true;
    mkT 2 1 None false;
    mkT 1 0 (Some [1]) false ].
Example ex_th_wf : trail_wf ex_trail_th.
Proof. apply trail_wfb_sound. vm_compute. reflexivity. Qed.
Example ex_th_analyze : analyze ex_trail_th 3 ex_confl = Some ([-7; -5; -2; -3], 2%nat).
Proof. vm_compute. reflexivity. Qed.

(* error values: two "decisions" on one level (violates [decisions_open_levels]; the C++ would fail
   assert(pathC == 1 || confl != CRef_Undef), CoreSMTSolver.cc:720) *)
Definition ex_bad : trail := [ mkT 2 1 None false; mkT 1 1 None false ].
Example ex_bad_wf : trail_wf ex_bad /\ falsified [-1; -2] ex_bad /\ ~ decisions_open_levels ex_bad.
Proof.
  split; [apply trail_wfb_sound; vm_compute; reflexivity|].
  split; [apply falsifiedb_sound; vm_compute; reflexivity|].
  intros H. specialize (H [] (mkT 2 1 None false) [mkT 1 1 None false] eq_refl eq_refl _ (or_introl eq_refl)).
  simpl in H. lia.
Qed.
Example ex_bad_none : analyze ex_bad 1 [-1; -2] = None.
Proof. vm_compute. reflexivity. Qed.
(* a conflict clause without a literal of the current level: nothing is marked, the walk runs off the trail *)
Example ex_low_none : analyze ex_trail 3 [-1] = None.
Proof. vm_compute. reflexivity. Qed.

(* the hypothesis "the conflict clause has a literal of the current level" of [analyze_asserting] is needed:
   without it the C++ (and the model) return a clause that is implied but not asserting *)
Example ex_low_not_asserting : analyze ex_trail 3 [-5; -3] = Some ([-5; -5; -3], 2%nat).
Proof. vm_compute. reflexivity. Qed.

Print Assumptions analyze_nomin_implied.
Print Assumptions analyze_nomin_asserting.
Print Assumptions analyze_total.
Print Assumptions analyze_implied.
Print Assumptions analyze_asserting.
