(* Conflict analysis of the CDCL core (C12): a Gallina model of
     CoreSMTSolver::analyze        /repo/src/smtsolvers/CoreSMTSolver.cc:590-820
     CoreSMTSolver::litRedundant   /repo/src/smtsolvers/CoreSMTSolver.cc:825-914
   over an ABSTRACT trail, for the configuration  ccmin_mode == 2 (SMTConfig.h:581-583, default),
   sat_minimize_conflicts == 1 (SMTConfig.cc:572, default), and the proofs that for EVERY well-formed trail
   and every falsified conflict clause the learnt clause is entailed by the reason clauses and the conflict
   clause ([analyze_implied]) and is asserting with the right backjump level ([analyze_asserting]).

   [analyze_nomin] is the same function without the minimisation phase: this is the behaviour of the C++
   when resolution-proof logging is on (litRedundant returns false at once, CoreSMTSolver.cc:828-829) or
   sat_minimize_conflicts <= 0.

   What is abstracted
   * the trail is a list of entries, HEAD = MOST RECENT assignment (the C++ walks trail[index--] downwards,
     CoreSMTSolver.cc:604,648); vardata[x].level / vardata[x].reason are the fields of the entry of x;
   * a reason is the clause itself ([Some r], r's first literal is the implied literal: the loops skip
     index 0 of a reason, CoreSMTSolver.cc:622 and :890); CRef_Undef is [None];
   * lazily explained theory propagations (CRef_Fake, TheoryIF.cc:191): the entry carries the clause that
     theory_handler.getReason returns (CoreSMTSolver.cc:668) and the flag [te_theory = true].  Phase 1
     materialises the reason of every literal it resolves on (CoreSMTSolver.cc:653-696, vardata[var(p)].reason
     = ctr); litRedundant with sat_minimize_conflicts == 1 gives up on a literal whose reason is still
     CRef_Fake (CoreSMTSolver.cc:876-883).  The model tracks the set [mat] of variables materialised by
     phase 1.  cancelUntilVar (CoreSMTSolver.cc:412-438) only shrinks the trail ABOVE the index the walk has
     reached and does not touch vardata, so it does not influence the analysis;
   * level-0 facts enqueued with CRef_Undef are entries with reason [Some [te_lit]]; analyze never reads
     the reason of a level-0 variable (CoreSMTSolver.cc:628, :894 test the level first);
   * activity bumping, glue, statistics, proof logging, clause allocation: not modelled (no influence on
     out_learnt / out_btlevel);
   * situations the C++ excludes by assert (or where it would read outside the trail) give [None]. *)
From Coq Require Import ZArith NArith PArith List Bool Lia FSetPositive.
From OsmtV.Sat Require Import PropLogic.
Import ListNotations.
Local Open Scope Z_scope.

Module PS := PositiveSet.

(* ------------------------------------------------------------------------------------------ *)
(* trail                                                                                       *)

(* var(l); the integer 0 is not a literal, it is given variable 1 to keep the model total *)
Definition lvar (l : Z) : positive := match l with Zpos p | Zneg p => p | Z0 => xH end.

Record tentry := mkT {
  te_lit : Z;                     (* the literal that is TRUE on the trail *)
  te_level : nat;                 (* vardata[var].level *)
  te_reason : option clause;      (* vardata[var].reason: None = CRef_Undef (decision / assumption) *)
  te_theory : bool                (* the reason is CRef_Fake when analyze starts *)
}.
Definition trail := list tentry.   (* head = most recent *)
Definition te_var (e : tentry) : positive := lvar (te_lit e).

Definition find_var (tr : trail) (v : positive) : option tentry :=
  find (fun e => Pos.eqb (te_var e) v) tr.
(* level(x), reason(x)   CoreSMTSolver.h (vardata lookups) *)
Definition level_of (tr : trail) (v : positive) : nat :=
  match find_var tr v with Some e => te_level e | None => O end.
Definition reason_of (tr : trail) (v : positive) : option clause :=
  match find_var tr v with Some e => te_reason e | None => None end.

Definition false_in (q : Z) (tr : trail) : Prop := q <> 0 /\ exists e, In e tr /\ te_lit e = - q.
Definition falsified (c : clause) (tr : trail) : Prop := forall q, In q c -> false_in q tr.
Definition assigned (v : positive) (tr : trail) : Prop := exists e, In e tr /\ te_var e = v.

Inductive trail_wf : trail -> Prop :=
| wf_nil : trail_wf []
| wf_cons : forall e tr,
    trail_wf tr ->
    te_lit e <> 0 ->
    ~ assigned (te_var e) tr ->
    (forall e', In e' tr -> (te_level e' <= te_level e)%nat) ->
    (te_reason e = None -> (0 < te_level e)%nat) ->
    (forall r, te_reason e = Some r -> exists rest, r = te_lit e :: rest /\ falsified rest tr) ->
    trail_wf (e :: tr).

Definition reasons (tr : trail) : list clause :=
  flat_map (fun e => match te_reason e with Some r => [r] | None => [] end) tr.

(* boolean checkers (used by the examples and by the tie) *)
Definition false_inb (q : Z) (tr : trail) : bool :=
  negb (q =? 0) && existsb (fun e => te_lit e =? - q) tr.
Definition falsifiedb (c : clause) (tr : trail) : bool := forallb (fun q => false_inb q tr) c.
Definition wf_entryb (e : tentry) (tr : trail) : bool :=
  negb (te_lit e =? 0)
  && negb (existsb (fun e' => Pos.eqb (te_var e') (te_var e)) tr)
  && forallb (fun e' => (te_level e' <=? te_level e)%nat) tr
  && match te_reason e with
     | None => (0 <? te_level e)%nat
     | Some [] => false
     | Some (l :: rest) => (l =? te_lit e) && falsifiedb rest tr
     end.
Fixpoint trail_wfb (tr : trail) : bool :=
  match tr with [] => true | e :: tr' => wf_entryb e tr' && trail_wfb tr' end.

(* ------------------------------------------------------------------------------------------ *)
(* phase 1: first UIP                                                                          *)

(* the body of the for loop CoreSMTSolver.cc:622-646 over the literals [qs] of the clause
   (all literals of the conflict clause, all but the first of a reason clause) *)
Fixpoint absorb (tr : trail) (dl : nat) (qs : clause) (seen : PS.t) (out : list Z) (pathC : Z)
  : PS.t * list Z * Z :=
  match qs with
  | [] => (seen, out, pathC)
  | q :: qs' =>
    let v := lvar q in
    if PS.mem v seen then absorb tr dl qs' seen out pathC                     (* :626 *)
    else if (0 <? level_of tr v)%nat then                                     (* :628 *)
      if (dl <=? level_of tr v)%nat                                           (* :632 *)
      then absorb tr dl qs' (PS.add v seen) out (pathC + 1)                   (* :634 *)
      else absorb tr dl qs' (PS.add v seen) (out ++ [q]) pathC                (* :637 *)
    else absorb tr dl qs' seen out pathC                                      (* level 0: dropped *)
  end.

(* the do-while loop CoreSMTSolver.cc:611-730 after the first absorb: walk down the trail to the next
   seen literal p (:648-651), confl = reason(p) (:698), assert(pathC == 1 || confl != CRef_Undef) (:720),
   seen[var p] = 0, pathC-- (:721-722), continue while pathC > 0 (:730).  Result: p, seen, the tail of
   out_learnt (indices >= 1), the set of variables whose lazy theory reason has been materialised. *)
Fixpoint walk (tr : trail) (dl : nat) (rest : trail) (seen : PS.t) (out : list Z) (pathC : Z) (mat : PS.t)
  : option (Z * PS.t * list Z * PS.t) :=
  match rest with
  | [] => None                                                                (* assert(index >= 0) :650 *)
  | e :: rest' =>
    let v := te_var e in
    if PS.mem v seen then
      let mat' := if te_theory e then PS.add v mat else mat in                (* :653-696 *)
      let seen' := PS.remove v seen in                                        (* :721 *)
      match te_reason e with
      | None => if pathC =? 1 then Some (te_lit e, seen', out, mat') else None   (* :720 *)
      | Some r =>
        if 0 <? pathC - 1 then                                                (* :722, :730 *)
          let '(s, o, pc) := absorb tr dl (tl r) seen' out (pathC - 1) in     (* :622 j = 1 *)
          walk tr dl rest' s o pc mat'
        else Some (te_lit e, seen', out, mat')
      end
    else walk tr dl rest' seen out pathC mat
  end.

(* ------------------------------------------------------------------------------------------ *)
(* phase 2: minimisation (ccmin_mode == 2)                                                     *)

(* abstractLevel(x) = 1 << (level(x) & 31)     CoreSMTSolver.h:697 *)
Definition abstractLevel (tr : trail) (v : positive) : N :=
  N.shiftl 1 (N.of_nat (level_of tr v mod 32)).

(* for (j = top; j < analyze_toclear.size(); j++) seen[var(analyze_toclear[j])] = 0   :878-880, :904-906
   [clr] is the segment analyze_toclear[top..] of the current litRedundant call (most recent first; the
   order is irrelevant for the resulting set) *)
Definition lr_undo (clr : list Z) (seen : PS.t) : PS.t :=
  fold_left (fun s q => PS.remove (lvar q) s) clr seen.

(* the for loop CoreSMTSolver.cc:890-910 over the literals c[1..] of the reason of the popped literal;
   [inr s]: the call fails, s = seen after undoing the marks of this call *)
Fixpoint lr_scan (tr : trail) (abs : N) (qs : list Z) (seen : PS.t) (stack clr : list Z)
  : (PS.t * list Z * list Z) + PS.t :=
  match qs with
  | [] => inl (seen, stack, clr)
  | q :: qs' =>
    let v := lvar q in
    if negb (PS.mem v seen) && (0 <? level_of tr v)%nat then                  (* :894 *)
      if (match reason_of tr v with Some _ => true | None => false end)
         && negb (N.land (abstractLevel tr v) abs =? 0)%N                     (* :896 *)
      then lr_scan tr abs qs' (PS.add v seen) (q :: stack) (q :: clr)         (* :898-900 *)
      else inr (lr_undo clr seen)                                             (* :904-907 *)
    else lr_scan tr abs qs' seen stack clr
  end.

(* the while loop CoreSMTSolver.cc:834-911; analyze_stack: head = last().  [None]: out of fuel or an
   assert of the C++ fails *)
Fixpoint lr_loop (fuel : nat) (tr : trail) (abs : N) (mat : PS.t) (seen : PS.t) (stack clr : list Z)
  : option (bool * PS.t) :=
  match stack with
  | [] => Some (true, seen)                                                   (* :913 *)
  | p :: stack' =>
    match fuel with
    | O => None
    | S fuel' =>
      match find_var tr (lvar p) with
      | None => None
      | Some e =>
        match te_reason e with
        | None => None                                                        (* assert :836 *)
        | Some r =>
          if te_theory e && negb (PS.mem (te_var e) mat)                      (* cr == CRef_Fake :876 *)
          then Some (false, lr_undo clr seen)                                 (* :878-882 *)
          else match lr_scan tr abs (tl r) seen stack' clr with               (* pop :888, scan :890 *)
               | inr s => Some (false, s)
               | inl (s, st, cl) => lr_loop fuel' tr abs mat s st cl
               end
        end
      end
    end
  end.

(* every variable is pushed at most once per call (it is marked seen when pushed) and only variables of
   trail entries are pushed, so |trail| + 2 iterations always suffice *)
Definition litRedundant (tr : trail) (abs : N) (mat : PS.t) (p : Z) (seen : PS.t) : option (bool * PS.t) :=
  lr_loop (S (S (length tr))) tr abs mat seen [p] [].                         (* :831-833 *)

(* for (i = j = 1; ...) if (reason(var(out_learnt[i])) == CRef_Undef || !litRedundant(...)) keep   :746-748 *)
Fixpoint minimize (tr : trail) (abs : N) (mat : PS.t) (qs : list Z) (seen : PS.t)
  : option (list Z * PS.t) :=
  match qs with
  | [] => Some ([], seen)
  | q :: qs' =>
    match reason_of tr (lvar q) with
    | None => match minimize tr abs mat qs' seen with
              | Some (k, s) => Some (q :: k, s) | None => None end
    | Some _ =>
      match litRedundant tr abs mat q seen with
      | None => None
      | Some (true, s1) => minimize tr abs mat qs' s1
      | Some (false, s1) => match minimize tr abs mat qs' s1 with
                            | Some (k, s) => Some (q :: k, s) | None => None end
      end
    end
  end.

(* :742-744 *)
Definition abstract_levels (tr : trail) (tail : list Z) : N :=
  fold_left (fun acc q => N.lor acc (abstractLevel tr (lvar q))) tail 0%N.

(* ------------------------------------------------------------------------------------------ *)
(* phase 3: backjump level                                                                     *)

(* for (i = 2; ...) if (level(out_learnt[i]) > level(out_learnt[max_i])) max_i = i    :785-789
   indices are relative to the tail out_learnt[1..] *)
Fixpoint max_idx (tr : trail) (l : list Z) (i best bestlvl : nat) : nat :=
  match l with
  | [] => best
  | q :: l' =>
    if (bestlvl <? level_of tr (lvar q))%nat
    then max_idx tr l' (S i) i (level_of tr (lvar q))
    else max_idx tr l' (S i) best bestlvl
  end.

(* put x at position k of l, return the old element *)
Fixpoint swap_in (x : Z) (l : list Z) (k : nat) : Z * list Z :=
  match l with
  | [] => (x, [])
  | y :: l' =>
    match k with
    | O => (y, x :: l')
    | S k' => let '(p, l'') := swap_in x l' k' in (p, y :: l'')
    end
  end.

(* :781-795 *)
Definition backjump (tr : trail) (l0 : Z) (kept : list Z) : clause * nat :=
  match kept with
  | [] => ([l0], O)
  | q1 :: rest =>
    match max_idx tr rest 1 0 (level_of tr (lvar q1)) with
    | O => (l0 :: q1 :: rest, level_of tr (lvar q1))
    | S k => let '(p, rest') := swap_in q1 rest k in (l0 :: p :: rest', level_of tr (lvar p))
    end
  end.

(* ------------------------------------------------------------------------------------------ *)
(* analyze                                                                                     *)

Definition phase1 (tr : trail) (dl : nat) (c : clause) : option (Z * PS.t * list Z * PS.t) :=
  let '(s0, o0, pc0) := absorb tr dl c PS.empty [] 0 in                       (* p == lit_Undef: j = 0 *)
  walk tr dl tr s0 o0 pc0 PS.empty.

(* dl = decisionLevel() *)
Definition analyze (tr : trail) (dl : nat) (c : clause) : option (clause * nat) :=
  match phase1 tr dl c with
  | None => None
  | Some (p, s1, tail, mat) =>
    match minimize tr (abstract_levels tr tail) mat tail s1 with
    | None => None
    | Some (kept, _) => Some (backjump tr (- p) kept)                         (* out_learnt[0] = ~p :734 *)
    end
  end.

Definition analyze_nomin (tr : trail) (dl : nat) (c : clause) : option (clause * nat) :=
  match phase1 tr dl c with
  | None => None
  | Some (p, _, tail, _) => Some (backjump tr (- p) tail)
  end.

(* ------------------------------------------------------------------------------------------ *)
(* examples                                                                                    *)

(* oldest first:  1@0 (fact) | 2@1 dec, 3@1 <- 2 | 4@2 dec, 5@2 <- 4,1 | 6@3 dec, 7@3 <- 6, 9@3 <- 7,5,
   8@3 <- 7,3,2 ;  conflict (-8 \/ -9) *)
Definition ex_trail : trail :=
  [ mkT 8 3 (Some [8; -7; -3; -2]) false;
    mkT 9 3 (Some [9; -7; -5]) false;
    mkT 7 3 (Some [7; -6]) false;
    mkT 6 3 None false;
    mkT 5 2 (Some [5; -4; -1]) false;
    mkT 4 2 None false;
    mkT 3 1 (Some [3; -2]) false;
    mkT 2 1 None false;
    mkT 1 0 (Some [1]) false ].
Definition ex_confl : clause := [-8; -9; -1].

Example ex_phase1 : match phase1 ex_trail 3 ex_confl with
                    | Some (p, _, tail, _) => Some (p, tail) | None => None end = Some (7, [-3; -2; -5]).
Proof. vm_compute. reflexivity. Qed.
