(* Models of the three places of the proof printer / proof store at which C10 fails on the unchanged tree,
   each with a boolean [fixed] selecting the behaviour after the proposed repair (the check selects by the
   observed output: it simply runs the verified checker on what is printed).

   1. final reference      ResolutionProof::printSMT2  (/repo/src/smtsolvers/ResolutionProof.cc:203,247):
        the empty clause is bound as  cls_<CRef_Undef> = cls_4294967295, the proof ends with the text "cls_0".
   2. constant literals    CoreSMTSolver::printSMTClause (/repo/src/smtsolvers/CoreSMTSolver.h:905-917):
        literals over var 0 / var 1 (the terms true / false; DIMACS 1 and 2) are skipped when a clause is
        printed, the pivots of the chains are printed in full.
   3. empty-clause slot    ResolutionProof::endChain (/repo/src/smtsolvers/ResolutionProof.cc:101-112):
        clause_to_proof_der.emplace(conclusion, chain) does not replace an existing entry; for conclusion =
        CRef_Undef an entry survives from the previous refutation unless setCurrentAssumptionLiterals
        (ResolutionProof.h:118-145) removes it, which happens only in solve(). *)
From Coq Require Import ZArith NArith List Bool Lia PArith FMapPositive.
From OsmtV.Sat Require Import PropLogic ResChain ProofCheck.
Import ListNotations.
Local Open Scope Z_scope.

(* ---- 1. final reference ------------------------------------------------------------------- *)
Definition cref_undef : name := 4294967295%N.
Definition printed_final (fixed : bool) : name := if fixed then cref_undef else 0%N.

(* the printer binds the empty clause under cref_undef as the last binding; all other names are clause
   references produced by the allocator, which never returns CRef_Undef or (for a derived clause) 0 *)
Definition printed_proof (fixed : bool) (steps : list pstep) (core : list name) : proof :=
  mkProof steps (printed_final fixed) core.

Lemma printed_final_fixed_ok : forall steps core,
  check_struct (mkProof steps cref_undef core) = true -> check_struct (printed_proof true steps core) = true.
Proof. intros; exact H. Qed.

(* the refutation printed for  (assert (or p (x>2))) (assert (or (not p) (y>2))) (push 1) ... *)
Definition wit_steps : list pstep :=
  [ PLeaf 21%N [-1; 2]; PLeaf 46%N [3; 1]; PLeaf 9%N [4; -3];
    PRes 50%N [2; 4] 9%N [(46%N, 3); (21%N, 1)];
    PLeaf 35%N [-2]; PLeaf 60%N [-4];
    PRes cref_undef [] 35%N [(50%N, 2); (60%N, 4)] ].

Lemma printed_final_refuted :
  exists steps core,
    check_struct (mkProof steps cref_undef core) = true /\
    check_proof_err (proof_leaves steps) (printed_proof false steps core) = Some (EFinalUnbound 0%N).
Proof. exists wit_steps, [21%N; 9%N]. split; vm_compute; reflexivity. Qed.

(* ---- 2. constant literals ------------------------------------------------------------------ *)
(* DIMACS 1 = var 0 = true, 2 = var 1 = false *)
Definition is_const_lit (l : lit) : bool := (Z.abs l =? 1) || (Z.abs l =? 2).
Definition print_clause (fixed : bool) (c : clause) : clause :=
  if fixed then c else filter (fun l => negb (is_const_lit l)) c.
Definition print_step (fixed : bool) (s : pstep) : pstep :=
  match s with
  | PLeaf n c => PLeaf n (print_clause fixed c)
  | PRes n st f ch => PRes n (print_clause fixed st) f ch       (* pivots are printed as they are *)
  end.

Lemma print_step_fixed_id : forall s, print_step true s = s.
Proof. destruct s; reflexivity. Qed.

Lemma print_steps_fixed_id : forall steps, map (print_step true) steps = steps.
Proof. induction steps as [|s r IH]; simpl; [reflexivity|]. now rewrite print_step_fixed_id, IH. Qed.

(* the store after (assert (and p (not p))) under frame 1: leaves (not false), (false or .frame1), (not .frame1) *)
Definition wit_const_steps : list pstep :=
  [ PLeaf 6%N [-2]; PLeaf 250%N [2; 3];
    PRes 254%N [3] 250%N [(6%N, 2)];
    PLeaf 257%N [-3];
    PRes cref_undef [] 257%N [(254%N, 3)] ].

Lemma elided_constants_refuted :
  exists steps core,
    check_struct (mkProof steps cref_undef core) = true /\
    check_proof_err (proof_leaves (map (print_step false) steps))
                    (mkProof (map (print_step false) steps) cref_undef core) = Some (EBadPivot 254%N 0).
Proof. exists wit_const_steps, [6%N; 250%N]. split; vm_compute; reflexivity. Qed.

Lemma printed_constants_fixed_ok : forall steps core,
  check_struct (mkProof steps cref_undef core) = true ->
  check_struct (mkProof (map (print_step true) steps) cref_undef core) = true.
Proof. intros steps core H. now rewrite print_steps_fixed_id. Qed.

(* ---- 3. the slot of the empty clause ------------------------------------------------------- *)
(* a derivation of the empty clause, reduced to what matters: its first premise (the assumption unit it
   starts from, if any) and the frames its leaves are guarded by / activate *)
Record ederiv := mkE { e_first_assumption : option nat ; e_frames : list nat }.

Definition slot := option ederiv.

(* endChain(CRef_Undef): std::map::emplace keeps an existing entry *)
Definition end_chain_empty (fixed : bool) (d : ederiv) (s : slot) : slot :=
  if fixed then Some d else match s with Some old => Some old | None => Some d end.

(* setCurrentAssumptionLiterals: the entry is erased iff it starts from the unit of a dropped assumption *)
Definition set_assumptions (active : list nat) (s : slot) : slot :=
  match s with
  | Some d => match e_first_assumption d with
              | Some f => if existsb (Nat.eqb f) active then s else None
              | None => s
              end
  | None => None
  end.

Inductive pevent :=
| EvSolveUnsat (active : list nat) (d : ederiv)   (* solve(): setAssumptions, search, analyzeFinal -> endChain *)
| EvAddUnsat (d : ederiv).                         (* addOriginalClause_: all literals false at level 0 -> endChain *)

Definition pstep_store (fixed : bool) (s : slot) (e : pevent) : slot :=
  match e with
  | EvSolveUnsat active d => end_chain_empty fixed d (set_assumptions active s)
  | EvAddUnsat d => end_chain_empty fixed d s
  end.

Definition run_store (fixed : bool) (es : list pevent) : slot := fold_left (pstep_store fixed) es None.

(* what (get-proof) prints refers only to active frames *)
Definition frames_active (active : list nat) (s : slot) : bool :=
  match s with Some d => forallb (fun f => existsb (Nat.eqb f) active) (e_frames d) | None => true end.

(* (assert (not p))(assert q)(push 1)(assert p)(check-sat)(pop 1)(assert (or p (not q)))(check-sat)(get-proof) *)
Definition wit_history : list pevent :=
  [ EvSolveUnsat [1%nat] (mkE (Some 1%nat) [1%nat]) ; EvAddUnsat (mkE None []) ].

Lemma stale_empty_clause_refuted :
  exists es active, frames_active active (run_store false es) = false
                    /\ (exists d, last es (EvAddUnsat d) = EvAddUnsat (mkE None [])).
Proof. exists wit_history, []. split; [vm_compute; reflexivity | exists (mkE None []); reflexivity]. Qed.

(* with the repair the slot always holds the derivation of the LAST refutation *)
Lemma store_fixed_is_last : forall es s d,
  fold_left (pstep_store true) (es ++ [EvAddUnsat d]) s = Some d.
Proof. intros es s d. rewrite fold_left_app. reflexivity. Qed.

Lemma store_fixed_is_last_solve : forall es s active d,
  fold_left (pstep_store true) (es ++ [EvSolveUnsat active d]) s = Some d.
Proof. intros es s active d. rewrite fold_left_app. reflexivity. Qed.
