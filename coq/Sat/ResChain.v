(* Resolution steps and chains as printed by (get-proof) (C10):
     (res (res (res c0 c1 p1) c2 p2) c3 p3)
   Each step resolves the clause obtained so far with the next premise on the pivot variable p, which must
   occur positively in one of the two and negatively in the other (either orientation is printed).
   [res_step_sound], [res_chain_sound]. Clause comparison is as sets of literals. *)
From Coq Require Import ZArith List Bool Lia PArith.
From OsmtV.Sat Require Import PropLogic.
Import ListNotations.
Local Open Scope Z_scope.

Definition mem_lit (l : lit) (c : clause) : bool := existsb (Z.eqb l) c.
Definition subset_b (c d : clause) : bool := forallb (fun l => mem_lit l d) c.
Definition clause_eqb (c d : clause) : bool := subset_b c d && subset_b d c.

Lemma mem_lit_In : forall l c, mem_lit l c = true <-> In l c.
Proof.
  intros l c; unfold mem_lit; rewrite existsb_exists; split.
  - intros [x [H1 H2]]. apply Z.eqb_eq in H2. now subst.
  - intros H. exists l; split; auto. apply Z.eqb_refl.
Qed.

Lemma subset_b_incl : forall c d, subset_b c d = true <-> incl c d.
Proof.
  intros c d; unfold subset_b, incl; rewrite forallb_forall; split; intros H l Hl.
  - apply mem_lit_In; auto.
  - apply mem_lit_In; auto.
Qed.

Lemma clause_eqb_true : forall a c d, clause_eqb c d = true -> clause_true a c = clause_true a d.
Proof.
  intros a c d H. apply andb_true_iff in H. destruct H as [H1 H2].
  apply subset_b_incl in H1. apply subset_b_incl in H2.
  destruct (clause_true a c) eqn:E1; destruct (clause_true a d) eqn:E2; auto.
  - rewrite (clause_true_incl a c d H1 E1) in E2. discriminate.
  - rewrite (clause_true_incl a d c H2 E2) in E1. discriminate.
Qed.

Lemma clause_eqb_nil : forall c, clause_eqb c [] = true -> c = [].
Proof.
  intros [|x r] H; auto. apply andb_true_iff in H. destruct H as [H _].
  apply subset_b_incl in H. destruct (H x); now left.
Qed.

(* one resolution step on the pivot VARIABLE p (a positive literal as printed): None if the pivot does
   not occur with opposite signs in the two premises *)
Definition res_step (c1 c2 : clause) (p : lit) : option clause :=
  if (p =? 0) then None
  else if mem_lit p c1 && mem_lit (- p) c2 then Some (resolve c1 c2 p)
  else if mem_lit (- p) c1 && mem_lit p c2 then Some (resolve c1 c2 (- p))
  else None.

Theorem res_step_sound : forall a c1 c2 p r,
  res_step c1 c2 p = Some r -> clause_true a c1 = true -> clause_true a c2 = true -> clause_true a r = true.
Proof.
  unfold res_step; intros a c1 c2 p r H T1 T2.
  destruct (p =? 0); [discriminate|].
  destruct (mem_lit p c1 && mem_lit (- p) c2).
  - injection H as <-. now apply resolve_sound.
  - destruct (mem_lit (- p) c1 && mem_lit p c2); [|discriminate].
    injection H as <-. now apply resolve_sound.
Qed.

(* the literals of a resolvent come from the premises, the pivot is gone from the side it was taken from *)
Lemma res_step_incl : forall c1 c2 p r, res_step c1 c2 p = Some r -> incl r (c1 ++ c2).
Proof.
  unfold res_step, resolve; intros c1 c2 p r H.
  destruct (p =? 0); [discriminate|].
  destruct (mem_lit p c1 && mem_lit (- p) c2); [|destruct (mem_lit (- p) c1 && mem_lit p c2); [|discriminate]];
    injection H as <-; intros l Hl; apply in_app_or in Hl; apply in_or_app;
    destruct Hl as [Hl|Hl]; apply in_remove_lit in Hl; tauto.
Qed.

(* a chain: start clause, then (premise, pivot) pairs; [k] counts the steps for error reporting *)
Fixpoint res_chain (cur : clause) (steps : list (clause * lit)) : option clause :=
  match steps with
  | [] => Some cur
  | (c, p) :: r => match res_step cur c p with Some cur' => res_chain cur' r | None => None end
  end.

Theorem res_chain_sound : forall a steps cur r,
  res_chain cur steps = Some r -> clause_true a cur = true ->
  (forall c p, In (c, p) steps -> clause_true a c = true) -> clause_true a r = true.
Proof.
  induction steps as [|[c p] rest IH]; simpl; intros cur r H T Hs.
  - injection H as <-. auto.
  - destruct (res_step cur c p) as [cur'|] eqn:E; [|discriminate].
    apply (IH cur' r H).
    + eapply res_step_sound; eauto.
    + intros c' p' Hin. eapply Hs; eauto.
Qed.

Example res_chain_example :
  res_chain [1; 2] [([-1; 3], 1); ([-2; 3], 2); ([-3], 3)] = Some [] /\ res_step [1; 2] [1; 3] 1 = None.
Proof. split; vm_compute; reflexivity. Qed.
