(* A small verified decision procedure for clause lists (used only by the failing-input search of C12/C10:
   it produces a total assignment satisfying  database ∧ ¬clause, i.e. a certified countermodel for a
   non-implied clause, or certifies that there is none).
   DPLL = unit propagation ([up] of RupCheck) + case split on the next unassigned variable; the recursion
   is structural on the list of variable occurrences of the formula (fuel = number of variables).
   [dpll_sound], [dpll_complete], [dpll_decides] (the error value DUnknown never occurs). *)
From Coq Require Import ZArith List Bool Lia PArith FMapPositive.
From OsmtV.Sat Require Import PropLogic RupCheck.
Import ListNotations.
Local Open Scope Z_scope.

Inductive dres := DSat (m : pmap) | DUnsat | DUnknown.

Definition lit_is (m : pmap) (b : bool) (l : lit) : bool :=
  match lit_val m l with Some b' => Bool.eqb b b' | None => false end.
Definition clause_sat (m : pmap) (c : clause) : bool := existsb (lit_is m true) c.
Definition clause_dead (m : pmap) (c : clause) : bool := forallb (lit_is m false) c.

Definition lit_vars (l : lit) : list positive := match var_of l with Some v => [v] | None => [] end.
Definition cnf_vars (F : cnf) : list positive := flat_map (fun c => flat_map lit_vars c) F.

Fixpoint dpll_aux (vs : list positive) (F : cnf) (m : pmap) : dres :=
  match up (rup_fuel F) F m with
  | None => DUnsat
  | Some m' =>
    match vs with
    | [] => if forallb (clause_sat m') F then DSat m'
            else if existsb (clause_dead m') F then DUnsat else DUnknown
    | v :: vs' =>
      match pfind v m' with
      | Some _ => dpll_aux vs' F m'
      | None => match dpll_aux vs' F (padd v true m') with
                | DSat r => DSat r
                | DUnsat => dpll_aux vs' F (padd v false m')
                | DUnknown => DUnknown
                end
      end
    end
  end.

Definition dpll (F : cnf) : dres := dpll_aux (cnf_vars F) F pempty.

(* database ∧ ¬C as a clause list *)
Definition neg_units (C : clause) : cnf := map (fun l => [- l]) C.
Definition countermodel (F : cnf) (C : clause) : dres := dpll (neg_units C ++ F).

(* ------------------------------------------------------------------------------------------ *)
Local Arguments up : simpl never.
Local Arguments rup_fuel : simpl never.

Lemma lit_is_true : forall a m l, agrees a m -> lit_is m true l = true -> lit_true a l = true.
Proof.
  unfold lit_is; intros a m l Ha H. destruct (lit_val m l) as [b|] eqn:E; [|discriminate].
  destruct b; [|discriminate]. eapply agrees_lit_val; eauto.
Qed.

Lemma lit_is_false : forall a m l, agrees a m -> lit_is m false l = true -> lit_true a l = false.
Proof.
  unfold lit_is; intros a m l Ha H. destruct (lit_val m l) as [b|] eqn:E; [|discriminate].
  destruct b; [discriminate|]. eapply agrees_lit_val; eauto.
Qed.

Lemma clause_sat_true : forall a m c, agrees a m -> clause_sat m c = true -> clause_true a c = true.
Proof.
  unfold clause_sat; intros a m c Ha H. apply existsb_exists in H. destruct H as [l [Hl H]].
  apply clause_true_iff. exists l; split; auto. eapply lit_is_true; eauto.
Qed.

Lemma clause_dead_false : forall a m c, agrees a m -> clause_dead m c = true -> clause_true a c = false.
Proof.
  unfold clause_dead; intros a m c Ha H. apply clause_false_iff. intros l Hl.
  rewrite forallb_forall in H. eapply lit_is_false; eauto.
Qed.

Lemma dpll_aux_sound : forall vs F m r, dpll_aux vs F m = DSat r -> models (total_of r) F.
Proof.
  induction vs as [|v vs IH]; simpl; intros F m r H; destruct (up (rup_fuel F) F m) as [m'|]; try discriminate.
  - destruct (forallb (clause_sat m') F) eqn:E.
    + injection H as <-. intros c Hc. rewrite forallb_forall in E.
      eapply clause_sat_true; [apply agrees_total_of | auto].
    + destruct (existsb (clause_dead m') F); discriminate.
  - destruct (pfind v m'); [eapply IH; eauto|].
    destruct (dpll_aux vs F (padd v true m')) eqn:E1.
    + injection H as <-. eapply IH; eauto.
    + eapply IH; eauto.
    + discriminate.
Qed.

Lemma agrees_padd : forall a m v, agrees a m -> agrees a (padd v (a v) m).
Proof.
  intros a m v Ha w b. destruct (Pos.eq_dec w v) as [->|N].
  - rewrite pfind_add_eq. congruence.
  - rewrite pfind_add_neq; auto.
Qed.

Lemma dpll_aux_complete : forall vs F m, dpll_aux vs F m = DUnsat -> forall a, agrees a m -> ~ models a F.
Proof.
  induction vs as [|v vs IH]; simpl; intros F m H a Ha HF;
    pose proof (up_sound a (rup_fuel F) F m HF Ha) as U;
    destruct (up (rup_fuel F) F m) as [m'|]; auto.
  - destruct (forallb (clause_sat m') F); [discriminate|].
    destruct (existsb (clause_dead m') F) eqn:E; [|discriminate].
    apply existsb_exists in E. destruct E as [c [Hc D]].
    pose proof (HF c Hc) as T. rewrite (clause_dead_false a m' c U D) in T. discriminate.
  - destruct (pfind v m') eqn:Ev; [eapply IH; eauto|].
    destruct (dpll_aux vs F (padd v true m')) eqn:E1; try discriminate.
    destruct (a v) eqn:Av.
    + eapply (IH _ _ E1 a); auto. rewrite <- Av. apply agrees_padd; auto.
    + eapply (IH _ _ H a); auto. rewrite <- Av. apply agrees_padd; auto.
Qed.

Theorem dpll_sound : forall F m, dpll F = DSat m -> models (total_of m) F.
Proof. unfold dpll; intros; eapply dpll_aux_sound; eauto. Qed.

Theorem dpll_complete : forall F, dpll F = DUnsat -> unsat F.
Proof. unfold dpll, unsat; intros F H a. eapply dpll_aux_complete; eauto. apply agrees_empty. Qed.

(* the procedure decides: the error value never occurs *)
Definition covered (F : cnf) (vs : list positive) (m : pmap) : Prop :=
  forall c l v, In c F -> In l c -> var_of l = Some v -> In v vs \/ pfind v m <> None.

Lemma covered_all_assigned : forall F m c, covered F [] m -> In c F -> clause_sat m c = false -> clause_dead m c = true.
Proof.
  intros F m c Hc Hin Hs. unfold clause_dead. apply forallb_forall. intros l Hl.
  unfold clause_sat in Hs.
  assert (Hl' : lit_is m true l = false).
  { destruct (lit_is m true l) eqn:E; auto.
    assert (existsb (lit_is m true) c = true) by (apply existsb_exists; eauto). congruence. }
  unfold lit_is in *. destruct l as [|p|p]; simpl in *; auto.
  - destruct (Hc c (Zpos p) p Hin Hl eq_refl) as [[]|N].
    destruct (pfind p m) as [[|]|]; simpl in *; congruence.
  - destruct (Hc c (Zneg p) p Hin Hl eq_refl) as [[]|N].
    destruct (pfind p m) as [[|]|]; simpl in *; congruence.
Qed.

Lemma covered_ext : forall F vs m m', pext m m' -> covered F vs m -> covered F vs m'.
Proof.
  intros F vs m m' He Hc c l v H1 H2 H3. destruct (Hc c l v H1 H2 H3) as [H|H]; auto.
  right. destruct (pfind v m) as [b|] eqn:E; [|congruence]. rewrite (He _ _ E). discriminate.
Qed.

Lemma covered_step_assigned : forall F v vs m b, pfind v m = Some b -> covered F (v :: vs) m -> covered F vs m.
Proof.
  intros F v vs m b Hv Hc c l w H1 H2 H3. destruct (Hc c l w H1 H2 H3) as [[<-|H]|H]; auto.
  right; congruence.
Qed.

Lemma covered_step_add : forall F v vs m b, covered F (v :: vs) m -> covered F vs (padd v b m).
Proof.
  intros F v vs m b Hc c l w H1 H2 H3. destruct (Hc c l w H1 H2 H3) as [[<-|H]|H]; auto.
  - right. rewrite pfind_add_eq. discriminate.
  - right. destruct (Pos.eq_dec w v) as [->|N]; [rewrite pfind_add_eq; discriminate | rewrite pfind_add_neq; auto].
Qed.

Lemma dpll_aux_decides : forall vs F m, covered F vs m -> dpll_aux vs F m <> DUnknown.
Proof.
  induction vs as [|v vs IH]; simpl; intros F m Hc;
    destruct (up (rup_fuel F) F m) as [m'|] eqn:U; try discriminate;
    pose proof (covered_ext _ _ _ _ (up_ext _ _ _ _ U) Hc) as Hc'.
  - destruct (forallb (clause_sat m') F) eqn:E; [discriminate|].
    destruct (existsb (clause_dead m') F) eqn:D; [discriminate|]. exfalso.
    assert (exists c, In c F /\ clause_sat m' c = false) as [c [Hin Hs]].
    { clear -E. induction F as [|c r IHr]; simpl in *; [discriminate|].
      destruct (clause_sat m' c) eqn:S; simpl in *; [destruct (IHr E) as [c' [? ?]]; eauto | eauto]. }
    assert (existsb (clause_dead m') F = true).
    { apply existsb_exists. exists c; split; auto. eapply covered_all_assigned; eauto. }
    congruence.
  - destruct (pfind v m') as [b|] eqn:Ev.
    + apply IH. eapply covered_step_assigned; eauto.
    + pose proof (IH F (padd v true m') (covered_step_add _ _ _ _ true Hc')) as H1.
      pose proof (IH F (padd v false m') (covered_step_add _ _ _ _ false Hc')) as H2.
      destruct (dpll_aux vs F (padd v true m')); auto; discriminate.
Qed.

Lemma covered_cnf_vars : forall F, covered F (cnf_vars F) pempty.
Proof.
  intros F c l v H1 H2 H3. left. unfold cnf_vars. apply in_flat_map. exists c; split; auto.
  apply in_flat_map. exists l; split; auto. unfold lit_vars. rewrite H3. now left.
Qed.

Theorem dpll_decides : forall F, dpll F <> DUnknown.
Proof. intros F. apply dpll_aux_decides. apply covered_cnf_vars. Qed.

(* the use made of it: a certified countermodel for a non-implied clause / a certificate of implication *)
Lemma models_neg_units : forall a C, models a (neg_units C) -> clause_true a C = false.
Proof.
  intros a C H. apply clause_false_iff. intros l Hl.
  assert (Hu : clause_true a [- l] = true) by (apply H; unfold neg_units; apply in_map_iff; eauto).
  simpl in Hu. rewrite orb_false_r in Hu. now apply lit_true_opp_false.
Qed.

Theorem countermodel_sat : forall F C m, countermodel F C = DSat m ->
  models (total_of m) F /\ clause_true (total_of m) C = false.
Proof.
  unfold countermodel; intros F C m H. apply dpll_sound in H. apply models_app in H. destruct H as [H1 H2].
  split; auto. now apply models_neg_units.
Qed.

Theorem countermodel_not_entailed : forall F C m, countermodel F C = DSat m -> ~ entails F C.
Proof. intros F C m H E. destruct (countermodel_sat _ _ _ H) as [H1 H2]. rewrite (E _ H1) in H2. discriminate. Qed.

Theorem countermodel_unsat : forall F C, (forall l, In l C -> l <> 0) -> countermodel F C = DUnsat -> entails F C.
Proof.
  unfold countermodel; intros F C Hnz H a HF. apply dpll_complete in H.
  destruct (clause_true a C) eqn:T; auto. exfalso. apply (H a). apply models_app; split; auto.
  intros c Hc. unfold neg_units in Hc. apply in_map_iff in Hc. destruct Hc as [l [<- Hl]].
  simpl. rewrite orb_false_r. rewrite lit_true_opp; auto.
  rewrite clause_false_iff in T. now rewrite (T l Hl).
Qed.

Example dpll_example :
  (match dpll [[1; 2]; [-1; 2]; [-2; 3]] with DSat m => cnf_true (total_of m) [[1; 2]; [-1; 2]; [-2; 3]] | _ => false end) = true
  /\ dpll [[1; 2]; [-1; 2]; [1; -2]; [-1; -2]] = DUnsat.
Proof. split; vm_compute; reflexivity. Qed.
