(* Propositional base of the SAT-level properties (C12, C10): literals, clauses, total assignments,
   entailment, partial assignments (finite maps over positive), resolution.

   Literals are DIMACS integers: [Zpos v] is the variable v, [Zneg v] its negation.  The integer 0 is not
   a literal of the implementation; it is given the meaning "false" so that every theorem below holds
   for ALL clause lists, without a well-formedness hypothesis. *)
From Coq Require Import ZArith List Bool Lia PArith FMapPositive.
Import ListNotations.
Local Open Scope Z_scope.

Definition lit := Z.
Definition clause := list lit.
Definition cnf := list clause.
Definition assignment := positive -> bool.

Definition lit_true (a : assignment) (l : lit) : bool :=
  match l with Z0 => false | Zpos p => a p | Zneg p => negb (a p) end.
Definition clause_true (a : assignment) (c : clause) : bool := existsb (lit_true a) c.
Definition cnf_true (a : assignment) (F : cnf) : bool := forallb (clause_true a) F.

Definition models (a : assignment) (F : cnf) : Prop := forall c, In c F -> clause_true a c = true.
Definition entails (F : cnf) (C : clause) : Prop := forall a, models a F -> clause_true a C = true.
Definition unsat (F : cnf) : Prop := forall a, ~ models a F.

Lemma cnf_true_models : forall a F, cnf_true a F = true <-> models a F.
Proof. intros a F. unfold cnf_true, models. rewrite forallb_forall. tauto. Qed.

Lemma lit_true_opp : forall a l, l <> 0 -> lit_true a (- l) = negb (lit_true a l).
Proof. intros a [|p|p] H; simpl; try congruence. now rewrite negb_involutive. Qed.

(* holds for every integer, 0 included *)
Lemma lit_true_opp_false : forall a l, lit_true a (- l) = true -> lit_true a l = false.
Proof. intros a [|p|p]; simpl; intros H; try congruence. now apply negb_true_iff in H. now rewrite H. Qed.

Lemma lit_true_nonzero : forall a l, lit_true a l = true -> l <> 0.
Proof. intros a [|p|p]; simpl; congruence. Qed.

Lemma clause_true_iff : forall a c, clause_true a c = true <-> exists l, In l c /\ lit_true a l = true.
Proof. intros; unfold clause_true; apply existsb_exists. Qed.

Lemma clause_false_iff : forall a c, clause_true a c = false <-> forall l, In l c -> lit_true a l = false.
Proof.
  intros a c; unfold clause_true; split.
  - intros H l Hl. destruct (lit_true a l) eqn:E; auto.
    assert (existsb (lit_true a) c = true) by (apply existsb_exists; eauto). congruence.
  - intros H. destruct (existsb (lit_true a) c) eqn:E; auto.
    apply existsb_exists in E. destruct E as [l [Hl E]]. rewrite (H l Hl) in E. discriminate.
Qed.

Lemma clause_true_app : forall a c d, clause_true a (c ++ d) = clause_true a c || clause_true a d.
Proof. intros; unfold clause_true; apply existsb_app. Qed.

Lemma clause_true_incl : forall a c d, incl c d -> clause_true a c = true -> clause_true a d = true.
Proof. intros a c d Hi H. apply clause_true_iff in H. destruct H as [l [Hl H]]. apply clause_true_iff. eauto. Qed.

Lemma models_nil : forall a, models a [].
Proof. intros a c []. Qed.

Lemma models_cons : forall a c F, models a (c :: F) <-> clause_true a c = true /\ models a F.
Proof.
  intros; unfold models; split.
  - intros H; split; [apply H; now left | intros d Hd; apply H; now right].
  - intros [H1 H2] d [<-|Hd]; auto.
Qed.

Lemma models_app : forall a F G, models a (F ++ G) <-> models a F /\ models a G.
Proof.
  intros; unfold models; split.
  - intros H; split; intros c Hc; apply H; apply in_or_app; auto.
  - intros [H1 H2] c Hc; apply in_app_or in Hc; destruct Hc; auto.
Qed.

Lemma models_incl : forall a F G, incl F G -> models a G -> models a F.
Proof. unfold models, incl; auto. Qed.

Lemma entails_incl : forall F G C, incl F G -> entails F C -> entails G C.
Proof. unfold entails; intros F G C Hi H a Ha. apply H. eapply models_incl; eauto. Qed.

Lemma entails_in : forall F C, In C F -> entails F C.
Proof. unfold entails, models; auto. Qed.

Lemma entails_weaken : forall F C D, incl C D -> entails F C -> entails F D.
Proof. unfold entails; intros. eapply clause_true_incl; eauto. Qed.

(* learning: a clause entailed by the database may be added without changing later entailments *)
Lemma entails_cut : forall F C D, entails F C -> entails (C :: F) D -> entails F D.
Proof. unfold entails; intros F C D H1 H2 a Ha. apply H2. apply models_cons; auto. Qed.

Lemma entails_cut_app : forall F G D, (forall C, In C G -> entails F C) -> entails (G ++ F) D -> entails F D.
Proof.
  unfold entails; intros F G D H1 H2 a Ha. apply H2. apply models_app; split; auto.
  intros c Hc. apply (H1 c Hc a Ha).
Qed.

Lemma entails_nil_unsat : forall F, entails F [] <-> unsat F.
Proof.
  unfold entails, unsat; split.
  - intros H a Ha. specialize (H a Ha). discriminate.
  - intros H a Ha. exfalso. eapply H; eauto.
Qed.

(* ------------------------------------------------------------------------------------------ *)
(* resolution                                                                                  *)

Fixpoint remove_lit (p : lit) (c : clause) : clause :=
  match c with [] => [] | l :: r => if l =? p then remove_lit p r else l :: remove_lit p r end.

Lemma in_remove_lit : forall p c l, In l (remove_lit p c) <-> In l c /\ l <> p.
Proof.
  induction c as [|x r IH]; simpl; intros l; [tauto|].
  destruct (Z.eqb_spec x p) as [->|Hne]; simpl; rewrite IH; split.
  - intros [H1 H2]; auto.
  - intros [[->|H1] H2]; [congruence|auto].
  - intros [<-|[H1 H2]]; auto.
  - intros [[<-|H1] H2]; auto.
Qed.

(* resolvent of c1 (containing p) and c2 (containing -p) on pivot p *)
Definition resolve (c1 c2 : clause) (p : lit) : clause := remove_lit p c1 ++ remove_lit (- p) c2.

Lemma resolve_sound : forall a c1 c2 p,
  clause_true a c1 = true -> clause_true a c2 = true -> clause_true a (resolve c1 c2 p) = true.
Proof.
  intros a c1 c2 p H1 H2. unfold resolve. rewrite clause_true_app. apply orb_true_iff.
  apply clause_true_iff in H1. destruct H1 as [l1 [Hl1 T1]].
  apply clause_true_iff in H2. destruct H2 as [l2 [Hl2 T2]].
  destruct (Z.eq_dec l1 p) as [->|N1].
  - right. apply clause_true_iff. exists l2; split; auto. apply in_remove_lit; split; auto.
    intros ->. apply lit_true_opp_false in T2. congruence.
  - left. apply clause_true_iff. exists l1; split; auto. apply in_remove_lit; auto.
Qed.

Lemma resolve_entailed : forall F c1 c2 p, entails F c1 -> entails F c2 -> entails F (resolve c1 c2 p).
Proof. unfold entails; intros. apply resolve_sound; auto. Qed.

(* ------------------------------------------------------------------------------------------ *)
(* partial assignments                                                                         *)

Definition pmap := PositiveMap.t bool.
Definition pfind (v : positive) (m : pmap) : option bool := PositiveMap.find v m.
Definition padd (v : positive) (b : bool) (m : pmap) : pmap := PositiveMap.add v b m.
Definition pempty : pmap := PositiveMap.empty bool.

Lemma pfind_add_eq : forall v b m, pfind v (padd v b m) = Some b.
Proof. intros; apply PositiveMap.gss. Qed.
Lemma pfind_add_neq : forall v w b m, v <> w -> pfind v (padd w b m) = pfind v m.
Proof. intros; apply PositiveMap.gso; auto. Qed.
Lemma pfind_empty : forall v, pfind v pempty = None.
Proof. intros; apply PositiveMap.gempty. Qed.

(* value of a literal under a partial assignment *)
Definition lit_val (m : pmap) (l : lit) : option bool :=
  match l with
  | Z0 => Some false
  | Zpos p => pfind p m
  | Zneg p => match pfind p m with Some b => Some (negb b) | None => None end
  end.

(* make the literal true; 0 is left alone *)
Definition assign (l : lit) (m : pmap) : pmap :=
  match l with Z0 => m | Zpos p => padd p true m | Zneg p => padd p false m end.

Definition agrees (a : assignment) (m : pmap) : Prop := forall v b, pfind v m = Some b -> a v = b.

Lemma agrees_empty : forall a, agrees a pempty.
Proof. intros a v b H. rewrite pfind_empty in H. discriminate. Qed.

Lemma agrees_lit_val : forall a m l b, agrees a m -> lit_val m l = Some b -> lit_true a l = b.
Proof.
  intros a m [|p|p] b Ha; simpl.
  - congruence.
  - apply Ha.
  - destruct (pfind p m) eqn:E; [|discriminate]. intros [= <-]. now rewrite (Ha _ _ E).
Qed.

Lemma agrees_assign : forall a m l, agrees a m -> lit_true a l = true -> agrees a (assign l m).
Proof.
  intros a m [|p|p] Ha Hl; simpl in *; auto; intros v b; unfold padd, pfind in *.
  - destruct (Pos.eq_dec v p) as [->|N]; [rewrite PositiveMap.gss; congruence | rewrite PositiveMap.gso; auto].
  - destruct (Pos.eq_dec v p) as [->|N]; [rewrite PositiveMap.gss | rewrite PositiveMap.gso; auto].
    intros [= <-]. now apply negb_true_iff.
Qed.

(* extension order on partial assignments *)
Definition pext (m m' : pmap) : Prop := forall v b, pfind v m = Some b -> pfind v m' = Some b.

Lemma pext_refl : forall m, pext m m. Proof. intros m v b; auto. Qed.
Lemma pext_trans : forall m1 m2 m3, pext m1 m2 -> pext m2 m3 -> pext m1 m3.
Proof. unfold pext; auto. Qed.

Lemma pext_assign : forall m l, lit_val m l = None -> pext m (assign l m).
Proof.
  intros m [|p|p]; simpl; intros H; try apply pext_refl; intros v b Hv.
  - destruct (Pos.eq_dec v p) as [->|N]; [congruence | now rewrite pfind_add_neq].
  - destruct (Pos.eq_dec v p) as [->|N]; [ | now rewrite pfind_add_neq].
    rewrite Hv in H. discriminate.
Qed.

Lemma lit_val_assign_same : forall m l, l <> 0 -> lit_val (assign l m) l = Some true.
Proof. intros m [|p|p] H; simpl; try congruence; now rewrite pfind_add_eq. Qed.

Lemma lit_val_ext : forall m m' l b, pext m m' -> lit_val m l = Some b -> lit_val m' l = Some b.
Proof.
  intros m m' [|p|p] b He; simpl; auto.
  destruct (pfind p m) eqn:E; [|discriminate]. rewrite (He _ _ E). auto.
Qed.

(* the total assignment read off a partial one (unassigned variables false) *)
Definition total_of (m : pmap) : assignment := fun v => match pfind v m with Some b => b | None => false end.

Lemma agrees_total_of : forall m, agrees (total_of m) m.
Proof. intros m v b H. unfold total_of. now rewrite H. Qed.

(* variables *)
Definition var_of (l : lit) : option positive := match l with Z0 => None | Zpos p | Zneg p => Some p end.
