(* Reverse unit propagation (C12): [rup F C] assumes the negation of C, unit-propagates over the clause
   list F to a fixpoint (structural fuel: one round per clause of F, +1) and succeeds iff a clause becomes
   falsified.  Out of fuel or fixpoint without conflict ⇒ false.
   Theorem [rup_sound]: rup F C = true -> entails F C, for all F and C (no well-formedness needed). *)
From Coq Require Import ZArith List Bool Lia PArith FMapPositive.
From OsmtV.Sat Require Import PropLogic.
Import ListNotations.
Local Open Scope Z_scope.

Inductive cstatus := CSat | CConflict | CUnit (l : lit) | CUnres.

(* one scan of a clause under a partial assignment; [u] = the unassigned literal met so far *)
Fixpoint clause_status_aux (m : pmap) (c : clause) (u : option lit) : cstatus :=
  match c with
  | [] => match u with None => CConflict | Some l => CUnit l end
  | l :: r =>
    match lit_val m l with
    | Some true => CSat
    | Some false => clause_status_aux m r u
    | None => match u with
              | None => clause_status_aux m r (Some l)
              | Some l' => if l =? l' then clause_status_aux m r u else CUnres
              end
    end
  end.
Definition clause_status (m : pmap) (c : clause) : cstatus := clause_status_aux m c None.

(* one pass over the clause list; None = a falsified clause was met *)
Fixpoint pass (F : cnf) (m : pmap) (changed : bool) : option (pmap * bool) :=
  match F with
  | [] => Some (m, changed)
  | c :: r => match clause_status m c with
              | CConflict => None
              | CUnit l => pass r (assign l m) true
              | _ => pass r m changed
              end
  end.

(* propagation to a fixpoint; None = conflict, Some m' = stopped (fixpoint or out of fuel) with m' *)
Fixpoint up (fuel : nat) (F : cnf) (m : pmap) : option pmap :=
  match fuel with
  | O => Some m
  | S k => match pass F m false with
           | None => None
           | Some (m', true) => up k F m'
           | Some (m', false) => Some m'
           end
  end.

(* assume the negation of C; None = C contains a literal and its negation (nothing falsifies C) *)
Fixpoint assume_neg (C : clause) (m : pmap) : option pmap :=
  match C with
  | [] => Some m
  | l :: r => if l =? 0 then assume_neg r m else
              match lit_val m l with
              | Some true => None
              | Some false => assume_neg r m
              | None => assume_neg r (assign (- l) m)
              end
  end.

Definition rup_fuel (F : cnf) : nat := S (length F).

Definition rup (F : cnf) (C : clause) : bool :=
  match assume_neg C pempty with
  | None => true
  | Some m => match up (rup_fuel F) F m with None => true | Some _ => false end
  end.

(* ------------------------------------------------------------------------------------------ *)

Lemma aux_conflict : forall a m c u, agrees a m ->
  clause_status_aux m c u = CConflict -> u = None /\ clause_true a c = false.
Proof.
  induction c as [|l r IH]; simpl; intros u Ha H.
  - destruct u; [discriminate|auto].
  - destruct (lit_val m l) as [[|]|] eqn:E; try discriminate.
    + destruct (IH u Ha H) as [-> H2]. split; auto. rewrite (agrees_lit_val _ _ _ _ Ha E). auto.
    + destruct u as [l'|].
      * destruct (l =? l'); [|discriminate]. destruct (IH _ Ha H); discriminate.
      * destruct (IH _ Ha H); discriminate.
Qed.

Lemma aux_unit : forall a m c u l, agrees a m ->
  clause_status_aux m c u = CUnit l ->
  clause_true a (match u with Some l' => l' :: c | None => c end) = true -> lit_true a l = true.
Proof.
  induction c as [|x r IH]; simpl; intros u l Ha H T.
  - destruct u as [l'|]; [|discriminate]. injection H as <-. simpl in T. now rewrite orb_false_r in T.
  - destruct (lit_val m x) as [[|]|] eqn:E; try discriminate.
    + apply (IH u l Ha H). pose proof (agrees_lit_val _ _ _ _ Ha E) as Fx.
      destruct u as [l'|]; simpl in *; rewrite Fx in T; simpl in T; auto.
    + destruct u as [l'|].
      * destruct (Z.eqb_spec x l') as [->|N]; [|discriminate].
        apply (IH _ l Ha H). simpl in *. destruct (lit_true a l'); simpl in *; auto.
      * apply (IH _ l Ha H). simpl in *. auto.
Qed.

Lemma aux_unit_unassigned : forall m c u l,
  (forall l', u = Some l' -> lit_val m l' = None) ->
  clause_status_aux m c u = CUnit l -> lit_val m l = None.
Proof.
  induction c as [|x r IH]; simpl; intros u l Hu H.
  - destruct u as [l'|]; [|discriminate]. injection H as <-. auto.
  - destruct (lit_val m x) as [[|]|] eqn:E; try discriminate.
    + eapply IH; eauto.
    + destruct u as [l'|].
      * destruct (x =? l'); [|discriminate]. eapply IH; eauto.
      * eapply IH; [|eauto]. intros l' [= <-]. auto.
Qed.

Lemma status_conflict : forall a m c, agrees a m -> clause_status m c = CConflict -> clause_true a c = false.
Proof. intros a m c Ha H. now destruct (aux_conflict a m c None Ha H). Qed.

Lemma status_unit : forall a m c l, agrees a m -> clause_status m c = CUnit l ->
  clause_true a c = true -> lit_true a l = true.
Proof. intros a m c l Ha H T. exact (aux_unit a m c None l Ha H T). Qed.

Lemma status_unit_unassigned : forall m c l, clause_status m c = CUnit l -> lit_val m l = None.
Proof. intros m c l H. eapply aux_unit_unassigned; [|exact H]. intros; discriminate. Qed.

Lemma pass_sound : forall a F m ch, models a F -> agrees a m ->
  match pass F m ch with None => False | Some (m', _) => agrees a m' end.
Proof.
  induction F as [|c r IH]; simpl; intros m ch HF Ha; auto.
  apply models_cons in HF. destruct HF as [Hc Hr].
  destruct (clause_status m c) eqn:E; try (apply IH; auto).
  - rewrite (status_conflict a m c Ha E) in Hc. discriminate.
  - apply agrees_assign; auto. eapply status_unit; eauto.
Qed.

Lemma up_sound : forall a fuel F m, models a F -> agrees a m ->
  match up fuel F m with None => False | Some m' => agrees a m' end.
Proof.
  induction fuel as [|k IH]; simpl; intros F m HF Ha; auto.
  pose proof (pass_sound a F m false HF Ha) as P.
  destruct (pass F m false) as [[m' [|]]|]; auto.
  apply IH; auto.
Qed.

Lemma pass_ext : forall F m ch m' ch', pass F m ch = Some (m', ch') -> pext m m'.
Proof.
  induction F as [|c r IH]; simpl; intros m ch m' ch' H.
  - injection H as <- _. apply pext_refl.
  - destruct (clause_status m c) eqn:E; try discriminate; try solve [eapply IH; eauto].
    eapply pext_trans; [|eapply IH; eauto]. apply pext_assign. eapply status_unit_unassigned; eauto.
Qed.

Lemma up_ext : forall fuel F m m', up fuel F m = Some m' -> pext m m'.
Proof.
  induction fuel as [|k IH]; simpl; intros F m m' H.
  - injection H as <-. apply pext_refl.
  - destruct (pass F m false) as [[m1 [|]]|] eqn:E; try discriminate.
    + eapply pext_trans; [eapply pass_ext; eauto | eapply IH; eauto].
    + injection H as <-. eapply pass_ext; eauto.
Qed.

Lemma assume_neg_sound : forall a C m, agrees a m -> clause_true a C = false ->
  match assume_neg C m with None => False | Some m' => agrees a m' end.
Proof.
  induction C as [|l r IH]; simpl; intros m Ha H; auto.
  apply orb_false_iff in H. destruct H as [Hl Hr].
  destruct (Z.eqb_spec l 0) as [->|N]; [apply IH; auto|].
  destruct (lit_val m l) as [[|]|] eqn:E.
  - rewrite (agrees_lit_val _ _ _ _ Ha E) in Hl. discriminate.
  - apply IH; auto.
  - apply IH; auto. apply agrees_assign; auto. rewrite lit_true_opp; auto. now rewrite Hl.
Qed.

Theorem rup_sound : forall F C, rup F C = true -> entails F C.
Proof.
  unfold rup, entails. intros F C H a HF.
  destruct (clause_true a C) eqn:T; auto. exfalso.
  pose proof (assume_neg_sound a C pempty (agrees_empty a) T) as A.
  destruct (assume_neg C pempty) as [m|]; auto.
  pose proof (up_sound a (rup_fuel F) F m HF A) as U.
  destruct (up (rup_fuel F) F m); [discriminate|auto].
Qed.

(* a database that only grows: every accepted clause stays entailed by the *original* clauses *)
Fixpoint rup_chain (F : cnf) (Cs : list clause) : bool :=
  match Cs with
  | [] => true
  | C :: r => rup F C && rup_chain (C :: F) r
  end.

Theorem rup_chain_sound : forall Cs F, rup_chain F Cs = true -> forall C, In C Cs -> entails F C.
Proof.
  induction Cs as [|D r IH]; simpl; intros F H C HC; [contradiction|].
  apply andb_true_iff in H. destruct H as [H1 H2]. apply rup_sound in H1.
  destruct HC as [<-|HC]; auto.
  eapply entails_cut; eauto.
Qed.

(* non-vacuity *)
Example rup_example : rup [[1; 2]; [-1; 3]; [-2; 3]; [-3; 4]] [4] = true /\ rup [[1; 2]; [-1; 3]] [3] = false.
Proof. split; vm_compute; reflexivity. Qed.
