(* The resolution proof printed by (get-proof) as data, and its verified checker (C10).

   Printed format (/repo/src/smtsolvers/ResolutionProof.cc:139 ResolutionProof::printSMT2):
     (proof
     (let (cls_N <clause>)                      leaf: printed clause, no derivation
     ; <clause>                                 comment line: the derived clause ("-" = empty clause)
     (let (cls_M (res (res cls_A cls_B p) cls_C q))   derivation chain, pivots are atoms
     ...
     cls_F                                      the final reference
     ))) :core ( cls_.. ) )
   The reader (lib/sattrace.py, trusted glue) numbers the printed atoms and hands over literals as integers.

   [check_proof leaves P]: every name is bound exactly once and before use; every chain step resolves on a
   pivot occurring with opposite signs in its two premises; the clause stated for a derived name equals the
   resolvent of its chain (as a set); every leaf is one of the admitted clauses [leaves] (as a set); the
   :core names are leaves; the final reference is bound, and bound to the empty clause.
   [check_proof_sound]: check_proof leaves P = true -> entails leaves [] (the admitted leaves are jointly
   unsatisfiable). *)
From Coq Require Import ZArith NArith List Bool Lia PArith FMapPositive.
From OsmtV.Sat Require Import PropLogic ResChain.
Import ListNotations.
Local Open Scope Z_scope.

Definition name := N.

Inductive pstep :=
| PLeaf (n : name) (c : clause)
| PRes (n : name) (stated : clause) (first : name) (chain : list (name * lit)).

Record proof := mkProof { p_steps : list pstep ; p_final : name ; p_core : list name }.

Inductive perr :=
| ERebound (n : name)               (* name bound twice *)
| EUnbound (n user : name)          (* n is used in the derivation of [user] but not bound before *)
| EBadPivot (n : name) (k : nat)    (* step k of the chain of n: pivot not with opposite signs in the premises *)
| EWrongResolvent (n : name)        (* the stated clause of n differs from the resolvent of its chain *)
| ELeafNotAdmitted (n : name)       (* leaf clause is not among the admitted ones *)
| ECoreNotLeaf (n : name)           (* a :core name that is not a leaf of the proof *)
| EFinalUnbound (n : name)          (* the final reference is not bound *)
| EFinalNotEmpty (n : name).        (* the final reference is bound to a non-empty clause *)

Inductive res (A : Type) := Ok (a : A) | Err (e : perr).
Arguments Ok {A} a. Arguments Err {A} e.

Definition env := PositiveMap.t clause.
Definition key (n : name) : positive := N.succ_pos n.
Definition lookup (e : env) (n : name) : option clause := PositiveMap.find (key n) e.
Definition bind (e : env) (n : name) (c : clause) : env := PositiveMap.add (key n) c e.

Fixpoint run_chain (e : env) (n : name) (cur : clause) (ch : list (name * lit)) (k : nat) : res clause :=
  match ch with
  | [] => Ok cur
  | (cn, p) :: r =>
    match lookup e cn with
    | None => Err (EUnbound cn n)
    | Some c => match res_step cur c p with
                | None => Err (EBadPivot n k)
                | Some cur' => run_chain e n cur' r (S k)
                end
    end
  end.

Definition is_name (n : name) (m : name) : bool := N.eqb n m.

(* state: environment and the names of the leaves met so far *)
Fixpoint check_steps (leaves : cnf) (e : env) (lf : list name) (steps : list pstep) : res (env * list name) :=
  match steps with
  | [] => Ok (e, lf)
  | PLeaf n c :: r =>
    match lookup e n with
    | Some _ => Err (ERebound n)
    | None => if existsb (clause_eqb c) leaves then check_steps leaves (bind e n c) (n :: lf) r
              else Err (ELeafNotAdmitted n)
    end
  | PRes n stated first ch :: r =>
    match lookup e n with
    | Some _ => Err (ERebound n)
    | None =>
      match lookup e first with
      | None => Err (EUnbound first n)
      | Some c0 =>
        match run_chain e n c0 ch 0 with
        | Err x => Err x
        | Ok cl => if clause_eqb cl stated then check_steps leaves (bind e n stated) lf r
                   else Err (EWrongResolvent n)
        end
      end
    end
  end.

Fixpoint check_core (lf : list name) (core : list name) : option perr :=
  match core with
  | [] => None
  | n :: r => if existsb (is_name n) lf then check_core lf r else Some (ECoreNotLeaf n)
  end.

Definition check_proof_err (leaves : cnf) (P : proof) : option perr :=
  match check_steps leaves (PositiveMap.empty clause) [] (p_steps P) with
  | Err x => Some x
  | Ok (e, lf) =>
    match lookup e (p_final P) with
    | None => Some (EFinalUnbound (p_final P))
    | Some [] => check_core lf (p_core P)
    | Some (_ :: _) => Some (EFinalNotEmpty (p_final P))
    end
  end.

Definition check_proof (leaves : cnf) (P : proof) : bool :=
  match check_proof_err leaves P with None => true | Some _ => false end.

(* the leaf clauses of a proof; checking against them = the structural part only *)
Fixpoint proof_leaves (steps : list pstep) : cnf :=
  match steps with
  | [] => []
  | PLeaf _ c :: r => c :: proof_leaves r
  | PRes _ _ _ _ :: r => proof_leaves r
  end.
Definition check_struct (P : proof) : bool := check_proof (proof_leaves (p_steps P)) P.

(* ------------------------------------------------------------------------------------------ *)

Definition env_ok (leaves : cnf) (e : env) : Prop := forall n c, lookup e n = Some c -> entails leaves c.

Lemma key_inj : forall n m, key n = key m -> n = m.
Proof. unfold key; intros n m H. apply (f_equal Pos.pred_N) in H. now rewrite !N.pos_pred_succ in H. Qed.

Lemma lookup_bind : forall e n c m, lookup (bind e n c) m = if N.eqb m n then Some c else lookup e m.
Proof.
  unfold lookup, bind; intros e n c m. destruct (N.eqb_spec m n) as [->|N0].
  - apply PositiveMap.gss.
  - apply PositiveMap.gso. intros H. apply key_inj in H. auto.
Qed.

Lemma env_ok_bind : forall leaves e n c, env_ok leaves e -> entails leaves c -> env_ok leaves (bind e n c).
Proof.
  intros leaves e n c He Hc m d. rewrite lookup_bind. destruct (N.eqb m n).
  - intros [= <-]. auto.
  - apply He.
Qed.

Lemma run_chain_sound : forall leaves e n ch cur k r,
  env_ok leaves e -> entails leaves cur -> run_chain e n cur ch k = Ok r -> entails leaves r.
Proof.
  induction ch as [|[cn p] rest IH]; simpl; intros cur k r He Hc H.
  - injection H as <-. auto.
  - destruct (lookup e cn) as [c|] eqn:L; [|discriminate].
    destruct (res_step cur c p) as [cur'|] eqn:RS; [|discriminate].
    apply (IH cur' (S k) r He); auto.
    intros a Ha. eapply res_step_sound; eauto. eapply He; eauto.
Qed.

Lemma check_steps_sound : forall leaves steps e lf e' lf',
  env_ok leaves e -> check_steps leaves e lf steps = Ok (e', lf') -> env_ok leaves e'.
Proof.
  induction steps as [|s rest IH]; simpl; intros e lf e' lf' He H.
  - injection H as <- _. auto.
  - destruct s as [n c | n stated first ch].
    + destruct (lookup e n); [discriminate|].
      destruct (existsb (clause_eqb c) leaves) eqn:E; [|discriminate].
      eapply IH; [|exact H]. apply env_ok_bind; auto.
      apply existsb_exists in E. destruct E as [d [Hd E]].
      intros a Ha. rewrite (clause_eqb_true a c d E). apply Ha; auto.
    + destruct (lookup e n); [discriminate|].
      destruct (lookup e first) as [c0|] eqn:L0; [|discriminate].
      destruct (run_chain e n c0 ch 0) as [cl|] eqn:R; [|discriminate].
      destruct (clause_eqb cl stated) eqn:E; [|discriminate].
      eapply IH; [|exact H]. apply env_ok_bind; auto.
      intros a Ha. rewrite <- (clause_eqb_true a cl stated E).
      eapply run_chain_sound; eauto.
Qed.

Theorem check_proof_sound : forall leaves P, check_proof leaves P = true -> entails leaves [].
Proof.
  unfold check_proof, check_proof_err; intros leaves P H.
  destruct (check_steps leaves (PositiveMap.empty clause) [] (p_steps P)) as [[e lf]|] eqn:CS; [|discriminate].
  assert (He : env_ok leaves e).
  { eapply check_steps_sound; [|exact CS]. intros n c L. unfold lookup in L.
    rewrite PositiveMap.gempty in L. discriminate. }
  destruct (lookup e (p_final P)) as [[|x r]|] eqn:L; try discriminate.
  eapply He; eauto.
Qed.

Corollary check_struct_sound : forall P, check_struct P = true -> unsat (proof_leaves (p_steps P)).
Proof. intros P H. apply entails_nil_unsat. now apply check_proof_sound with (P := P). Qed.

(* what an accepted proof looks like: names bound before use and once (used by the "closed" half of C10) *)
Lemma check_steps_binds : forall leaves steps e lf e' lf' n,
  check_steps leaves e lf steps = Ok (e', lf') -> lookup e n <> None -> lookup e' n <> None.
Proof.
  induction steps as [|s rest IH]; simpl; intros e lf e' lf' n H Hn.
  - injection H as <- _. auto.
  - destruct s as [m c | m stated first ch].
    + destruct (lookup e m) eqn:Lm; [discriminate|].
      destruct (existsb (clause_eqb c) leaves); [|discriminate].
      eapply IH; [exact H|]. rewrite lookup_bind. destruct (N.eqb n m); [discriminate|auto].
    + destruct (lookup e m) eqn:Lm; [discriminate|].
      destruct (lookup e first); [|discriminate].
      destruct (run_chain e m c ch 0); [|discriminate].
      destruct (clause_eqb a stated); [|discriminate].
      eapply IH; [exact H|]. rewrite lookup_bind. destruct (N.eqb n m); [discriminate|auto].
Qed.

Theorem check_proof_final_bound : forall leaves P, check_proof leaves P = true ->
  exists e lf, check_steps leaves (PositiveMap.empty clause) [] (p_steps P) = Ok (e, lf) /\ lookup e (p_final P) = Some [].
Proof.
  unfold check_proof, check_proof_err; intros leaves P H.
  destruct (check_steps leaves (PositiveMap.empty clause) [] (p_steps P)) as [[e lf]|] eqn:S; [|discriminate].
  exists e, lf; split; auto.
  destruct (lookup e (p_final P)) as [[|x r]|]; try discriminate; auto.
Qed.

(* non-vacuity: the shape printed for a two-frame refutation, with the final reference as the solver
   should print it (accepted) and as it is printed (cls_0, rejected with EFinalUnbound) *)
Definition ex_steps : list pstep :=
  [ PLeaf 21%N [-1; 2]; PLeaf 46%N [3; 1]; PLeaf 9%N [4; -3];
    PRes 50%N [2; 4] 9%N [(46%N, 3); (21%N, 1)];
    PLeaf 35%N [-2]; PLeaf 60%N [-4];
    PRes 4294967295%N [] 35%N [(50%N, 2); (60%N, 4)] ].
Example check_proof_example :
  check_struct (mkProof ex_steps 4294967295%N [21%N; 9%N]) = true
  /\ check_proof_err (proof_leaves ex_steps) (mkProof ex_steps 0%N [21%N; 9%N]) = Some (EFinalUnbound 0%N)
  /\ check_proof_err [[-1; 2]; [3; 1]; [4; -3]; [-2]] (mkProof ex_steps 4294967295%N []) = Some (ELeafNotAdmitted 60%N).
Proof. repeat split; vm_compute; reflexivity. Qed.
