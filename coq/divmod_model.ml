
type comparison =
| Eq
| Lt
| Gt

(** val compOpp : comparison -> comparison **)

let compOpp = function
| Eq -> Eq
| Lt -> Gt
| Gt -> Lt

type positive =
| XI of positive
| XO of positive
| XH

type z =
| Z0
| Zpos of positive
| Zneg of positive

module Pos =
 struct
  (** val succ : positive -> positive **)

  let rec succ = function
  | XI p -> XO (succ p)
  | XO p -> XI p
  | XH -> XO XH

  (** val add : positive -> positive -> positive **)

  let rec add x y =
    match x with
    | XI p ->
      (match y with
       | XI q0 -> XO (add_carry p q0)
       | XO q0 -> XI (add p q0)
       | XH -> XO (succ p))
    | XO p ->
      (match y with
       | XI q0 -> XI (add p q0)
       | XO q0 -> XO (add p q0)
       | XH -> XI p)
    | XH -> (match y with
             | XI q0 -> XO (succ q0)
             | XO q0 -> XI q0
             | XH -> XO XH)

  (** val add_carry : positive -> positive -> positive **)

  and add_carry x y =
    match x with
    | XI p ->
      (match y with
       | XI q0 -> XI (add_carry p q0)
       | XO q0 -> XO (add_carry p q0)
       | XH -> XI (succ p))
    | XO p ->
      (match y with
       | XI q0 -> XO (add_carry p q0)
       | XO q0 -> XI (add p q0)
       | XH -> XO (succ p))
    | XH ->
      (match y with
       | XI q0 -> XI (succ q0)
       | XO q0 -> XO (succ q0)
       | XH -> XI XH)

  (** val pred_double : positive -> positive **)

  let rec pred_double = function
  | XI p -> XI (XO p)
  | XO p -> XI (pred_double p)
  | XH -> XH

  (** val mul : positive -> positive -> positive **)

  let rec mul x y =
    match x with
    | XI p -> add y (XO (mul p y))
    | XO p -> XO (mul p y)
    | XH -> y

  (** val compare_cont : comparison -> positive -> positive -> comparison **)

  let rec compare_cont r x y =
    match x with
    | XI p ->
      (match y with
       | XI q0 -> compare_cont r p q0
       | XO q0 -> compare_cont Gt p q0
       | XH -> Gt)
    | XO p ->
      (match y with
       | XI q0 -> compare_cont Lt p q0
       | XO q0 -> compare_cont r p q0
       | XH -> Gt)
    | XH -> (match y with
             | XH -> r
             | _ -> Lt)

  (** val compare : positive -> positive -> comparison **)

  let compare =
    compare_cont Eq

  (** val eqb : positive -> positive -> bool **)

  let rec eqb p q0 =
    match p with
    | XI p0 -> (match q0 with
                | XI q1 -> eqb p0 q1
                | _ -> false)
    | XO p0 -> (match q0 with
                | XO q1 -> eqb p0 q1
                | _ -> false)
    | XH -> (match q0 with
             | XH -> true
             | _ -> false)
 end

module Z =
 struct
  (** val double : z -> z **)

  let double = function
  | Z0 -> Z0
  | Zpos p -> Zpos (XO p)
  | Zneg p -> Zneg (XO p)

  (** val succ_double : z -> z **)

  let succ_double = function
  | Z0 -> Zpos XH
  | Zpos p -> Zpos (XI p)
  | Zneg p -> Zneg (Pos.pred_double p)

  (** val pred_double : z -> z **)

  let pred_double = function
  | Z0 -> Zneg XH
  | Zpos p -> Zpos (Pos.pred_double p)
  | Zneg p -> Zneg (XI p)

  (** val pos_sub : positive -> positive -> z **)

  let rec pos_sub x y =
    match x with
    | XI p ->
      (match y with
       | XI q0 -> double (pos_sub p q0)
       | XO q0 -> succ_double (pos_sub p q0)
       | XH -> Zpos (XO p))
    | XO p ->
      (match y with
       | XI q0 -> pred_double (pos_sub p q0)
       | XO q0 -> double (pos_sub p q0)
       | XH -> Zpos (Pos.pred_double p))
    | XH ->
      (match y with
       | XI q0 -> Zneg (XO q0)
       | XO q0 -> Zneg (Pos.pred_double q0)
       | XH -> Z0)

  (** val add : z -> z -> z **)

  let add x y =
    match x with
    | Z0 -> y
    | Zpos x' ->
      (match y with
       | Z0 -> x
       | Zpos y' -> Zpos (Pos.add x' y')
       | Zneg y' -> pos_sub x' y')
    | Zneg x' ->
      (match y with
       | Z0 -> x
       | Zpos y' -> pos_sub y' x'
       | Zneg y' -> Zneg (Pos.add x' y'))

  (** val opp : z -> z **)

  let opp = function
  | Z0 -> Z0
  | Zpos x0 -> Zneg x0
  | Zneg x0 -> Zpos x0

  (** val sub : z -> z -> z **)

  let sub m n =
    add m (opp n)

  (** val mul : z -> z -> z **)

  let mul x y =
    match x with
    | Z0 -> Z0
    | Zpos x' ->
      (match y with
       | Z0 -> Z0
       | Zpos y' -> Zpos (Pos.mul x' y')
       | Zneg y' -> Zneg (Pos.mul x' y'))
    | Zneg x' ->
      (match y with
       | Z0 -> Z0
       | Zpos y' -> Zneg (Pos.mul x' y')
       | Zneg y' -> Zpos (Pos.mul x' y'))

  (** val compare : z -> z -> comparison **)

  let compare x y =
    match x with
    | Z0 -> (match y with
             | Z0 -> Eq
             | Zpos _ -> Lt
             | Zneg _ -> Gt)
    | Zpos x' -> (match y with
                  | Zpos y' -> Pos.compare x' y'
                  | _ -> Gt)
    | Zneg x' ->
      (match y with
       | Zneg y' -> compOpp (Pos.compare x' y')
       | _ -> Lt)

  (** val leb : z -> z -> bool **)

  let leb x y =
    match compare x y with
    | Gt -> false
    | _ -> true

  (** val ltb : z -> z -> bool **)

  let ltb x y =
    match compare x y with
    | Lt -> true
    | _ -> false

  (** val eqb : z -> z -> bool **)

  let eqb x y =
    match x with
    | Z0 -> (match y with
             | Z0 -> true
             | _ -> false)
    | Zpos p -> (match y with
                 | Zpos q0 -> Pos.eqb p q0
                 | _ -> false)
    | Zneg p -> (match y with
                 | Zneg q0 -> Pos.eqb p q0
                 | _ -> false)

  (** val abs : z -> z **)

  let abs = function
  | Zneg p -> Zpos p
  | x -> x

  (** val pos_div_eucl : positive -> z -> z * z **)

  let rec pos_div_eucl a b =
    match a with
    | XI a' ->
      let (q0, r) = pos_div_eucl a' b in
      let r' = add (mul (Zpos (XO XH)) r) (Zpos XH) in
      if ltb r' b
      then ((mul (Zpos (XO XH)) q0), r')
      else ((add (mul (Zpos (XO XH)) q0) (Zpos XH)), (sub r' b))
    | XO a' ->
      let (q0, r) = pos_div_eucl a' b in
      let r' = mul (Zpos (XO XH)) r in
      if ltb r' b
      then ((mul (Zpos (XO XH)) q0), r')
      else ((add (mul (Zpos (XO XH)) q0) (Zpos XH)), (sub r' b))
    | XH -> if leb (Zpos (XO XH)) b then (Z0, (Zpos XH)) else ((Zpos XH), Z0)

  (** val div_eucl : z -> z -> z * z **)

  let div_eucl a b =
    match a with
    | Z0 -> (Z0, Z0)
    | Zpos a' ->
      (match b with
       | Z0 -> (Z0, a)
       | Zpos _ -> pos_div_eucl a' b
       | Zneg b' ->
         let (q0, r) = pos_div_eucl a' (Zpos b') in
         (match r with
          | Z0 -> ((opp q0), Z0)
          | _ -> ((opp (add q0 (Zpos XH))), (add b r))))
    | Zneg a' ->
      (match b with
       | Z0 -> (Z0, a)
       | Zpos _ ->
         let (q0, r) = pos_div_eucl a' b in
         (match r with
          | Z0 -> ((opp q0), Z0)
          | _ -> ((opp (add q0 (Zpos XH))), (sub b r)))
       | Zneg b' -> let (q0, r) = pos_div_eucl a' (Zpos b') in (q0, (opp r)))

  (** val div : z -> z -> z **)

  let div a b =
    let (q0, _) = div_eucl a b in q0

  (** val modulo : z -> z -> z **)

  let modulo a b =
    let (_, r) = div_eucl a b in r
 end

type q = { qnum : z; qden : positive }

(** val qmult : q -> q -> q **)

let qmult x y =
  { qnum = (Z.mul x.qnum y.qnum); qden = (Pos.mul x.qden y.qden) }

(** val qopp : q -> q **)

let qopp x =
  { qnum = (Z.opp x.qnum); qden = x.qden }

(** val qinv : q -> q **)

let qinv x =
  match x.qnum with
  | Z0 -> { qnum = Z0; qden = XH }
  | Zpos p -> { qnum = (Zpos x.qden); qden = p }
  | Zneg p -> { qnum = (Zneg x.qden); qden = p }

(** val qdiv : q -> q -> q **)

let qdiv x y =
  qmult x (qinv y)

(** val qfloor : q -> z **)

let qfloor x =
  let { qnum = n; qden = d } = x in Z.div n (Zpos d)

(** val qceiling : q -> z **)

let qceiling x =
  Z.opp (qfloor (qopp x))

(** val q_floor : q -> z **)

let q_floor =
  qfloor

(** val q_ceil : q -> z **)

let q_ceil =
  qceiling

(** val real_div : z -> z -> q **)

let real_div n d =
  qdiv { qnum = n; qden = XH } { qnum = d; qden = XH }

(** val fold_div : z -> z -> z option **)

let fold_div n d =
  if Z.eqb d Z0
  then None
  else if Z.eqb d (Zpos XH)
       then Some n
       else if Z.eqb d (Zneg XH)
            then Some (Z.opp n)
            else Some
                   (if Z.ltb Z0 d
                    then q_floor (real_div n d)
                    else q_ceil (real_div n d))

(** val fold_mod : z -> z -> z option **)

let fold_mod n d =
  if Z.eqb d Z0
  then None
  else if (||) (Z.eqb d (Zpos XH)) (Z.eqb d (Zneg XH))
       then Some Z0
       else let q0 =
              if Z.ltb Z0 d
              then q_floor (real_div n d)
              else q_ceil (real_div n d)
            in
            Some (Z.sub n (Z.mul q0 d))

(** val smt_div : z -> z -> z **)

let smt_div n d =
  if Z.ltb Z0 d then Z.div n d else Z.opp (Z.div n (Z.opp d))

(** val smt_mod : z -> z -> z **)

let smt_mod n d =
  Z.modulo n (Z.abs d)
