(* C23 — runs of the executable are reproducible.  Theorems only (Repro/*.v).

   FULL STATEMENT (properties.jsonl): running the opensmt executable twice on the same input with the same options
   (including the random seed) yields byte-identical standard output and the same exit status, independently of
   address-space layout.

   PARTIAL.  A Gallina function cannot be irreproducible, so nothing is proved about "the solver as a Coq function".
   What is proved instead:
   (1) about an abstract machine in which the address-space layout, the external entropy sources and the content of
       uninitialised memory are explicit PARAMETERS of a run: every program that is free of the leaking primitives
       (order comparison / integer cast / printing of addresses, iteration over a container ordered or hashed by
       address, uninitialised reads, entropy reads) has the same standard output and exit status under all
       environments with injective layouts (reproducibility_partial, reproducible_runs), for unbounded programs;
       and the side condition is necessary, primitive by primitive (side_condition_necessary);
   (2) about the seeded generator drand/irand transcribed from src/common/Random.h with REGENERATED constants: the
       state never becomes 0, every intermediate value is an integer below 2^53 (so the double arithmetic of the
       C++ code is exact), irand stays in range; in the machine the generator's state after a run does not depend
       on the environment (reproducible_runs: final_seed);
   (3) about the source text: the list of all syntactic occurrences of the leaking primitives in src, REGENERATED on
       every run by translate/repro_facts.py, contains no fact that the rules of Repro/ReproFacts.v classify as
       leaking, except recorded known findings (scan_has_no_unexplained_leak).
   NOT proved: that the C++ program is an instance of the abstract machine (the scan is syntactic: pointer comparisons
   with < outside sort comparators, reads of uninitialised memory, undefined behaviour, and the determinism of
   libstdc++ / glibc / GMP for a fixed version are outside it).  These are searched by running the executable under
   perturbed layouts (checks/C23.py) — testing, labelled as such. *)
From Coq Require Import ZArith List Bool String.
From OsmtV.Repro Require Import Gen_Random Prng Machine NonInterference Witnesses ReproFacts Gen_ReproFacts FactsProofs.
Import ListNotations.
Open Scope Z_scope.

(* ---- (1) the abstract machine ---- *)

Theorem reproducibility_partial : forall c, safe c = true ->
  forall E1 E2, injective (layout E1) -> injective (layout E2) ->
  forall fuel sd, run E1 fuel c sd = run E2 fuel c sd.
Proof. exact noninterference_lemma. Qed.
Print Assumptions reproducibility_partial.

(* fuel-free: a run that ends (exit, normal end, type error) under one environment ends in the same way, with the same
   output and the same generator state, under every other one; out-of-fuel is excluded by `ends` *)
Theorem reproducible_runs : forall c, safe c = true ->
  forall E1 E2, injective (layout E1) -> injective (layout E2) ->
  forall sd o stdout final_seed, ends E1 c sd o stdout final_seed -> ends E2 c sd o stdout final_seed.
Proof. exact reproducible_lemma. Qed.
Print Assumptions reproducible_runs.

(* `ends` is a function of (environment, program, seed): the amount of fuel does not matter *)
Theorem ended_run_unique : forall E c sd o1 o2 out1 out2 fs1 fs2,
  ends E c sd o1 out1 fs1 -> ends E c sd o2 out2 fs2 -> o1 = o2 /\ out1 = out2 /\ fs1 = fs2.
Proof. exact ends_deterministic_lemma. Qed.
Print Assumptions ended_run_unique.

Theorem safe_iff_no_leaks : forall c, safe c = true <-> leaks c = [].
Proof. exact safe_iff_no_leaks_lemma. Qed.
Print Assumptions safe_iff_no_leaks.

(* the statement without the side condition is refuted for every single kind of leaking primitive: a program whose
   only leaking construct is of kind k, and two environments with injective layouts, with different observations *)
Theorem side_condition_necessary : forall k : leak, leaks (witness k) = [k] /\ differs (witness k).
Proof. exact safe_condition_necessary_lemma. Qed.
Print Assumptions side_condition_necessary.

Theorem reproducibility_without_side_condition_refuted :
  exists c E1 E2 fuel sd, injective (layout E1) /\ injective (layout E2) /\
    fst (run E1 fuel c sd) <> OutOfFuel /\ fst (run E2 fuel c sd) <> OutOfFuel /\ run E1 fuel c sd <> run E2 fuel c sd.
Proof.
  destruct (safe_condition_necessary_lemma LIterByAddress) as [_ [fuel [H1 [H2 H3]]]].
  exists (witness LIterByAddress), envA, envB, fuel, default_seed.
  split; [exact lay_up_inj|]. split; [exact lay_down_inj|]. split; [exact H1|]. split; [exact H2|exact H3].
Qed.
Print Assumptions reproducibility_without_side_condition_refuted.

(* ---- (2) the seeded generator ---- *)

Theorem drand_seed_never_zero : forall s, seed_ok s -> seed_ok (next_seed s).
Proof. exact next_seed_ok_lemma. Qed.
Print Assumptions drand_seed_never_zero.

Theorem drand_exact_in_double : forall s, seed_ok s -> 0 < s * rnd_mult < 2 ^ 53 /\ 0 <= drand_q s < 2 ^ 31.
Proof. exact drand_double_exact_lemma. Qed.
Print Assumptions drand_exact_in_double.

Theorem irand_in_range : forall s size, seed_ok s -> 0 < size -> 0 <= irand s size < size.
Proof. exact irand_range_lemma. Qed.
Print Assumptions irand_in_range.

Theorem prng_stream_stays_valid : forall n s, seed_ok s -> Forall seed_ok (stream n s) /\ List.length (stream n s) = n.
Proof. intros n s H. split; [exact (stream_ok_lemma n s H)|exact (stream_length n s)]. Qed.
Print Assumptions prng_stream_stays_valid.

(* ---- (3) the regenerated scan of the source text ---- *)

Theorem scan_has_no_unexplained_leak : forallb fact_ok facts = true.
Proof. exact scan_ok_lemma. Qed.
Print Assumptions scan_has_no_unexplained_leak.

Theorem every_fact_benign_or_known : forall f, In f facts -> (exists r, classify f = Benign r) \/ In (fact_key f) known_leaks.
Proof. exact scan_explained_lemma. Qed.
Print Assumptions every_fact_benign_or_known.

(* ---- non-vacuity ---- *)

Example c23_machine_example : safe ex_prog = true /\
  run envA 60 ex_prog default_seed = (Exited 7, [100; 200; 300; 1; 0; 10; 1; 300; 101; 202; irand default_seed 1000; irand (next_seed default_seed) 1000]) /\
  run envB 60 ex_prog default_seed = run envA 60 ex_prog default_seed /\
  injective (layout envA) /\ injective (layout envB) /\ layout envA 1%nat <> layout envB 1%nat.
Proof.
  destruct ex_prog_runs as [H1 [H2 H3]]. split; [exact H1|]. split; [exact H2|]. split; [exact H3|].
  split; [exact lay_up_inj|]. split; [exact lay_down_inj|]. vm_compute. discriminate.
Qed.

Example c23_generator_example : seed_ok default_seed /\ stream 3 default_seed = [ next_seed default_seed; next_seed (next_seed default_seed); next_seed (next_seed (next_seed default_seed)) ] /\
  next_seed default_seed <> default_seed.
Proof. split; [exact default_seed_ok_lemma|]. split; [reflexivity|]. vm_compute. discriminate. Qed.

Example c23_scan_example : (50 <= files_scanned)%nat /\ facts <> [] /\
  existsb (fun f => match f_kind f with KOrderedPtrContainer => has AMembershipOnly f | _ => false end) facts = true /\
  existsb (fun f => match f_kind f with KEntropyRoot => has ATraced f | _ => false end) facts = true /\
  existsb (fun f => match f_kind f with KLibcSrand => has ASeedConfig f | _ => false end) facts = true.
Proof. exact scan_nonempty_lemma. Qed.
