(* C07 — minimal unsat cores are irreducible.  Theorems only; the model is Core/MinimizeNaive.v
   (UnsatCoreBuilder::minimize / Minimize::perform / Minimize::performNaive written literally over
   an abstract element type, the inner solver being an assertion stack whose check() is the function
   [chk]), the proofs Core/MinimizeProofs.v.

   [sat] is any monotone satisfiability notion on lists of elements (a subset of a satisfiable list is
   satisfiable); [chk_spec] says that the inner solver is correct (true = satisfiable).  That the inner
   solver answered correctly is established per run by the check (C01/C02 style), not here. *)
From Coq Require Import List Bool Arith.
From OsmtV.Core Require Import MinimizeNaive MinimizeProofs.
From OsmtV.Sem Require Syntax Eval.
Import ListNotations.

(* The literal loop over the inner solver's assertion stack computes the plain deletion filter, and the
   log of inner checks it produces is: for the i-th target, background ++ kept so far ++ later targets. *)
Theorem c07_loop_is_deletion_filter : forall (elt : Type) (chk : list elt -> bool) bg targets,
  performNaive_log chk bg targets = (naive_fun chk bg [] targets, naive_fun_log chk bg [] targets).
Proof. exact performNaive_log_eq. Qed.
Print Assumptions c07_loop_is_deletion_filter.

(* Irreducibility, positional form (no decidable equality needed; also right when an element occurs
   twice): the result is unsatisfiable together with the background and dropping any one position
   makes it satisfiable. *)
Theorem c07_irreducible : forall (elt : Type) (sat : list elt -> Prop),
  (forall S T, incl S T -> sat T -> sat S) ->
  forall chk : list elt -> bool, (forall S, chk S = true <-> sat S) ->
  forall bg targets, ~ sat (bg ++ targets) ->
  let R := performNaive chk bg targets in
  ~ sat (bg ++ R) /\ forall R1 r R2, R = R1 ++ r :: R2 -> sat (bg ++ R1 ++ R2).
Proof. exact irreducible_pos. Qed.
Print Assumptions c07_irreducible.

(* The same with removal of an element (first occurrence) for element types with decidable equality. *)
Theorem c07_irreducible_remove : forall (elt : Type) (sat : list elt -> Prop),
  (forall S T, incl S T -> sat T -> sat S) ->
  forall chk : list elt -> bool, (forall S, chk S = true <-> sat S) ->
  forall eqb : elt -> elt -> bool, (forall x y, eqb x y = true <-> x = y) ->
  forall bg targets, ~ sat (bg ++ targets) ->
  let R := performNaive chk bg targets in
  ~ sat (bg ++ R) /\ forall r, In r R -> sat (bg ++ remove_one eqb r R).
Proof. exact irreducible_remove. Qed.
Print Assumptions c07_irreducible_remove.

(* Hence every proper sub-selection of the reported core is satisfiable with the background. *)
Theorem c07_minimal : forall (elt : Type) (sat : list elt -> Prop),
  (forall S T, incl S T -> sat T -> sat S) ->
  forall chk : list elt -> bool, (forall S, chk S = true <-> sat S) ->
  forall bg targets, ~ sat (bg ++ targets) ->
  forall R', sublist R' (performNaive chk bg targets) -> R' <> performNaive chk bg targets -> sat (bg ++ R').
Proof. exact minimal_proper. Qed.
Print Assumptions c07_minimal.

(* The result is a sublist of the targets, order kept — for ANY inner solver, correct or not. *)
Theorem c07_subset : forall (elt : Type) (chk : list elt -> bool) bg targets,
  sublist (performNaive chk bg targets) targets.
Proof. exact performNaive_sublist. Qed.
Print Assumptions c07_subset.

(* minimize with :print-cores-full: the printed formulas alone. *)
Theorem c07_minimize_full : forall (elt : Type) (sat : list elt -> Prop),
  (forall S T, incl S T -> sat T -> sat S) ->
  forall chk : list elt -> bool, (forall S, chk S = true <-> sat S) ->
  forall contains allTerms namedTerms current, ~ sat allTerms ->
  let R := minimize chk contains true allTerms namedTerms current in
  ~ sat R /\ forall R1 r R2, R = R1 ++ r :: R2 -> sat (R1 ++ R2).
Proof. exact minimize_full. Qed.
Print Assumptions c07_minimize_full.

(* minimize in named mode, read at the level of assertions (term, optional name): when the name table
   separates named from unnamed assertions (contains(t) false for the term of every unnamed current
   assertion, true for every named one) the background is exactly the list of all unnamed current
   assertions and the property holds with respect to it. *)
Theorem c07_minimize_named : forall (elt : Type) (sat : list elt -> Prop),
  (forall S T, incl S T -> sat T -> sat S) ->
  forall chk : list elt -> bool, (forall S, chk S = true <-> sat S) ->
  forall contains (A : list (elt * option nat)) allTerms namedTerms,
  (forall t, In t (unnamed_terms A) -> contains t = false) ->
  (forall t, In t (named_terms A) -> contains t = true) ->
  ~ sat (unnamed_terms A ++ namedTerms) ->
  let R := minimize chk contains false allTerms namedTerms (map fst A) in
  ~ sat (unnamed_terms A ++ R) /\ forall R1 r R2, R = R1 ++ r :: R2 -> sat (unnamed_terms A ++ R1 ++ R2).
Proof. exact minimize_named. Qed.
Print Assumptions c07_minimize_named.

(* Without the first separation hypothesis the statement is FALSE for the code as it is: a term asserted
   both unnamed and named is left out of the background (contains(term) is keyed by the term), so its
   named copy is reported although the unnamed copy makes it redundant.  Witness over the concrete
   world cx_* (constraints on x in {0..3}; cx_chk is a correct oracle):
     (assert (>= x 2)) (assert (! (>= x 2) :named n10)) (assert (! (<= x 1) :named n11)). *)
Theorem c07_named_also_unnamed_refuted :
  (forall S, cx_chk S = true <-> cx_sat S) /\
  exists (A : list (nat * option nat)) contains namedTerms R1 r R2,
    (forall t, In t (named_terms A) -> contains t = true) /\
    ~ cx_sat (unnamed_terms A ++ namedTerms) /\
    minimize cx_chk contains false [] namedTerms (map fst A) = R1 ++ r :: R2 /\
    ~ cx_sat (unnamed_terms A ++ R1 ++ R2).
Proof.
  split; [exact cx_chk_spec|].
  exists [(1, None); (1, Some 10); (2, Some 11)], (fun t => Nat.eqb t 1 || Nat.eqb t 2), [1; 2], [], 1, [2].
  destruct named_also_unnamed_witness as (H1 & H2 & H3).
  split; [|split; [exact H1 | split; [exact H2 | exact H3]]].
  intros t Ht. simpl in Ht. destruct Ht as [<-|[<-|[]]]; reflexivity.
Qed.
Print Assumptions c07_named_also_unnamed_refuted.

(* Instance: elements are SMT-LIB terms, satisfiability is that of coq/Sem (the semantics the verified
   evaluator of the check implements). *)
Theorem c07_irreducible_smtlib : forall (S : Syntax.sig) (chk : list Syntax.term -> bool),
  (forall A, chk A = true <-> Eval.sat S A) ->
  forall bg targets, ~ Eval.sat S (bg ++ targets) ->
  let R := performNaive chk bg targets in
  ~ Eval.sat S (bg ++ R) /\ forall R1 r R2, R = R1 ++ r :: R2 -> Eval.sat S (bg ++ R1 ++ R2).
Proof.
  intros S chk Hc. apply irreducible_pos; [|exact Hc].
  intros A B Hi (I & Hw & Hh). exists I. split; [exact Hw|]. intros a Ha. apply Hh, Hi, Ha.
Qed.
Print Assumptions c07_irreducible_smtlib.

(* Non-vacuity: four targets (x>=1, x>=2, x<=1, x<=2 over x in {0..3}), a correct concrete oracle; the
   hypotheses of c07_irreducible hold, two targets are dropped, two are kept, and the log shows the
   four inner checks. *)
Example c07_nonvacuous :
  (forall S T, incl S T -> cx_sat T -> cx_sat S) /\ (forall S, cx_chk S = true <-> cx_sat S) /\
  ~ cx_sat ([] ++ [0; 1; 2; 3]) /\
  performNaive_log cx_chk [] [0; 1; 2; 3] =
    ([1; 2], [([1; 2; 3], false); ([2; 3], true); ([1; 3], true); ([1; 2], false)]) /\
  cx_sat ([] ++ [2]) /\ cx_sat ([] ++ [1]).
Proof.
  split; [exact cx_sat_mono|]. split; [exact cx_chk_spec|]. split; [|split; [vm_compute; reflexivity|]].
  - intros H. apply cx_chk_spec in H. vm_compute in H. discriminate.
  - split; apply cx_chk_spec; vm_compute; reflexivity.
Qed.
Print Assumptions c07_nonvacuous.
