(* C16: proofs about the literal readers of LitModel.v *)
From Coq Require Import ZArith NArith QArith List Ascii Bool Lia ZifyBool Zify.
From OsmtV.Num Require Import Chars Gen_RealString Gen_Normalize LitModel.
Import ListNotations.
Local Open Scope N_scope.

(* ---- characters --------------------------------------------------------------------------- *)
Definition c0 : ascii := ch 48.
Definition zeros (k : nat) : str := repeat c0 k.
Definition dot : ascii := ch 46.
Definition slash : ascii := ch 47.
Definition minus : ascii := ch 45.

Lemma code_inj a b : code a = code b -> a = b.
Proof. unfold code. intros H. rewrite <- (ascii_N_embedding a), <- (ascii_N_embedding b), H. reflexivity. Qed.

Lemma code_lt a : code a < 256. Proof. apply N_ascii_bounded. Qed.

Lemma is_char_eq k c : k < 256 -> is_char k c = true -> c = ch k.
Proof.
  unfold is_char. intros Hk H. apply N.eqb_eq in H. apply code_inj. rewrite H. unfold code, ch.
  rewrite N_ascii_embedding; auto.
Qed.

Lemma digit_cases c : is_digit c = true -> c = c0 \/ is_posdig c = true.
Proof.
  unfold is_digit, is_posdig. intros H.
  destruct (N.eq_dec (code c) 48) as [E|NE].
  - left. apply code_inj. rewrite E. reflexivity.
  - right. lia.
Qed.

(* the tests of the scanners on the three kinds of characters that occur in an accepted decimal *)
Lemma tests_c0 : is_char c_zero c0 = true /\ is_posdig c0 = false /\ is_digit c0 = true /\
  is_char c_dot c0 = false /\ is_char c_slash c0 = false /\ is_char c_minus c0 = false /\ is_space c0 = false.
Proof. repeat split; reflexivity. Qed.
Lemma tests_dot : is_char c_zero dot = false /\ is_posdig dot = false /\ is_digit dot = false /\
  is_char c_dot dot = true /\ is_char c_slash dot = false /\ is_char c_minus dot = false.
Proof. repeat split; reflexivity. Qed.
Lemma tests_posdig c : is_posdig c = true -> is_char c_zero c = false /\ is_digit c = true /\
  is_char c_dot c = false /\ is_char c_slash c = false /\ is_char c_minus c = false /\ is_space c = false.
Proof.
  unfold is_posdig, is_digit, is_char, is_space, c_zero, c_dot, c_slash, c_minus. intros H. repeat split; lia.
Qed.
Lemma tests_digit c : is_digit c = true ->
  is_char c_dot c = false /\ is_char c_slash c = false /\ is_char c_minus c = false /\ is_space c = false.
Proof.
  unfold is_digit, is_char, is_space, c_dot, c_slash, c_minus. intros H. repeat split; lia.
Qed.

(* ---- decomposition of digit strings ------------------------------------------------------------ *)
Definition starts_pos (d : str) : Prop := d = [] \/ exists c d', d = c :: d' /\ is_posdig c = true.
Definition ends_pos (d : str) : Prop := d = [] \/ exists d' c, d = d' ++ [c] /\ is_posdig c = true.

Lemma all_digits_app a b : all_digits (a ++ b) = all_digits a && all_digits b.
Proof. apply forallb_app. Qed.
Lemma all_digits_cons c d : all_digits (c :: d) = is_digit c && all_digits d.
Proof. reflexivity. Qed.
Lemma all_digits_pos c d : is_posdig c = true -> all_digits d = true -> all_digits (c :: d) = true.
Proof. intros Hc Hd. rewrite all_digits_cons, Hd, (proj1 (proj2 (tests_posdig c Hc))). reflexivity. Qed.
Lemma all_digits_zeros k : all_digits (zeros k) = true.
Proof. induction k; cbn; auto. Qed.

Lemma lead_decomp d : all_digits d = true -> exists Z D, d = zeros Z ++ D /\ starts_pos D /\ all_digits D = true.
Proof.
  induction d as [|c d IH]; intros H.
  - exists O, []. repeat split. now left.
  - cbn in H. apply andb_true_iff in H. destruct H as [Hc Hd].
    destruct (digit_cases c Hc) as [->|Hp].
    + destruct (IH Hd) as (Z & D & -> & HD & HA). exists (S Z), D. repeat split; auto.
    + exists O, (c :: d). repeat split; [right; eauto | cbn; now rewrite Hc, Hd].
Qed.

Lemma trail_decomp d : all_digits d = true -> exists D T, d = D ++ zeros T /\ ends_pos D /\ all_digits D = true.
Proof.
  induction d as [|c d IH]; intros H.
  - exists [], O. repeat split. now left.
  - cbn in H. apply andb_true_iff in H. destruct H as [Hc Hd].
    destruct (IH Hd) as (D & T & -> & HD & HA).
    destruct D as [|x D'].
    + destruct (digit_cases c Hc) as [->|Hp].
      * exists [], (S T). repeat split; auto.
      * exists [c], T. repeat split; [right; exists [], c; auto | cbn; now rewrite Hc].
    + exists (c :: x :: D'), T. repeat split.
      * right. destruct HD as [HD|(d' & y & E & Hy)]; [discriminate|]. exists (c :: d'), y. rewrite E. auto.
      * cbn in *. now rewrite Hc, HA.
Qed.

Lemma zeros_app a b : zeros (a + b) = zeros a ++ zeros b.
Proof. unfold zeros. apply repeat_app. Qed.
Lemma zeros_length k : length (zeros k) = k. Proof. apply repeat_length. Qed.

(* ---- values ------------------------------------------------------------------------------------- *)
Lemma digits_val_zeros_lead k d : digits_val (zeros k ++ d) = digits_val d.
Proof.
  rewrite digits_val_app. assert (H : digits_val (zeros k) = 0).
  { induction k; [reflexivity|]. change (zeros (S k)) with ([c0] ++ zeros k). rewrite digits_val_app, IHk. reflexivity. }
  rewrite H. lia.
Qed.
Lemma digits_val_zeros_trail d k : digits_val (d ++ zeros k) = digits_val d * 10 ^ N.of_nat k.
Proof.
  rewrite digits_val_app, zeros_length. assert (H : digits_val (zeros k) = 0).
  { induction k; [reflexivity|]. change (zeros (S k)) with ([c0] ++ zeros k). rewrite digits_val_app, IHk. reflexivity. }
  rewrite H. lia.
Qed.
Lemma digits_val_one_zeros k : digits_val (ch 49 :: zeros k) = 10 ^ N.of_nat k.
Proof. change (ch 49 :: zeros k) with ([ch 49] ++ zeros k). rewrite digits_val_zeros_trail. change (digits_val [ch 49]) with 1. lia. Qed.

(* ---- first pass ------------------------------------------------------------------------------- *)
Lemma p1_run_app t a b : p1_run t (a ++ b) = match p1_run t a with Some t' => p1_run t' b | None => None end.
Proof. revert t. induction a as [|c a IH]; intros t; cbn; [reflexivity|]. destruct (p1_step t c); auto. Qed.

Lemma posdig_nz c : is_posdig c = true -> is_char c_zero c = false. Proof. intros H; apply (tests_posdig c H). Qed.
Lemma posdig_digit c : is_posdig c = true -> is_digit c = true. Proof. intros H; apply (tests_posdig c H). Qed.
Lemma posdig_ndot c : is_posdig c = true -> is_char c_dot c = false. Proof. intros H; apply (tests_posdig c H). Qed.
Lemma posdig_nslash c : is_posdig c = true -> is_char c_slash c = false. Proof. intros H; apply (tests_posdig c H). Qed.
Lemma posdig_nminus c : is_posdig c = true -> is_char c_minus c = false. Proof. intros H; apply (tests_posdig c H). Qed.
Lemma posdig_nspace c : is_posdig c = true -> is_space c = false. Proof. intros H; apply (tests_posdig c H). Qed.

Lemma p1_zeros_0 k n z f r : p1_run (Build_p1 0 n z f) (zeros k ++ r) = p1_run (Build_p1 0 n z f) r.
Proof. induction k; cbn; auto. Qed.
Lemma p1_zeros_4 k n z f r : p1_run (Build_p1 4 n z f) (zeros k ++ r) = p1_run (Build_p1 4 n z f) r.
Proof. induction k; cbn; auto. Qed.

Lemma p1_step_1_digit c n z f : is_digit c = true -> p1_step (Build_p1 1 n z f) c = Some (Build_p1 1 (S n) z f).
Proof. intros H. unfold p1_step. cbn [N.eqb andb]. rewrite H. destruct (is_char c_zero c), (is_posdig c); reflexivity. Qed.

Lemma p1_digits_1 d : forall n z f r, all_digits d = true ->
  p1_run (Build_p1 1 n z f) (d ++ r) = p1_run (Build_p1 1 (n + length d) z f) r.
Proof.
  induction d as [|c d IH]; intros n z f r H; cbn [app length].
  - now rewrite Nat.add_0_r.
  - cbn in H. apply andb_true_iff in H. destruct H as [Hc Hd]. cbn [p1_run]. rewrite (p1_step_1_digit c n z f Hc).
    rewrite IH by assumption. f_equal. f_equal. lia.
Qed.

Lemma p1_step_0_pos c n z f : is_posdig c = true -> p1_step (Build_p1 0 n z f) c = Some (Build_p1 1 (S n) z f).
Proof. intros H. unfold p1_step. cbn [N.eqb andb]. now rewrite (posdig_nz c H), H. Qed.
Lemma p1_step_4_pos c n z f : is_posdig c = true -> p1_step (Build_p1 4 n z f) c = Some (Build_p1 2 (S n) z f).
Proof. intros H. unfold p1_step. cbn [N.eqb andb]. now rewrite (posdig_nz c H), H. Qed.

(* states 2 and 3: st23 z is the state, the pair (nom, zer) evolves by p23 *)
Definition st23 (z : nat) : N := match z with O => 2 | _ => 3 end.
Definition p23_step (nz : nat * nat) (c : ascii) : nat * nat :=
  let (n, z) := nz in if is_char c_zero c then (n, S z) else (n + z + 1, O)%nat.
Definition p23 (nz : nat * nat) (d : str) : nat * nat := fold_left p23_step d nz.

Lemma p1_step_23 c n z f : is_digit c = true ->
  p1_step (Build_p1 (st23 z) n z f) c =
  Some (let (n', z') := p23_step (n, z) c in Build_p1 (st23 z') n' z' f).
Proof.
  intros H. destruct (digit_cases c H) as [->|Hp].
  - destruct z; reflexivity.
  - unfold p23_step. rewrite (posdig_nz c Hp).
    destruct z; unfold p1_step, st23; cbn [N.eqb Pos.eqb andb]; rewrite (posdig_nz c Hp), Hp; cbn [andb];
      repeat f_equal; lia.
Qed.

Lemma p1_digits_23 d : forall n z f r, all_digits d = true ->
  p1_run (Build_p1 (st23 z) n z f) (d ++ r) =
  let (n', z') := p23 (n, z) d in p1_run (Build_p1 (st23 z') n' z' f) r.
Proof.
  induction d as [|c d IH]; intros n z f r H; cbn [app].
  - reflexivity.
  - cbn in H. apply andb_true_iff in H. destruct H as [Hc Hd]. cbn [p1_run]. rewrite (p1_step_23 c n z f Hc).
    unfold p23. cbn [fold_left]. destruct (p23_step (n, z) c) as [n1 z1]. apply IH. assumption.
Qed.

Lemma p23_sum d : forall n z, all_digits d = true -> let (n', z') := p23 (n, z) d in (n' + z' = n + z + length d)%nat.
Proof.
  induction d as [|c d IH]; intros n z H; cbn [p23 fold_left length].
  - lia.
  - cbn in H. apply andb_true_iff in H. destruct H as [Hc Hd].
    unfold p23_step at 2. destruct (is_char c_zero c).
    + specialize (IH n (S z) Hd). unfold p23 in IH. destruct (fold_left p23_step d (n, S z)). lia.
    + specialize (IH (n + z + 1)%nat O Hd). unfold p23 in IH. destruct (fold_left p23_step d ((n + z + 1)%nat, O)). lia.
Qed.

Lemma p23_app nz a b : p23 nz (a ++ b) = p23 (p23 nz a) b.
Proof. unfold p23. apply fold_left_app. Qed.

Lemma p23_zeros k n z : p23 (n, z) (zeros k) = (n, (z + k)%nat).
Proof.
  revert z. induction k; intros z; cbn.
  - f_equal. lia.
  - unfold p23 in IHk. rewrite IHk. f_equal. lia.
Qed.

(* a digit string that ends in a non-zero digit flushes the pending zeros *)
Lemma p23_ends_pos D n z : all_digits D = true -> ends_pos D -> D <> [] -> p23 (n, z) D = ((n + z + length D)%nat, O).
Proof.
  intros HA [->|(d & c & -> & Hc)] Hne; [congruence|].
  rewrite all_digits_app in HA. apply andb_true_iff in HA. destruct HA as [Hd _].
  rewrite p23_app. pose proof (p23_sum d n z Hd) as Hs. destruct (p23 (n, z) d) as [n1 z1].
  cbn. rewrite (posdig_nz c Hc). rewrite app_length. cbn. f_equal. lia.
Qed.

Lemma p23_D_zeros D T n : all_digits D = true -> ends_pos D -> p23 (n, O) (D ++ zeros T) = ((n + length D)%nat, T).
Proof.
  intros HA HE. rewrite p23_app. destruct D as [|c D'].
  - cbn [p23 fold_left length]. rewrite p23_zeros. f_equal; lia.
  - rewrite p23_ends_pos by (auto; discriminate). rewrite p23_zeros. f_equal; lia.
Qed.

(* ---- second pass ------------------------------------------------------------------------------ *)
Definition p2_from (t : p2) (s : str) : p2 := fold_left p2_step s t.
Lemma p2_from_app t a b : p2_from t (a ++ b) = p2_from (p2_from t a) b.
Proof. unfold p2_from. apply fold_left_app. Qed.

Lemma p2_digits_0 d den z : all_digits d = true -> p2_from (Build_p2 0 den z) d = Build_p2 0 den z.
Proof.
  induction d as [|c d IH]; intros H; [reflexivity|].
  cbn in H. apply andb_true_iff in H. destruct H as [Hc Hd]. cbn. rewrite Hc. apply IH, Hd.
Qed.

Definition st12 (z : nat) : N := match z with O => 1 | _ => 2 end.
Lemma p2_step_12 c den z : is_digit c = true ->
  p2_step (Build_p2 (st12 z) den z) c = let (d', z') := p23_step (den, z) c in Build_p2 (st12 z') d' z'.
Proof.
  intros H. destruct (digit_cases c H) as [->|Hp].
  - destruct z; reflexivity.
  - unfold p23_step. rewrite (posdig_nz c Hp).
    destruct z; unfold p2_step, st12; cbn [N.eqb Pos.eqb andb]; rewrite ?(posdig_nz c Hp), ?Hp, ?(posdig_digit c Hp), ?(posdig_ndot c Hp);
      cbn [andb]; repeat f_equal; lia.
Qed.

Lemma p2_digits_12 d : forall den z, all_digits d = true ->
  p2_from (Build_p2 (st12 z) den z) d = let (d', z') := p23 (den, z) d in Build_p2 (st12 z') d' z'.
Proof.
  induction d as [|c d IH]; intros den z H.
  - reflexivity.
  - cbn in H. apply andb_true_iff in H. destruct H as [Hc Hd]. unfold p2_from. cbn [fold_left].
    rewrite (p2_step_12 c den z Hc). unfold p23. cbn [fold_left]. destruct (p23_step (den, z) c) as [d1 z1].
    apply IH. assumption.
Qed.

(* ---- third pass ------------------------------------------------------------------------------- *)
Lemma p3_zero_any b r : p3_copy b 0 r = Some [].
Proof. destruct r; reflexivity. Qed.

Lemma p3_skip_zeros k n r : p3_copy false n (zeros k ++ r) = p3_copy false n r.
Proof. destruct n; [now rewrite !p3_zero_any|]. induction k; cbn; auto. Qed.

Lemma p3_skip_dot_false n r : p3_copy false n (dot :: r) = p3_copy false n r.
Proof. destruct n; [now rewrite !p3_zero_any|]. reflexivity. Qed.

Lemma p3_skip_dot_true n r : p3_copy true (S n) (dot :: r) = p3_copy true (S n) r.
Proof. reflexivity. Qed.

Lemma p3_copy_digits_true d : forall n r, all_digits d = true ->
  p3_copy true (length d + n) (d ++ r) = option_map (app d) (p3_copy true n r).
Proof.
  induction d as [|c d IH]; intros n r H; cbn [app length plus].
  - destruct (p3_copy true n r); reflexivity.
  - cbn in H. apply andb_true_iff in H. destruct H as [Hc Hd]. cbn [p3_copy].
    destruct (tests_digit c Hc) as (Hdot & _). rewrite Hdot, IH by assumption.
    destruct (p3_copy true n r); reflexivity.
Qed.

Lemma p3_copy_start c d : forall n r, is_posdig c = true -> all_digits d = true ->
  p3_copy false (S (length d) + n) (c :: d ++ r) = option_map (app (c :: d)) (p3_copy true n r).
Proof.
  intros n r Hc Hd. cbn [p3_copy plus]. rewrite (posdig_ndot c Hc), (posdig_nz c Hc). cbn [orb].
  rewrite p3_copy_digits_true by assumption. destruct (p3_copy true n r); reflexivity.
Qed.

(* ---- GMP parsing of what reaches it -------------------------------------------------------------- *)
Lemma gmp_digit_digit c : is_digit c = true -> gmp_digit c = Some (digit_val c) /\ digit_val c < 10.
Proof. unfold is_digit, gmp_digit, digit_val. intros H. rewrite H. split; [reflexivity | lia]. Qed.

Lemma gmp_digits_10 s : forall acc, all_digits s = true -> gmp_digits 10 s acc = Some (digits_val_acc acc s).
Proof.
  induction s as [|c s IH]; intros acc H; [reflexivity|].
  cbn in H. apply andb_true_iff in H. destruct H as [Hc Hs]. cbn [gmp_digits].
  destruct (tests_digit c Hc) as (_ & _ & _ & Hsp). rewrite Hsp.
  destruct (gmp_digit_digit c Hc) as [-> Hlt]. apply N.ltb_lt in Hlt. rewrite Hlt.
  rewrite IH by assumption. unfold digits_val_acc. cbn [fold_left]. do 2 f_equal. lia.
Qed.

Definition ok_base (b : N) : Prop := b = 0 \/ b = 10.

Lemma mpz_set_str_pos b c d : ok_base b -> is_posdig c = true -> all_digits d = true ->
  mpz_set_str (c :: d) b = Some (Z.of_N (digits_val (c :: d))).
Proof.
  intros Hb Hc Hd. unfold mpz_set_str.
  cbn [skip_spaces]. rewrite (posdig_nspace c Hc). cbn [has_minus strip_minus]. rewrite (posdig_nminus c Hc).
  destruct (gmp_digit_digit c (posdig_digit c Hc)) as [-> Hlt].
  destruct Hb as [-> | ->]; cbn [N.eqb Pos.eqb];
    (replace (10 <=? digit_val c) with false by (symmetry; apply N.leb_gt; exact Hlt));
    rewrite ?(posdig_nz c Hc); cbn [skip_zeros_spaces]; rewrite (posdig_nz c Hc), (posdig_nspace c Hc); cbn [orb];
    rewrite gmp_digits_10 by (now apply all_digits_pos); reflexivity.
Qed.

Lemma split_slash_digits a b : all_digits a = true -> split_slash (a ++ slash :: b) = Some (a, b).
Proof.
  induction a as [|c a IH]; intros H; [reflexivity|].
  cbn in H. apply andb_true_iff in H. destruct H as [Hc Ha]. cbn [app split_slash].
  destruct (tests_digit c Hc) as (_ & Hs & _). rewrite Hs, IH by assumption. reflexivity.
Qed.

Lemma split_slash_none a : all_digits a = true -> split_slash a = None.
Proof.
  induction a as [|c a IH]; intros H; [reflexivity|].
  cbn in H. apply andb_true_iff in H. destruct H as [Hc Ha]. cbn [split_slash].
  destruct (tests_digit c Hc) as (_ & Hs & _). rewrite Hs, IH by assumption. reflexivity.
Qed.

Lemma posdig_49 : is_posdig (ch 49) = true. Proof. reflexivity. Qed.

Lemma pow10_pos k : exists p, Z.of_N (10 ^ N.of_nat k) = Zpos p.
Proof.
  assert (H : 10 ^ N.of_nat k <> 0) by (apply N.pow_nonzero; discriminate).
  destruct (10 ^ N.of_nat k) as [|p]; [congruence|]. exists p. reflexivity.
Qed.

Lemma Qmake_div a p : (a # p == inject_Z a / inject_Z (Zpos p))%Q.
Proof. unfold Qeq, Qdiv, Qmult, Qinv, inject_Z. cbn. ring. Qed.

Lemma signed_comp neg a b : (a == b)%Q -> (signed neg a == signed neg b)%Q.
Proof. intros H. destruct neg; cbn; [now rewrite H | assumption]. Qed.

(* the text the third pass builds, through normalize *)
Lemma normalize_built b c d k neg : ok_base b -> is_posdig c = true -> all_digits d = true ->
  exists q, normalize_b b ((c :: d) ++ slash :: ch 49 :: zeros k) neg = StrVal q /\
            (q == signed neg (inject_Z (Z.of_N (digits_val (c :: d))) / pow10Q k))%Q /\ Qred q = q.
Proof.
  intros Hb Hc Hd. unfold normalize_b, mpq_set_str.
  rewrite split_slash_digits by (now apply all_digits_pos).
  rewrite mpz_set_str_pos by assumption.
  rewrite (mpz_set_str_pos b (ch 49) (zeros k) Hb posdig_49 (all_digits_zeros k)). cbn [snd].
  rewrite digits_val_one_zeros. destruct (pow10_pos k) as [p Hp]. unfold mpq_canon. rewrite Hp.
  eexists. split; [reflexivity|]. split.
  - unfold pow10Q. rewrite Hp. destruct neg; cbn [signed]; rewrite !Qred_correct, Qmake_div; reflexivity.
  - destruct neg; apply Qred_complete, Qred_correct.
Qed.

(* ---- assembling stringToRational on decimals ----------------------------------------------------- *)
Definition dot_part (fp : str) : str := match fp with [] => [] | _ => dot :: fp end.

Definition s2r_core (b : N) (is_neg : bool) (flo : str) : str_result :=
  let normalize := normalize_b b in
  match p1_run (Build_p1 0 0 0 false) flo with
  | None => StrExc
  | Some t =>
    if p1_frac t then normalize flo is_neg
    else match p1_nom t with
         | O => normalize [ch 48] false
         | nom_l =>
           let den_l := p2_den (p2_run flo) in
           match p3_copy false nom_l flo with
           | None => StrOverrun
           | Some digits => normalize (digits ++ ch 47 :: ch 49 :: repeat (ch 48) (den_l - 1)) is_neg
           end
         end
  end.
Lemma s2r_unfold b s : string_to_rational_b b s = s2r_core b (has_minus s) (strip_minus s).
Proof. reflexivity. Qed.

Lemma sign_strip neg c r : is_digit c = true ->
  has_minus (sign_str neg ++ c :: r) = neg /\ strip_minus (sign_str neg ++ c :: r) = c :: r.
Proof.
  intros Hc. destruct (tests_digit c Hc) as (_ & _ & Hm & _). destruct neg; cbn; [auto|]. rewrite Hm. auto.
Qed.

Lemma ends_pos_app pre c D : is_posdig c = true -> ends_pos D -> ends_pos (pre ++ c :: D).
Proof.
  intros Hc [->|(d & y & -> & Hy)]; right.
  - exists pre, c. auto.
  - exists (pre ++ c :: d), y. split; [|assumption]. rewrite <- app_assoc. reflexivity.
Qed.

Lemma pow10Q_pos k : (0 < pow10Q k)%Q.
Proof. unfold pow10Q. destruct (pow10_pos k) as [p ->]. reflexivity. Qed.

Lemma value_scale (A : N) (a T : nat) :
  (inject_Z (Z.of_N (A * 10 ^ N.of_nat T)) / pow10Q (a + T) == inject_Z (Z.of_N A) / pow10Q a)%Q.
Proof.
  pose proof (pow10Q_pos a) as Ha. pose proof (pow10Q_pos T) as HT.
  assert (E : (pow10Q (a + T) == pow10Q a * pow10Q T)%Q).
  { unfold pow10Q. rewrite Nat2N.inj_add, N.pow_add_r, N2Z.inj_mul, inject_Z_mult. reflexivity. }
  rewrite E, N2Z.inj_mul, inject_Z_mult. fold (pow10Q T). field.
  split; intros H; (apply (Qlt_not_eq _ _ HT); symmetry; exact H) || (apply (Qlt_not_eq _ _ Ha); symmetry; exact H).
Qed.

Lemma step_dot_0 n z f : p1_step (Build_p1 0 n z f) dot = Some (Build_p1 4 n z f). Proof. reflexivity. Qed.
Lemma step_dot_1 n z f : p1_step (Build_p1 1 n z f) dot = Some (Build_p1 2 n z f). Proof. reflexivity. Qed.
Lemma p2_dot_0 den z : p2_step (Build_p2 0 den z) dot = Build_p2 1 den z. Proof. reflexivity. Qed.

Lemma normalize_zero b : ok_base b -> normalize_b b [ch 48] false = StrVal 0.
Proof. intros [-> | ->]; reflexivity. Qed.

(* no fractional part *)
Lemma s2r_int b Z D neg : ok_base b -> starts_pos D -> all_digits D = true ->
  exists q, s2r_core b neg (zeros Z ++ D) = StrVal q /\
            (q == signed neg (dec_value (zeros Z ++ D) []))%Q /\ Qred q = q.
Proof.
  intros Hb [->|(c & d & -> & Hc)] HA; unfold s2r_core.
  - rewrite (p1_zeros_0 Z 0 0 false []). cbn [p1_run p1_frac p1_nom].
    exists 0%Q. split; [now apply normalize_zero|]. split; [|reflexivity].
    unfold dec_value. rewrite !app_nil_r. rewrite <- (app_nil_r (zeros Z)), digits_val_zeros_lead.
    destruct neg; reflexivity.
  - rewrite all_digits_cons in HA. apply andb_true_iff in HA. destruct HA as [_ Hd].
    rewrite p1_zeros_0. cbn [p1_run]. rewrite (p1_step_0_pos c _ _ _ Hc).
    pose proof (p1_digits_1 d 1 0 false [] Hd) as H1. rewrite app_nil_r in H1. rewrite H1. clear H1. cbn [p1_run p1_frac p1_nom plus].
    unfold p2_run. fold (p2_from (Build_p2 0 1 0) (zeros Z ++ c :: d)).
    rewrite p2_digits_0 by (rewrite all_digits_app, all_digits_zeros; now apply all_digits_pos). cbn [p2_den Nat.sub].
    rewrite p3_skip_zeros.
    pose proof (p3_copy_start c d 0 [] Hc Hd) as H3. rewrite Nat.add_0_r, app_nil_r, p3_zero_any in H3. cbn [option_map] in H3.
    rewrite app_nil_r in H3. cbn [plus]. rewrite H3.
    destruct (normalize_built b c d 0 neg Hb Hc Hd) as (q & Hq & Hv & Hr). cbn [zeros repeat] in Hq. cbn [repeat].
    change (ch 47) with slash. rewrite Hq. exists q. split; [reflexivity|]. split; [|assumption].
    rewrite Hv. apply signed_comp. unfold dec_value. rewrite app_nil_r, digits_val_zeros_lead. reflexivity.
Qed.

(* integer part with a non-zero digit:  0..0 c d1 . D2 0..0 *)
Lemma s2r_dec_b b Z c d1 D2 T neg : ok_base b -> is_posdig c = true -> all_digits d1 = true -> all_digits D2 = true -> ends_pos D2 ->
  (length D2 + T > 0)%nat ->
  exists q, s2r_core b neg (zeros Z ++ (c :: d1) ++ dot :: D2 ++ zeros T) = StrVal q /\
            (q == signed neg (dec_value (zeros Z ++ c :: d1) (D2 ++ zeros T)))%Q /\ Qred q = q.
Proof.
  intros Hb Hc Hd1 HD2 HE Hlen. unfold s2r_core.
  (* pass 1 *)
  rewrite p1_zeros_0. cbn [app p1_run]. rewrite (p1_step_0_pos c _ _ _ Hc).
  rewrite p1_digits_1 by assumption. cbn [p1_run]. rewrite step_dot_1.
  change 2 with (st23 0). pose proof (p1_digits_23 (D2 ++ zeros T) (1 + length d1) 0 false []) as H1.
  rewrite app_nil_r in H1. rewrite H1 by (rewrite all_digits_app, HD2, all_digits_zeros; reflexivity). clear H1.
  rewrite p23_D_zeros by assumption. cbn [p1_run p1_frac p1_nom].
  replace (1 + length d1 + length D2)%nat with (S (length d1 + length D2)) by lia. cbv iota.
  (* pass 2 *)
  unfold p2_run. fold (p2_from (Build_p2 0 1 0) (zeros Z ++ c :: d1 ++ dot :: D2 ++ zeros T)).
  replace (zeros Z ++ c :: d1 ++ dot :: D2 ++ zeros T) with ((zeros Z ++ c :: d1) ++ [dot] ++ (D2 ++ zeros T))
    by (rewrite <- !app_assoc; reflexivity).
  rewrite (p2_from_app _ (zeros Z ++ c :: d1)), (p2_from_app _ [dot]).
  rewrite p2_digits_0 by (rewrite all_digits_app, all_digits_zeros; now apply all_digits_pos).
  change (p2_from (Build_p2 0 1 0) [dot]) with (Build_p2 (st12 0) 1 0).
  rewrite p2_digits_12 by (rewrite all_digits_app, HD2, all_digits_zeros; reflexivity).
  rewrite p23_D_zeros by assumption. cbn [p2_den].
  replace (1 + length D2 - 1)%nat with (length D2) by lia.
  (* pass 3 *)
  rewrite <- !app_assoc. rewrite p3_skip_zeros. cbn [app].
  replace (S (length d1 + length D2)) with (S (length d1) + length D2)%nat by lia.
  rewrite (p3_copy_start c d1 (length D2) _ Hc Hd1).
  assert (H3 : p3_copy true (length D2) (dot :: D2 ++ zeros T) = Some D2).
  { destruct D2 as [|x D2']; [apply p3_zero_any|]. cbn [length]. rewrite p3_skip_dot_true.
    pose proof (p3_copy_digits_true (x :: D2') 0 (zeros T) HD2) as H. rewrite Nat.add_0_r, p3_zero_any in H.
    cbn [option_map] in H. rewrite app_nil_r in H. exact H. }
  rewrite H3. cbn [option_map].
  destruct (normalize_built b c (d1 ++ D2) (length D2) neg Hb Hc) as (q & Hq & Hv & Hr).
  { now rewrite all_digits_app, Hd1, HD2. }
  change (ch 47) with slash. change (repeat (ch 48) (length D2)) with (zeros (length D2)).
  cbn [app] in Hq |- *. rewrite Hq. exists q. split; [reflexivity|]. split; [|assumption].
  rewrite Hv. apply signed_comp. unfold dec_value.
  replace ((zeros Z ++ c :: d1) ++ D2 ++ zeros T) with (zeros Z ++ (c :: d1 ++ D2) ++ zeros T)
    by (cbn [app]; rewrite <- !app_assoc; reflexivity).
  rewrite digits_val_zeros_lead, digits_val_zeros_trail, app_length, zeros_length.
  symmetry. apply value_scale.
Qed.

(* integer part all zeros, fraction with a non-zero digit:  0..0 . 0..0 c D3 0..0 *)
Lemma s2r_dec_a b Z Z2 c D3 T neg : ok_base b -> is_posdig c = true -> all_digits D3 = true -> ends_pos D3 ->
  exists q, s2r_core b neg (zeros Z ++ dot :: zeros Z2 ++ (c :: D3) ++ zeros T) = StrVal q /\
            (q == signed neg (dec_value (zeros Z) (zeros Z2 ++ (c :: D3) ++ zeros T)))%Q /\ Qred q = q.
Proof.
  intros Hb Hc HD3 HE. unfold s2r_core.
  (* pass 1 *)
  rewrite p1_zeros_0. cbn [p1_run]. rewrite step_dot_0. rewrite p1_zeros_4. cbn [app p1_run].
  rewrite (p1_step_4_pos c _ _ _ Hc). change 2 with (st23 0).
  pose proof (p1_digits_23 (D3 ++ zeros T) 1 0 false []) as H1.
  rewrite app_nil_r in H1. rewrite H1 by (rewrite all_digits_app, HD3, all_digits_zeros; reflexivity). clear H1.
  rewrite p23_D_zeros by assumption. cbn [p1_run p1_frac p1_nom plus]. cbv iota.
  (* pass 2 *)
  set (E := zeros Z2 ++ c :: D3).
  assert (HEa : all_digits E = true) by (unfold E; rewrite all_digits_app, all_digits_zeros; now apply all_digits_pos).
  assert (HEe : ends_pos E) by (apply ends_pos_app; assumption).
  unfold p2_run. fold (p2_from (Build_p2 0 1 0) (zeros Z ++ dot :: zeros Z2 ++ c :: D3 ++ zeros T)).
  replace (zeros Z ++ dot :: zeros Z2 ++ c :: D3 ++ zeros T) with (zeros Z ++ [dot] ++ (E ++ zeros T))
    by (unfold E; cbn [app]; rewrite <- !app_assoc; reflexivity).
  rewrite (p2_from_app _ (zeros Z)), (p2_from_app _ [dot]).
  rewrite p2_digits_0 by apply all_digits_zeros.
  change (p2_from (Build_p2 0 1 0) [dot]) with (Build_p2 (st12 0) 1 0).
  rewrite p2_digits_12 by (rewrite all_digits_app, HEa, all_digits_zeros; reflexivity).
  rewrite p23_D_zeros by assumption. cbn [p2_den].
  replace (1 + length E - 1)%nat with (length E) by lia.
  (* pass 3 *)
  rewrite p3_skip_zeros. cbn [app]. rewrite p3_skip_dot_false. unfold E. rewrite <- app_assoc, p3_skip_zeros. cbn [app].
  pose proof (p3_copy_start c D3 0 (zeros T) Hc HD3) as H3. rewrite Nat.add_0_r, p3_zero_any in H3.
  cbn [option_map] in H3. rewrite app_nil_r in H3. rewrite H3. fold E.
  destruct (normalize_built b c D3 (length E) neg Hb Hc HD3) as (q & Hq & Hv & Hr).
  change (ch 47) with slash. change (repeat (ch 48) (length E)) with (zeros (length E)).
  rewrite Hq. exists q. split; [reflexivity|]. split; [|assumption].
  rewrite Hv. apply signed_comp. unfold dec_value.
  change (c :: D3 ++ zeros T) with ((c :: D3) ++ zeros T).
  replace (zeros Z ++ zeros Z2 ++ (c :: D3) ++ zeros T) with (zeros (Z + Z2) ++ (c :: D3) ++ zeros T)
    by (rewrite zeros_app, <- !app_assoc; reflexivity).
  rewrite digits_val_zeros_lead, digits_val_zeros_trail.
  replace (length (zeros Z2 ++ (c :: D3) ++ zeros T)) with (length E + T)%nat
    by (unfold E; rewrite !app_length, !zeros_length; cbn [length]; lia).
  symmetry. apply value_scale.
Qed.

(* everything zero *)
Lemma s2r_dec_zero b Z Z2 neg : ok_base b ->
  exists q, s2r_core b neg (zeros Z ++ dot :: zeros Z2) = StrVal q /\
            (q == signed neg (dec_value (zeros Z) (zeros Z2)))%Q /\ Qred q = q.
Proof.
  intros Hb. unfold s2r_core. rewrite p1_zeros_0. cbn [p1_run]. rewrite step_dot_0.
  pose proof (p1_zeros_4 Z2 0 0 false []) as H4. rewrite app_nil_r in H4. rewrite H4. cbn [p1_run p1_frac p1_nom].
  exists 0%Q. split; [now apply normalize_zero|]. split; [|reflexivity].
  unfold dec_value. rewrite <- zeros_app. rewrite <- (app_nil_r (zeros (Z + Z2))), digits_val_zeros_lead.
  change (digits_val []) with 0. change (inject_Z (Z.of_N 0)) with 0%Q.
  assert (E : (0 / pow10Q (length (zeros Z2)) == 0)%Q) by (unfold Qdiv; apply Qmult_0_l).
  destruct neg; cbn [signed]; rewrite E; reflexivity.
Qed.

Theorem decimal_value_b b neg ip fp : ok_base b -> ip <> [] -> all_digits ip = true -> all_digits fp = true ->
  exists q, string_to_rational_b b (sign_str neg ++ ip ++ dot_part fp) = StrVal q /\
            (q == signed neg (dec_value ip fp))%Q /\ Qred q = q.
Proof.
  intros Hb Hne Hip Hfp. rewrite s2r_unfold.
  destruct ip as [|x ip']; [congruence|].
  assert (Hx : is_digit x = true) by (rewrite all_digits_cons in Hip; apply andb_true_iff in Hip; tauto).
  cbn [app]. destruct (sign_strip neg x (ip' ++ dot_part fp) Hx) as [-> ->].
  change (x :: ip' ++ dot_part fp) with ((x :: ip') ++ dot_part fp).
  destruct (lead_decomp _ Hip) as (Z & D1 & E1 & HS1 & HA1). rewrite E1.
  destruct fp as [|y fp'].
  - cbn [dot_part]. rewrite app_nil_r. apply s2r_int; assumption.
  - cbn [dot_part]. destruct HS1 as [->|(c & d1 & -> & Hc)].
    + rewrite app_nil_r. destruct (lead_decomp _ Hfp) as (Z2 & F & E2 & HS2 & HA2). rewrite E2.
      destruct HS2 as [->|(c & f & -> & Hc)].
      * rewrite app_nil_r. now apply s2r_dec_zero.
      * rewrite all_digits_cons in HA2. apply andb_true_iff in HA2. destruct HA2 as [_ Hf].
        destruct (trail_decomp _ Hf) as (D3 & T & E3 & HE3 & HA3). rewrite E3.
        change (c :: D3 ++ zeros T) with ((c :: D3) ++ zeros T). apply s2r_dec_a; assumption.
    + rewrite all_digits_cons in HA1. apply andb_true_iff in HA1. destruct HA1 as [_ Hd1].
      destruct (trail_decomp _ Hfp) as (D2 & T & E2 & HE2 & HA2). rewrite E2.
      rewrite <- app_assoc. apply s2r_dec_b; try assumption.
      apply (f_equal (@length _)) in E2. rewrite app_length, zeros_length in E2. cbn [length] in E2. lia.
Qed.

(* ---- fractions ---------------------------------------------------------------------------------- *)
Lemma p1_step_5_digit c n z f : is_digit c = true -> p1_step (Build_p1 5 n z f) c = Some (Build_p1 5 n z f).
Proof. intros H. unfold p1_step. cbn [N.eqb Pos.eqb andb]. now rewrite H. Qed.
Lemma p1_digits_5 d : forall n z f, all_digits d = true -> p1_run (Build_p1 5 n z f) d = Some (Build_p1 5 n z f).
Proof.
  induction d as [|c d IH]; intros n z f H; [reflexivity|].
  rewrite all_digits_cons in H. apply andb_true_iff in H. destruct H as [Hc Hd]. cbn [p1_run].
  rewrite p1_step_5_digit by assumption. now apply IH.
Qed.
Lemma step_slash_1 n z f : p1_step (Build_p1 1 n z f) slash = Some (Build_p1 5 n z true). Proof. reflexivity. Qed.

Lemma digits_val_pos c d : is_posdig c = true -> 0 < digits_val (c :: d).
Proof.
  intros Hc. change (c :: d) with ([c] ++ d). rewrite digits_val_app.
  assert (0 < digits_val [c]).
  { unfold digits_val, digits_val_acc. cbn. unfold digit_val. unfold is_posdig in Hc. lia. }
  assert (0 < 10 ^ N.of_nat (length d)) by (apply N.neq_0_lt_0, N.pow_nonzero; discriminate). nia.
Qed.

Theorem fraction_value_nolead_b b neg c n' c2 d' : ok_base b ->
  is_posdig c = true -> all_digits n' = true -> is_posdig c2 = true -> all_digits d' = true ->
  exists q, string_to_rational_b b (sign_str neg ++ (c :: n') ++ slash :: c2 :: d') = StrVal q /\
            (q == signed neg (frac_value (c :: n') (c2 :: d')))%Q /\ Qred q = q.
Proof.
  intros Hb Hc Hn Hc2 Hd. rewrite s2r_unfold. cbn [app].
  destruct (sign_strip neg c (n' ++ slash :: c2 :: d') (posdig_digit c Hc)) as [-> ->].
  unfold s2r_core. cbn [p1_run]. rewrite (p1_step_0_pos c _ _ _ Hc).
  rewrite p1_digits_1 by assumption.
  change (p1_run ?t (slash :: ?r)) with (match p1_step t slash with Some t' => p1_run t' r | None => None end).
  rewrite step_slash_1.
  rewrite p1_digits_5 by (now apply all_digits_pos). cbn [p1_frac].
  unfold normalize_b, mpq_set_str. change (c :: n' ++ slash :: c2 :: d') with ((c :: n') ++ slash :: c2 :: d').
  rewrite split_slash_digits by (now apply all_digits_pos).
  rewrite !mpz_set_str_pos by assumption. cbn [snd].
  pose proof (digits_val_pos c2 d' Hc2) as Hpos. unfold mpq_canon.
  destruct (digits_val (c2 :: d')) as [|p] eqn:E; [lia|]. cbn [Z.of_N].
  eexists. split; [reflexivity|]. split.
  - unfold frac_value. rewrite E. cbn [Z.of_N]. destruct neg; cbn [signed]; rewrite !Qred_correct, Qmake_div; reflexivity.
  - destruct neg; apply Qred_complete, Qred_correct.
Qed.

(* ---- the tree's variant (base regenerated from NumberUtils.h) --------------------------------------- *)
Lemma tree_base_ok : ok_base normalize_base.
Proof. first [left; reflexivity | right; reflexivity]. Qed.

Theorem decimal_value_shape neg ip fp : ip <> [] -> all_digits ip = true -> all_digits fp = true ->
  exists q, string_to_rational (sign_str neg ++ ip ++ dot_part fp) = StrVal q /\
            (q == signed neg (dec_value ip fp))%Q /\ Qred q = q.
Proof. apply decimal_value_b, tree_base_ok. Qed.

Theorem fraction_value_nolead neg c n' c2 d' :
  is_posdig c = true -> all_digits n' = true -> is_posdig c2 = true -> all_digits d' = true ->
  exists q, string_to_rational (sign_str neg ++ (c :: n') ++ slash :: c2 :: d') = StrVal q /\
            (q == signed neg (frac_value (c :: n') (c2 :: d')))%Q /\ Qred q = q.
Proof. apply fraction_value_nolead_b, tree_base_ok. Qed.

(* ---- the repaired variant: base 10 reads every fraction of digit strings exactly -------------------- *)
Lemma skip_zeros_lead Z D : starts_pos D -> skip_zeros_spaces (zeros Z ++ D) = D.
Proof.
  intros HD. induction Z as [|Z IH]; cbn [zeros repeat app].
  - destruct HD as [->|(c & d & -> & Hc)]; [reflexivity|]. cbn [skip_zeros_spaces].
    now rewrite (posdig_nz c Hc), (posdig_nspace c Hc).
  - cbn [skip_zeros_spaces]. exact IH.
Qed.

Lemma mpz_set_str_digits10 x r : all_digits (x :: r) = true ->
  mpz_set_str (x :: r) 10 = Some (Z.of_N (digits_val (x :: r))).
Proof.
  intros HA. pose proof HA as HA'. rewrite all_digits_cons in HA'. apply andb_true_iff in HA'. destruct HA' as [Hx Hr].
  unfold mpz_set_str. destruct (tests_digit x Hx) as (_ & _ & Hm & Hs).
  cbn [skip_spaces]. rewrite Hs. cbn [has_minus strip_minus]. rewrite Hm.
  destruct (gmp_digit_digit x Hx) as [-> Hlt]. cbn [N.eqb Pos.eqb].
  replace (10 <=? digit_val x) with false by (symmetry; apply N.leb_gt; exact Hlt).
  destruct (lead_decomp _ HA) as (Z & D & E & HS & HD). rewrite E, skip_zeros_lead by assumption.
  rewrite digits_val_zeros_lead. destruct D as [|c d]; [reflexivity|].
  rewrite gmp_digits_10 by assumption. reflexivity.
Qed.

Lemma step_slash_0 n z f : p1_step (Build_p1 0 n z f) slash = Some (Build_p1 5 n z true). Proof. reflexivity. Qed.

Lemma p1_numerator n : n <> [] -> all_digits n = true -> forall r,
  exists nom, p1_run (Build_p1 0 0 0 false) (n ++ slash :: r) = p1_run (Build_p1 5 nom 0 true) r.
Proof.
  intros _ Hn r. destruct (lead_decomp _ Hn) as (Z & D & -> & [->|(c & d & -> & Hc)] & HD).
  - rewrite app_nil_r, p1_zeros_0.
    change (p1_run ?t (slash :: ?r)) with (match p1_step t slash with Some t' => p1_run t' r | None => None end).
    rewrite step_slash_0. eauto.
  - rewrite all_digits_cons in HD. apply andb_true_iff in HD. destruct HD as [_ Hd].
    rewrite <- app_assoc, p1_zeros_0. cbn [app p1_run]. rewrite (p1_step_0_pos c _ _ _ Hc).
    rewrite p1_digits_1 by assumption.
    change (p1_run ?t (slash :: ?r)) with (match p1_step t slash with Some t' => p1_run t' r | None => None end).
    rewrite step_slash_1. eauto.
Qed.

Theorem fraction_value_base10 neg n d : n <> [] -> d <> [] -> all_digits n = true -> all_digits d = true ->
  digits_val d <> 0 ->
  exists q, string_to_rational_b 10 (sign_str neg ++ n ++ slash :: d) = StrVal q /\
            (q == signed neg (frac_value n d))%Q /\ Qred q = q.
Proof.
  intros Hnn Hdn Hn Hd Hd0. rewrite s2r_unfold.
  destruct n as [|x n']; [congruence|]. destruct d as [|y d']; [congruence|].
  assert (Hx : is_digit x = true) by (rewrite all_digits_cons in Hn; apply andb_true_iff in Hn; tauto).
  cbn [app]. destruct (sign_strip neg x (n' ++ slash :: y :: d') Hx) as [-> ->].
  change (x :: n' ++ slash :: y :: d') with ((x :: n') ++ slash :: y :: d').
  unfold s2r_core. destruct (p1_numerator (x :: n') Hnn Hn (y :: d')) as [nom ->].
  rewrite p1_digits_5 by assumption. cbn [p1_frac].
  unfold normalize_b, mpq_set_str. rewrite split_slash_digits by assumption.
  rewrite !mpz_set_str_digits10 by assumption. cbn [snd]. unfold mpq_canon.
  destruct (digits_val (y :: d')) as [|p] eqn:E; [congruence|]. cbn [Z.of_N].
  eexists. split; [reflexivity|]. split.
  - unfold frac_value. rewrite E. cbn [Z.of_N]. destruct neg; cbn [signed]; rewrite !Qred_correct, Qmake_div; reflexivity.
  - destruct neg; apply Qred_complete, Qred_correct.
Qed.
