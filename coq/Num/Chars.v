(* C16: characters, digit strings and their values; decimal printing of N with its round trip. *)
From Coq Require Import ZArith NArith List Ascii Bool Lia Decimal DecimalN DecimalPos DecimalFacts.
Import ListNotations.
Local Open Scope N_scope.

Definition str := list ascii.

Definition code (c : ascii) : N := N_of_ascii c.
Definition ch (n : N) : ascii := ascii_of_N n.

Definition is_digit (c : ascii) : bool := (48 <=? code c) && (code c <=? 57).      (* '0'..'9' *)
Definition is_posdig (c : ascii) : bool := (48 <? code c) && (code c <=? 57).      (* '1'..'9' *)
Definition digit_val (c : ascii) : N := code c - 48.
Definition is_char (k : N) (c : ascii) : bool := code c =? k.
Definition c_minus : N := 45.  Definition c_dot : N := 46.  Definition c_slash : N := 47.  Definition c_zero : N := 48.

(* value of a digit string, most significant digit first *)
Definition digits_val_acc (acc : N) (s : str) : N := fold_left (fun a c => 10 * a + digit_val c) s acc.
Definition digits_val (s : str) : N := digits_val_acc 0 s.

Definition all_digits (s : str) : bool := forallb is_digit s.

(* decimal printing through the standard library's Decimal.uint *)
Fixpoint uint_to_str (d : uint) : str :=
  match d with
  | Nil => []
  | D0 d => ch 48 :: uint_to_str d | D1 d => ch 49 :: uint_to_str d | D2 d => ch 50 :: uint_to_str d
  | D3 d => ch 51 :: uint_to_str d | D4 d => ch 52 :: uint_to_str d | D5 d => ch 53 :: uint_to_str d
  | D6 d => ch 54 :: uint_to_str d | D7 d => ch 55 :: uint_to_str d | D8 d => ch 56 :: uint_to_str d
  | D9 d => ch 57 :: uint_to_str d
  end.

Definition N_to_str (n : N) : str := uint_to_str (N.to_uint n).

(* ---- facts ------------------------------------------------------------------------------ *)
Lemma digits_val_acc_app a s t : digits_val_acc a (s ++ t) = digits_val_acc (digits_val_acc a s) t.
Proof. unfold digits_val_acc. apply fold_left_app. Qed.

Lemma digits_val_acc_lin a s : digits_val_acc a s = a * 10 ^ N.of_nat (length s) + digits_val s.
Proof.
  unfold digits_val. revert a. induction s as [|c s IH]; intros a.
  - cbn. lia.
  - cbn [digits_val_acc fold_left length]. fold (digits_val_acc (10 * a + digit_val c) s).
    fold (digits_val_acc (10 * 0 + digit_val c) s). rewrite IH, (IH (10 * 0 + digit_val c)).
    rewrite Nat2N.inj_succ, N.pow_succ_r'. lia.
Qed.

Lemma digits_val_app s t : digits_val (s ++ t) = digits_val s * 10 ^ N.of_nat (length t) + digits_val t.
Proof. unfold digits_val at 1. rewrite digits_val_acc_app, digits_val_acc_lin. reflexivity. Qed.

Lemma of_uint_acc_val d acc :
  Npos (Pos.of_uint_acc d acc) = digits_val_acc (Npos acc) (uint_to_str d).
Proof.
  revert acc. induction d; intros acc; cbn [Pos.of_uint_acc uint_to_str digits_val_acc fold_left];
    try reflexivity; fold (digits_val_acc) in *; rewrite IHd; unfold digits_val_acc; f_equal;
    try reflexivity; (change (digit_val (ch _)) with 2 || change (digit_val (ch _)) with 3 || change (digit_val (ch _)) with 4
     || change (digit_val (ch _)) with 5 || change (digit_val (ch _)) with 6 || change (digit_val (ch _)) with 7
     || change (digit_val (ch _)) with 8 || change (digit_val (ch _)) with 9); lia.
Qed.

Lemma of_uint_val d : N.of_uint d = digits_val (uint_to_str d).
Proof.
  unfold N.of_uint, digits_val.
  induction d; cbn [Pos.of_uint uint_to_str digits_val_acc fold_left]; try reflexivity;
    try (rewrite of_uint_acc_val; reflexivity).
  exact IHd.
Qed.

Lemma N_to_str_val n : digits_val (N_to_str n) = n.
Proof. unfold N_to_str. rewrite <- of_uint_val. apply DecimalN.Unsigned.of_to. Qed.

Lemma uint_to_str_digits d : all_digits (uint_to_str d) = true.
Proof. induction d; cbn; auto. Qed.

Lemma N_to_str_digits n : all_digits (N_to_str n) = true.
Proof. apply uint_to_str_digits. Qed.
