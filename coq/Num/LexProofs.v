(* C16: what the lexer's numeric token rules (regenerated in Gen_LexNum.v) accept, and that every such
   token is read exactly by stringToRational. *)
From Coq Require Import ZArith NArith QArith List Ascii Bool Lia ZifyBool.
From OsmtV.Num Require Import Chars Regex RegexProofs Gen_RealString Gen_LexNum LitModel LitProofs.
Import ListNotations.
Local Open Scope N_scope.

Lemma cls_digit w : lang (Cls [(48, 57)]) w -> exists c, w = [c] /\ is_digit c = true.
Proof.
  intros H. apply cls_inv in H. destruct H as (c & -> & Hc). exists c. split; [reflexivity|].
  unfold in_ranges in Hc. cbn in Hc. unfold is_digit. lia.
Qed.
Lemma cls_posdig w : lang (Cls [(49, 57)]) w -> exists c, w = [c] /\ is_posdig c = true.
Proof.
  intros H. apply cls_inv in H. destruct H as (c & -> & Hc). exists c. split; [reflexivity|].
  unfold in_ranges in Hc. cbn in Hc. unfold is_posdig. lia.
Qed.
Lemma cls_single k w : k < 256 -> lang (Cls [(k, k)]) w -> w = [ch k].
Proof.
  intros Hk H. apply cls_inv in H. destruct H as (c & -> & Hc). f_equal. apply is_char_eq; [assumption|].
  unfold in_ranges in Hc. cbn in Hc. unfold is_char. lia.
Qed.

Lemma star_digits w : lang (Star (Cls [(48, 57)])) w -> all_digits w = true.
Proof.
  intros H. remember (Star (Cls [(48, 57)])) as r eqn:E. induction H; try discriminate; [reflexivity|].
  injection E as ->. apply cls_digit in H. destruct H as (c & -> & Hc). cbn [app]. rewrite all_digits_cons, Hc.
  now apply IHlang2.
Qed.
Lemma star_zeros w : lang (Star (Cls [(48, 48)])) w -> exists k, w = zeros k.
Proof.
  intros H. remember (Star (Cls [(48, 48)])) as r eqn:E. induction H; try discriminate; [now exists O|].
  injection E as ->. apply (cls_single 48) in H; [|reflexivity]. subst s.
  destruct (IHlang2 eq_refl) as [k ->]. now exists (S k).
Qed.
Lemma plus_digits w : lang (Plus (Cls [(48, 57)])) w -> w <> [] /\ all_digits w = true.
Proof.
  intros H. apply plus_inv in H. destruct H as (s & t & -> & H1 & H2). apply cls_digit in H1.
  destruct H1 as (c & -> & Hc). apply star_digits in H2. split; [discriminate|]. cbn [app]. now rewrite all_digits_cons, Hc, H2.
Qed.
Lemma opt_minus w : lang (Opt (Cls [(45, 45)])) w -> exists neg, w = sign_str neg.
Proof.
  intros H. apply opt_inv in H. destruct H as [->|H]; [now exists false|].
  apply (cls_single 45) in H; [|reflexivity]. subst. now exists true.
Qed.

(* TK_NUM:  0 | -?[1-9][0-9]*  |  -?[1-9][0-9]*/[1-9][0-9]* *)
Inductive num_shape : str -> Prop :=
| NumZero : num_shape [c0]
| NumInt neg c n : is_posdig c = true -> all_digits n = true -> num_shape (sign_str neg ++ c :: n)
| NumFrac neg c n c2 d : is_posdig c = true -> all_digits n = true -> is_posdig c2 = true -> all_digits d = true ->
    num_shape (sign_str neg ++ (c :: n) ++ slash :: c2 :: d).

Lemma lang_TK_NUM s : lang re_TK_NUM s -> num_shape s.
Proof.
  unfold re_TK_NUM. intros H. apply alt_inv in H. destruct H as [H|H].
  - apply (cls_single 48) in H; [|reflexivity]. subst. constructor.
  - apply cat_inv in H. destruct H as (s1 & r1 & -> & Hm & H). apply opt_minus in Hm. destruct Hm as [neg ->].
    apply cat_inv in H. destruct H as (s2 & r2 & -> & Hc & H). apply cls_posdig in Hc. destruct Hc as (c & -> & Hc).
    apply cat_inv in H. destruct H as (n & r3 & -> & Hn & H). apply star_digits in Hn.
    apply opt_inv in H. destruct H as [->|H].
    + rewrite app_nil_r. cbn [app]. now constructor.
    + apply cat_inv in H. destruct H as (s4 & r4 & -> & Hs & H). apply (cls_single 47) in Hs; [|reflexivity]. subst s4.
      apply cat_inv in H. destruct H as (s5 & d & -> & Hc2 & Hd). apply cls_posdig in Hc2. destruct Hc2 as (c2 & -> & Hc2).
      apply star_digits in Hd. cbn [app]. change (c :: n ++ ch 47 :: c2 :: d) with ((c :: n) ++ slash :: c2 :: d).
      now constructor.
Qed.

(* TK_DEC:  -?[0-9]+\.0*[0-9]+ *)
Lemma lang_TK_DEC s : lang re_TK_DEC s ->
  exists neg ip fp, s = sign_str neg ++ ip ++ dot :: fp /\ ip <> [] /\ fp <> [] /\ all_digits ip = true /\ all_digits fp = true.
Proof.
  unfold re_TK_DEC. intros H.
  apply cat_inv in H. destruct H as (s1 & r1 & -> & Hm & H). apply opt_minus in Hm. destruct Hm as [neg ->].
  apply cat_inv in H. destruct H as (ip & r2 & -> & Hip & H). apply plus_digits in Hip. destruct Hip as [Hne Hip].
  apply cat_inv in H. destruct H as (s3 & r3 & -> & Hd & H). apply (cls_single 46) in Hd; [|reflexivity]. subst s3.
  apply cat_inv in H. destruct H as (z & f & -> & Hz & Hf). apply star_zeros in Hz. destruct Hz as [k ->].
  apply plus_digits in Hf. destruct Hf as [Hfne Hf].
  exists neg, ip, (zeros k ++ f). repeat split; auto.
  - destruct k; [assumption | discriminate].
  - now rewrite all_digits_app, all_digits_zeros, Hf.
Qed.

(* every TK_NUM token is read exactly *)
Definition num_token_value (s : str) (q : Q) : Prop :=
  (s = [c0] /\ q == 0)%Q \/
  (exists neg c n, s = sign_str neg ++ c :: n /\ (q == signed neg (dec_value (c :: n) []))%Q) \/
  (exists neg c n c2 d, s = sign_str neg ++ (c :: n) ++ slash :: c2 :: d /\ is_posdig c2 = true /\
                        (q == signed neg (frac_value (c :: n) (c2 :: d)))%Q).

Theorem lex_num_exact_proof s : matches re_TK_NUM s = true ->
  exists q, string_to_rational s = StrVal q /\ num_token_value s q /\ Qred q = q.
Proof.
  intros H. apply matches_iff, lang_TK_NUM in H. destruct H as [|neg c n Hc Hn|neg c n c2 d Hc Hn Hc2 Hd].
  - exists 0%Q. split; [reflexivity|]. split; [left; split; reflexivity | reflexivity].
  - destruct (decimal_value_shape neg (c :: n) []) as (q & Hq & Hv & Hr); [discriminate | now apply all_digits_pos | reflexivity|].
    cbn [dot_part] in Hq. rewrite app_nil_r in Hq. exists q. split; [assumption|]. split; [|assumption].
    right; left. eauto.
  - destruct (fraction_value_nolead neg c n c2 d Hc Hn Hc2 Hd) as (q & Hq & Hv & Hr).
    exists q. split; [assumption|]. split; [|assumption]. right; right. exists neg, c, n, c2, d. auto.
Qed.

Theorem lex_dec_exact_proof s : matches re_TK_DEC s = true ->
  exists neg ip fp q, s = sign_str neg ++ ip ++ dot :: fp /\ ip <> [] /\ fp <> [] /\
    string_to_rational s = StrVal q /\ (q == signed neg (dec_value ip fp))%Q /\ Qred q = q.
Proof.
  intros H. apply matches_iff, lang_TK_DEC in H. destruct H as (neg & ip & fp & -> & Hne & Hfne & Hip & Hfp).
  destruct (decimal_value_shape neg ip fp Hne Hip Hfp) as (q & Hq & Hv & Hr).
  exists neg, ip, fp, q. destruct fp; [congruence|]. cbn [dot_part] in Hq. auto 10.
Qed.
