(* C16: from a lexer token to the value ArithLogic::mkConst holds: classification by the regenerated
   isRealString automaton, and the FastRational constructor from text on the canonical text. *)
From Coq Require Import ZArith NArith QArith List Ascii Bool Lia ZifyBool.
From OsmtV.Num Require Import Chars Regex RegexProofs Gen_RealString Gen_LexNum Gen_Normalize LitModel LitProofs LexProofs RatPrint RatPrintProofs.
Import ListNotations.
Local Open Scope N_scope.

(* ---- the isRealString automaton on the shapes of tokens ---------------------------------------------- *)
Lemma rs_run_app st a b : rs_run st (a ++ b) = match rs_run st a with Some st' => rs_run st' b | None => None end.
Proof. revert st. induction a as [|c a IH]; intros st; cbn; [reflexivity|]. destruct (rs_step st c); auto. Qed.

Lemma rs_digit_steps c : is_digit c = true ->
  rs_step RS0 c = Some RS1 /\ rs_step RS1 c = Some RS1 /\ rs_step RS2 c = Some RS3 /\ rs_step RS3 c = Some RS3 /\
  rs_step RS4 c = Some RS5 /\ rs_step RS5 c = Some RS5.
Proof.
  intros H. destruct (tests_digit c H) as (Hd & Hs & _). unfold rs_step. change 46 with c_dot. change 47 with c_slash.
  rewrite Hd, H. repeat split; reflexivity.
Qed.

Lemma rs_digits_1 d : all_digits d = true -> rs_run RS1 d = Some RS1.
Proof.
  induction d as [|c d IH]; intros H; [reflexivity|]. rewrite all_digits_cons in H. apply andb_true_iff in H.
  destruct H as [Hc Hd]. cbn [rs_run]. destruct (rs_digit_steps c Hc) as (_ & -> & _). auto.
Qed.
Lemma rs_digits_3 d : all_digits d = true -> rs_run RS3 d = Some RS3.
Proof.
  induction d as [|c d IH]; intros H; [reflexivity|]. rewrite all_digits_cons in H. apply andb_true_iff in H.
  destruct H as [Hc Hd]. cbn [rs_run]. destruct (rs_digit_steps c Hc) as (_ & _ & _ & -> & _). auto.
Qed.
Lemma rs_digits_5 d : all_digits d = true -> rs_run RS5 d = Some RS5.
Proof.
  induction d as [|c d IH]; intros H; [reflexivity|]. rewrite all_digits_cons in H. apply andb_true_iff in H.
  destruct H as [Hc Hd]. cbn [rs_run]. destruct (rs_digit_steps c Hc) as (_ & _ & _ & _ & _ & ->). auto.
Qed.
Lemma rs_digits_0 c d : all_digits (c :: d) = true -> rs_run RS0 (c :: d) = Some RS1.
Proof.
  intros H. rewrite all_digits_cons in H. apply andb_true_iff in H. destruct H as [Hc Hd]. cbn [rs_run].
  destruct (rs_digit_steps c Hc) as (-> & _). now apply rs_digits_1.
Qed.

Lemma is_real_string_sign neg c r : is_digit c = true ->
  is_real_string (sign_str neg ++ c :: r) = match rs_run rs_start (c :: r) with None => false | Some st => rs_accept st end.
Proof.
  intros Hc. destruct (sign_strip neg c r Hc) as [_ E]. unfold is_real_string. rewrite E.
  destruct neg; reflexivity.
Qed.

Lemma is_real_string_decimal neg ip fp : ip <> [] -> all_digits ip = true -> all_digits fp = true ->
  is_real_string (sign_str neg ++ ip ++ dot_part fp) = true.
Proof.
  intros Hne Hip Hfp. destruct ip as [|c ip']; [congruence|].
  assert (Hc : is_digit c = true) by (rewrite all_digits_cons in Hip; apply andb_true_iff in Hip; tauto).
  cbn [app]. rewrite is_real_string_sign by assumption. change (c :: ip' ++ dot_part fp) with ((c :: ip') ++ dot_part fp).
  unfold rs_start. rewrite rs_run_app, rs_digits_0 by assumption.
  destruct fp as [|y fp']; [reflexivity|]. cbn [dot_part rs_run]. change (rs_step RS1 dot) with (Some RS2).
  rewrite all_digits_cons in Hfp. apply andb_true_iff in Hfp. destruct Hfp as [Hy Hf]. cbn [rs_run].
  destruct (rs_digit_steps y Hy) as (_ & _ & -> & _). now rewrite rs_digits_3.
Qed.

Lemma is_real_string_fraction neg n d : n <> [] -> d <> [] -> all_digits n = true -> all_digits d = true ->
  is_real_string (sign_str neg ++ n ++ slash :: d) = true.
Proof.
  intros Hnn Hdn Hn Hd. destruct n as [|c n']; [congruence|]. destruct d as [|y d']; [congruence|].
  assert (Hc : is_digit c = true) by (rewrite all_digits_cons in Hn; apply andb_true_iff in Hn; tauto).
  cbn [app]. rewrite is_real_string_sign by assumption. change (c :: n' ++ slash :: y :: d') with ((c :: n') ++ slash :: y :: d').
  unfold rs_start. rewrite rs_run_app, rs_digits_0 by assumption. cbn [rs_run]. change (rs_step RS1 slash) with (Some RS4).
  rewrite all_digits_cons in Hd. apply andb_true_iff in Hd. destruct Hd as [Hy Hd]. cbn [rs_run].
  destruct (rs_digit_steps y Hy) as (_ & _ & _ & _ & -> & _). now rewrite rs_digits_5.
Qed.

(* ---- FastRational from text, on the canonical text -------------------------------------------------- *)
Lemma mpz_set_str_neg c d : is_posdig c = true -> all_digits d = true ->
  mpz_set_str (minus :: c :: d) 10 = Some (- Z.of_N (digits_val (c :: d)))%Z.
Proof.
  intros Hc Hd. unfold mpz_set_str. cbn [skip_spaces]. change (is_space minus) with false. cbn [has_minus strip_minus].
  change (is_char c_minus minus) with true. cbv iota.
  destruct (gmp_digit_digit c (posdig_digit c Hc)) as [-> Hlt]. cbn [N.eqb Pos.eqb].
  replace (10 <=? digit_val c) with false by (symmetry; apply N.leb_gt; exact Hlt).
  cbn [skip_zeros_spaces]. rewrite (posdig_nz c Hc), (posdig_nspace c Hc). cbn [orb].
  rewrite gmp_digits_10 by (now apply all_digits_pos). reflexivity.
Qed.

Lemma mpz_set_str_Z z : mpz_set_str (Z_to_str z) 10 = Some z.
Proof.
  destruct z as [|p|p]; [reflexivity| |]; cbn [Z_to_str].
  - destruct (pos_str p) as (c & r & E & Hc & Hr). rewrite E, mpz_set_str_pos by (auto; right; reflexivity).
    rewrite <- E, N_to_str_val. reflexivity.
  - destruct (pos_str p) as (c & r & E & Hc & Hr). rewrite E. change (ch 45) with minus. rewrite mpz_set_str_neg by assumption.
    rewrite <- E, N_to_str_val. reflexivity.
Qed.

Definition no_slash (s : str) : bool := forallb (fun c => negb (is_char c_slash c)) s.
Lemma split_slash_noslash a b : no_slash a = true -> split_slash (a ++ slash :: b) = Some (a, b).
Proof.
  induction a as [|c a IH]; intros H; [reflexivity|]. cbn in H. apply andb_true_iff in H. destruct H as [Hc Ha].
  cbn [app split_slash]. apply negb_true_iff in Hc. rewrite Hc, IH by assumption. reflexivity.
Qed.
Lemma split_slash_noslash_none a : no_slash a = true -> split_slash a = None.
Proof.
  induction a as [|c a IH]; intros H; [reflexivity|]. cbn in H. apply andb_true_iff in H. destruct H as [Hc Ha].
  cbn [split_slash]. apply negb_true_iff in Hc. rewrite Hc, IH by assumption. reflexivity.
Qed.
Lemma digits_no_slash d : all_digits d = true -> no_slash d = true.
Proof.
  induction d as [|c d IH]; intros H; [reflexivity|]. rewrite all_digits_cons in H. apply andb_true_iff in H.
  destruct H as [Hc Hd]. cbn. destruct (tests_digit c Hc) as (_ & -> & _). cbn. auto.
Qed.
Lemma Z_to_str_no_slash z : no_slash (Z_to_str z) = true.
Proof.
  destruct z; cbn [Z_to_str]; [reflexivity | apply digits_no_slash, N_to_str_digits |].
  unfold no_slash. cbn [forallb]. change (negb (is_char c_slash (ch 45))) with true. cbn [andb].
  apply (digits_no_slash _ (N_to_str_digits _)).
Qed.

Theorem fr_of_qd_str_proof q : Qred q = q -> fastrational_default_base = 10 -> fr_of_string (qd_str q) = FRVal q.
Proof.
  intros Hq Hb. unfold fr_of_string. rewrite Hb. destruct q as [n d]. unfold qd_str. cbn [Qnum Qden].
  assert (Hsl : forall p, mpq_set_str (0%Z, 1%Z) (Z_to_str n ++ ch 47 :: N_to_str (N.pos p)) 10 = (true, (n, Zpos p))).
  { intros p. unfold mpq_set_str. change (ch 47) with slash. rewrite split_slash_noslash by apply Z_to_str_no_slash.
    rewrite mpz_set_str_Z. change (N_to_str (N.pos p)) with (Z_to_str (Zpos p)). rewrite mpz_set_str_Z. reflexivity. }
  destruct d as [p|p|].
  - rewrite Hsl. cbn [mpq_canon]. now rewrite Hq.
  - rewrite Hsl. cbn [mpq_canon]. now rewrite Hq.
  - unfold mpq_set_str. rewrite split_slash_noslash_none by apply Z_to_str_no_slash. rewrite mpz_set_str_Z.
    cbn [mpq_canon]. now rewrite Hq.
Qed.

(* ---- a numeric token of the lexer, through ArithLogic::mkConst in a logic with reals only ------------- *)
Theorem token_mkconst_exact_proof s : fastrational_default_base = 10 ->
  matches re_TK_NUM s = true \/ matches re_TK_DEC s = true ->
  exists q, string_to_rational s = StrVal q /\ Qred q = q /\ mk_const LRA s = MReal (qd_str q) (FRVal q).
Proof.
  intros Hb [H|H].
  - destruct (lex_num_exact_proof s H) as (q & Hq & _ & Hr). exists q. split; [assumption|]. split; [assumption|].
    assert (Hreal : is_real_string s = true).
    { apply matches_iff, lang_TK_NUM in H. destruct H as [|neg c n Hc Hn|neg c n c2 d Hc Hn Hc2 Hd].
      - reflexivity.
      - pose proof (is_real_string_decimal neg (c :: n) []) as E. cbn [dot_part] in E. rewrite app_nil_r in E.
        apply E; [discriminate | now apply all_digits_pos | reflexivity].
      - apply is_real_string_fraction; try discriminate; now apply all_digits_pos. }
    unfold mk_const. rewrite Hreal. unfold mk_const_sort. rewrite Hq. now rewrite fr_of_qd_str_proof.
  - destruct (lex_dec_exact_proof s H) as (neg & ip & fp & q & -> & Hne & Hfne & Hq & _ & Hr).
    exists q. split; [assumption|]. split; [assumption|].
    assert (Hreal : is_real_string (sign_str neg ++ ip ++ dot :: fp) = true).
    { apply matches_iff, lang_TK_DEC in H. destruct H as (neg' & ip' & fp' & E & Hne' & Hfne' & Hip & Hfp).
      rewrite E. pose proof (is_real_string_decimal neg' ip' fp' Hne' Hip Hfp) as R.
      destruct fp'; [congruence|]. exact R. }
    unfold mk_const. rewrite Hreal. unfold mk_const_sort. rewrite Hq. now rewrite fr_of_qd_str_proof.
Qed.

(* ---- Int constants after commit d04fdc4: the symbol name is the canonical spelling ---------------------- *)
Lemma str_eqb_eq a b : str_eqb a b = true <-> a = b.
Proof.
  revert b. induction a as [|x a IH]; intros [|y b]; cbn; try (split; [discriminate | congruence]); [tauto|].
  rewrite andb_true_iff, N.eqb_eq, IH. split.
  - intros [Hc ->]. f_equal. now apply code_inj.
  - intros E. injection E as -> ->. auto.
Qed.

Lemma fr_of_string_canonical s q : fr_of_string s = FRVal q -> Qred q = q.
Proof.
  unfold fr_of_string. destruct (mpq_set_str (0%Z, 1%Z) s fastrational_default_base) as [ok [n d]].
  destruct ok; [|discriminate]. unfold mpq_canon. destruct d; try discriminate; intros H; injection H as <-;
    [change (Qred (Qred (n # p)) = Qred (n # p)) | change (Qred (Qred (- n # p)) = Qred (- n # p))];
    apply Qred_complete, Qred_correct.
Qed.

Theorem int_const_identity_fixed_proof uf a b p q : fastrational_default_base = 10 ->
  is_int_string a = true -> is_int_string b = true -> fr_of_string a = FRVal p -> fr_of_string b = FRVal q ->
  mk_eq_int_consts_v true uf a b = Some (Qeq_bool p q).
Proof.
  intros Hb Ha Hbb Hp Hq. unfold mk_eq_int_consts_v, int_const_name_v. rewrite Ha, Hbb, Hp, Hq. cbn [andb opt_str_eqb].
  pose proof (fr_of_string_canonical _ _ Hp) as Cp. pose proof (fr_of_string_canonical _ _ Hq) as Cq.
  destruct (str_eqb (qd_str p) (qd_str q)) eqn:E.
  - apply str_eqb_eq in E. pose proof (fr_of_qd_str_proof p Cp Hb) as Rp. rewrite E, (fr_of_qd_str_proof q Cq Hb) in Rp.
    injection Rp as ->. f_equal. symmetry. apply Qeq_bool_iff. reflexivity.
  - destruct uf; [|reflexivity]. f_equal. symmetry. apply not_true_is_false. intros H. apply Qeq_bool_iff in H.
    apply Qred_complete in H. rewrite Cp, Cq in H. subst q. assert (str_eqb (qd_str p) (qd_str p) = true) by now apply str_eqb_eq.
    congruence.
Qed.
