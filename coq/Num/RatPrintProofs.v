(* C16: what the solver prints for a rational reads back, as an SMT-LIB term, to that rational. *)
From Coq Require Import ZArith NArith QArith List Ascii Bool Lia ZifyBool Decimal DecimalFacts DecimalPos DecimalN.
From OsmtV.Num Require Import Chars LitModel LitProofs RatPrint.
Import ListNotations.
Local Open Scope N_scope.

(* ---- decimal strings of positive numbers have no leading zero ------------------------------------ *)
Lemma pos_to_uint_head p : match Pos.to_uint p with Nil => False | D0 _ => False | _ => True end.
Proof.
  pose proof (DecimalPos.Unsigned.to_of (Pos.to_uint p)) as H. rewrite DecimalPos.Unsigned.of_to in H.
  cbn [N.to_uint] in H. pose proof (DecimalPos.Unsigned.to_uint_nonnil p) as Hn.
  destruct (Pos.to_uint p) as [|u|u|u|u|u|u|u|u|u|u] eqn:E; try exact I; [congruence|].
  exfalso. rewrite unorm_D0 in H. pose proof (nb_digits_unorm u) as Hle.
  assert (Hu : u <> Nil).
  { intros ->. apply (DecimalPos.Unsigned.to_uint_nonzero p). exact E. }
  specialize (Hle Hu). rewrite <- H in Hle. cbn [nb_digits] in Hle. lia.
Qed.

Lemma uint_first d : match d with Nil => False | D0 _ => False | _ => True end ->
  exists c r, uint_to_str d = c :: r /\ is_posdig c = true /\ all_digits r = true.
Proof.
  destruct d; intros H; try contradiction; cbn [uint_to_str]; eexists _, _; (split; [reflexivity|]);
    (split; [reflexivity | apply uint_to_str_digits]).
Qed.

Lemma pos_str p : exists c r, N_to_str (Npos p) = c :: r /\ is_posdig c = true /\ all_digits r = true.
Proof. unfold N_to_str. cbn [N.to_uint]. apply uint_first, pos_to_uint_head. Qed.

Lemma is_numeral_N n : is_numeral (N_to_str n) = true.
Proof.
  destruct n as [|p]; [reflexivity|]. destruct (pos_str p) as (c & r & -> & Hc & Hr).
  unfold is_numeral. destruct r; [now apply posdig_digit|]. now rewrite Hc, Hr.
Qed.

(* ---- the reader on printed pieces ---------------------------------------------------------------- *)
Definition nondigit_head (r : str) : Prop := match r with [] => True | c :: _ => is_digit c = false end.

Lemma take_digits_app d r : all_digits d = true -> nondigit_head r -> take_digits (d ++ r) = (d, r).
Proof.
  intros Hd Hr. induction d as [|c d IH]; cbn [List.app].
  - destruct r as [|x r']; [reflexivity|]. unfold nondigit_head in Hr. cbn [take_digits]. now rewrite Hr.
  - rewrite all_digits_cons in Hd. apply andb_true_iff in Hd. destruct Hd as [Hc Hd]. cbn [take_digits].
    rewrite Hc, IH by assumption. reflexivity.
Qed.

Lemma read_numeral_N n r : nondigit_head r -> read_numeral (N_to_str n ++ r) = Some (n, r).
Proof.
  intros Hr. unfold read_numeral. rewrite take_digits_app by (auto using N_to_str_digits).
  now rewrite is_numeral_N, N_to_str_val.
Qed.

Lemma strip_prefix_app p r : strip_prefix p (p ++ r) = Some r.
Proof. induction p as [|a p IH]; [reflexivity|]. cbn. now rewrite N.eqb_refl. Qed.

Lemma strip_prefix_mismatch a p b s : code a <> code b -> strip_prefix (a :: p) (b :: s) = None.
Proof. intros H. cbn. apply N.eqb_neq in H. now rewrite H. Qed.

Lemma posdig_not_lp c : is_posdig c = true -> code (ch 40) <> code c.
Proof. unfold is_posdig. change (code (ch 40)) with 40. lia. Qed.

Lemma read_signed_nonneg n r : nondigit_head r -> read_signed (N_to_str n ++ r) = Some (Z.of_N n, r).
Proof.
  intros Hr. unfold read_signed.
  assert (E : strip_prefix s_lp_minus (N_to_str n ++ r) = None).
  { destruct n as [|p]; [reflexivity|]. destruct (pos_str p) as (c & d & -> & Hc & _). cbn [List.app].
    apply strip_prefix_mismatch, posdig_not_lp, Hc. }
  rewrite E, read_numeral_N by assumption. reflexivity.
Qed.

Lemma read_signed_neg n r : read_signed (s_lp_minus ++ N_to_str n ++ s_rp ++ r) = Some ((- Z.of_N n)%Z, r).
Proof.
  unfold read_signed. rewrite strip_prefix_app. rewrite read_numeral_N by reflexivity.
  rewrite strip_prefix_app. reflexivity.
Qed.

Lemma Z_to_str_nonneg z : (0 <= z)%Z -> Z_to_str z = N_to_str (Z.to_N z).
Proof. destruct z; intros H; try reflexivity. lia. Qed.

Lemma slash_prefix_none_digit n r : strip_prefix s_lp_slash (N_to_str n ++ r) = None.
Proof.
  destruct n as [|p]; [reflexivity|]. destruct (pos_str p) as (c & d & -> & Hc & _). cbn [List.app].
  apply strip_prefix_mismatch, posdig_not_lp, Hc.
Qed.

Theorem print_parse_roundtrip_proof (q : Q) : read_num_term (term_print q) = Some q.
Proof.
  destruct q as [n d]. unfold term_print, q_is_neg, q_abs. cbn [Qnum Qden].
  rewrite (Z_to_str_nonneg (Z.abs n)) by lia.
  set (a := Z.to_N (Z.abs n)).
  assert (Ha : Z.of_N a = Z.abs n) by (unfold a; lia).
  destruct (Z.ltb_spec n 0) as [Hneg|Hpos]; destruct d as [d'|d'|].
  - (* negative, proper denominator *)
    unfold read_num_term. rewrite strip_prefix_app.
    rewrite <- ?app_assoc. rewrite read_signed_neg. rewrite strip_prefix_app.
    rewrite read_numeral_N by reflexivity. change (strip_prefix s_rp s_rp) with (Some (@nil ascii)). cbv iota. do 2 f_equal. lia.
  - unfold read_num_term. rewrite strip_prefix_app.
    rewrite <- ?app_assoc. rewrite read_signed_neg. rewrite strip_prefix_app.
    rewrite read_numeral_N by reflexivity. change (strip_prefix s_rp s_rp) with (Some (@nil ascii)). cbv iota. do 2 f_equal. lia.
  - unfold read_num_term.
    assert (E : strip_prefix s_lp_slash (s_lp_minus ++ N_to_str a ++ s_rp) = None) by reflexivity.
    rewrite E. rewrite <- (List.app_nil_r s_rp), read_signed_neg. do 2 f_equal. lia.
  - unfold read_num_term. rewrite strip_prefix_app.
    rewrite read_signed_nonneg by reflexivity. rewrite strip_prefix_app.
    rewrite read_numeral_N by reflexivity. change (strip_prefix s_rp s_rp) with (Some (@nil ascii)). cbv iota. do 2 f_equal. lia.
  - unfold read_num_term. rewrite strip_prefix_app.
    rewrite read_signed_nonneg by reflexivity. rewrite strip_prefix_app.
    rewrite read_numeral_N by reflexivity. change (strip_prefix s_rp s_rp) with (Some (@nil ascii)). cbv iota. do 2 f_equal. lia.
  - unfold read_num_term. rewrite <- (List.app_nil_r (N_to_str a)). rewrite slash_prefix_none_digit.
    rewrite read_signed_nonneg by exact I. do 2 f_equal. lia.
Qed.
