(* C16: reading numeric literals.  Definitions only (proofs: LitProofs.v).
   src/common/StringConv.h        isIntString (:38-47), isRealString (:49-111, automaton regenerated into
                                  Gen_RealString.v), stringToRational (:113-225)
   src/common/numbers/NumberUtils.h  normalize (:40-51) = mpq_set_str(base 0) + mpq_canonicalize + "%Qd"
   src/common/numbers/FastRational.cc:32-42  FastRational(const char*, base = 10)
   src/logics/ArithLogic.cc:875-930  mkConst(SRef, name), mkConst(name)
   GMP (mpz/set_str.c, mpq/set_str.c, mpq/canonicalize.c) is modelled for the inputs that reach it. *)
From Coq Require Import ZArith NArith QArith List Ascii Bool.
From OsmtV.Num Require Import Chars Gen_RealString Gen_Normalize.
Import ListNotations.
Local Open Scope N_scope.

(* ---- classification ------------------------------------------------------------------------ *)
(* the scanning loops start at index 1 when str[0] == '-' *)
Definition strip_minus (s : str) : str :=
  match s with c :: r => if is_char c_minus c then r else s | [] => [] end.
Definition has_minus (s : str) : bool :=
  match s with c :: _ => is_char c_minus c | [] => false end.

Definition is_int_string (s : str) : bool :=
  match s with [] => false | _ => forallb is_digit (strip_minus s) end.

Fixpoint rs_run (st : rs_state) (s : str) : option rs_state :=
  match s with
  | [] => Some st
  | c :: r => match rs_step st c with None => None | Some st' => rs_run st' r end
  end.

Definition is_real_string (s : str) : bool :=
  match s with
  | [] => rs_empty_result
  | _ => match rs_run rs_start (strip_minus s) with None => false | Some st => rs_accept st end
  end.

(* ---- GMP: mpz_set_str / mpq_set_str / mpq_canonicalize ------------------------------------------ *)
Definition is_space (c : ascii) : bool :=
  let n := code c in (n =? 32) || ((9 <=? n) && (n <=? 13)).
(* __gmp_digit_value_tab for bases <= 36 *)
Definition gmp_digit (c : ascii) : option N :=
  let n := code c in
  if (48 <=? n) && (n <=? 57) then Some (n - 48)
  else if (97 <=? n) && (n <=? 122) then Some (n - 87)
  else if (65 <=? n) && (n <=? 90) then Some (n - 55)
  else None.

Fixpoint skip_spaces (s : str) : str :=
  match s with c :: r => if is_space c then skip_spaces r else s | [] => [] end.
Fixpoint skip_zeros_spaces (s : str) : str :=
  match s with c :: r => if is_char c_zero c || is_space c then skip_zeros_spaces r else s | [] => [] end.

(* all remaining non-space characters must be digits of the base *)
Fixpoint gmp_digits (base : N) (s : str) (acc : N) : option N :=
  match s with
  | [] => Some acc
  | c :: r => if is_space c then gmp_digits base r acc
              else match gmp_digit c with
                   | Some d => if d <? base then gmp_digits base r (acc * base + d) else None
                   | None => None
                   end
  end.

(* mpz_set_str(x, s, base), base = 0 or 2..36: None = return -1 (x unchanged) *)
Definition mpz_set_str (s : str) (base : N) : option Z :=
  let s := skip_spaces s in
  let neg := has_minus s in
  let s := strip_minus s in
  match s with
  | [] => None
  | c :: r =>
    match gmp_digit c with
    | None => None
    | Some d0 =>
      if (if base =? 0 then 10 else base) <=? d0 then None
      else
        let '(b, rest) :=
          if base =? 0 then
            if is_char c_zero c then
              match r with
              | x :: r' => if is_char 120 x || is_char 88 x then (16, r')
                           else if is_char 98 x || is_char 66 x then (2, r')
                           else (8, r)
              | [] => (8, r)
              end
            else (10, s)
          else (base, s) in
        match skip_zeros_spaces rest with
        | [] => Some 0%Z
        | rest' => match gmp_digits b rest' 0 with
                   | Some v => Some (if neg then (- Z.of_N v)%Z else Z.of_N v)
                   | None => None
                   end
        end
    end
  end.

Fixpoint split_slash (s : str) : option (str * str) :=
  match s with
  | [] => None
  | c :: r => if is_char c_slash c then Some ([], r)
              else match split_slash r with Some (a, b) => Some (c :: a, b) | None => None end
  end.

(* mpq_set_str(q, s, base) on q = init: (returned 0 ?, numerator, denominator) *)
Definition mpq_set_str (init : Z * Z) (s : str) (base : N) : bool * (Z * Z) :=
  match split_slash s with
  | None => match mpz_set_str s base with
            | Some n => (true, (n, 1%Z))
            | None => (false, (fst init, 1%Z))
            end
  | Some (a, b) =>
    match mpz_set_str a base with
    | None => (false, init)
    | Some n => match mpz_set_str b base with
                | None => (false, (n, snd init))
                | Some d => (true, (n, d))
                end
    end
  end.

(* mpq_canonicalize: None = division by zero (GMP raises SIGFPE / aborts) *)
Definition mpq_canon (nd : Z * Z) : option Q :=
  let (n, d) := nd in
  match d with
  | Z0 => None
  | Zpos p => Some (Qred (n # p))
  | Zneg p => Some (Qred ((- n)%Z # p))
  end.

(* ---- printing of canonical rationals: gmp "%Qd", FastRational::print_ / get_str ----------------- *)
Definition Z_to_str (z : Z) : str :=
  match z with
  | Z0 => [ch 48]
  | Zpos p => N_to_str (Npos p)
  | Zneg p => ch 45 :: N_to_str (Npos p)
  end.
Definition qd_str (q : Q) : str :=
  match Qden q with
  | xH => Z_to_str (Qnum q)
  | d => Z_to_str (Qnum q) ++ ch 47 :: N_to_str (Npos d)
  end.

(* ---- normalize, stringToRational ------------------------------------------------------------- *)
Inductive str_result :=
| StrVal (q : Q)        (* rat = qd_str q *)
| StrExc                (* strConvException *)
| StrCrash              (* division by zero inside mpq_canonicalize *)
| StrOverrun.           (* the copy loop would read past the end of the string (never: p3_no_overrun) *)

(* the return value of mpq_set_str is ignored (assert compiled out): a failed parse leaves what
   mpq_init / the partial parse produced *)
Definition normalize_b (base : N) (flo : str) (is_neg : bool) : str_result :=
  match mpq_canon (snd (mpq_set_str (0%Z, 1%Z) flo base)) with
  | None => StrCrash
  | Some q => StrVal (if is_neg then Qred (- q) else q)
  end.

(* first pass: lengths and shape; states 0..5 as in the source *)
Record p1 := { p1_st : N; p1_nom : nat; p1_zer : nat; p1_frac : bool }.
Definition p1_step (t : p1) (c : ascii) : option p1 :=
  let '(Build_p1 st nom zer frac) := t in
  if (st =? 0) && is_char c_zero c then Some t
  else if (st =? 0) && is_posdig c then Some (Build_p1 1 (S nom) zer frac)
  else if (st =? 0) && is_char c_dot c then Some (Build_p1 4 nom zer frac)
  else if (st =? 0) && is_char c_slash c then Some (Build_p1 5 nom zer true)
  else if (st =? 1) && is_digit c then Some (Build_p1 1 (S nom) zer frac)
  else if (st =? 1) && is_char c_dot c then Some (Build_p1 2 nom zer frac)
  else if (st =? 1) && is_char c_slash c then Some (Build_p1 5 nom zer true)
  else if (st =? 2) && is_char c_zero c then Some (Build_p1 3 nom (S zer) frac)
  else if (st =? 2) && is_posdig c then Some (Build_p1 2 (S nom) zer frac)
  else if (st =? 3) && is_char c_zero c then Some (Build_p1 3 nom (S zer) frac)
  else if (st =? 3) && is_posdig c then Some (Build_p1 2 (nom + zer + 1) 0 frac)
  else if (st =? 4) && is_char c_zero c then Some (Build_p1 4 nom zer frac)
  else if (st =? 4) && is_posdig c then Some (Build_p1 2 (S nom) zer frac)
  else if (st =? 5) && is_digit c then Some (Build_p1 5 nom zer frac)
  else None.
Fixpoint p1_run (t : p1) (s : str) : option p1 :=
  match s with [] => Some t | c :: r => match p1_step t c with None => None | Some t' => p1_run t' r end end.

(* second pass: length of the denominator; states 0..2; unmatched characters are ignored *)
Record p2 := { p2_st : N; p2_den : nat; p2_zer : nat }.
Definition p2_step (t : p2) (c : ascii) : p2 :=
  let '(Build_p2 st den zer) := t in
  if (st =? 0) && is_digit c then t
  else if (st =? 0) && is_char c_dot c then Build_p2 1 den zer
  else if (st =? 1) && is_posdig c then Build_p2 1 (S den) zer
  else if (st =? 1) && is_char c_zero c then Build_p2 2 den (S zer)
  else if (st =? 2) && is_char c_zero c then Build_p2 2 den (S zer)
  else if (st =? 2) && is_posdig c then Build_p2 1 (den + zer + 1) 0
  else t.
Definition p2_run (s : str) : p2 := fold_left p2_step s (Build_p2 0 1 0).

(* third pass: copy the first nom_l significant characters (state -1 = not started, 0 = started) *)
Fixpoint p3_copy (started : bool) (n : nat) (s : str) {struct s} : option str :=
  match n with
  | O => Some []
  | S n' =>
    match s with
    | [] => None
    | c :: r =>
      if started then
        if is_char c_dot c then p3_copy true n r
        else option_map (cons c) (p3_copy true n' r)
      else if is_char c_dot c || is_char c_zero c then p3_copy false n r
      else option_map (cons c) (p3_copy true n' r)
    end
  end.

Definition string_to_rational_b (base : N) (s : str) : str_result :=
  let normalize := normalize_b base in
  let is_neg := has_minus s in
  let flo := strip_minus s in
  match p1_run (Build_p1 0 0 0 false) flo with
  | None => StrExc
  | Some t =>
    if p1_frac t then normalize flo is_neg
    else match p1_nom t with
         | O => normalize [ch 48] false
         | nom_l =>
           let den_l := p2_den (p2_run flo) in
           match p3_copy false nom_l flo with
           | None => StrOverrun
           | Some digits => normalize (digits ++ ch 47 :: ch 49 :: repeat (ch 48) (den_l - 1)) is_neg
           end
         end
  end.

(* the tree's functions: the base is regenerated from NumberUtils.h (Gen_Normalize.v); 0 = by prefix
   (the unchanged tree), 10 = decimal (the proposed repair) *)
Definition normalize := normalize_b normalize_base.
Definition string_to_rational := string_to_rational_b normalize_base.

(* ---- FastRational(const char * s, base 10) ----------------------------------------------------- *)
Inductive fr_result :=
| FRVal (q : Q)
| FRGarbage           (* mpq_set_str failed on a recycled mpq_t: the value is whatever it held before *)
| FRCrash.
Definition fr_of_string (s : str) : fr_result :=
  let '(ok, nd) := mpq_set_str (0%Z, 1%Z) s fastrational_default_base in
  if ok then match mpq_canon nd with Some q => FRVal q | None => FRCrash end else FRGarbage.

(* ---- ArithLogic::mkConst ----------------------------------------------------------------------- *)
Inductive mk_result :=
| MInt (name : option str) (v : fr_result)   (* Int constant; symbol name: the raw text, or (after commit d04fdc4)
                                              the canonical spelling Number(name).get_str(); None = spelling of an undefined value *)
| MReal (name : str) (v : fr_result)     (* Real constant: symbol name = normalised text *)
| MApiExc                                (* ApiException *)
| MStrConvExc                            (* strConvException escapes (not derived publicly from std::exception) *)
| MCrash
| MOverrun
| MNotNumeric.                           (* handed to Logic::mkConst: symbol lookup *)

Definition int_const_name_v (canon : bool) (name : str) : option str :=
  if canon then match fr_of_string name with FRVal q => Some (qd_str q) | _ => None end else Some name.
Definition int_const_name := int_const_name_v int_const_canonical.

Definition mk_const_sort (real : bool) (name : str) : mk_result :=
  if real then
    match string_to_rational name with
    | StrVal q => MReal (qd_str q) (fr_of_string (qd_str q))
    | StrExc => MStrConvExc
    | StrCrash => MCrash
    | StrOverrun => MOverrun
    end
  else if is_int_string name then MInt (int_const_name name) (fr_of_string name) else MApiExc.

Inductive arith_logic := LIA | LRA | LIRA.
Definition mk_const (l : arith_logic) (name : str) : mk_result :=
  let i := is_int_string name in
  let r := is_real_string name in
  match l with
  | LIA => if negb i && r then MApiExc else if i then mk_const_sort false name else MNotNumeric
  | LRA => if r then mk_const_sort true name else MApiExc
  | LIRA => if i then mk_const_sort false name else if r then mk_const_sort true name else MNotNumeric
  end.

(* ---- exact values (the specification side) ------------------------------------------------------ *)
Definition pow10Q (k : nat) : Q := inject_Z (Z.of_N (10 ^ N.of_nat k)).
(* value of the digit strings  ip "." fp  (fp = [] : no fractional part) *)
Definition dec_value (ip fp : str) : Q := (inject_Z (Z.of_N (digits_val (ip ++ fp))) / pow10Q (length fp))%Q.
(* value of  n "/" d *)
Definition frac_value (n d : str) : Q := (inject_Z (Z.of_N (digits_val n)) / inject_Z (Z.of_N (digits_val d)))%Q.
Definition signed (neg : bool) (q : Q) : Q := if neg then (- q)%Q else q.
Definition sign_str (neg : bool) : str := if neg then [ch 45] else [].

(* ---- identity of Int constants (DESIGN.md par.9 #12) ---------------------------------------------
   mkConst(sort_INT, name) keeps the raw text as the symbol name, so equal values with different
   spellings are different terms.  mkEq of two constants: Logic::mkBinaryEq (used when the logic has UF
   or arrays; src/logics/Logic.cc:502-505) answers by term identity, ArithLogic::mkBinaryEq
   (src/logics/ArithLogic.cc:766-778) by value. *)
Fixpoint str_eqb (a b : str) : bool :=
  match a, b with
  | [], [] => true
  | x :: a', y :: b' => (code x =? code y) && str_eqb a' b'
  | _, _ => false
  end.
Definition opt_str_eqb (a b : option str) : bool :=
  match a, b with Some x, Some y => str_eqb x y | _, _ => false end.
Definition mk_eq_int_consts_v (canon uf : bool) (a b : str) : option bool :=
  if is_int_string a && is_int_string b then
    if opt_str_eqb (int_const_name_v canon a) (int_const_name_v canon b) then Some true
    else if uf then Some false
    else match fr_of_string a, fr_of_string b with
         | FRVal p, FRVal q => Some (Qeq_bool p q)
         | _, _ => None
         end
  else None.
Definition mk_eq_int_consts := mk_eq_int_consts_v int_const_canonical.
