(* C16: the derivative matcher of Regex.v decides the language of the expression *)
From Coq Require Import NArith List Ascii Bool Lia.
From OsmtV.Num Require Import Chars Regex.
Import ListNotations.

Inductive lang : re -> str -> Prop :=
| LEps : lang Eps []
| LCls rs c : in_ranges rs c = true -> lang (Cls rs) [c]
| LNCls rs c : in_ranges rs c = false -> lang (NCls rs) [c]
| LCat a b s t : lang a s -> lang b t -> lang (Cat a b) (s ++ t)
| LAltL a b s : lang a s -> lang (Alt a b) s
| LAltR a b s : lang b s -> lang (Alt a b) s
| LStar0 a : lang (Star a) []
| LStarS a s t : lang a s -> lang (Star a) t -> lang (Star a) (s ++ t)
| LPlus a s t : lang a s -> lang (Star a) t -> lang (Plus a) (s ++ t)
| LOpt0 a : lang (Opt a) []
| LOptS a s : lang a s -> lang (Opt a) s.

Lemma cat_inv a b w : lang (Cat a b) w -> exists s t, w = s ++ t /\ lang a s /\ lang b t.
Proof. inversion 1; subst; eauto. Qed.
Lemma plus_inv a w : lang (Plus a) w -> exists s t, w = s ++ t /\ lang a s /\ lang (Star a) t.
Proof. inversion 1; subst; eauto. Qed.
Lemma alt_inv a b w : lang (Alt a b) w -> lang a w \/ lang b w.
Proof. inversion 1; subst; auto. Qed.
Lemma opt_inv a w : lang (Opt a) w -> w = [] \/ lang a w.
Proof. inversion 1; subst; auto. Qed.
Lemma eps_inv w : lang Eps w -> w = [].
Proof. inversion 1; reflexivity. Qed.
Lemma cls_inv rs w : lang (Cls rs) w -> exists c, w = [c] /\ in_ranges rs c = true.
Proof. inversion 1; subst; eauto. Qed.
Lemma star_inv a w : lang (Star a) w -> w = [] \/ exists s t, w = s ++ t /\ lang a s /\ lang (Star a) t.
Proof. inversion 1; subst; [now left | right; eauto]. Qed.

Lemma nullable_iff r : nullable r = true <-> lang r [].
Proof.
  induction r; cbn [nullable].
  - split; [discriminate | inversion 1].
  - split; [constructor | reflexivity].
  - split; [discriminate | inversion 1].
  - split; [discriminate | inversion 1].
  - rewrite andb_true_iff, IHr1, IHr2. split.
    + intros [H1 H2]. change (@nil ascii) with (@nil ascii ++ []). now constructor.
    + intros H. apply cat_inv in H. destruct H as (s & t & E & H1 & H2). symmetry in E. apply app_eq_nil in E. destruct E; subst. auto.
  - rewrite orb_true_iff, IHr1, IHr2. split.
    + intros [H|H]; [now apply LAltL | now apply LAltR].
    + inversion 1; auto.
  - split; [constructor | reflexivity].
  - rewrite IHr. split.
    + intros H. change (@nil ascii) with (@nil ascii ++ []). constructor; [assumption | constructor].
    + intros H. apply plus_inv in H. destruct H as (s & t & E & H1 & H2). symmetry in E. apply app_eq_nil in E. destruct E; subst. auto.
  - split; [constructor | reflexivity].
Qed.

Lemma mk_cat_iff a b s : lang (mk_cat a b) s <-> lang (Cat a b) s.
Proof.
  assert (E0 : forall x, lang Emp x <-> False) by (intros x; split; [inversion 1 | tauto]).
  assert (L : forall b s, lang b s <-> lang (Cat Eps b) s).
  { intros b0 s0. split.
    - intros H. change s0 with ([] ++ s0). constructor; [constructor | assumption].
    - inversion 1; subst. match goal with H : lang Eps _ |- _ => inversion H; subst end. assumption. }
  assert (R : forall a s, lang a s <-> lang (Cat a Eps) s).
  { intros a0 s0. split.
    - intros H. rewrite <- (app_nil_r s0). constructor; [assumption | constructor].
    - inversion 1; subst. match goal with H : lang Eps _ |- _ => inversion H; subst end. now rewrite app_nil_r. }
  assert (ZL : forall b s, lang (Cat Emp b) s <-> False).
  { intros b0 s0. split; [|tauto]. inversion 1; subst. match goal with H : lang Emp _ |- _ => inversion H end. }
  assert (ZR : forall a s, lang (Cat a Emp) s <-> False).
  { intros a0 s0. split; [|tauto]. inversion 1; subst. match goal with H : lang Emp _ |- _ => inversion H end. }
  destruct a, b; cbn [mk_cat]; rewrite ?E0, ?ZL, ?ZR; try tauto; try apply L; try apply R; try reflexivity.
Qed.

Lemma mk_alt_iff a b s : lang (mk_alt a b) s <-> lang (Alt a b) s.
Proof.
  assert (E0 : forall x, lang Emp x <-> False) by (intros x; split; [inversion 1 | tauto]).
  assert (L : forall b s, lang b s <-> lang (Alt Emp b) s).
  { intros b0 s0. split; [now apply LAltR|]. inversion 1; subst; [match goal with H : lang Emp _ |- _ => inversion H end | assumption]. }
  assert (R : forall a s, lang a s <-> lang (Alt a Emp) s).
  { intros a0 s0. split; [now apply LAltL|]. inversion 1; subst; [assumption | match goal with H : lang Emp _ |- _ => inversion H end]. }
  destruct a, b; cbn [mk_alt]; try apply L; try apply R; try reflexivity.
Qed.

Lemma star_cons_inv a c s : lang (Star a) (c :: s) ->
  exists s1 s2, s = s1 ++ s2 /\ lang a (c :: s1) /\ lang (Star a) s2.
Proof.
  intros H. remember (Star a) as r eqn:Er. remember (c :: s) as w eqn:Ew.
  revert c s Ew. induction H; intros c0 s0 Ew; try discriminate.
  injection Er as ->. destruct s as [|x s'].
  - cbn in Ew. apply IHlang2; auto.
  - cbn in Ew. injection Ew as -> <-. exists s', t. auto.
Qed.

Lemma deriv_iff c r : forall s, lang (deriv c r) s <-> lang r (c :: s).
Proof.
  induction r; intros s; cbn [deriv].
  - split; inversion 1.
  - split; inversion 1.
  - destruct (in_ranges rs c) eqn:E; split.
    + intros H. apply eps_inv in H. subst. now constructor.
    + intros H. apply cls_inv in H. destruct H as (x & Ex & _). injection Ex as -> ->. constructor.
    + inversion 1.
    + intros H. apply cls_inv in H. destruct H as (x & Ex & Hx). injection Ex as -> ->. congruence.
  - destruct (in_ranges rs c) eqn:E; split.
    + inversion 1.
    + inversion 1; subst. congruence.
    + intros H. apply eps_inv in H. subst. now constructor.
    + inversion 1; subst. constructor.
  - (* Cat *)
    assert (HC : lang (Cat (deriv c r1) r2) s \/ (nullable r1 = true /\ lang (deriv c r2) s) <-> lang (Cat r1 r2) (c :: s)).
    { split.
      - intros [H|[Hn H]].
        + apply cat_inv in H. destruct H as (s0 & t & -> & H1 & H2). apply IHr1 in H1.
          change (c :: s0 ++ t) with ((c :: s0) ++ t). now constructor.
        + apply IHr2 in H. apply nullable_iff in Hn. change (c :: s) with ([] ++ c :: s). now constructor.
      - intros H. apply cat_inv in H. destruct H as (s0 & t & E & H1 & H2). destruct s0 as [|x s0'].
        + cbn in E. subst t. right. split; [now apply nullable_iff | now apply IHr2].
        + cbn in E. injection E as -> ->. left. constructor; [now apply IHr1 | assumption]. }
    destruct (nullable r1) eqn:En.
    + rewrite mk_alt_iff. rewrite <- HC. split.
      * intros H. apply alt_inv in H. destruct H as [H|H]; [left; now apply mk_cat_iff | right; auto].
      * intros [H|[_ H]]; [apply LAltL; now apply mk_cat_iff | now apply LAltR].
    + rewrite mk_cat_iff. rewrite <- HC. split; [auto | intros [H|[Hn _]]; [assumption | discriminate]].
  - rewrite mk_alt_iff. split; intros H; apply alt_inv in H; destruct H as [H|H];
      solve [apply LAltL; now apply IHr1 | apply LAltR; now apply IHr2].
  - rewrite mk_cat_iff. split.
    + intros H. apply cat_inv in H. destruct H as (s0 & t & -> & H1 & H2). apply IHr in H1.
      change (c :: s0 ++ t) with ((c :: s0) ++ t). now constructor.
    + intros H. apply star_cons_inv in H. destruct H as (s1 & s2 & -> & H1 & H2). constructor; [now apply IHr | assumption].
  - rewrite mk_cat_iff. split.
    + intros H. apply cat_inv in H. destruct H as (s0 & t & -> & H1 & H2). apply IHr in H1.
      change (c :: s0 ++ t) with ((c :: s0) ++ t). now constructor.
    + intros H. apply plus_inv in H. destruct H as (s0 & t & E & H1 & H2). destruct s0 as [|x s0'].
      * cbn in E. subst t. apply star_cons_inv in H2. destruct H2 as (s1 & s2 & -> & H1' & H2').
        constructor; [now apply IHr | assumption].
      * cbn in E. injection E as -> ->. constructor; [now apply IHr | assumption].
  - rewrite IHr. split; [now constructor | intros H; apply opt_inv in H; destruct H as [H|H]; [discriminate | assumption]].
Qed.

Theorem matches_iff r s : matches r s = true <-> lang r s.
Proof.
  unfold matches, derivs. revert r. induction s as [|c s IH]; intros r; cbn [fold_left].
  - apply nullable_iff.
  - rewrite IH. apply deriv_iff.
Qed.
