(* C16: printing numeric values, and an SMT-LIB reader for what is printed.  Definitions only.
   src/logics/ArithLogic.cc:1131-1185  ArithLogic::termToSMT2StringImpl on numeric constants
   src/common/numbers/FastRational.cc:76-113  FastRational::print, print_, get_str *)
From Coq Require Import ZArith NArith QArith List Ascii Bool.
From OsmtV.Num Require Import Chars LitModel.
Import ListNotations.
Local Open Scope N_scope.

Definition lit (l : list N) : str := map ch l.
Definition s_lp_slash : str := lit [40; 47; 32].            (* "(/ " *)
Definition s_lp_minus : str := lit [40; 45; 32].            (* "(- " *)
Definition s_rp : str := lit [41].                          (* ")" *)
Definition s_sp : str := lit [32].                          (* " " *)

(* FastRational::get_str / print_ of a canonical value: the same text as gmp's %Qd *)
Definition get_str (q : Q) : str := qd_str q.

Definition q_abs (q : Q) : Q := Qmake (Z.abs (Qnum q)) (Qden q).
Definition q_is_neg (q : Q) : bool := (Qnum q <? 0)%Z.

(* the text termToSMT2StringImpl builds for a constant whose (canonical) value is q:
   v.negate() if negative; rat_str = v.get_str(); split at '/' *)
Definition term_print (q : Q) : str :=
  let neg := q_is_neg q in
  let a := q_abs q in
  match Qden a with
  | xH => if neg then s_lp_minus ++ Z_to_str (Qnum a) ++ s_rp else Z_to_str (Qnum a)
  | d => if neg then s_lp_slash ++ s_lp_minus ++ Z_to_str (Qnum a) ++ s_rp ++ s_sp ++ N_to_str (Npos d) ++ s_rp
         else s_lp_slash ++ Z_to_str (Qnum a) ++ s_sp ++ N_to_str (Npos d) ++ s_rp
  end.

(* termToSMT2StringImpl(tr) for the constant named `name`: the value is re-read from the NAME
   (stringToRational, then Number(tmp_str)), not from the stored number *)
Inductive print_result := Printed (s : str) | PrintFails.
Definition term_to_smt2 (name : str) : print_result :=
  match string_to_rational name with
  | StrVal q0 => match fr_of_string (qd_str q0) with
                 | FRVal q => Printed (term_print q)
                 | _ => PrintFails
                 end
  | _ => PrintFails
  end.

(* FastRational::print (operator<<): word representation vs mpq representation *)
Definition fits_word (q : Q) : bool :=
  ((- 2147483648 <=? Qnum q) && (Qnum q <=? 2147483647) && (Zpos (Qden q) <=? 4294967295))%Z.
Definition fr_print (q : Q) : str :=
  let neg := q_is_neg q in
  let a := q_abs q in
  if fits_word q then
    match Qden q with
    | xH => if neg then s_lp_minus ++ Z_to_str (Qnum a) ++ s_rp else Z_to_str (Qnum a)
    | d => s_lp_slash ++ (if neg then s_lp_minus ++ Z_to_str (Qnum a) ++ s_rp ++ s_sp else Z_to_str (Qnum a) ++ s_sp)
                      ++ N_to_str (Npos d) ++ s_rp
    end
  else (if neg then s_lp_minus else []) ++ qd_str a ++ (if neg then s_rp else []).

(* ---- a reader for SMT-LIB numeric value terms:  n | (- n) | (/ n d) | (/ (- n) d) ------------------ *)
Fixpoint take_digits (s : str) : str * str :=
  match s with
  | c :: r => if is_digit c then let (d, t) := take_digits r in (c :: d, t) else ([], s)
  | [] => ([], [])
  end.
Fixpoint strip_prefix (p s : str) : option str :=
  match p, s with
  | [], _ => Some s
  | a :: p', b :: s' => if (code a =? code b) then strip_prefix p' s' else None
  | _ :: _, [] => None
  end.
(* <numeral> ::= 0 | a non-empty digit sequence not starting with 0 *)
Definition is_numeral (d : str) : bool :=
  match d with
  | [] => false
  | [c] => is_digit c
  | c :: r => is_posdig c && all_digits r
  end.
Definition read_numeral (s : str) : option (N * str) :=
  let (d, t) := take_digits s in if is_numeral d then Some (digits_val d, t) else None.
Definition read_signed (s : str) : option (Z * str) :=
  match strip_prefix s_lp_minus s with
  | Some r => match read_numeral r with
              | Some (n, r1) => match strip_prefix s_rp r1 with Some r2 => Some ((- Z.of_N n)%Z, r2) | None => None end
              | None => None
              end
  | None => match read_numeral s with Some (n, r) => Some (Z.of_N n, r) | None => None end
  end.
Definition read_num_term (s : str) : option Q :=
  match strip_prefix s_lp_slash s with
  | Some r =>
    match read_signed r with
    | Some (n, r1) =>
      match strip_prefix s_sp r1 with
      | Some r2 =>
        match read_numeral r2 with
        | Some (Npos d, r3) => match strip_prefix s_rp r3 with Some [] => Some (n # d) | _ => None end
        | _ => None
        end
      | None => None
      end
    | None => None
    end
  | None => match read_signed s with Some (n, []) => Some (n # 1) | _ => None end
  end.
