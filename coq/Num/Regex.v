(* C16: regular expressions over character classes, a derivative-based matcher, and flex-style
   longest-match tokenisation (first rule wins among equally long matches).  Definitions only;
   correctness of the matcher is in RegexProofs.v. *)
From Coq Require Import NArith List Ascii Bool.
From OsmtV.Num Require Import Chars.
Import ListNotations.
Local Open Scope N_scope.

Inductive re :=
| Emp                                (* no string *)
| Eps                                (* the empty string *)
| Cls (rs : list (N * N))            (* one character in one of the ranges *)
| NCls (rs : list (N * N))           (* one character in none of the ranges *)
| Cat (a b : re)
| Alt (a b : re)
| Star (a : re)
| Plus (a : re)
| Opt (a : re).

Definition in_ranges (rs : list (N * N)) (c : ascii) : bool :=
  existsb (fun r => (fst r <=? code c) && (code c <=? snd r)) rs.

Fixpoint nullable (r : re) : bool :=
  match r with
  | Emp => false | Eps => true | Cls _ => false | NCls _ => false
  | Cat a b => nullable a && nullable b
  | Alt a b => nullable a || nullable b
  | Star _ => true
  | Plus a => nullable a
  | Opt _ => true
  end.

(* smart constructors keep derivatives small *)
Definition mk_cat (a b : re) : re :=
  match a, b with
  | Emp, _ => Emp | _, Emp => Emp
  | Eps, _ => b | _, Eps => a
  | _, _ => Cat a b
  end.
Definition mk_alt (a b : re) : re :=
  match a, b with
  | Emp, _ => b | _, Emp => a
  | _, _ => Alt a b
  end.

Fixpoint deriv (c : ascii) (r : re) : re :=
  match r with
  | Emp => Emp | Eps => Emp
  | Cls rs => if in_ranges rs c then Eps else Emp
  | NCls rs => if in_ranges rs c then Emp else Eps
  | Cat a b => if nullable a then mk_alt (mk_cat (deriv c a) b) (deriv c b) else mk_cat (deriv c a) b
  | Alt a b => mk_alt (deriv c a) (deriv c b)
  | Star a => mk_cat (deriv c a) (Star a)
  | Plus a => mk_cat (deriv c a) (Star a)
  | Opt a => deriv c a
  end.

Definition derivs (r : re) (s : str) : re := fold_left (fun r c => deriv c r) s r.
Definition matches (r : re) (s : str) : bool := nullable (derivs r s).

(* ---- longest match ---------------------------------------------------------------------- *)
Section Lexer.
Context {T : Type}.

(* index of the first rule whose residual is nullable *)
Fixpoint first_nullable (rs : list (T * re)) : option T :=
  match rs with
  | [] => None
  | (t, r) :: rs' => if nullable r then Some t else first_nullable rs'
  end.

Definition all_dead (rs : list (T * re)) : bool :=
  forallb (fun p => match snd p with Emp => true | _ => false end) rs.

(* scan s with the residuals rs; taken = number of characters consumed so far;
   best = (length, token) of the longest match seen *)
Fixpoint lm_scan (rs : list (T * re)) (s : str) (taken : nat) (best : option (nat * T)) : option (nat * T) :=
  match s with
  | [] => best
  | c :: s' =>
    let rs' := map (fun p => (fst p, deriv c (snd p))) rs in
    let best' := match first_nullable rs' with Some t => Some (S taken, t) | None => best end in
    if all_dead rs' then best' else lm_scan rs' s' (S taken) best'
  end.

Definition longest_match (rules : list (T * re)) (s : str) : option (nat * T) := lm_scan rules s 0 None.

Inductive lex_result := LexOk (toks : list (T * str)) | LexStuck (toks : list (T * str)) (rest : str).

Fixpoint tokenize (fuel : nat) (rules : list (T * re)) (s : str) (acc : list (T * str)) : lex_result :=
  match fuel with
  | O => LexStuck (rev acc) s
  | S fuel' =>
    match s with
    | [] => LexOk (rev acc)
    | _ =>
      match longest_match rules s with
      | Some (S n, t) => tokenize fuel' rules (skipn (S n) s) ((t, firstn (S n) s) :: acc)
      | _ => LexStuck (rev acc) s
      end
    end
  end.

Definition lex (rules : list (T * re)) (s : str) : lex_result := tokenize (S (length s)) rules s [].
End Lexer.
