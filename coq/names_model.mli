
val negb : bool -> bool

type nat =
| O
| S of nat

val option_map : ('a1 -> 'a2) -> 'a1 option -> 'a2 option

val fst : ('a1 * 'a2) -> 'a1

val length : 'a1 list -> nat

val app : 'a1 list -> 'a1 list -> 'a1 list

type comparison =
| Eq
| Lt
| Gt

val compOpp : comparison -> comparison

val add : nat -> nat -> nat

val sub : nat -> nat -> nat

module Nat :
 sig
  val eqb : nat -> nat -> bool

  val leb : nat -> nat -> bool

  val ltb : nat -> nat -> bool
 end

val removelast : 'a1 list -> 'a1 list

val rev : 'a1 list -> 'a1 list

val fold_right : ('a2 -> 'a1 -> 'a1) -> 'a1 -> 'a2 list -> 'a1

val existsb : ('a1 -> bool) -> 'a1 list -> bool

val forallb : ('a1 -> bool) -> 'a1 list -> bool

type positive =
| XI of positive
| XO of positive
| XH

type n =
| N0
| Npos of positive

type z =
| Z0
| Zpos of positive
| Zneg of positive

module Pos :
 sig
  val compare_cont : comparison -> positive -> positive -> comparison

  val compare : positive -> positive -> comparison

  val eqb : positive -> positive -> bool

  val iter_op : ('a1 -> 'a1 -> 'a1) -> positive -> 'a1 -> 'a1

  val to_nat : positive -> nat
 end

module N :
 sig
  val eqb : n -> n -> bool
 end

module Z :
 sig
  val compare : z -> z -> comparison

  val ltb : z -> z -> bool

  val to_nat : z -> nat
 end

type 't svec = { sv_rev : 't list; sv_limits : nat list }

val sv_empty : 'a1 svec

val sv_push : 'a1 -> 'a1 svec -> 'a1 svec

val sv_push_scope : 'a1 svec -> 'a1 svec

val sv_elements : 'a1 svec -> 'a1 list

val sv_size : 'a1 svec -> nat

val sv_is_empty : 'a1 svec -> bool

val sv_pop_loop :
  ('a1 -> 'a2 -> 'a2 option) -> nat -> 'a1 list -> 'a2 -> ('a1 list * 'a2)
  option

val sv_pop_scope :
  ('a1 -> 'a2 -> 'a2 option) -> 'a1 svec -> 'a2 -> ('a1 svec * 'a2) option

type name = n

type term = n

val al_find : n -> (n * 'a1) list -> 'a1 option

val al_remove : n -> (n * 'a1) list -> (n * 'a1) list

val al_set : n -> 'a1 -> (n * 'a1) list -> (n * 'a1) list

val al_has : n -> (n * 'a1) list -> bool

val remove_first : n -> n list -> n list option

type maps = { m_n2t : (name * term) list; m_t2n : (term * name list) list }

type tn = { tn_scoped : (name * term) svec; tn_maps : maps }

val tn_init : tn

val contains_name : tn -> name -> bool

val contains_term : tn -> term -> bool

val term_by_name : tn -> name -> term option

val names_for_term : tn -> term -> name list option

val iteration : tn -> (name * term) list

val tn_size : tn -> nat

type picked =
| PickNone
| PickUB
| PickName of name

val name_for_term : tn -> term -> picked

val try_insert : name -> term -> tn -> tn * bool

val erase_term_name : bool -> name -> maps -> (maps * bool) option

val erase_cb : bool -> (name * term) -> maps -> maps option

val push_scope : bool -> tn -> tn

val pop_scope : bool -> bool -> bool -> tn -> tn option

val erase_direct : bool -> name -> tn -> (tn * bool) option

type df = { df_map : (n * n) list; df_scoped : n svec }

val df_init : df

val df_has : df -> n -> bool

val df_store : bool -> n -> n -> df -> df * bool

val df_push : df -> df

val df_pop : df -> df option

type fixes = { fx_erase : bool; fx_assert : bool; fx_pop : bool;
               fx_names : bool; fx_guard : bool }

type status =
| StUndef
| StSat
| StUnsat
| StUnknown

type resp =
| ROk
| RErr
| ROut

type pev =
| PName of name * term
| PUse of n
| PFail

type aterm = { a_evs : pev list; a_id : term; a_bool : bool }

type opt =
| OGlobal
| OModels
| OCores
| OItp
| OAssign

type cmd =
| CSetLogic of bool
| CSetOpt of opt * bool
| CDeclSort of n
| CDeclFun of n * bool
| CDefFun of n * bool * aterm * bool
| CAssert of aterm
| CPush of z
| CPop of z
| CCheckSat of status
| CGetModel
| CGetValue of aterm list
| CGetUnsatCore
| CGetAssignment
| CGetItp of name list list

type book = { b_init : bool; b_global : bool; b_models : bool;
              b_cores : bool; b_itp : bool; b_assign : bool;
              b_assertions : term list; b_inserted : nat;
              b_frames : term list list; b_parts : (term * nat) list;
              b_names : tn; b_defs : df; b_decls : n list; b_sorts : 
              n list; b_status : status }

val book_init : book

val level : book -> nat

val set_names : book -> tn -> book

val known_sym : book -> n -> bool

val parse : book -> pev list -> book * bool

val reject_after_parse : fixes -> book -> book -> book

val index_of : term -> term list -> nat option

val push1 : book -> book

val pop1 : fixes -> book -> book option

val push_n : nat -> book -> book

val pop_n : fixes -> nat -> book -> (book * bool) option

val int_max : z

val add_assertion_vec : book -> term -> book

val insert_formula : book -> term -> book

val set_opt : book -> opt -> bool -> book

val set_status : book -> status -> book

val is_sat : status -> bool

val is_unsat : status -> bool

val parse_all : book -> aterm list -> book * bool

val group_terms : book -> name list -> term list option

val group_indices : book -> name list -> nat list option

val all_resolve : book -> name list list -> bool

val masks : book -> name list list -> nat list list option

val group_parts : book -> name list -> nat list option

val step : fixes -> book -> cmd -> (book * resp) option
