(* C15 — addition, subtraction, additionAssign, subtractionAssign: the word paths are exact,
   canonical and free of intermediate wrap / undefined behaviour. *)
From Coq Require Import ZArith QArith Qreduction Znumtheory Lia Bool ZifyBool.
From OsmtV.Rat Require Import FRModel FRBase FRGcd FRArith.
Local Open Scope Z_scope.
Local Open Scope fr_scope.

(* fractions *)
Lemma Qplus_frac an ad bn bd n d : 0 < ad -> 0 < bd -> 0 < d ->
  n * (ad * bd) = (an * bd + bn * ad) * d ->
  Qmake n (Z.to_pos d) == Qmake an (Z.to_pos ad) + Qmake bn (Z.to_pos bd).
Proof.
  intros. unfold Qeq, Qplus. simpl. rewrite Pos2Z.inj_mul, !Z2Pos.id by lia. assumption.
Qed.

Lemma Qminus_frac an ad bn bd n d : 0 < ad -> 0 < bd -> 0 < d ->
  n * (ad * bd) = (an * bd - bn * ad) * d ->
  Qmake n (Z.to_pos d) == Qmake an (Z.to_pos ad) - Qmake bn (Z.to_pos bd).
Proof.
  intros. unfold Qeq, Qminus, Qplus, Qopp. simpl. rewrite Pos2Z.inj_mul, !Z2Pos.id by lia. lia.
Qed.

(* ------------------------------------------------------------------------------------------ *)
(* the common tail                                                                             *)

Lemma reduce_tail_spec conv test n d :
  LWORD_MIN <= n <= LWORD_MAX -> 1 <= d <= ULWORD_MAX ->
  (test (conv (Z.gcd n d)) = true -> conv (Z.gcd n d) = Z.gcd n d /\ 2 <= Z.gcd n d) ->
  (test (conv (Z.gcd n d)) = false -> Z.gcd n d = 1 \/ UWORD_MAX < d) ->
  wpost (reduce_tail conv test n d) (Qmake n (Z.to_pos d)).
Proof.
  intros Hn Hd Ht Hf. unfold reduce_tail.
  rewrite absVal_l_abs by exact Hn.
  rewrite gcd_u_correct by lia. rewrite Z.gcd_abs_l. cbn [mbind].
  set (g := Z.gcd n d) in *.
  assert (Hgp : 0 < g) by (apply gcd_pos_r; lia).
  assert (Hgd : g <= d) by (apply gcd_le_r; lia).
  assert (Hgn : (g | n)) by apply Z.gcd_divide_l.
  assert (Hgdd : (g | d)) by apply Z.gcd_divide_r.
  destruct (test (conv g)) eqn:T.
  - destruct (Ht eq_refl) as [Hc Hg2]. rewrite Hc.
    rewrite sdiv64_ok by lia. cbn [mbind]. rewrite quot_exact by (auto; lia).
    assert (Hq : LWORD_MIN <= n / g <= LWORD_MAX).
    { destruct Hgn as [k Hk]. rewrite Hk, Z.div_mul by lia. unfold LWORD_MIN, LWORD_MAX in *. nia. }
    rewrite chk_word_lword by exact Hq.
    destruct (in_word (n / g)) eqn:W; cbn [mbind]; [|exact I].
    rewrite to_ulword_id by (unfold ULWORD_MAX in *; lia).
    rewrite udiv_ok by lia. cbn [mbind].
    assert (Hdq : 1 <= d / g <= d).
    { pose proof (div_gcd_pos d n ltac:(lia)). fold g in H. pose proof (div_le_self d g ltac:(lia) ltac:(lia)). lia. }
    rewrite chk_uword_spec by lia.
    destruct (Z.eqb_spec (d / g) 0); [lia|].
    destruct (Z.leb_spec (d / g) UWORD_MAX); cbn [mbind]; [|exact I].
    simpl. apply in_word_iff in W. split.
    + repeat split; try lia. apply Z.gcd_div_gcd; [lia | reflexivity].
    + apply Qmake_eq_cross; try lia.
      destruct Hgn as [k Hk]. destruct Hgdd as [k' Hk']. rewrite Hk, Hk', !Z.div_mul by lia. ring.
  - destruct (Hf eq_refl) as [Hg1|Hbig].
    + rewrite chk_word_lword by exact Hn.
      destruct (in_word n) eqn:W; cbn [mbind]; [|exact I].
      rewrite chk_uword_spec by lia.
      destruct (Z.eqb_spec d 0); [lia|].
      destruct (Z.leb_spec d UWORD_MAX); cbn [mbind]; [|exact I].
      simpl. apply in_word_iff in W. split; [|reflexivity]. repeat split; first [lia | exact Hg1].
    + rewrite chk_word_lword by exact Hn.
      destruct (in_word n) eqn:W; cbn [mbind]; [|exact I].
      rewrite chk_uword_spec by lia.
      destruct (Z.eqb_spec d 0); [lia|].
      destruct (Z.leb_spec d UWORD_MAX); cbn [mbind]; [lia|exact I].
Qed.

(* `uword common = gcd(absVal(n), d)`: no truncation when the 64-bit gcd is at most UWORD_MAX *)
Lemma reduce_tail_uword test n d : (test = ne1 \/ test = gt1) ->
  LWORD_MIN <= n <= LWORD_MAX -> 1 <= d <= ULWORD_MAX -> Z.gcd n d <= UWORD_MAX ->
  wpost (reduce_tail to_uword test n d) (Qmake n (Z.to_pos d)).
Proof.
  intros Ht Hn Hd Hg.
  assert (Hgp : 0 < Z.gcd n d) by (apply gcd_pos_r; lia).
  apply reduce_tail_spec; auto; rewrite to_uword_id by lia.
  - intros T. split; [reflexivity|]. destruct Ht; subst test; unfold ne1, gt1 in T; lia.
  - intros T. left. destruct Ht; subst test; unfold ne1, gt1 in T; lia.
Qed.

(* `lword common = gcd(absVal(n), d)` in additionAssign: a gcd at or above 2^63 converts to a
   negative lword, the `common > 1` test fails, and CHECK_UWORD(zd, d) sends the case to GMP *)
Lemma reduce_tail_lword n d :
  LWORD_MIN <= n <= LWORD_MAX -> 1 <= d <= ULWORD_MAX ->
  wpost (reduce_tail to_lword gt1 n d) (Qmake n (Z.to_pos d)).
Proof.
  intros Hn Hd.
  assert (Hgp : 0 < Z.gcd n d) by (apply gcd_pos_r; lia).
  assert (Hgd : Z.gcd n d <= d) by (apply gcd_le_r; lia).
  destruct (Z.le_gt_cases (Z.gcd n d) LWORD_MAX) as [Hs|Hb].
  - apply reduce_tail_spec; auto; rewrite to_lword_id by (unfold LWORD_MIN; lia).
    + intros T. split; [reflexivity|]. unfold gt1 in T. lia.
    + intros T. left. unfold gt1 in T. lia.
  - apply reduce_tail_spec; auto; rewrite to_lword_high by lia.
    + intros T. unfold gt1, ULWORD_MAX in *. lia.
    + intros _. right. unfold LWORD_MAX, UWORD_MAX in *. lia.
Qed.

(* ------------------------------------------------------------------------------------------ *)
(* addition                                                                                    *)

Section TwoWords.
Variables an ad bn bd : Z.
Hypothesis Ha : wfW an ad.
Hypothesis Hb : wfW bn bd.

Let c := Z.gcd ad bd.
Let p := ad / c.
Let q := bd / c.

Lemma common_facts : 1 <= c <= UWORD_MAX /\ ad = c * p /\ bd = c * q /\ 1 <= p <= ad /\ 1 <= q <= bd.
Proof.
  destruct Ha as (_ & Had & _), Hb as (_ & Hbd & _).
  assert (0 < c) by (apply gcd_pos_r; lia).
  assert (c <= bd) by (apply gcd_le_r; lia).
  assert (E1 : ad = c * p) by (symmetry; apply div_mul_exact; [lia | apply Z.gcd_divide_l]).
  assert (E2 : bd = c * q) by (symmetry; apply div_mul_exact; [lia | apply Z.gcd_divide_r]).
  repeat split; try lia; try nia.
Qed.

(* the numerator and denominator over the least common denominator *)
Lemma lcd_gcd_le s : (s = 1 \/ s = -1) -> Z.gcd (an * q + s * (bn * p)) (ad * q) <= UWORD_MAX.
Proof.
  intros Hs. destruct common_facts as (Hc & E1 & E2 & Hp & Hq).
  destruct Ha as (_ & _ & Ga), Hb as (_ & _ & Gb).
  assert (Hdv : (Z.gcd (an * q + s * (bn * p)) (c * p * q) | c)).
  { apply gcd_sum_divides_common with (ad := ad) (bd := bd); auto; lia. }
  replace (ad * q) with (c * p * q) by (rewrite E1 at 1; ring).
  apply Z.divide_pos_le in Hdv; lia.
Qed.

Lemma add_word_spec :
  wpost (add_word an ad bn bd) (Qmake an (Z.to_pos ad) + Qmake bn (Z.to_pos bd)).
Proof.
  destruct common_facts as (Hc & E1 & E2 & Hp & Hq).
  destruct Ha as (Han & Had & Ga), Hb as (Hbn & Hbd & Gb).
  unfold add_word.
  destruct (Z.eqb_spec bn 0) as [->|Hbn0].
  { simpl. split; [exact Ha|]. apply Qplus_frac; try lia; ring. }
  destruct (Z.eqb_spec an 0) as [->|Han0].
  { simpl. split; [exact Hb|]. apply Qplus_frac; try lia; ring. }
  destruct ((ad =? bd) && (bn >? WORD_MIN) && (an =? - bn)) eqn:Eneg.
  { simpl. split; [repeat split; unfold WORD_MIN, WORD_MAX, UWORD_MAX; try lia; reflexivity|].
    assert (ad = bd /\ an = - bn) as [-> ->] by lia.
    change (Z.to_pos 1) with 1%positive. apply (Qplus_frac (-bn) bd bn bd 0 1); try lia. }
  clear Eneg.
  destruct (Z.eqb_spec bd 1) as [->|Hbd1].
  { pose proof (mul_w_uw bn ad Hbn ltac:(lia)).
    rewrite smul64_ok by (unfold LWORD_MIN, LWORD_MAX; lia). cbn [mbind].
    assert (LWORD_MIN <= an + bn * ad <= LWORD_MAX).
    { unfold LWORD_MIN, LWORD_MAX, WORD_MIN, WORD_MAX, UWORD_MAX in *. nia. }
    rewrite sadd64_ok by assumption. cbn [mbind].
    rewrite chk_word_lword by assumption.
    destruct (in_word (an + bn * ad)) eqn:W; cbn [mbind]; [|exact I].
    apply in_word_iff in W. simpl. split.
    - repeat split; try lia. rewrite Z.gcd_comm, Z.gcd_add_mult_diag_r, Z.gcd_comm. exact Ga.
    - change (bn # 1)%Q with (bn # Z.to_pos 1)%Q. apply Qplus_frac; try lia; ring. }
  destruct (Z.eqb_spec ad 1) as [->|Had1].
  { pose proof (mul_w_uw an bd Han ltac:(lia)).
    rewrite smul64_ok by (unfold LWORD_MIN, LWORD_MAX; lia). cbn [mbind].
    assert (LWORD_MIN <= bn + an * bd <= LWORD_MAX).
    { unfold LWORD_MIN, LWORD_MAX, WORD_MIN, WORD_MAX, UWORD_MAX in *. nia. }
    rewrite sadd64_ok by assumption. cbn [mbind].
    rewrite chk_word_lword by assumption.
    destruct (in_word (bn + an * bd)) eqn:W; cbn [mbind]; [|exact I].
    apply in_word_iff in W. simpl. split.
    - repeat split; try lia. rewrite Z.gcd_comm, Z.gcd_add_mult_diag_r, Z.gcd_comm. exact Gb.
    - change (an # 1)%Q with (an # Z.to_pos 1)%Q. apply Qplus_frac; try lia; ring. }
  rewrite gcd_u_correct by lia. fold c. cbn [mbind].
  rewrite udiv_ok by lia. fold q. cbn [mbind].
  (* both branches of `if (common != 1)` compute n1 = an*q, n2 = bn*p *)
  assert (Hn12 : (if ne1 c
                  then aq <- udiv ad c;; n1 <- smul64 an q;; n2 <- smul64 bn aq;; MOk (n1, n2)
                  else n1 <- smul64 an bd;; n2 <- smul64 bn ad;; MOk (n1, n2)) = MOk (an * q, bn * p)).
  { pose proof (mul_w_uw an q Han ltac:(lia)). pose proof (mul_w_uw bn p Hbn ltac:(lia)).
    destruct (ne1 c) eqn:N.
    - rewrite udiv_ok by lia. fold p. cbn [mbind].
      rewrite !smul64_ok by (unfold LWORD_MIN, LWORD_MAX; lia). reflexivity.
    - assert (c = 1) by (unfold ne1 in N; lia).
      assert (p = ad) by (unfold p; rewrite H1; apply Z.div_1_r).
      assert (q = bd) by (unfold q; rewrite H1; apply Z.div_1_r).
      rewrite <- H2, <- H3. rewrite !smul64_ok by (unfold LWORD_MIN, LWORD_MAX; lia). reflexivity. }
  rewrite Hn12. cbn [mbind]. unfold chk_sum_lword.
  destruct (in_lword (an * q + bn * p)) eqn:L; cbn [mbind]; [|exact I].
  apply in_lword_iff in L.
  pose proof (mul_uw_uw ad q ltac:(lia) ltac:(lia)) as Hadq.
  rewrite umul64_ok by (unfold ULWORD_MAX; lia).
  assert (Hd1 : 1 <= ad * q) by (clear - Had Hq; nia).
  eapply wpost_eq; [|apply reduce_tail_uword; [left; reflexivity | exact L | unfold ULWORD_MAX; lia |]].
  - apply Qplus_frac; first [lia | rewrite E1 at 1 3; rewrite E2 at 1 2; ring].
  - replace (an * q + bn * p) with (an * q + 1 * (bn * p)) by ring. apply lcd_gcd_le. auto.
Qed.


(* `n = n1 - n2` without a check in subtraction() when the denominators share a factor:
   both products are below 2^62 in absolute value, the difference cannot leave lword *)
Lemma sub_common_no_overflow_lemma : 2 <= c ->
  LWORD_MIN <= an * q - bn * p <= LWORD_MAX.
Proof.
  intros Hc2. destruct common_facts as (Hc & E1 & E2 & Hp & Hq).
  destruct Ha as (Han & Had & _), Hb as (Hbn & Hbd & _).
  assert (Hq2 : q <= 2147483647) by (unfold UWORD_MAX in *; nia).
  assert (Hp2 : p <= 2147483647) by (unfold UWORD_MAX in *; nia).
  clear E1 E2.
  assert (-4611686016279904256 <= an * q <= 4611686016279904256) by (unfold WORD_MIN, WORD_MAX in *; nia).
  assert (-4611686016279904256 <= bn * p <= 4611686016279904256) by (unfold WORD_MIN, WORD_MAX in *; nia).
  unfold LWORD_MIN, LWORD_MAX. lia.
Qed.

Lemma sub_word_spec :
  wpost (sub_word an ad bn bd) (Qmake an (Z.to_pos ad) - Qmake bn (Z.to_pos bd)).
Proof.
  destruct common_facts as (Hc & E1 & E2 & Hp & Hq).
  destruct Ha as (Han & Had & Ga), Hb as (Hbn & Hbd & Gb).
  unfold sub_word.
  destruct (Z.eqb_spec bn 0) as [->|Hbn0].
  { simpl. split; [exact Ha|]. apply Qminus_frac; try lia; ring. }
  destruct (Z.eqb_spec an 0) as [->|Han0].
  { rewrite sneg64_ok by (unfold LWORD_MIN, LWORD_MAX, WORD_MIN, WORD_MAX in *; lia). cbn [mbind].
    rewrite chk_word_lword by (unfold LWORD_MIN, LWORD_MAX, WORD_MIN, WORD_MAX in *; lia).
    destruct (in_word (- bn)) eqn:W; cbn [mbind]; [|exact I].
    apply in_word_iff in W. simpl. split.
    - repeat split; try lia. rewrite Z.gcd_opp_l. exact Gb.
    - apply Qminus_frac; try lia; ring. }
  destruct ((ad =? bd) && (an =? bn)) eqn:Eeq.
  { simpl. split; [repeat split; unfold WORD_MIN, WORD_MAX, UWORD_MAX; try lia; reflexivity|].
    assert (ad = bd /\ an = bn) as [-> ->] by lia.
    change (Z.to_pos 1) with 1%positive. apply (Qminus_frac bn bd bn bd 0 1); try lia. }
  clear Eeq.
  destruct (Z.eqb_spec bd 1) as [->|Hbd1].
  { pose proof (mul_w_uw bn ad Hbn ltac:(lia)).
    rewrite smul64_ok by (unfold LWORD_MIN, LWORD_MAX; lia). cbn [mbind].
    assert (LWORD_MIN <= an - bn * ad <= LWORD_MAX).
    { unfold LWORD_MIN, LWORD_MAX, WORD_MIN, WORD_MAX, UWORD_MAX in *. nia. }
    rewrite ssub64_ok by assumption. cbn [mbind].
    rewrite chk_word_lword by assumption.
    destruct (in_word (an - bn * ad)) eqn:W; cbn [mbind]; [|exact I].
    apply in_word_iff in W. simpl. split.
    - repeat split; try lia.
      replace (an - bn * ad) with (an + (- bn) * ad) by ring.
      rewrite Z.gcd_comm, Z.gcd_add_mult_diag_r, Z.gcd_comm. exact Ga.
    - change (bn # 1)%Q with (bn # Z.to_pos 1)%Q. apply Qminus_frac; try lia; ring. }
  destruct (Z.eqb_spec ad 1) as [->|Had1].
  { pose proof (mul_w_uw an bd Han ltac:(lia)).
    rewrite smul64_ok by (unfold LWORD_MIN, LWORD_MAX; lia). cbn [mbind].
    assert (LWORD_MIN <= an * bd - bn <= LWORD_MAX).
    { unfold LWORD_MIN, LWORD_MAX, WORD_MIN, WORD_MAX, UWORD_MAX in *. nia. }
    rewrite ssub64_ok by assumption. cbn [mbind].
    rewrite chk_word_lword by assumption.
    destruct (in_word (an * bd - bn)) eqn:W; cbn [mbind]; [|exact I].
    apply in_word_iff in W. simpl. split.
    - repeat split; try lia.
      replace (an * bd - bn) with ((- bn) + an * bd) by ring.
      rewrite Z.gcd_comm, Z.gcd_add_mult_diag_r, Z.gcd_comm, Z.gcd_opp_l. exact Gb.
    - change (an # 1)%Q with (an # Z.to_pos 1)%Q. apply Qminus_frac; try lia; ring. }
  rewrite gcd_u_correct by lia. fold c. cbn [mbind].
  pose proof (mul_w_uw an q Han ltac:(lia)) as Hn1. pose proof (mul_w_uw bn p Hbn ltac:(lia)) as Hn2.
  pose proof (mul_uw_uw ad q ltac:(lia) ltac:(lia)) as Hadq.
  assert (Hd1 : 1 <= ad * q) by (clear - Had Hq; nia).
  assert (Hfin : forall n, LWORD_MIN <= n <= LWORD_MAX -> n = an * q - bn * p ->
                 wpost (reduce_tail to_uword ne1 n (ad * q)) (Qmake an (Z.to_pos ad) - Qmake bn (Z.to_pos bd))).
  { intros n L ->.
    eapply wpost_eq; [|apply reduce_tail_uword; [left; reflexivity | exact L | unfold ULWORD_MAX; lia |]].
    - apply Qminus_frac; first [lia | rewrite E1 at 1 3; rewrite E2 at 1 2; ring].
    - replace (an * q - bn * p) with (an * q + (-1) * (bn * p)) by ring. apply lcd_gcd_le. auto. }
  destruct (ne1 c) eqn:N.
  - rewrite !udiv_ok by lia. fold p q. cbn [mbind].
    rewrite !smul64_ok by (unfold LWORD_MIN, LWORD_MAX; lia). cbn [mbind].
    assert (L : LWORD_MIN <= an * q - bn * p <= LWORD_MAX)
      by (apply sub_common_no_overflow_lemma; unfold ne1 in N; lia).
    rewrite ssub64_ok by exact L. cbn [mbind].
    rewrite umul64_ok by (unfold ULWORD_MAX; lia).
    apply Hfin; auto.
  - assert (Hc1 : c = 1) by (unfold ne1 in N; lia).
    assert (Hpa : p = ad) by (unfold p; rewrite Hc1; apply Z.div_1_r).
    assert (Hqb : q = bd) by (unfold q; rewrite Hc1; apply Z.div_1_r).
    rewrite Hqb, Hpa in Hfin. rewrite Hqb in Hn1, Hadq. rewrite Hpa in Hn2.
    rewrite !smul64_ok by (unfold LWORD_MIN, LWORD_MAX; lia). cbn [mbind].
    unfold chk_sub_lword.
    destruct (in_lword (an * bd - bn * ad)) eqn:L; cbn [mbind]; [|exact I].
    apply in_lword_iff in L.
    rewrite umul64_ok by (unfold ULWORD_MAX; lia).
    apply Hfin; auto.
Qed.

Lemma addA_word_spec :
  wpost (addA_word an ad bn bd) (Qmake an (Z.to_pos ad) + Qmake bn (Z.to_pos bd)).
Proof.
  destruct Ha as (Han & Had & Ga), Hb as (Hbn & Hbd & Gb).
  unfold addA_word.
  destruct (Z.eqb_spec bd 1) as [->|Hbd1].
  { pose proof (mul_w_uw bn ad Hbn ltac:(lia)).
    rewrite smul64_ok by (unfold LWORD_MIN, LWORD_MAX; lia). cbn [mbind].
    assert (LWORD_MIN <= an + bn * ad <= LWORD_MAX).
    { unfold LWORD_MIN, LWORD_MAX, WORD_MIN, WORD_MAX, UWORD_MAX in *. nia. }
    rewrite sadd64_ok by assumption. cbn [mbind].
    rewrite chk_word_lword by assumption.
    destruct (in_word (an + bn * ad)) eqn:W; cbn [mbind]; [|exact I].
    apply in_word_iff in W. simpl. split.
    - repeat split; try lia. rewrite Z.gcd_comm, Z.gcd_add_mult_diag_r, Z.gcd_comm. exact Ga.
    - change (bn # 1)%Q with (bn # Z.to_pos 1)%Q. apply Qplus_frac; try lia; ring. }
  destruct (Z.eqb_spec an 0) as [->|Han0].
  { simpl. split; [exact Hb|]. apply Qplus_frac; try lia; ring. }
  pose proof (mul_w_uw an bd Han ltac:(lia)) as Hn1. pose proof (mul_w_uw bn ad Hbn ltac:(lia)) as Hn2.
  rewrite !smul64_ok by (unfold LWORD_MIN, LWORD_MAX; lia). cbn [mbind].
  unfold chk_sum_lword.
  destruct (in_lword (an * bd + bn * ad)) eqn:L; cbn [mbind]; [|exact I].
  apply in_lword_iff in L.
  pose proof (mul_uw_uw ad bd ltac:(lia) ltac:(lia)) as Hadq.
  assert (Hd1 : 1 <= ad * bd) by (clear - Had Hbd; nia).
  rewrite umul64_ok by (unfold ULWORD_MAX; lia).
  eapply wpost_eq; [|apply reduce_tail_lword; [exact L | unfold ULWORD_MAX; lia]].
  apply Qplus_frac; try lia; ring.
Qed.

Lemma subA_word_spec :
  wpost (subA_word an ad bn bd) (Qmake an (Z.to_pos ad) - Qmake bn (Z.to_pos bd)).
Proof.
  destruct common_facts as (Hc & E1 & E2 & Hp & Hq).
  destruct Ha as (Han & Had & Ga), Hb as (Hbn & Hbd & Gb).
  unfold subA_word.
  rewrite gcd_u_correct by lia. fold c. cbn [mbind].
  rewrite !udiv_ok by lia. fold p q. cbn [mbind].
  pose proof (mul_w_uw an q Han ltac:(lia)) as Hn1. pose proof (mul_w_uw bn p Hbn ltac:(lia)) as Hn2.
  rewrite smul64_ok by (unfold LWORD_MIN, LWORD_MAX; lia). cbn [mbind].
  rewrite chk_word_lword by (unfold LWORD_MIN, LWORD_MAX; lia).
  destruct (in_word (an * q)) eqn:W1; cbn [mbind]; [|exact I].
  rewrite smul64_ok by (unfold LWORD_MIN, LWORD_MAX; lia). cbn [mbind].
  rewrite chk_word_lword by (unfold LWORD_MIN, LWORD_MAX; lia).
  destruct (in_word (bn * p)) eqn:W2; cbn [mbind]; [|exact I].
  apply in_word_iff in W1. apply in_word_iff in W2.
  assert (L : LWORD_MIN <= an * q - bn * p <= LWORD_MAX)
    by (unfold LWORD_MIN, LWORD_MAX, WORD_MIN, WORD_MAX in *; lia).
  rewrite ssub64_ok by exact L. cbn [mbind].
  pose proof (mul_uw_uw ad q ltac:(lia) ltac:(lia)) as Hadq.
  assert (Hd1 : 1 <= ad * q) by (clear - Had Hq; nia).
  rewrite umul64_ok by (unfold ULWORD_MAX; lia).
  eapply wpost_eq; [|apply reduce_tail_uword; [right; reflexivity | exact L | unfold ULWORD_MAX; lia |]].
  - apply Qminus_frac; first [lia | rewrite E1 at 1 3; rewrite E2 at 1 2; ring].
  - replace (an * q - bn * p) with (an * q + (-1) * (bn * p)) by ring. apply lcd_gcd_le. auto.
Qed.

End TwoWords.

(* ------------------------------------------------------------------------------------------ *)
(* the operations                                                                              *)

Lemma big_add_exact a b : ok_exact (big_add a b) (value a + value b).
Proof. unfold big_add, gmp_add. apply big_path_exact. rewrite Qred_correct, !mpq_of_value. reflexivity. Qed.

Lemma big_sub_exact a b : ok_exact (big_sub a b) (value a - value b).
Proof. unfold big_sub, gmp_sub. apply big_path_exact. rewrite Qred_correct, !mpq_of_value. reflexivity. Qed.

Theorem fr_add_exact a b : wf a -> wf b -> ok_exact (fr_add a b) (value a + value b).
Proof.
  intros Ha Hb. destruct a as [an ad|qa], b as [bn bd|qb]; try apply big_add_exact.
  unfold fr_add. apply wpost_finish; [apply add_word_spec; assumption | apply big_add_exact].
Qed.

Theorem fr_sub_exact a b : wf a -> wf b -> ok_exact (fr_sub a b) (value a - value b).
Proof.
  intros Ha Hb. destruct a as [an ad|qa], b as [bn bd|qb]; try apply big_sub_exact.
  unfold fr_sub. apply wpost_finish; [apply sub_word_spec; assumption | apply big_sub_exact].
Qed.

Theorem fr_addA_exact a b : wf a -> wf b -> ok_exact (fr_addA a b) (value a + value b).
Proof.
  intros Ha Hb. unfold fr_addA. destruct b as [bn bd|qb]; [|apply big_add_exact].
  destruct (Z.eqb_spec bn 0) as [->|Hbn0].
  - exists a. repeat split; auto.
    assert (E0 : value (Word 0 bd) == 0) by (unfold value, Qeq; simpl; ring).
    rewrite E0, Qplus_0_r. reflexivity.
  - destruct a as [an ad|qa]; [|apply big_add_exact].
    apply wpost_finish; [apply addA_word_spec; assumption | apply big_add_exact].
Qed.

Theorem fr_subA_exact a b : wf a -> wf b -> ok_exact (fr_subA a b) (value a - value b).
Proof.
  intros Ha Hb. destruct a as [an ad|qa], b as [bn bd|qb]; try apply big_sub_exact.
  unfold fr_subA. apply wpost_finish; [apply subA_word_spec; assumption | apply big_sub_exact].
Qed.
