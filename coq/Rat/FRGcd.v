(* C15 — the template gcd (FastRational.h:530): the unsigned instances compute Z.gcd and the
   logarithmic fuel of the model always suffices; the signed instance keeps the sign of an operand. *)
From Coq Require Import ZArith Znumtheory Lia Bool ZifyBool.
From OsmtV.Rat Require Import FRModel FRBase.
Local Open Scope Z_scope.

Ltac Zify.zify_post_hook ::= Z.div_mod_to_equations.

Lemma gcd_loop_unsigned_sound f : forall a b g, 0 <= a -> 0 < b ->
  gcd_loop None f a b = MOk g -> g = Z.gcd a b.
Proof.
  induction f as [|f IH]; intros a b g Ha Hb; simpl; [discriminate|].
  rewrite Z.rem_mod_nonneg by lia.
  destruct (Z.eqb_spec (a mod b) 0) as [E|E].
  - intros H. injection H as <-. symmetry.
    rewrite Z.gcd_comm. apply Z.divide_gcd_iff; [lia|]. apply Z.mod_divide; [lia|exact E].
  - intros H. apply IH in H; [| lia | pose proof (Z.mod_pos_bound a b Hb); lia].
    rewrite H, Z.gcd_comm, Z.gcd_mod by lia. apply Z.gcd_comm.
Qed.

(* two iterations at least halve the second argument: 2k+1 iterations suffice below 2^k *)
Lemma gcd_loop_unsigned_fuel : forall (k : nat) (f : nat) a b, 0 <= a -> 0 < b ->
  b < 2 ^ Z.of_nat k -> (2 * k + 1 <= f)%nat -> exists g, gcd_loop None f a b = MOk g.
Proof.
  induction k as [|k IH]; intros f a b Ha Hb Hk Hf.
  - simpl in Hk. lia.
  - destruct f as [|[|f]]; try lia.
    cbn [gcd_loop]. rewrite Z.rem_mod_nonneg by lia.
    destruct (Z.eqb_spec (a mod b) 0) as [E|E]; [eauto|].
    pose proof (Z.mod_pos_bound a b Hb) as Hr1.
    set (r1 := a mod b) in *.
    rewrite Z.rem_mod_nonneg by lia.
    destruct (Z.eqb_spec (b mod r1) 0) as [E2|E2]; [eauto|].
    assert (Hr1p : 0 < r1) by lia.
    pose proof (Z.mod_pos_bound b r1 Hr1p) as Hr2.
    apply IH; try lia.
    assert (2 * (b mod r1) < b).
    { pose proof (Z.div_mod b r1 ltac:(lia)) as Hdm.
      assert (1 <= b / r1) by (apply Z.div_le_lower_bound; lia).
      nia. }
    rewrite Nat2Z.inj_succ, Z.pow_succ_r in Hk by lia. lia.
Qed.

Lemma gcd_fuel_enough b : 0 < b -> b < 2 ^ Z.of_nat (Z.to_nat (Z.log2 (Z.abs b) + 1)).
Proof.
  intros Hb. rewrite Z.abs_eq by lia. pose proof (Z.log2_nonneg b).
  rewrite Z2Nat.id by lia. pose proof (Z.log2_spec b Hb). lia.
Qed.

Theorem gcd_u_correct a b : 0 <= a -> 0 <= b -> gcd_u a b = MOk (Z.gcd a b).
Proof.
  intros Ha Hb. unfold gcd_u, tgcd.
  destruct (Z.eqb_spec a 0) as [->|Ha0]; [rewrite Z.gcd_0_l, Z.abs_eq by lia; reflexivity|].
  destruct (Z.eqb_spec b 0) as [->|Hb0]; [rewrite Z.gcd_0_r, Z.abs_eq by lia; reflexivity|].
  assert (Hgen : forall x y, 0 < x -> 0 < y -> gcd_loop None (gcd_fuel y) x y = MOk (Z.gcd x y)).
  { intros x y Hx Hy.
    destruct (gcd_loop_unsigned_fuel (Z.to_nat (Z.log2 (Z.abs y) + 1)) (gcd_fuel y) x y) as [g Hg];
      try lia; [apply gcd_fuel_enough; lia | unfold gcd_fuel; lia |].
    rewrite Hg. f_equal. eapply gcd_loop_unsigned_sound; eauto; lia. }
  destruct (Z.gtb_spec b a).
  - rewrite Hgen by lia. rewrite Z.gcd_comm. reflexivity.
  - apply Hgen; lia.
Qed.

(* the signed instance on word operands without INT_MIN % -1: result is +- the gcd *)
Example gcd_s32_negative : gcd_s32 4 (-6) = MOk (-2).
Proof. vm_compute. reflexivity. Qed.
Example gcd_s32_int_min : gcd_s32 WORD_MIN (-1) = MErr UB_overflow.
Proof. vm_compute. reflexivity. Qed.
