(* C15 — a small deep embedding of the C fragment the overflow-check macros of FastRational.h are
   written in, with the C++ semantics of 64-bit signed / unsigned arithmetic (usual arithmetic
   conversions, unsigned wrap, signed overflow = undefined behaviour, short-circuit && ||).
   translate/check_macros.py parses the macro bodies from the header text into these ASTs
   (Gen_CheckMacros.v); CheckMacrosProofs.v proves them equivalent to the range predicates used
   by the model.  Definitions only. *)
From Coq Require Import ZArith String List Bool.
From OsmtV.Rat Require Import FRModel.
Import ListNotations.
Local Open Scope Z_scope.

Inductive cty : Type := TL (* lword: int64_t *) | TU (* ulword: uint64_t *).

Inductive cexpr : Type :=
| EVar (x : string)
| EConst (z : Z)                 (* int / unsigned int / long constant: promoted value-preservingly *)
| EAdd (a b : cexpr) | ESub (a b : cexpr)
| ELt (a b : cexpr) | EGt (a b : cexpr) | ELe (a b : cexpr) | EGe (a b : cexpr)
| EAnd (a b : cexpr) | EOr (a b : cexpr).

Inductive cstmt : Type :=
| SDecl (t : cty) (x : string) (e : cexpr)   (* T x = e;              *)
| SIfGoto (c : cexpr)                        (* if (c) { goto overflow; } *)
| SIfAbort (c : cexpr)                       (* if (c) abort();       *)
| SAssign (x : string) (e : cexpr).          (* var = e;   (the macro's output parameter) *)

Definition cval : Type := (cty * Z)%type.
Definition env : Type := list (string * cval).

Fixpoint lookup (x : string) (r : env) : option cval :=
  match r with
  | [] => None
  | (y, v) :: r' => if String.eqb x y then Some v else lookup x r'
  end.

Definition conv (t : cty) (z : Z) : Z := match t with TL => to_lword z | TU => to_ulword z end.

(* usual arithmetic conversions between the two 64-bit types: unsigned wins *)
Definition join (t1 t2 : cty) : cty := match t1, t2 with TL, TL => TL | _, _ => TU end.

Definition arith (op : Z -> Z -> Z) (a b : cval) : mres cval :=
  let t := join (fst a) (fst b) in
  match t with
  | TU => MOk (TU, to_ulword (op (to_ulword (snd a)) (to_ulword (snd b))))
  | TL => let r := op (snd a) (snd b) in if in_lword r then MOk (TL, r) else MErr UB_overflow
  end.

Definition compare_c (op : Z -> Z -> bool) (a b : cval) : mres cval :=
  let t := join (fst a) (fst b) in
  let r := match t with
           | TU => op (to_ulword (snd a)) (to_ulword (snd b))
           | TL => op (snd a) (snd b)
           end in
  MOk (TL, if r then 1 else 0).

Fixpoint eval (r : env) (e : cexpr) : mres cval :=
  match e with
  | EVar x => match lookup x r with Some v => MOk v | None => MErr Out_of_fuel end
  | EConst z => MOk (TL, z)
  | EAdd a b => mbind (eval r a) (fun x => mbind (eval r b) (fun y => arith Z.add x y))
  | ESub a b => mbind (eval r a) (fun x => mbind (eval r b) (fun y => arith Z.sub x y))
  | ELt a b => mbind (eval r a) (fun x => mbind (eval r b) (fun y => compare_c Z.ltb x y))
  | EGt a b => mbind (eval r a) (fun x => mbind (eval r b) (fun y => compare_c Z.gtb x y))
  | ELe a b => mbind (eval r a) (fun x => mbind (eval r b) (fun y => compare_c Z.leb x y))
  | EGe a b => mbind (eval r a) (fun x => mbind (eval r b) (fun y => compare_c Z.geb x y))
  | EAnd a b => mbind (eval r a) (fun x => if snd x =? 0 then MOk (TL, 0)
                                           else mbind (eval r b) (fun y => MOk (TL, if snd y =? 0 then 0 else 1)))
  | EOr a b => mbind (eval r a) (fun x => if snd x =? 0
                                          then mbind (eval r b) (fun y => MOk (TL, if snd y =? 0 then 0 else 1))
                                          else MOk (TL, 1))
  end.

(* a macro body: runs to the assignment of its output parameter *)
Fixpoint exec (r : env) (ss : list cstmt) : mres Z :=
  match ss with
  | [] => MErr Out_of_fuel
  | SDecl t x e :: ss' => mbind (eval r e) (fun v => exec ((x, (t, conv t (snd v))) :: r) ss')
  | SIfGoto c :: ss' => mbind (eval r c) (fun v => if snd v =? 0 then exec r ss' else MOvf)
  | SIfAbort c :: ss' => mbind (eval r c) (fun v => if snd v =? 0 then exec r ss' else MErr Abort_called)
  | SAssign _ e :: _ => mbind (eval r e) (fun v => MOk (snd v))
  end.

Definition has_type (t : cty) (z : Z) : Prop :=
  match t with TL => LWORD_MIN <= z <= LWORD_MAX | TU => 0 <= z <= ULWORD_MAX end.
