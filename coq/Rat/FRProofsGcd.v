(* C15 — gcd and lcm of integer-valued rationals: the repaired word path is exact; the present
   word path (signed template gcd) is exact on non-negative operands and refuted otherwise. *)
From Coq Require Import ZArith QArith Qreduction Znumtheory Lia Bool ZifyBool.
From OsmtV.Rat Require Import FRModel FRBase FRGcd FRArith FRProofsCtor FRProofsMul.
Local Open Scope Z_scope.
Local Open Scope fr_scope.

(* integer-valued well-formed numbers *)
Lemma int_mpq x z : wf x -> value x == z # 1 -> mpq_of x = z # 1.
Proof.
  intros Hx E. apply canonical_eq; [apply wf_mpq_canonical; exact Hx | apply canonical_int |].
  rewrite mpq_of_value. exact E.
Qed.

Lemma int_word n d z : wf (Word n d) -> value (Word n d) == z # 1 -> n = z /\ d = 1.
Proof.
  intros Hx E. pose proof (int_mpq _ _ Hx E) as H. simpl in H. injection H as H1 H2.
  destruct Hx as (_ & Hd & _). split; [exact H1|].
  rewrite <- (Z2Pos.id d) by lia. rewrite H2. reflexivity.
Qed.

Lemma int_num x z : wf x -> value x == z # 1 -> Qnum (mpq_of x) = z.
Proof. intros Hx E. rewrite (int_mpq x z Hx E). reflexivity. Qed.

(* ------------------------------------------------------------------------------------------ *)
(* repaired gcd                                                                                *)

Theorem fr_gcd_fixed_exact a b za zb : wf a -> wf b -> value a == za # 1 -> value b == zb # 1 ->
  ok_exact (fr_gcd_fixed a b) (Z.gcd za zb # 1).
Proof.
  intros Ha Hb Ea Eb.
  assert (Hbig : ok_exact (Ok (of_mpz (Z.gcd (Qnum (mpq_of a)) (Qnum (mpq_of b))))) (Z.gcd za zb # 1)).
  { rewrite (int_num a za), (int_num b zb) by assumption. apply exact_ok. apply of_mpz_exact. }
  destruct a as [an ad|qa], b as [bn bd|qb]; try exact Hbig.
  destruct (int_word _ _ _ Ha Ea) as [-> ->]. destruct (int_word _ _ _ Hb Eb) as [-> ->].
  destruct Ha as (Han & _), Hb as (Hbn & _).
  unfold fr_gcd_fixed. rewrite !absVal_w_abs by assumption.
  rewrite gcd_u_correct by lia. rewrite Z.gcd_abs_l, Z.gcd_abs_r. cbn [lift rbind].
  apply exact_ok. apply of_uint32_exact.
  pose proof (Z.gcd_nonneg za zb).
  destruct (Z.eq_dec zb 0) as [->|Hz].
  - rewrite Z.gcd_0_r. unfold WORD_MIN, WORD_MAX, UWORD_MAX in *. lia.
  - assert (Z.gcd za zb <= Z.abs zb).
    { rewrite <- Z.gcd_abs_r. apply gcd_le_r. lia. }
    unfold WORD_MIN, WORD_MAX, UWORD_MAX in *. lia.
Qed.

(* ------------------------------------------------------------------------------------------ *)
(* present gcd: the signed template instance                                                   *)

Lemma gcd_loop_signed_nonneg m f : m < 0 -> forall a b, 0 <= a -> 0 < b ->
  gcd_loop (Some m) f a b = gcd_loop None f a b.
Proof.
  intros Hm. induction f as [|f IH]; intros a b Ha Hb; simpl; [reflexivity|].
  destruct (Z.eqb_spec a m); [lia|]. simpl.
  rewrite Z.rem_mod_nonneg by lia.
  destruct (Z.eqb_spec (a mod b) 0); [reflexivity|].
  apply IH; [lia | pose proof (Z.mod_pos_bound a b Hb); lia].
Qed.

Lemma gcd_s32_nonneg a b : 0 <= a -> 0 <= b -> gcd_s32 a b = MOk (Z.gcd a b).
Proof.
  intros Ha Hb. rewrite <- gcd_u_correct by assumption. unfold gcd_s32, gcd_u, tgcd.
  destruct (Z.eqb_spec a 0); [reflexivity|]. destruct (Z.eqb_spec b 0); [reflexivity|].
  destruct (Z.gtb_spec b a); apply gcd_loop_signed_nonneg; unfold WORD_MIN; lia.
Qed.

Theorem fr_gcd_exact_partial a b za zb : wf a -> wf b -> value a == za # 1 -> value b == zb # 1 ->
  (* not both held as machine words, or both non-negative *)
  (match a, b with Word _ _, Word _ _ => 0 <= za /\ 0 <= zb | _, _ => True end) ->
  ok_exact (fr_gcd a b) (Z.gcd za zb # 1).
Proof.
  intros Ha Hb Ea Eb Hs.
  assert (Hbig : ok_exact (Ok (of_mpz (Z.gcd (Qnum (mpq_of a)) (Qnum (mpq_of b))))) (Z.gcd za zb # 1)).
  { rewrite (int_num a za), (int_num b zb) by assumption. apply exact_ok. apply of_mpz_exact. }
  destruct a as [an ad|qa], b as [bn bd|qb]; try exact Hbig.
  destruct (int_word _ _ _ Ha Ea) as [-> ->]. destruct (int_word _ _ _ Hb Eb) as [-> ->].
  destruct Ha as (Han & _), Hb as (Hbn & _). destruct Hs as [Pa Pb].
  unfold fr_gcd. rewrite gcd_s32_nonneg by assumption. cbn [lift rbind].
  apply exact_ok. apply of_word_exact.
  pose proof (Z.gcd_nonneg za zb).
  destruct (Z.eq_dec zb 0) as [->|Hz].
  - rewrite Z.gcd_0_r. unfold WORD_MIN, WORD_MAX in *. lia.
  - assert (Z.gcd za zb <= zb) by (apply gcd_le_r; lia).
    unfold WORD_MIN, WORD_MAX in *. lia.
Qed.

(* DESIGN §9 #11: gcd(4,-6) = -2 on the word path *)
Theorem fr_gcd_word_path_refuted_lemma :
  exists a b r, wf a /\ wf b /\ value a == 4 # 1 /\ value b == (-6) # 1 /\
                fr_gcd a b = Ok r /\ ~ value r == Z.gcd 4 (-6) # 1.
Proof.
  exists (Word 4 1), (Word (-6) 1), (Word (-2) 1).
  repeat split; try (vm_compute; intuition congruence).
Qed.

(* gcd(INT_MIN, -1): INT_MIN % -1 is evaluated *)
Theorem fr_gcd_int_min_refuted_lemma :
  wf (Word WORD_MIN 1) /\ wf (Word (-1) 1) /\ fr_gcd (Word WORD_MIN 1) (Word (-1) 1) = Err UB_overflow.
Proof. repeat split; vm_compute; intuition congruence. Qed.

(* ------------------------------------------------------------------------------------------ *)
(* lcm                                                                                         *)

Lemma lcm_via_gcd a b : 0 < a -> 0 < b -> (b / Z.gcd a b) * a = Z.lcm a b.
Proof.
  intros Ha Hb. unfold Z.lcm. rewrite Z.abs_eq.
  - ring.
  - apply Z.mul_nonneg_nonneg; [lia|]. apply Z.div_pos; [lia|]. apply gcd_pos_r. lia.
Qed.

Lemma uint32_value x : 0 <= x <= UWORD_MAX -> wf (of_uint32 x) /\ value (of_uint32 x) == x # 1.
Proof. apply of_uint32_exact. Qed.

Lemma lcm_uword_exact a b : 0 <= a <= UWORD_MAX -> 0 <= b <= UWORD_MAX ->
  ok_exact (lcm_uword a b) (Z.lcm a b # 1).
Proof.
  intros Ha Hb. unfold lcm_uword.
  destruct (Z.eqb_spec a 0) as [->|Ha0].
  { rewrite Z.lcm_0_l. apply exact_ok. apply of_word_exact. unfold WORD_MIN, WORD_MAX. lia. }
  destruct (Z.eqb_spec b 0) as [->|Hb0].
  { rewrite Z.lcm_0_r. apply exact_ok. apply of_word_exact. unfold WORD_MIN, WORD_MAX. lia. }
  rewrite gcd_u_correct by lia. cbn [lift rbind].
  assert (Hg : 0 < Z.gcd a b) by (apply gcd_pos_r; lia).
  assert (Hgb : Z.gcd a b <= b) by (apply gcd_le_r; lia).
  assert (Hga : Z.gcd a b <= a) by (rewrite Z.gcd_comm; apply gcd_le_r; lia).
  rewrite !udiv_ok by lia.
  destruct (Z.gtb_spec b a); cbn [lift rbind].
  - pose proof (div_le_self b (Z.gcd a b) ltac:(lia) Hg).
    destruct (uint32_value (b / Z.gcd a b)) as [W1 V1]; [lia|].
    destruct (uint32_value a) as [W2 V2]; [lia|].
    eapply ok_exact_eq; [|apply fr_mul_exact; assumption].
    rewrite V1, V2. rewrite <- lcm_via_gcd by lia. unfold Qmult, Qeq. simpl. ring.
  - pose proof (div_le_self a (Z.gcd a b) ltac:(lia) Hg).
    destruct (uint32_value (a / Z.gcd a b)) as [W1 V1]; [lia|].
    destruct (uint32_value b) as [W2 V2]; [lia|].
    eapply ok_exact_eq; [|apply fr_mul_exact; assumption].
    rewrite V1, V2. rewrite Z.lcm_comm, Z.gcd_comm, <- lcm_via_gcd by lia. unfold Qmult, Qeq. simpl. ring.
Qed.

Theorem fr_lcm_fixed_exact a b za zb : wf a -> wf b -> value a == za # 1 -> value b == zb # 1 ->
  ok_exact (fr_lcm_fixed a b) (Z.lcm za zb # 1).
Proof.
  intros Ha Hb Ea Eb.
  assert (Hbig : ok_exact (Ok (of_mpz (Z.lcm (Qnum (mpq_of a)) (Qnum (mpq_of b))))) (Z.lcm za zb # 1)).
  { rewrite (int_num a za), (int_num b zb) by assumption. apply exact_ok. apply of_mpz_exact. }
  destruct a as [an ad|qa], b as [bn bd|qb]; try exact Hbig.
  destruct (int_word _ _ _ Ha Ea) as [-> ->]. destruct (int_word _ _ _ Hb Eb) as [-> ->].
  destruct Ha as (Han & _), Hb as (Hbn & _).
  unfold fr_lcm_fixed. rewrite !absVal_w_abs by assumption.
  rewrite <- Z.lcm_abs_l, <- Z.lcm_abs_r.
  apply lcm_uword_exact; unfold WORD_MIN, WORD_MAX, UWORD_MAX in *; lia.
Qed.

(* present lcm on positive word operands (all callers in src/ pass positive denominators) *)
Theorem fr_lcm_exact_partial a b za zb : wf a -> wf b -> value a == za # 1 -> value b == zb # 1 ->
  (match a, b with Word _ _, Word _ _ => 0 <= za /\ 0 <= zb | _, _ => True end) ->
  ok_exact (fr_lcm a b) (Z.lcm za zb # 1).
Proof.
  intros Ha Hb Ea Eb Hs.
  assert (Hbig : ok_exact (Ok (of_mpz (Z.lcm (Qnum (mpq_of a)) (Qnum (mpq_of b))))) (Z.lcm za zb # 1)).
  { rewrite (int_num a za), (int_num b zb) by assumption. apply exact_ok. apply of_mpz_exact. }
  destruct a as [an ad|qa], b as [bn bd|qb]; try exact Hbig.
  destruct (int_word _ _ _ Ha Ea) as [-> ->]. destruct (int_word _ _ _ Hb Eb) as [-> ->].
  destruct Ha as (Han & _), Hb as (Hbn & _). destruct Hs as [Pa Pb].
  unfold fr_lcm, lcm_word.
  destruct (Z.eqb_spec za 0) as [->|Ha0].
  { rewrite Z.lcm_0_l. apply exact_ok. apply of_word_exact. unfold WORD_MIN, WORD_MAX. lia. }
  destruct (Z.eqb_spec zb 0) as [->|Hb0].
  { rewrite Z.lcm_0_r. apply exact_ok. apply of_word_exact. unfold WORD_MIN, WORD_MAX. lia. }
  rewrite gcd_s32_nonneg by lia. cbn [lift rbind].
  assert (Hg : 0 < Z.gcd za zb) by (apply gcd_pos_r; lia).
  assert (Hgb : Z.gcd za zb <= zb) by (apply gcd_le_r; lia).
  assert (Hga : Z.gcd za zb <= za) by (rewrite Z.gcd_comm; apply gcd_le_r; lia).
  rewrite !sdiv32_ok by lia. rewrite !Z.quot_div_nonneg by lia.
  destruct (Z.gtb_spec zb za); cbn [lift rbind].
  - pose proof (div_le_self zb (Z.gcd za zb) ltac:(lia) Hg).
    destruct (of_word_exact (zb / Z.gcd za zb)) as [W1 V1]; [unfold WORD_MIN, WORD_MAX in *; lia|].
    destruct (of_word_exact za) as [W2 V2]; [assumption|].
    eapply ok_exact_eq; [|apply fr_mul_exact; assumption].
    rewrite V1, V2. rewrite <- lcm_via_gcd by lia. unfold Qmult, Qeq. simpl. ring.
  - pose proof (div_le_self za (Z.gcd za zb) ltac:(lia) Hg).
    destruct (of_word_exact (za / Z.gcd za zb)) as [W1 V1]; [unfold WORD_MIN, WORD_MAX in *; lia|].
    destruct (of_word_exact zb) as [W2 V2]; [assumption|].
    eapply ok_exact_eq; [|apply fr_mul_exact; assumption].
    rewrite V1, V2. rewrite Z.lcm_comm, Z.gcd_comm, <- lcm_via_gcd by lia. unfold Qmult, Qeq. simpl. ring.
Qed.

(* lcm(-4,6) = -12 on the word path, and lcm(4,-6) = 12: sign depends on the operand order *)
Theorem fr_lcm_word_path_refuted_lemma :
  exists a b r, wf a /\ wf b /\ value a == (-4) # 1 /\ value b == 6 # 1 /\
                fr_lcm a b = Ok r /\ ~ value r == Z.lcm (-4) 6 # 1.
Proof.
  exists (Word (-4) 1), (Word 6 1), (Word (-12) 1).
  repeat split; try (vm_compute; intuition congruence).
Qed.
