(* C15 — basic facts about the machine-integer layer of FRModel.v and about canonical rationals. *)
From Coq Require Import ZArith QArith Qreduction Znumtheory Lia Bool ZifyBool.
From OsmtV.Rat Require Import FRModel.
Local Open Scope Z_scope.

Ltac Zify.zify_post_hook ::= Z.div_mod_to_equations.

(* ------------------------------------------------------------------------------------------ *)
(* ranges                                                                                      *)

Lemma in_word_iff z : in_word z = true <-> WORD_MIN <= z <= WORD_MAX.
Proof. unfold in_word. lia. Qed.
Lemma in_uword_iff z : in_uword z = true <-> 0 <= z <= UWORD_MAX.
Proof. unfold in_uword. lia. Qed.
Lemma in_lword_iff z : in_lword z = true <-> LWORD_MIN <= z <= LWORD_MAX.
Proof. unfold in_lword. lia. Qed.
Lemma in_ulword_iff z : in_ulword z = true <-> 0 <= z <= ULWORD_MAX.
Proof. unfold in_ulword. lia. Qed.

Lemma in_lword_true z : LWORD_MIN <= z <= LWORD_MAX -> in_lword z = true.
Proof. apply in_lword_iff. Qed.
Lemma in_word_true z : WORD_MIN <= z <= WORD_MAX -> in_word z = true.
Proof. apply in_word_iff. Qed.

Lemma to_uword_id z : 0 <= z <= UWORD_MAX -> to_uword z = z.
Proof. unfold to_uword, UWORD_MAX. intros. apply Z.mod_small. lia. Qed.
Lemma to_ulword_id z : 0 <= z <= ULWORD_MAX -> to_ulword z = z.
Proof. unfold to_ulword, ULWORD_MAX. intros. apply Z.mod_small. lia. Qed.
Lemma to_word_id z : WORD_MIN <= z <= WORD_MAX -> to_word z = z.
Proof. unfold to_word, WORD_MIN, WORD_MAX. intros. rewrite Z.mod_small; lia. Qed.
Lemma to_lword_id z : LWORD_MIN <= z <= LWORD_MAX -> to_lword z = z.
Proof. unfold to_lword, LWORD_MIN, LWORD_MAX. intros. rewrite Z.mod_small; lia. Qed.
(* an ulword value at or above 2^63 converts to a negative lword *)
Lemma to_lword_high z : LWORD_MAX < z <= ULWORD_MAX -> to_lword z = z - 18446744073709551616.
Proof.
  unfold to_lword, LWORD_MAX, ULWORD_MAX. intros.
  replace (z + 9223372036854775808) with ((z - 9223372036854775808) + 1 * 18446744073709551616) by lia.
  rewrite Z.mod_add by lia. rewrite Z.mod_small; lia.
Qed.

Lemma to_uword_range z : 0 <= to_uword z <= UWORD_MAX.
Proof. unfold to_uword, UWORD_MAX. pose proof (Z.mod_pos_bound z 4294967296). lia. Qed.
Lemma to_ulword_range z : 0 <= to_ulword z <= ULWORD_MAX.
Proof. unfold to_ulword, ULWORD_MAX. pose proof (Z.mod_pos_bound z 18446744073709551616). lia. Qed.

(* absVal computes the absolute value for every value of the signed type (INT_MIN included) *)
Lemma absVal_w_abs x : WORD_MIN <= x <= WORD_MAX -> absVal_w x = Z.abs x.
Proof.
  unfold absVal_w, WORD_MIN, WORD_MAX. intros H.
  destruct (Z.ltb_spec x 0).
  - unfold to_uword.
    replace (x mod 4294967296) with (x + 4294967296)
      by (symmetry; replace x with ((x + 4294967296) + (-1) * 4294967296) at 1 by lia;
          rewrite Z.mod_add by lia; apply Z.mod_small; lia).
    replace (- (x + 4294967296)) with ((- x) + (-1) * 4294967296) by lia.
    rewrite Z.mod_add by lia. rewrite Z.mod_small; lia.
  - rewrite to_uword_id; unfold UWORD_MAX; lia.
Qed.

Lemma absVal_l_abs x : LWORD_MIN <= x <= LWORD_MAX -> absVal_l x = Z.abs x.
Proof.
  unfold absVal_l, LWORD_MIN, LWORD_MAX. intros H.
  destruct (Z.ltb_spec x 0).
  - unfold to_ulword.
    replace (x mod 18446744073709551616) with (x + 18446744073709551616)
      by (symmetry; replace x with ((x + 18446744073709551616) + (-1) * 18446744073709551616) at 1 by lia;
          rewrite Z.mod_add by lia; apply Z.mod_small; lia).
    replace (- (x + 18446744073709551616)) with ((- x) + (-1) * 18446744073709551616) by lia.
    rewrite Z.mod_add by lia. rewrite Z.mod_small; lia.
  - rewrite to_ulword_id; unfold ULWORD_MAX; lia.
Qed.

(* ------------------------------------------------------------------------------------------ *)
(* primitive operations inside their ranges                                                    *)

Lemma sadd64_ok x y : LWORD_MIN <= x + y <= LWORD_MAX -> sadd64 x y = MOk (x + y).
Proof. intros. unfold sadd64. cbv zeta. rewrite in_lword_true; auto. Qed.
Lemma ssub64_ok x y : LWORD_MIN <= x - y <= LWORD_MAX -> ssub64 x y = MOk (x - y).
Proof. intros. unfold ssub64. cbv zeta. rewrite in_lword_true; auto. Qed.
Lemma smul64_ok x y : LWORD_MIN <= x * y <= LWORD_MAX -> smul64 x y = MOk (x * y).
Proof. intros. unfold smul64. cbv zeta. rewrite in_lword_true; auto. Qed.
Lemma sneg64_ok x : LWORD_MIN <= - x <= LWORD_MAX -> sneg64 x = MOk (- x).
Proof. intros. unfold sneg64. cbv zeta. rewrite in_lword_true; auto. Qed.
Lemma sneg32_ok x : WORD_MIN <= - x <= WORD_MAX -> sneg32 x = MOk (- x).
Proof. intros. unfold sneg32. cbv zeta. rewrite in_word_true; auto. Qed.
Lemma sadd32_ok x y : WORD_MIN <= x + y <= WORD_MAX -> sadd32 x y = MOk (x + y).
Proof. intros. unfold sadd32. cbv zeta. rewrite in_word_true; auto. Qed.
Lemma sdiv64_ok x y : y <> 0 -> y <> -1 -> sdiv64 x y = MOk (Z.quot x y).
Proof.
  intros. unfold sdiv64. destruct (Z.eqb_spec y 0); [lia|].
  destruct (Z.eqb_spec y (-1)); [lia|]. rewrite andb_false_r. reflexivity.
Qed.
Lemma sdiv32_ok x y : y <> 0 -> ~ (x = WORD_MIN /\ y = -1) -> sdiv32 x y = MOk (Z.quot x y).
Proof.
  intros. unfold sdiv32. destruct (Z.eqb_spec y 0); [lia|].
  destruct (Z.eqb_spec x WORD_MIN); destruct (Z.eqb_spec y (-1)); simpl; try reflexivity. tauto.
Qed.
Lemma srem32_ok x y : y <> 0 -> ~ (x = WORD_MIN /\ y = -1) -> srem32 x y = MOk (Z.rem x y).
Proof.
  intros. unfold srem32. destruct (Z.eqb_spec y 0); [lia|].
  destruct (Z.eqb_spec x WORD_MIN); destruct (Z.eqb_spec y (-1)); simpl; try reflexivity. tauto.
Qed.
Lemma udiv_ok x y : y <> 0 -> udiv x y = MOk (x / y).
Proof. intros. unfold udiv. destruct (Z.eqb_spec y 0); [lia|reflexivity]. Qed.
Lemma umul64_ok x y : 0 <= x * y <= ULWORD_MAX -> umul64 x y = x * y.
Proof. intros. unfold umul64. apply to_ulword_id; auto. Qed.

(* the check macros on in-range arguments (the conversions inside the macros are identities) *)
Lemma chk_word_lword v : LWORD_MIN <= v <= LWORD_MAX ->
  chk_word v = if in_word v then MOk v else MOvf.
Proof.
  intros. unfold chk_word. cbv zeta. rewrite to_lword_id by auto. unfold in_word.
  destruct (Z.ltb_spec v WORD_MIN), (Z.gtb_spec v WORD_MAX), (Z.leb_spec WORD_MIN v), (Z.leb_spec v WORD_MAX);
    simpl; try reflexivity; lia.
Qed.

(* an ulword argument at or above 2^63 is read as a negative lword: CHECK_WORD would accept the
   top 2^31 values; every call site stays below 2^63 (see *_no_wrap lemmas) *)
Lemma chk_word_ulword_small v : 0 <= v <= LWORD_MAX ->
  chk_word v = if v <=? WORD_MAX then MOk v else MOvf.
Proof.
  intros. rewrite chk_word_lword by (unfold LWORD_MIN; lia). unfold in_word.
  destruct (Z.leb_spec WORD_MIN v); [|unfold WORD_MIN in *; lia]. reflexivity.
Qed.

Lemma chk_uword_spec v : 0 <= v <= ULWORD_MAX ->
  chk_uword v = if v =? 0 then MErr Abort_called else if v <=? UWORD_MAX then MOk v else MOvf.
Proof.
  intros. unfold chk_uword. cbv zeta. rewrite to_ulword_id by auto.
  destruct (Z.ltb_spec v 1), (Z.eqb_spec v 0); try lia; try reflexivity.
  destruct (Z.gtb_spec v UWORD_MAX), (Z.leb_spec v UWORD_MAX); try lia; reflexivity.
Qed.

(* CHECK_UWORD on a (signed) lword argument, as in inverse() *)
Lemma chk_uword_lword v : LWORD_MIN <= v <= LWORD_MAX ->
  chk_uword v = if v <? 1 then MErr Abort_called else if v <=? UWORD_MAX then MOk v else MOvf.
Proof.
  intros. unfold chk_uword. cbv zeta.
  destruct (Z.ltb_spec v 1); [reflexivity|].
  rewrite to_ulword_id by (unfold ULWORD_MAX, LWORD_MAX in *; lia).
  destruct (Z.gtb_spec v UWORD_MAX), (Z.leb_spec v UWORD_MAX); try lia; reflexivity.
Qed.

(* ------------------------------------------------------------------------------------------ *)
(* monads                                                                                      *)

Lemma mbind_MOk {A B} (m : mres A) (k : A -> mres B) r :
  mbind m k = MOk r -> exists a, m = MOk a /\ k a = MOk r.
Proof. destruct m; simpl; intros; try discriminate. eauto. Qed.

Lemma rbind_Ok {A B} (m : res A) (k : A -> res B) r :
  rbind m k = Ok r -> exists a, m = Ok a /\ k a = Ok r.
Proof. destruct m; simpl; intros; try discriminate. eauto. Qed.

(* ------------------------------------------------------------------------------------------ *)
(* canonical rationals                                                                         *)

Lemma Qred_explicit n d :
  Qred (Qmake n d) = Qmake (n / Z.gcd n (Zpos d)) (Z.to_pos (Zpos d / Z.gcd n (Zpos d))).
Proof.
  unfold Qred.
  pose proof (Z.ggcd_gcd n (Zpos d)) as Hg.
  pose proof (Z.ggcd_correct_divisors n (Zpos d)) as Hd.
  destruct (Z.ggcd n (Zpos d)) as [g [aa bb]]. simpl in *. subst g. destruct Hd as [H1 H2].
  assert (Hg0 : Z.gcd n (Zpos d) <> 0).
  { intro E. apply Z.gcd_eq_0_r in E. discriminate. }
  f_equal.
  - rewrite H1 at 1. rewrite Z.mul_comm. rewrite Z.div_mul by auto. reflexivity.
  - f_equal. rewrite H2 at 1. rewrite Z.mul_comm. rewrite Z.div_mul by auto. reflexivity.
Qed.

Lemma Qred_canonical q : canonicalQ (Qred q).
Proof.
  destruct q as [n d]. rewrite Qred_explicit. unfold canonicalQ. simpl.
  set (g := Z.gcd n (Zpos d)).
  assert (Hg0 : g <> 0) by (intro E; apply Z.gcd_eq_0_r in E; discriminate).
  assert (Hgp : 0 < g) by (pose proof (Z.gcd_nonneg n (Zpos d)); fold g in H; lia).
  assert (Hdiv : (g | Zpos d)) by apply Z.gcd_divide_r.
  destruct Hdiv as [k Hk].
  assert (0 < Zpos d / g).
  { rewrite Hk. rewrite Z.div_mul by auto. nia. }
  rewrite Z2Pos.id by auto.
  apply Z.gcd_div_gcd; auto.
Qed.

Lemma Qred_of_canonical q : canonicalQ q -> Qred q = q.
Proof.
  destruct q as [n d]. intros H. unfold canonicalQ in H. simpl in H.
  rewrite Qred_explicit. rewrite H. rewrite !Z.div_1_r. reflexivity.
Qed.

Lemma canonical_eq p q : canonicalQ p -> canonicalQ q -> p == q -> p = q.
Proof.
  intros Hp Hq E. rewrite <- (Qred_of_canonical p Hp), <- (Qred_of_canonical q Hq).
  apply Qred_complete. exact E.
Qed.

(* ------------------------------------------------------------------------------------------ *)
(* well-formedness of the two forms                                                            *)

Definition wfW (n d : Z) : Prop := (WORD_MIN <= n <= WORD_MAX) /\ (1 <= d <= UWORD_MAX) /\ Z.gcd n d = 1.

Lemma wf_Word n d : wf (Word n d) <-> wfW n d.
Proof. reflexivity. Qed.

Lemma value_try_fit_word q : value (try_fit_word q) = q.
Proof. unfold try_fit_word. destruct (fits_word q); destruct q; reflexivity. Qed.

Lemma wf_try_fit_word q : canonicalQ q -> wf (try_fit_word q).
Proof.
  intros Hc. unfold try_fit_word. destruct (fits_word q) eqn:E.
  - unfold fits_word in E. apply andb_prop in E. destruct E as [E1 E2].
    apply in_word_iff in E1. simpl. repeat split; try lia. exact Hc.
  - simpl. split; auto.
Qed.

Lemma mpq_of_value x : mpq_of x = value x.
Proof. destruct x; reflexivity. Qed.

Lemma wf_mpq_canonical x : wf x -> canonicalQ (mpq_of x).
Proof.
  destruct x as [n d|q]; simpl.
  - intros (Hn & Hd & Hg). unfold canonicalQ. simpl. rewrite Z2Pos.id by lia. exact Hg.
  - tauto.
Qed.

Lemma fits_word_Word n d : wfW n d -> fits_word (Qmake n (Z.to_pos d)) = true.
Proof.
  intros (Hn & Hd & _). unfold fits_word. simpl. rewrite Z2Pos.id by lia.
  apply andb_true_intro. split; [apply in_word_iff; auto | lia].
Qed.

(* equal values have the same representation *)
Lemma repr_unique_lemma a b : wf a -> wf b -> value a == value b -> a = b.
Proof.
  intros Ha Hb E.
  assert (Hq : mpq_of a = mpq_of b).
  { apply canonical_eq; [apply wf_mpq_canonical; exact Ha | apply wf_mpq_canonical; exact Hb |].
    rewrite !mpq_of_value. exact E. }
  destruct a as [an ad|qa], b as [bn bd|qb]; simpl in *.
  - destruct Ha as (_ & Ha & _), Hb as (_ & Hb & _).
    injection Hq as H1 H2. subst. f_equal. apply Z2Pos.inj; lia.
  - exfalso. destruct Hb as (_ & Hb). subst qb. rewrite fits_word_Word in Hb by exact Ha. discriminate.
  - exfalso. destruct Ha as (_ & Ha). subst qa. rewrite fits_word_Word in Ha by exact Hb. discriminate.
  - congruence.
Qed.

(* a rational given by numerator and positive denominator *)
Lemma Qmake_eq_cross n d n' d' : 0 < d -> 0 < d' -> n * d' = n' * d -> Qmake n (Z.to_pos d) == Qmake n' (Z.to_pos d').
Proof. intros. unfold Qeq. simpl. rewrite !Z2Pos.id by lia. assumption. Qed.

(* ------------------------------------------------------------------------------------------ *)
(* specification shapes                                                                        *)

(* an operation returned a value, the value is canonical and denotes q: no abort, no undefined
   behaviour, exact, canonical — all at once *)
Definition ok_exact (r : res fr) (q : Q) : Prop := exists x, r = Ok x /\ wf x /\ value x == q.

(* postcondition of a word path that computes the rational q *)
Definition wpost (w : mres (Z * Z)) (q : Q) : Prop :=
  match w with
  | MOk (n, d) => wfW n d /\ Qmake n (Z.to_pos d) == q
  | MOvf => True
  | MErr _ => False
  end.

Lemma wpost_eq w q q' : q == q' -> wpost w q -> wpost w q'.
Proof. intros E. destruct w as [[n d]| |e]; simpl; auto. intros [H1 H2]. split; auto. rewrite H2. exact E. Qed.

Lemma wpost_finish w slow q :
  wpost w q -> ok_exact slow q -> ok_exact (finish w slow) q.
Proof.
  unfold ok_exact. destruct w as [[n d]| |e]; simpl; intros H Hs; try contradiction; auto.
  destruct H as [H1 H2]. exists (Word n d). repeat split; try apply H1. exact H2.
Qed.

(* products of a word and an uword stay well inside lword *)
Lemma mul_w_uw x y : WORD_MIN <= x <= WORD_MAX -> 0 <= y <= UWORD_MAX ->
  -9223372034707292160 <= x * y <= 9223372030412324865.
Proof. unfold WORD_MIN, WORD_MAX, UWORD_MAX. intros. nia. Qed.

Lemma mul_uw_uw x y : 0 <= x <= UWORD_MAX -> 0 <= y <= UWORD_MAX -> 0 <= x * y <= 18446744065119617025.
Proof. unfold UWORD_MAX. intros. nia. Qed.

Lemma div_le_self a b : 0 <= a -> 0 < b -> 0 <= a / b <= a.
Proof. intros. split; [apply Z.div_pos; lia | apply Z.div_le_upper_bound; nia]. Qed.


Lemma ok_exact_eq r q q' : q == q' -> ok_exact r q -> ok_exact r q'.
Proof. intros E (x & H1 & H2 & H3). exists x. repeat split; auto. rewrite H3. exact E. Qed.

(* the GMP path: canonical result of an exact computation, then try_fit_word *)
Lemma big_path_exact q q' : Qred q == q' -> ok_exact (Ok (try_fit_word (Qred q))) q'.
Proof.
  intros E. exists (try_fit_word (Qred q)). split; [reflexivity|]. split.
  - apply wf_try_fit_word. apply Qred_canonical.
  - rewrite value_try_fit_word. exact E.
Qed.

Lemma is_word_zero_value_c x : is_word_zero x = true -> value x == 0.
Proof. destruct x as [n d|q]; simpl; [|discriminate]. intros E. assert (n = 0) by lia. subst. reflexivity. Qed.
