(* C15 — one representation per value, hash, independence of the path taken. *)
From Coq Require Import ZArith QArith Lia.
From OsmtV.Rat Require Import FRModel FRBase FRProofsAdd FRProofsMul.
Local Open Scope Z_scope.

Theorem hash_respects_eq_lemma a b : wf a -> wf b -> value a == value b -> fr_hash a = fr_hash b.
Proof. intros Ha Hb E. rewrite (repr_unique_lemma a b Ha Hb E). reflexivity. Qed.

Lemma ok_exact_unique r r' q : ok_exact r q -> ok_exact r' q -> r = r'.
Proof.
  intros (x & -> & Wx & Vx) (y & -> & Wy & Vy). f_equal.
  apply repr_unique_lemma; auto. rewrite Vx, Vy. reflexivity.
Qed.

(* the word fast path and the GMP path give the same object, whatever the operands' form *)
Theorem add_path_independent a b : wf a -> wf b -> fr_add a b = big_add a b.
Proof. intros. eapply ok_exact_unique; [apply fr_add_exact | apply big_add_exact]; assumption. Qed.
Theorem sub_path_independent a b : wf a -> wf b -> fr_sub a b = big_sub a b.
Proof. intros. eapply ok_exact_unique; [apply fr_sub_exact | apply big_sub_exact]; assumption. Qed.
Theorem mul_path_independent a b : wf a -> wf b -> fr_mul a b = big_mul a b.
Proof. intros. eapply ok_exact_unique; [apply fr_mul_exact | apply big_mul_exact]; assumption. Qed.
Theorem div_path_independent a b : wf a -> wf b -> ~ value b == 0 -> fr_div a b = big_div a b.
Proof. intros. eapply ok_exact_unique; [apply fr_div_exact | apply big_div_exact]; assumption. Qed.
(* the in-place forms return the same object as the three-address forms *)
Theorem assign_forms_agree a b : wf a -> wf b ->
  fr_addA a b = fr_add a b /\ fr_subA a b = fr_sub a b /\ fr_mulA a b = fr_mul a b /\
  (~ value b == 0 -> fr_divA a b = fr_div a b).
Proof.
  intros Ha Hb. repeat split.
  - eapply ok_exact_unique; [apply fr_addA_exact | apply fr_add_exact]; assumption.
  - eapply ok_exact_unique; [apply fr_subA_exact | apply fr_sub_exact]; assumption.
  - eapply ok_exact_unique; [apply fr_mulA_exact | apply fr_mul_exact]; assumption.
  - intros Hz. eapply ok_exact_unique; [apply fr_divA_exact | apply fr_div_exact]; assumption.
Qed.
