(* C15 — fastrat_fdiv_q, operator%, divexact, fastrat_round_to_int. *)
From Coq Require Import ZArith QArith Qround Qreduction Znumtheory Lia Bool ZifyBool.
From OsmtV.Rat Require Import FRModel FRBase FRArith FRProofsCtor FRProofsCmp FRProofsAdd FRProofsMul FRProofsRound FRProofsGcd.
Local Open Scope Z_scope.
Local Open Scope fr_scope.

(* truncating quotient/remainder corrected towards minus infinity is the floor quotient *)
Lemma floor_from_trunc n d : d <> 0 ->
  n / d = if negb (Z.rem n d =? 0) && (((n <? 0) && (d >=? 0)) || ((d <? 0) && (n >=? 0)))
          then Z.quot n d - 1 else Z.quot n d.
Proof.
  intros Hd. pose proof (Z.quot_rem' n d) as E.
  pose proof (Z.rem_bound_abs n d Hd) as B.
  assert (S : Z.rem n d = 0 \/ Z.sgn (Z.rem n d) = Z.sgn n).
  { destruct (Z.eq_dec (Z.rem n d) 0); [left; assumption | right; apply Z.rem_sign_nz; auto]. }
  set (q := Z.quot n d) in *. set (r := Z.rem n d) in *. clearbody q r.
  destruct (Z.eqb_spec r 0) as [R0|R0]; simpl.
  - subst r. symmetry. apply Z.div_unique with (r := 0); lia.
  - destruct S as [S|S]; [contradiction|].
    destruct (Z.ltb_spec n 0), (Z.geb_spec d 0), (Z.ltb_spec d 0), (Z.geb_spec n 0); simpl; try lia.
    + symmetry. apply Z.div_unique with (r := r + d); lia.
    + symmetry. apply Z.div_unique with (r := r); lia.
    + symmetry. apply Z.div_unique with (r := r); lia.
    + symmetry. apply Z.div_unique with (r := r + d); lia.
Qed.

Lemma quot_word_range n d : d <> 0 -> WORD_MIN < n <= WORD_MAX -> WORD_MIN < Z.quot n d <= WORD_MAX.
Proof.
  intros Hd Hn.
  assert (Z.abs (Z.quot n d) <= Z.abs n).
  { rewrite <- Z.quot_abs by lia. rewrite Z.quot_div_nonneg by lia. apply div_le_self; lia. }
  unfold WORD_MIN, WORD_MAX in *. lia.
Qed.

Theorem fr_fdiv_q_exact n d zn zd : wf n -> wf d -> value n == zn # 1 -> value d == zd # 1 -> zd <> 0 ->
  ok_exact (fr_fdiv_q n d) (zn / zd # 1).
Proof.
  intros Hn Hd En Ed Hz.
  assert (Hbig : ok_exact (gmp_fdiv_q (Qnum (mpq_of n)) (Qnum (mpq_of d))) (zn / zd # 1)).
  { rewrite (int_num n zn), (int_num d zd) by assumption. unfold gmp_fdiv_q.
    destruct (Z.eqb_spec zd 0); [contradiction|]. apply exact_ok. apply of_mpz_exact. }
  destruct n as [an ad|qa], d as [bn bd|qb]; try exact Hbig.
  destruct (int_word _ _ _ Hn En) as [-> ->]. destruct (int_word _ _ _ Hd Ed) as [-> ->].
  destruct Hn as (Han & _), Hd as (Hbn & _).
  unfold fr_fdiv_q. destruct (Z.eqb_spec zn WORD_MIN) as [E|E]; [exact Hbig|].
  rewrite sdiv32_ok, srem32_ok by tauto. cbn [lift rbind].
  pose proof (quot_word_range zn zd Hz ltac:(lia)) as Q.
  rewrite (floor_from_trunc zn zd Hz).
  destruct (negb (Z.rem zn zd =? 0) && ((zn <? 0) && (zd >=? 0) || (zd <? 0) && (zn >=? 0))).
  - rewrite sadd32_ok by (unfold WORD_MIN, WORD_MAX in *; lia). cbn [lift rbind].
    apply exact_ok. replace (Z.quot zn zd + -1) with (Z.quot zn zd - 1) by ring.
    apply of_word_exact. unfold WORD_MIN, WORD_MAX in *. lia.
  - apply exact_ok. apply of_word_exact. unfold WORD_MIN, WORD_MAX in *. lia.
Qed.

(* ------------------------------------------------------------------------------------------ *)
(* operator%                                                                                   *)

(* the GMP path (some operand big): a - floor(a/d)*d, composed of exact operations *)
Theorem fr_mod_big_path_exact a d : wf a -> wf d -> ~ value d == 0 ->
  (match a, d with Word _ _, Word _ _ => False | _, _ => True end) ->
  ok_exact (fr_mod a d) (value a - (Qfloor (value a / value d) # 1) * value d).
Proof.
  intros Ha Hd Hz Hbig.
  assert (H : ok_exact (r <-- fr_div a d;; r0 <-- fr_floor r;; p <-- fr_mul r0 d;; fr_sub a p)
                       (value a - (Qfloor (value a / value d) # 1) * value d)).
  { destruct (fr_div_exact a d Ha Hd Hz) as (r & Er & Wr & Vr). rewrite Er. cbn [rbind].
    destruct (fr_floor_exact r Wr) as (f & Ef & Wf & Vf). rewrite Ef. cbn [rbind].
    destruct (fr_mul_exact f d Wf Hd) as (p & Ep & Wp & Vp). rewrite Ep. cbn [rbind].
    eapply ok_exact_eq; [|apply fr_sub_exact; assumption].
    rewrite Vp, Vf. rewrite (Qfloor_comp _ _ Vr). reflexivity. }
  destruct a as [an ad|qa], d as [bn bd|qb]; try exact H. contradiction.
Qed.

(* for integers this is the floor remainder *)
Lemma floor_mod_int zn zd : zd <> 0 ->
  (zn # 1) - (Qfloor ((zn # 1) / (zd # 1)) # 1) * (zd # 1) == (zn mod zd) # 1.
Proof.
  intros Hz.
  assert (F : Qfloor ((zn # 1) / (zd # 1)) = zn / zd).
  { destruct zd as [|p|p]; [lia| |]; unfold Qdiv, Qinv, Qmult, Qfloor; simpl; rewrite ?Z.mul_1_r.
    - reflexivity.
    - rewrite <- (Z.div_opp_opp zn (Z.neg p)) by lia. simpl. f_equal. lia. }
  rewrite F. unfold Qeq, Qminus, Qplus, Qmult, Qopp. simpl. rewrite (Z.mod_eq zn zd Hz). ring.
Qed.

(* the word path on a non-negative dividend and a positive divisor *)
Theorem fr_mod_word_nonneg_exact zn zd : 0 <= zn <= WORD_MAX -> 0 < zd <= WORD_MAX ->
  ok_exact (fr_mod (Word zn 1) (Word zd 1)) (zn mod zd # 1).
Proof.
  intros Hn Hd. unfold fr_mod.
  rewrite srem32_ok by (unfold WORD_MIN; lia). cbn [lift rbind].
  rewrite Z.rem_mod_nonneg by lia.
  pose proof (Z.mod_pos_bound zn zd ltac:(lia)) as B.
  rewrite absVal_w_abs by (unfold WORD_MIN, WORD_MAX in *; lia). rewrite Z.abs_eq by lia.
  destruct (Z.gtb_spec zd 0); [|lia].
  rewrite to_word_id by (unfold WORD_MIN, WORD_MAX in *; lia).
  apply exact_ok. apply of_word_exact. unfold WORD_MIN, WORD_MAX in *. lia.
Qed.

(* -7 % 3 = 1 on the word path; the remainder of the floor division (and the GMP path) is 2 *)
Theorem fr_mod_word_path_refuted_lemma :
  exists a d r, wf a /\ wf d /\ value a == (-7) # 1 /\ value d == 3 # 1 /\
                fr_mod a d = Ok r /\ ~ value r == ((-7) mod 3) # 1.
Proof.
  exists (Word (-7) 1), (Word 3 1), (Word 1 1).
  repeat split; try (vm_compute; intuition congruence).
Qed.

(* ------------------------------------------------------------------------------------------ *)
(* divexact                                                                                    *)

Theorem fr_divexact_exact_partial n d zn zd : wf n -> wf d -> value n == zn # 1 -> value d == zd # 1 ->
  zd <> 0 -> (zd | zn) -> ~ (zn = WORD_MIN /\ zd = -1) ->
  ok_exact (fr_divexact n d) (zn / zd # 1).
Proof.
  intros Hn Hd En Ed Hz Hdiv Hub.
  assert (Hbig : ok_exact (let nn := Qnum (mpq_of n) in let dd := Qnum (mpq_of d) in
                           if dd =? 0 then Err Gmp_inexact
                           else if nn mod dd =? 0 then Ok (of_mpz (nn / dd)) else Err Gmp_inexact) (zn / zd # 1)).
  { rewrite (int_num n zn), (int_num d zd) by assumption. cbv zeta.
    destruct (Z.eqb_spec zd 0); [contradiction|].
    apply Z.mod_divide in Hdiv; [|exact Hz]. rewrite Hdiv. simpl. apply exact_ok. apply of_mpz_exact. }
  destruct n as [an ad|qa], d as [bn bd|qb]; try exact Hbig.
  destruct (int_word _ _ _ Hn En) as [-> ->]. destruct (int_word _ _ _ Hd Ed) as [-> ->].
  destruct Hn as (Han & _), Hd as (Hbn & _).
  unfold fr_divexact. destruct (Z.eqb_spec zd 0); [contradiction|]. simpl negb. cbv iota.
  rewrite sdiv32_ok by tauto. cbn [lift rbind].
  rewrite quot_exact by assumption.
  apply exact_ok. apply of_word_exact.
  destruct Hdiv as [k ->]. rewrite Z.div_mul by exact Hz.
  assert (Z.abs k <= Z.abs (k * zd)) by (rewrite Z.abs_mul; nia).
  assert (k <> 2147483648).
  { intros ->. assert (zd = -1) by (unfold WORD_MIN, WORD_MAX in *; nia). subst. apply Hub. split; reflexivity. }
  unfold WORD_MIN, WORD_MAX in *. lia.
Qed.

(* divexact(INT_MIN, -1): INT_MIN / -1 in int *)
Theorem fr_divexact_int_min_refuted_lemma :
  wf (Word WORD_MIN 1) /\ wf (Word (-1) 1) /\ ((-1) | WORD_MIN) /\
  fr_divexact (Word WORD_MIN 1) (Word (-1) 1) = Err UB_overflow.
Proof. repeat split; try (vm_compute; intuition congruence). exists 2147483648. reflexivity. Qed.

Theorem fr_mod_int_min_refuted_lemma :
  wf (Word WORD_MIN 1) /\ wf (Word (-1) 1) /\ fr_mod (Word WORD_MIN 1) (Word (-1) 1) = Err UB_overflow.
Proof. repeat split; vm_compute; intuition congruence. Qed.

(* ------------------------------------------------------------------------------------------ *)
(* fastrat_round_to_int                                                                        *)

Theorem fr_round_to_int_exact n : wf n -> ok_exact (fr_round_to_int n) (Qfloor (value n + (1 # 2)) # 1).
Proof.
  intros Hn. unfold fr_round_to_int.
  destruct (of_word_uword_exact 1 2) as (h & Eh & Wh & Vh); try (unfold WORD_MIN, WORD_MAX, UWORD_MAX; lia).
  rewrite Eh. cbn [rbind].
  destruct (fr_add_exact n h Hn Wh) as (r & Er & Wr & Vr). rewrite Er. cbn [rbind].
  destruct (fr_get_num_exact r Wr) as [Wn Vn]. destruct (fr_get_den_exact r Wr) as [Wd Vd].
  eapply ok_exact_eq; [|apply (fr_fdiv_q_exact _ _ _ _ Wn Wd Vn Vd); lia].
  assert (E : value r == value n + (1 # 2)) by (rewrite Vr, Vh; reflexivity).
  rewrite <- (Qfloor_comp _ _ E). destruct (value r) as [rn rd]. reflexivity.
Qed.

(* ------------------------------------------------------------------------------------------ *)
(* divexact after the repair (commit 0dce736): exact for every divisible pair, (INT_MIN,-1) included *)

Theorem fr_divexact_fixed_exact n d zn zd : wf n -> wf d -> value n == zn # 1 -> value d == zd # 1 ->
  zd <> 0 -> (zd | zn) -> ok_exact (fr_divexact_fixed n d) (zn / zd # 1).
Proof.
  intros Hn Hd En Ed Hz Hdiv.
  assert (Hbig : ok_exact (let nn := Qnum (mpq_of n) in let dd := Qnum (mpq_of d) in
                           if dd =? 0 then Err Gmp_inexact
                           else if nn mod dd =? 0 then Ok (of_mpz (nn / dd)) else Err Gmp_inexact) (zn / zd # 1)).
  { rewrite (int_num n zn), (int_num d zd) by assumption. cbv zeta.
    destruct (Z.eqb_spec zd 0); [contradiction|].
    pose proof Hdiv as Hm. apply Z.mod_divide in Hm; [|exact Hz]. rewrite Hm. simpl. apply exact_ok. apply of_mpz_exact. }
  unfold fr_divexact_fixed. cbv zeta.
  destruct n as [an ad|qa], d as [bn bd|qb]; try exact Hbig.
  destruct ((an =? WORD_MIN) && (bn =? -1)) eqn:EX; simpl negb; cbv iota; [exact Hbig|].
  assert (Hub : ~ (zn = WORD_MIN /\ zd = -1)).
  { destruct (int_word _ _ _ Hn En) as [-> _]. destruct (int_word _ _ _ Hd Ed) as [-> _]. lia. }
  exact (fr_divexact_exact_partial (Word an ad) (Word bn bd) zn zd Hn Hd En Ed Hz Hdiv Hub).
Qed.

Example divexact_fixed_int_min : fr_divexact_fixed (Word WORD_MIN 1) (Word (-1) 1) = Ok (Big (2147483648 # 1)).
Proof. vm_compute. reflexivity. Qed.
