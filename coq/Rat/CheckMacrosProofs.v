(* C15 — the overflow-check macros regenerated from FastRational.h (Gen_CheckMacros.v) are the
   range predicates of the model, and their own evaluation has no signed overflow. *)
From Coq Require Import ZArith String List Bool Lia ZifyBool.
From OsmtV.Rat Require Import FRModel FRBase CMacro.
From OsmtV.Rat Require Import Gen_CheckMacros.
Import ListNotations.
Local Open Scope string_scope.
Local Open Scope Z_scope.

Definition run_CHECK_WORD (t : cty) (v : Z) : mres Z := exec [("value", (t, v))] CHECK_WORD_body.
Definition run_CHECK_UWORD (t : cty) (v : Z) : mres Z := exec [("value", (t, v))] CHECK_UWORD_body.
Definition run_CHECK_SUM_OVERFLOWS_LWORD (s1 s2 : Z) : mres Z :=
  exec [("s1", (TL, s1)); ("s2", (TL, s2))] CHECK_SUM_OVERFLOWS_LWORD_body.
Definition run_CHECK_SUB_OVERFLOWS_LWORD (s1 s2 : Z) : mres Z :=
  exec [("s1", (TL, s1)); ("s2", (TL, s2))] CHECK_SUB_OVERFLOWS_LWORD_body.

Lemma gen_constants :
  GEN_WORD_MIN = WORD_MIN /\ GEN_WORD_MAX = WORD_MAX /\ GEN_UWORD_MAX = UWORD_MAX /\
  GEN_LWORD_MIN = LWORD_MIN /\ GEN_LWORD_MAX = LWORD_MAX.
Proof. repeat split; reflexivity. Qed.

Lemma params_as_expected :
  CHECK_WORD_params = ["var"; "value"] /\ CHECK_UWORD_params = ["var"; "value"] /\
  CHECK_SUM_OVERFLOWS_LWORD_params = ["var"; "s1"; "s2"] /\ CHECK_SUB_OVERFLOWS_LWORD_params = ["var"; "s1"; "s2"].
Proof. repeat split; reflexivity. Qed.

Lemma run_CHECK_WORD_equiv t v : run_CHECK_WORD t v = chk_word v.
Proof.
  unfold run_CHECK_WORD, CHECK_WORD_body, chk_word. cbn.
  unfold WORD_MIN, WORD_MAX.
  destruct (Z.ltb_spec (to_lword v) (-2147483648)); cbn; [reflexivity|].
  destruct (Z.gtb_spec (to_lword v) 2147483647); cbn; reflexivity.
Qed.

Lemma to_ulword_idem z : to_ulword (to_ulword z) = to_ulword z.
Proof. unfold to_ulword. apply Z.mod_mod. lia. Qed.

Lemma run_CHECK_UWORD_equiv t v : has_type t v -> run_CHECK_UWORD t v = chk_uword v.
Proof.
  intros Ht. unfold run_CHECK_UWORD, CHECK_UWORD_body, chk_uword.
  destruct t; cbn -[Z.ltb Z.gtb to_ulword]; unfold compare_c; cbn -[Z.ltb Z.gtb to_ulword].
  - destruct (Z.ltb_spec v 1); cbn -[Z.ltb Z.gtb to_ulword]; [reflexivity|].
    rewrite to_ulword_idem. change (to_ulword 4294967295) with 4294967295. unfold UWORD_MAX.
    destruct (Z.gtb_spec (to_ulword v) 4294967295); cbn; reflexivity.
  - simpl in Ht. rewrite (to_ulword_id v) by exact Ht. change (to_ulword 1) with 1.
    destruct (Z.ltb_spec v 1); cbn -[Z.ltb Z.gtb to_ulword]; [reflexivity|].
    rewrite (to_ulword_id v) by exact Ht. change (to_ulword 4294967295) with 4294967295. unfold UWORD_MAX.
    destruct (Z.gtb_spec v 4294967295); cbn; reflexivity.
Qed.

Lemma run_CHECK_SUM_equiv s1 s2 : LWORD_MIN <= s1 <= LWORD_MAX -> LWORD_MIN <= s2 <= LWORD_MAX ->
  run_CHECK_SUM_OVERFLOWS_LWORD s1 s2 = chk_sum_lword s1 s2.
Proof.
  intros H1 H2. unfold run_CHECK_SUM_OVERFLOWS_LWORD, CHECK_SUM_OVERFLOWS_LWORD_body, chk_sum_lword.
  unfold LWORD_MIN, LWORD_MAX in *. cbn -[Z.add Z.sub Z.ltb Z.gtb in_lword].
  unfold compare_c, arith. cbn -[Z.add Z.sub Z.ltb Z.gtb in_lword].
  destruct (Z.gtb_spec s1 0) as [P|P]; cbn -[Z.add Z.sub Z.ltb Z.gtb in_lword].
  - rewrite (in_lword_true (9223372036854775807 - s1)) by (unfold LWORD_MIN, LWORD_MAX; lia).
    cbn -[Z.add Z.sub Z.ltb Z.gtb in_lword].
    destruct (Z.gtb_spec s2 (9223372036854775807 - s1)); cbn -[Z.add Z.sub Z.ltb Z.gtb in_lword].
    + destruct (in_lword (s1 + s2)) eqn:L; [apply in_lword_iff in L; unfold LWORD_MAX in L; lia | reflexivity].
    + destruct (Z.ltb_spec s1 0); [lia|]. cbn -[Z.add Z.sub Z.ltb Z.gtb in_lword].
      rewrite (in_lword_true (s1 + s2)) by (unfold LWORD_MIN, LWORD_MAX; lia). reflexivity.
  - destruct (Z.ltb_spec s1 0) as [N|N]; cbn -[Z.add Z.sub Z.ltb Z.gtb in_lword].
    + rewrite (in_lword_true (-9223372036854775808 - s1)) by (unfold LWORD_MIN, LWORD_MAX; lia).
      cbn -[Z.add Z.sub Z.ltb Z.gtb in_lword].
      destruct (Z.ltb_spec s2 (-9223372036854775808 - s1)); cbn -[Z.add Z.sub Z.ltb Z.gtb in_lword].
      * destruct (in_lword (s1 + s2)) eqn:L; [apply in_lword_iff in L; unfold LWORD_MIN in L; lia | reflexivity].
      * rewrite (in_lword_true (s1 + s2)) by (unfold LWORD_MIN, LWORD_MAX; lia). reflexivity.
    + rewrite (in_lword_true (s1 + s2)) by (unfold LWORD_MIN, LWORD_MAX; lia). reflexivity.
Qed.

Lemma run_CHECK_SUB_equiv s1 s2 : LWORD_MIN <= s1 <= LWORD_MAX -> LWORD_MIN <= s2 <= LWORD_MAX ->
  run_CHECK_SUB_OVERFLOWS_LWORD s1 s2 = chk_sub_lword s1 s2.
Proof.
  intros H1 H2. unfold run_CHECK_SUB_OVERFLOWS_LWORD, CHECK_SUB_OVERFLOWS_LWORD_body, chk_sub_lword.
  unfold LWORD_MIN, LWORD_MAX in *. cbn -[Z.add Z.sub Z.ltb Z.gtb Z.geb in_lword].
  unfold compare_c, arith. cbn -[Z.add Z.sub Z.ltb Z.gtb Z.geb in_lword].
  destruct (Z.geb_spec s1 0) as [P|P]; cbn -[Z.add Z.sub Z.ltb Z.gtb Z.geb in_lword].
  - rewrite (in_lword_true (s1 - 9223372036854775807)) by (unfold LWORD_MIN, LWORD_MAX; lia).
    cbn -[Z.add Z.sub Z.ltb Z.gtb Z.geb in_lword].
    destruct (Z.ltb_spec s2 (s1 - 9223372036854775807)); cbn -[Z.add Z.sub Z.ltb Z.gtb Z.geb in_lword].
    + destruct (in_lword (s1 - s2)) eqn:L; [apply in_lword_iff in L; unfold LWORD_MAX in L; lia | reflexivity].
    + destruct (Z.ltb_spec s1 0); [lia|]. cbn -[Z.add Z.sub Z.ltb Z.gtb Z.geb in_lword].
      rewrite (in_lword_true (s1 - s2)) by (unfold LWORD_MIN, LWORD_MAX; lia). reflexivity.
  - destruct (Z.ltb_spec s1 0) as [N|N]; [|lia]. cbn -[Z.add Z.sub Z.ltb Z.gtb Z.geb in_lword].
    rewrite (in_lword_true (s1 + 1)) by (unfold LWORD_MIN, LWORD_MAX; lia).
    cbn -[Z.add Z.sub Z.ltb Z.gtb Z.geb in_lword].
    rewrite (in_lword_true (s1 + 1 + 9223372036854775807)) by (unfold LWORD_MIN, LWORD_MAX; lia).
    cbn -[Z.add Z.sub Z.ltb Z.gtb Z.geb in_lword].
    destruct (Z.gtb_spec s2 (s1 + 1 + 9223372036854775807)); cbn -[Z.add Z.sub Z.ltb Z.gtb Z.geb in_lword].
    + destruct (in_lword (s1 - s2)) eqn:L; [apply in_lword_iff in L; unfold LWORD_MIN in L; lia | reflexivity].
    + rewrite (in_lword_true (s1 - s2)) by (unfold LWORD_MIN, LWORD_MAX; lia). reflexivity.
Qed.

Theorem check_macros_equivalent_lemma :
  (forall t v, run_CHECK_WORD t v = chk_word v) /\
  (forall t v, has_type t v -> run_CHECK_UWORD t v = chk_uword v) /\
  (forall s1 s2, LWORD_MIN <= s1 <= LWORD_MAX -> LWORD_MIN <= s2 <= LWORD_MAX ->
     run_CHECK_SUM_OVERFLOWS_LWORD s1 s2 = chk_sum_lword s1 s2) /\
  (forall s1 s2, LWORD_MIN <= s1 <= LWORD_MAX -> LWORD_MIN <= s2 <= LWORD_MAX ->
     run_CHECK_SUB_OVERFLOWS_LWORD s1 s2 = chk_sub_lword s1 s2) /\
  GEN_WORD_MIN = WORD_MIN /\ GEN_WORD_MAX = WORD_MAX /\ GEN_UWORD_MAX = UWORD_MAX /\
  GEN_LWORD_MIN = LWORD_MIN /\ GEN_LWORD_MAX = LWORD_MAX.
Proof.
  split; [exact run_CHECK_WORD_equiv|]. split; [exact run_CHECK_UWORD_equiv|].
  split; [exact run_CHECK_SUM_equiv|]. split; [exact run_CHECK_SUB_equiv | exact gen_constants].
Qed.
