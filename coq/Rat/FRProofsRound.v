(* C15 — ceil, floor. *)
From Coq Require Import ZArith QArith Qround Qreduction Znumtheory Lia Bool ZifyBool.
From OsmtV.Rat Require Import FRModel FRBase FRArith FRProofsCtor FRProofsCmp FRProofsAdd.
Local Open Scope Z_scope.
Local Open Scope fr_scope.

Lemma nonint_mod n d : Z.gcd n d = 1 -> 2 <= d -> n mod d <> 0.
Proof.
  intros G Hd E. apply Z.mod_divide in E; [|lia].
  assert (Z.gcd n d = d) by (rewrite Z.gcd_comm; apply Z.divide_gcd_iff; [lia | exact E]). lia.
Qed.

Lemma Qceiling_frac n d : Qceiling (n # d) = - ((- n) / Zpos d).
Proof. reflexivity. Qed.
Lemma Qfloor_frac n d : Qfloor (n # d) = n / Zpos d.
Proof. reflexivity. Qed.

Lemma ceil_floor_nonint q : canonicalQ q -> Qden q <> 1%positive -> Qceiling q = Qfloor q + 1.
Proof.
  destruct q as [n d]. unfold canonicalQ. cbn [Qnum Qden]. intros G Hd.
  rewrite Qceiling_frac, Qfloor_frac.
  assert (2 <= Zpos d) by (destruct d; try lia; congruence).
  rewrite Z.div_opp_l_nz by (try apply nonint_mod; lia). lia.
Qed.

Lemma int_ceil q : Qden q = 1%positive -> q == Qceiling q # 1.
Proof. destruct q as [n d]. cbn [Qnum Qden]. intros ->. rewrite Qceiling_frac. rewrite Z.div_1_r. rewrite Z.opp_involutive. reflexivity. Qed.
Lemma int_floor q : Qden q = 1%positive -> q == Qfloor q # 1.
Proof. destruct q as [n d]. cbn [Qnum Qden]. intros ->. rewrite Qfloor_frac. rewrite Z.div_1_r. reflexivity. Qed.

Lemma isInteger_den a : wf a -> (fr_isInteger a = true <-> Qden (value a) = 1%positive).
Proof.
  intros Ha. rewrite fr_isInteger_exact by exact Ha. apply canonical_integer. apply wf_value_canonical. exact Ha.
Qed.

Theorem fr_ceil_exact a : wf a -> ok_exact (fr_ceil a) (Qceiling (value a) # 1).
Proof.
  intros Ha. unfold fr_ceil. destruct (fr_isInteger a) eqn:I.
  { exists a. repeat split; auto. apply int_ceil. apply isInteger_den; assumption. }
  assert (Hden : Qden (value a) <> 1%positive).
  { intros E. apply isInteger_den in E; auto. congruence. }
  destruct a as [n d|q]; [|apply exact_ok; apply of_mpz_exact].
  destruct Ha as (Hn & Hd & G). simpl in Hden.
  assert (Hd2 : 2 <= d).
  { destruct (Z.eq_dec d 1) as [->|]; [exfalso; apply Hden; reflexivity | lia]. }
  rewrite absVal_w_abs by exact Hn. rewrite udiv_ok by lia.
  assert (Hk : 0 <= Z.abs n / d <= 1073741824).
  { split; [apply Z.div_pos; lia|]. apply Z.div_le_upper_bound; unfold WORD_MIN, WORD_MAX in *; lia. }
  rewrite to_word_id by (unfold WORD_MIN, WORD_MAX; lia).
  unfold value. rewrite Qceiling_frac, Z2Pos.id by lia.
  destruct (Z.ltb_spec n 0) as [N|N].
  - rewrite sneg32_ok by (unfold WORD_MIN, WORD_MAX; lia).
    apply exact_ok. rewrite Z.abs_neq by lia.
    apply of_word_exact. unfold WORD_MIN, WORD_MAX. rewrite Z.abs_neq in Hk by lia. lia.
  - rewrite sadd32_ok by (unfold WORD_MIN, WORD_MAX; lia).
    apply exact_ok. rewrite Z.abs_eq by lia. rewrite Z.abs_eq in Hk by lia.
    rewrite Z.div_opp_l_nz by (try apply nonint_mod; lia).
    replace (- (- (n / d) - 1)) with (n / d + 1) by ring.
    apply of_word_exact. unfold WORD_MIN, WORD_MAX. lia.
Qed.

Lemma wf_one : wf (of_word 1).
Proof. simpl. unfold WORD_MIN, WORD_MAX, UWORD_MAX. repeat split; lia. Qed.

Theorem fr_floor_exact a : wf a -> ok_exact (fr_floor a) (Qfloor (value a) # 1).
Proof.
  intros Ha. unfold fr_floor. destruct (fr_isInteger a) eqn:I.
  { exists a. repeat split; auto. apply int_floor. apply isInteger_den; assumption. }
  assert (Hden : Qden (value a) <> 1%positive).
  { intros E. apply isInteger_den in E; auto. congruence. }
  destruct (fr_ceil_exact a Ha) as (c & Hc & Wc & Vc). rewrite Hc. cbn [rbind].
  eapply ok_exact_eq; [|apply fr_sub_exact; [exact Wc | apply wf_one]].
  rewrite Vc. rewrite (ceil_floor_nonint (value a)) by (try apply wf_value_canonical; assumption).
  unfold value, of_word, Qminus, Qplus, Qopp, Qeq. simpl. ring.
Qed.
