(* C15 — constructors, unary minus, negate, inverse. *)
From Coq Require Import ZArith QArith Qreduction Znumtheory Lia Bool ZifyBool.
From OsmtV.Rat Require Import FRModel FRBase FRGcd FRArith.
Local Open Scope Z_scope.
Local Open Scope fr_scope.

Definition exact (x : fr) (q : Q) : Prop := wf x /\ value x == q.

Lemma exact_ok x q : exact x q -> ok_exact (Ok x) q.
Proof. intros [H1 H2]. exists x. auto. Qed.

Lemma of_word_exact x : WORD_MIN <= x <= WORD_MAX -> exact (of_word x) (x # 1).
Proof.
  intros H. split; [|reflexivity]. simpl. repeat split; unfold UWORD_MAX; try lia. apply Z.gcd_1_r.
Qed.

Lemma canonical_int z : canonicalQ (z # 1).
Proof. unfold canonicalQ. simpl. apply Z.gcd_1_r. Qed.

Lemma of_mpz_exact z : exact (of_mpz z) (z # 1).
Proof.
  unfold of_mpz. destruct (in_word z) eqn:W.
  - apply in_word_iff in W. apply of_word_exact. exact W.
  - split; [|reflexivity]. simpl. split; [apply canonical_int|]. unfold fits_word. simpl. rewrite W. reflexivity.
Qed.

Lemma of_uint32_exact x : 0 <= x <= UWORD_MAX -> exact (of_uint32 x) (x # 1).
Proof.
  intros H. unfold of_uint32. destruct (Z.gtb_spec x WORD_MAX).
  - split; [|reflexivity]. simpl. split; [apply canonical_int|]. unfold fits_word, in_word. simpl.
    destruct (Z.leb_spec x WORD_MAX); [lia|]. rewrite andb_false_r. reflexivity.
  - apply of_word_exact. unfold WORD_MIN. lia.
Qed.

Lemma of_string_exact n d : exact (of_string n d) (n # d).
Proof.
  unfold of_string. split.
  - apply wf_try_fit_word. apply Qred_canonical.
  - rewrite value_try_fit_word. apply Qred_correct.
Qed.

(* FastRational(word n, uword d) *)
Theorem of_word_uword_exact n d : WORD_MIN <= n <= WORD_MAX -> 1 <= d <= UWORD_MAX ->
  ok_exact (of_word_uword n d) (n # Z.to_pos d).
Proof.
  intros Hn Hd. unfold of_word_uword. cbv zeta.
  rewrite absVal_w_abs by exact Hn.
  rewrite gcd_u_correct by lia. rewrite Z.gcd_abs_l. cbn [lift rbind].
  set (c := Z.gcd n d).
  assert (Hc : 0 < c) by (apply gcd_pos_r; lia).
  assert (Hcd : c <= d) by (apply gcd_le_r; lia).
  assert (D1 : (c | n)) by apply Z.gcd_divide_l.
  assert (D2 : (c | d)) by apply Z.gcd_divide_r.
  destruct (Z.gtb_spec c 1) as [C|C].
  - rewrite !udiv_ok by lia. cbn [lift rbind].
    assert (Dabs : (c | Z.abs n)) by (apply Z.divide_abs_r; exact D1).
    assert (Ra : 0 <= Z.abs n / c <= 1073741824).
    { destruct Dabs as [k Hk]. rewrite Hk, Z.div_mul by lia. unfold WORD_MIN, WORD_MAX in *. nia. }
    assert (Rd : 1 <= d / c <= UWORD_MAX).
    { pose proof (div_gcd_pos d n ltac:(lia)). fold c in H. destruct D2 as [k Hk].
      rewrite Hk, Z.div_mul in * by lia. nia. }
    rewrite to_word_id by (unfold WORD_MIN, WORD_MAX; lia).
    assert (G : Z.gcd (n / c) (d / c) = 1) by (apply Z.gcd_div_gcd; [lia | reflexivity]).
    assert (Eabs : Z.abs n / c = Z.abs (n / c)).
    { destruct D1 as [k Hk]. rewrite Hk, Z.abs_mul, (Z.abs_eq c), !Z.div_mul by lia. reflexivity. }
    assert (Ev : forall m, m = n / c -> (m # Z.to_pos (d / c)) == (n # Z.to_pos d)).
    { intros m ->. apply Qmake_eq_cross; try lia.
      destruct D1 as [k Hk]. destruct D2 as [k' Hk']. rewrite Hk, Hk', !Z.div_mul by lia. ring. }
    destruct (Z.geb_spec n 0) as [P|P].
    + apply exact_ok. split.
      * simpl. repeat split; unfold WORD_MIN, WORD_MAX in *; try lia.
        rewrite Eabs, Z.gcd_abs_l. exact G.
      * simpl. apply Ev. rewrite Eabs. apply Z.abs_eq. apply Z.div_pos; lia.
    + rewrite sneg32_ok by (unfold WORD_MIN, WORD_MAX; lia). cbn [lift rbind].
      apply exact_ok. split.
      * simpl. repeat split; unfold WORD_MIN, WORD_MAX in *; try lia.
        rewrite Z.gcd_opp_l, Eabs, Z.gcd_abs_l. exact G.
      * simpl. apply Ev. rewrite Eabs.
        assert (n / c < 0).
        { destruct D1 as [k Hk]. rewrite Hk, Z.div_mul by lia. nia. }
        lia.
  - assert (c = 1) by lia. apply exact_ok. split; [|reflexivity]. simpl. repeat split; first [lia | fold c; exact H].
Qed.

(* unary minus and negate *)
Lemma canonical_opp q : canonicalQ q -> canonicalQ (- q).
Proof. unfold canonicalQ. destruct q as [n d]. simpl. rewrite Z.gcd_opp_l. auto. Qed.

Lemma big_neg_exact a : wf a -> ok_exact (big_neg a) (- value a).
Proof.
  intros Ha. unfold big_neg, gmp_neg. exists (try_fit_word (- mpq_of a)). split; [reflexivity|]. split.
  - apply wf_try_fit_word. apply canonical_opp. apply wf_mpq_canonical. exact Ha.
  - rewrite value_try_fit_word, mpq_of_value. reflexivity.
Qed.

Lemma Qopp_frac n d : (- n # d) == - (n # d).
Proof. reflexivity. Qed.

Theorem fr_neg_exact a : wf a -> ok_exact (fr_neg a) (- value a).
Proof.
  intros Ha. destruct a as [n d|q]; [|apply big_neg_exact; exact Ha].
  unfold fr_neg. destruct (Z.gtb_spec n WORD_MIN) as [P|P]; [|apply big_neg_exact; exact Ha].
  destruct Ha as (Hn & Hd & G).
  rewrite sneg32_ok by (unfold WORD_MIN, WORD_MAX in *; lia). cbn [lift rbind].
  eapply ok_exact_eq; [|apply of_word_uword_exact; unfold WORD_MIN, WORD_MAX in *; lia].
  simpl. reflexivity.
Qed.

Theorem fr_negate_exact a : wf a -> ok_exact (fr_negate a) (- value a).
Proof.
  intros Ha. destruct a as [n d|q]; [|apply big_neg_exact; exact Ha].
  unfold fr_negate. destruct (Z.gtb_spec n WORD_MIN) as [P|P]; [|apply big_neg_exact; exact Ha].
  destruct Ha as (Hn & Hd & G).
  rewrite sneg32_ok by (unfold WORD_MIN, WORD_MAX in *; lia). cbn [lift rbind].
  apply exact_ok. split; [|reflexivity].
  simpl. repeat split; unfold WORD_MIN, WORD_MAX in *; try lia. rewrite Z.gcd_opp_l. exact G.
Qed.

(* inverse *)
Lemma Qinv_frac_pos n d : 0 < n -> 0 < d -> (d # Z.to_pos n) == / (n # Z.to_pos d).
Proof.
  intros Hn Hd. destruct n as [|p|p]; try lia. unfold Qinv, Qeq. simpl.
  rewrite Pos2Z.inj_mul, Z2Pos.id by lia. reflexivity.
Qed.

Lemma Qinv_frac_neg n d : n < 0 -> 0 < d -> (- d # Z.to_pos (- n)) == / (n # Z.to_pos d).
Proof.
  intros Hn Hd. destruct n as [|p|p]; try lia. unfold Qinv, Qeq. simpl.
  rewrite <- Pos2Z.opp_pos, Pos2Z.inj_mul, Z2Pos.id by lia. ring.
Qed.

Lemma inv_word_spec n d : wfW n d -> n <> 0 ->
  wpost (inv_word n d) (/ (n # Z.to_pos d)).
Proof.
  intros (Hn & Hd & G) Hn0. unfold inv_word.
  destruct (Z.gtb_spec n 0) as [P|P].
  - rewrite chk_word_lword by (unfold LWORD_MIN, LWORD_MAX, UWORD_MAX in *; lia).
    destruct (in_word d) eqn:W; cbn [mbind]; [|exact I].
    rewrite chk_uword_lword by (unfold LWORD_MIN, LWORD_MAX, WORD_MIN, WORD_MAX in *; lia).
    destruct (Z.ltb_spec n 1); [lia|].
    destruct (Z.leb_spec n UWORD_MAX); [|unfold WORD_MAX, UWORD_MAX in *; lia].
    cbn [mbind]. apply in_word_iff in W. simpl. split.
    + repeat split; unfold UWORD_MAX, WORD_MAX in *; try lia. rewrite Z.gcd_comm. exact G.
    + apply Qinv_frac_pos; lia.
  - rewrite sneg64_ok by (unfold LWORD_MIN, LWORD_MAX, UWORD_MAX in *; lia). cbn [mbind].
    rewrite chk_word_lword by (unfold LWORD_MIN, LWORD_MAX, UWORD_MAX in *; lia).
    destruct (in_word (- d)) eqn:W; cbn [mbind]; [|exact I].
    rewrite sneg64_ok by (unfold LWORD_MIN, LWORD_MAX, WORD_MIN, WORD_MAX in *; lia). cbn [mbind].
    rewrite chk_uword_lword by (unfold LWORD_MIN, LWORD_MAX, WORD_MIN, WORD_MAX in *; lia).
    destruct (Z.ltb_spec (- n) 1); [lia|].
    destruct (Z.leb_spec (- n) UWORD_MAX); [|unfold WORD_MIN, UWORD_MAX in *; lia].
    cbn [mbind]. apply in_word_iff in W. simpl. split.
    + repeat split; unfold UWORD_MAX, WORD_MIN in *; try lia.
      rewrite Z.gcd_opp_l, Z.gcd_opp_r, Z.gcd_comm. exact G.
    + apply Qinv_frac_neg; lia.
Qed.

Lemma big_inv_exact a : wf a -> ~ value a == 0 -> ok_exact (big_inv a) (/ value a).
Proof.
  intros Ha Hz. unfold big_inv, gmp_inv.
  destruct (Z.eqb_spec (Qnum (mpq_of a)) 0) as [E|E].
  { exfalso. apply Hz. rewrite <- mpq_of_value. unfold Qeq. rewrite E. reflexivity. }
  cbn [rbind]. apply big_path_exact. rewrite Qred_correct, mpq_of_value. reflexivity.
Qed.

Theorem fr_inv_exact a : wf a -> ~ value a == 0 -> ok_exact (fr_inv a) (/ value a).
Proof.
  intros Ha Hz. destruct a as [n d|q]; [|apply big_inv_exact; assumption].
  unfold fr_inv. apply wpost_finish; [|apply big_inv_exact; assumption].
  apply inv_word_spec; [exact Ha|]. intros E. apply Hz. subst. unfold value, Qeq. reflexivity.
Qed.
