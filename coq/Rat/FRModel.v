(* C15 — FastRational (src/common/numbers/FastRational.h, FastRational.cc).  Definitions only.

   A branch-by-branch executable transcription of class FastRational.

   Representation.  The C++ object has a word part (int32 num, uint32 den), a GMP part (mpq) and
   a `state` saying which parts are valid.  Behaviour depends on the state only through
   wordPartValid() (when both parts are valid they are equal — class invariant, restored by every
   method: setOnlyWordPartValid after word results, try_fit_word after mpq results).  The model
   therefore has two forms:
       Word num den   wordPartValid()           (states WORD_VALID, WORD_PLUS_MPQ_INITIALIZED, WORD_AND_MPQ)
       Big q          only the mpq part valid   (state MPQ_ALLOCATED_AND_VALID)
   The tie (harness/h_rat.cc) reaches every state and compares with this model.

   Machine integers are unbounded Z with the C++ semantics written out:
     * conversions to an unsigned type: modular  (to_uword, to_ulword);
     * conversions to a signed type: modular (C++20)  (to_word, to_lword);
     * unsigned arithmetic wraps (umul64 ...);  signed arithmetic out of range, division by
       zero and INT_MIN / -1 are undefined behaviour: an explicit error result (sadd64 ...);
     * `goto overflow` is the result MOvf of the word path, after which the GMP path runs.
   GMP (mpq_add, mpz_gcd, ...) is not under study: it is modelled by its contract (exact
   result in canonical form). *)
From Coq Require Import ZArith QArith Qround Qreduction List Bool.
Import ListNotations.
Local Open Scope Z_scope.

(* ------------------------------------------------------------------------------------------ *)
(* machine integer types (FastRational.h:21-29)                                                *)

Definition WORD_MIN : Z := -2147483648.
Definition WORD_MAX : Z := 2147483647.
Definition UWORD_MAX : Z := 4294967295.
Definition LWORD_MIN : Z := -9223372036854775808.
Definition LWORD_MAX : Z := 9223372036854775807.
Definition ULWORD_MAX : Z := 18446744073709551615.

Definition in_word (z : Z) : bool := (WORD_MIN <=? z) && (z <=? WORD_MAX).
Definition in_uword (z : Z) : bool := (0 <=? z) && (z <=? UWORD_MAX).
Definition in_lword (z : Z) : bool := (LWORD_MIN <=? z) && (z <=? LWORD_MAX).
Definition in_ulword (z : Z) : bool := (0 <=? z) && (z <=? ULWORD_MAX).

Definition to_uword (z : Z) : Z := z mod 4294967296.
Definition to_ulword (z : Z) : Z := z mod 18446744073709551616.
Definition to_word (z : Z) : Z := (z + 2147483648) mod 4294967296 - 2147483648.
Definition to_lword (z : Z) : Z := (z + 9223372036854775808) mod 18446744073709551616 - 9223372036854775808.

(* ------------------------------------------------------------------------------------------ *)
(* results                                                                                     *)

Inductive err : Type :=
| UB_overflow      (* signed arithmetic out of range, INT_MIN / -1, INT_MIN % -1 *)
| UB_divzero       (* integer division by zero *)
| Abort_called     (* CHECK_POSITIVE: abort() *)
| Gmp_divzero      (* GMP division by zero (raises SIGFPE) *)
| Gmp_inexact      (* mpz_divexact with a divisor that is 0 or does not divide: result unspecified *)
| Out_of_fuel.     (* model artefact; proved impossible (gcd_loop_fuel_enough) *)

Inductive res (A : Type) : Type := Ok (a : A) | Err (e : err).
Arguments Ok {A} a. Arguments Err {A} e.

(* result of a word fast path: value / `goto overflow` / undefined behaviour or abort *)
Inductive mres (A : Type) : Type := MOk (a : A) | MOvf | MErr (e : err).
Arguments MOk {A} a. Arguments MOvf {A}. Arguments MErr {A} e.

Definition mbind {A B} (m : mres A) (k : A -> mres B) : mres B :=
  match m with MOk a => k a | MOvf => MOvf | MErr e => MErr e end.
Definition rbind {A B} (m : res A) (k : A -> res B) : res B :=
  match m with Ok a => k a | Err e => Err e end.

Declare Scope fr_scope.
Notation "x <- e ;; k" := (mbind e (fun x => k)) (at level 61, e at next level, right associativity) : fr_scope.
Notation "x <-- e ;; k" := (rbind e (fun x => k)) (at level 61, e at next level, right associativity) : fr_scope.
Notation "' p <- e ;; k" := (mbind e (fun p => k)) (at level 61, p pattern, e at next level, right associativity) : fr_scope.
Local Open Scope fr_scope.

(* a word-level computation used where the C++ has no `goto overflow` label in reach *)
Definition lift {A} (m : mres A) : res A :=
  match m with MOk a => Ok a | MOvf => Err UB_overflow | MErr e => Err e end.

(* signed 64-bit (lword) and 32-bit (word, computed in int) arithmetic: UB when out of range *)
Definition sadd64 (x y : Z) : mres Z := let r := x + y in if in_lword r then MOk r else MErr UB_overflow.
Definition ssub64 (x y : Z) : mres Z := let r := x - y in if in_lword r then MOk r else MErr UB_overflow.
Definition smul64 (x y : Z) : mres Z := let r := x * y in if in_lword r then MOk r else MErr UB_overflow.
Definition sneg64 (x : Z) : mres Z := let r := - x in if in_lword r then MOk r else MErr UB_overflow.
Definition sdiv64 (x y : Z) : mres Z :=
  if y =? 0 then MErr UB_divzero else if (x =? LWORD_MIN) && (y =? -1) then MErr UB_overflow else MOk (Z.quot x y).
Definition sneg32 (x : Z) : mres Z := let r := - x in if in_word r then MOk r else MErr UB_overflow.
Definition sadd32 (x y : Z) : mres Z := let r := x + y in if in_word r then MOk r else MErr UB_overflow.
Definition sdiv32 (x y : Z) : mres Z :=
  if y =? 0 then MErr UB_divzero else if (x =? WORD_MIN) && (y =? -1) then MErr UB_overflow else MOk (Z.quot x y).
Definition srem32 (x y : Z) : mres Z :=
  if y =? 0 then MErr UB_divzero else if (x =? WORD_MIN) && (y =? -1) then MErr UB_overflow else MOk (Z.rem x y).
(* unsigned: wraps; division by zero is UB *)
Definition umul64 (x y : Z) : Z := to_ulword (x * y).
Definition udiv (x y : Z) : mres Z := if y =? 0 then MErr UB_divzero else MOk (x / y).

(* absVal (FastRational.h:62-72): computed on the unsigned type *)
Definition absVal_w (x : Z) : Z := if x <? 0 then to_uword (- to_uword x) else to_uword x.
Definition absVal_l (x : Z) : Z := if x <? 0 then to_ulword (- to_ulword x) else to_ulword x.

(* ------------------------------------------------------------------------------------------ *)
(* the overflow-check macros (FastRational.h:567-609) as the range predicates the model uses.  *)
(* Gen_CheckMacros.v (regenerated from the header text) is proved equivalent to these.         *)

(* CHECK_WORD(var, value): `lword tmp = value` — [v] is the value of the argument expression in
   its own C type; the conversion to lword is part of the macro. *)
Definition chk_word (v : Z) : mres Z :=
  let tmp := to_lword v in if (tmp <? WORD_MIN) || (tmp >? WORD_MAX) then MOvf else MOk tmp.
(* CHECK_UWORD(var, value): CHECK_POSITIVE(value) (`if (value < 1) abort()`), `ulword tmp = value` *)
Definition chk_uword (v : Z) : mres Z :=
  if v <? 1 then MErr Abort_called
  else let tmp := to_ulword v in if tmp >? UWORD_MAX then MOvf else MOk tmp.
(* CHECK_SUM_OVERFLOWS_LWORD(var, s1, s2), CHECK_SUB_OVERFLOWS_LWORD(var, s1, s2) on lword operands *)
Definition chk_sum_lword (s1 s2 : Z) : mres Z := if in_lword (s1 + s2) then MOk (s1 + s2) else MOvf.
Definition chk_sub_lword (s1 s2 : Z) : mres Z := if in_lword (s1 - s2) then MOk (s1 - s2) else MOvf.

(* ------------------------------------------------------------------------------------------ *)
(* template<typename integer> integer gcd(integer a, integer b)   (FastRational.h:530-544)     *)

Fixpoint gcd_loop (smin : option Z) (fuel : nat) (a b : Z) : mres Z :=
  match fuel with
  | O => MErr Out_of_fuel
  | S f =>
    (* integer r = a % b;   b <> 0 here; UB for the signed instance when a = MIN, b = -1 *)
    if (match smin with Some m => (a =? m) && (b =? -1) | None => false end) then MErr UB_overflow
    else let r := Z.rem a b in
         if r =? 0 then MOk b else gcd_loop smin f b r
  end.

(* number of iterations: two steps at least halve |b| *)
Definition gcd_fuel (b : Z) : nat := S (2 * Z.to_nat (Z.log2 (Z.abs b) + 1)).

Definition tgcd (smin : option Z) (a b : Z) : mres Z :=
  if a =? 0 then MOk b
  else if b =? 0 then MOk a
  else let '(a, b) := if b >? a then (b, a) else (a, b) in
       gcd_loop smin (gcd_fuel b) a b.

Definition gcd_u (a b : Z) : mres Z := tgcd None a b.                    (* integer = uword, ulword *)
Definition gcd_s32 (a b : Z) : mres Z := tgcd (Some WORD_MIN) a b.       (* integer = word *)

(* ------------------------------------------------------------------------------------------ *)
(* the number                                                                                  *)

Inductive fr : Type := Word (num den : Z) | Big (q : Q).

Definition value (x : fr) : Q :=
  match x with Word n d => Qmake n (Z.to_pos d) | Big q => q end.

Definition canonicalQ (q : Q) : Prop := Z.gcd (Qnum q) (Zpos (Qden q)) = 1.

(* fitsWord (FastRational.h:178): mpz_fits_sint_p(num) and mpz_fits_uint_p(den) *)
Definition fits_word (q : Q) : bool := in_word (Qnum q) && (Zpos (Qden q) <=? UWORD_MAX).

(* the class invariant (isWellFormed, FastRational.h:611 + canonical GMP part + "wordPartValid() or not fitsWord()") *)
Definition wf (x : fr) : Prop :=
  match x with
  | Word n d => (WORD_MIN <= n <= WORD_MAX) /\ (1 <= d <= UWORD_MAX) /\ Z.gcd n d = 1
  | Big q => canonicalQ q /\ fits_word q = false
  end.

Definition wfb (x : fr) : bool :=
  match x with
  | Word n d => in_word n && (1 <=? d) && (d <=? UWORD_MAX) && (Z.gcd n d =? 1)
  | Big q => (Z.gcd (Qnum q) (Zpos (Qden q)) =? 1) && negb (fits_word q)
  end.

(* try_fit_word (FastRational.h:188) on a canonical mpq result *)
Definition try_fit_word (q : Q) : fr :=
  if fits_word q then Word (Qnum q) (Zpos (Qden q)) else Big q.

(* ensure_mpq_valid (FastRational.h:158): mpz_set_si(num), mpz_set_ui(den) *)
Definition mpq_of (x : fr) : Q :=
  match x with Word n d => Qmake n (Z.to_pos d) | Big q => q end.

(* GMP contracts *)
Definition gmp_add (x y : Q) : Q := Qred (x + y).
Definition gmp_sub (x y : Q) : Q := Qred (x - y).
Definition gmp_mul (x y : Q) : Q := Qred (x * y).
Definition gmp_div (x y : Q) : res Q := if Qnum y =? 0 then Err Gmp_divzero else Ok (Qred (x / y)).
Definition gmp_inv (x : Q) : res Q := if Qnum x =? 0 then Err Gmp_divzero else Ok (Qred (/ x)).
Definition gmp_neg (x : Q) : Q := Qopp x.

(* constructors *)
(* FastRational(word x)  (FastRational.h:126) *)
Definition of_word (x : Z) : fr := Word x 1.
(* FastRational(uint32_t x)  (FastRational.cc:58) *)
Definition of_uint32 (x : Z) : fr := if x >? WORD_MAX then Big (Qmake x 1) else Word x 1.
(* FastRational(mpz_t z)  (FastRational.cc:44) *)
Definition of_mpz (z : Z) : fr := if in_word z then Word z 1 else Big (Qmake z 1).
(* FastRational(const char* "n/d")  (FastRational.cc:32): mpq_set_str, mpq_canonicalize, try_fit_word.
   [n], [d] are the integers denoted by the two digit strings (reading literals is C16). *)
Definition of_string (n : Z) (d : positive) : fr := try_fit_word (Qred (Qmake n d)).
(* FastRational(word n, uword d)  (FastRational.h:628) *)
Definition of_word_uword (n d : Z) : res fr :=
  let absN := absVal_w n in
  common <-- lift (gcd_u absN d) ;;
  if common >? 1 then
    absNum <-- lift (udiv absN common) ;;
    den <-- lift (udiv d common) ;;
    (* num = n >= 0 ? static_cast<word>(absNum) : -static_cast<word>(absNum) *)
    let w := to_word absNum in
    if n >=? 0 then Ok (Word w den) else m <-- lift (sneg32 w) ;; Ok (Word m den)
  else Ok (Word n d).

(* run a word path; on `goto overflow` run the GMP path *)
Definition finish (w : mres (Z * Z)) (slow : res fr) : res fr :=
  match w with
  | MOk (n, d) => Ok (Word n d)
  | MOvf => slow
  | MErr e => Err e
  end.

(* common tail of addition/subtraction and the Assign forms:
     common = gcd(absVal(n), d);  if (TEST common) { CHECK_WORD(zn, n / common); CHECK_UWORD(zd, d / common); }
                                  else { CHECK_WORD(zn, n); CHECK_UWORD(zd, d); }
   [conv] is the conversion of the ulword gcd to the type of `common` (uword in addition,
   subtraction, subtractionAssign; lword in additionAssign); [test] is `!= 1` or `> 1`. *)
Definition reduce_tail (conv : Z -> Z) (test : Z -> bool) (n d : Z) : mres (Z * Z) :=
  g <- gcd_u (absVal_l n) d ;;
  let common := conv g in
  if test common then
    q <- sdiv64 n common ;;          (* lword / (uword -> lword  |  lword) *)
    zn <- chk_word q ;;
    (* d / common : ulword / (uword -> ulword | lword -> ulword) *)
    dq <- udiv d (to_ulword common) ;;
    zd <- chk_uword dq ;;
    MOk (zn, zd)
  else
    zn <- chk_word n ;;
    zd <- chk_uword d ;;
    MOk (zn, zd).

Definition ne1 (c : Z) : bool := negb (c =? 1).
Definition gt1 (c : Z) : bool := c >? 1.

(* ------------------------------------------------------------------------------------------ *)
(* addition (FastRational.h:643)                                                               *)

Definition add_word (an ad bn bd : Z) : mres (Z * Z) :=
  if bn =? 0 then MOk (an, ad)
  else if an =? 0 then MOk (bn, bd)
  else if (ad =? bd) && (bn >? WORD_MIN) && (an =? - bn) then MOk (0, 1)
  else if bd =? 1 then
    t <- smul64 bn ad ;; num_tmp <- sadd64 an t ;;
    zn <- chk_word num_tmp ;; MOk (zn, ad)
  else if ad =? 1 then
    t <- smul64 an bd ;; num_tmp <- sadd64 bn t ;;
    zn <- chk_word num_tmp ;; MOk (zn, bd)
  else
    common <- gcd_u ad bd ;;
    bq <- udiv bd common ;;
    '(n1, n2) <- (if ne1 common then
                    aq <- udiv ad common ;;
                    n1 <- smul64 an bq ;; n2 <- smul64 bn aq ;; MOk (n1, n2)
                  else
                    n1 <- smul64 an bd ;; n2 <- smul64 bn ad ;; MOk (n1, n2)) ;;
    n <- chk_sum_lword n1 n2 ;;
    let d := umul64 ad bq in
    reduce_tail to_uword ne1 n d.

Definition big_add (a b : fr) : res fr := Ok (try_fit_word (gmp_add (mpq_of a) (mpq_of b))).

Definition fr_add (a b : fr) : res fr :=
  match a, b with
  | Word an ad, Word bn bd => finish (add_word an ad bn bd) (big_add a b)
  | _, _ => big_add a b
  end.

(* ------------------------------------------------------------------------------------------ *)
(* subtraction (FastRational.h:705)                                                            *)

Definition sub_word (an ad bn bd : Z) : mres (Z * Z) :=
  if bn =? 0 then MOk (an, ad)
  else if an =? 0 then
    m <- sneg64 bn ;; zn <- chk_word m ;; MOk (zn, bd)
  else if (ad =? bd) && (an =? bn) then MOk (0, 1)
  else if bd =? 1 then
    t <- smul64 bn ad ;; v <- ssub64 an t ;;
    zn <- chk_word v ;; MOk (zn, ad)
  else if ad =? 1 then
    t <- smul64 an bd ;; v <- ssub64 t bn ;;
    zn <- chk_word v ;; MOk (zn, bd)
  else
    common <- gcd_u ad bd ;;
    '(n, d) <- (if ne1 common then
                  bq <- udiv bd common ;; aq <- udiv ad common ;;
                  n1 <- smul64 an bq ;; n2 <- smul64 bn aq ;;
                  n <- ssub64 n1 n2 ;;           (* unchecked `n = n1 - n2` (the check is commented out) *)
                  MOk (n, umul64 ad bq)
                else
                  n1 <- smul64 an bd ;; n2 <- smul64 bn ad ;;
                  n <- chk_sub_lword n1 n2 ;;
                  MOk (n, umul64 ad bd)) ;;
    reduce_tail to_uword ne1 n d.

Definition big_sub (a b : fr) : res fr := Ok (try_fit_word (gmp_sub (mpq_of a) (mpq_of b))).

Definition fr_sub (a b : fr) : res fr :=
  match a, b with
  | Word an ad, Word bn bd => finish (sub_word an ad bn bd) (big_sub a b)
  | _, _ => big_sub a b
  end.

(* ------------------------------------------------------------------------------------------ *)
(* multiplication (FastRational.h:773)                                                         *)

Definition is_word_zero (x : fr) : bool := match x with Word n _ => n =? 0 | Big _ => false end.
Definition is_word_one (x : fr) : bool := match x with Word n d => (n =? 1) && (d =? 1) | Big _ => false end.

Definition mul_word (an ad bn bd : Z) : mres (Z * Z) :=
  common1 <- gcd_u (absVal_w an) bd ;;
  common2 <- gcd_u ad (absVal_w bn) ;;
  '(k1, k4) <- (if gt1 common1 then k1 <- sdiv64 an common1 ;; k4 <- udiv bd common1 ;; MOk (k1, k4)
                else MOk (an, bd)) ;;
  '(k2, k3) <- (if gt1 common2 then k2 <- sdiv64 bn common2 ;; k3 <- udiv ad common2 ;; MOk (k2, k3)
                else MOk (bn, ad)) ;;
  p <- smul64 k1 k2 ;;
  zn <- chk_word p ;;
  zd <- chk_uword (umul64 k3 k4) ;;
  MOk (zn, zd).

Definition big_mul (a b : fr) : res fr := Ok (try_fit_word (gmp_mul (mpq_of a) (mpq_of b))).

Definition fr_mul (a b : fr) : res fr :=
  if is_word_zero a || is_word_zero b then Ok (Word 0 1)
  else if is_word_one a then Ok b          (* dst = b *)
  else if is_word_one b then Ok a          (* dst = a *)
  else match a, b with
       | Word an ad, Word bn bd => finish (mul_word an ad bn bd) (big_mul a b)
       | _, _ => big_mul a b
       end.

(* ------------------------------------------------------------------------------------------ *)
(* division (FastRational.h:824) and the shared body of divisionAssign                         *)

Definition flip_sign (an bn : Z) : bool :=
  ((bn <? 0) && (an >=? 0)) || ((bn >? 0) && (an <=? 0)).

Definition div_core (an ad bn bd : Z) : mres (Z * Z) :=
  common1 <- gcd_u (absVal_w an) (absVal_w bn) ;;
  common2 <- gcd_u ad bd ;;
  x1 <- udiv (absVal_w an) common1 ;; y1 <- udiv bd common2 ;;
  zn <- chk_word (umul64 x1 y1) ;;
  x2 <- udiv (absVal_w bn) common1 ;; y2 <- udiv ad common2 ;;
  zd <- chk_uword (umul64 x2 y2) ;;
  if flip_sign an bn then zn' <- sneg32 zn ;; MOk (zn', zd) else MOk (zn, zd).

Definition div_word (an ad bn bd : Z) : mres (Z * Z) :=
  if (an =? bn) && (ad =? bd) then MOk (1, 1) else div_core an ad bn bd.

Definition big_div (a b : fr) : res fr :=
  q <-- gmp_div (mpq_of a) (mpq_of b) ;; Ok (try_fit_word q).

Definition fr_div (a b : fr) : res fr :=
  if is_word_one b then Ok a               (* dst = a *)
  else if is_word_zero a then Ok (Word 0 1)   (* dst = 0 *)
  else match a, b with
       | Word an ad, Word bn bd => finish (div_word an ad bn bd) (big_div a b)
       | _, _ => big_div a b
       end.

(* ------------------------------------------------------------------------------------------ *)
(* additionAssign (FastRational.h:881)                                                         *)

Definition addA_word (an ad bn bd : Z) : mres (Z * Z) :=
  if bd =? 1 then
    t <- smul64 bn ad ;; v <- sadd64 an t ;;
    zn <- chk_word v ;; MOk (zn, ad)
  else if an =? 0 then MOk (bn, bd)
  else
    c1 <- smul64 an bd ;; c2 <- smul64 bn ad ;;
    n <- chk_sum_lword c1 c2 ;;
    let d := umul64 ad bd in
    reduce_tail to_lword gt1 n d.

Definition fr_addA (a b : fr) : res fr :=
  match b with
  | Word bn bd =>
    if bn =? 0 then Ok a
    else match a with
         | Word an ad => finish (addA_word an ad bn bd) (big_add a b)
         | Big _ => big_add a b
         end
  | Big _ => big_add a b
  end.

(* subtractionAssign (FastRational.h:922) *)
Definition subA_word (an ad bn bd : Z) : mres (Z * Z) :=
  common <- gcd_u ad bd ;;
  bq <- udiv bd common ;; aq <- udiv ad common ;;
  p1 <- smul64 an bq ;; n1 <- chk_word p1 ;;
  p2 <- smul64 bn aq ;; n2 <- chk_word p2 ;;
  n <- ssub64 n1 n2 ;;
  let d := umul64 ad bq in
  reduce_tail to_uword gt1 n d.

Definition fr_subA (a b : fr) : res fr :=
  match a, b with
  | Word an ad, Word bn bd => finish (subA_word an ad bn bd) (big_sub a b)
  | _, _ => big_sub a b
  end.

(* multiplicationAssign (FastRational.h:953) *)
Definition mulA_word (an ad bn bd : Z) : mres (Z * Z) :=
  common1 <- gcd_u (absVal_w an) bd ;;
  common2 <- gcd_u ad (absVal_w bn) ;;
  x <- (if gt1 common1 then udiv (absVal_w an) common1 else MOk (absVal_w an)) ;;
  y <- (if gt1 common2 then udiv (absVal_w bn) common2 else MOk (absVal_w bn)) ;;
  p <- smul64 x y ;;
  zn <- chk_word p ;;
  u <- (if gt1 common2 then udiv ad common2 else MOk ad) ;;
  v <- (if gt1 common1 then udiv bd common1 else MOk bd) ;;
  zd <- chk_uword (umul64 u v) ;;
  if flip_sign an bn then zn' <- sneg32 zn ;; MOk (zn', zd) else MOk (zn, zd).

Definition fr_mulA (a b : fr) : res fr :=
  match a, b with
  | Word an ad, Word bn bd => finish (mulA_word an ad bn bd) (big_mul a b)
  | _, _ => big_mul a b
  end.

(* divisionAssign (FastRational.h:986) *)
Definition fr_divA (a b : fr) : res fr :=
  match a, b with
  | Word an ad, Word bn bd => finish (div_core an ad bn bd) (big_div a b)
  | _, _ => big_div a b
  end.

(* ------------------------------------------------------------------------------------------ *)
(* unary minus (FastRational.h:475), negate (:489), inverse (:1023)                            *)

Definition big_neg (a : fr) : res fr := Ok (try_fit_word (gmp_neg (mpq_of a))).

Definition fr_neg (a : fr) : res fr :=
  match a with
  | Word n d => if n >? WORD_MIN then m <-- lift (sneg32 n) ;; of_word_uword m d
                else big_neg a
  | Big _ => big_neg a
  end.

Definition fr_negate (a : fr) : res fr :=
  match a with
  | Word n d => if n >? WORD_MIN then m <-- lift (sneg32 n) ;; Ok (Word m d)
                else big_neg a
  | Big _ => big_neg a
  end.

Definition inv_word (n d : Z) : mres (Z * Z) :=
  if n >? 0 then
    zn <- chk_word d ;; zd <- chk_uword n ;; MOk (zn, zd)
  else
    m <- sneg64 d ;; zn <- chk_word m ;;
    k <- sneg64 n ;; zd <- chk_uword k ;; MOk (zn, zd).

Definition big_inv (a : fr) : res fr := q <-- gmp_inv (mpq_of a) ;; Ok (try_fit_word q).

Definition fr_inv (a : fr) : res fr :=
  match a with
  | Word n d => finish (inv_word n d) (big_inv a)
  | Big _ => big_inv a
  end.

(* ------------------------------------------------------------------------------------------ *)
(* compare (:503), operator== (:466), sign (:516), isInteger (:290), isZero, isOne             *)

Definition cmp_lword (a b : Z) : Z := if a <? b then -1 else if a >? b then 1 else 0.
Definition z_of_comparison (c : comparison) : Z := match c with Lt => -1 | Eq => 0 | Gt => 1 end.

Definition fr_compare (a b : fr) : res Z :=
  match a, b with
  | Word an ad, Word bn bd =>
    if bd =? ad then Ok (cmp_lword an bn)
    else match smul64 an bd, smul64 bn ad with
         | MOk x, MOk y => Ok (cmp_lword x y)
         | MErr e, _ => Err e | _, MErr e => Err e | _, _ => Err UB_overflow
         end
  | _, _ => Ok (z_of_comparison (Qcompare (mpq_of a) (mpq_of b)))   (* sign of mpq_cmp *)
  end.

Definition Qeq_numden (x y : Q) : bool := (Qnum x =? Qnum y) && (Zpos (Qden x) =? Zpos (Qden y)).

Definition fr_eq (a b : fr) : bool :=
  match a, b with
  | Word an ad, Word bn bd => (an =? bn) && (ad =? bd)
  | _, _ => Qeq_numden (mpq_of a) (mpq_of b)       (* mpq_equal: componentwise *)
  end.

Definition fr_sign (a : fr) : Z :=
  match a with
  | Word n _ => if n <? 0 then -1 else if n >? 0 then 1 else 0
  | Big q => Z.sgn (Qnum q)
  end.

Definition fr_isInteger (a : fr) : bool :=
  match a with
  | Word _ d => d =? 1
  | Big q => (Zpos (Qden q) <=? UWORD_MAX) && (Zpos (Qden q) =? 1)
  end.

Definition fr_isZero (a : fr) : bool := is_word_zero a.
Definition fr_isOne (a : fr) : bool := is_word_one a.

(* get_num (:239), get_den (:230) *)
Definition fr_get_num (a : fr) : fr :=
  match a with Word n _ => of_word n | Big q => of_mpz (Qnum q) end.
Definition fr_get_den (a : fr) : fr :=
  match a with
  | Word n d => if d <=? WORD_MAX then of_uint32 d else of_mpz d
  | Big q => of_mpz (Zpos (Qden q))
  end.

(* ------------------------------------------------------------------------------------------ *)
(* ceil (:298), floor (:313)                                                                   *)

Definition fr_ceil (a : fr) : res fr :=
  if fr_isInteger a then Ok a
  else match a with
       | Word n d =>
         match udiv (absVal_w n) d with
         | MOk q =>
           let ret := to_word q in            (* word ret = uword / uword *)
           match (if n <? 0 then sneg32 ret else sadd32 ret 1) with
           | MOk r => Ok (of_word r) | MOvf => Err UB_overflow | MErr e => Err e
           end
         | MOvf => Err UB_overflow | MErr e => Err e
         end
       | Big q => Ok (of_mpz (Qceiling q))   (* mpz_cdiv_q(num, den) *)
       end.

Definition fr_floor (a : fr) : res fr :=
  if fr_isInteger a then Ok a
  else c <-- fr_ceil a ;; fr_sub c (of_word 1).

(* ------------------------------------------------------------------------------------------ *)
(* gcd (FastRational.cc:115), lcm (:129, template FastRational.h:546)                          *)
(* precondition of the C++: both operands integers (assert)                                    *)

Definition fr_gcd (a b : fr) : res fr :=
  match a, b with
  | Word an _, Word bn _ => g <-- lift (gcd_s32 an bn) ;; Ok (of_word g)
  | _, _ => Ok (of_mpz (Z.gcd (Qnum (mpq_of a)) (Qnum (mpq_of b))))     (* mpz_gcd: non-negative *)
  end.

Definition lcm_word (a b : Z) : res fr :=
  if a =? 0 then Ok (of_word 0)
  else if b =? 0 then Ok (of_word 0)
  else if b >? a then
    g <-- lift (gcd_s32 a b) ;; q <-- lift (sdiv32 b g) ;; fr_mul (of_word q) (of_word a)
  else
    g <-- lift (gcd_s32 a b) ;; q <-- lift (sdiv32 a g) ;; fr_mul (of_word q) (of_word b).

Definition fr_lcm (a b : fr) : res fr :=
  match a, b with
  | Word an _, Word bn _ => lcm_word an bn
  | _, _ => Ok (of_mpz (Z.lcm (Qnum (mpq_of a)) (Qnum (mpq_of b))))     (* mpz_lcm: non-negative *)
  end.

(* the proposed repair (proposed_fixes/C15_gcd_lcm_sign.diff): the word path works on absVal *)
Definition fr_gcd_fixed (a b : fr) : res fr :=
  match a, b with
  | Word an _, Word bn _ => g <-- lift (gcd_u (absVal_w an) (absVal_w bn)) ;; Ok (of_uint32 g)
  | _, _ => Ok (of_mpz (Z.gcd (Qnum (mpq_of a)) (Qnum (mpq_of b))))
  end.

Definition lcm_uword (a b : Z) : res fr :=
  if a =? 0 then Ok (of_word 0)
  else if b =? 0 then Ok (of_word 0)
  else if b >? a then
    g <-- lift (gcd_u a b) ;; q <-- lift (udiv b g) ;; fr_mul (of_uint32 q) (of_uint32 a)
  else
    g <-- lift (gcd_u a b) ;; q <-- lift (udiv a g) ;; fr_mul (of_uint32 q) (of_uint32 b).

Definition fr_lcm_fixed (a b : fr) : res fr :=
  match a, b with
  | Word an _, Word bn _ => lcm_uword (absVal_w an) (absVal_w bn)
  | _, _ => Ok (of_mpz (Z.lcm (Qnum (mpq_of a)) (Qnum (mpq_of b))))
  end.

(* ------------------------------------------------------------------------------------------ *)
(* fastrat_fdiv_q (FastRational.cc:151), operator% (FastRational.h:401), divexact (cc:174),    *)
(* fastrat_round_to_int (cc:143)                                                               *)

Definition gmp_fdiv_q (n d : Z) : res fr := if d =? 0 then Err Gmp_divzero else Ok (of_mpz (n / d)).

Definition fr_fdiv_q (n d : fr) : res fr :=
  match n, d with
  | Word num _, Word den _ =>
    if num =? WORD_MIN then gmp_fdiv_q num den
    else
      q <-- lift (sdiv32 num den) ;;
      r <-- lift (srem32 num den) ;;
      if negb (r =? 0) && (((num <? 0) && (den >=? 0)) || ((den <? 0) && (num >=? 0)))
      then q' <-- lift (sadd32 q (-1)) ;; Ok (of_word q')
      else Ok (of_word q)
  | _, _ => gmp_fdiv_q (Qnum (mpq_of n)) (Qnum (mpq_of d))
  end.

Definition fr_mod (a d : fr) : res fr :=
  match a, d with
  | Word num _, Word dnum _ =>
    r <-- lift (srem32 num dnum) ;;
    let w := absVal_w r in
    Ok (of_word (to_word (if dnum >? 0 then w else to_uword (- w))))
  | _, _ =>
    r <-- fr_div a d ;; r <-- fr_floor r ;; p <-- fr_mul r d ;; fr_sub a p
  end.

Definition fr_divexact (n d : fr) : res fr :=
  match n, d with
  | Word num _, Word den _ =>
    if negb (den =? 0) then q <-- lift (sdiv32 num den) ;; Ok (of_word q)
    else Ok (of_word 0)
  | _, _ =>
    let nn := Qnum (mpq_of n) in let dd := Qnum (mpq_of d) in
    if dd =? 0 then Err Gmp_inexact
    else if nn mod dd =? 0 then Ok (of_mpz (nn / dd)) else Err Gmp_inexact
  end.

(* after the repair (commit 0dce736, proposed_fixes/C15_divexact_int_min.diff): the pair
   (INT_MIN, -1) is excluded from the word path *)
Definition fr_divexact_fixed (n d : fr) : res fr :=
  let gmp :=
    let nn := Qnum (mpq_of n) in let dd := Qnum (mpq_of d) in
    if dd =? 0 then Err Gmp_inexact
    else if nn mod dd =? 0 then Ok (of_mpz (nn / dd)) else Err Gmp_inexact in
  match n, d with
  | Word num _, Word den _ =>
    if negb ((num =? WORD_MIN) && (den =? -1)) then
      if negb (den =? 0) then q <-- lift (sdiv32 num den) ;; Ok (of_word q)
      else Ok (of_word 0)
    else gmp
  | _, _ => gmp
  end.

Definition fr_round_to_int (n : fr) : res fr :=
  h <-- of_word_uword 1 2 ;;
  r <-- fr_add n h ;;
  fr_fdiv_q (fr_get_num r) (fr_get_den r).

(* ------------------------------------------------------------------------------------------ *)
(* getHashValue (FastRational.h:271)                                                           *)

Definition hash_word (n d : Z) : Z := to_uword (to_uword (37 * to_uword n) + to_uword (13 * to_uword d)).

(* limbs of a non-negative integer, base 2^64, least significant first (GMP _mp_d[0.._mp_size-1]) *)
Fixpoint limbs (fuel : nat) (z : Z) : list Z :=
  match fuel with
  | O => []
  | S f => if z <=? 0 then [] else (z mod 18446744073709551616) :: limbs f (z / 18446744073709551616)
  end.
Definition limbs_of (z : Z) : list Z := limbs (S (Z.to_nat (Z.log2 z / 64))) z.

(* FNV-1 style loop; `h ^= limb` is computed in 64 bits and truncated to uint32_t *)
Definition fnv (ls : list Z) : Z :=
  fold_left (fun h l => to_uword (Z.lxor (to_uword (h * 16777619)) l)) ls 2166136261.

(* `for (i = 0; i < _mp_size; i++)`: _mp_size is negative for a negative number, so no iteration *)
Definition hash_mpz (z : Z) : Z := if z <? 0 then 2166136261 else fnv (limbs_of z).

Definition fr_hash (a : fr) : Z :=
  match a with
  | Word n d => hash_word n d
  | Big q => to_uword (hash_mpz (Qnum q) + hash_mpz (Zpos (Qden q)))
  end.
