(* C15 — multiplication, division, multiplicationAssign, divisionAssign. *)
From Coq Require Import ZArith QArith Qreduction Znumtheory Lia Bool ZifyBool.
From OsmtV.Rat Require Import FRModel FRBase FRGcd FRArith.
Local Open Scope Z_scope.
Local Open Scope fr_scope.

Lemma Qmult_frac an ad bn bd n d : 0 < ad -> 0 < bd -> 0 < d ->
  n * (ad * bd) = (an * bn) * d ->
  Qmake n (Z.to_pos d) == Qmake an (Z.to_pos ad) * Qmake bn (Z.to_pos bd).
Proof.
  intros. unfold Qeq, Qmult. simpl. rewrite Pos2Z.inj_mul, !Z2Pos.id by lia. assumption.
Qed.

Lemma Qdiv_frac an ad bn bd n d : 0 < ad -> 0 < bd -> 0 < d -> bn <> 0 ->
  n * (ad * Z.abs bn) = (an * bd * Z.sgn bn) * d ->
  Qmake n (Z.to_pos d) == Qmake an (Z.to_pos ad) / Qmake bn (Z.to_pos bd).
Proof.
  intros Had Hbd Hd Hbn H. unfold Qeq, Qdiv, Qmult, Qinv. 
  destruct bn as [|pb|pb]; [lia| |]; simpl Qnum; simpl Qden; cbn [Qnum Qden].
  - rewrite Pos2Z.inj_mul, !Z2Pos.id by lia. simpl in H. lia.
  - rewrite Pos2Z.inj_mul, !Z2Pos.id by lia. simpl in H.
    change (Z.neg (Z.to_pos bd)) with (- Zpos (Z.to_pos bd)). rewrite Z2Pos.id by lia. lia.
Qed.

(* exact quotient of a bounded number stays in the bounds *)
Lemma exact_quot_range a c lo hi : 0 < c -> (c | a) -> lo <= a <= hi -> lo <= 0 <= hi -> lo <= a / c <= hi.
Proof. intros Hc [k ->] Ha H0. rewrite Z.div_mul by lia. nia. Qed.

Lemma mul_abs_bound x y A B : Z.abs x <= A -> Z.abs y <= B -> - (A * B) <= x * y <= A * B.
Proof.
  intros. assert (Z.abs (x * y) <= A * B) by (rewrite Z.abs_mul; apply Z.mul_le_mono_nonneg; lia). lia.
Qed.

Lemma mul_nonneg_bound x y A B : 0 <= x <= A -> 0 <= y <= B -> 0 <= x * y <= A * B.
Proof. intros. split; [apply Z.mul_nonneg_nonneg; lia | apply Z.mul_le_mono_nonneg; lia]. Qed.

Lemma abs_word x : WORD_MIN <= x <= WORD_MAX -> 0 <= Z.abs x <= 2147483648.
Proof. unfold WORD_MIN, WORD_MAX. lia. Qed.

Lemma gcd1_quot a b g h : Z.gcd a b = 1 -> (g | a) -> (h | b) -> g <> 0 -> h <> 0 -> Z.gcd (a / g) (b / h) = 1.
Proof.
  intros H Hg Hh Hg0 Hh0.
  apply gcd1_divide_l with (n := a).
  - exists g. symmetry. apply div_mul_exact; auto.
  - apply gcd1_divide_r with (m := b); auto.
    exists h. symmetry. apply div_mul_exact; auto.
Qed.

Section TwoWords.
Variables an ad bn bd : Z.
Hypothesis Ha : wfW an ad.
Hypothesis Hb : wfW bn bd.

(* ---------------------------------------------------------------------------------------- *)
(* multiplication: cross cancellation                                                        *)

Let c1 := Z.gcd an bd.
Let c2 := Z.gcd ad bn.
Let k1 := an / c1.
Let k4 := bd / c1.
Let k2 := bn / c2.
Let k3 := ad / c2.

Lemma mul_facts :
  1 <= c1 <= UWORD_MAX /\ 1 <= c2 <= UWORD_MAX /\
  an = c1 * k1 /\ bd = c1 * k4 /\ bn = c2 * k2 /\ ad = c2 * k3 /\
  WORD_MIN <= k1 <= WORD_MAX /\ WORD_MIN <= k2 <= WORD_MAX /\ 1 <= k3 <= UWORD_MAX /\ 1 <= k4 <= UWORD_MAX /\
  Z.gcd (k1 * k2) (k3 * k4) = 1.
Proof.
  destruct Ha as (Han & Had & Ga), Hb as (Hbn & Hbd & Gb).
  assert (Hc1 : 0 < c1) by (apply gcd_pos_r; lia).
  assert (Hc2 : 0 < c2) by (unfold c2; rewrite Z.gcd_comm; apply gcd_pos_r; lia).
  assert (Hc1b : c1 <= bd) by (apply gcd_le_r; lia).
  assert (Hc2b : c2 <= ad) by (unfold c2; rewrite Z.gcd_comm; apply gcd_le_r; lia).
  assert (D1 : (c1 | an)) by apply Z.gcd_divide_l.
  assert (D2 : (c1 | bd)) by apply Z.gcd_divide_r.
  assert (D3 : (c2 | ad)) by apply Z.gcd_divide_l.
  assert (D4 : (c2 | bn)) by apply Z.gcd_divide_r.
  assert (E1 : an = c1 * k1) by (symmetry; apply div_mul_exact; auto; lia).
  assert (E2 : bd = c1 * k4) by (symmetry; apply div_mul_exact; auto; lia).
  assert (E3 : bn = c2 * k2) by (symmetry; apply div_mul_exact; auto; lia).
  assert (E4 : ad = c2 * k3) by (symmetry; apply div_mul_exact; auto; lia).
  assert (R1 : WORD_MIN <= k1 <= WORD_MAX) by (apply exact_quot_range; auto; unfold WORD_MIN, WORD_MAX; lia).
  assert (R2 : WORD_MIN <= k2 <= WORD_MAX) by (apply exact_quot_range; auto; unfold WORD_MIN, WORD_MAX; lia).
  assert (R3 : 1 <= k3 <= UWORD_MAX).
  { pose proof (exact_quot_range ad c2 0 UWORD_MAX Hc2 D3 ltac:(lia) ltac:(unfold UWORD_MAX; lia)). fold k3 in H.
    assert (k3 <> 0) by (intro E; rewrite E in E4; lia). lia. }
  assert (R4 : 1 <= k4 <= UWORD_MAX).
  { pose proof (exact_quot_range bd c1 0 UWORD_MAX Hc1 D2 ltac:(lia) ltac:(unfold UWORD_MAX; lia)). fold k4 in H.
    assert (k4 <> 0) by (intro E; rewrite E in E2; lia). lia. }
  repeat split; try lia.
  assert (G13 : Z.gcd k1 k3 = 1) by (apply gcd1_quot; auto; lia).
  assert (G14 : Z.gcd k1 k4 = 1) by (apply Z.gcd_div_gcd; [lia | reflexivity]).
  assert (G23 : Z.gcd k2 k3 = 1).
  { rewrite Z.gcd_comm. apply Z.gcd_div_gcd; [lia | reflexivity]. }
  assert (G24 : Z.gcd k2 k4 = 1) by (apply gcd1_quot; auto; lia).
  apply gcd1_mul_l; apply gcd1_mul_r; assumption.
Qed.

(* the products k1*k2 and k3*k4 after cancellation fit 64 bits: |k1*k2| <= 2^62, k3*k4 < 2^64 *)
Lemma mul_word_path_no_wrap_lemma :
  -4611686018427387904 <= k1 * k2 <= 4611686018427387904 /\ 0 <= k3 * k4 <= 18446744065119617025.
Proof.
  destruct mul_facts as (_ & _ & _ & _ & _ & _ & R1 & R2 & R3 & R4 & _).
  clearbody k1 k2 k3 k4 c1 c2. clear Ha Hb.
  pose proof (mul_abs_bound k1 k2 2147483648 2147483648 ltac:(unfold WORD_MIN, WORD_MAX in *; lia) ltac:(unfold WORD_MIN, WORD_MAX in *; lia)).
  pose proof (mul_nonneg_bound k3 k4 UWORD_MAX UWORD_MAX ltac:(lia) ltac:(lia)).
  unfold UWORD_MAX in *. lia.
Qed.

Lemma mul_word_spec :
  wpost (mul_word an ad bn bd) (Qmake an (Z.to_pos ad) * Qmake bn (Z.to_pos bd)).
Proof.
  destruct mul_facts as (Hc1 & Hc2 & E1 & E2 & E3 & E4 & R1 & R2 & R3 & R4 & G).
  destruct mul_word_path_no_wrap_lemma as (W1' & W2').
  assert (W1 : LWORD_MIN <= k1 * k2 <= LWORD_MAX) by (clear - W1'; unfold LWORD_MIN, LWORD_MAX; lia).
  assert (W2 : 0 <= k3 * k4 <= ULWORD_MAX) by (clear - W2'; unfold ULWORD_MAX; lia).
  destruct Ha as (Han & Had & Ga), Hb as (Hbn & Hbd & Gb).
  unfold mul_word.
  rewrite !absVal_w_abs by assumption.
  rewrite !gcd_u_correct by lia. rewrite Z.gcd_abs_l, Z.gcd_abs_r. fold c1 c2. cbn [mbind].
  assert (S1 : (if gt1 c1 then k1 <- sdiv64 an c1;; k4 <- udiv bd c1;; MOk (k1, k4) else MOk (an, bd)) = MOk (k1, k4)).
  { destruct (gt1 c1) eqn:T; unfold gt1 in T.
    - rewrite sdiv64_ok, udiv_ok by lia. cbn [mbind]. rewrite quot_exact by (try apply Z.gcd_divide_l; lia). reflexivity.
    - assert (c1 = 1) by lia. unfold k1, k4. rewrite H, !Z.div_1_r. reflexivity. }
  assert (S2 : (if gt1 c2 then k2 <- sdiv64 bn c2;; k3 <- udiv ad c2;; MOk (k2, k3) else MOk (bn, ad)) = MOk (k2, k3)).
  { destruct (gt1 c2) eqn:T; unfold gt1 in T.
    - rewrite sdiv64_ok, udiv_ok by lia. cbn [mbind]. rewrite quot_exact by (try apply Z.gcd_divide_r; lia). reflexivity.
    - assert (c2 = 1) by lia. unfold k2, k3. rewrite H, !Z.div_1_r. reflexivity. }
  rewrite S1. cbn [mbind]. rewrite S2. cbn [mbind].
  rewrite smul64_ok by exact W1. cbn [mbind].
  rewrite chk_word_lword by exact W1.
  destruct (in_word (k1 * k2)) eqn:W; cbn [mbind]; [|exact I].
  rewrite umul64_ok by exact W2.
  assert (1 <= k3 * k4) by (clear - R3 R4; nia).
  rewrite chk_uword_spec by lia.
  destruct (Z.eqb_spec (k3 * k4) 0); [lia|].
  destruct (Z.leb_spec (k3 * k4) UWORD_MAX); cbn [mbind]; [|exact I].
  apply in_word_iff in W. simpl. split.
  - repeat split; first [lia | exact G].
  - apply Qmult_frac; [lia | lia | lia |].
    clearbody k1 k2 k3 k4 c1 c2. rewrite E1, E2, E3, E4. ring.
Qed.

(* ---------------------------------------------------------------------------------------- *)
(* multiplicationAssign: the same cancellation on absolute values, sign restored at the end   *)

Lemma abs_div_exact a c : 0 < c -> (c | a) -> Z.abs a / c = Z.abs (a / c).
Proof. intros Hc [k ->]. rewrite Z.abs_mul, (Z.abs_eq c) by lia. rewrite !Z.div_mul by lia. reflexivity. Qed.

Lemma flip_sign_mul x y : (if flip_sign x y then -1 else 1) * (Z.abs x * Z.abs y) = x * y.
Proof. destruct x, y; cbn; reflexivity. Qed.

Lemma mulA_word_spec :
  wpost (mulA_word an ad bn bd) (Qmake an (Z.to_pos ad) * Qmake bn (Z.to_pos bd)).
Proof.
  destruct mul_facts as (Hc1 & Hc2 & E1 & E2 & E3 & E4 & R1 & R2 & R3 & R4 & G).
  destruct mul_word_path_no_wrap_lemma as (W1 & W2').
  assert (W2 : 0 <= k3 * k4 <= ULWORD_MAX) by (clear - W2'; unfold ULWORD_MAX; lia).
  destruct Ha as (Han & Had & Ga), Hb as (Hbn & Hbd & Gb).
  unfold mulA_word.
  rewrite !absVal_w_abs by assumption.
  rewrite !gcd_u_correct by lia. rewrite Z.gcd_abs_l, Z.gcd_abs_r. fold c1 c2. cbn [mbind].
  assert (S1 : (if gt1 c1 then udiv (Z.abs an) c1 else MOk (Z.abs an)) = MOk (Z.abs k1)).
  { unfold k1. rewrite <- abs_div_exact by (try apply Z.gcd_divide_l; lia).
    destruct (gt1 c1) eqn:T; unfold gt1 in T.
    - rewrite udiv_ok by lia. reflexivity.
    - assert (c1 = 1) by lia. rewrite H, Z.div_1_r. reflexivity. }
  assert (S2 : (if gt1 c2 then udiv (Z.abs bn) c2 else MOk (Z.abs bn)) = MOk (Z.abs k2)).
  { unfold k2. rewrite <- abs_div_exact by (try apply Z.gcd_divide_r; lia).
    destruct (gt1 c2) eqn:T; unfold gt1 in T.
    - rewrite udiv_ok by lia. reflexivity.
    - assert (c2 = 1) by lia. rewrite H, Z.div_1_r. reflexivity. }
  assert (S3 : (if gt1 c2 then udiv ad c2 else MOk ad) = MOk k3).
  { destruct (gt1 c2) eqn:T; unfold gt1 in T.
    - rewrite udiv_ok by lia. reflexivity.
    - assert (c2 = 1) by lia. unfold k3. rewrite H, Z.div_1_r. reflexivity. }
  assert (S4 : (if gt1 c1 then udiv bd c1 else MOk bd) = MOk k4).
  { destruct (gt1 c1) eqn:T; unfold gt1 in T.
    - rewrite udiv_ok by lia. reflexivity.
    - assert (c1 = 1) by lia. unfold k4. rewrite H, Z.div_1_r. reflexivity. }
  rewrite S1. cbn [mbind]. rewrite S2. cbn [mbind].
  assert (Habs : Z.abs k1 * Z.abs k2 = Z.abs (k1 * k2)) by (symmetry; apply Z.abs_mul).
  assert (W1' : 0 <= Z.abs k1 * Z.abs k2 <= LWORD_MAX).
  { rewrite Habs. clear - W1. unfold LWORD_MAX. lia. }
  rewrite smul64_ok by (unfold LWORD_MIN; lia). cbn [mbind].
  rewrite chk_word_ulword_small by exact W1'.
  destruct (Z.leb_spec (Z.abs k1 * Z.abs k2) WORD_MAX) as [W|W]; cbn [mbind]; [|exact I].
  rewrite S3. cbn [mbind]. rewrite S4. cbn [mbind].
  rewrite umul64_ok by exact W2.
  assert (1 <= k3 * k4) by (clear - R3 R4; nia).
  rewrite chk_uword_spec by lia.
  destruct (Z.eqb_spec (k3 * k4) 0); [lia|].
  destruct (Z.leb_spec (k3 * k4) UWORD_MAX); cbn [mbind]; [|exact I].
  assert (Hval : forall z s, s = (if flip_sign an bn then -1 else 1) -> z = s * (Z.abs k1 * Z.abs k2) ->
     wfW z (k3 * k4) /\
     (z # Z.to_pos (k3 * k4)) == (an # Z.to_pos ad) * (bn # Z.to_pos bd)).
  { intros z s Hs ->. split.
    - repeat split; try lia.
      + clearbody k1 k2 k3 k4 c1 c2. unfold WORD_MIN, WORD_MAX in *. destruct (flip_sign an bn); subst s; lia.
      + clearbody k1 k2 k3 k4 c1 c2. unfold WORD_MIN, WORD_MAX in *. destruct (flip_sign an bn); subst s; lia.
      + rewrite Habs. destruct (flip_sign an bn); subst s.
        * replace (-1 * Z.abs (k1 * k2)) with (- Z.abs (k1 * k2)) by ring. rewrite Z.gcd_opp_l, Z.gcd_abs_l. exact G.
        * rewrite Z.mul_1_l, Z.gcd_abs_l. exact G.
    - apply Qmult_frac; [lia | lia | lia |].
      pose proof (flip_sign_mul an bn) as F. rewrite <- Hs in F.
      assert (A1 : Z.abs an = c1 * Z.abs k1) by (rewrite E1 at 1; rewrite Z.abs_mul, (Z.abs_eq c1) by lia; reflexivity).
      assert (A2 : Z.abs bn = c2 * Z.abs k2) by (rewrite E3 at 1; rewrite Z.abs_mul, (Z.abs_eq c2) by lia; reflexivity).
      rewrite <- F, A1, A2. clearbody k1 k2 k3 k4 c1 c2. rewrite E2, E4. ring. }
  destruct (flip_sign an bn) eqn:FL.
  - rewrite sneg32_ok by (unfold WORD_MIN, WORD_MAX in *; lia). cbn [mbind]. simpl.
    apply (Hval _ (-1)); [reflexivity | ring].
  - simpl. apply (Hval _ 1); [reflexivity | ring].
Qed.

End TwoWords.

(* ------------------------------------------------------------------------------------------ *)
(* division / divisionAssign                                                                   *)

Lemma flip_sign_div x y : y <> 0 -> (if flip_sign x y then -1 else 1) * Z.abs x = x * Z.sgn y.
Proof. intros H. destruct x, y; cbn; try reflexivity; try (exfalso; apply H; reflexivity); rewrite Pos.mul_1_r; reflexivity. Qed.

Section DivWords.
Variables an ad bn bd : Z.
Hypothesis Ha : wfW an ad.
Hypothesis Hb : wfW bn bd.
Hypothesis Hbn0 : bn <> 0.

Let g1 := Z.gcd an bn.
Let g2 := Z.gcd ad bd.
Let x1 := Z.abs an / g1.
Let x2 := Z.abs bn / g1.
Let y1 := bd / g2.
Let y2 := ad / g2.

Ltac cb := clearbody g1 g2 x1 x2 y1 y2.

Lemma div_facts :
  1 <= g1 /\ 1 <= g2 /\
  Z.abs an = g1 * x1 /\ Z.abs bn = g1 * x2 /\ bd = g2 * y1 /\ ad = g2 * y2 /\
  0 <= x1 <= 2147483648 /\ 1 <= x2 <= 2147483648 /\ 1 <= y1 <= UWORD_MAX /\ 1 <= y2 <= UWORD_MAX /\
  Z.gcd (x1 * y1) (x2 * y2) = 1.
Proof.
  destruct Ha as (Han & Had & Ga), Hb as (Hbn & Hbd & Gb).
  assert (Hg1 : 0 < g1) by (apply gcd_pos_r_abs; exact Hbn0).
  assert (Hg2 : 0 < g2) by (apply gcd_pos_r; cb; lia).
  assert (Gabs : g1 = Z.gcd (Z.abs an) (Z.abs bn)) by (rewrite Z.gcd_abs_l, Z.gcd_abs_r; reflexivity).
  assert (D1 : (g1 | Z.abs an)) by (rewrite Gabs; apply Z.gcd_divide_l).
  assert (D2 : (g1 | Z.abs bn)) by (rewrite Gabs; apply Z.gcd_divide_r).
  assert (D3 : (g2 | ad)) by apply Z.gcd_divide_l.
  assert (D4 : (g2 | bd)) by apply Z.gcd_divide_r.
  assert (E1 : Z.abs an = g1 * x1) by (symmetry; apply div_mul_exact; auto; cb; lia).
  assert (E2 : Z.abs bn = g1 * x2) by (symmetry; apply div_mul_exact; auto; cb; lia).
  assert (E3 : bd = g2 * y1) by (symmetry; apply div_mul_exact; auto; cb; lia).
  assert (E4 : ad = g2 * y2) by (symmetry; apply div_mul_exact; auto; cb; lia).
  pose proof (abs_word an Han) as Aan. pose proof (abs_word bn Hbn) as Abn.
  assert (R1 : 0 <= x1 <= 2147483648) by (apply exact_quot_range; auto; cb; lia).
  assert (R2 : 1 <= x2 <= 2147483648).
  { pose proof (exact_quot_range (Z.abs bn) g1 0 2147483648 Hg1 D2 ltac:(cb; lia) ltac:(cb; lia)). fold x2 in H.
    assert (x2 <> 0) by (intro E; rewrite E in E2; cb; lia). cb; lia. }
  assert (R3 : 1 <= y1 <= UWORD_MAX).
  { pose proof (exact_quot_range bd g2 0 UWORD_MAX Hg2 D4 ltac:(cb; lia) ltac:(unfold UWORD_MAX; lia)). fold y1 in H.
    assert (y1 <> 0) by (intro E; rewrite E in E3; cb; lia). cb; lia. }
  assert (R4 : 1 <= y2 <= UWORD_MAX).
  { pose proof (exact_quot_range ad g2 0 UWORD_MAX Hg2 D3 ltac:(cb; lia) ltac:(unfold UWORD_MAX; lia)). fold y2 in H.
    assert (y2 <> 0) by (intro E; rewrite E in E4; cb; lia). cb; lia. }
  repeat split; try (cb; lia).
  assert (G12 : Z.gcd x1 x2 = 1) by (apply Z.gcd_div_gcd; [cb; lia | exact Gabs]).
  assert (G1y2 : Z.gcd x1 y2 = 1).
  { apply gcd1_quot; auto; try (cb; lia). rewrite Z.gcd_abs_l. exact Ga. }
  assert (Gy1x2 : Z.gcd y1 x2 = 1).
  { apply gcd1_quot; auto; try (cb; lia). rewrite Z.gcd_comm, Z.gcd_abs_l. exact Gb. }
  assert (Gy1y2 : Z.gcd y1 y2 = 1).
  { rewrite Z.gcd_comm. apply Z.gcd_div_gcd; [cb; lia | reflexivity]. }
  apply gcd1_mul_l; apply gcd1_mul_r; assumption.
Qed.

(* `CHECK_WORD(zn, ulword(...) * (...))`: the ulword product is below 2^63, so its conversion
   to lword inside the macro does not change it *)
Lemma div_zn_no_wrap_lemma : 0 <= x1 * y1 <= LWORD_MAX /\ 0 <= x2 * y2 <= ULWORD_MAX.
Proof.
  destruct div_facts as (_ & _ & _ & _ & _ & _ & R1 & R2 & R3 & R4 & _).
  clearbody x1 x2 y1 y2 g1 g2. clear Ha Hb.
  pose proof (mul_nonneg_bound x1 y1 2147483648 UWORD_MAX ltac:(lia) ltac:(lia)).
  pose proof (mul_nonneg_bound x2 y2 2147483648 UWORD_MAX ltac:(lia) ltac:(lia)).
  unfold LWORD_MAX, ULWORD_MAX, UWORD_MAX in *. lia.
Qed.

Lemma div_core_spec :
  wpost (div_core an ad bn bd) (Qmake an (Z.to_pos ad) / Qmake bn (Z.to_pos bd)).
Proof.
  destruct div_facts as (Hg1 & Hg2 & E1 & E2 & E3 & E4 & R1 & R2 & R3 & R4 & G).
  destruct div_zn_no_wrap_lemma as (W1 & W2).
  destruct Ha as (Han & Had & Ga), Hb as (Hbn & Hbd & Gb).
  unfold div_core.
  rewrite !absVal_w_abs by assumption.
  rewrite !gcd_u_correct by (cb; lia). rewrite Z.gcd_abs_l, Z.gcd_abs_r. fold g1 g2. cbn [mbind].
  rewrite !udiv_ok by (cb; lia). fold x1 x2 y1 y2. cbn [mbind].
  cb.
  rewrite umul64_ok by (unfold ULWORD_MAX, LWORD_MAX in *; lia).
  rewrite chk_word_ulword_small by exact W1.
  destruct (Z.leb_spec (x1 * y1) WORD_MAX) as [W|W]; cbn [mbind]; [|exact I].
  rewrite umul64_ok by exact W2.
  assert (1 <= x2 * y2) by (clear - R2 R4; nia).
  rewrite chk_uword_spec by lia.
  destruct (Z.eqb_spec (x2 * y2) 0); [lia|].
  destruct (Z.leb_spec (x2 * y2) UWORD_MAX); cbn [mbind]; [|exact I].
  assert (Hval : forall z s, s = (if flip_sign an bn then -1 else 1) -> z = s * (x1 * y1) ->
     wfW z (x2 * y2) /\
     (z # Z.to_pos (x2 * y2)) == (an # Z.to_pos ad) / (bn # Z.to_pos bd)).
  { intros z s Hs ->. split.
    - repeat split; try lia.
      + unfold WORD_MIN, WORD_MAX in *. destruct (flip_sign an bn); subst s; lia.
      + unfold WORD_MIN, WORD_MAX in *. destruct (flip_sign an bn); subst s; lia.
      + destruct (flip_sign an bn); subst s.
        * replace (-1 * (x1 * y1)) with (- (x1 * y1)) by ring. rewrite Z.gcd_opp_l. exact G.
        * rewrite Z.mul_1_l. exact G.
    - apply Qdiv_frac; [lia | lia | lia | exact Hbn0 |].
      pose proof (flip_sign_div an bn Hbn0) as F. rewrite <- Hs in F.
      rewrite E2.
      replace (an * bd * Z.sgn bn) with ((an * Z.sgn bn) * bd) by ring. rewrite <- F, E1, E3, E4. ring. }
  destruct (flip_sign an bn) eqn:FL.
  - rewrite sneg32_ok by (unfold WORD_MIN, WORD_MAX in *; lia). cbn [mbind]. simpl.
    apply (Hval _ (-1)); [reflexivity | ring].
  - simpl. apply (Hval _ 1); [reflexivity | ring].
Qed.

Lemma div_word_spec :
  wpost (div_word an ad bn bd) (Qmake an (Z.to_pos ad) / Qmake bn (Z.to_pos bd)).
Proof.
  cb. unfold div_word. destruct ((an =? bn) && (ad =? bd)) eqn:E; [|apply div_core_spec].
  assert (an = bn /\ ad = bd) as [E1 E2] by lia.
  destruct Hb as (Hbn & Hbd & Gb).
  simpl. split; [repeat split; unfold WORD_MIN, WORD_MAX, UWORD_MAX; try lia; reflexivity|].
  rewrite E1, E2. change (1 # Z.to_pos 1) with 1%Q.
  symmetry. apply Qmult_inv_r. unfold Qeq. simpl. lia.
Qed.

End DivWords.

(* ------------------------------------------------------------------------------------------ *)
(* the operations                                                                              *)

Lemma big_mul_exact a b : ok_exact (big_mul a b) (value a * value b).
Proof. unfold big_mul, gmp_mul. apply big_path_exact. rewrite Qred_correct, !mpq_of_value. reflexivity. Qed.

Lemma value_nonzero_num x : wf x -> ~ value x == 0 -> Qnum (mpq_of x) <> 0.
Proof.
  intros Hw Hz E. apply Hz. rewrite <- mpq_of_value. unfold Qeq. rewrite E. simpl. reflexivity.
Qed.

Lemma big_div_exact a b : wf b -> ~ value b == 0 -> ok_exact (big_div a b) (value a / value b).
Proof.
  intros Hb Hz. unfold big_div, gmp_div.
  destruct (Z.eqb_spec (Qnum (mpq_of b)) 0) as [E|E]; [exfalso; eapply value_nonzero_num; eauto|].
  cbn [rbind]. apply big_path_exact. rewrite Qred_correct, !mpq_of_value. reflexivity.
Qed.

Lemma is_word_zero_value x : is_word_zero x = true -> value x == 0.
Proof. destruct x as [n d|q]; simpl; [|discriminate]. intros E. assert (n = 0) by lia. subst. reflexivity. Qed.

Lemma is_word_one_value x : is_word_one x = true -> value x == 1.
Proof.
  destruct x as [n d|q]; simpl; [|discriminate]. intros E. assert (n = 1 /\ d = 1) as [-> ->] by lia. reflexivity.
Qed.

Lemma wf_zero : wf (Word 0 1).
Proof. simpl. unfold WORD_MIN, WORD_MAX, UWORD_MAX. repeat split; try lia. Qed.

Theorem fr_mul_exact a b : wf a -> wf b -> ok_exact (fr_mul a b) (value a * value b).
Proof.
  intros Ha Hb. unfold fr_mul.
  destruct (is_word_zero a || is_word_zero b) eqn:Z0.
  { exists (Word 0 1). split; [reflexivity|]. split; [apply wf_zero|].
    apply orb_prop in Z0. destruct Z0 as [Z0|Z0]; apply is_word_zero_value in Z0; rewrite Z0.
    - rewrite Qmult_0_l. reflexivity.
    - rewrite Qmult_0_r. reflexivity. }
  destruct (is_word_one a) eqn:O1.
  { exists b. repeat split; auto. apply is_word_one_value in O1. rewrite O1, Qmult_1_l. reflexivity. }
  destruct (is_word_one b) eqn:O2.
  { exists a. repeat split; auto. apply is_word_one_value in O2. rewrite O2, Qmult_1_r. reflexivity. }
  destruct a as [an ad|qa], b as [bn bd|qb]; try apply big_mul_exact.
  apply wpost_finish; [apply mul_word_spec; assumption | apply big_mul_exact].
Qed.

Theorem fr_mulA_exact a b : wf a -> wf b -> ok_exact (fr_mulA a b) (value a * value b).
Proof.
  intros Ha Hb. unfold fr_mulA.
  destruct a as [an ad|qa], b as [bn bd|qb]; try apply big_mul_exact.
  apply wpost_finish; [apply mulA_word_spec; assumption | apply big_mul_exact].
Qed.

Lemma word_nonzero bn bd : ~ value (Word bn bd) == 0 -> bn <> 0.
Proof. intros H E. apply H. subst. unfold value, Qeq. simpl. reflexivity. Qed.

Theorem fr_div_exact a b : wf a -> wf b -> ~ value b == 0 -> ok_exact (fr_div a b) (value a / value b).
Proof.
  intros Ha Hb Hz. unfold fr_div.
  destruct (is_word_one b) eqn:O2.
  { exists a. repeat split; auto. apply is_word_one_value in O2. rewrite O2. unfold Qdiv. rewrite Qinv_1 || idtac.
    change (/ 1)%Q with 1%Q. rewrite Qmult_1_r. reflexivity. }
  destruct (is_word_zero a) eqn:Z0.
  { exists (Word 0 1). split; [reflexivity|]. split; [apply wf_zero|].
    apply is_word_zero_value in Z0. rewrite Z0. unfold Qdiv. rewrite Qmult_0_l. reflexivity. }
  destruct a as [an ad|qa], b as [bn bd|qb]; try (apply big_div_exact; assumption).
  apply wpost_finish; [apply div_word_spec; try assumption; eapply word_nonzero; eauto | apply big_div_exact; assumption].
Qed.

Theorem fr_divA_exact a b : wf a -> wf b -> ~ value b == 0 -> ok_exact (fr_divA a b) (value a / value b).
Proof.
  intros Ha Hb Hz. unfold fr_divA.
  destruct a as [an ad|qa], b as [bn bd|qb]; try (apply big_div_exact; assumption).
  apply wpost_finish; [apply div_core_spec; try assumption; eapply word_nonzero; eauto | apply big_div_exact; assumption].
Qed.
