(* C15 — compare, ==, sign, isInteger, get_num, get_den, isZero, isOne. *)
From Coq Require Import ZArith QArith Qreduction Znumtheory Lia Bool ZifyBool.
From OsmtV.Rat Require Import FRModel FRBase FRArith FRProofsCtor.
Local Open Scope Z_scope.
Local Open Scope fr_scope.

Lemma cmp_lword_compare x y : cmp_lword x y = z_of_comparison (x ?= y).
Proof.
  unfold cmp_lword. destruct (Z.compare_spec x y); destruct (Z.ltb_spec x y); destruct (Z.gtb_spec x y);
    simpl; try reflexivity; lia.
Qed.

(* compare: the sign of (value a - value b); no overflow in the cross products *)
Theorem fr_compare_exact a b : wf a -> wf b ->
  fr_compare a b = Ok (z_of_comparison (Qcompare (value a) (value b))).
Proof.
  intros Ha Hb. destruct a as [an ad|qa], b as [bn bd|qb]; try reflexivity.
  destruct Ha as (Han & Had & _), Hb as (Hbn & Hbd & _).
  unfold fr_compare, value, Qcompare. simpl Qnum. simpl Qden. rewrite !Z2Pos.id by lia.
  destruct (Z.eqb_spec bd ad) as [->|Hne].
  - rewrite cmp_lword_compare. f_equal. f_equal. apply Zmult_compare_compat_r. lia.
  - pose proof (mul_w_uw an bd Han ltac:(lia)). pose proof (mul_w_uw bn ad Hbn ltac:(lia)).
    rewrite !smul64_ok by (unfold LWORD_MIN, LWORD_MAX; lia).
    rewrite cmp_lword_compare. reflexivity.
Qed.

Lemma Qeq_numden_true x y : Qeq_numden x y = true <-> x = y.
Proof.
  destruct x as [n d], y as [n' d']. unfold Qeq_numden. simpl. split.
  - intros H. assert (n = n' /\ Zpos d = Zpos d') as [-> E] by lia. injection E as ->. reflexivity.
  - intros E. injection E as -> ->. lia.
Qed.

(* operator== decides equality of values *)
Theorem fr_eq_exact a b : wf a -> wf b -> (fr_eq a b = true <-> value a == value b).
Proof.
  intros Ha Hb.
  assert (Hmix : Qeq_numden (mpq_of a) (mpq_of b) = true <-> value a == value b).
  { rewrite Qeq_numden_true. rewrite !mpq_of_value. split.
    - intros ->. reflexivity.
    - intros E. rewrite <- !mpq_of_value in *.
      apply canonical_eq; try (apply wf_mpq_canonical; assumption). exact E. }
  destruct a as [an ad|qa], b as [bn bd|qb]; try exact Hmix.
  unfold fr_eq. split.
  - intros H. assert (an = bn /\ ad = bd) as [-> ->] by lia. reflexivity.
  - intros E. apply repr_unique_lemma in E; auto. injection E as -> ->. lia.
Qed.

Theorem fr_sign_exact a : fr_sign a = Z.sgn (Qnum (value a)).
Proof.
  destruct a as [n d|q]; simpl; [|reflexivity].
  destruct (Z.ltb_spec n 0); [lia|]. destruct (Z.gtb_spec n 0); lia.
Qed.

Lemma sign_is_sign q : Z.sgn (Qnum q) = z_of_comparison (Qcompare q 0).
Proof.
  unfold Qcompare. simpl. rewrite Z.mul_1_r. destruct (Qnum q); reflexivity.
Qed.

(* the value of a well-formed number is in lowest terms *)
Lemma wf_value_canonical a : wf a -> canonicalQ (value a).
Proof. intros. rewrite <- mpq_of_value. apply wf_mpq_canonical. assumption. Qed.

Lemma canonical_integer q : canonicalQ q -> ((exists z, q == z # 1) <-> Qden q = 1%positive).
Proof.
  destruct q as [n d]. unfold canonicalQ. simpl. intros G. split.
  - intros [z E]. unfold Qeq in E. simpl in E.
    assert (D : (Zpos d | n)) by (exists z; lia).
    assert (Z.gcd n (Zpos d) = Zpos d) by (rewrite Z.gcd_comm; apply Z.divide_gcd_iff; [lia | exact D]).
    rewrite H in G. injection G as ->. reflexivity.
  - intros ->. exists n. reflexivity.
Qed.

Theorem fr_isInteger_exact a : wf a -> (fr_isInteger a = true <-> exists z, value a == z # 1).
Proof.
  intros Ha. rewrite (canonical_integer _ (wf_value_canonical a Ha)).
  destruct a as [n d|q]; simpl.
  - destruct Ha as (_ & Hd & _). split.
    + intros E. assert (d = 1) by lia. subst. reflexivity.
    + intros E. assert (d = 1) by (rewrite <- (Z2Pos.id d) by lia; rewrite E; reflexivity). lia.
  - split.
    + intros E. apply andb_prop in E. destruct E as [_ E]. destruct (Qden q); try discriminate. reflexivity.
    + intros ->. reflexivity.
Qed.

Theorem fr_get_num_exact a : wf a -> exact (fr_get_num a) (Qnum (value a) # 1).
Proof.
  intros Ha. destruct a as [n d|q]; simpl.
  - apply of_word_exact. apply Ha.
  - apply of_mpz_exact.
Qed.

Theorem fr_get_den_exact a : wf a -> exact (fr_get_den a) (Zpos (Qden (value a)) # 1).
Proof.
  intros Ha. destruct a as [n d|q]; simpl.
  - destruct Ha as (_ & Hd & _). rewrite Z2Pos.id by lia.
    destruct (Z.leb_spec d WORD_MAX).
    + apply of_uint32_exact. lia.
    + apply of_mpz_exact.
  - apply of_mpz_exact.
Qed.

Theorem fr_isZero_exact a : wf a -> (fr_isZero a = true <-> value a == 0).
Proof.
  intros Ha. split; [apply is_word_zero_value_c|].
  intros E. destruct a as [n d|q]; simpl.
  - unfold value, Qeq in E. simpl in E. lia.
  - exfalso. destruct Ha as (Hc & Hf). destruct q as [qn qd]. unfold Qeq in E. simpl in E.
    assert (qn = 0) by lia. subst. unfold canonicalQ in Hc. simpl in Hc.
    injection Hc as ->. vm_compute in Hf. discriminate.
Qed.
