(* C15 — number theory used by the word paths of FastRational. *)
From Coq Require Import ZArith Znumtheory Lia.
Local Open Scope Z_scope.

Lemma gcd1_mul_r n p q : Z.gcd n p = 1 -> Z.gcd n q = 1 -> Z.gcd n (p * q) = 1.
Proof.
  intros H1 H2. apply Zgcd_1_rel_prime. apply rel_prime_mult; apply Zgcd_1_rel_prime; assumption.
Qed.

Lemma gcd1_mul_l n p q : Z.gcd p n = 1 -> Z.gcd q n = 1 -> Z.gcd (p * q) n = 1.
Proof. intros. rewrite Z.gcd_comm. apply gcd1_mul_r; rewrite Z.gcd_comm; assumption. Qed.

Lemma gcd1_divide_l g n m : (g | n) -> Z.gcd n m = 1 -> Z.gcd g m = 1.
Proof.
  intros Hg H.
  assert (Hd : (Z.gcd g m | 1)).
  { rewrite <- H. apply Z.gcd_greatest.
    - eapply Z.divide_trans; [apply Z.gcd_divide_l | exact Hg].
    - apply Z.gcd_divide_r. }
  pose proof (Z.gcd_nonneg g m). apply Z.divide_1_r_nonneg in Hd; auto.
Qed.

Lemma gcd1_divide_r g n m : (g | m) -> Z.gcd n m = 1 -> Z.gcd n g = 1.
Proof. intros. rewrite Z.gcd_comm. eapply gcd1_divide_l; eauto. rewrite Z.gcd_comm. assumption. Qed.

(* the quotients by the gcd are coprime *)
Lemma gcd_quotients a b c p q : 0 < c -> c = Z.gcd a b -> a = c * p -> b = c * q -> Z.gcd p q = 1.
Proof.
  intros Hc Hg Ha Hb.
  replace p with (a / c) by (rewrite Ha, Z.mul_comm, Z.div_mul; lia).
  replace q with (b / c) by (rewrite Hb, Z.mul_comm, Z.div_mul; lia).
  apply Z.gcd_div_gcd; [lia | exact Hg].
Qed.

(* Sum/difference of two reduced fractions over the least common denominator c*p*q:
   what can still be cancelled divides c = gcd of the denominators.  This is why the 64-bit gcd
   assigned to the 32-bit `common` in addition()/subtraction() is not truncated. *)
Lemma gcd_sum_divides_common an ad bn bd c p q s :
  Z.gcd an ad = 1 -> Z.gcd bn bd = 1 -> 0 < c -> c = Z.gcd ad bd -> ad = c * p -> bd = c * q ->
  (s = 1 \/ s = -1) ->
  (Z.gcd (an * q + s * (bn * p)) (c * p * q) | c).
Proof.
  intros Ha Hb Hc Hg Had Hbd Hs.
  set (n := an * q + s * (bn * p)).
  assert (Hpq : Z.gcd p q = 1) by (eapply gcd_quotients; eauto).
  assert (Hanp : Z.gcd an p = 1).
  { eapply gcd1_divide_r; [|exact Ha]. exists c. lia. }
  assert (Hbnq : Z.gcd bn q = 1).
  { eapply gcd1_divide_r; [|exact Hb]. exists c. lia. }
  assert (Hnp : Z.gcd n p = 1).
  { rewrite Z.gcd_comm. unfold n.
    replace (an * q + s * (bn * p)) with (an * q + (s * bn) * p) by ring.
    rewrite Z.gcd_add_mult_diag_r. apply gcd1_mul_r; [rewrite Z.gcd_comm; exact Hanp | exact Hpq]. }
  assert (Hnq : Z.gcd n q = 1).
  { rewrite Z.gcd_comm. unfold n.
    replace (an * q + s * (bn * p)) with (s * (bn * p) + an * q) by ring.
    rewrite Z.gcd_add_mult_diag_r.
    apply gcd1_mul_r.
    - destruct Hs; subst s; [apply Z.gcd_1_r | change (-1) with (Z.opp 1); rewrite Z.gcd_opp_r; apply Z.gcd_1_r].
    - apply gcd1_mul_r; rewrite Z.gcd_comm; [exact Hbnq | exact Hpq]. }
  assert (Hn : Z.gcd n (p * q) = 1) by (apply gcd1_mul_r; auto).
  assert (Hgpq : Z.gcd (Z.gcd n (c * p * q)) (p * q) = 1).
  { eapply gcd1_divide_l; [apply Z.gcd_divide_l | exact Hn]. }
  apply Z.gauss with (m := p * q); auto.
  replace (p * q * c) with (c * p * q) by ring. apply Z.gcd_divide_r.
Qed.

(* exact division by a divisor: truncating and flooring quotients coincide *)
Lemma quot_exact a g : g <> 0 -> (g | a) -> Z.quot a g = a / g.
Proof.
  intros Hg [k ->]. rewrite Z.quot_mul by auto. rewrite Z.div_mul by auto. reflexivity.
Qed.

Lemma div_gcd_pos d n : 0 < d -> 0 < d / Z.gcd n d.
Proof.
  intros Hd.
  assert (Hg : 0 < Z.gcd n d).
  { pose proof (Z.gcd_nonneg n d). assert (Z.gcd n d <> 0) by (intro E; apply Z.gcd_eq_0_r in E; lia). lia. }
  destruct (Z.gcd_divide_r n d) as [k Hk].
  rewrite Hk at 1. rewrite Z.div_mul by lia. nia.
Qed.

Lemma gcd_pos_r n d : 0 < d -> 0 < Z.gcd n d.
Proof.
  intros. pose proof (Z.gcd_nonneg n d).
  assert (Z.gcd n d <> 0) by (intro E; apply Z.gcd_eq_0_r in E; lia). lia.
Qed.

Lemma gcd_le_r n d : 0 < d -> Z.gcd n d <= d.
Proof. intros. apply Z.divide_pos_le; [lia | apply Z.gcd_divide_r]. Qed.

Lemma div_mul_exact a g : g <> 0 -> (g | a) -> g * (a / g) = a.
Proof. intros Hg [k ->]. rewrite Z.div_mul by auto. ring. Qed.

Lemma gcd_pos_r_abs n d : d <> 0 -> 0 < Z.gcd n d.
Proof.
  intros. pose proof (Z.gcd_nonneg n d).
  assert (Z.gcd n d <> 0) by (intro E; apply Z.gcd_eq_0_r in E; lia). lia.
Qed.
