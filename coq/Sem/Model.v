(* Syntactic models as printed by (get-model): one definition per symbol, bodies over the parameters,
   literals and abstract values only.  interp_of turns such a model into a semantic interpretation
   (a computable one, so that  sem (interp_of M)  is the executable evaluator). *)
From Coq Require Import ZArith QArith List Bool.
From OsmtV.Sem Require Import Syntax Eval.
Import ListNotations.

Record def := { d_params : list (N * sort); d_res : sort; d_body : term }.
Definition model := list (N * def).

(* the interpretation consulted inside definition bodies: bodies may not mention declared symbols,
   so this one is never relevant for a body accepted by body_closed *)
Definition dummy_interp : interp := {| ivar := fun _ => VB false; ifun := fun _ _ => VB false |}.

Definition clamp (s : sort) (v : option value) : value :=
  match v with Some w => if has_sort w s then w else default_of s | None => default_of s end.

Definition eval_def (d : def) (args : list value) : value :=
  clamp (d_res d) (sem dummy_interp (combine (map fst (d_params d)) args) (d_body d)).

Definition interp_of (M : model) : interp :=
  {| ivar := fun x => match lookup x M with Some d => eval_def d [] | None => VB false end;
     ifun := fun f args => match lookup f M with Some d => eval_def d args | None => VB false end |}.

(* Does the model define every declared symbol with the declared result sort and arity? *)
Definition covers_var (M : model) (xs : N * sort) : bool :=
  match lookup (fst xs) M with
  | Some d => sort_eqb (d_res d) (snd xs) && Nat.eqb (length (d_params d)) 0
  | None => false end.
Definition covers_fun (M : model) (fs : N * (list sort * sort)) : bool :=
  match lookup (fst fs) M with
  | Some d => sort_eqb (d_res d) (snd (snd fs)) && Nat.eqb (length (d_params d)) (length (fst (snd fs)))
  | None => false end.
Definition model_covers (S : sig) (M : model) : bool :=
  forallb (covers_var M) (sig_vars S) && forallb (covers_fun M) (sig_funs S).

Definition is_true (v : option value) : bool := match v with Some (VB true) => true | _ => false end.

(* The certificate check: the model defines every declared symbol and every assertion evaluates to true. *)
Definition model_ok (S : sig) (M : model) (A : list term) : bool :=
  model_covers S M && forallb (fun a => is_true (sem (interp_of M) [] a)) A.

(* Is a definition faithful as printed (no clamping needed)?  Used to report ill-sorted printed values:
   constants only (function bodies are checked on the argument tuples that occur). *)
Definition const_wellsorted (d : def) : bool :=
  match sem dummy_interp [] (d_body d) with Some v => has_sort v (d_res d) | None => false end.
