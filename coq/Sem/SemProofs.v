From Coq Require Import ZArith QArith List Bool Lia.
From OsmtV.Sem Require Import Syntax Eval Model.
From OsmtV.IntArith Require DivModModel DivModProofs.
Import ListNotations.

Lemma sort_eqb_eq a b : sort_eqb a b = true -> a = b.
Proof.
  destruct a, b; simpl; try discriminate; try reflexivity.
  intros H. apply N.eqb_eq in H. now subst.
Qed.

Lemma has_sort_default s : has_sort (default_of s) s = true.
Proof. destruct s; simpl; auto. apply N.eqb_refl. Qed.

Lemma clamp_has_sort s v : has_sort (clamp s v) s = true.
Proof.
  unfold clamp. destruct v as [w|]; [|apply has_sort_default].
  destruct (has_sort w s) eqn:E; [exact E | apply has_sort_default].
Qed.

Lemma lookup_In {A} x (l : list (N * A)) a : lookup x l = Some a -> In (x, a) l.
Proof.
  induction l as [|[y b] r IH]; simpl; [discriminate|].
  destruct (N.eqb_spec x y) as [->|]; [intros [= ->]; now left | intros H; right; auto].
Qed.

Lemma model_covers_wf S M : model_covers S M = true -> wf_interp S (interp_of M).
Proof.
  unfold model_covers. rewrite andb_true_iff, !forallb_forall. intros [Hv Hf]. split.
  - intros x s Hin. specialize (Hv _ Hin). unfold covers_var in Hv. simpl in *.
    destruct (lookup x M) as [d|] eqn:E; [|discriminate].
    apply andb_true_iff in Hv as [Hs _]. apply sort_eqb_eq in Hs. subst s. apply clamp_has_sort.
  - intros f ss s Hin args. specialize (Hf _ Hin). unfold covers_fun in Hf. simpl in *.
    destruct (lookup f M) as [d|] eqn:E; [|discriminate].
    apply andb_true_iff in Hf as [Hs _]. apply sort_eqb_eq in Hs. subst s. apply clamp_has_sort.
Qed.

Lemma is_true_holds I a : is_true (sem I [] a) = true -> holds I a.
Proof.
  unfold is_true, holds. destruct (sem I [] a) as [[[|]| | |]|]; try discriminate. reflexivity.
Qed.

(* A model accepted by model_ok is a witness of satisfiability. *)
Lemma model_ok_sat S M A : model_ok S M A = true -> sat S A.
Proof.
  unfold model_ok. rewrite andb_true_iff, forallb_forall. intros [Hc Ha].
  exists (interp_of M). split; [now apply model_covers_wf|].
  intros a Hin. apply is_true_holds. now apply Ha.
Qed.

(* Conversely a rejected assertion really is false or undefined under the printed model. *)
Lemma model_ok_false S M A : model_covers S M = true -> model_ok S M A = false ->
  exists a, In a A /\ ~ holds (interp_of M) a.
Proof.
  unfold model_ok. intros -> H. simpl in H.
  assert (E : existsb (fun a => negb (is_true (sem (interp_of M) [] a))) A = true).
  { clear -H. induction A as [|a r IH]; simpl in *; [discriminate|].
    destruct (is_true (sem (interp_of M) [] a)); simpl in *; auto. }
  apply existsb_exists in E as [a [Hin Hn]]. exists a. split; [exact Hin|].
  unfold holds. intros Hh. rewrite Hh in Hn. discriminate.
Qed.

(* "unsat" can never be right when some model passes the check *)
Lemma unsat_answer_refuted S M A : model_ok S M A = true -> ~ (~ sat S A).
Proof. intros H Hn. apply Hn. eapply model_ok_sat; eauto. Qed.

(* Euclidean div/mod used by sem are the SMT-LIB ones *)
Lemma sem_divmod_spec I x y : y <> 0%Z ->
  exists q r, sem I [] (TIDiv (TInt x) (TInt y)) = Some (VZ q) /\ sem I [] (TMod (TInt x) (TInt y)) = Some (VZ r) /\
              (x = y * q + r /\ 0 <= r < Z.abs y)%Z.
Proof.
  intros Hy. exists (DivModModel.smt_div x y), (DivModModel.smt_mod x y). simpl.
  destruct (Z.eqb_spec y 0); [contradiction|]. repeat split; try apply DivModProofs.smt_divmod_spec; auto.
Qed.
