(* SMT-LIB semantics of the fragment of Syntax.v:  sem I loc t : option value
   (None = ill-sorted application or division by zero, whose value SMT-LIB leaves uninterpreted). *)
From Coq Require Import ZArith QArith List Bool.
From OsmtV.Sem Require Import Syntax.
From OsmtV.IntArith Require Import DivModModel.
Import ListNotations.

Fixpoint lookup {A} (x : N) (l : list (N * A)) : option A :=
  match l with [] => None | (y, a) :: r => if N.eqb x y then Some a else lookup x r end.

Definition as_bool (v : option value) : option bool := match v with Some (VB b) => Some b | _ => None end.

Fixpoint all_bools (vs : list (option value)) : option (list bool) :=
  match vs with
  | [] => Some []
  | v :: r => match as_bool v, all_bools r with Some b, Some bs => Some (b :: bs) | _, _ => None end
  end.

Fixpoint all_some {A} (vs : list (option A)) : option (list A) :=
  match vs with
  | [] => Some []
  | Some v :: r => match all_some r with Some l => Some (v :: l) | None => None end
  | None :: _ => None
  end.

(* numeric operations on two values of the same numeric sort *)
Definition num_add (a b : value) : option value :=
  match a, b with VZ x, VZ y => Some (VZ (x + y)) | VQ x, VQ y => Some (VQ (x + y)) | _, _ => None end.
Definition num_sub (a b : value) : option value :=
  match a, b with VZ x, VZ y => Some (VZ (x - y)) | VQ x, VQ y => Some (VQ (x - y)) | _, _ => None end.
Definition num_mul (a b : value) : option value :=
  match a, b with VZ x, VZ y => Some (VZ (x * y)) | VQ x, VQ y => Some (VQ (x * y)) | _, _ => None end.
Definition num_neg (a : value) : option value :=
  match a with VZ x => Some (VZ (- x)) | VQ x => Some (VQ (- x)) | _ => None end.
Definition num_le (a b : value) : option bool :=
  match a, b with VZ x, VZ y => Some (Z.leb x y) | VQ x, VQ y => Some (Qle_bool x y) | _, _ => None end.
Definition num_lt (a b : value) : option bool :=
  match a, b with VZ x, VZ y => Some (Z.ltb x y) | VQ x, VQ y => Some (negb (Qle_bool y x)) | _, _ => None end.

Fixpoint fold_num (op : value -> value -> option value) (acc : value) (vs : list value) : option value :=
  match vs with [] => Some acc | v :: r => match op acc v with Some a => fold_num op a r | None => None end end.

(* chainable relation: (R a b c) = R a b /\ R b c *)
Fixpoint chain (rel : value -> value -> option bool) (vs : list value) : option bool :=
  match vs with
  | a :: ((b :: _) as r) =>
      match rel a b, chain rel r with Some x, Some y => Some (x && y) | _, _ => None end
  | _ => Some true
  end.

Fixpoint none_equal (v : value) (vs : list value) : option bool :=
  match vs with
  | [] => Some true
  | w :: r => match val_eqb v w, none_equal v r with Some e, Some y => Some (negb e && y) | _, _ => None end
  end.
Fixpoint pairwise_distinct (vs : list value) : option bool :=
  match vs with
  | [] => Some true
  | v :: r => match none_equal v r, pairwise_distinct r with Some x, Some y => Some (x && y) | _, _ => None end
  end.

Fixpoint imp_right (bs : list bool) : bool :=
  match bs with [] => true | [b] => b | b :: r => implb b (imp_right r) end.

Section Sem.
  Variable I : interp.

  Fixpoint sem (loc : list (N * value)) (t : term) {struct t} : option value :=
    let sems := fix sems (ts : list term) : list (option value) :=
                  match ts with [] => [] | t :: r => sem loc t :: sems r end in
    match t with
    | TVar x => match lookup x loc with Some v => Some v | None => Some (ivar I x) end
    | TBool b => Some (VB b)
    | TInt z => Some (VZ z)
    | TReal q => Some (VQ q)
    | TAbs s n => Some (VU s n)
    | TNot a => match as_bool (sem loc a) with Some b => Some (VB (negb b)) | None => None end
    | TAnd ts => match all_bools (sems ts) with Some bs => Some (VB (forallb (fun b => b) bs)) | None => None end
    | TOr ts => match all_bools (sems ts) with Some bs => Some (VB (existsb (fun b => b) bs)) | None => None end
    | TXor a b => match as_bool (sem loc a), as_bool (sem loc b) with
                  | Some x, Some y => Some (VB (xorb x y)) | _, _ => None end
    | TImp ts => match all_bools (sems ts) with Some bs => Some (VB (imp_right bs)) | None => None end
    | TIte c a b => match as_bool (sem loc c), sem loc a, sem loc b with
                    | Some cb, Some va, Some vb =>
                        (* both branches must have one sort *)
                        match val_eqb va vb with Some _ => Some (if cb then va else vb) | None => None end
                    | _, _, _ => None end
    | TEq ts => match all_some (sems ts) with
                | Some vs => match chain val_eqb vs with Some b => Some (VB b) | None => None end
                | None => None end
    | TDistinct ts => match all_some (sems ts) with
                      | Some vs => match pairwise_distinct vs with Some b => Some (VB b) | None => None end
                      | None => None end
    | TAdd ts => match all_some (sems ts) with
                 | Some (v :: vs) => fold_num num_add v vs | _ => None end
    | TSub ts => match all_some (sems ts) with
                 | Some (v :: ((_ :: _) as vs)) => fold_num num_sub v vs | _ => None end
    | TNeg a => match sem loc a with Some v => num_neg v | None => None end
    | TMul ts => match all_some (sems ts) with
                 | Some (v :: vs) => fold_num num_mul v vs | _ => None end
    | TRDiv a b => match sem loc a, sem loc b with
                   | Some (VQ x), Some (VQ y) => if Qeq_bool y 0 then None else Some (VQ (x / y))
                   | _, _ => None end
    | TIDiv a b => match sem loc a, sem loc b with
                   | Some (VZ x), Some (VZ y) => if Z.eqb y 0 then None else Some (VZ (smt_div x y))
                   | _, _ => None end
    | TMod a b => match sem loc a, sem loc b with
                  | Some (VZ x), Some (VZ y) => if Z.eqb y 0 then None else Some (VZ (smt_mod x y))
                  | _, _ => None end
    | TLe ts => match all_some (sems ts) with
                | Some vs => match chain num_le vs with Some b => Some (VB b) | None => None end | None => None end
    | TLt ts => match all_some (sems ts) with
                | Some vs => match chain num_lt vs with Some b => Some (VB b) | None => None end | None => None end
    | TGe ts => match all_some (sems ts) with
                | Some vs => match chain (fun a b => num_le b a) vs with Some b => Some (VB b) | None => None end | None => None end
    | TGt ts => match all_some (sems ts) with
                | Some vs => match chain (fun a b => num_lt b a) vs with Some b => Some (VB b) | None => None end | None => None end
    | TApp f args => match all_some (sems args) with
                     | Some vs => Some (ifun I f vs) | None => None end
    end.
End Sem.

Definition holds (I : interp) (t : term) : Prop := sem I [] t = Some (VB true).

(* Well-sortedness of an interpretation w.r.t. a signature. *)
Definition wf_interp (S : sig) (I : interp) : Prop :=
  (forall x s, In (x, s) (sig_vars S) -> has_sort (ivar I x) s = true) /\
  (forall f ss s, In (f, (ss, s)) (sig_funs S) -> forall args, has_sort (ifun I f args) s = true).

(* Satisfiability of a set of assertions over a signature. *)
Definition sat (S : sig) (A : list term) : Prop :=
  exists I, wf_interp S I /\ forall a, In a A -> holds I a.
