(* Deep embedding of the quantifier-free SMT-LIB fragment OpenSMT accepts (Core, Ints, Reals, UF):
   sorts, values, terms.  Definitions only. *)
From Coq Require Import ZArith QArith List Bool.
Import ListNotations.

Inductive sort := SBool | SInt | SReal | SU (n : N).

Inductive value :=
| VB (b : bool)
| VZ (z : Z)
| VQ (q : Q)
| VU (s : N) (n : N).      (* element n of the uninterpreted sort s *)

Definition sort_eqb (a b : sort) : bool :=
  match a, b with
  | SBool, SBool | SInt, SInt | SReal, SReal => true
  | SU n, SU m => N.eqb n m
  | _, _ => false
  end.

Definition has_sort (v : value) (s : sort) : bool :=
  match v, s with
  | VB _, SBool | VZ _, SInt | VQ _, SReal => true
  | VU s' _, SU s'' => N.eqb s' s''
  | _, _ => false
  end.

Definition default_of (s : sort) : value :=
  match s with SBool => VB false | SInt => VZ 0 | SReal => VQ 0 | SU n => VU n 0 end.

(* value equality: the SMT-LIB "=" on two values of one sort (None when the sorts differ) *)
Definition val_eqb (a b : value) : option bool :=
  match a, b with
  | VB x, VB y => Some (Bool.eqb x y)
  | VZ x, VZ y => Some (Z.eqb x y)
  | VQ x, VQ y => Some (Qeq_bool x y)
  | VU s x, VU s' y => if N.eqb s s' then Some (N.eqb x y) else None
  | _, _ => None
  end.

Inductive term :=
| TVar (x : N)                       (* declared 0-ary symbol or bound parameter *)
| TBool (b : bool)
| TInt (z : Z)                       (* numeral of sort Int *)
| TReal (q : Q)                      (* numeral / decimal / fraction of sort Real *)
| TAbs (s : N) (n : N)               (* abstract value (as @n S) *)
| TNot (t : term)
| TAnd (ts : list term)
| TOr (ts : list term)
| TXor (a b : term)
| TImp (ts : list term)              (* right associative *)
| TIte (c a b : term)
| TEq (ts : list term)               (* chainable *)
| TDistinct (ts : list term)         (* pairwise *)
| TAdd (ts : list term)
| TSub (ts : list term)              (* left associative, at least two arguments *)
| TNeg (t : term)
| TMul (ts : list term)
| TRDiv (a b : term)                 (* real division *)
| TIDiv (a b : term)                 (* integer div, SMT-LIB Euclidean *)
| TMod (a b : term)
| TLe (ts : list term) | TLt (ts : list term) | TGe (ts : list term) | TGt (ts : list term)   (* chainable *)
| TApp (f : N) (args : list term).   (* uninterpreted function / predicate application *)

(* A semantic interpretation of the declared symbols. *)
Record interp := { ivar : N -> value; ifun : N -> list value -> value }.

(* Signature: declared constants and functions with their sorts. *)
Record sig := { sig_vars : list (N * sort); sig_funs : list (N * (list sort * sort)) }.
