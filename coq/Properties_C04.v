(* C04 — incremental answers equal fresh answers on the active assertions.  Theorems only
   (model: Stack/FramesModel.v, proofs: Stack/FramesProofs.v).

   The SAT/theory engine is an oracle (Section variables engine / early) with the contract that C01/C02
   establish per run: a `sat` outcome means the formulas given under the enabled frames are satisfiable, an
   `unsat` outcome with conflict frame k means the formulas of frames 0..k are unsatisfiable.  Relative to that
   contract, for EVERY history of push / pop / assert / check-sat, every answer is the correct answer for
   exactly the assertions on the stack at that moment: flags of popped levels, clauses given under the ids of
   popped frames and the firstNotSimplifiedFrame cursor never make an answer depend on popped assertions. *)
From Coq Require Import List Arith Bool.
From OsmtV.Stack Require Import FramesModel FramesProofs.
Import ListNotations.

Section C04.
  Variable F : Type.
  Variable sat : list F -> Prop.
  Hypothesis sat_mono : forall A B, incl A B -> sat B -> sat A.
  Variable engine : list (list F) -> eresult.
  Variable early : list (list F) -> bool.
  Hypothesis engine_sat : forall gs, engine gs = ESat -> sat (concat gs).
  Hypothesis engine_unsat : forall gs k, engine gs = EUnsat k -> k < length gs /\ ~ sat (concat (firstn (S k) gs)).
  Hypothesis early_sound : forall gs, early gs = true -> ~ sat (concat gs).

  Theorem c04_history : forall h : list (op F),
    Forall2 (answer_ok F sat) (snd (run engine early init h)) (spec_checks F [[]] h).
  Proof. exact (history_correct F sat sat_mono engine early engine_sat engine_unsat early_sound). Qed.

  (* two solvers that are both right cannot disagree: the incremental answer equals the fresh one *)
  Theorem c04_equals_fresh : forall a b A, answer_ok F sat a A -> answer_ok F sat b A ->
    a <> Unknown -> b <> Unknown -> a = b.
  Proof.
    intros a b A [Ha1 Ha2] [Hb1 Hb2] Na Nb.
    destruct a, b; try reflexivity; try congruence; exfalso.
    - exact (Hb1 eq_refl (Ha2 eq_refl)).
    - exact (Ha1 eq_refl (Hb2 eq_refl)).
  Qed.
End C04.
Print Assumptions c04_history.
Print Assumptions c04_equals_fresh.

(* non-vacuity: a concrete oracle over nat-formulas ("n" means the literal n; 0 is false) and a history that
   makes a level unsat, pops it and checks again *)
Example c04_nonvacuous :
  let engine := fun gs : list (list nat) =>
     if existsb (fun l => existsb (Nat.eqb 0) l) gs then EUnsat (length gs - 1) else ESat in
  snd (run engine (fun _ => false) init [OAssert 1; OPush; OAssert 0; OCheck; OPush; OCheck; OPop; OPop; OCheck])
  = [Unsat; Unsat; Sat].
Proof. vm_compute. reflexivity. Qed.
