(* C13 — preprocessing preserves satisfiability and models.  Theorems only (Pre/Schemas.v).
   PARTIAL: the schemas are proved as semantic identities for all values; that each C++ rewriter applies an
   instance of its schema with the side condition met is validated per run (checks/C13.py). *)
From Coq Require Import List Bool ZArith QArith.
From OsmtV.Pre Require Import Schemas.
From OsmtV.IntArith Require Import DivModModel.
Import ListNotations.

(* a chain of steps, each preserving models and extending every model on fresh symbols, yields an
   equisatisfiable formula all of whose models satisfy the original *)
Theorem c13_pipeline : forall (interp : Type) (agree : interp -> interp -> Prop) (P Q R : interp -> Prop),
  (forall a b c, agree a b -> agree b c -> agree a c) ->
  (forall I, Q I -> P I) -> (forall I, P I -> exists I', agree I I' /\ Q I') ->
  (forall I, R I -> Q I) -> (forall I, Q I -> exists I', agree I I' /\ R I') ->
  ((forall I, R I -> P I) /\ (forall I, P I -> exists I', agree I I' /\ R I')) /\ ((exists I, P I) <-> (exists I, R I)).
Proof.
  intros interp agree P Q R T p1 e1 p2 e2.
  pose proof (conservative_compose interp agree P Q p1 e1 R T p2 e2) as [A B].
  split; [split; assumption|]. exact (conservative_equisat interp agree P R A B).
Qed.
Print Assumptions c13_pipeline.

Theorem c13_schemas :
  (forall A (phi : A -> Prop) x t, (x = t /\ phi x) <-> (x = t /\ phi t)) /\
  (forall A (phi : A -> Prop) (c : bool) (a b : A),
      phi (if c then a else b) <-> exists v, ((c = true -> v = a) /\ (c = false -> v = b)) /\ phi v) /\
  (forall (phi : Z -> Z -> Prop) n d, d <> 0%Z ->
      (phi (smt_div n d) (smt_mod n d) <-> exists q r, (n = d * q + r /\ 0 <= r <= Z.abs d - 1)%Z /\ phi q r)) /\
  (forall A (l : list A), NoDup l <-> pairwise_neq l) /\
  (forall a b : Z, a = b <-> (a <= b /\ b <= a)%Z) /\
  (forall a b : Q, (a == b)%Q <-> (a <= b /\ b <= a)%Q) /\
  (forall ls, forallb (fun b => b) (concat ls) = forallb (forallb (fun b => b)) ls) /\
  (forall ls, existsb (fun b => b) (concat ls) = existsb (existsb (fun b => b)) ls).
Proof.
  repeat match goal with |- _ /\ _ => split end; intros.
  - apply subst_keep_eq.
  - apply ite_elim_conservative.
  - now apply divmod_elim_conservative.
  - apply distinct_expand.
  - apply eq_split_Z.
  - apply eq_split_Q.
  - apply flatten_and.
  - apply flatten_or.
Qed.
Print Assumptions c13_schemas.

Example c13_nonvacuous : smt_div (-7) 2 = (-4)%Z /\ smt_mod (-7) 2 = 1%Z /\
  (exists q r, ((-7) = 2 * q + r /\ 0 <= r <= Z.abs 2 - 1)%Z /\ (q < 0)%Z).
Proof. repeat split; try reflexivity. exists (-4)%Z, 1%Z. repeat split; vm_compute; congruence. Qed.
