(* C16 — numeric literals are read and printed exactly.  Theorems only; proofs are in Num/*.v *)
From Coq Require Import ZArith NArith QArith List Ascii String Bool.
From OsmtV.Num Require Import Chars Regex Gen_RealString Gen_LexNum LitModel RatPrint.
Import ListNotations.
Definition S (s : string) : str := list_ascii_of_string s.

Theorem fraction_value_refuted :
  string_to_rational (S "010/3") = StrVal (8 # 3) /\ string_to_rational (S "09/3") = StrVal 0 /\
  string_to_rational (S "1/0") = StrCrash.
Proof. repeat split; vm_compute; reflexivity. Qed.
Print Assumptions fraction_value_refuted.
