(* C16 — numeric literals are read and printed exactly.  Theorems only; proofs are in Num/*.v *)
From Coq Require Import ZArith NArith QArith List Ascii String Bool.
From OsmtV.Num Require Import Chars Regex RegexProofs Gen_RealString Gen_LexNum Gen_Normalize LitModel LitProofs LexProofs RatPrint RatPrintProofs ConstProofs.
Import ListNotations.
Definition S (s : string) : str := list_ascii_of_string s.

(* An accepted decimal denotes its exact value: any number of digits, any leading and trailing zeros,
   either sign.  (sign)(ip)[.(fp)] with ip a non-empty digit string and fp a digit string; the result
   is the canonical rational equal to  +-(ip.fp). *)
Theorem decimal_value : forall (neg : bool) (ip fp : str),
  ip <> [] -> all_digits ip = true -> all_digits fp = true ->
  exists q, string_to_rational (sign_str neg ++ ip ++ dot_part fp) = StrVal q /\
            (q == signed neg (dec_value ip fp))%Q /\ Qred q = q.
Proof. exact decimal_value_shape. Qed.
Print Assumptions decimal_value.

(* Fractions n/d.  Full statement (FALSE on the faithful model): for all digit strings n, d with d <> 0
   the value is n/d.  Provable part: numerator and denominator without leading zero. *)
Theorem fraction_value_partial : forall (neg : bool) (c : ascii) (n' : str) (c2 : ascii) (d' : str),
  is_posdig c = true -> all_digits n' = true -> is_posdig c2 = true -> all_digits d' = true ->
  exists q, string_to_rational (sign_str neg ++ (c :: n') ++ slash :: c2 :: d') = StrVal q /\
            (q == signed neg (frac_value (c :: n') (c2 :: d')))%Q /\ Qred q = q.
Proof. exact fraction_value_nolead. Qed.
Print Assumptions fraction_value_partial.

(* ... and the rest is false for the variant that passes base 0 to mpq_set_str (the unchanged tree): a
   leading zero makes GMP read octal, an octal-invalid digit makes the parse fail silently (value 0); a
   zero denominator crashes in mpq_canonicalize (either variant). *)
Theorem fraction_value_refuted :
  string_to_rational_b 0 (S "010/3") = StrVal (8 # 3) /\ string_to_rational_b 0 (S "09/3") = StrVal 0 /\
  string_to_rational_b 0 (S "1/0") = StrCrash /\ string_to_rational_b 10 (S "1/0") = StrCrash.
Proof. repeat split; vm_compute; reflexivity. Qed.
Print Assumptions fraction_value_refuted.

(* The repaired variant (base 10; proposed_fixes/C16_normalize_base10.diff) satisfies the full statement
   for every pair of digit strings with a non-zero denominator.  Which variant the tree has is
   regenerated into Gen_Normalize.v (normalize_base) on every check. *)
Theorem fraction_value_fixed : forall (neg : bool) (n d : str),
  n <> [] -> d <> [] -> all_digits n = true -> all_digits d = true -> digits_val d <> 0%N ->
  exists q, string_to_rational_b 10 (sign_str neg ++ n ++ slash :: d) = StrVal q /\
            (q == signed neg (frac_value n d))%Q /\ Qred q = q.
Proof. exact fraction_value_base10. Qed.
Print Assumptions fraction_value_fixed.

(* "accepts only well-formed literals" is false at the API:  "-" is an Int literal of undefined value,
   ".5" and "1." are accepted (by mkConst resp. by stringToRational alone). *)
Theorem accepts_only_wf_refuted :
  (exists nm, mk_const LIA (S "-") = MInt nm FRGarbage) /\
  mk_const LRA (S ".5") = MReal (S "1/2") (FRVal (1 # 2)) /\
  string_to_rational (S "1.") = StrVal 1 /\ string_to_rational (S "") = StrVal 0.
Proof. split; [eexists; vm_compute; reflexivity|]. repeat split; vm_compute; reflexivity. Qed.
Print Assumptions accepts_only_wf_refuted.

(* ... and the classifier and the converter disagree: isRealString accepts what stringToRational
   refuses with an exception that is not an ApiException. *)
Theorem accepts_wf_gap_refuted :
  is_real_string (S "1.5/2.5") = true /\ string_to_rational (S "1.5/2.5") = StrExc /\
  mk_const LRA (S "1.5/2.5") = MStrConvExc.
Proof. repeat split; vm_compute; reflexivity. Qed.
Print Assumptions accepts_wf_gap_refuted.

(* The derivative matcher used for the lexer rules decides the language of the expression. *)
Theorem regex_matcher_correct : forall (r : re) (s : str), matches r s = true <-> lang r s.
Proof. exact matches_iff. Qed.
Print Assumptions regex_matcher_correct.

(* Every text matched by the lexer's TK_NUM rule (as regenerated from smt2newlexer.ll) is "0", a signed
   numeral without leading zero, or a fraction of two such, and is read exactly. *)
Theorem lex_num_exact : forall s : str, matches re_TK_NUM s = true ->
  exists q, string_to_rational s = StrVal q /\ num_token_value s q /\ Qred q = q.
Proof. exact lex_num_exact_proof. Qed.
Print Assumptions lex_num_exact.

(* Every text matched by TK_DEC is (sign) digits . digits and is read exactly. *)
Theorem lex_dec_exact : forall s : str, matches re_TK_DEC s = true ->
  exists neg ip fp q, s = sign_str neg ++ ip ++ dot :: fp /\ ip <> [] /\ fp <> [] /\
    string_to_rational s = StrVal q /\ (q == signed neg (dec_value ip fp))%Q /\ Qred q = q.
Proof. exact lex_dec_exact_proof. Qed.
Print Assumptions lex_dec_exact.

(* But a digit string with leading zeros is not one token: it is silently split (DESIGN.md par.9 #10). *)
Theorem lex_num_refuted :
  lex lex_rules (S "007") = LexOk [(TK_NUM, S "0"); (TK_NUM, S "0"); (TK_NUM, S "7")] /\
  lex lex_rules (S "010/3") = LexOk [(TK_NUM, S "0"); (TK_NUM, S "10/3")].
Proof. split; vm_compute; reflexivity. Qed.
Print Assumptions lex_num_refuted.

(* Printing: the term text built for a constant of value q reads back, as an SMT-LIB term over
   numerals, - and /, to exactly q — for every rational. *)
Theorem print_parse_roundtrip : forall q : Q, read_num_term (term_print q) = Some q.
Proof. exact print_parse_roundtrip_proof. Qed.
Print Assumptions print_parse_roundtrip.

(* The text get_str / %Qd produces for a canonical rational is read back by FastRational(text, 10)
   to the same rational (the step between stringToRational's text and the number mkConst stores). *)
Theorem get_str_parse_roundtrip : forall q : Q, Qred q = q -> fr_of_string (get_str q) = FRVal q.
Proof. intros q Hq. apply fr_of_qd_str_proof; [assumption | reflexivity]. Qed.
Print Assumptions get_str_parse_roundtrip.

(* End of the chain for the front end: a TK_NUM / TK_DEC token, handed to ArithLogic::mkConst in a logic
   with reals only, becomes a Real constant whose stored number is the (exact, by lex_num_exact /
   lex_dec_exact) value of stringToRational, under its canonical name. *)
Theorem token_mkconst_exact : forall s : str,
  matches re_TK_NUM s = true \/ matches re_TK_DEC s = true ->
  exists q, string_to_rational s = StrVal q /\ Qred q = q /\ mk_const LRA s = MReal (qd_str q) (FRVal q).
Proof. intros s H. apply token_mkconst_exact_proof; [reflexivity | assumption]. Qed.
Print Assumptions token_mkconst_exact.

(* Int constants.  Variant before commit d04fdc4 (symbol name = raw text): equal values, different terms;
   with UF in the logic mkEq folds them to false (DESIGN.md par.9 #12). *)
Theorem int_const_identity_refuted :
  mk_eq_int_consts_v false false (S "007") (S "7") = Some true /\ mk_eq_int_consts_v false true (S "007") (S "7") = Some false.
Proof. split; vm_compute; reflexivity. Qed.
Print Assumptions int_const_identity_refuted.

(* Variant of the current tree (symbol name = canonical spelling; which variant is live is regenerated
   into Gen_Normalize.int_const_canonical): mkEq of two Int literals is decided by their values, with or
   without UF in the logic, whatever the spellings. *)
Theorem int_const_identity_fixed : forall (uf : bool) (a b : str) (p q : Q),
  is_int_string a = true -> is_int_string b = true -> fr_of_string a = FRVal p -> fr_of_string b = FRVal q ->
  mk_eq_int_consts_v true uf a b = Some (Qeq_bool p q).
Proof. intros uf a b p q. apply int_const_identity_fixed_proof. reflexivity. Qed.
Print Assumptions int_const_identity_fixed.

(* non-vacuity *)
Example decimal_nonvacuous :
  string_to_rational (S "-000123.4500") = StrVal (-2469 # 20) /\ string_to_rational (S "0.050") = StrVal (1 # 20) /\
  string_to_rational (S "12345678901234567890123.4500") = StrVal (246913578024691357802469 # 20).
Proof. repeat split; vm_compute; reflexivity. Qed.
Example fraction_nonvacuous : string_to_rational (S "-6/4") = StrVal (-3 # 2).
Proof. vm_compute; reflexivity. Qed.
Example lex_nonvacuous : matches re_TK_NUM (S "-12/5") = true /\ matches re_TK_DEC (S "00.500") = true /\
  matches re_TK_NUM (S "007") = false /\ matches re_TK_NUM (S "1/02") = false.
Proof. repeat split; vm_compute; reflexivity. Qed.
Example print_nonvacuous : term_print (-3 # 4) = S "(/ (- 3) 4)" /\ term_print (-7 # 1) = S "(- 7)" /\
  term_to_smt2 (S "1.50") = Printed (S "(/ 3 2)").
Proof. repeat split; vm_compute; reflexivity. Qed.
