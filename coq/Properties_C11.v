(* C11 — every theory clause used in search is valid in the theory.   Theorems only; proofs are in Th/*.v.

   PARTIAL (see design/C11.md): what is proved for all inputs is the soundness of the checkers through which every
   theory clause of every traced run is replayed, the validity of the clause schemas the solver instantiates
   (branch/cut splits, interface clauses) and — through C26 — that the simplex explanation always passes the checker.
   The full statement "every clause THandler hands to the SAT solver is T-valid, for every input and history" would
   need models of Egraph/Explainer, STP and ArraySolver; those solvers are covered by the per-run check only.     *)
From Coq Require Import QArith List Bool PArith.
From OsmtV.Th Require Import Farkas LiaCheck ThClause CC SimplexRow.
Import ListNotations.
Local Open Scope Q_scope.

(* LRA clauses: accepted  ==>  some literal is true under every real assignment *)
Theorem lra_clause_check_sound : forall cl ks,
  la_clause_check false cl ks = true -> forall a, Exists (lit_true a) cl.
Proof. exact LiaCheck.lra_clause_check_sound. Qed.
Print Assumptions lra_clause_check_sound.

(* LIA clauses (literals tightened: not (c <= t) is t <= ceil(c) - 1 for integral t): integer assignments *)
Theorem lia_check_sound : forall cl ks,
  la_clause_check true cl ks = true -> forall a, int_assign a -> Exists (lit_true a) cl.
Proof. exact LiaCheck.lia_check_sound. Qed.
Print Assumptions lia_check_sound.

(* clauses with arithmetic equalities / unused literals (theory combination, clauses without solver coefficients) *)
Theorem mixed_clause_check_sound : forall isInt d rest kd1 ks1 kd2 ks2,
  mixed_clause_check isInt d rest kd1 ks1 kd2 ks2 = true ->
  forall a, (isInt = true -> int_assign a) -> Exists (glit_true a) (mixed_clause d rest).
Proof. exact ThClause.mixed_clause_check_sound. Qed.
Print Assumptions mixed_clause_check_sound.

(* branch-and-bound and cut splits  (t <= k) \/ (t >= k+1),  t integral, k integer (floor of a value / of a cut) *)
Theorem branch_clause_valid : forall t k a,
  int_assign a -> lin_integral t = true -> is_integer k -> Exists (lit_true a) (branch_clause t k).
Proof. exact LiaCheck.branch_clause_valid. Qed.
Print Assumptions branch_clause_valid.

Theorem branch_clause_checked : forall t k,
  lin_integral t = true -> is_integer k -> la_clause_check true (branch_clause t k) [1; 1] = true.
Proof. exact LiaCheck.branch_clause_checked. Qed.
Print Assumptions branch_clause_checked.

(* UFLATHandler.cc addInterfaceClausesForEquality: x=y \/ not x<=y \/ not x>=y;  not x=y \/ x<=y;  not x=y \/ x>=y *)
Theorem interface_eq_clauses_valid : forall s a,
  Exists (glit_true a) (interface_trichotomy s) /\
  Exists (glit_true a) (interface_eq_le s) /\
  Exists (glit_true a) (interface_eq_ge s).
Proof. exact ThClause.interface_eq_clauses_valid. Qed.
Print Assumptions interface_eq_clauses_valid.

(* congruence closure: nodes put into one class are equal in every interpretation satisfying the equalities *)
Theorem cc_sound : forall (D : Type) (fi : positive -> list D -> D) (den : nat -> D) (g : dag) eqs a b,
  consistent D fi den g -> Forall (fun e => den (fst e) = den (snd e)) eqs ->
  same_class (cc_close g eqs) a b = true -> den a = den b.
Proof. exact CC.cc_sound. Qed.
Print Assumptions cc_sound.

(* EUF clauses: an accepted clause cannot have all its literals false, in any interpretation of the symbols *)
Theorem euf_clause_check_sound : forall (D : Type) (fi : positive -> list D -> D) (den : nat -> D) (g : dag) clause dcs,
  euf_clause_check g clause dcs = true ->
  consistent D fi den g -> ForallOrdPairs (fun i j => den i <> den j) dcs ->
  ~ Forall (lit_false D den) clause.
Proof. exact CC.euf_clause_check_sound. Qed.
Print Assumptions euf_clause_check_sound.

(* array clauses (read over write, redundant store) on top of congruence: any interpretation of select/store that
   satisfies McCarthy's axioms and  store a i (select a i) = a  (a consequence of extensionality) *)
Theorem array_schema_sound : forall (sel sto : positive) (D : Type) (fi : positive -> list D -> D) (den : nat -> D) (g : dag),
  consistent D fi den g ->
  (forall a i e, fi sel [fi sto [a; i; e]; i] = e) ->
  (forall a i e j, i <> j -> fi sel [fi sto [a; i; e]; j] = fi sel [a; j]) ->
  (forall a i, fi sto [a; i; fi sel [a; i]] = a) ->
  forall clause dcs,
  arr_clause_check sel sto g clause dcs = true ->
  ForallOrdPairs (fun i j => den i <> den j) dcs ->
  ~ Forall (lit_false D den) clause.
Proof. exact CC.arr_clause_check_sound. Qed.
Print Assumptions array_schema_sound.

(* ... and with case analysis (equal / different) on index pairs chosen by the caller: read-over-weak-equivalence
   lemmas whose validity depends on whether a store index meets the read index.  No classical axiom is needed: the
   "equal" branch proves the indices different, the "different" branch then gives the contradiction. *)
Theorem array_case_split_sound : forall (sel sto : positive) (D : Type) (fi : positive -> list D -> D) (den : nat -> D) (g : dag),
  consistent D fi den g ->
  (forall a i e, fi sel [fi sto [a; i; e]; i] = e) ->
  (forall a i e j, i <> j -> fi sel [fi sto [a; i; e]; j] = fi sel [a; j]) ->
  (forall a i, fi sto [a; i; fi sel [a; i]] = a) ->
  forall splits clause dcs,
  arr_clause_split_check sel sto splits g clause dcs = true ->
  ForallOrdPairs (fun i j => den i <> den j) dcs ->
  ~ Forall (lit_false D den) clause.
Proof. exact CC.arr_clause_split_check_sound. Qed.
Print Assumptions array_case_split_sound.

(* difference-logic conflicts (negative cycles) are Farkas certificates with unit coefficients: the cycle
   x0 - x1 <= c0, x1 - x2 <= c1, ..., checked by la_conflict_check like any other LA conflict; here the 2-cycle *)
Theorem dl_two_cycle_sound : forall (x y : var) c1 c2, x <> y -> c1 + c2 < 0 ->
  farkas_check [mkC [(x, 1); (y, -1)] Le c1; mkC [(y, 1); (x, -1)] Le c2] [1; 1] = true.
Proof.
  intros x y c1 c2 Hxy Hc. apply farkas_check_complete.
  - reflexivity.
  - repeat constructor; simpl; reflexivity.
  - intros a. unfold weighted_lhs. simpl. ring.
  - simpl. ring_simplify. ring_simplify in Hc. exact Hc.
Qed.
Print Assumptions dl_two_cycle_sound.

(* C26: the explanation LASolver produces for a violated row is accepted by la_conflict_check, hence valid *)
Theorem simplex_explanation_valid : forall (def : var -> lin) (lb ub : var -> option delta) x row onLower E,
  (forall a, eval a (def x) == row_value def a row) ->
  Forall (fun p => ~ snd p == 0) row ->
  getConflictingBounds lb ub x row onLower = Some E ->
  violated lb ub x row onLower ->
  forall a, ~ all_hold a (expl_constrs def E).
Proof. exact SimplexRow.row_explanation_refutes. Qed.
Print Assumptions simplex_explanation_valid.

(* Finding (known_findings/C11.json): a conflict clause the integer difference-logic solver hands to the SAT solver
   for constants above 2^53 —  not (-(2^64+8) <= z - x) \/ not (2^64+1 <= x - z)  — is NOT valid:
   z = 0, x = 2^64+1 is an integer assignment under which both literals are false. *)
Definition idl_rounded_clause : list lalit :=
  [ mkL [(2%positive, 1); (1%positive, -1)] (- (18446744073709551624 # 1)) false ;      (* not (-(2^64+8) <= z - x) *)
    mkL [(2%positive, -1); (1%positive, 1)] (18446744073709551617 # 1) false ].         (* not (2^64+1 <= x - z)  *)

Theorem idl_rounded_conflict_refuted :
  exists a, int_assign a /\ ~ Exists (lit_true a) idl_rounded_clause.
Proof.
  exists (fun v => match v with 1%positive => 18446744073709551617 # 1 | _ => 0 end). split.
  - intros v. destruct v; try (exists 0%Z; reflexivity). exists 18446744073709551617%Z. reflexivity.
  - intros H. unfold idl_rounded_clause in H.
    inversion H as [? ? H1|? ? H1]; subst.
    + unfold lit_true, atom_true in H1. simpl in H1. apply H1. vm_compute. discriminate.
    + inversion H1 as [? ? H2|? ? H2]; subst.
      * unfold lit_true, atom_true in H2. simpl in H2. apply H2. vm_compute. discriminate.
      * inversion H2.
Qed.
Print Assumptions idl_rounded_conflict_refuted.

(* ---- non-vacuity -------------------------------------------------------------------------------- *)
(* not (a = b) \/ f a = f b   (nodes 0:a 1:b 2:f a 3:f b) is accepted, f a = f b alone is not *)
Example euf_nonvacuous :
  euf_clause_check [(1%positive, []); (2%positive, []); (3%positive, [0%nat]); (3%positive, [1%nat])]
                   [((0%nat, 1%nat), false); ((2%nat, 3%nat), true)] [] = true /\
  euf_clause_check [(1%positive, []); (2%positive, []); (3%positive, [0%nat]); (3%positive, [1%nat])]
                   [((2%nat, 3%nat), true)] [] = false.
Proof. split; vm_compute; reflexivity. Qed.

(* select (store A i e) i = e   (nodes 0:A 1:i 2:e 3:store A i e 4:select (store A i e) i) *)
Example array_nonvacuous :
  arr_clause_check 5%positive 4%positive
    [(1%positive, []); (2%positive, []); (3%positive, []); (4%positive, [0%nat; 1%nat; 2%nat]); (5%positive, [3%nat; 1%nat])]
    [((4%nat, 2%nat), true)] [] = true.
Proof. vm_compute. reflexivity. Qed.

(* nodes 0:a 1:k 2:v 3:j 4:store a k v 5:select (store a k v) j 6:store (store a k v) k v 7:select (6) j 8:select a j
   select (store a k v) j = select (store (store a k v) k v) j   needs the case analysis on (k, j);
   the clause  a[j] = store(a,k,v)[j]  alone is not valid and is rejected even with the split *)
Definition ex_arr_dag : dag :=
  [(1%positive, []); (2%positive, []); (3%positive, []); (6%positive, []);
   (4%positive, [0%nat; 1%nat; 2%nat]); (5%positive, [4%nat; 3%nat]);
   (4%positive, [4%nat; 1%nat; 2%nat]); (5%positive, [6%nat; 3%nat]); (5%positive, [0%nat; 3%nat])].
Example array_split_nonvacuous :
  arr_clause_check 5%positive 4%positive ex_arr_dag [((5%nat, 7%nat), true)] [] = false /\
  arr_clause_split_check 5%positive 4%positive [(1%nat, 3%nat)] ex_arr_dag [((5%nat, 7%nat), true)] [] = true /\
  arr_clause_split_check 5%positive 4%positive [(1%nat, 3%nat)] ex_arr_dag [((8%nat, 5%nat), true)] [] = false.
Proof. repeat split; vm_compute; reflexivity. Qed.

(* x <= 1 \/ x >= 2 over the integers (branch clause), not valid over the reals *)
Example lia_nonvacuous :
  la_clause_check true (branch_clause [(1%positive, 1)] 1) [1; 1] = true /\
  la_clause_check false (branch_clause [(1%positive, 1)] 1) [1; 1] = false.
Proof. split; vm_compute; reflexivity. Qed.
