(* placeholder while the check is developed; replaced below *)
From OsmtV.Print Require Import Reader ReaderProofs Quote QuoteProofs SiteProofs.
Theorem protect_injective : forall v s1 s2 i1 i2,
  legal_symbol s1 -> legal_symbol s2 -> protectName v s1 i1 = protectName v s2 i2 -> s1 = s2.
Proof. exact QuoteProofs.protect_injective. Qed.
Print Assumptions protect_injective.
