(* C17 — printed SMT-LIB reads back to the same object.  Theorems only; proofs are in Print/*.v.

   Reader: Print/Reader.v (an SMT-LIB 2.6 lexer + s-expression reader; std_cfg = the standard, osmt_cfg = opensmt's own
   lexer as regenerated from smt2newlexer.ll).  Printer models: Print/Quote.v; [faithful] is the working tree (tables and
   guards regenerated from the source by translate/smt2tokens.py), [pinned] the pinned commit written out, [repaired] the
   behaviour of /verif/proposed_fixes/C17_*.diff.

   Full statement aimed at:   forall legal s, read_symbol cfg (protectName faithful s false) = Some s        (both cfg)
   It is FALSE on the pinned code (theorem protect_roundtrip_refuted); proved: the same statement for [repaired], and for
   [faithful] under the side conditions that name exactly the failing inputs (theorems protect_roundtrip_partial_std and _osmt). *)
From Coq Require Import String Ascii List Bool.
From OsmtV.Print Require Import Gen_Tokens Reader ReaderProofs LexLemmas Quote QuoteProofs SiteProofs RoundTrip.
Import ListNotations.
Open Scope string_scope.

(* --- which variant the working tree is.  The Boolean fields of [faithful] are regenerated site by site from the source
       (translate/smt2tokens.py recognises the pinned and the repaired form of every site and nothing else); its table is the
       pinned one or the one of the repair series (proposed_fixes/C17_series/01_protect_name).  The theorems about [pinned]
       describe the pinned commit, the ones about [repaired] the tree with every repair; in between the check follows
       [faithful]. --- *)
Theorem model_table_is_known : v_table faithful = pinned_tokenNames \/ v_table faithful = series_tokenNames.
Proof. first [left; reflexivity | right; reflexivity]. Qed.
Print Assumptions model_table_is_known.

(* with the series applied nothing is missing from the table: [repaired] and the tree agree on it *)
Theorem series_table_complete :
  filter (fun w => negb (mem_str w series_tokenNames)) (std_reserved ++ gen_lexer_reserved) = [].
Proof. vm_compute. reflexivity. Qed.
Print Assumptions series_table_complete.

(* --- the reader accepts exactly the reference spelling of every legal name --- *)
Theorem quote_symbol_roundtrip : forall cfg s, cfg_ok cfg -> legal_symbol s ->
  read_symbol cfg (quote_symbol cfg s) = Some s.
Proof. exact ReaderProofs.quote_symbol_roundtrip. Qed.
Print Assumptions quote_symbol_roundtrip.

Theorem reader_configurations_ok : cfg_ok std_cfg /\ cfg_ok osmt_cfg.
Proof. split; [exact std_cfg_ok | exact osmt_cfg_ok]. Qed.
Print Assumptions reader_configurations_ok.

(* --- Logic::protectName --- *)
Theorem protect_roundtrip_partial_std : forall s,
  legal_symbol s -> (s <> EmptyString \/ v_quote_empty faithful = true) ->
  (In s std_reserved -> In s (v_table faithful)) ->
  read_symbol std_cfg (protectName faithful s false) = Some s.
Proof. exact QuoteProofs.protect_roundtrip_partial_std. Qed.
Print Assumptions protect_roundtrip_partial_std.

Theorem protect_roundtrip_partial_osmt : forall s,
  legal_symbol s -> (s <> EmptyString \/ v_quote_empty faithful = true) ->
  (In s gen_lexer_reserved -> In s (v_table faithful)) ->
  (neg_numlike s = false \/ v_quote_minus_digit faithful = true) ->
  read_symbol osmt_cfg (protectName faithful s false) = Some s.
Proof. exact QuoteProofs.protect_roundtrip_partial_osmt. Qed.
Print Assumptions protect_roundtrip_partial_osmt.

Theorem protect_roundtrip_refuted :
  (* reserved words the table lacks *)
  (roundtrip_fails std_cfg pinned "_" /\ roundtrip_fails osmt_cfg pinned "_"
   /\ roundtrip_fails std_cfg pinned "!" /\ roundtrip_fails osmt_cfg pinned "DECIMAL"
   /\ roundtrip_fails std_cfg pinned "match" /\ roundtrip_fails std_cfg pinned "check-sat-assuming")
  (* names opensmt's lexer takes for numbers *)
  /\ (roundtrip_fails osmt_cfg pinned "-5" /\ roundtrip_fails osmt_cfg pinned "-1/3" /\ roundtrip_fails osmt_cfg pinned "-0.5")
  (* the empty name *)
  /\ (roundtrip_fails std_cfg pinned "" /\ roundtrip_fails osmt_cfg pinned "").
Proof.
  split; [exact protect_roundtrip_refuted_reserved|].
  split; [exact protect_roundtrip_refuted_numlike | exact protect_roundtrip_refuted_empty].
Qed.
Print Assumptions protect_roundtrip_refuted.

Theorem protect_repaired_roundtrip : forall s, legal_symbol s ->
  read_symbol std_cfg (protectName repaired s false) = Some s /\
  read_symbol osmt_cfg (protectName repaired s false) = Some s.
Proof. intros s H; split; [exact (protect_repaired_roundtrip_std s H) | exact (protect_repaired_roundtrip_osmt s H)]. Qed.
Print Assumptions protect_repaired_roundtrip.

Theorem protect_injective : forall v s1 s2 i1 i2,
  legal_symbol s1 -> legal_symbol s2 -> protectName v s1 i1 = protectName v s2 i2 -> s1 = s2.
Proof. exact QuoteProofs.protect_injective. Qed.
Print Assumptions protect_injective.

Theorem protect_injective_illegal_refuted : exists s1 s2,
  s1 <> s2 /\ protectName pinned s1 false = protectName pinned s2 false.
Proof. exact QuoteProofs.protect_injective_illegal_refuted. Qed.
Print Assumptions protect_injective_illegal_refuted.

(* --- the lexer model never runs out of fuel (the explicit error value is unreachable) --- *)
Theorem lex_never_out_of_fuel : forall cfg s, lex cfg s <> OutOfFuel.
Proof. exact LexLemmas.lex_never_out_of_fuel. Qed.
Print Assumptions lex_never_out_of_fuel.

(* --- Logic::termToSMT2String (repaired): EVERY well-formed term over legal names reads back as the term printed,
       under the SMT-LIB lexer and under opensmt's own.  term_sexp is the specification: names as symbols (|x| and x
       identified), overloaded or abstract-value constants qualified with their sort, numbers as (- n), (/ n d).
       wf_term: names legal, theory symbols simple, constants that may need (as ..) non-empty, arities respected,
       numerals digit strings. --- *)
Theorem print_read_roundtrip_repaired : forall env t,
  (wf_term std_cfg t = true ->
     exists e, read_sexps std_cfg (print_term repaired env t) = Some [e] /\ norm_sexp e = term_sexp env t)
  /\ (wf_term osmt_cfg t = true ->
     exists e, read_sexps osmt_cfg (print_term repaired env t) = Some [e] /\ norm_sexp e = term_sexp env t).
Proof. intros env t. split; [apply term_roundtrip_std | apply term_roundtrip_osmt]. Qed.
Print Assumptions print_read_roundtrip_repaired.

Theorem sort_roundtrip_repaired : forall s, wf_sort s = true ->
  exists e, read_sexps std_cfg (sortToString repaired s) = Some [e] /\ norm_sexp e = sort_sexp s.
Proof. exact sort_roundtrip_std. Qed.
Print Assumptions sort_roundtrip_repaired.

(* on the pinned code the same statement fails: a constant called _ *)
Theorem print_read_roundtrip_refuted : exists env t, wf_term std_cfg t = true /\
  forall e, read_sexps std_cfg (print_term pinned env t) = Some [e] -> norm_sexp e <> term_sexp env t.
Proof.
  exists [usym "_" [] U], (TApp (usym "_" [] U) []). split; [vm_compute; reflexivity|].
  intros e H. vm_compute in H. inversion H; subst. vm_compute. discriminate.
Qed.
Print Assumptions print_read_roundtrip_refuted.

(* --- Logic::disambiguateName --- *)
Theorem disambiguation_refuted : exists env d1 d2,
  In d1 env /\ In d2 env /\ d1 <> d2 /\ legal_symbol (sd_name d1) /\
  print_term pinned env (TApp d1 []) = print_term pinned env (TApp d2 []).
Proof. exact SiteProofs.disambiguation_refuted. Qed.
Print Assumptions disambiguation_refuted.

Theorem disambiguation_repaired : forall env d,
  legal_symbol (sd_name d) -> nonempty (sd_name d) = true -> sd_interp d = false -> sd_nullary d = true ->
  is_ambiguous env (sd_name d) = true ->
  symToString repaired env d =
  "(as " ++ protectName repaired (sd_name d) false ++ " " ++ sortToString repaired (sd_ret d) ++ ")".
Proof. exact SiteProofs.disambiguation_repaired. Qed.
Print Assumptions disambiguation_repaired.

(* --- formal parameters of printed definitions --- *)
Theorem formal_arg_fresh_refuted : exists user d df tbl',
  In d user /\ default_definition pinned user d = Some (df, tbl') /\
  resolve_clashes pinned user [(d, df)] = Some [df] /\ ~ params_fresh user df.
Proof. exact SiteProofs.formal_arg_fresh_refuted. Qed.
Print Assumptions formal_arg_fresh_refuted.

Theorem formal_arg_fresh_refuted_builder : exists user d df u' tbl',
  In d user /\ builder_definition pinned user d 0 = Some (df, u', tbl') /\
  resolve_clashes pinned user [(d, df)] = Some [df] /\ ~ params_fresh user df.
Proof. exact SiteProofs.formal_arg_fresh_refuted_builder. Qed.
Print Assumptions formal_arg_fresh_refuted_builder.

(* repaired creation of formal parameters: always succeeds, and every variable it adds to the symbols of the logic has
   only homonyms that are the same variable (nullary, same sort): no user symbol becomes ambiguous *)
Theorem formal_arg_creation_repaired : forall sorts tbl base num,
  exists ps n' tbl', create_params repaired tbl base num sorts = Some (ps, n', tbl') /\ grows tbl tbl'.
Proof.
  intros sorts tbl base num. destruct (create_params repaired tbl base num sorts) as [[[ps n'] tbl']|] eqn:E.
  - exists ps, n', tbl'. split; [reflexivity | exact (creation_no_overload sorts tbl base num ps n' tbl' E)].
  - exfalso. exact (creation_total sorts tbl base num E).
Qed.
Print Assumptions formal_arg_creation_repaired.

Theorem formal_arg_fresh_repaired : forall user fs,
  exists l, resolve_clashes repaired user fs = Some l /\ Forall (params_fresh user) l.
Proof.
  intros user fs. destruct (resolve_clashes repaired user fs) as [l|] eqn:E.
  - exists l. split; [reflexivity | exact (resolve_repaired_fresh user fs l E)].
  - exfalso. exact (resolve_repaired_total user fs E).
Qed.
Print Assumptions formal_arg_fresh_repaired.

(* --- get-assignment --- *)
Theorem assignment_refuted :
  (assignment_text pinned [] = FmtOut ")" /\ read_sexps std_cfg ")" = None)
  /\ (exists t, assignment_text pinned [("a b", "true")] = FmtOut t /\ ~ reads_as std_cfg t (SList [SList [sym_tok "a b"; sym_tok "true"]]))
  /\ (exists t, assignment_text pinned [("a%sb", "true")] = FmtUB t).
Proof.
  split; [exact assignment_empty_refuted|]. destruct assignment_names_refuted as (A & B & _). split; assumption.
Qed.
Print Assumptions assignment_refuted.

Theorem assignment_repaired_examples :
  (assignment_text repaired [] = FmtOut "()" /\ read_sexps std_cfg "()" = Some [SList []])
  /\ (exists t, assignment_text repaired [("a b", "true"); ("a%sb", "false"); ("let", "true")] = FmtOut t /\
                reads_as std_cfg t (SList [SList [sym_tok "a b"; sym_tok "true"]; SList [sym_tok "a%sb"; sym_tok "false"];
                                           SList [sym_tok "let"; sym_tok "true"]])).
Proof. split; [exact assignment_empty_repaired | exact assignment_names_repaired_examples]. Qed.
Print Assumptions assignment_repaired_examples.

(* --- get-value: the echo of the request --- *)
Theorem echo_roundtrip_refuted :
  ~ echo_ok std_cfg pinned (A_app (H_sym "f") [A_sym "a b"])
  /\ ~ echo_ok osmt_cfg pinned (A_app (H_sym "f") [A_sym "a b"])
  /\ ~ echo_ok std_cfg pinned (A_sym "let")
  /\ ~ echo_ok std_cfg pinned (A_bang (A_sym "p") "n")
  /\ snd (echo pinned (A_app (H_sym "f") [A_as "c" U])) = true.
Proof. exact SiteProofs.echo_roundtrip_refuted. Qed.
Print Assumptions echo_roundtrip_refuted.

(* every well-formed request (legal names, numerals / decimals as literals, applications with at least one argument,
   lets with at least one binding, (as x S), (! t :named n)) is echoed so that it reads back as the request *)
Theorem echo_roundtrip_repaired : forall a, wf_ast a = true ->
  (snd (echo repaired a) = false /\
   exists e, read_sexps std_cfg (fst (echo repaired a)) = Some [e] /\ norm_sexp e = ast_sexp a)
  /\ (exists e, read_sexps osmt_cfg (fst (echo repaired a)) = Some [e] /\ norm_sexp e = ast_sexp a).
Proof.
  intros a H. split; [exact (echo_roundtrip_std a H)|]. destruct (echo_roundtrip_osmt a H) as [_ E]. exact E.
Qed.
Print Assumptions echo_roundtrip_repaired.

Theorem echo_repaired_examples :
  echo_ok std_cfg repaired (A_app (H_sym "f") [A_sym "a b"; A_as "c" U; A_const "12"; A_const "0.5"])
  /\ echo_ok osmt_cfg repaired (A_app (H_sym "f") [A_sym "a b"; A_as "c" U; A_const "12"])
  /\ echo_ok std_cfg repaired (A_bang (A_app (H_sym "g h") [A_sym "let"; A_sym "_"]) "n 1")
  /\ echo_ok std_cfg repaired (A_let [("x y", A_sym "12"); ("z", A_app (H_sym "+") [A_const "1"; A_sym "-5"])] (A_app (H_sym "f") [A_sym "x y"; A_sym "z"])).
Proof. exact SiteProofs.echo_repaired_examples. Qed.
Print Assumptions echo_repaired_examples.

(* --- unsat-core labels, sort names, default definitions --- *)
Theorem raw_name_sites_refuted :
  ~ reads_as std_cfg (core_names_text pinned ["n 1"; "let"]) (SList [sym_tok "n 1"; sym_tok "let"])
  /\ ~ reads_as std_cfg (sortToString pinned (Sort "S T" [])) (sort_sexp (Sort "S T" []))
  /\ (exists df tbl', default_definition pinned [] (usym "unused fn" [U] U) = Some (df, tbl') /\
                       read_symbol std_cfg (df_name df) <> Some "unused fn").
Proof. split; [exact core_names_refuted | split; [exact sort_name_refuted | exact default_definition_name_refuted]]. Qed.
Print Assumptions raw_name_sites_refuted.

Theorem raw_name_sites_repaired :
  (forall n, legal_symbol n -> read_symbol std_cfg (sortToString repaired (Sort n [])) = Some n)
  /\ (forall tbl d df tbl', legal_symbol (sd_name d) -> sd_interp d = false ->
        default_definition repaired tbl d = Some (df, tbl') -> read_symbol std_cfg (df_name df) = Some (sd_name d))
  /\ reads_as std_cfg (core_names_text repaired ["n 1"; "let"; "n3"]) (SList [sym_tok "n 1"; sym_tok "let"; sym_tok "n3"]).
Proof. split; [exact sort_name_repaired | split; [exact default_definition_name_repaired | exact core_names_repaired_example]]. Qed.
Print Assumptions raw_name_sites_repaired.

(* --- non-vacuity: the hypotheses are satisfiable by non-trivial values --- *)
Example legal_names : legal_symbol "a b" /\ legal_symbol "let" /\ legal_symbol "12" /\ legal_symbol "x!0"
  /\ legal_symbol (String (ascii_of_nat 10) "(;" ++ String (ascii_of_nat 34) (String (ascii_of_nat 233) "")) /\ legal_symbol "".
Proof. repeat split; vm_compute; reflexivity. Qed.

Example partial_hypotheses_hold :
  ("a b" <> "" /\ (In "a b" std_reserved -> In "a b" (v_table faithful)))
  /\ ("let" <> "" /\ (In "let" std_reserved -> In "let" (v_table faithful)))
  /\ neg_numlike "-x" = false.
Proof.
  split; [split; [discriminate|]|split; [split; [discriminate|]|reflexivity]].
  - intros H. exfalso. revert H. apply mem_str_In_false. vm_compute. reflexivity.
  - intros _. apply mem_str_In. vm_compute. reflexivity.
Qed.

Example printed_examples :
  protectName faithful "a b" false = "|a b|" /\ protectName faithful "let" false = "|let|"
  /\ protectName faithful "12" false = "|12|" /\ protectName faithful "x!0" false = "x!0"
  /\ protectName pinned "_" false = "_" /\ protectName repaired "_" false = "|_|"
  /\ protectName repaired "" false = "||" /\ protectName repaired "-5" false = "|-5|"
  /\ protectName faithful "and" true = "and".
Proof. repeat split; vm_compute; reflexivity. Qed.

Example wf_term_example :
  wf_term std_cfg (TApp (usym "f g" [U; Sort "S T" []] B) [TApp (usym "let" [] U) []; TApp (usym "-5" [] (Sort "S T" [])) []]) = true
  /\ wf_term osmt_cfg (TApp {| sd_name := "<="; sd_args := [Sort "Int" []; Sort "Int" []]; sd_ret := B; sd_interp := true |}
                            [TNumC true "3" (Some "2"); TApp (usym "" [Sort "Int" []] (Sort "Int" [])) [TNumC false "7" None]]) = true.
Proof. split; vm_compute; reflexivity. Qed.

Example wf_ast_example :
  wf_ast (A_let [("x y", A_app (H_sym "+") [A_const "1"; A_sym "-5"; A_const "0.25"])]
                (A_bang (A_app (H_as "f" U) [A_sym "x y"; A_as "c d" (Sort "S T" [])]) "n 1")) = true.
Proof. vm_compute. reflexivity. Qed.

Example ambiguous_env_exists :
  is_ambiguous [usym "a b" [] U; usym "a b" [] B] "a b" = true.
Proof. reflexivity. Qed.
