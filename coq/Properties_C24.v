(* C24 — solver instances in different threads do not interfere.   PARTIAL (see design/C24.md):
   what is proved is the logic of the only process-wide mutable structure every arithmetic instance
   touches, the GMP-rational pool FastRational::pool, under interleaving semantics of atomic
   micro-steps.  Real interleavings, the C++ memory model and races elsewhere are runtime behaviour
   (ThreadSanitizer runs in checks/C24.py), not Gallina.

   Full statement of the property on this model (holds iff the source synchronises the pool):
       c24_no_interference : forall progs sch, Inv (run Gen_PoolSync.locked sch (init progs))
   With the source as it is (Gen_PoolSync.locked = false) this is FALSE; what compiles is the
   two-sided theorem c24_pool_discipline below, whose `else` branch is the refutation, and
   checks/C24.py turns `locked = false` + a ThreadSanitizer report on the implementation into the
   finding.  After a fix (mutex in alloc/release or thread_local pool) the translator regenerates
   locked = true and the same theorem is the safety statement.
   Theorems only; proofs are in Conc/PoolProofs.v. *)
From Coq Require Import List.
Import ListNotations.
From OsmtV.Conc Require Import Pool PoolProofs Gen_PoolSync.

(* With a critical section around alloc and release: for all programs of all threads and all
   schedules, no undefined stack operation, free list duplicate-free, free and live cells disjoint,
   every live cell has exactly one owner. *)
Theorem c24_pool_safe_locked : forall progs sch, Inv (run true sch (init progs)).
Proof. exact pool_safe_locked. Qed.
Print Assumptions c24_pool_safe_locked.

(* Without it: an explicit schedule of two threads after which both own the same cell (no undefined
   operation is even needed). *)
Theorem c24_no_interference_refuted_unlocked :
  exists progs sch, two_owners (run false sch (init progs)) /\ ub (run false sch (init progs)) = false.
Proof. exact pool_race_unlocked. Qed.
Print Assumptions c24_no_interference_refuted_unlocked.

(* The statement about the CURRENT source: indexed by the constant regenerated from
   FastRational.{h,cc}. *)
Theorem c24_pool_discipline :
  if Gen_PoolSync.locked
  then forall progs sch, Inv (run Gen_PoolSync.locked sch (init progs))
  else exists progs sch, ~ Inv (run Gen_PoolSync.locked sch (init progs)).
Proof. exact (pool_discipline Gen_PoolSync.locked). Qed.
Print Assumptions c24_pool_discipline.

(* The micro-steps of the model are the container operations of the two method bodies, in the
   order the translator found them in the source. *)
Theorem c24_model_matches_source_shape :
  Gen_PoolSync.alloc_order = fst alloc_shape ++ tl (snd alloc_shape) /\ Gen_PoolSync.release_order = release_shape.
Proof. split; reflexivity. Qed.
Print Assumptions c24_model_matches_source_shape.

(* The pool is the only mutable object with static storage duration that has not been reviewed as
   harmless: the list regenerated from the source is exactly the reviewed one. *)
Theorem c24_shared_state_reviewed : Gen_PoolSync.shared_state = reviewed_shared_state.
Proof. reflexivity. Qed.
Print Assumptions c24_shared_state_reviewed.

Example c24_nonvacuous_locked :
  let s := run true (race_schedule ++ [1; 1; 1]) (init race_progs) in
  t_owned (thr s 0) = [0] /\ t_owned (thr s 1) = [1] /\ t_pc (thr s 1) = Idle /\ free s = [] /\ lock s = None.
Proof. vm_compute. repeat split. Qed.
Example c24_nonvacuous_unlocked :
  let s := run false race_schedule (init race_progs) in
  t_owned (thr s 0) = [0] /\ t_owned (thr s 1) = [0] /\ free s = [].
Proof. vm_compute. repeat split. Qed.
