
val negb : bool -> bool

type nat =
| O
| S of nat

val length : 'a1 list -> nat

val app : 'a1 list -> 'a1 list -> 'a1 list

type positive =
| XI of positive
| XO of positive
| XH

type n =
| N0
| Npos of positive

type z =
| Z0
| Zpos of positive
| Zneg of positive

val eqb : bool -> bool -> bool

module Pos :
 sig
  val succ : positive -> positive

  val eqb : positive -> positive -> bool
 end

module N :
 sig
  val succ_pos : n -> positive

  val eqb : n -> n -> bool
 end

module Z :
 sig
  val opp : z -> z

  val eqb : z -> z -> bool
 end

val map : ('a1 -> 'a2) -> 'a1 list -> 'a2 list

val flat_map : ('a1 -> 'a2 list) -> 'a1 list -> 'a2 list

val existsb : ('a1 -> bool) -> 'a1 list -> bool

val forallb : ('a1 -> bool) -> 'a1 list -> bool

module PositiveMap :
 sig
  type key = positive

  type 'a tree =
  | Leaf
  | Node of 'a tree * 'a option * 'a tree

  type 'a t = 'a tree

  val empty : 'a1 t

  val find : key -> 'a1 t -> 'a1 option

  val add : key -> 'a1 -> 'a1 t -> 'a1 t
 end

type lit = z

type clause = lit list

type cnf = clause list

type assignment = positive -> bool

val remove_lit : lit -> clause -> clause

val resolve : clause -> clause -> lit -> clause

type pmap = bool PositiveMap.t

val pfind : positive -> pmap -> bool option

val padd : positive -> bool -> pmap -> pmap

val pempty : pmap

val lit_val : pmap -> lit -> bool option

val assign : lit -> pmap -> pmap

val total_of : pmap -> assignment

val var_of : lit -> positive option

type cstatus =
| CSat
| CConflict
| CUnit of lit
| CUnres

val clause_status_aux : pmap -> clause -> lit option -> cstatus

val clause_status : pmap -> clause -> cstatus

val pass : cnf -> pmap -> bool -> (pmap * bool) option

val up : nat -> cnf -> pmap -> pmap option

val assume_neg : clause -> pmap -> pmap option

val rup_fuel : cnf -> nat

val rup : cnf -> clause -> bool

type dres =
| DSat of pmap
| DUnsat
| DUnknown

val lit_is : pmap -> bool -> lit -> bool

val clause_sat : pmap -> clause -> bool

val clause_dead : pmap -> clause -> bool

val lit_vars : lit -> positive list

val cnf_vars : cnf -> positive list

val dpll_aux : positive list -> cnf -> pmap -> dres

val dpll : cnf -> dres

val neg_units : clause -> cnf

val countermodel : cnf -> clause -> dres

val mem_lit : lit -> clause -> bool

val subset_b : clause -> clause -> bool

val clause_eqb : clause -> clause -> bool

val res_step : clause -> clause -> lit -> clause option

type name = n

type pstep =
| PLeaf of name * clause
| PRes of name * clause * name * (name * lit) list

type proof = { p_steps : pstep list; p_final : name; p_core : name list }

type perr =
| ERebound of name
| EUnbound of name * name
| EBadPivot of name * nat
| EWrongResolvent of name
| ELeafNotAdmitted of name
| ECoreNotLeaf of name
| EFinalUnbound of name
| EFinalNotEmpty of name

type 'a res =
| Ok of 'a
| Err of perr

type env = clause PositiveMap.t

val key0 : name -> positive

val lookup : env -> name -> clause option

val bind : env -> name -> clause -> env

val run_chain :
  env -> name -> clause -> (name * lit) list -> nat -> clause res

val is_name : name -> name -> bool

val check_steps :
  cnf -> env -> name list -> pstep list -> (env * name list) res

val check_core : name list -> name list -> perr option

val check_proof_err : cnf -> proof -> perr option

val proof_leaves : pstep list -> cnf
