
type nat =
| O
| S of nat

val app : 'a1 list -> 'a1 list -> 'a1 list

module Nat :
 sig
  val eqb : nat -> nat -> bool
 end

val hd_error : 'a1 list -> 'a1 option

val tl : 'a1 list -> 'a1 list

val nth_error : 'a1 list -> nat -> 'a1 option

val flat_map : ('a1 -> 'a2 list) -> 'a1 list -> 'a2 list

val existsb : ('a1 -> bool) -> 'a1 list -> bool

val firstn : nat -> 'a1 list -> 'a1 list

val skipn : nat -> 'a1 list -> 'a1 list

val seq : nat -> nat -> nat list

type cell = nat

type tid = nat

type op =
| Alloc
| Release of nat

type pc =
| Idle
| AEmpty
| ABranch of bool
| APop of cell
| ARet of cell
| RPush of cell

type thread = { t_pc : pc; t_owned : cell list; t_prog : op list }

val t_owned : thread -> cell list

type state = { free : cell list; next : cell; lock : tid option; ub : 
               bool; thr : (tid -> thread) }

val free : state -> cell list

val ub : state -> bool

val thr : state -> tid -> thread

val upd : (tid -> thread) -> tid -> thread -> tid -> thread

val remove_nth : nat -> 'a1 list -> 'a1 list

val is_nil : 'a1 list -> bool

val acquire : bool -> tid -> state -> tid option option

val released : bool -> state -> tid option

val step : bool -> tid -> state -> state

type schedule = tid list

val run : bool -> schedule -> state -> state

val init : (tid -> op list) -> state

val inflight : pc -> cell list

val held : thread -> cell list

val iter : nat -> ('a1 -> 'a1) -> 'a1 -> 'a1

val set_prog : tid -> op list -> state -> state

val seq_exec : bool -> op list -> state -> cell option list

val mem : cell -> cell list -> bool

val dup : cell list -> bool

val bad_b : nat -> state -> bool

val locked : bool

val discipline : nat
