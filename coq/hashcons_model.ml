
(** val negb : bool -> bool **)

let negb = function
| true -> false
| false -> true

type nat =
| O
| S of nat

(** val option_map : ('a1 -> 'a2) -> 'a1 option -> 'a2 option **)

let option_map f = function
| Some a -> Some (f a)
| None -> None

(** val length : 'a1 list -> nat **)

let rec length = function
| [] -> O
| _ :: l' -> S (length l')

(** val app : 'a1 list -> 'a1 list -> 'a1 list **)

let rec app l m =
  match l with
  | [] -> m
  | a :: l1 -> a :: (app l1 m)

module Coq__1 = struct
 (** val add : nat -> nat -> nat **)
 let rec add n0 m =
   match n0 with
   | O -> m
   | S p -> S (add p m)
end
include Coq__1

(** val mul : nat -> nat -> nat **)

let rec mul n0 m =
  match n0 with
  | O -> O
  | S p -> add m (mul p m)

(** val sub : nat -> nat -> nat **)

let rec sub n0 m =
  match n0 with
  | O -> n0
  | S k -> (match m with
            | O -> n0
            | S l -> sub k l)

type positive =
| XI of positive
| XO of positive
| XH

type n =
| N0
| Npos of positive

module Nat =
 struct
  (** val eqb : nat -> nat -> bool **)

  let rec eqb n0 m =
    match n0 with
    | O -> (match m with
            | O -> true
            | S _ -> false)
    | S n' -> (match m with
               | O -> false
               | S m' -> eqb n' m')

  (** val leb : nat -> nat -> bool **)

  let rec leb n0 m =
    match n0 with
    | O -> true
    | S n' -> (match m with
               | O -> false
               | S m' -> leb n' m')

  (** val ltb : nat -> nat -> bool **)

  let ltb n0 m =
    leb (S n0) m

  (** val eq_dec : nat -> nat -> bool **)

  let rec eq_dec n0 m =
    match n0 with
    | O -> (match m with
            | O -> true
            | S _ -> false)
    | S n1 -> (match m with
               | O -> false
               | S n2 -> eq_dec n1 n2)
 end

module Pos =
 struct
  (** val succ : positive -> positive **)

  let rec succ = function
  | XI p -> XO (succ p)
  | XO p -> XI p
  | XH -> XO XH

  (** val add : positive -> positive -> positive **)

  let rec add x y =
    match x with
    | XI p ->
      (match y with
       | XI q -> XO (add_carry p q)
       | XO q -> XI (add p q)
       | XH -> XO (succ p))
    | XO p ->
      (match y with
       | XI q -> XI (add p q)
       | XO q -> XO (add p q)
       | XH -> XI p)
    | XH -> (match y with
             | XI q -> XO (succ q)
             | XO q -> XI q
             | XH -> XO XH)

  (** val add_carry : positive -> positive -> positive **)

  and add_carry x y =
    match x with
    | XI p ->
      (match y with
       | XI q -> XI (add_carry p q)
       | XO q -> XO (add_carry p q)
       | XH -> XI (succ p))
    | XO p ->
      (match y with
       | XI q -> XO (add_carry p q)
       | XO q -> XI (add p q)
       | XH -> XO (succ p))
    | XH ->
      (match y with
       | XI q -> XI (succ q)
       | XO q -> XO (succ q)
       | XH -> XI XH)

  (** val mul : positive -> positive -> positive **)

  let rec mul x y =
    match x with
    | XI p -> add y (XO (mul p y))
    | XO p -> XO (mul p y)
    | XH -> y

  (** val iter_op : ('a1 -> 'a1 -> 'a1) -> positive -> 'a1 -> 'a1 **)

  let rec iter_op op0 p a =
    match p with
    | XI p0 -> op0 a (iter_op op0 p0 (op0 a a))
    | XO p0 -> iter_op op0 p0 (op0 a a)
    | XH -> a

  (** val to_nat : positive -> nat **)

  let to_nat x =
    iter_op Coq__1.add x (S O)
 end

module N =
 struct
  (** val add : n -> n -> n **)

  let add n0 m =
    match n0 with
    | N0 -> m
    | Npos p -> (match m with
                 | N0 -> n0
                 | Npos q -> Npos (Pos.add p q))

  (** val mul : n -> n -> n **)

  let mul n0 m =
    match n0 with
    | N0 -> N0
    | Npos p -> (match m with
                 | N0 -> N0
                 | Npos q -> Npos (Pos.mul p q))

  (** val to_nat : n -> nat **)

  let to_nat = function
  | N0 -> O
  | Npos p -> Pos.to_nat p
 end

(** val n_of_digits : bool list -> n **)

let rec n_of_digits = function
| [] -> N0
| b :: l' ->
  N.add (if b then Npos XH else N0) (N.mul (Npos (XO XH)) (n_of_digits l'))

(** val n_of_ascii : char -> n **)

let n_of_ascii a =
  (* If this appears, you're using Ascii internals. Please don't *)
 (fun f c ->
  let n = Char.code c in
  let h i = (n land (1 lsl i)) <> 0 in
  f (h 0) (h 1) (h 2) (h 3) (h 4) (h 5) (h 6) (h 7))
    (fun a0 a1 a2 a3 a4 a5 a6 a7 ->
    n_of_digits
      (a0 :: (a1 :: (a2 :: (a3 :: (a4 :: (a5 :: (a6 :: (a7 :: [])))))))))
    a

(** val nat_of_ascii : char -> nat **)

let nat_of_ascii a =
  N.to_nat (n_of_ascii a)

(** val nth : nat -> 'a1 list -> 'a1 -> 'a1 **)

let rec nth n0 l default =
  match n0 with
  | O -> (match l with
          | [] -> default
          | x :: _ -> x)
  | S m -> (match l with
            | [] -> default
            | _ :: t -> nth m t default)

(** val nth_error : 'a1 list -> nat -> 'a1 option **)

let rec nth_error l = function
| O -> (match l with
        | [] -> None
        | x :: _ -> Some x)
| S n1 -> (match l with
           | [] -> None
           | _ :: l0 -> nth_error l0 n1)

(** val list_eq_dec : ('a1 -> 'a1 -> bool) -> 'a1 list -> 'a1 list -> bool **)

let rec list_eq_dec eq_dec0 l l' =
  match l with
  | [] -> (match l' with
           | [] -> true
           | _ :: _ -> false)
  | y :: l0 ->
    (match l' with
     | [] -> false
     | a :: l1 -> if eq_dec0 y a then list_eq_dec eq_dec0 l0 l1 else false)

(** val existsb : ('a1 -> bool) -> 'a1 list -> bool **)

let rec existsb f = function
| [] -> false
| a :: l0 -> (||) (f a) (existsb f l0)

(** val forallb : ('a1 -> bool) -> 'a1 list -> bool **)

let rec forallb f = function
| [] -> true
| a :: l0 -> (&&) (f a) (forallb f l0)

(** val string_dec : char list -> char list -> bool **)

let rec string_dec s x =
  match s with
  | [] -> (match x with
           | [] -> true
           | _::_ -> false)
  | a::s0 ->
    (match x with
     | [] -> false
     | a0::s1 -> if (=) a a0 then string_dec s0 s1 else false)

type syminfo = { sy_nargs : nat; sy_comm : bool; sy_boolop : bool;
                 sy_flex : bool; sy_times : bool; sy_const : bool }

type node = { n_sym : nat; n_args : nat list }

type key = nat * nat list

(** val key_eq_dec : key -> key -> bool **)

let key_eq_dec a b =
  let (a0, b0) = a in
  let (a1, b1) = b in
  if Nat.eq_dec a0 a1 then list_eq_dec Nat.eq_dec b0 b1 else false

(** val key_eqb : key -> key -> bool **)

let key_eqb a b =
  if key_eq_dec a b then true else false

type skey = char list * nat

(** val skey_eq_dec : skey -> skey -> bool **)

let skey_eq_dec a b =
  let (a0, b0) = a in
  let (a1, b1) = b in if string_dec a0 a1 then Nat.eq_dec b0 b1 else false

(** val skey_eqb : skey -> skey -> bool **)

let skey_eqb a b =
  if skey_eq_dec a b then true else false

(** val assoc :
    ('a1 -> 'a1 -> bool) -> 'a1 -> ('a1 * 'a2) list -> 'a2 option **)

let rec assoc eqb0 k = function
| [] -> None
| p :: r -> let (k', v) = p in if eqb0 k k' then Some v else assoc eqb0 k r

type store = { syms : syminfo list; symtab : (skey * nat) list;
               nodes : node list; cmap : (nat * nat) list;
               bmap : (key * nat) list; xmap : (key * nat) list;
               dcount : nat; dmax : nat }

(** val empty_store : nat -> store **)

let empty_store dm =
  { syms = []; symtab = []; nodes = []; cmap = []; bmap = []; xmap = [];
    dcount = O; dmax = dm }

(** val sym_flag : (syminfo -> bool) -> store -> nat -> bool **)

let sym_flag p s f =
  match nth_error s.syms f with
  | Some si -> p si
  | None -> false

(** val boolop : store -> nat -> bool **)

let boolop s f =
  sym_flag (fun s0 -> s0.sy_boolop) s f

(** val comm : store -> nat -> bool **)

let comm s f =
  sym_flag (fun s0 -> s0.sy_comm) s f

type sortmode =
| SortCore
| SortDeep
| SortDeepTie

(** val is_const_term : store -> nat -> bool **)

let is_const_term s a =
  match nth_error s.nodes a with
  | Some n0 -> sym_flag (fun s0 -> s0.sy_const) s n0.n_sym
  | None -> false

(** val deep_key : store -> nat -> nat **)

let deep_key s a =
  match nth_error s.nodes a with
  | Some n0 ->
    let { n_sym = f; n_args = n_args0 } = n0 in
    (match n_args0 with
     | [] -> a
     | u :: l ->
       (match l with
        | [] -> a
        | v :: l0 ->
          (match l0 with
           | [] ->
             if sym_flag (fun s0 -> s0.sy_times) s f
             then if is_const_term s u then v else u
             else a
           | _ :: _ -> a)))
  | None -> a

(** val term_lt : sortmode -> store -> nat -> nat -> bool **)

let term_lt m s a b =
  match m with
  | SortCore -> Nat.ltb a b
  | SortDeep -> Nat.ltb (deep_key s a) (deep_key s b)
  | SortDeepTie ->
    (||) (Nat.ltb (deep_key s a) (deep_key s b))
      ((&&) (Nat.eqb (deep_key s a) (deep_key s b)) (Nat.ltb a b))

(** val argmin : (nat -> nat -> bool) -> nat -> nat list -> nat option **)

let rec argmin lt bv = function
| [] -> None
| y :: l' ->
  if lt y bv
  then Some (match argmin lt y l' with
             | Some k -> S k
             | None -> O)
  else option_map (fun x -> S x) (argmin lt bv l')

(** val replace_nth : nat -> nat -> nat list -> nat list **)

let rec replace_nth k x = function
| [] -> []
| y :: r -> (match k with
             | O -> x :: r
             | S k' -> y :: (replace_nth k' x r))

(** val ssort_f : (nat -> nat -> bool) -> nat -> nat list -> nat list **)

let rec ssort_f lt fuel l =
  match fuel with
  | O -> l
  | S fuel' ->
    (match l with
     | [] -> l
     | x :: r ->
       (match argmin lt x r with
        | Some k -> (nth k r x) :: (ssort_f lt fuel' (replace_nth k x r))
        | None -> x :: (ssort_f lt fuel' r)))

(** val ssort : (nat -> nat -> bool) -> nat list -> nat list **)

let ssort lt l =
  ssort_f lt (length l) l

(** val tsort : sortmode -> store -> nat list -> nat list **)

let tsort m s l =
  ssort (term_lt m s) l

type result =
| RSym of nat
| RTerm of nat
| RSimp
| RExc

(** val valid_args : store -> nat list -> bool **)

let valid_args s args =
  forallb (fun a -> Nat.ltb a (length s.nodes)) args

(** val declare : store -> char list -> nat -> syminfo -> store * nat **)

let declare s name sig0 info =
  match assoc skey_eqb (name, sig0) s.symtab with
  | Some f -> (s, f)
  | None ->
    let f = length s.syms in
    ({ syms = (app s.syms (info :: [])); symtab = (((name, sig0),
    f) :: s.symtab); nodes = s.nodes; cmap = s.cmap; bmap = s.bmap; xmap =
    s.xmap; dcount = s.dcount; dmax = s.dmax }, f)

type table =
| TC
| TB
| TX

(** val new_term : store -> table -> nat -> nat list -> store * nat **)

let new_term s t f args =
  let id = length s.nodes in
  ({ syms = s.syms; symtab = s.symtab; nodes =
  (app s.nodes ({ n_sym = f; n_args = args } :: [])); cmap =
  (match t with
   | TC -> (f, id) :: s.cmap
   | _ -> s.cmap); bmap =
  (match t with
   | TB -> ((f, args), id) :: s.bmap
   | _ -> s.bmap); xmap =
  (match t with
   | TX -> ((f, args), id) :: s.xmap
   | _ -> s.xmap); dcount = s.dcount; dmax = s.dmax }, id)

(** val mkFun : sortmode -> store -> nat -> nat list -> store * result **)

let mkFun m s f args =
  match nth_error s.syms f with
  | Some si ->
    if negb (valid_args s args)
    then (s, RExc)
    else (match args with
          | [] ->
            (match assoc Nat.eqb f s.cmap with
             | Some id -> (s, (RTerm id))
             | None -> let (s', id) = new_term s TC f [] in (s', (RTerm id)))
          | _ :: _ ->
            if negb si.sy_boolop
            then if (&&) (negb si.sy_flex)
                      (negb (Nat.eqb si.sy_nargs (length args)))
                 then (s, RExc)
                 else let a = if si.sy_comm then tsort m s args else args in
                      (match assoc key_eqb (f, a) s.xmap with
                       | Some id -> (s, (RTerm id))
                       | None ->
                         let (s', id) = new_term s TX f a in (s', (RTerm id)))
            else (match assoc key_eqb (f, args) s.bmap with
                  | Some id -> (s, (RTerm id))
                  | None ->
                    let (s', id) = new_term s TB f args in (s', (RTerm id))))
  | None -> (s, RExc)

(** val has_adj_dup : nat list -> bool **)

let rec has_adj_dup = function
| [] -> false
| a :: r ->
  (match r with
   | [] -> false
   | b :: _ -> (||) (Nat.eqb a b) (has_adj_dup r))

(** val mkDistinct :
    sortmode -> store -> nat -> nat list -> store * result **)

let mkDistinct m s f args =
  match nth_error s.syms f with
  | Some si ->
    if (||) (negb (valid_args s args)) (Nat.ltb (length args) (S (S (S O))))
    then (s, RExc)
    else if si.sy_boolop
         then (s, RSimp)
         else let a = tsort m s args in
              if has_adj_dup a
              then (s, RSimp)
              else if forallb (is_const_term s) a
                   then (s, RSimp)
                   else (match assoc key_eqb (f, a) s.xmap with
                         | Some id -> (s, (RTerm id))
                         | None ->
                           if Nat.ltb s.dcount s.dmax
                           then let (s', id) = new_term s TX f a in
                                ({ syms = s'.syms; symtab = s'.symtab;
                                nodes = s'.nodes; cmap = s'.cmap; bmap =
                                s'.bmap; xmap = s'.xmap; dcount = (S
                                s'.dcount); dmax = s'.dmax }, (RTerm id))
                           else (s, RSimp))
  | None -> (s, RExc)

type op =
| OpDeclare of char list * nat * syminfo
| OpMkVar of char list * nat * syminfo
| OpMkFun of nat * nat list
| OpMkDistinct of nat * nat list

(** val step : sortmode -> store -> op -> store * result **)

let step m s = function
| OpDeclare (name, sig0, info) ->
  let (s', f) = declare s name sig0 info in (s', (RSym f))
| OpMkVar (name, sig0, info) ->
  let (s', f) = declare s name sig0 info in mkFun m s' f []
| OpMkFun (f, args) -> mkFun m s f args
| OpMkDistinct (f, args) -> mkDistinct m s f args

type tree =
| T of nat * tree list

(** val tree_of : nat -> store -> nat -> tree option **)

let rec tree_of fuel s i =
  match fuel with
  | O -> None
  | S fuel' ->
    (match nth_error s.nodes i with
     | Some n0 ->
       let { n_sym = f; n_args = args } = n0 in
       let go =
         let rec go = function
         | [] -> Some []
         | a :: r ->
           (match tree_of fuel' s a with
            | Some t ->
              (match go r with
               | Some ts -> Some (t :: ts)
               | None -> None)
            | None -> None)
         in go
       in
       (match go args with
        | Some ts -> Some (T (f, ts))
        | None -> None)
     | None -> None)

(** val sorted_b : (nat -> nat -> bool) -> nat list -> bool **)

let rec sorted_b lt = function
| [] -> true
| a :: r -> (&&) (forallb (fun b -> negb (lt b a)) r) (sorted_b lt r)

(** val dup_free : node list -> bool **)

let rec dup_free = function
| [] -> true
| n0 :: r ->
  (&&)
    (negb
      (existsb (fun n' ->
        key_eqb (n0.n_sym, n0.n_args) (n'.n_sym, n'.n_args)) r)) (dup_free r)

(** val nodes_ok : sortmode -> store -> nat -> node list -> bool **)

let rec nodes_ok m s i = function
| [] -> true
| n0 :: r ->
  (&&)
    ((&&)
      ((&&) (Nat.ltb n0.n_sym (length s.syms))
        (forallb (fun a -> Nat.ltb a i) n0.n_args))
      (if (&&) (comm s n0.n_sym) (negb (boolop s n0.n_sym))
       then sorted_b (term_lt m s) n0.n_args
       else true)) (nodes_ok m s (S i) r)

(** val dump_store : syminfo list -> node list -> store **)

let dump_store sy ns =
  { syms = sy; symtab = []; nodes = ns; cmap = []; bmap = []; xmap = [];
    dcount = O; dmax = O }

(** val hc_check : sortmode -> syminfo list -> node list -> bool **)

let hc_check m sy ns =
  let s = dump_store sy ns in (&&) (dup_free ns) (nodes_ok m s O ns)

(** val digit_val : char -> nat option **)

let digit_val c =
  let n0 = nat_of_ascii c in
  if (&&)
       (Nat.leb (S (S (S (S (S (S (S (S (S (S (S (S (S (S (S (S (S (S (S (S
         (S (S (S (S (S (S (S (S (S (S (S (S (S (S (S (S (S (S (S (S (S (S (S
         (S (S (S (S (S O)))))))))))))))))))))))))))))))))))))))))))))))) n0)
       (Nat.leb n0 (S (S (S (S (S (S (S (S (S (S (S (S (S (S (S (S (S (S (S
         (S (S (S (S (S (S (S (S (S (S (S (S (S (S (S (S (S (S (S (S (S (S (S
         (S (S (S (S (S (S (S (S (S (S (S (S (S (S (S
         O))))))))))))))))))))))))))))))))))))))))))))))))))))))))))
  then Some
         (sub n0 (S (S (S (S (S (S (S (S (S (S (S (S (S (S (S (S (S (S (S (S
           (S (S (S (S (S (S (S (S (S (S (S (S (S (S (S (S (S (S (S (S (S (S
           (S (S (S (S (S (S
           O)))))))))))))))))))))))))))))))))))))))))))))))))
  else None

(** val digits_val : nat -> char list -> nat option **)

let rec digits_val acc = function
| [] -> Some acc
| c::r ->
  (match digit_val c with
   | Some d ->
     digits_val (add (mul (S (S (S (S (S (S (S (S (S (S O)))))))))) acc) d) r
   | None -> None)

(** val numeral_value : char list -> (bool * nat) option **)

let numeral_value s = match s with
| [] -> None
| a::r ->
  (* If this appears, you're using Ascii internals. Please don't *)
 (fun f c ->
  let n = Char.code c in
  let h i = (n land (1 lsl i)) <> 0 in
  f (h 0) (h 1) (h 2) (h 3) (h 4) (h 5) (h 6) (h 7))
    (fun b b0 b1 b2 b3 b4 b5 b6 ->
    if b
    then if b0
         then (match digits_val O s with
               | Some n0 -> Some (false, n0)
               | None -> None)
         else if b1
              then if b2
                   then if b3
                        then (match digits_val O s with
                              | Some n0 -> Some (false, n0)
                              | None -> None)
                        else if b4
                             then if b5
                                  then (match digits_val O s with
                                        | Some n0 -> Some (false, n0)
                                        | None -> None)
                                  else if b6
                                       then (match digits_val O s with
                                             | Some n0 -> Some (false, n0)
                                             | None -> None)
                                       else (match r with
                                             | [] -> None
                                             | _::_ ->
                                               (match digits_val O r with
                                                | Some n0 ->
                                                  (match n0 with
                                                   | O -> Some (false, O)
                                                   | S _ -> Some (true, n0))
                                                | None -> None))
                             else (match digits_val O s with
                                   | Some n0 -> Some (false, n0)
                                   | None -> None)
                   else (match digits_val O s with
                         | Some n0 -> Some (false, n0)
                         | None -> None)
              else (match digits_val O s with
                    | Some n0 -> Some (false, n0)
                    | None -> None)
    else (match digits_val O s with
          | Some n0 -> Some (false, n0)
          | None -> None))
    a
