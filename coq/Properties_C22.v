(* C22 — theory solver verdicts depend only on the asserted literals.
   Theorems only; models and proofs are in Th/TSolverSpec.v and Th/BoundStack.v.
   PARTIAL: proved for the specification machine, THandler's backtrack-point counting and the bound
   stack of the LA solver (LRAModel + Simplex::assertBound); the Simplex tableau/basis, the Egraph undo
   stack, the array solver and the difference-logic edge set are validated per run by checks/C22.py. *)
From Coq Require Import Arith List Bool QArith.
From OsmtV.Th Require Import BoundStack TSolverSpec.
Import ListNotations.
Local Open Scope nat_scope.

(* Two histories that end with the same stack of asserted literals allow exactly the same verdicts
   (and explanations): the specification's verdict depends on the current literals only. *)
Theorem tsolver_spec_history_independent :
  forall (atom : Type) (t_sat : list (lit atom) -> Prop) (complete_theory : bool) (ops1 ops2 : list (op atom)),
  current_lits atom ops1 = current_lits atom ops2 ->
  forall c v e, verdict_ok atom t_sat complete_theory (run atom ops1) c v e <->
                verdict_ok atom t_sat complete_theory (run atom ops2) c v e.
Proof. exact tsolver_spec_history_independent_lemma. Qed.
Print Assumptions tsolver_spec_history_independent.

Example spec_history_nonvacuous :
  current_lits nat [Declare nat 1; Assert nat (1, true); Assert nat (2, false); Backtrack nat 1; Check nat true; Assert nat (3, true)]
  = current_lits nat [Assert nat (1, true); Assert nat (3, true)].
Proof. reflexivity. Qed.

(* An UNSAT verdict whose explanation contains a literal that is not asserted any more is never allowed. *)
Theorem stale_literal_rejected :
  forall (atom : Type) (t_sat : list (lit atom) -> Prop) (complete_theory : bool) (ops : list (op atom)) c e l,
  In l e -> ~ In l (current_lits atom ops) -> ~ verdict_ok atom t_sat complete_theory (run atom ops) c VUnsat e.
Proof. exact stale_literal_rejected_lemma. Qed.
Print Assumptions stale_literal_rejected.

(* LRAModel: popBacktrackPoint undoes pushBacktrackPoint and every pushBound after it (per-variable
   lower/upper bound lists, bound_trace and bound_limits are all restored). *)
Theorem boundstack_undo : forall s bs, bs_eq (popBacktrackPoint (push_bounds (pushBacktrackPoint s) bs)) s.
Proof. exact boundstack_undo_lemma. Qed.
Print Assumptions boundstack_undo.

(* ... lifted to every sequence of marks, pushes and pops that never pops more than it marked: the state
   is the one obtained by pushing the frames that are still open, oldest first. *)
Theorem boundstack_frames : forall ops s0, well_bracketed ops = true ->
  bs_eq (mexec ops s0) (rebuild (frames_of ops) s0).
Proof. exact boundstack_frames_lemma. Qed.
Print Assumptions boundstack_frames.

Example boundstack_frames_nonvacuous :
  let b1 := mkB 1 0 true in let b2 := mkB 2 0 false in let b3 := mkB 3 1 true in
  let ops := [MMark; MPush b1; MMark; MPush b2; MPush b3; MPop; MMark; MPush b3] in
  well_bracketed ops = true /\ frames_of ops = [[b3]; [b1]; []] /\
  cur_bound (mexec ops bs_init) 0 false = None /\ cur_bound (mexec ops bs_init) 1 true = Some b3.
Proof. repeat split. Qed.

(* The LA solver driven as THandler drives it (assert = backtrack point + Simplex::assertBound, backtrack n
   = n popBacktrackPoints): after ANY such history the bound stack equals the one obtained by asserting
   the current literal stack on a fresh state; two histories with the same current literal stack have the
   same active lower and upper bound for every variable. *)
Theorem boundstack_current_stack : forall st ops s0, lwf_from 0 ops = true ->
  bs_eq (lexec st ops s0) (replay st (rev (lstack ops)) s0).
Proof. exact boundstack_current_stack_lemma. Qed.
Print Assumptions boundstack_current_stack.

Theorem boundstack_history_independent : forall st ops1 ops2 s0,
  lwf_from 0 ops1 = true -> lwf_from 0 ops2 = true -> lstack ops1 = lstack ops2 ->
  bs_eq (lexec st ops1 s0) (lexec st ops2 s0) /\
  (forall v u, cur_bound (lexec st ops1 s0) v u = cur_bound (lexec st ops2 s0) v u).
Proof. exact boundstack_history_independent_lemma. Qed.
Print Assumptions boundstack_history_independent.

Example boundstack_history_nonvacuous :
  let b1 := mkB 1 0 true in let b2 := mkB 2 0 true in let b3 := mkB 3 0 false in
  let st : bstore := fun i => (i, (inject_Z (Z.of_nat i), 0%Q)) in
  let ops1 := [LAssert b2; LAssert b3; LBack 2; LAssert b1; LAssert b2] in
  let ops2 := [LAssert b1; LAssert b2] in
  lwf_from 0 ops1 = true /\ lstack ops1 = lstack ops2 /\
  cur_bound (lexec st ops1 bs_init) 0 true = Some b1 /\ trace (lexec st ops1 bs_init) = [b1].
Proof. repeat split. Qed.

(* The concrete component refines the specification: the bound stack is a function of the
   specification machine's current literal stack. *)
Theorem boundstack_refines_spec : forall st ops1 ops2,
  lwf_from 0 ops1 = true -> lwf_from 0 ops2 = true ->
  current_lits bound (map lop_to_op ops1) = current_lits bound (map lop_to_op ops2) ->
  bs_eq (lexec st ops1 bs_init) (lexec st ops2 bs_init).
Proof. exact boundstack_refines_spec_lemma. Qed.
Print Assumptions boundstack_refines_spec.

(* THandler::backtrack(lev) pops exactly as many backtrack points as there are counted (declared, not
   true/false) literals above lev: the theory solvers keep one point per counted literal that remains. *)
Theorem thandler_backtrack_count : forall (term : Type) (counted : term -> bool) (st : list term) (lev : nat),
  tpoints term counted st - backtrack_count term counted st lev = tpoints term counted (after_backtrack term st lev) /\
  skipn (backtrack_count term counted st lev) (filter counted st) = filter counted (after_backtrack term st lev) /\
  length (after_backtrack term st lev) = Nat.min lev (length st).
Proof. exact thandler_backtrack_count_lemma. Qed.
Print Assumptions thandler_backtrack_count.

Example thandler_backtrack_count_nonvacuous :
  backtrack_count nat Nat.even [4; 3; 2; 1; 0] 2 = 2 /\ after_backtrack nat [4; 3; 2; 1; 0] 2 = [1; 0].
Proof. split; reflexivity. Qed.
