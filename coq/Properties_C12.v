(* C12 — every clause the SAT engine learns or derives is implied by the clauses known at that moment and
   can be confirmed by reverse unit propagation.  Theorems only; definitions and proofs are in Sat/*.v.

   The property quantifies over all runs of the C++ solver; what is proved here, for ALL inputs:
     (1) the RUP checker used per run is sound (rup_sound, rup_chain_sound) and the decision procedure used by
         the failing-input search is sound, complete and always decides (the dpll and countermodel theorems);
     (2) the clause-producing algorithms, modelled from the C++ (Sat/Analyze.v, Sat/Satelite.v), yield implied
         clauses: first-UIP analysis with litRedundant minimisation (analyze_implied, analyze_asserting,
         analyze_total and the nomin variants = behaviour under proof logging), SatELite resolvents
         (elim_resolvents_sound), self-subsuming resolution (strengthen_sound), asymmetric branching (asymm_sound).
   That the C++ follows the models is established per run by trace refinement (checks/C12.py): partial. *)
From Coq Require Import ZArith List Bool.
From OsmtV.Sat Require Import PropLogic RupCheck Dpll Analyze Satelite.
Import ListNotations.
Local Open Scope Z_scope.

(* (1) the per-run checker *)
Theorem rup_sound : forall (F : cnf) (C : clause), rup F C = true -> entails F C.
Proof. exact RupCheck.rup_sound. Qed.
Print Assumptions rup_sound.

(* a database that only grows: everything accepted is entailed by the clauses it started from *)
Theorem rup_chain_sound : forall (Cs : list clause) (F : cnf),
  rup_chain F Cs = true -> forall C, In C Cs -> entails F C.
Proof. exact RupCheck.rup_chain_sound. Qed.
Print Assumptions rup_chain_sound.

Theorem dpll_sound : forall (F : cnf) (m : pmap), dpll F = DSat m -> models (total_of m) F.
Proof. exact Dpll.dpll_sound. Qed.
Print Assumptions dpll_sound.

Theorem dpll_complete : forall F : cnf, dpll F = DUnsat -> unsat F.
Proof. exact Dpll.dpll_complete. Qed.
Print Assumptions dpll_complete.

Theorem dpll_decides : forall F : cnf, dpll F <> DUnknown.
Proof. exact Dpll.dpll_decides. Qed.
Print Assumptions dpll_decides.

(* a countermodel found by the search certifies that the clause is NOT implied *)
Theorem countermodel_not_entailed : forall (F : cnf) (C : clause) (m : pmap),
  countermodel F C = DSat m -> models (total_of m) F /\ clause_true (total_of m) C = false /\ ~ entails F C.
Proof.
  intros F C m H. destruct (Dpll.countermodel_sat F C m H) as [H1 H2].
  exact (conj H1 (conj H2 (Dpll.countermodel_not_entailed F C m H))).
Qed.
Print Assumptions countermodel_not_entailed.

Theorem countermodel_unsat : forall (F : cnf) (C : clause),
  (forall l, In l C -> l <> 0) -> countermodel F C = DUnsat -> entails F C.
Proof. exact Dpll.countermodel_unsat. Qed.
Print Assumptions countermodel_unsat.

(* (2) conflict analysis: CoreSMTSolver::analyze + litRedundant (ccmin_mode 2), over every well-formed trail *)
Theorem analyze_implied : forall (tr : trail) (dl : nat) (c learnt : clause) (bt : nat),
  trail_wf tr -> falsified c tr -> analyze tr dl c = Some (learnt, bt) ->
  entails (reasons tr ++ [c]) learnt.
Proof. exact Analyze.analyze_implied. Qed.
Print Assumptions analyze_implied.

Theorem analyze_asserting : forall (tr : trail) (dl : nat) (c learnt : clause) (bt : nat),
  trail_wf tr -> falsified c tr -> (forall e, In e tr -> (te_level e <= dl)%nat) ->
  (0 < dl)%nat -> (exists q, In q c /\ (dl <= level_of tr (lvar q))%nat) ->
  analyze tr dl c = Some (learnt, bt) ->
  exists l rest, learnt = l :: rest /\
    level_of tr (lvar l) = dl /\
    (forall q, In q rest -> (0 < level_of tr (lvar q) < dl)%nat /\ (level_of tr (lvar q) <= bt)%nat) /\
    (rest = [] -> bt = O) /\
    (rest <> [] -> exists q, In q rest /\ level_of tr (lvar q) = bt) /\
    falsified learnt tr.
Proof. exact Analyze.analyze_asserting. Qed.
Print Assumptions analyze_asserting.

Theorem analyze_total : forall (tr : trail) (dl : nat) (c : clause),
  trail_wf tr -> falsified c tr -> (forall e, In e tr -> (te_level e <= dl)%nat) ->
  decisions_open_levels tr -> (0 < dl)%nat -> (exists q, In q c /\ (dl <= level_of tr (lvar q))%nat) ->
  analyze tr dl c <> None.
Proof. exact Analyze.analyze_total. Qed.
Print Assumptions analyze_total.

(* the same without minimisation (= the C++ when resolution proofs are logged) *)
Theorem analyze_nomin_implied : forall (tr : trail) (dl : nat) (c learnt : clause) (bt : nat),
  trail_wf tr -> falsified c tr -> analyze_nomin tr dl c = Some (learnt, bt) ->
  entails (reasons tr ++ [c]) learnt.
Proof. exact Analyze.analyze_nomin_implied. Qed.
Print Assumptions analyze_nomin_implied.

Theorem analyze_nomin_asserting : forall (tr : trail) (dl : nat) (c learnt : clause) (bt : nat),
  trail_wf tr -> falsified c tr -> (forall e, In e tr -> (te_level e <= dl)%nat) ->
  (0 < dl)%nat -> (exists q, In q c /\ (dl <= level_of tr (lvar q))%nat) ->
  analyze_nomin tr dl c = Some (learnt, bt) -> asserting tr dl learnt bt.
Proof. exact Analyze.analyze_nomin_asserting. Qed.
Print Assumptions analyze_nomin_asserting.

(* SatELite: variable elimination adds resolvents on v of clauses of F (SimpSMTSolver::eliminateVar / merge) *)
Theorem elim_resolvents_sound : forall (F : cnf) (v : positive) (r : clause),
  (forall c, In c F -> one_per_var c) -> In r (elim_resolvents F v) -> entails F r.
Proof. exact Satelite.elim_resolvents_sound. Qed.
Print Assumptions elim_resolvents_sound.

(* self-subsuming resolution (Clause::subsumes + strengthenClause from backwardSubsumptionCheck) *)
Theorem strengthen_sound : forall (a : assignment) (c d r : clause), notaut c ->
  strengthen c d = Some r -> clause_true a c = true -> clause_true a d = true -> clause_true a r = true.
Proof. exact Satelite.strengthen_sound. Qed.
Print Assumptions strengthen_sound.

Theorem strengthen_entailed : forall (F : cnf) (c d r : clause),
  notaut c -> In c F -> In d F -> strengthen c d = Some r -> entails F r.
Proof. exact Satelite.strengthen_entailed. Qed.
Print Assumptions strengthen_entailed.

(* asymmetric branching (SimpSMTSolver::asymm): the strengthened clause is RUP, hence implied *)
Theorem asymm_sound : forall (F : cnf) (v : positive) (c r : clause), asymm F v c = Some r -> entails F r.
Proof. exact Satelite.asymm_sound. Qed.
Print Assumptions asymm_sound.

(* non-vacuity *)
Example c12_rup_example : rup [[1; 2]; [-1; 3]; [-2; 3]; [-3; 4]] [4] = true /\ rup [[1; 2]; [-1; 3]] [3] = false.
Proof. exact RupCheck.rup_example. Qed.
Example c12_countermodel_example :
  match countermodel [[1; 2]; [-1; 3]] [3] with DSat m => cnf_true (total_of m) [[1; 2]; [-1; 3]] && negb (clause_true (total_of m) [3]) | _ => false end = true
  /\ countermodel [[1; 2]; [-1; 3]; [-2; 3]] [3] = DUnsat.
Proof. split; vm_compute; reflexivity. Qed.
Example c12_analyze_example :
  trail_wf ex_trail /\ falsified ex_confl ex_trail /\ analyze ex_trail 3 ex_confl = Some ([-7; -5; -2], 2%nat)
  /\ analyze_nomin ex_trail 3 ex_confl = Some ([-7; -5; -2; -3], 2%nat).
Proof. exact (conj ex_wf (conj ex_falsified (conj ex_analyze ex_analyze_nomin))). Qed.
Example c12_satelite_example :
  elim_resolvents [[1; 2; 3]; [-1; 2; 4]; [-1; -2]; [1; 5]] 1%positive = [[4; 2; 3]; [5; 2; 4]; [-2; 5]]
  /\ strengthen [1; 2] [-1; 2; 3] = Some [2; 3] /\ asymm [[1; 2]; [-2; 1]] 2%positive [1; 2] = Some [1].
Proof. repeat split; vm_compute; reflexivity. Qed.
