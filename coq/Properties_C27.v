(* C27 — integer rounding is exact.  Theorems only; proofs are in IntArith/*.v *)
From Coq Require Import ZArith QArith.
From OsmtV.IntArith Require Import DivModModel DivModProofs.
Local Open Scope Z_scope.

(* Constant folding of div and mod agrees with SMT-LIB Euclidean semantics, for all integers and
   either divisor sign. *)
Theorem fold_divmod_smtlib : forall n d, d <> 0 ->
  fold_div n d = Some (smt_div n d) /\ fold_mod n d = Some (smt_mod n d).
Proof. intros n d Hd; split; [exact (fold_div_smtlib n d Hd) | exact (fold_mod_smtlib n d Hd)]. Qed.
Print Assumptions fold_divmod_smtlib.

(* smt_div / smt_mod are *the* SMT-LIB functions: existence and uniqueness of Euclidean division. *)
Theorem divmod_axioms_characterise : forall n d q r, d <> 0 ->
  (n = d * q + r /\ 0 <= r <= Z.abs d - 1) <-> (q = smt_div n d /\ r = smt_mod n d).
Proof.
  intros n d q r Hd; split.
  - intros [H1 H2]. apply smt_divmod_unique; [exact Hd | exact H1 | Lia.lia].
  - intros [-> ->]. destruct (smt_divmod_spec n d Hd). split; [assumption | Lia.lia].
Qed.
Print Assumptions divmod_axioms_characterise.

Example fold_nonvacuous : fold_div (-7) (-2) = Some 4 /\ fold_mod (-7) (-2) = Some 1 /\ fold_div 7 (-2) = Some (-3).
Proof. repeat split; vm_compute; reflexivity. Qed.
