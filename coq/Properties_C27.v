(* C27 — integer rounding is exact.  Theorems only; proofs are in IntArith/*.v *)
From Coq Require Import ZArith QArith List.
From OsmtV.IntArith Require Import DivModModel DivModProofs TightenModel TightenProofs
  GcdNormModel GcdNormProofs DLModel DLProofs.
Import ListNotations.
Local Open Scope Z_scope.

(* Constant folding of div and mod agrees with SMT-LIB Euclidean semantics, for all integers and
   either divisor sign. *)
Theorem fold_divmod_smtlib : forall n d, d <> 0 ->
  fold_div n d = Some (smt_div n d) /\ fold_mod n d = Some (smt_mod n d).
Proof. intros n d Hd; split; [exact (fold_div_smtlib n d Hd) | exact (fold_mod_smtlib n d Hd)]. Qed.
Print Assumptions fold_divmod_smtlib.

(* smt_div / smt_mod are *the* SMT-LIB functions: existence and uniqueness of Euclidean division. *)
Theorem divmod_axioms_characterise : forall n d q r, d <> 0 ->
  (n = d * q + r /\ 0 <= r <= Z.abs d - 1) <-> (q = smt_div n d /\ r = smt_mod n d).
Proof.
  intros n d q r Hd; split.
  - intros [H1 H2]. apply smt_divmod_unique; [exact Hd | exact H1 | Lia.lia].
  - intros [-> ->]. destruct (smt_divmod_spec n d Hd). split; [assumption | Lia.lia].
Qed.
Print Assumptions divmod_axioms_characterise.

(* The definitions DivModRewriter introduces (divmod_def, tied to the code by evaluation) hold of
   exactly one pair (q, r): the SMT-LIB quotient and remainder. *)
Theorem divmod_def_characterise : forall n d q r, d <> 0 ->
  divmod_def n d q r = true <-> (q = smt_div n d /\ r = smt_mod n d).
Proof. intros n d q r Hd. rewrite divmod_def_iff. exact (divmod_axioms_characterise n d q r Hd). Qed.
Print Assumptions divmod_def_characterise.

(* The rewriter with its cache (several div/mod applications in one formula share auxiliary variables exactly
   when dividend AND divisor coincide): whenever the introduced definitions hold, every application has been
   replaced by a variable whose value is the SMT-LIB value of that application ... *)
Theorem divmod_rewrite_sharing_sound : forall (rho : nat -> Z) (sigma : nat -> Z * Z) (apps : list dm_app) defs vs,
  Forall (fun a => snd (app_key a) <> 0) apps -> rw_apps [] apps = (defs, vs) -> defs_hold rho sigma defs ->
  Forall2 (fun a v => aux_val sigma v = app_val rho a) apps vs.
Proof. exact rw_apps_sound. Qed.
Print Assumptions divmod_rewrite_sharing_sound.

(* ... and the definitions can always be satisfied (Euclidean quotient and remainder per pair): the
   elimination is a conservative extension. *)
Theorem divmod_rewrite_conservative : forall (rho : nat -> Z) (apps : list dm_app) defs vs,
  Forall (fun a => snd (app_key a) <> 0) apps -> rw_apps [] apps = (defs, vs) ->
  defs_hold rho (canon_sigma rho defs) defs.
Proof. exact rw_apps_canon. Qed.
Print Assumptions divmod_rewrite_conservative.

(* Bound tightening, LASolver::getBoundsValueForIntVar: for every integer v and rational c. *)
Theorem tighten_strict : forall (v : Z) (c : Q),
  ((inject_Z v < c)%Q <-> v <= bp_upper (bounds_int c true)) /\
  (~ (inject_Z v < c)%Q <-> bp_lower (bounds_int c true) <= v).
Proof. intros v c; split; [exact (tighten_strict_ub v c) | exact (tighten_strict_lb v c)]. Qed.
Print Assumptions tighten_strict.

Theorem tighten_nonstrict : forall (v : Z) (c : Q),
  ((inject_Z v <= c)%Q <-> v <= bp_upper (bounds_int c false)) /\
  (~ (inject_Z v <= c)%Q <-> bp_lower (bounds_int c false) <= v).
Proof. intros v c; split; [exact (tighten_nonstrict_ub v c) | exact (tighten_nonstrict_lb v c)]. Qed.
Print Assumptions tighten_nonstrict.

(* LASolver::addBound: the bound asserted for the atom (c <= v resp. c <= -v) being true holds exactly
   when the atom holds, the bound asserted for it being false exactly when it does not. *)
Theorem tighten_addbound : forall (c : Q) (negated : bool) (v : Z),
  (atom_holds c negated v <-> bound_holds (fst (add_bound c negated)) v) /\
  (~ atom_holds c negated v <-> bound_holds (snd (add_bound c negated)) v).
Proof. intros c n v; split; [exact (add_bound_pos c n v) | exact (add_bound_neg c n v)]. Qed.
Print Assumptions tighten_addbound.

(* lcm/gcd normalisation of an integer inequality  0 <= a1 x1 + ... + an xn + c  (rational ai <> 0,
   rational c): for every integer assignment the normalised atom  k <= a1' x1 + ... + an' xn  is
   equivalent, and its coefficients are integers. *)
Theorem gcd_norm_equiv : forall (cs : list Q) (c : Q) (xs : list Z),
  cs <> [] -> Forall (fun a => ~ (a == 0)%Q) cs ->
  let (k, cs') := norm_ineq cs c in
  ((0 <= eval cs xs + c)%Q <-> (inject_Z k <= eval cs' xs)%Q) /\
  Forall (fun a => q_is_int a = true) cs'.
Proof. exact gcd_norm_ineq_equiv. Qed.
Print Assumptions gcd_norm_equiv.

(* the same for equalities; a non-integral constant after normalisation gives `false`, rightly *)
Theorem eq_norm_equiv : forall (flip : bool) (cs : list Q) (c : Q) (xs : list Z),
  cs <> [] -> Forall (fun a => ~ (a == 0)%Q) cs ->
  match norm_eq flip cs c with
  | Some (l, cs') => ((0 == eval cs xs + c)%Q <-> (l == eval cs' xs)%Q) /\ Forall (fun a => q_is_int a = true) cs'
  | None => ~ (0 == eval cs xs + c)%Q
  end.
Proof. exact gcd_norm_eq_equiv. Qed.
Print Assumptions eq_norm_equiv.

Theorem eq_norm_nonintegral_false : forall (flip : bool) (cs : list Q) (c : Q),
  cs <> [] -> Forall (fun a => ~ (a == 0)%Q) cs -> norm_eq flip cs c = None ->
  forall xs : list Z, ~ (0 == eval cs xs + c)%Q.
Proof.
  intros flip cs c Hne Hnz Hn xs. pose proof (gcd_norm_eq_equiv flip cs c xs Hne Hnz) as H.
  rewrite Hn in H. exact H.
Qed.
Print Assumptions eq_norm_nonintegral_false.

Theorem single_factor_leq_equiv : forall (a : Q) (x : Z),
  (0 <= a * inject_Z x)%Q <-> 0 <= norm_single_leq a * x.
Proof. exact norm_single_leq_equiv. Qed.
Print Assumptions single_factor_leq_equiv.

(* Negation of an integer difference constraint, Converter<SafeInt>::negate, with the machine guard
   explicit: every in-range constant except PTRDIFF_MAX (where val+1 is signed overflow). *)
Theorem dl_negate_int : forall x y c : Z, in_range c = true -> c <> PMAX ->
  exists c', dl_negate c = Some c' /\ in_range c' = true /\ (~ (x - y <= c) <-> y - x <= c').
Proof. exact DLProofs.dl_negate_int. Qed.
Print Assumptions dl_negate_int.

(* SafeInt checked addition / subtraction: exact when they return, and they throw exactly when the
   exact result does not fit. *)
Theorem safeint_add_exact : forall a b, in_range a = true -> in_range b = true ->
  match safe_add a b with Some r => r = a + b /\ in_range r = true | None => in_range (a + b) = false end.
Proof. exact safe_add_spec. Qed.
Print Assumptions safeint_add_exact.

Theorem safeint_sub_exact : forall a b, in_range a = true -> in_range b = true ->
  match safe_sub a b with Some r => r = a - b /\ in_range r = true | None => in_range (a - b) = false end.
Proof. exact safe_sub_spec. Qed.
Print Assumptions safeint_sub_exact.

(* Converter<SafeInt>::getValue goes through double.
   Full statement (FALSE on the faithful model):  forall z, in_range z = true -> dl_conv z = Some z.
   Provable part: constants of magnitude up to 2^53. *)
Theorem dl_conv_exact_partial : forall z, Z.abs z <= 2 ^ 53 -> dl_conv z = Some z.
Proof. exact dl_conv_exact_small. Qed.
Print Assumptions dl_conv_exact_partial.

Theorem dl_conv_refuted : exists z, in_range z = true /\ exists z', dl_conv z = Some z' /\ z' <> z.
Proof. exact dl_conv_inexact. Qed.
Print Assumptions dl_conv_refuted.

(* ... and the inexact constant makes an unsatisfiable pair of difference constraints satisfiable
   (DESIGN.md §9 #4:  x - y <= 2^53,  x - y >= 2^53 + 1). *)
Theorem dl_conv_unsound_refuted : exists k1 k2 x y,
  (forall x y : Z, ~ (x - y <= k1 /\ y - x <= k2)) /\
  exists d1 d2, dl_conv k1 = Some d1 /\ dl_conv k2 = Some d2 /\ x - y <= d1 /\ y - x <= d2.
Proof. exact dl_conv_unsound. Qed.
Print Assumptions dl_conv_unsound_refuted.

(* the proposed repair (exact conversion or rejection) satisfies the full statement *)
Theorem dl_conv_fixed_exact : forall z,
  match dl_conv_fixed z with Some d => d = z /\ in_range d = true | None => in_range z = false end.
Proof. exact DLProofs.dl_conv_fixed_exact. Qed.
Print Assumptions dl_conv_fixed_exact.

(* non-vacuity: the hypotheses are satisfiable by non-trivial values *)
Example fold_nonvacuous : fold_div (-7) (-2) = Some 4 /\ fold_mod (-7) (-2) = Some 1 /\ fold_div 7 (-2) = Some (-3).
Proof. repeat split; vm_compute; reflexivity. Qed.
Example divmod_def_nonvacuous : divmod_def (-7) (-2) 4 1 = true /\ divmod_def (-7) (-2) 3 (-1) = false.
Proof. split; vm_compute; reflexivity. Qed.
Example rewrite_sharing_nonvacuous :
  rw_apps [] [(KDiv, 0%nat, 3); (KDiv, 0%nat, -3); (KMod, 0%nat, 3); (KMod, 1%nat, 3)] =
    ([(0%nat, 3); (0%nat, -3); (1%nat, 3)], [(0%nat, KDiv); (1%nat, KDiv); (0%nat, KMod); (2%nat, KMod)]) /\
  rewritten_holds (fun _ => 7) (canon_sigma (fun _ => 7) [(0%nat, 3); (0%nat, -3); (1%nat, 3)])
    [(KDiv, 0%nat, 3); (KDiv, 0%nat, -3); (KMod, 0%nat, 3); (KMod, 1%nat, 3)] = true.
Proof. split; vm_compute; reflexivity. Qed.
Example tighten_nonvacuous :
  bounds_int (7 # 2) true = {| bp_upper := 3; bp_lower := 4 |} /\
  bounds_int 4 true = {| bp_upper := 3; bp_lower := 4 |} /\
  bounds_int (-7 # 2) false = {| bp_upper := -4; bp_lower := -3 |} /\
  add_bound (7 # 2) true = (UB (-4), LB (-3)).
Proof. repeat split; vm_compute; reflexivity. Qed.
Example gcd_norm_nonvacuous :
  norm_ineq [2#1; 4#1] (1#3) = (0, [1#1; 2#1]) /\            (* 0 <= 2x+4y+1/3  ~>  0 <= x+2y *)
  norm_ineq [1#2; 1#3] 1 = (-6, [3#1; 2#1]) /\               (* 0 <= x/2+y/3+1  ~>  -6 <= 3x+2y *)
  norm_eq false [2#1] 3 = None /\                             (* 0 = 2x+3  ~>  false *)
  norm_eq true [-2#1; 6#1] (-4) = Some (-2#1, [1#1; -3#1]).  (* 0 = -2x+6y-4  ~>  -2 = x-3y *)
Proof. repeat split; vm_compute; reflexivity. Qed.
Example dl_nonvacuous :
  dl_negate 5 = Some (-6) /\ dl_negate PMAX = None /\ safe_add PMAX 1 = None /\ safe_sub PMIN 1 = None /\
  safe_add (-3) 5 = Some 2 /\ dl_conv (2 ^ 53 + 1) = Some (2 ^ 53) /\ dl_conv (2 ^ 63) = None /\
  dl_conv (- 2 ^ 63) = Some (- 2 ^ 63).
Proof. repeat split; vm_compute; reflexivity. Qed.
