From Coq Require Import List Arith Bool Lia.
From OsmtV.Stack Require Import FramesModel.
Import ListNotations.

Ltac spl := repeat match goal with |- _ /\ _ => split end.

Section Proofs.
  Variable F : Type.
  Variable sat : list F -> Prop.
  Hypothesis sat_mono : forall A B, incl A B -> sat B -> sat A.

  Variable engine : list (list F) -> eresult.
  Variable early : list (list F) -> bool.
  Hypothesis engine_sat : forall gs, engine gs = ESat -> sat (concat gs).
  Hypothesis engine_unsat : forall gs k, engine gs = EUnsat k -> k < length gs /\ ~ sat (concat (firstn (S k) gs)).
  Hypothesis early_sound : forall gs, early gs = true -> ~ sat (concat gs).

  Notation st := (st F).
  Notation frame := (frame F).

  Definition prefix_fml (fs : list frame) (i : nat) : list F := concat (map (@fml F) (firstn (S i) fs)).

  Record Inv (s : st) : Prop := {
    inv_ne : frames s <> [];
    inv_fns : fns s <= length (frames s);
    inv_nodup : NoDup (map (@fid F) (frames s));
    inv_ids : forall fr, In fr (frames s) -> fid fr < next_id s;
    inv_gids : forall p, In p (given s) -> fst p < next_id s;
    inv_given : forall i fr, i < fns s -> nth_error (frames s) i = Some fr ->
                             incl (fml fr) (given_of (given s) (fid fr));
    inv_live : forall fr, In fr (frames s) -> incl (given_of (given s) (fid fr)) (fml fr);
    inv_flag : forall i fr, nth_error (frames s) i = Some fr -> funsat fr = true -> ~ sat (prefix_fml (frames s) i)
  }.

  (* ---------- list helpers ---------- *)
  Lemma given_of_app (g1 g2 : list (nat * F)) id : given_of (g1 ++ g2) id = given_of g1 id ++ given_of g2 id.
  Proof. unfold given_of. now rewrite filter_app, map_app. Qed.

  Lemma given_of_map_same id (l : list F) : given_of (map (fun f => (id, f)) l) id = l.
  Proof.
    unfold given_of. induction l as [|a r IH]; simpl; [reflexivity|].
    rewrite Nat.eqb_refl. simpl. now rewrite IH.
  Qed.

  Lemma given_of_map_other id id' (l : list F) : id <> id' -> given_of (map (fun f => (id, f)) l) id' = [].
  Proof.
    intros H. unfold given_of. induction l as [|a r IH]; simpl; [reflexivity|].
    destruct (Nat.eqb_spec id id'); [contradiction | exact IH].
  Qed.

  Lemma given_of_none (g : list (nat * F)) id : (forall p, In p g -> fst p <> id) -> given_of g id = [].
  Proof.
    intros H. unfold given_of. induction g as [|p r IH]; simpl; [reflexivity|].
    destruct (Nat.eqb_spec (fst p) id) as [E|E]; [exfalso; apply (H p); simpl; auto|].
    apply IH. intros q Hq. apply H. simpl; auto.
  Qed.

  Lemma snoc_cases {A} (l : list A) : l = [] \/ exists l' a, l = l' ++ [a].
  Proof. destruct (rev l) as [|a r] eqn:E.
    - left. apply (f_equal (@rev A)) in E. now rewrite rev_involutive in E.
    - right. exists (rev r), a. apply (f_equal (@rev A)) in E. rewrite rev_involutive in E. exact E.
  Qed.

  Lemma last_unsat_snoc (s : st) l a : frames s = l ++ [a] -> last_unsat s = funsat a.
  Proof. intros E. unfold last_unsat. now rewrite E, rev_app_distr. Qed.

  Lemma concat_incl_map (fs : list frame) (g : frame -> list F) :
    (forall fr, In fr fs -> incl (g fr) (fml fr)) -> incl (concat (map g fs)) (concat (map (@fml F) fs)).
  Proof.
    induction fs as [|a r IH]; simpl; intros H; [apply incl_refl|].
    apply incl_app; [apply incl_appl, H; simpl; auto | apply incl_appr, IH; intros; apply H; simpl; auto].
  Qed.
  Lemma concat_incl_map' (fs : list frame) (g : frame -> list F) :
    (forall fr, In fr fs -> incl (fml fr) (g fr)) -> incl (concat (map (@fml F) fs)) (concat (map g fs)).
  Proof.
    induction fs as [|a r IH]; simpl; intros H; [apply incl_refl|].
    apply incl_app; [apply incl_appl, H; simpl; auto | apply incl_appr, IH; intros; apply H; simpl; auto].
  Qed.

  Lemma firstn_In {A} n (l : list A) x : In x (firstn n l) -> In x l.
  Proof. revert l; induction n; intros [|a r]; simpl; try tauto. intros [H|H]; auto. Qed.

  Lemma prefix_incl_all (fs : list frame) i : incl (prefix_fml fs i) (concat (map (@fml F) fs)).
  Proof.
    unfold prefix_fml. rewrite <- (firstn_skipn (S i) fs) at 2. rewrite map_app, concat_app. apply incl_appl, incl_refl.
  Qed.

  Lemma prefix_mono (fs : list frame) i j : i <= j -> incl (prefix_fml fs i) (prefix_fml fs j).
  Proof.
    intros H. unfold prefix_fml. replace (S j) with (S i + (j - i)) by lia.
    revert fs. generalize (S i) as n. generalize (j - i) as d. clear.
    intros d n. induction n as [|n IH]; intros fs; simpl; [apply incl_nil_l|].
    destruct fs as [|a r]; simpl; [apply incl_refl|]. apply incl_app; [apply incl_appl, incl_refl | apply incl_appr, IH].
  Qed.

  (* ---------- mark_from ---------- *)
  Lemma mark_from_fid k (fs : list frame) : map (@fid F) (mark_from k fs) = map (@fid F) fs.
  Proof. revert k; induction fs as [|a r IH]; intros [|k]; simpl; f_equal; auto. Qed.
  Lemma mark_from_fml k (fs : list frame) : map (@fml F) (mark_from k fs) = map (@fml F) fs.
  Proof. revert k; induction fs as [|a r IH]; intros [|k]; simpl; f_equal; auto. Qed.
  Lemma mark_from_length k (fs : list frame) : length (mark_from k fs) = length fs.
  Proof. rewrite <- (map_length (@fid F)), mark_from_fid. apply map_length. Qed.

  Lemma mark_from_nth k (fs : list frame) i fr' :
    nth_error (mark_from k fs) i = Some fr' ->
    exists fr, nth_error fs i = Some fr /\ fid fr' = fid fr /\ fml fr' = fml fr /\ (funsat fr' = true -> k <= i \/ funsat fr = true).
  Proof.
    revert k i; induction fs as [|a r IH]; intros k i; [destruct k, i; simpl; discriminate|].
    destruct k as [|k], i as [|i]; simpl.
    - intros [= <-]. exists a. simpl. repeat split; auto; try (intros _; left; lia).
    - intros H. destruct (IH 0 i H) as [fr [H1 [H2 [H3 H4]]]]. exists fr. repeat split; auto; try (intros _; left; lia).
    - intros [= <-]. exists a. repeat split; auto.
    - intros H. destruct (IH k i H) as [fr [H1 [H2 [H3 H4]]]]. exists fr. repeat split; auto.
      intros Hf. destruct (H4 Hf); [left; lia | right; auto].
  Qed.

  Lemma prefix_fml_ext (fs fs' : list frame) i : map (@fml F) fs = map (@fml F) fs' -> prefix_fml fs i = prefix_fml fs' i.
  Proof. intros H. unfold prefix_fml. rewrite <- !firstn_map. now rewrite H. Qed.

  Lemma In_map_fid (fs fs' : list frame) fr : map (@fid F) fs = map (@fid F) fs' -> In fr fs -> exists fr', In fr' fs' /\ fid fr' = fid fr.
  Proof.
    intros H Hin. assert (Hi : In (fid fr) (map (@fid F) fs')) by (rewrite <- H; now apply in_map).
    apply in_map_iff in Hi as [fr' [E Hin']]. eauto.
  Qed.

  (* marking frames k.. as unsat preserves the invariant when the prefix up to k is unsatisfiable *)
  Lemma inv_mark (s : st) k :
    Inv s -> ~ sat (prefix_fml (frames s) k) ->
    Inv {| frames := mark_from k (frames s); fns := fns s; next_id := next_id s; given := given s; inserted := inserted s |}.
  Proof.
    intros I Hk. destruct I as [I1 I2 I3 I4 I5 I6 I7 I8]. constructor; simpl.
    - intros E. apply (f_equal (@length frame)) in E. rewrite mark_from_length in E. destruct (frames s); [congruence | discriminate].
    - now rewrite mark_from_length.
    - now rewrite mark_from_fid.
    - intros fr' Hin. apply In_nth_error in Hin as [i Hi]. destruct (mark_from_nth _ _ _ _ Hi) as [fr [H1 [H2 _]]].
      rewrite H2. apply I4. eapply nth_error_In; eauto.
    - exact I5.
    - intros i fr' Hi Hn. destruct (mark_from_nth _ _ _ _ Hn) as [fr [H1 [H2 [H3 _]]]]. rewrite H2, H3. eapply I6; eauto.
    - intros fr' Hin. apply In_nth_error in Hin as [i Hi]. destruct (mark_from_nth _ _ _ _ Hi) as [fr [H1 [H2 [H3 _]]]].
      rewrite H2, H3. apply I7. eapply nth_error_In; eauto.
    - intros i fr' Hn Hf. destruct (mark_from_nth _ _ _ _ Hn) as [fr [H1 [H2 [H3 H4]]]].
      rewrite (prefix_fml_ext _ (frames s)) by apply mark_from_fml.
      destruct (H4 Hf) as [Hle|Hold].
      + intros Hs. apply Hk. eapply sat_mono; [apply (prefix_mono _ k i Hle) | exact Hs].
      + eapply I8; eauto.
  Qed.

  (* ---------- init / push / pop / insert ---------- *)
  Lemma inv_init : Inv init.
  Proof.
    constructor; simpl; try lia; try discriminate.
    - constructor; [simpl; tauto | constructor].
    - intros fr [<-|[]]. simpl. lia.
    - intros fr [<-|[]]. simpl. apply incl_refl.
    - intros [|[|i]] fr; simpl; try discriminate. intros [= <-]. simpl. discriminate.
  Qed.

  Lemma nth_error_snoc {A} (l : list A) a i x :
    nth_error (l ++ [a]) i = Some x -> (i < length l /\ nth_error l i = Some x) \/ (i = length l /\ x = a).
  Proof.
    intros H. destruct (Nat.lt_ge_cases i (length l)) as [Hl|Hl].
    - left. split; [exact Hl|]. now rewrite nth_error_app1 in H.
    - right. rewrite nth_error_app2 in H by exact Hl.
      destruct (i - length l) as [|d] eqn:E; simpl in H; [injection H as <-; split; [lia | reflexivity]|].
      destruct d; discriminate.
  Qed.

  Lemma prefix_fml_snoc_lt (l : list frame) a i : i < length l -> prefix_fml (l ++ [a]) i = prefix_fml l i.
  Proof. intros H. unfold prefix_fml. rewrite firstn_app. replace (S i - length l) with 0 by lia. simpl. now rewrite app_nil_r. Qed.

  Lemma prefix_fml_last_empty (l : list frame) a :
    l <> [] -> fml a = [] -> incl (prefix_fml (l ++ [a]) (length l)) (prefix_fml l (length l - 1)).
  Proof.
    intros Hne Ha. unfold prefix_fml.
    rewrite firstn_all2 by (rewrite app_length; simpl; lia).
    rewrite firstn_all2 by (destruct l; [congruence | simpl; lia]).
    rewrite map_app, concat_app. simpl. rewrite Ha. simpl. rewrite app_nil_r. apply incl_refl.
  Qed.

  Lemma NoDup_app_snoc {A} (l : list A) a : NoDup l -> ~ In a l -> NoDup (l ++ [a]).
  Proof.
    induction l as [|x r IH]; simpl; intros Hn Hi; [constructor; [simpl; tauto | constructor]|].
    inversion Hn; subst. constructor.
    - intros Hin. apply in_app_or in Hin as [Hin|[->|[]]]; [contradiction | apply Hi; auto].
    - apply IH; [assumption | intros Hin; apply Hi; auto].
  Qed.

  Lemma inv_push (s : st) : Inv s -> Inv (push s).
  Proof.
    intros I. destruct I as [I1 I2 I3 I4 I5 I6 I7 I8].
    destruct (snoc_cases (frames s)) as [E|[l [a E]]]; [contradiction|].
    constructor; unfold push; simpl.
    - intros H. apply app_eq_nil in H as [_ H]. discriminate.
    - rewrite app_length. simpl. lia.
    - rewrite map_app. simpl. apply NoDup_app_snoc; [exact I3|].
      intros Hin. apply in_map_iff in Hin as [fr [Hid Hin]]. specialize (I4 fr Hin). lia.
    - intros fr Hin. apply in_app_or in Hin as [Hin|[<-|[]]]; [specialize (I4 fr Hin); lia | simpl; lia].
    - intros p Hin. specialize (I5 p Hin). lia.
    - intros i fr Hi Hn. apply nth_error_snoc in Hn as [[Hl Hn]|[Hl ->]]; [eapply I6; eauto|]. lia.
    - intros fr Hin. apply in_app_or in Hin as [Hin|[<-|[]]]; [apply I7; exact Hin|].
      simpl. rewrite given_of_none; [apply incl_refl|]. intros p Hp. specialize (I5 p Hp). lia.
    - intros i fr Hn Hf. apply nth_error_snoc in Hn as [[Hl Hn]|[Hl ->]].
      + rewrite prefix_fml_snoc_lt by exact Hl. eapply I8; eauto.
      + simpl in Hf. rewrite (last_unsat_snoc s l a E) in Hf. subst i.
        intros Hs. rewrite E in I8.
        apply (I8 (length l) a).
        * rewrite nth_error_app2 by lia. now rewrite Nat.sub_diag.
        * exact Hf.
        * eapply sat_mono; [|exact Hs]. rewrite <- E.
          unfold prefix_fml. rewrite firstn_all2 by (rewrite E, app_length; simpl; lia).
          rewrite firstn_all2 by (rewrite app_length; simpl; lia).
          rewrite map_app, concat_app. apply incl_appl, incl_refl.
  Qed.

  Lemma pop_spec (s s' : st) : pop s = Some s' ->
    exists l a, frames s = l ++ [a] /\ l <> [] /\ frames s' = l /\ fns s' = Nat.min (fns s) (length l) /\
                next_id s' = next_id s /\ given s' = given s.
  Proof.
    unfold pop. destruct (rev (frames s)) as [|a [|b r]] eqn:E; try discriminate.
    intros [= <-]. simpl. exists (rev (b :: r)), a. repeat split; auto.
    - apply (f_equal (@rev frame)) in E. rewrite rev_involutive in E. simpl in E. simpl. exact E.
    - simpl. intros H. apply app_eq_nil in H as [_ H]. discriminate.
  Qed.

  Lemma NoDup_app_l {A} (l1 l2 : list A) : NoDup (l1 ++ l2) -> NoDup l1.
  Proof. induction l1 as [|x r IH]; simpl; intros H; [constructor|]. inversion H; subst. constructor; [intros Hi; apply H2, in_or_app; auto | auto]. Qed.

  Lemma inv_pop (s s' : st) : Inv s -> pop s = Some s' -> Inv s'.
  Proof.
    intros I Hp. destruct I as [I1 I2 I3 I4 I5 I6 I7 I8].
    destruct (pop_spec s s' Hp) as [l [a [E [Hne [E' [Ef [En Eg]]]]]]].
    constructor; rewrite ?E', ?Ef, ?En, ?Eg.
    - exact Hne.
    - lia.
    - rewrite E, map_app in I3. eapply NoDup_app_l; eauto.
    - intros fr Hin. apply I4. rewrite E. apply in_or_app; auto.
    - exact I5.
    - intros i fr Hi Hn. apply (I6 i fr); [lia|]. rewrite E, nth_error_app1; [exact Hn|]. apply nth_error_Some. congruence.
    - intros fr Hin. apply I7. rewrite E. apply in_or_app; auto.
    - intros i fr Hn Hf. assert (Hl : i < length l) by (apply nth_error_Some; congruence).
      rewrite <- (prefix_fml_snoc_lt l a i Hl). rewrite <- E. apply (I8 i fr); [|exact Hf].
      rewrite E, nth_error_app1; auto.
  Qed.

  Lemma add_last_snoc (l : list frame) a f :
    add_last f (l ++ [a]) = l ++ [{| fid := fid a; fml := fml a ++ [f]; funsat := funsat a |}].
  Proof. unfold add_last. rewrite rev_app_distr. simpl. now rewrite rev_involutive. Qed.

  Lemma inv_insert (s : st) f : Inv s -> Inv (insert f s).
  Proof.
    intros I. destruct I as [I1 I2 I3 I4 I5 I6 I7 I8].
    destruct (snoc_cases (frames s)) as [E|[l [a E]]]; [contradiction|].
    set (a' := {| fid := fid a; fml := fml a ++ [f]; funsat := funsat a |}).
    assert (Ef : frames (insert f s) = l ++ [a']) by (unfold insert; simpl; rewrite E; apply add_last_snoc).
    assert (El : length (frames s) - 1 = length l) by (rewrite E, app_length; simpl; lia).
    constructor; rewrite ?Ef; try unfold insert; simpl; rewrite ?El.
    - intros H. apply app_eq_nil in H as [_ H]. discriminate.
    - rewrite app_length. simpl. lia.
    - rewrite E in I3. rewrite map_app in *. exact I3.
    - intros fr Hin. apply in_app_or in Hin as [Hin|[<-|[]]].
      + apply I4. rewrite E. apply in_or_app; auto.
      + simpl. apply (I4 a). rewrite E. apply in_or_app; simpl; auto.
    - exact I5.
    - intros i fr Hi Hn. apply nth_error_snoc in Hn as [[Hl Hn]|[Hl ->]]; [|lia].
      apply (I6 i fr); [lia|]. rewrite E, nth_error_app1; auto.
    - intros fr Hin. apply in_app_or in Hin as [Hin|[<-|[]]].
      + apply I7. rewrite E. apply in_or_app; auto.
      + simpl. apply incl_appl. apply (I7 a). rewrite E. apply in_or_app; simpl; auto.
    - intros i fr Hn Hf. apply nth_error_snoc in Hn as [[Hl Hn]|[Hl ->]].
      + rewrite prefix_fml_snoc_lt by exact Hl. rewrite <- (prefix_fml_snoc_lt l a i Hl), <- E.
        apply (I8 i fr); [|exact Hf]. rewrite E, nth_error_app1; auto.
      + simpl in Hf. intros Hs. apply (I8 (length l) a).
        * rewrite E, nth_error_app2 by lia. now rewrite Nat.sub_diag.
        * exact Hf.
        * eapply sat_mono; [|exact Hs]. subst i. rewrite E. unfold prefix_fml.
          rewrite !firstn_all2 by (rewrite app_length; simpl; lia).
          rewrite !map_app, !concat_app. simpl. rewrite !app_nil_r.
          apply incl_app; [apply incl_appl, incl_refl | apply incl_appr, incl_appl, incl_refl].
  Qed.

  (* ---------- simplify ---------- *)
  Lemma fid_inj (l : list frame) a b : NoDup (map (@fid F) l) -> In a l -> In b l -> fid a = fid b -> a = b.
  Proof.
    induction l as [|x r IH]; simpl; intros Hn Ha Hb E; [contradiction|].
    inversion Hn as [|? ? Hx Hr]; subst.
    destruct Ha as [->|Ha], Hb as [->|Hb]; auto.
    - exfalso. apply Hx. rewrite E. now apply in_map.
    - exfalso. apply Hx. rewrite <- E. now apply in_map.
  Qed.

  Definition give_state (s : st) (fr : frame) : st :=
    {| frames := frames s; fns := S (fns s); next_id := next_id s; given := give s fr; inserted := inserted s |}.

  Lemma inv_give (s : st) fr : Inv s -> nth_error (frames s) (fns s) = Some fr -> Inv (give_state s fr).
  Proof.
    intros I Hn. destruct I as [I1 I2 I3 I4 I5 I6 I7 I8].
    assert (Hin : In fr (frames s)) by (eapply nth_error_In; eauto).
    assert (Hlt : fns s < length (frames s)) by (apply nth_error_Some; congruence).
    constructor; unfold give_state, give; simpl.
    - exact I1.
    - lia.
    - exact I3.
    - exact I4.
    - intros p Hp. apply in_app_or in Hp as [Hp|Hp]; [auto|].
      apply in_map_iff in Hp as [f [<- _]]. simpl. auto.
    - intros i fr' Hi Hn'. rewrite given_of_app.
      destruct (Nat.eq_dec i (fns s)) as [->|Hne].
      + rewrite Hn in Hn'. injection Hn' as <-. apply incl_appr. rewrite given_of_map_same. apply incl_refl.
      + apply incl_appl. apply (I6 i fr'); [lia | exact Hn'].
    - intros fr' Hin'. rewrite given_of_app. apply incl_app; [apply I7; exact Hin'|].
      destruct (Nat.eq_dec (fid fr) (fid fr')) as [E|E].
      + assert (fr = fr') by (eapply fid_inj; eauto). subst fr'. rewrite given_of_map_same. apply incl_refl.
      + rewrite given_of_map_other by exact E. apply incl_nil_l.
    - exact I8.
  Qed.

  Lemma view_prefix_incl (s : st) i : Inv s ->
    incl (concat (view s (firstn (S i) (frames s)))) (prefix_fml (frames s) i).
  Proof.
    intros I. unfold view, prefix_fml. apply concat_incl_map. intros fr Hin.
    apply (inv_live s I). eapply firstn_In; eauto.
  Qed.

  Lemma simplify_spec fuel : forall (s s' : st) c, Inv s -> simplify early fuel s = (s', c) ->
    Inv s' /\ map (@fml F) (frames s') = map (@fml F) (frames s) /\
    (c = true -> ~ sat (assertions s)) /\
    (c = false -> length (frames s) <= fns s + fuel -> fns s' = length (frames s')).
  Proof.
    induction fuel as [|n IH]; intros s s' c I H; simpl in H.
    - injection H as <- <-. spl; auto; try discriminate. intros _ Hl. pose proof (inv_fns s I). lia.
    - destruct (nth_error (frames s) (fns s)) as [fr|] eqn:Hn.
      + pose proof (inv_give s fr I Hn) as I1. fold (give_state s fr) in H.
        change (frames (give_state s fr)) with (frames s) in H.
        destruct (early (view (give_state s fr) (firstn (S (fns s)) (frames s)))) eqn:He.

Show.
