(* C15 — the overflow-check macros regenerated from FastRational.h (Gen_CheckMacros.v) are the
   range predicates of the model, and their own evaluation has no signed overflow.
   The proofs are by a generic case split on every comparison met while evaluating the AST, closed
   by linear arithmetic: an equivalent reformulation of a macro still proves, a different one fails. *)
From Coq Require Import ZArith String List Bool Lia ZifyBool.
From OsmtV.Rat Require Import FRModel FRBase CMacro.
From OsmtV.Rat Require Import Gen_CheckMacros.
Import ListNotations.
Local Open Scope string_scope.
Local Open Scope Z_scope.

Definition run_CHECK_WORD (t : cty) (v : Z) : mres Z := exec [("value", (t, v))] CHECK_WORD_body.
Definition run_CHECK_UWORD (t : cty) (v : Z) : mres Z := exec [("value", (t, v))] CHECK_UWORD_body.
Definition run_CHECK_SUM_OVERFLOWS_LWORD (s1 s2 : Z) : mres Z :=
  exec [("s1", (TL, s1)); ("s2", (TL, s2))] CHECK_SUM_OVERFLOWS_LWORD_body.
Definition run_CHECK_SUB_OVERFLOWS_LWORD (s1 s2 : Z) : mres Z :=
  exec [("s1", (TL, s1)); ("s2", (TL, s2))] CHECK_SUB_OVERFLOWS_LWORD_body.

Lemma gen_constants :
  GEN_WORD_MIN = WORD_MIN /\ GEN_WORD_MAX = WORD_MAX /\ GEN_UWORD_MAX = UWORD_MAX /\
  GEN_LWORD_MIN = LWORD_MIN /\ GEN_LWORD_MAX = LWORD_MAX.
Proof. repeat split; reflexivity. Qed.

Lemma to_ulword_idem z : to_ulword (to_ulword z) = to_ulword z.
Proof. unfold to_ulword. apply Z.mod_mod. lia. Qed.
Lemma to_lword_idem z : to_lword (to_lword z) = to_lword z.
Proof.
  assert (LWORD_MIN <= to_lword z <= LWORD_MAX).
  { unfold to_lword, LWORD_MIN, LWORD_MAX. pose proof (Z.mod_pos_bound (z + 9223372036854775808) 18446744073709551616). lia. }
  apply to_lword_id. assumption.
Qed.
Lemma to_lword_range z : LWORD_MIN <= to_lword z <= LWORD_MAX.
Proof. unfold to_lword, LWORD_MIN, LWORD_MAX. pose proof (Z.mod_pos_bound (z + 9223372036854775808) 18446744073709551616). lia. Qed.

Ltac ev := cbn -[Z.add Z.sub Z.ltb Z.gtb Z.leb Z.geb in_lword to_lword to_ulword];
           unfold compare_c, arith;
           cbn -[Z.add Z.sub Z.ltb Z.gtb Z.leb Z.geb in_lword to_lword to_ulword].
(* constants converted to an unsigned type *)
Ltac consts :=
  repeat match goal with
         | |- context [to_ulword (Zpos ?p)] =>
           let r := eval vm_compute in (to_ulword (Zpos p)) in change (to_ulword (Zpos p)) with r
         | |- context [to_ulword 0] => change (to_ulword 0) with 0
         end;
  rewrite ?to_ulword_idem, ?to_lword_idem;
  repeat match goal with H : to_ulword ?x = ?x |- context [to_ulword ?x] => rewrite H end.
Ltac split1 :=
  match goal with
  | |- context [Z.ltb ?a ?b] => destruct (Z.ltb_spec a b)
  | |- context [Z.gtb ?a ?b] => destruct (Z.gtb_spec a b)
  | |- context [Z.leb ?a ?b] => destruct (Z.leb_spec a b)
  | |- context [Z.geb ?a ?b] => destruct (Z.geb_spec a b)
  | |- context [in_lword ?x] => let L := fresh "L" in destruct (in_lword x) eqn:L; unfold in_lword in L
  end; ev.
Ltac finish_ := first [reflexivity | exfalso; unfold LWORD_MIN, LWORD_MAX, ULWORD_MAX, WORD_MIN, WORD_MAX, UWORD_MAX in *; lia].
Ltac crunch := ev; consts; repeat (split1; consts); finish_.

Lemma run_CHECK_WORD_equiv t v : run_CHECK_WORD t v = chk_word v.
Proof.
  unfold run_CHECK_WORD, CHECK_WORD_body, chk_word, WORD_MIN, WORD_MAX. cbv zeta.
  pose proof (to_lword_range v).
  destruct t; crunch.
Qed.

Lemma run_CHECK_UWORD_equiv t v : has_type t v -> run_CHECK_UWORD t v = chk_uword v.
Proof.
  intros Ht. unfold run_CHECK_UWORD, CHECK_UWORD_body, chk_uword, UWORD_MAX. cbv zeta.
  pose proof (to_ulword_range v) as R.
  destruct t; simpl in Ht.
  - (* lword argument *)
    assert (E : 1 <= v -> to_ulword v = v) by (intros; apply to_ulword_id; unfold ULWORD_MAX, LWORD_MAX in *; lia).
    crunch.
  - (* ulword argument *)
    assert (E : to_ulword v = v) by (apply to_ulword_id; exact Ht). crunch.
Qed.

Lemma run_CHECK_SUM_equiv s1 s2 : LWORD_MIN <= s1 <= LWORD_MAX -> LWORD_MIN <= s2 <= LWORD_MAX ->
  run_CHECK_SUM_OVERFLOWS_LWORD s1 s2 = chk_sum_lword s1 s2.
Proof.
  intros H1 H2. unfold run_CHECK_SUM_OVERFLOWS_LWORD, CHECK_SUM_OVERFLOWS_LWORD_body, chk_sum_lword. crunch.
Qed.

Lemma run_CHECK_SUB_equiv s1 s2 : LWORD_MIN <= s1 <= LWORD_MAX -> LWORD_MIN <= s2 <= LWORD_MAX ->
  run_CHECK_SUB_OVERFLOWS_LWORD s1 s2 = chk_sub_lword s1 s2.
Proof.
  intros H1 H2. unfold run_CHECK_SUB_OVERFLOWS_LWORD, CHECK_SUB_OVERFLOWS_LWORD_body, chk_sub_lword. crunch.
Qed.

Theorem check_macros_equivalent_lemma :
  (forall t v, run_CHECK_WORD t v = chk_word v) /\
  (forall t v, has_type t v -> run_CHECK_UWORD t v = chk_uword v) /\
  (forall s1 s2, LWORD_MIN <= s1 <= LWORD_MAX -> LWORD_MIN <= s2 <= LWORD_MAX ->
     run_CHECK_SUM_OVERFLOWS_LWORD s1 s2 = chk_sum_lword s1 s2) /\
  (forall s1 s2, LWORD_MIN <= s1 <= LWORD_MAX -> LWORD_MIN <= s2 <= LWORD_MAX ->
     run_CHECK_SUB_OVERFLOWS_LWORD s1 s2 = chk_sub_lword s1 s2) /\
  GEN_WORD_MIN = WORD_MIN /\ GEN_WORD_MAX = WORD_MAX /\ GEN_UWORD_MAX = UWORD_MAX /\
  GEN_LWORD_MIN = LWORD_MIN /\ GEN_LWORD_MAX = LWORD_MAX.
Proof.
  split; [exact run_CHECK_WORD_equiv|]. split; [exact run_CHECK_UWORD_equiv|].
  split; [exact run_CHECK_SUM_equiv|]. split; [exact run_CHECK_SUB_equiv | exact gen_constants].
Qed.
