From Coq Require Import List Bool NArith Lia.
From OsmtV.Cnf Require Import Gen_TseitinTemplates TseitinModel.
Import ListNotations.
Goal forall v args,
  nary_val and_big_head and_big_neg and_small v args = true <-> v = forallb (fun a => a) args.
Proof.
  intros. unfold nary_val. cbv [and_big_head and_big_neg and_small clause_val existsb tl_val nth].
  destruct v; cbn [negb orb]. Show.
Abort.
