From Coq Require Import String List.
From OsmtV.Repro Require Import ReproFacts Gen_ReproFacts.
Eval vm_compute in (length facts, forallb fact_ok facts, leaking_lines facts, map fact_key (unexplained facts)).
