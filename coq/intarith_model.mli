
type nat =
| O
| S of nat

val fst : ('a1 * 'a2) -> 'a1

val snd : ('a1 * 'a2) -> 'a2

val length : 'a1 list -> nat

val app : 'a1 list -> 'a1 list -> 'a1 list

type comparison =
| Eq
| Lt
| Gt

val compOpp : comparison -> comparison

val add : nat -> nat -> nat

type positive =
| XI of positive
| XO of positive
| XH

type z =
| Z0
| Zpos of positive
| Zneg of positive

module Nat :
 sig
  val eqb : nat -> nat -> bool
 end

module Pos :
 sig
  type mask =
  | IsNul
  | IsPos of positive
  | IsNeg
 end

module Coq_Pos :
 sig
  val succ : positive -> positive

  val add : positive -> positive -> positive

  val add_carry : positive -> positive -> positive

  val pred_double : positive -> positive

  type mask = Pos.mask =
  | IsNul
  | IsPos of positive
  | IsNeg

  val succ_double_mask : mask -> mask

  val double_mask : mask -> mask

  val double_pred_mask : positive -> mask

  val sub_mask : positive -> positive -> mask

  val sub_mask_carry : positive -> positive -> mask

  val sub : positive -> positive -> positive

  val mul : positive -> positive -> positive

  val iter : ('a1 -> 'a1) -> 'a1 -> positive -> 'a1

  val size_nat : positive -> nat

  val size : positive -> positive

  val compare_cont : comparison -> positive -> positive -> comparison

  val compare : positive -> positive -> comparison

  val eqb : positive -> positive -> bool

  val gcdn : nat -> positive -> positive -> positive

  val gcd : positive -> positive -> positive

  val ggcdn : nat -> positive -> positive -> positive * (positive * positive)

  val ggcd : positive -> positive -> positive * (positive * positive)
 end

module Z :
 sig
  val double : z -> z

  val succ_double : z -> z

  val pred_double : z -> z

  val pos_sub : positive -> positive -> z

  val add : z -> z -> z

  val opp : z -> z

  val sub : z -> z -> z

  val mul : z -> z -> z

  val pow_pos : z -> positive -> z

  val pow : z -> z -> z

  val compare : z -> z -> comparison

  val sgn : z -> z

  val leb : z -> z -> bool

  val ltb : z -> z -> bool

  val eqb : z -> z -> bool

  val abs : z -> z

  val to_pos : z -> positive

  val pos_div_eucl : positive -> z -> z * z

  val div_eucl : z -> z -> z * z

  val div : z -> z -> z

  val modulo : z -> z -> z

  val log2 : z -> z

  val gcd : z -> z -> z

  val ggcd : z -> z -> z * (z * z)

  val lcm : z -> z -> z
 end

val nth_error : 'a1 list -> nat -> 'a1 option

val map : ('a1 -> 'a2) -> 'a1 list -> 'a2 list

val fold_left : ('a1 -> 'a2 -> 'a1) -> 'a2 list -> 'a1 -> 'a1

val forallb : ('a1 -> bool) -> 'a1 list -> bool

val combine : 'a1 list -> 'a2 list -> ('a1 * 'a2) list

val seq : nat -> nat -> nat list

type q = { qnum : z; qden : positive }

val inject_Z : z -> q

val qplus : q -> q -> q

val qmult : q -> q -> q

val qopp : q -> q

val qminus : q -> q -> q

val qinv : q -> q

val qdiv : q -> q -> q

val qred : q -> q

val qfloor : q -> z

val qceiling : q -> z

val smt_div : z -> z -> z

val smt_mod : z -> z -> z

val divmod_def : z -> z -> z -> z -> bool

type dm_kind =
| KDiv
| KMod

type dm_app = (dm_kind * nat) * z

val key_eqb : (nat * z) -> (nat * z) -> bool

val cache_find : (nat * z) list -> (nat * z) -> nat -> nat option

val rw_apps :
  (nat * z) list -> dm_app list -> (nat * z) list * (nat * dm_kind) list

val app_val : (nat -> z) -> dm_app -> z

val aux_val : (nat -> z * z) -> (nat * dm_kind) -> z

val rewritten_holds : (nat -> z) -> (nat -> z * z) -> dm_app list -> bool

val canon_sigma : (nat -> z) -> (nat * z) list -> nat -> z * z

type bound_pair = { bp_upper : z; bp_lower : z }

val bounds_int : q -> bool -> bound_pair

type bound =
| UB of z
| LB of z

val add_bound : q -> bool -> bound * bound

val q_num : q -> z

val q_den : q -> z

val q_is_int : q -> bool

val lcm_step : z -> q -> z

val lcm_dens : q list -> z

val gcd_step : z -> q -> z

val gcd_coeffs : q list -> z

val q_mul : q -> q -> q

val q_div : q -> q -> q

val q_neg : q -> q

val norm_int_pair : q list -> q -> q list * q

val norm_ineq : q list -> q -> z * q list

val norm_eq : bool -> q list -> q -> (q * q list) option

val norm_single_leq : q -> z

val pMAX : z

val pMIN : z

val in_range : z -> bool

val safe_add : z -> z -> z option

val safe_sub : z -> z -> z option

val safe_neg : z -> z option

val dl_negate : z -> z option

val trunc53 : z -> z

val dl_conv : z -> z option

val dl_conv_fixed : z -> z option
