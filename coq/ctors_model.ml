
(** val implb : bool -> bool -> bool **)

let implb b1 b2 =
  if b1 then b2 else true

(** val xorb : bool -> bool -> bool **)

let xorb b1 b2 =
  if b1 then if b2 then false else true else b2

(** val negb : bool -> bool **)

let negb = function
| true -> false
| false -> true

type nat =
| O
| S of nat

(** val option_map : ('a1 -> 'a2) -> 'a1 option -> 'a2 option **)

let option_map f = function
| Some a -> Some (f a)
| None -> None

(** val fst : ('a1 * 'a2) -> 'a1 **)

let fst = function
| (x, _) -> x

(** val snd : ('a1 * 'a2) -> 'a2 **)

let snd = function
| (_, y) -> y

(** val length : 'a1 list -> nat **)

let rec length = function
| [] -> O
| _ :: l' -> S (length l')

(** val app : 'a1 list -> 'a1 list -> 'a1 list **)

let rec app l m =
  match l with
  | [] -> m
  | a :: l1 -> a :: (app l1 m)

type comparison =
| Eq
| Lt
| Gt

(** val compOpp : comparison -> comparison **)

let compOpp = function
| Eq -> Eq
| Lt -> Gt
| Gt -> Lt

module Coq__1 = struct
 (** val add : nat -> nat -> nat **)
 let rec add n m =
   match n with
   | O -> m
   | S p -> S (add p m)
end
include Coq__1

type positive =
| XI of positive
| XO of positive
| XH

type z =
| Z0
| Zpos of positive
| Zneg of positive

(** val eqb : bool -> bool -> bool **)

let eqb b1 b2 =
  if b1 then b2 else if b2 then false else true

module Nat =
 struct
  (** val eqb : nat -> nat -> bool **)

  let rec eqb n m =
    match n with
    | O -> (match m with
            | O -> true
            | S _ -> false)
    | S n' -> (match m with
               | O -> false
               | S m' -> eqb n' m')
 end

module Pos =
 struct
  type mask =
  | IsNul
  | IsPos of positive
  | IsNeg
 end

module Coq_Pos =
 struct
  (** val succ : positive -> positive **)

  let rec succ = function
  | XI p -> XO (succ p)
  | XO p -> XI p
  | XH -> XO XH

  (** val add : positive -> positive -> positive **)

  let rec add x y =
    match x with
    | XI p ->
      (match y with
       | XI q0 -> XO (add_carry p q0)
       | XO q0 -> XI (add p q0)
       | XH -> XO (succ p))
    | XO p ->
      (match y with
       | XI q0 -> XI (add p q0)
       | XO q0 -> XO (add p q0)
       | XH -> XI p)
    | XH -> (match y with
             | XI q0 -> XO (succ q0)
             | XO q0 -> XI q0
             | XH -> XO XH)

  (** val add_carry : positive -> positive -> positive **)

  and add_carry x y =
    match x with
    | XI p ->
      (match y with
       | XI q0 -> XI (add_carry p q0)
       | XO q0 -> XO (add_carry p q0)
       | XH -> XI (succ p))
    | XO p ->
      (match y with
       | XI q0 -> XO (add_carry p q0)
       | XO q0 -> XI (add p q0)
       | XH -> XO (succ p))
    | XH ->
      (match y with
       | XI q0 -> XI (succ q0)
       | XO q0 -> XO (succ q0)
       | XH -> XI XH)

  (** val pred_double : positive -> positive **)

  let rec pred_double = function
  | XI p -> XI (XO p)
  | XO p -> XI (pred_double p)
  | XH -> XH

  type mask = Pos.mask =
  | IsNul
  | IsPos of positive
  | IsNeg

  (** val succ_double_mask : mask -> mask **)

  let succ_double_mask = function
  | IsNul -> IsPos XH
  | IsPos p -> IsPos (XI p)
  | IsNeg -> IsNeg

  (** val double_mask : mask -> mask **)

  let double_mask = function
  | IsPos p -> IsPos (XO p)
  | x0 -> x0

  (** val double_pred_mask : positive -> mask **)

  let double_pred_mask = function
  | XI p -> IsPos (XO (XO p))
  | XO p -> IsPos (XO (pred_double p))
  | XH -> IsNul

  (** val sub_mask : positive -> positive -> mask **)

  let rec sub_mask x y =
    match x with
    | XI p ->
      (match y with
       | XI q0 -> double_mask (sub_mask p q0)
       | XO q0 -> succ_double_mask (sub_mask p q0)
       | XH -> IsPos (XO p))
    | XO p ->
      (match y with
       | XI q0 -> succ_double_mask (sub_mask_carry p q0)
       | XO q0 -> double_mask (sub_mask p q0)
       | XH -> IsPos (pred_double p))
    | XH -> (match y with
             | XH -> IsNul
             | _ -> IsNeg)

  (** val sub_mask_carry : positive -> positive -> mask **)

  and sub_mask_carry x y =
    match x with
    | XI p ->
      (match y with
       | XI q0 -> succ_double_mask (sub_mask_carry p q0)
       | XO q0 -> double_mask (sub_mask p q0)
       | XH -> IsPos (pred_double p))
    | XO p ->
      (match y with
       | XI q0 -> double_mask (sub_mask_carry p q0)
       | XO q0 -> succ_double_mask (sub_mask_carry p q0)
       | XH -> double_pred_mask p)
    | XH -> IsNeg

  (** val sub : positive -> positive -> positive **)

  let sub x y =
    match sub_mask x y with
    | IsPos z0 -> z0
    | _ -> XH

  (** val mul : positive -> positive -> positive **)

  let rec mul x y =
    match x with
    | XI p -> add y (XO (mul p y))
    | XO p -> XO (mul p y)
    | XH -> y

  (** val size_nat : positive -> nat **)

  let rec size_nat = function
  | XI p0 -> S (size_nat p0)
  | XO p0 -> S (size_nat p0)
  | XH -> S O

  (** val compare_cont : comparison -> positive -> positive -> comparison **)

  let rec compare_cont r x y =
    match x with
    | XI p ->
      (match y with
       | XI q0 -> compare_cont r p q0
       | XO q0 -> compare_cont Gt p q0
       | XH -> Gt)
    | XO p ->
      (match y with
       | XI q0 -> compare_cont Lt p q0
       | XO q0 -> compare_cont r p q0
       | XH -> Gt)
    | XH -> (match y with
             | XH -> r
             | _ -> Lt)

  (** val compare : positive -> positive -> comparison **)

  let compare =
    compare_cont Eq

  (** val eqb : positive -> positive -> bool **)

  let rec eqb p q0 =
    match p with
    | XI p0 -> (match q0 with
                | XI q1 -> eqb p0 q1
                | _ -> false)
    | XO p0 -> (match q0 with
                | XO q1 -> eqb p0 q1
                | _ -> false)
    | XH -> (match q0 with
             | XH -> true
             | _ -> false)

  (** val gcdn : nat -> positive -> positive -> positive **)

  let rec gcdn n a b =
    match n with
    | O -> XH
    | S n0 ->
      (match a with
       | XI a' ->
         (match b with
          | XI b' ->
            (match compare a' b' with
             | Eq -> a
             | Lt -> gcdn n0 (sub b' a') a
             | Gt -> gcdn n0 (sub a' b') b)
          | XO b0 -> gcdn n0 a b0
          | XH -> XH)
       | XO a0 ->
         (match b with
          | XI _ -> gcdn n0 a0 b
          | XO b0 -> XO (gcdn n0 a0 b0)
          | XH -> XH)
       | XH -> XH)

  (** val gcd : positive -> positive -> positive **)

  let gcd a b =
    gcdn (Coq__1.add (size_nat a) (size_nat b)) a b

  (** val ggcdn :
      nat -> positive -> positive -> positive * (positive * positive) **)

  let rec ggcdn n a b =
    match n with
    | O -> (XH, (a, b))
    | S n0 ->
      (match a with
       | XI a' ->
         (match b with
          | XI b' ->
            (match compare a' b' with
             | Eq -> (a, (XH, XH))
             | Lt ->
               let (g, p) = ggcdn n0 (sub b' a') a in
               let (ba, aa) = p in (g, (aa, (add aa (XO ba))))
             | Gt ->
               let (g, p) = ggcdn n0 (sub a' b') b in
               let (ab, bb) = p in (g, ((add bb (XO ab)), bb)))
          | XO b0 ->
            let (g, p) = ggcdn n0 a b0 in
            let (aa, bb) = p in (g, (aa, (XO bb)))
          | XH -> (XH, (a, XH)))
       | XO a0 ->
         (match b with
          | XI _ ->
            let (g, p) = ggcdn n0 a0 b in
            let (aa, bb) = p in (g, ((XO aa), bb))
          | XO b0 -> let (g, p) = ggcdn n0 a0 b0 in ((XO g), p)
          | XH -> (XH, (a, XH)))
       | XH -> (XH, (XH, b)))

  (** val ggcd : positive -> positive -> positive * (positive * positive) **)

  let ggcd a b =
    ggcdn (Coq__1.add (size_nat a) (size_nat b)) a b
 end

module Z =
 struct
  (** val double : z -> z **)

  let double = function
  | Z0 -> Z0
  | Zpos p -> Zpos (XO p)
  | Zneg p -> Zneg (XO p)

  (** val succ_double : z -> z **)

  let succ_double = function
  | Z0 -> Zpos XH
  | Zpos p -> Zpos (XI p)
  | Zneg p -> Zneg (Coq_Pos.pred_double p)

  (** val pred_double : z -> z **)

  let pred_double = function
  | Z0 -> Zneg XH
  | Zpos p -> Zpos (Coq_Pos.pred_double p)
  | Zneg p -> Zneg (XI p)

  (** val pos_sub : positive -> positive -> z **)

  let rec pos_sub x y =
    match x with
    | XI p ->
      (match y with
       | XI q0 -> double (pos_sub p q0)
       | XO q0 -> succ_double (pos_sub p q0)
       | XH -> Zpos (XO p))
    | XO p ->
      (match y with
       | XI q0 -> pred_double (pos_sub p q0)
       | XO q0 -> double (pos_sub p q0)
       | XH -> Zpos (Coq_Pos.pred_double p))
    | XH ->
      (match y with
       | XI q0 -> Zneg (XO q0)
       | XO q0 -> Zneg (Coq_Pos.pred_double q0)
       | XH -> Z0)

  (** val add : z -> z -> z **)

  let add x y =
    match x with
    | Z0 -> y
    | Zpos x' ->
      (match y with
       | Z0 -> x
       | Zpos y' -> Zpos (Coq_Pos.add x' y')
       | Zneg y' -> pos_sub x' y')
    | Zneg x' ->
      (match y with
       | Z0 -> x
       | Zpos y' -> pos_sub y' x'
       | Zneg y' -> Zneg (Coq_Pos.add x' y'))

  (** val opp : z -> z **)

  let opp = function
  | Z0 -> Z0
  | Zpos x0 -> Zneg x0
  | Zneg x0 -> Zpos x0

  (** val sub : z -> z -> z **)

  let sub m n =
    add m (opp n)

  (** val mul : z -> z -> z **)

  let mul x y =
    match x with
    | Z0 -> Z0
    | Zpos x' ->
      (match y with
       | Z0 -> Z0
       | Zpos y' -> Zpos (Coq_Pos.mul x' y')
       | Zneg y' -> Zneg (Coq_Pos.mul x' y'))
    | Zneg x' ->
      (match y with
       | Z0 -> Z0
       | Zpos y' -> Zneg (Coq_Pos.mul x' y')
       | Zneg y' -> Zpos (Coq_Pos.mul x' y'))

  (** val compare : z -> z -> comparison **)

  let compare x y =
    match x with
    | Z0 -> (match y with
             | Z0 -> Eq
             | Zpos _ -> Lt
             | Zneg _ -> Gt)
    | Zpos x' -> (match y with
                  | Zpos y' -> Coq_Pos.compare x' y'
                  | _ -> Gt)
    | Zneg x' ->
      (match y with
       | Zneg y' -> compOpp (Coq_Pos.compare x' y')
       | _ -> Lt)

  (** val sgn : z -> z **)

  let sgn = function
  | Z0 -> Z0
  | Zpos _ -> Zpos XH
  | Zneg _ -> Zneg XH

  (** val leb : z -> z -> bool **)

  let leb x y =
    match compare x y with
    | Gt -> false
    | _ -> true

  (** val ltb : z -> z -> bool **)

  let ltb x y =
    match compare x y with
    | Lt -> true
    | _ -> false

  (** val eqb : z -> z -> bool **)

  let eqb x y =
    match x with
    | Z0 -> (match y with
             | Z0 -> true
             | _ -> false)
    | Zpos p -> (match y with
                 | Zpos q0 -> Coq_Pos.eqb p q0
                 | _ -> false)
    | Zneg p -> (match y with
                 | Zneg q0 -> Coq_Pos.eqb p q0
                 | _ -> false)

  (** val abs : z -> z **)

  let abs = function
  | Zneg p -> Zpos p
  | x -> x

  (** val to_pos : z -> positive **)

  let to_pos = function
  | Zpos p -> p
  | _ -> XH

  (** val pos_div_eucl : positive -> z -> z * z **)

  let rec pos_div_eucl a b =
    match a with
    | XI a' ->
      let (q0, r) = pos_div_eucl a' b in
      let r' = add (mul (Zpos (XO XH)) r) (Zpos XH) in
      if ltb r' b
      then ((mul (Zpos (XO XH)) q0), r')
      else ((add (mul (Zpos (XO XH)) q0) (Zpos XH)), (sub r' b))
    | XO a' ->
      let (q0, r) = pos_div_eucl a' b in
      let r' = mul (Zpos (XO XH)) r in
      if ltb r' b
      then ((mul (Zpos (XO XH)) q0), r')
      else ((add (mul (Zpos (XO XH)) q0) (Zpos XH)), (sub r' b))
    | XH -> if leb (Zpos (XO XH)) b then (Z0, (Zpos XH)) else ((Zpos XH), Z0)

  (** val div_eucl : z -> z -> z * z **)

  let div_eucl a b =
    match a with
    | Z0 -> (Z0, Z0)
    | Zpos a' ->
      (match b with
       | Z0 -> (Z0, a)
       | Zpos _ -> pos_div_eucl a' b
       | Zneg b' ->
         let (q0, r) = pos_div_eucl a' (Zpos b') in
         (match r with
          | Z0 -> ((opp q0), Z0)
          | _ -> ((opp (add q0 (Zpos XH))), (add b r))))
    | Zneg a' ->
      (match b with
       | Z0 -> (Z0, a)
       | Zpos _ ->
         let (q0, r) = pos_div_eucl a' b in
         (match r with
          | Z0 -> ((opp q0), Z0)
          | _ -> ((opp (add q0 (Zpos XH))), (sub b r)))
       | Zneg b' -> let (q0, r) = pos_div_eucl a' (Zpos b') in (q0, (opp r)))

  (** val div : z -> z -> z **)

  let div a b =
    let (q0, _) = div_eucl a b in q0

  (** val modulo : z -> z -> z **)

  let modulo a b =
    let (_, r) = div_eucl a b in r

  (** val gcd : z -> z -> z **)

  let gcd a b =
    match a with
    | Z0 -> abs b
    | Zpos a0 ->
      (match b with
       | Z0 -> abs a
       | Zpos b0 -> Zpos (Coq_Pos.gcd a0 b0)
       | Zneg b0 -> Zpos (Coq_Pos.gcd a0 b0))
    | Zneg a0 ->
      (match b with
       | Z0 -> abs a
       | Zpos b0 -> Zpos (Coq_Pos.gcd a0 b0)
       | Zneg b0 -> Zpos (Coq_Pos.gcd a0 b0))

  (** val ggcd : z -> z -> z * (z * z) **)

  let ggcd a b =
    match a with
    | Z0 -> ((abs b), (Z0, (sgn b)))
    | Zpos a0 ->
      (match b with
       | Z0 -> ((abs a), ((sgn a), Z0))
       | Zpos b0 ->
         let (g, p) = Coq_Pos.ggcd a0 b0 in
         let (aa, bb) = p in ((Zpos g), ((Zpos aa), (Zpos bb)))
       | Zneg b0 ->
         let (g, p) = Coq_Pos.ggcd a0 b0 in
         let (aa, bb) = p in ((Zpos g), ((Zpos aa), (Zneg bb))))
    | Zneg a0 ->
      (match b with
       | Z0 -> ((abs a), ((sgn a), Z0))
       | Zpos b0 ->
         let (g, p) = Coq_Pos.ggcd a0 b0 in
         let (aa, bb) = p in ((Zpos g), ((Zneg aa), (Zpos bb)))
       | Zneg b0 ->
         let (g, p) = Coq_Pos.ggcd a0 b0 in
         let (aa, bb) = p in ((Zpos g), ((Zneg aa), (Zneg bb))))
 end

(** val zeq_bool : z -> z -> bool **)

let zeq_bool x y =
  match Z.compare x y with
  | Eq -> true
  | _ -> false

(** val rev : 'a1 list -> 'a1 list **)

let rec rev = function
| [] -> []
| x :: l' -> app (rev l') (x :: [])

(** val map : ('a1 -> 'a2) -> 'a1 list -> 'a2 list **)

let rec map f = function
| [] -> []
| a :: t -> (f a) :: (map f t)

(** val flat_map : ('a1 -> 'a2 list) -> 'a1 list -> 'a2 list **)

let rec flat_map f = function
| [] -> []
| x :: t -> app (f x) (flat_map f t)

(** val fold_left : ('a1 -> 'a2 -> 'a1) -> 'a2 list -> 'a1 -> 'a1 **)

let rec fold_left f l a0 =
  match l with
  | [] -> a0
  | b :: t -> fold_left f t (f a0 b)

(** val fold_right : ('a2 -> 'a1 -> 'a1) -> 'a1 -> 'a2 list -> 'a1 **)

let rec fold_right f a0 = function
| [] -> a0
| b :: t -> f b (fold_right f a0 t)

(** val existsb : ('a1 -> bool) -> 'a1 list -> bool **)

let rec existsb f = function
| [] -> false
| a :: l0 -> (||) (f a) (existsb f l0)

(** val forallb : ('a1 -> bool) -> 'a1 list -> bool **)

let rec forallb f = function
| [] -> true
| a :: l0 -> (&&) (f a) (forallb f l0)

(** val filter : ('a1 -> bool) -> 'a1 list -> 'a1 list **)

let rec filter f = function
| [] -> []
| x :: l0 -> if f x then x :: (filter f l0) else filter f l0

type q = { qnum : z; qden : positive }

(** val inject_Z : z -> q **)

let inject_Z x =
  { qnum = x; qden = XH }

(** val qeq_bool : q -> q -> bool **)

let qeq_bool x y =
  zeq_bool (Z.mul x.qnum (Zpos y.qden)) (Z.mul y.qnum (Zpos x.qden))

(** val qle_bool : q -> q -> bool **)

let qle_bool x y =
  Z.leb (Z.mul x.qnum (Zpos y.qden)) (Z.mul y.qnum (Zpos x.qden))

(** val qplus : q -> q -> q **)

let qplus x y =
  { qnum = (Z.add (Z.mul x.qnum (Zpos y.qden)) (Z.mul y.qnum (Zpos x.qden)));
    qden = (Coq_Pos.mul x.qden y.qden) }

(** val qmult : q -> q -> q **)

let qmult x y =
  { qnum = (Z.mul x.qnum y.qnum); qden = (Coq_Pos.mul x.qden y.qden) }

(** val qopp : q -> q **)

let qopp x =
  { qnum = (Z.opp x.qnum); qden = x.qden }

(** val qminus : q -> q -> q **)

let qminus x y =
  qplus x (qopp y)

(** val qinv : q -> q **)

let qinv x =
  match x.qnum with
  | Z0 -> { qnum = Z0; qden = XH }
  | Zpos p -> { qnum = (Zpos x.qden); qden = p }
  | Zneg p -> { qnum = (Zneg x.qden); qden = p }

(** val qdiv : q -> q -> q **)

let qdiv x y =
  qmult x (qinv y)

(** val qred : q -> q **)

let qred q0 =
  let { qnum = q1; qden = q2 } = q0 in
  let (r1, r2) = snd (Z.ggcd q1 (Zpos q2)) in
  { qnum = r1; qden = (Z.to_pos r2) }

(** val qfloor : q -> z **)

let qfloor x =
  let { qnum = n; qden = d } = x in Z.div n (Zpos d)

(** val qceiling : q -> z **)

let qceiling x =
  Z.opp (qfloor (qopp x))

(** val q_floor : q -> z **)

let q_floor =
  qfloor

(** val q_ceil : q -> z **)

let q_ceil =
  qceiling

(** val real_div : z -> z -> q **)

let real_div n d =
  qdiv { qnum = n; qden = XH } { qnum = d; qden = XH }

(** val fold_div : z -> z -> z option **)

let fold_div n d =
  if Z.eqb d Z0
  then None
  else if Z.eqb d (Zpos XH)
       then Some n
       else if Z.eqb d (Zneg XH)
            then Some (Z.opp n)
            else Some
                   (if Z.ltb Z0 d
                    then q_floor (real_div n d)
                    else q_ceil (real_div n d))

(** val fold_mod : z -> z -> z option **)

let fold_mod n d =
  if Z.eqb d Z0
  then None
  else if (||) (Z.eqb d (Zpos XH)) (Z.eqb d (Zneg XH))
       then Some Z0
       else let q0 =
              if Z.ltb Z0 d
              then q_floor (real_div n d)
              else q_ceil (real_div n d)
            in
            Some (Z.sub n (Z.mul q0 d))

(** val smt_div : z -> z -> z **)

let smt_div n d =
  if Z.ltb Z0 d then Z.div n d else Z.opp (Z.div n (Z.opp d))

(** val smt_mod : z -> z -> z **)

let smt_mod n d =
  Z.modulo n (Z.abs d)

type sort =
| SBool
| SInt
| SReal
| SU of nat

type op =
| OAnd
| OOr
| ONot
| OXor
| OImpl
| OIte
| OEq
| ODistinct
| OPlus
| OMinus
| OTimes
| ORDiv
| OIDiv
| OMod
| OLeq
| OLt
| OGeq
| OGt
| OUF of nat * sort

type term =
| TVar of sort * nat
| TBool of bool
| TNum of sort * q * nat
| TUc of sort * nat
| TApp of op * term list

(** val sort_eqb : sort -> sort -> bool **)

let sort_eqb a b =
  match a with
  | SBool -> (match b with
              | SBool -> true
              | _ -> false)
  | SInt -> (match b with
             | SInt -> true
             | _ -> false)
  | SReal -> (match b with
              | SReal -> true
              | _ -> false)
  | SU n -> (match b with
             | SU m -> Nat.eqb n m
             | _ -> false)

(** val op_eqb : op -> op -> bool **)

let op_eqb a b =
  match a with
  | OAnd -> (match b with
             | OAnd -> true
             | _ -> false)
  | OOr -> (match b with
            | OOr -> true
            | _ -> false)
  | ONot -> (match b with
             | ONot -> true
             | _ -> false)
  | OXor -> (match b with
             | OXor -> true
             | _ -> false)
  | OImpl -> (match b with
              | OImpl -> true
              | _ -> false)
  | OIte -> (match b with
             | OIte -> true
             | _ -> false)
  | OEq -> (match b with
            | OEq -> true
            | _ -> false)
  | ODistinct -> (match b with
                  | ODistinct -> true
                  | _ -> false)
  | OPlus -> (match b with
              | OPlus -> true
              | _ -> false)
  | OMinus -> (match b with
               | OMinus -> true
               | _ -> false)
  | OTimes -> (match b with
               | OTimes -> true
               | _ -> false)
  | ORDiv -> (match b with
              | ORDiv -> true
              | _ -> false)
  | OIDiv -> (match b with
              | OIDiv -> true
              | _ -> false)
  | OMod -> (match b with
             | OMod -> true
             | _ -> false)
  | OLeq -> (match b with
             | OLeq -> true
             | _ -> false)
  | OLt -> (match b with
            | OLt -> true
            | _ -> false)
  | OGeq -> (match b with
             | OGeq -> true
             | _ -> false)
  | OGt -> (match b with
            | OGt -> true
            | _ -> false)
  | OUF (f, s) ->
    (match b with
     | OUF (g, s') -> (&&) (Nat.eqb f g) (sort_eqb s s')
     | _ -> false)

(** val q_eqb : q -> q -> bool **)

let q_eqb a b =
  (&&) (Z.eqb a.qnum b.qnum) (Coq_Pos.eqb a.qden b.qden)

(** val term_eqb : term -> term -> bool **)

let rec term_eqb a b =
  match a with
  | TVar (s, x) ->
    (match b with
     | TVar (s', x') -> (&&) (sort_eqb s s') (Nat.eqb x x')
     | _ -> false)
  | TBool b1 -> (match b with
                 | TBool b2 -> eqb b1 b2
                 | _ -> false)
  | TNum (s, q0, sp) ->
    (match b with
     | TNum (s', q', sp') ->
       (&&) ((&&) (sort_eqb s s') (q_eqb q0 q')) (Nat.eqb sp sp')
     | _ -> false)
  | TUc (s, c) ->
    (match b with
     | TUc (s', c') -> (&&) (sort_eqb s s') (Nat.eqb c c')
     | _ -> false)
  | TApp (o, l) ->
    (match b with
     | TApp (o', l') ->
       (&&) (op_eqb o o')
         (let rec go l0 l'0 =
            match l0 with
            | [] -> (match l'0 with
                     | [] -> true
                     | _ :: _ -> false)
            | x :: r ->
              (match l'0 with
               | [] -> false
               | y :: r' -> (&&) (term_eqb x y) (go r r'))
          in go l l')
     | _ -> false)

type value =
| VB of bool
| VN of q
| VU of nat

(** val asB : value -> bool **)

let asB = function
| VB b -> b
| _ -> false

(** val asN : value -> q **)

let asN = function
| VN q0 -> q0
| _ -> { qnum = Z0; qden = XH }

(** val asU : value -> nat **)

let asU = function
| VU n -> n
| _ -> O

(** val veqb : value -> value -> bool **)

let veqb a b =
  match a with
  | VB x -> (match b with
             | VB y -> eqb x y
             | _ -> false)
  | VN x -> (match b with
             | VN y -> qeq_bool x y
             | _ -> false)
  | VU x -> (match b with
             | VU y -> Nat.eqb x y
             | _ -> false)

type interp = { vi : (sort -> nat -> value); fi : (nat -> value list -> value) }

(** val coerce : sort -> value -> value **)

let coerce s v =
  match s with
  | SBool -> VB (asB v)
  | SInt -> VN (inject_Z (qfloor (asN v)))
  | SReal -> VN (qred (asN v))
  | SU _ -> VU (asU v)

(** val chainb : ('a1 -> 'a1 -> bool) -> 'a1 list -> bool **)

let rec chainb r = function
| [] -> true
| a :: t -> (match t with
             | [] -> true
             | b :: _ -> (&&) (r a b) (chainb r t))

(** val pairwiseb : ('a1 -> 'a1 -> bool) -> 'a1 list -> bool **)

let rec pairwiseb r = function
| [] -> true
| a :: t -> (&&) (forallb (r a) t) (pairwiseb r t)

(** val qsum : q list -> q **)

let qsum l =
  fold_right qplus { qnum = Z0; qden = XH } l

(** val qprod : q list -> q **)

let qprod l =
  fold_right qmult { qnum = (Zpos XH); qden = XH } l

(** val qltb : q -> q -> bool **)

let qltb a b =
  negb (qle_bool b a)

(** val eval_op : interp -> op -> value list -> value **)

let eval_op i o vs =
  match o with
  | OAnd -> VB (forallb asB vs)
  | OOr -> VB (existsb asB vs)
  | ONot ->
    (match vs with
     | [] -> VB false
     | v :: l -> (match l with
                  | [] -> VB (negb (asB v))
                  | _ :: _ -> VB false))
  | OXor -> VB (fold_left xorb (map asB vs) false)
  | OImpl ->
    (match rev (map asB vs) with
     | [] -> VB true
     | c :: hyps -> VB (fold_left (fun acc h -> implb h acc) hyps c))
  | OIte ->
    (match vs with
     | [] -> VB false
     | c :: l ->
       (match l with
        | [] -> VB false
        | a :: l0 ->
          (match l0 with
           | [] -> VB false
           | b :: l1 ->
             (match l1 with
              | [] -> if asB c then a else b
              | _ :: _ -> VB false))))
  | OEq -> VB (chainb veqb vs)
  | ODistinct -> VB (pairwiseb (fun a b -> negb (veqb a b)) vs)
  | OPlus -> VN (qred (qsum (map asN vs)))
  | OMinus ->
    (match vs with
     | [] -> VN { qnum = Z0; qden = XH }
     | a :: r ->
       (match r with
        | [] -> VN (qred (qopp (asN a)))
        | _ :: _ -> VN (qred (qminus (asN a) (qsum (map asN r))))))
  | OTimes -> VN (qred (qprod (map asN vs)))
  | ORDiv ->
    (match vs with
     | [] -> VN { qnum = Z0; qden = XH }
     | a :: l ->
       (match l with
        | [] -> VN { qnum = Z0; qden = XH }
        | b :: l0 ->
          (match l0 with
           | [] -> VN (qred (qdiv (asN a) (asN b)))
           | _ :: _ -> VN { qnum = Z0; qden = XH })))
  | OIDiv ->
    (match vs with
     | [] -> VN { qnum = Z0; qden = XH }
     | a :: l ->
       (match l with
        | [] -> VN { qnum = Z0; qden = XH }
        | b :: l0 ->
          (match l0 with
           | [] -> VN (inject_Z (smt_div (qfloor (asN a)) (qfloor (asN b))))
           | _ :: _ -> VN { qnum = Z0; qden = XH })))
  | OMod ->
    (match vs with
     | [] -> VN { qnum = Z0; qden = XH }
     | a :: l ->
       (match l with
        | [] -> VN { qnum = Z0; qden = XH }
        | b :: l0 ->
          (match l0 with
           | [] -> VN (inject_Z (smt_mod (qfloor (asN a)) (qfloor (asN b))))
           | _ :: _ -> VN { qnum = Z0; qden = XH })))
  | OLeq -> VB (chainb qle_bool (map asN vs))
  | OLt -> VB (chainb qltb (map asN vs))
  | OGeq -> VB (chainb (fun a b -> qle_bool b a) (map asN vs))
  | OGt -> VB (chainb (fun a b -> qltb b a) (map asN vs))
  | OUF (f, rs) -> coerce rs (i.fi f vs)

(** val eval : interp -> term -> value **)

let rec eval i = function
| TVar (s, x) -> coerce s (i.vi s x)
| TBool b -> VB b
| TNum (_, q0, _) -> VN (qred q0)
| TUc (_, c) -> VU c
| TApp (o, args) -> eval_op i o (map (eval i) args)

(** val sort_of : term -> sort **)

let rec sort_of = function
| TVar (s, _) -> s
| TBool _ -> SBool
| TNum (s, _, _) -> s
| TUc (s, _) -> s
| TApp (o, args) ->
  (match o with
   | OIte ->
     (match args with
      | [] -> SBool
      | _ :: l ->
        (match l with
         | [] -> SBool
         | a :: l0 ->
           (match l0 with
            | [] -> SBool
            | _ :: l1 -> (match l1 with
                          | [] -> sort_of a
                          | _ :: _ -> SBool))))
   | OPlus -> (match args with
               | [] -> SInt
               | a :: _ -> sort_of a)
   | OMinus -> (match args with
                | [] -> SInt
                | a :: _ -> sort_of a)
   | OTimes -> (match args with
                | [] -> SInt
                | a :: _ -> sort_of a)
   | ORDiv -> SReal
   | OIDiv -> SInt
   | OMod -> SInt
   | OUF (_, rs) -> rs
   | _ -> SBool)

(** val is_num_sort : sort -> bool **)

let is_num_sort = function
| SBool -> false
| SU _ -> false
| _ -> true

(** val q_is_int : q -> bool **)

let q_is_int q0 =
  qeq_bool q0 (inject_Z (qfloor q0))

(** val all_sort : sort -> sort list -> bool **)

let all_sort s l =
  forallb (sort_eqb s) l

(** val op_ok : op -> sort list -> bool **)

let op_ok o ss =
  match o with
  | OAnd -> all_sort SBool ss
  | OOr -> all_sort SBool ss
  | ONot ->
    (match ss with
     | [] -> false
     | s :: l ->
       (match s with
        | SBool -> (match l with
                    | [] -> true
                    | _ :: _ -> false)
        | _ -> false))
  | OXor -> all_sort SBool ss
  | OImpl -> all_sort SBool ss
  | OIte ->
    (match ss with
     | [] -> false
     | s :: l ->
       (match s with
        | SBool ->
          (match l with
           | [] -> false
           | a :: l0 ->
             (match l0 with
              | [] -> false
              | b :: l1 ->
                (match l1 with
                 | [] -> sort_eqb a b
                 | _ :: _ -> false)))
        | _ -> false))
  | OEq -> (match ss with
            | [] -> false
            | s :: r -> all_sort s r)
  | ODistinct -> (match ss with
                  | [] -> false
                  | s :: r -> all_sort s r)
  | ORDiv ->
    (match ss with
     | [] -> false
     | s :: l ->
       (match s with
        | SReal ->
          (match l with
           | [] -> false
           | s0 :: l0 ->
             (match s0 with
              | SReal -> (match l0 with
                          | [] -> true
                          | _ :: _ -> false)
              | _ -> false))
        | _ -> false))
  | OIDiv ->
    (match ss with
     | [] -> false
     | s :: l ->
       (match s with
        | SInt ->
          (match l with
           | [] -> false
           | s0 :: l0 ->
             (match s0 with
              | SInt -> (match l0 with
                         | [] -> true
                         | _ :: _ -> false)
              | _ -> false))
        | _ -> false))
  | OMod ->
    (match ss with
     | [] -> false
     | s :: l ->
       (match s with
        | SInt ->
          (match l with
           | [] -> false
           | s0 :: l0 ->
             (match s0 with
              | SInt -> (match l0 with
                         | [] -> true
                         | _ :: _ -> false)
              | _ -> false))
        | _ -> false))
  | OUF (_, _) -> true
  | _ ->
    (match ss with
     | [] -> false
     | s :: r -> (&&) (is_num_sort s) (all_sort s r))

(** val wsort : term -> bool **)

let rec wsort = function
| TNum (s, q0, _) ->
  (match s with
   | SInt -> q_is_int q0
   | SReal -> true
   | _ -> false)
| TUc (s, _) -> (match s with
                 | SU _ -> true
                 | _ -> false)
| TApp (o, args) -> (&&) (forallb wsort args) (op_ok o (map sort_of args))
| _ -> true

(** val nfb : term -> bool **)

let rec nfb = function
| TApp (o, args) ->
  (&&) (forallb nfb args)
    (match o with
     | ONot ->
       (match args with
        | [] -> true
        | t0 :: l ->
          (match t0 with
           | TBool _ -> (match l with
                         | [] -> false
                         | _ :: _ -> true)
           | TApp (o0, _) ->
             (match o0 with
              | ONot -> (match l with
                         | [] -> false
                         | _ :: _ -> true)
              | _ -> true)
           | _ -> true))
     | _ -> true)
| _ -> true

(** val canonb : term -> bool **)

let rec canonb = function
| TNum (_, q0, sp) -> (&&) (Nat.eqb sp O) (q_eqb (qred q0) q0)
| TApp (_, args) -> forallb canonb args
| _ -> true

(** val wf_nc : term -> bool **)

let wf_nc t =
  (&&) (wsort t) (nfb t)

(** val wf : term -> bool **)

let wf t =
  (&&) ((&&) (wsort t) (nfb t)) (canonb t)

(** val is_const : term -> bool **)

let is_const = function
| TVar (_, _) -> false
| TApp (_, _) -> false
| _ -> true

(** val insert_by : ('a1 -> 'a1 -> bool) -> 'a1 -> 'a1 list -> 'a1 list **)

let rec insert_by le x l = match l with
| [] -> x :: []
| y :: r -> if le x y then x :: l else y :: (insert_by le x r)

(** val isort : ('a1 -> 'a1 -> bool) -> 'a1 list -> 'a1 list **)

let isort le l =
  fold_right (insert_by le) [] l

(** val is_true : term -> bool **)

let is_true = function
| TBool b -> b
| _ -> false

(** val is_false : term -> bool **)

let is_false = function
| TBool b -> if b then false else true
| _ -> false

(** val is_bool : term -> bool **)

let is_bool t =
  sort_eqb (sort_of t) SBool

(** val mkNot_raw : term -> term **)

let mkNot_raw t = match t with
| TBool b -> TBool (negb b)
| TApp (o, args) ->
  (match o with
   | ONot ->
     (match args with
      | [] -> TApp (ONot, (t :: []))
      | a :: l -> (match l with
                   | [] -> a
                   | _ :: _ -> TApp (ONot, (t :: []))))
   | _ -> TApp (ONot, (t :: [])))
| _ -> TApp (ONot, (t :: []))

(** val mkNot : term -> term option **)

let mkNot t =
  if is_bool t then Some (mkNot_raw t) else None

type lit = term * bool

(** val split_lit : term -> lit **)

let split_lit t = match t with
| TApp (o, args) ->
  (match o with
   | ONot ->
     (match args with
      | [] -> (t, true)
      | a :: l -> (match l with
                   | [] -> (a, false)
                   | _ :: _ -> (t, true)))
   | _ -> (t, true))
| _ -> (t, true)

(** val lit_term : lit -> term **)

let lit_term p =
  if snd p then fst p else mkNot_raw (fst p)

(** val lit_leb : (term -> term -> bool) -> lit -> lit -> bool **)

let lit_leb leb0 a b =
  leb0 (fst a) (fst b)

(** val ltb0 : (term -> term -> bool) -> term -> term -> bool **)

let ltb0 leb0 a b =
  negb (leb0 b a)

(** val sel_min :
    (term -> term -> bool) -> term -> term -> term list -> (term * term
    list) * bool **)

let rec sel_min leb0 x0 best = function
| [] -> ((best, []), false)
| y :: r' ->
  if ltb0 leb0 y best
  then let (p, b) = sel_min leb0 x0 y r' in
       let (m, r'') = p in
       if b then ((m, (y :: r'')), true) else ((y, (x0 :: r')), true)
  else let (p, rep) = sel_min leb0 x0 best r' in
       let (m, r'') = p in ((m, (y :: r'')), rep)

(** val sel_sort : (term -> term -> bool) -> nat -> term list -> term list **)

let rec sel_sort leb0 fuel l =
  match fuel with
  | O -> l
  | S n ->
    (match l with
     | [] -> l
     | x :: r ->
       let (p, _) = sel_min leb0 x x r in
       let (m, r') = p in m :: (sel_sort leb0 n r'))

(** val tsort : (term -> term -> bool) -> term list -> term list **)

let tsort leb0 l =
  sel_sort leb0 (length l) l

(** val and_scan : lit option -> lit list -> lit list option **)

let rec and_scan p = function
| [] -> Some []
| e :: r ->
  if is_false (fst e)
  then None
  else if is_true (fst e)
       then and_scan p r
       else (match p with
             | Some q0 ->
               if term_eqb (fst q0) (fst e)
               then if eqb (snd q0) (snd e) then and_scan p r else None
               else option_map (fun x -> e :: x) (and_scan (Some e) r)
             | None -> option_map (fun x -> e :: x) (and_scan (Some e) r))

(** val or_scan : lit option -> lit list -> lit list option **)

let rec or_scan p = function
| [] -> Some []
| e :: r ->
  if is_true (fst e)
  then None
  else if is_false (fst e)
       then or_scan p r
       else (match p with
             | Some q0 ->
               if term_eqb (fst q0) (fst e)
               then if eqb (snd q0) (snd e) then or_scan p r else None
               else option_map (fun x -> e :: x) (or_scan (Some e) r)
             | None -> option_map (fun x -> e :: x) (or_scan (Some e) r))

(** val mkAnd : (term -> term -> bool) -> term list -> term option **)

let mkAnd leb0 args = match args with
| [] -> Some (TBool true)
| _ :: _ ->
  if negb (forallb is_bool args)
  then None
  else (match and_scan None (isort (lit_leb leb0) (map split_lit args)) with
        | Some l ->
          (match l with
           | [] -> Some (TBool true)
           | e :: l0 ->
             (match l0 with
              | [] -> Some (lit_term e)
              | _ :: _ -> Some (TApp (OAnd, (map lit_term l)))))
        | None -> Some (TBool false))

(** val mkOr : (term -> term -> bool) -> term list -> term option **)

let mkOr leb0 args = match args with
| [] -> Some (TBool false)
| _ :: _ ->
  if negb (forallb is_bool args)
  then None
  else (match or_scan None (isort (lit_leb leb0) (map split_lit args)) with
        | Some l ->
          (match l with
           | [] -> Some (TBool false)
           | e :: l0 ->
             (match l0 with
              | [] -> Some (lit_term e)
              | _ :: _ -> Some (TApp (OOr, (map lit_term l)))))
        | None -> Some (TBool true))

(** val mkXor : (term -> term -> bool) -> term list -> term option **)

let mkXor leb0 args =
  if negb (forallb is_bool args)
  then None
  else (match args with
        | [] -> None
        | a :: l ->
          (match l with
           | [] -> None
           | b :: l0 ->
             (match l0 with
              | [] ->
                if term_eqb a b
                then Some (TBool false)
                else if term_eqb a (mkNot_raw b)
                     then Some (TBool true)
                     else if is_true a
                          then Some (mkNot_raw b)
                          else if is_true b
                               then Some (mkNot_raw a)
                               else if is_false a
                                    then Some b
                                    else if is_false b
                                         then Some a
                                         else Some (TApp (OXor,
                                                (tsort leb0 (a :: (b :: [])))))
              | _ :: _ -> None)))

(** val mkImpl : (term -> term -> bool) -> term list -> term option **)

let mkImpl leb0 args =
  if negb (forallb is_bool args)
  then None
  else (match args with
        | [] -> None
        | a :: l ->
          (match l with
           | [] -> None
           | b :: l0 ->
             (match l0 with
              | [] ->
                if is_false a
                then Some (TBool true)
                else if is_true b
                     then Some (TBool true)
                     else if (&&) (is_true a) (is_false b)
                          then Some (TBool false)
                          else mkOr leb0 ((mkNot_raw a) :: (b :: []))
              | _ :: _ -> None)))

(** val mkIte : term list -> term option **)

let mkIte = function
| [] -> None
| c :: l ->
  (match l with
   | [] -> None
   | a :: l0 ->
     (match l0 with
      | [] -> None
      | b :: l1 ->
        (match l1 with
         | [] ->
           if negb (is_bool c)
           then None
           else if is_true c
                then Some a
                else if is_false c
                     then Some b
                     else if term_eqb a b
                          then Some a
                          else if negb (sort_eqb (sort_of a) (sort_of b))
                               then None
                               else Some (TApp (OIte,
                                      (c :: (a :: (b :: [])))))
         | _ :: _ -> None)))

(** val core_mkBinaryEq :
    (term -> term -> bool) -> term -> term -> term option **)

let core_mkBinaryEq leb0 lhs rhs =
  if negb (sort_eqb (sort_of lhs) (sort_of rhs))
  then None
  else if term_eqb lhs rhs
       then Some (TBool true)
       else if (&&) (is_const lhs) (is_const rhs)
            then Some (TBool false)
            else if is_bool lhs
                 then if term_eqb lhs (mkNot_raw rhs)
                      then Some (TBool false)
                      else if is_true lhs
                           then Some rhs
                           else if is_true rhs
                                then Some lhs
                                else if is_false lhs
                                     then Some (mkNot_raw rhs)
                                     else if is_false rhs
                                          then Some (mkNot_raw lhs)
                                          else Some (TApp (OEq,
                                                 (lhs :: (rhs :: []))))
                 else Some (TApp (OEq, (tsort leb0 (lhs :: (rhs :: [])))))

(** val eq_chain :
    (term -> term -> term option) -> term list -> term list option **)

let rec eq_chain beq = function
| [] -> Some []
| a :: t ->
  (match t with
   | [] -> Some []
   | b :: _ ->
     (match beq a b with
      | Some e ->
        (match eq_chain beq t with
         | Some r -> Some (e :: r)
         | None -> None)
      | None -> None))

(** val mkEq_gen :
    (term -> term -> bool) -> (term -> term -> term option) -> term list ->
    term option **)

let mkEq_gen leb0 beq args = match args with
| [] -> None
| a :: l ->
  (match l with
   | [] -> None
   | b :: l0 ->
     (match l0 with
      | [] -> beq a b
      | _ :: _ ->
        (match eq_chain beq args with
         | Some es -> mkAnd leb0 es
         | None -> None)))

(** val has_adjacent_dup : term list -> bool **)

let rec has_adjacent_dup = function
| [] -> false
| a :: t ->
  (match t with
   | [] -> false
   | b :: _ -> (||) (term_eqb a b) (has_adjacent_dup t))

(** val all_pairs : term list -> (term * term) list **)

let rec all_pairs = function
| [] -> []
| a :: t -> app (map (fun x -> (a, x)) t) (all_pairs t)

(** val sequence : 'a1 option list -> 'a1 list option **)

let rec sequence = function
| [] -> Some []
| o :: r ->
  (match o with
   | Some a -> option_map (fun x -> a :: x) (sequence r)
   | None -> None)

(** val mkDistinct2 :
    (term -> term -> term option) -> term -> term -> term option **)

let mkDistinct2 beq a b =
  match beq a b with
  | Some e -> mkNot e
  | None -> None

(** val mkDistinct_gen :
    (term -> term -> bool) -> (term -> term -> term option) -> bool -> term
    list -> term option **)

let mkDistinct_gen leb0 beq expand args = match args with
| [] -> Some (TBool true)
| a0 :: l ->
  (match l with
   | [] -> Some (TBool true)
   | b :: l0 ->
     (match l0 with
      | [] -> mkDistinct2 beq a0 b
      | _ :: _ ->
        if is_bool a0
        then Some (TBool false)
        else let s = tsort leb0 args in
             if has_adjacent_dup s
             then Some (TBool false)
             else if forallb is_const s
                  then Some (TBool true)
                  else if expand
                       then (match sequence
                                     (map (fun p ->
                                       mkDistinct2 beq (fst p) (snd p))
                                       (all_pairs s)) with
                             | Some ds -> mkAnd leb0 ds
                             | None -> None)
                       else if forallb (fun t ->
                                 sort_eqb (sort_of t) (sort_of a0)) args
                            then Some (TApp (ODistinct, s))
                            else None))

(** val mkUF : nat -> sort -> term list -> term option **)

let mkUF f rs args =
  Some (TApp ((OUF (f, rs)), args))

(** val qabs : q -> q **)

let qabs x =
  let { qnum = n; qden = d } = x in { qnum = (Z.abs n); qden = d }

type mono = term * q

type poly = mono list * q

(** val is_num_const : term -> bool **)

let is_num_const = function
| TNum (_, _, _) -> true
| _ -> false

(** val num_val : term -> q **)

let num_val = function
| TNum (_, q0, _) -> q0
| _ -> { qnum = Z0; qden = XH }

(** val is_plus : term -> bool **)

let is_plus = function
| TApp (o, _) -> (match o with
                  | OPlus -> true
                  | _ -> false)
| _ -> false

(** val is_times : term -> bool **)

let is_times = function
| TApp (o, _) -> (match o with
                  | OTimes -> true
                  | _ -> false)
| _ -> false

(** val is_atom : term -> bool **)

let is_atom t =
  (&&)
    ((&&) ((&&) (is_num_sort (sort_of t)) (negb (is_plus t)))
      (negb (is_times t))) (negb (is_num_const t))

(** val lin_factor : term -> poly option **)

let lin_factor t = match t with
| TNum (_, q0, _) -> Some ([], q0)
| TApp (o, args) ->
  (match o with
   | OTimes ->
     (match args with
      | [] ->
        if is_atom t
        then Some (((t, { qnum = (Zpos XH); qden = XH }) :: []), { qnum = Z0;
               qden = XH })
        else None
      | a :: l ->
        (match l with
         | [] ->
           if is_atom t
           then Some (((t, { qnum = (Zpos XH); qden = XH }) :: []), { qnum =
                  Z0; qden = XH })
           else None
         | b :: l0 ->
           (match l0 with
            | [] ->
              if (&&) (is_num_const a) (is_atom b)
              then Some (((b, (num_val a)) :: []), { qnum = Z0; qden = XH })
              else if (&&) (is_num_const b) (is_atom a)
                   then Some (((a, (num_val b)) :: []), { qnum = Z0; qden =
                          XH })
                   else None
            | _ :: _ ->
              if is_atom t
              then Some (((t, { qnum = (Zpos XH); qden = XH }) :: []),
                     { qnum = Z0; qden = XH })
              else None)))
   | _ ->
     if is_atom t
     then Some (((t, { qnum = (Zpos XH); qden = XH }) :: []), { qnum = Z0;
            qden = XH })
     else None)
| _ ->
  if is_atom t
  then Some (((t, { qnum = (Zpos XH); qden = XH }) :: []), { qnum = Z0;
         qden = XH })
  else None

(** val padd : poly -> poly -> poly **)

let padd p q0 =
  ((app (fst p) (fst q0)), (qplus (snd p) (snd q0)))

(** val pscale : q -> poly -> poly **)

let pscale k p =
  ((map (fun m -> ((fst m), (qmult k (snd m)))) (fst p)), (qmult k (snd p)))

(** val pzero : poly **)

let pzero =
  ([], { qnum = Z0; qden = XH })

(** val psum : poly option list -> poly option **)

let rec psum = function
| [] -> Some pzero
| o :: r ->
  (match o with
   | Some p -> option_map (padd p) (psum r)
   | None -> None)

(** val linearize : term -> poly option **)

let linearize t = match t with
| TApp (o, args) ->
  (match o with
   | OPlus -> psum (map lin_factor args)
   | _ -> lin_factor t)
| _ -> lin_factor t

(** val madd : term -> q -> mono list -> mono list **)

let rec madd a k = function
| [] -> (a, k) :: []
| m :: r ->
  let (b, k') = m in
  if term_eqb a b then (b, (qplus k' k)) :: r else (b, k') :: (madd a k r)

(** val merge : mono list -> mono list **)

let merge ms =
  fold_left (fun acc m -> madd (fst m) (snd m) acc) ms []

(** val nonzero : mono -> bool **)

let nonzero m =
  negb (qeq_bool (snd m) { qnum = Z0; qden = XH })

(** val pnorm : poly -> poly **)

let pnorm p =
  ((filter nonzero (merge (fst p))), (snd p))

(** val num : sort -> q -> term **)

let num s q0 =
  TNum (s, (qred q0), O)

(** val mono_term : (term -> term -> bool) -> sort -> mono -> term **)

let mono_term leb0 s m =
  if qeq_bool (snd m) { qnum = (Zpos XH); qden = XH }
  then fst m
  else TApp (OTimes, (tsort leb0 ((num s (snd m)) :: ((fst m) :: []))))

(** val to_term : (term -> term -> bool) -> sort -> poly -> term **)

let to_term leb0 s p =
  let fs = map (mono_term leb0 s) (filter nonzero (fst p)) in
  let all =
    app fs
      (if qeq_bool (snd p) { qnum = Z0; qden = XH }
       then []
       else (num s (snd p)) :: [])
  in
  (match all with
   | [] -> num s { qnum = Z0; qden = XH }
   | t :: l ->
     (match l with
      | [] -> t
      | _ :: _ -> TApp (OPlus, (tsort leb0 all))))

(** val same_num_sort : term list -> sort option **)

let same_num_sort = function
| [] -> None
| a :: r ->
  let s = sort_of a in
  if (&&) (is_num_sort s) (forallb (fun t -> sort_eqb (sort_of t) s) r)
  then Some s
  else None

(** val mkPlus : (term -> term -> bool) -> term list -> term option **)

let mkPlus leb0 args =
  match same_num_sort args with
  | Some s ->
    (match psum (map linearize args) with
     | Some p -> Some (to_term leb0 s (pnorm p))
     | None -> None)
  | None -> None

(** val mkNeg : (term -> term -> bool) -> term -> term option **)

let mkNeg leb0 t =
  if negb (is_num_sort (sort_of t))
  then None
  else (match linearize t with
        | Some p ->
          Some
            (to_term leb0 (sort_of t)
              (pnorm (pscale { qnum = (Zneg XH); qden = XH } p)))
        | None -> None)

(** val mkMinus : (term -> term -> bool) -> term list -> term option **)

let mkMinus leb0 = function
| [] -> None
| a :: r ->
  (match r with
   | [] -> mkNeg leb0 a
   | _ :: _ ->
     (match sequence (map (mkNeg leb0) r) with
      | Some nr -> mkPlus leb0 (a :: nr)
      | None -> None))

(** val flatten_times : term list -> term list **)

let flatten_times args =
  flat_map (fun t ->
    match t with
    | TApp (o, l) -> (match o with
                      | OTimes -> l
                      | _ -> t :: [])
    | _ -> t :: []) args

(** val last_only : 'a1 list -> 'a1 list **)

let last_only l =
  match rev l with
  | [] -> []
  | x :: _ -> x :: []

(** val mkTimes :
    (term -> term -> bool) -> bool -> term list -> term option **)

let mkTimes leb0 fixed args =
  match same_num_sort args with
  | Some s ->
    let fl = flatten_times args in
    let consts = filter is_num_const fl in
    let others = filter (fun t -> negb (is_num_const t)) fl in
    (match consts with
     | [] ->
       (match others with
        | [] -> None
        | t :: l -> (match l with
                     | [] -> Some t
                     | _ :: _ -> None))
     | _ :: _ ->
       let k = qprod (map num_val consts) in
       if qeq_bool k { qnum = Z0; qden = XH }
       then Some (num s { qnum = Z0; qden = XH })
       else let pluses = filter is_plus others in
            let atoms = filter (fun t -> negb (is_plus t)) others in
            (match app atoms (if fixed then pluses else last_only pluses) with
             | [] -> Some (num s k)
             | e :: l ->
               (match l with
                | [] ->
                  (match linearize e with
                   | Some p -> Some (to_term leb0 s (pnorm (pscale k p)))
                   | None -> None)
                | _ :: _ -> None)))
  | None -> None

(** val mkRealDiv : (term -> term -> bool) -> term list -> term option **)

let mkRealDiv leb0 = function
| [] -> None
| a :: l ->
  (match l with
   | [] -> None
   | b :: l0 ->
     (match l0 with
      | [] ->
        if negb
             ((&&) (sort_eqb (sort_of a) SReal) (sort_eqb (sort_of b) SReal))
        then None
        else if negb (is_num_const b)
             then None
             else if qeq_bool (num_val b) { qnum = Z0; qden = XH }
                  then None
                  else (match linearize a with
                        | Some p ->
                          Some
                            (to_term leb0 SReal
                              (pnorm (pscale (qinv (num_val b)) p)))
                        | None -> None)
      | _ :: _ -> None))

(** val int_of : term -> z **)

let int_of t =
  qfloor (num_val t)

(** val mkIntDiv : (term -> term -> bool) -> term list -> term option **)

let mkIntDiv leb0 = function
| [] -> None
| a :: l ->
  (match l with
   | [] -> None
   | b :: l0 ->
     (match l0 with
      | [] ->
        if negb ((&&) (sort_eqb (sort_of a) SInt) (sort_eqb (sort_of b) SInt))
        then None
        else if negb (is_num_const b)
             then None
             else if qeq_bool (num_val b) { qnum = Z0; qden = XH }
                  then None
                  else if qeq_bool (num_val b) { qnum = (Zpos XH); qden = XH }
                       then Some a
                       else if qeq_bool (num_val b) { qnum = (Zneg XH);
                                 qden = XH }
                            then mkNeg leb0 a
                            else if is_num_const a
                                 then option_map (fun z0 ->
                                        num SInt (inject_Z z0))
                                        (fold_div (int_of a) (int_of b))
                                 else Some (TApp (OIDiv, (a :: (b :: []))))
      | _ :: _ -> None))

(** val mkMod : term list -> term option **)

let mkMod = function
| [] -> None
| a :: l ->
  (match l with
   | [] -> None
   | b :: l0 ->
     (match l0 with
      | [] ->
        if negb ((&&) (sort_eqb (sort_of a) SInt) (sort_eqb (sort_of b) SInt))
        then None
        else if negb (is_num_const b)
             then None
             else if qeq_bool (num_val b) { qnum = Z0; qden = XH }
                  then None
                  else if (||)
                            (qeq_bool (num_val b) { qnum = (Zpos XH); qden =
                              XH })
                            (qeq_bool (num_val b) { qnum = (Zneg XH); qden =
                              XH })
                       then Some (num SInt { qnum = Z0; qden = XH })
                       else if is_num_const a
                            then option_map (fun z0 ->
                                   num SInt (inject_Z z0))
                                   (fold_mod (int_of a) (int_of b))
                            else Some (TApp (OMod, (a :: (b :: []))))
      | _ :: _ -> None))

(** val lead_of : (term -> term -> bool) -> mono -> mono list -> mono **)

let rec lead_of leb0 m = function
| [] -> m
| m' :: r ->
  if leb0 (fst m) (fst m') then lead_of leb0 m r else lead_of leb0 m' r

(** val zgcd_list : z list -> z **)

let zgcd_list l =
  fold_right Z.gcd Z0 l

(** val all_int : mono list -> bool **)

let all_int ms =
  forallb (fun m -> q_is_int (snd m)) ms

(** val norm_div : (term -> term -> bool) -> sort -> mono list -> q option **)

let norm_div leb0 s ms = match ms with
| [] -> None
| m :: r ->
  (match s with
   | SInt ->
     if all_int ms
     then Some (inject_Z (zgcd_list (map (fun m0 -> qfloor (snd m0)) ms)))
     else None
   | SReal -> Some (qabs (snd (lead_of leb0 m r)))
   | _ -> None)

(** val scale_monos : q -> mono list -> mono list **)

let scale_monos d ms =
  map (fun m -> ((fst m), (qdiv (snd m) d))) ms

(** val leq_of_poly :
    (term -> term -> bool) -> sort -> poly -> term option **)

let leq_of_poly leb0 s = function
| (ms, c) ->
  (match ms with
   | [] -> Some (TBool (qle_bool { qnum = Z0; qden = XH } c))
   | m :: r ->
     (match r with
      | [] ->
        if qeq_bool c { qnum = Z0; qden = XH }
        then Some (TApp (OLeq,
               ((num s { qnum = Z0; qden = XH }) :: ((if qle_bool { qnum =
                                                           Z0; qden = XH }
                                                           (snd m)
                                                      then fst m
                                                      else TApp (OTimes,
                                                             (tsort leb0
                                                               ((num s
                                                                  { qnum =
                                                                  (Zneg XH);
                                                                  qden = XH }) :: (
                                                               (fst m) :: []))))) :: []))))
        else (match norm_div leb0 s ms with
              | Some d ->
                let bound = qdiv (qopp c) d in
                let bound0 =
                  match s with
                  | SInt -> inject_Z (qceiling bound)
                  | _ -> bound
                in
                Some (TApp (OLeq,
                ((num s bound0) :: ((to_term leb0 s ((scale_monos d ms),
                                      { qnum = Z0; qden = XH })) :: []))))
              | None -> None)
      | _ :: _ ->
        (match norm_div leb0 s ms with
         | Some d ->
           let bound = qdiv (qopp c) d in
           let bound0 =
             match s with
             | SInt -> inject_Z (qceiling bound)
             | _ -> bound
           in
           Some (TApp (OLeq,
           ((num s bound0) :: ((to_term leb0 s ((scale_monos d ms), { qnum =
                                 Z0; qden = XH })) :: []))))
         | None -> None)))

(** val diff_poly : term -> term -> poly option **)

let diff_poly lhs rhs =
  match linearize rhs with
  | Some pr ->
    (match linearize lhs with
     | Some pl ->
       Some (pnorm (padd pr (pscale { qnum = (Zneg XH); qden = XH } pl)))
     | None -> None)
  | None -> None

(** val mkBinaryLeq :
    (term -> term -> bool) -> term -> term -> term option **)

let mkBinaryLeq leb0 lhs rhs =
  match same_num_sort (lhs :: (rhs :: [])) with
  | Some s ->
    if (&&) (is_num_const lhs) (is_num_const rhs)
    then Some (TBool (qle_bool (num_val lhs) (num_val rhs)))
    else (match diff_poly lhs rhs with
          | Some p -> leq_of_poly leb0 s p
          | None -> None)
  | None -> None

(** val mkBinaryGeq :
    (term -> term -> bool) -> term -> term -> term option **)

let mkBinaryGeq leb0 lhs rhs =
  mkBinaryLeq leb0 rhs lhs

(** val mkBinaryLt : (term -> term -> bool) -> term -> term -> term option **)

let mkBinaryLt leb0 lhs rhs =
  match mkBinaryGeq leb0 lhs rhs with
  | Some t -> mkNot t
  | None -> None

(** val mkBinaryGt : (term -> term -> bool) -> term -> term -> term option **)

let mkBinaryGt leb0 lhs rhs =
  match mkBinaryLeq leb0 lhs rhs with
  | Some t -> mkNot t
  | None -> None

(** val mkCmp :
    (term -> term -> bool) -> (term -> term -> term option) -> term list ->
    term option **)

let mkCmp leb0 bin args = match args with
| [] -> None
| a :: l ->
  (match l with
   | [] -> None
   | b :: l0 ->
     (match l0 with
      | [] -> bin a b
      | _ :: _ ->
        (match eq_chain bin args with
         | Some es -> mkAnd leb0 es
         | None -> None)))

(** val mkLeq : (term -> term -> bool) -> term list -> term option **)

let mkLeq leb0 =
  mkCmp leb0 (mkBinaryLeq leb0)

(** val mkGeq : (term -> term -> bool) -> term list -> term option **)

let mkGeq leb0 =
  mkCmp leb0 (mkBinaryGeq leb0)

(** val mkLt : (term -> term -> bool) -> term list -> term option **)

let mkLt leb0 =
  mkCmp leb0 (mkBinaryLt leb0)

(** val mkGt : (term -> term -> bool) -> term list -> term option **)

let mkGt leb0 =
  mkCmp leb0 (mkBinaryGt leb0)

(** val eq_of_poly : (term -> term -> bool) -> sort -> poly -> term option **)

let eq_of_poly leb0 s = function
| (ms, c) ->
  (match ms with
   | [] -> Some (TBool (qeq_bool c { qnum = Z0; qden = XH }))
   | m :: r ->
     (match r with
      | [] ->
        if qeq_bool c { qnum = Z0; qden = XH }
        then core_mkBinaryEq leb0 (num s { qnum = Z0; qden = XH }) (fst m)
        else (match norm_div leb0 s ms with
              | Some d ->
                let lhs = qdiv (qopp c) d in
                if (&&) (sort_eqb s SInt) (negb (q_is_int lhs))
                then Some (TBool false)
                else let ms' = scale_monos d ms in
                     let neg =
                       negb
                         (qle_bool { qnum = Z0; qden = XH }
                           (snd (lead_of leb0 m r)))
                     in
                     let ms'' =
                       if neg
                       then map (fun m0 -> ((fst m0), (qopp (snd m0)))) ms'
                       else ms'
                     in
                     let lhs' = if neg then qopp lhs else lhs in
                     core_mkBinaryEq leb0 (num s lhs')
                       (to_term leb0 s (ms'', { qnum = Z0; qden = XH }))
              | None -> None)
      | _ :: _ ->
        (match norm_div leb0 s ms with
         | Some d ->
           let lhs = qdiv (qopp c) d in
           if (&&) (sort_eqb s SInt) (negb (q_is_int lhs))
           then Some (TBool false)
           else let ms' = scale_monos d ms in
                let neg =
                  negb
                    (qle_bool { qnum = Z0; qden = XH }
                      (snd (lead_of leb0 m r)))
                in
                let ms'' =
                  if neg
                  then map (fun m0 -> ((fst m0), (qopp (snd m0)))) ms'
                  else ms'
                in
                let lhs' = if neg then qopp lhs else lhs in
                core_mkBinaryEq leb0 (num s lhs')
                  (to_term leb0 s (ms'', { qnum = Z0; qden = XH }))
         | None -> None)))

(** val arith_mkBinaryEq :
    (term -> term -> bool) -> bool -> term -> term -> term option **)

let arith_mkBinaryEq leb0 uf lhs rhs =
  if negb (sort_eqb (sort_of lhs) (sort_of rhs))
  then None
  else if (||) uf (negb (is_num_sort (sort_of lhs)))
       then core_mkBinaryEq leb0 lhs rhs
       else if (&&) (is_num_const lhs) (is_num_const rhs)
            then Some (TBool (qeq_bool (num_val lhs) (num_val rhs)))
            else (match diff_poly lhs rhs with
                  | Some p -> eq_of_poly leb0 (sort_of lhs) p
                  | None -> None)

(** val mkEq : (term -> term -> bool) -> bool -> term list -> term option **)

let mkEq leb0 uf =
  mkEq_gen leb0 (arith_mkBinaryEq leb0 uf)

(** val mkDistinct :
    (term -> term -> bool) -> bool -> bool -> term list -> term option **)

let mkDistinct leb0 uf =
  mkDistinct_gen leb0 (arith_mkBinaryEq leb0 uf)
