(* C14 — term constructors return equivalent terms.  Theorems only; proofs are in Terms/*.v.

   Shape of every theorem: for all argument lists of well-formed terms ([wf]: well sorted, the mkNot invariant,
   canonically spelled literals), every interpretation I (Int symbols range over all integers, Real symbols
   over all rationals, uninterpreted symbols over everything) and every relation [leb] (the PTRef order: an
   arbitrary relation, so every creation order is covered), if the constructor returns a term t then
       eval I t = eval I (TApp <operator> args),
   the SMT-LIB value of the operator applied to the arguments.  [None] = the constructor throws / returns
   PTRef_Undef; nothing is claimed then. *)
From Coq Require Import ZArith QArith List Bool.
From OsmtV.Terms Require Import TermSem BoolCtors BoolCtorsBase BoolCtorsProofs LinNorm LinNormBase LinNormProofs
  LinNormIneq LinNormEq.
Import ListNotations.

(* ---------- Boolean / core constructors (Logic.cc) ---------- *)
Theorem mkNot_equiv : forall I t r, wf t = true -> mkNot t = Some r -> eval I r = eval I (TApp ONot [t]).
Proof. exact BoolCtorsProofs.mkNot_equiv. Qed.
Print Assumptions mkNot_equiv.

Theorem mkAnd_equiv : forall leb I args t, forallb wf args = true -> mkAnd leb args = Some t ->
  eval I t = eval I (TApp OAnd args).
Proof. exact BoolCtorsProofs.mkAnd_equiv. Qed.
Print Assumptions mkAnd_equiv.

Theorem mkOr_equiv : forall leb I args t, forallb wf args = true -> mkOr leb args = Some t ->
  eval I t = eval I (TApp OOr args).
Proof. exact BoolCtorsProofs.mkOr_equiv. Qed.
Print Assumptions mkOr_equiv.

Theorem mkXor_equiv : forall leb I args t, forallb wf args = true -> mkXor leb args = Some t ->
  eval I t = eval I (TApp OXor args).
Proof. exact BoolCtorsProofs.mkXor_equiv. Qed.
Print Assumptions mkXor_equiv.

Theorem mkImpl_equiv : forall leb I args t, forallb wf args = true -> mkImpl leb args = Some t ->
  eval I t = eval I (TApp OImpl args).
Proof. exact BoolCtorsProofs.mkImpl_equiv. Qed.
Print Assumptions mkImpl_equiv.

Theorem mkIte_equiv : forall I args t, mkIte args = Some t -> eval I t = eval I (TApp OIte args).
Proof. exact BoolCtorsProofs.mkIte_equiv. Qed.
Print Assumptions mkIte_equiv.

(* Logic::mkEq with Logic::mkBinaryEq (Bool and uninterpreted sorts; arithmetic sorts in logics with UF/arrays) *)
Theorem mkEq_bool_equiv : forall leb I args t, forallb wf args = true -> core_mkEq leb args = Some t ->
  eval I t = eval I (TApp OEq args).
Proof. exact BoolCtorsProofs.core_mkEq_equiv. Qed.
Print Assumptions mkEq_bool_equiv.

(* mkEq with ArithLogic::mkBinaryEq (uf = the logic has UF or arrays); every sort *)
Theorem mkEq_arith_equiv : forall leb I uf args t, forallb wf args = true -> mkEq leb uf args = Some t ->
  eval I t = eval I (TApp OEq args).
Proof. exact LinNormEq.mkEq_equiv. Qed.
Print Assumptions mkEq_arith_equiv.

(* mkDistinct, both the distinct-term form and the O(n^2) expansion.  The order on *constants* must be a total
   order (it is: PTRefs of constants are compared directly) because "all constants => true" relies on the
   sorted duplicate scan. *)
Theorem mkDistinct_equiv : forall leb I uf expand args t,
  (forall a b, is_const a = true -> is_const b = true -> leb a b = true \/ leb b a = true) ->
  (forall a b c, is_const a = true -> is_const b = true -> is_const c = true ->
                 leb a b = true -> leb b c = true -> leb a c = true) ->
  (forall a b, is_const a = true -> is_const b = true -> leb a b = true -> leb b a = true -> a = b) ->
  forallb wf args = true ->
  (forall a b, In a args -> In b args -> sort_of a = sort_of b) ->
  mkDistinct leb uf expand args = Some t ->
  eval I t = eval I (TApp ODistinct args).
Proof. exact LinNormEq.mkDistinct_equiv. Qed.
Print Assumptions mkDistinct_equiv.

(* select / store / uninterpreted applications are passed through unchanged (Logic::mkSelect, mkStore, mkUninterpFun) *)
Theorem mkUF_passthrough : forall I f rs args t, mkUF f rs args = Some t -> eval I t = eval I (TApp (OUF f rs) args).
Proof. intros I f rs args t E. inversion E. reflexivity. Qed.
Print Assumptions mkUF_passthrough.

(* ---------- arithmetic constructors (ArithLogic.cc) ---------- *)
Theorem mkPlus_equiv : forall leb I args t, forallb wf args = true -> mkPlus leb args = Some t ->
  eval I t = eval I (TApp OPlus args).
Proof. exact LinNormProofs.mkPlus_equiv. Qed.
Print Assumptions mkPlus_equiv.

Theorem mkNeg_equiv : forall leb I t r, wf t = true -> mkNeg leb t = Some r -> eval I r = eval I (TApp OMinus [t]).
Proof. exact LinNormProofs.mkNeg_equiv. Qed.
Print Assumptions mkNeg_equiv.

Theorem mkMinus_equiv : forall leb I args t, forallb wf args = true -> mkMinus leb args = Some t ->
  eval I t = eval I (TApp OMinus args).
Proof. exact LinNormProofs.mkMinus_equiv. Qed.
Print Assumptions mkMinus_equiv.

(* mkTimes with every sum kept among the factors (the repaired SimplifyConstTimes::constSimplify) *)
Theorem mkTimes_equiv : forall leb I args t, forallb wf args = true -> mkTimes leb true args = Some t ->
  eval I t = eval I (TApp OTimes args).
Proof. exact LinNormProofs.mkTimes_equiv. Qed.
Print Assumptions mkTimes_equiv.

(* the code as it stands: with a constant factor, every sum but the last is dropped: 2*(x+1)*(y+2) = 2y+4 *)
Theorem mkTimes_unfixed_refuted :
  exists leb args I t, forallb wf args = true /\ mkTimes leb false args = Some t /\
                       eval I t <> eval I (TApp OTimes args).
Proof. exact LinNormProofs.mkTimes_unfixed_refuted. Qed.
Print Assumptions mkTimes_unfixed_refuted.

Theorem mkRealDiv_equiv : forall leb I args t, forallb wf args = true -> mkRealDiv leb args = Some t ->
  eval I t = eval I (TApp ORDiv args).
Proof. exact LinNormProofs.mkRealDiv_equiv. Qed.
Print Assumptions mkRealDiv_equiv.

Theorem mkIntDiv_equiv : forall leb I args t, forallb wf args = true -> mkIntDiv leb args = Some t ->
  eval I t = eval I (TApp OIDiv args).
Proof. exact LinNormProofs.mkIntDiv_equiv. Qed.
Print Assumptions mkIntDiv_equiv.

Theorem mkMod_equiv : forall I args t, forallb wf args = true -> mkMod args = Some t ->
  eval I t = eval I (TApp OMod args).
Proof. exact LinNormProofs.mkMod_equiv. Qed.
Print Assumptions mkMod_equiv.

(* comparisons: Real (scaling by the leading coefficient) and Int (gcd scaling + ceiling; I ranges over integer
   assignments of the Int symbols by construction of eval) in one statement; the two named instances follow *)
Theorem mkLeq_equiv : forall leb I args t, forallb wf args = true -> mkLeq leb args = Some t ->
  eval I t = eval I (TApp OLeq args).
Proof. exact LinNormIneq.mkLeq_equiv. Qed.
Print Assumptions mkLeq_equiv.

Theorem mkLeq_real_equiv : forall leb I a b t, wf a = true -> wf b = true -> sort_of a = SReal ->
  mkLeq leb [a; b] = Some t -> eval I t = eval I (TApp OLeq [a; b]).
Proof. intros leb I a b t Wa Wb _ E. apply (LinNormIneq.mkLeq_equiv leb I [a; b] t); [simpl; now rewrite Wa, Wb | exact E]. Qed.
Print Assumptions mkLeq_real_equiv.

Theorem mkLeq_int_equiv : forall leb I a b t, wf a = true -> wf b = true -> sort_of a = SInt ->
  mkLeq leb [a; b] = Some t -> eval I t = eval I (TApp OLeq [a; b]).
Proof. intros leb I a b t Wa Wb _ E. apply (LinNormIneq.mkLeq_equiv leb I [a; b] t); [simpl; now rewrite Wa, Wb | exact E]. Qed.
Print Assumptions mkLeq_int_equiv.

Theorem mkGeq_equiv : forall leb I args t, forallb wf args = true -> mkGeq leb args = Some t ->
  eval I t = eval I (TApp OGeq args).
Proof. exact LinNormIneq.mkGeq_equiv. Qed.
Print Assumptions mkGeq_equiv.

Theorem mkLt_equiv : forall leb I args t, forallb wf args = true -> mkLt leb args = Some t ->
  eval I t = eval I (TApp OLt args).
Proof. exact LinNormIneq.mkLt_equiv. Qed.
Print Assumptions mkLt_equiv.

Theorem mkGt_equiv : forall leb I args t, forallb wf args = true -> mkGt leb args = Some t ->
  eval I t = eval I (TApp OGt args).
Proof. exact LinNormIneq.mkGt_equiv. Qed.
Print Assumptions mkGt_equiv.

(* ---------- what the canonical-spelling hypothesis is for ---------- *)
(* Differently spelled literals of one value ("007" and "7" through the API) are distinct constant terms:
   mkEq folds their equality to false, mkDistinct their distinctness to true. *)
Theorem mkEq_noncanonical_refuted :
  exists leb uf args I t, forallb wf_nc args = true /\ mkEq leb uf args = Some t /\
                          eval I t <> eval I (TApp OEq args).
Proof. exact LinNormEq.mkEq_noncanonical_refuted. Qed.
Print Assumptions mkEq_noncanonical_refuted.

Theorem mkDistinct_noncanonical_refuted :
  exists leb uf expand args I t, forallb wf_nc args = true /\ mkDistinct leb uf expand args = Some t /\
                                 eval I t <> eval I (TApp ODistinct args).
Proof. exact LinNormEq.mkDistinct_noncanonical_refuted. Qed.
Print Assumptions mkDistinct_noncanonical_refuted.

(* ---------- non-vacuity: the hypotheses are satisfiable by non-trivial values ---------- *)
Definition ex_leb (a b : term) : bool :=
  match a, b with
  | TVar _ x, TVar _ y => Nat.leb x y
  | TVar _ _, _ => true
  | _, TVar _ _ => false
  | _, _ => true
  end.
Definition bx := TVar SBool 0.  Definition by_ := TVar SBool 1.
Definition ix := TVar SInt 0.   Definition iy := TVar SInt 1.
Definition rx := TVar SReal 0.  Definition ry := TVar SReal 1.
Definition ic (z : Z) := TNum SInt (inject_Z z) 0.
Definition rc (q : Q) := TNum SReal q 0.

Example ex_and : forallb wf [bx; TApp ONot [by_]; bx] = true /\
  mkAnd ex_leb [bx; TApp ONot [by_]; bx] = Some (TApp OAnd [bx; TApp ONot [by_]]).
Proof. split; vm_compute; reflexivity. Qed.
Example ex_and_compl : mkAnd ex_leb [bx; TApp ONot [bx]] = Some (TBool false).
Proof. vm_compute; reflexivity. Qed.
Example ex_xor : mkXor ex_leb [bx; TApp ONot [bx]] = Some (TBool true).
Proof. vm_compute; reflexivity. Qed.
(* 2x <= 4y + 3  over Int  becomes  -1 <= 2y - x  (gcd 2, ceiling of -3/2) *)
Example ex_leq_int :
  forallb wf [TApp OTimes [ic 2; ix]; TApp OPlus [TApp OTimes [ic 4; iy]; ic 3]] = true /\
  mkLeq ex_leb [TApp OTimes [ic 2; ix]; TApp OPlus [TApp OTimes [ic 4; iy]; ic 3]] =
  Some (TApp OLeq [ic (-1); TApp OPlus [TApp OTimes [iy; ic 2]; TApp OTimes [ix; ic (-1)]]]).
Proof. split; vm_compute; reflexivity. Qed.
(* 2x = 4y + 3 over Int is false; over Real it is  3/4 = ... scaled by the leading coefficient *)
Example ex_eq_int :
  mkEq ex_leb false [TApp OTimes [ic 2; ix]; TApp OPlus [TApp OTimes [ic 4; iy]; ic 3]] = Some (TBool false).
Proof. vm_compute; reflexivity. Qed.
Example ex_eq_real : exists t,
  forallb wf [TApp OTimes [rc 2; rx]; TApp OPlus [TApp OTimes [rc 4; ry]; rc 3]] = true /\
  mkEq ex_leb false [TApp OTimes [rc 2; rx]; TApp OPlus [TApp OTimes [rc 4; ry]; rc 3]] = Some t /\ t <> TBool false.
Proof. eexists. split; [vm_compute; reflexivity|]. split; [vm_compute; reflexivity | discriminate]. Qed.
Example ex_times : mkTimes ex_leb true [ic 2; TApp OPlus [ix; ic 1]] =
  Some (TApp OPlus [TApp OTimes [ix; ic 2]; ic 2]).
Proof. vm_compute; reflexivity. Qed.
Example ex_times_nonlinear : mkTimes ex_leb true [ic 2; TApp OPlus [ix; ic 1]; TApp OPlus [iy; ic 2]] = None.
Proof. vm_compute; reflexivity. Qed.
Example ex_div : mkIntDiv ex_leb [ic (-7); ic (-2)] = Some (ic 4) /\ mkMod [ic (-7); ic (-2)] = Some (ic 1).
Proof. split; vm_compute; reflexivity. Qed.
Example ex_distinct : mkDistinct ex_leb true false [TUc (SU 0) 0; TUc (SU 0) 1; TUc (SU 0) 2] = Some (TBool true).
Proof. vm_compute; reflexivity. Qed.
