(* C08 — interpolants are Craig interpolants for the requested split.  Theorems only; proofs are in Itp/*.v, Front/ItpRequest.v.
   PARTIAL: the propositional labelled interpolation system (all six algorithms, every valid refutation) and the Farkas leaf
   interpolants are proved; the EUF interpolator (UFInterpolator.cc), the search for decompositions, proof reduction as a
   transformation, assumption (frame) literals of incremental solving are validated per run only (checks/C08.py). *)
From Coq Require Import QArith List Bool Arith.
From OsmtV.Itp Require Import Labelled LabelledProofs FarkasItp.
From OsmtV.Front Require Import ItpRequest.
Import ListNotations.
Local Open Scope nat_scope.

(* For every valid refutation of A /\ B over the input clauses, every locality-preserving leaf labelling and every theory
   interpolator meeting the leaf contract, the partial interpolant of the root satisfies: A |= I, I /\ B |= false, and every
   atom of I has class AB (its partition mask meets both A and B).  Tcons = the theory-consistent assignments. *)
Theorem labelled_itp_correct :
  forall (Tcons : assignment -> Prop) (vmask : var -> mask) (A : mask) (th : clause -> (var -> colour) -> form)
         (L : nat -> var -> colour) (input : input_t) (P : proof) (I : form),
    covers vmask input -> locality_preserving vmask A L -> th_contract Tcons vmask A th ->
    valid_refutation Tcons vmask A th L input P -> itp vmask A th L P = Some I ->
    (forall a, Tcons a -> satA A input a -> feval a I = true)
    /\ (forall a, Tcons a -> satB A input a -> feval a I = false)
    /\ (forall v, In v (fvars I) -> vclass vmask A v = CAB).
Proof. intros Tcons vmask A th L input P I Hc Hl Ht. exact (itp_correct Tcons vmask A th L input Hc Hl Ht P I). Qed.
Print Assumptions labelled_itp_correct.

(* The six labelling functions of the implementation (:interpolation-bool-algorithm 0..5) are locality preserving, so the
   theorem applies to McMillan, Pudlak, McMillan', PS, PSw and PSs alike. *)
Theorem labelled_itp_correct_impl :
  forall (g : alg) (Tcons : assignment -> Prop) (vmask : var -> mask) (A : mask) (th : clause -> (var -> colour) -> form)
         (input : input_t) (P : proof) (I : form),
    covers vmask input -> th_contract Tcons vmask A th ->
    valid_refutation Tcons vmask A th (impl_label g A P) input P -> impl_itp vmask th g A P = Some I ->
    (forall a, Tcons a -> satA A input a -> feval a I = true)
    /\ (forall a, Tcons a -> satB A input a -> feval a I = false)
    /\ (forall v, In v (fvars I) -> vclass vmask A v = CAB).
Proof.
  intros g Tcons vmask A th input P I Hc Ht.
  exact (itp_correct Tcons vmask A th (impl_label g A P) input Hc (impl_label_locality g vmask A P) Ht P I).
Qed.
Print Assumptions labelled_itp_correct_impl.

(* With variable masks computed from the occurrences, class AB means: occurs in a clause of A and in a clause of B. *)
Theorem shared_means_occurs_in_both :
  forall (input : input_t) (A : mask) (v : var), vclass (vmask_of input) A v = CAB ->
    (exists c m, In (c, m) input /\ in_A m A = true /\ mentions c v = true)
    /\ (exists c m, In (c, m) input /\ in_B m A = true /\ mentions c v = true).
Proof. exact vmask_of_shared. Qed.
Print Assumptions shared_means_occurs_in_both.

Theorem occurrence_masks_cover : forall input : input_t, covers (vmask_of input) input.
Proof. exact vmask_of_covers. Qed.
Print Assumptions occurrence_masks_cover.

(* Farkas interpolant of an LRA conflict with a valid certificate: implied by the A-coloured literals, inconsistent with the
   B-coloured ones, and every variable with a non-zero coefficient occurs on both sides. *)
Theorem farkas_itp_correct :
  forall es : list entry, valid_cert es ->
    (forall a, (forall e, In e es -> sideA e = true -> holds a (e_c e)) -> holds a (farkas_itp es))
    /\ (forall a, holds a (farkas_itp es) -> (forall e, In e es -> sideA e = false -> holds a (e_c e)) -> False)
    /\ (forall v, ~ (coef v (c_lin (farkas_itp es)) == 0)%Q ->
          (exists e, In e es /\ sideA e = true /\ occurs v (c_lin (e_c e)) = true)
          /\ (exists e, In e es /\ sideA e = false /\ occurs v (c_lin (e_c e)) = true)).
Proof. exact FarkasItp.farkas_itp_correct. Qed.
Print Assumptions farkas_itp_correct.

Theorem dual_farkas_itp_correct :
  forall es : list entry, valid_cert es ->
    (forall a, (forall e, In e es -> sideBdual e = false -> holds a (e_c e)) -> ~ holds a (dual_farkas_itp es))
    /\ (forall a, ~ holds a (dual_farkas_itp es) -> (forall e, In e es -> sideBdual e = true -> holds a (e_c e)) -> False)
    /\ (forall v, ~ (coef v (c_lin (dual_farkas_itp es)) == 0)%Q ->
          (exists e, In e es /\ sideBdual e = false /\ occurs v (c_lin (e_c e)) = true)
          /\ (exists e, In e es /\ sideBdual e = true /\ occurs v (c_lin (e_c e)) = true)).
Proof. exact FarkasItp.dual_farkas_itp_correct. Qed.
Print Assumptions dual_farkas_itp_correct.

(* Decomposed interpolants: for ANY decomposition of the A-side coefficients into non-negative vectors, A implies every
   conjunct and the conjunction implies the (non-strict) Farkas sum.  PARTIAL: that the vectors found by the Gaussian
   elimination of getDecomposedInterpolant eliminate the A-local variables is not modelled. *)
Theorem decomposed_itp_correct_partial :
  forall (es : list entry) (alphas : list Q) (bs : list (entry -> Q)),
    valid_cert es -> length alphas = length bs ->
    (forall b e, In b bs -> (0 <= b e)%Q) -> (forall al, In al alphas -> (0 < al)%Q) ->
    (forall e, In e es -> sideA e = true -> (comb alphas bs e == e_coeff e)%Q) ->
    (forall a, (forall e, In e es -> sideA e = true -> holds a (e_c e)) -> forall c, In c (decomposed_itp bs es) -> holds a c)
    /\ (forall a, (forall c, In c (decomposed_itp bs es) -> holds a c) -> (0 <= val a (wsum sideA (comb alphas bs) es))%Q).
Proof. exact FarkasItp.decomposed_itp_correct. Qed.
Print Assumptions decomposed_itp_correct_partial.

(* :interpolation-lra-algorithm 3: implied by A for every factor >= 0 ... *)
Theorem flexible_itp_implied_by_A :
  forall (es : list entry) (f : Q), valid_cert es -> (0 <= f)%Q ->
    forall a, (forall e, In e es -> sideA e = true -> holds a (e_c e)) -> holds a (flexible_itp f es).
Proof. exact FarkasItp.flexible_itp_A. Qed.
Print Assumptions flexible_itp_implied_by_A.

(* ... inconsistent with B when the certificate's constant is negative or the B side is strict ... *)
Theorem flexible_itp_inconsistent_with_B_conditional :
  forall (es : list entry) (f : Q), valid_cert es -> (f < 1)%Q ->
    ((c_k (wsum all_sel e_coeff es) < 0)%Q \/ c_strict (wsum (fun e => negb (sideA e)) e_coeff es) = true) ->
    forall a, holds a (flexible_itp f es) -> (forall e, In e es -> sideA e = false -> holds a (e_c e)) -> False.
Proof. exact FarkasItp.flexible_itp_B. Qed.
Print Assumptions flexible_itp_inconsistent_with_B_conditional.

(* ... and NOT an interpolant in general (strict A side, coinciding bounds): genuine defect, corpus/C08/lra_factor_strict.smt2 *)
Theorem flexible_itp_refuted :
  exists (es : list entry) (f : Q) (a : qassign),
    valid_cert es /\ (0 <= f)%Q /\ (f < 1)%Q /\ holds a (flexible_itp f es)
    /\ (forall e, In e es -> sideA e = false -> holds a (e_c e)).
Proof. exact FarkasItp.flexible_itp_refuted. Qed.
Print Assumptions flexible_itp_refuted.

(* The front end's request -> mask mapping is right when nothing was rejected, no term was asserted twice (popped ones
   included) and Logic::mkAnd does not fold the groups ... *)
Theorem request_mask_correct :
  forall (h : list ev) (groups : list (list nat)),
    no_rejected h -> NoDup (asserted h) -> (forall g, In g groups -> group_ok (run false h) g) ->
    impl_masks (run false h) [] groups = Some (spec_masks [] groups).
Proof. exact ItpRequest.request_mask_correct. Qed.
Print Assumptions request_mask_correct.

(* ... with assertions.push after insertFormula (/repo commit 125fd6d — the tree as it is now; checks/C08.py recognises the variant in
   src/api/Interpret.cc) rejected asserts are harmless ... *)
Theorem request_mask_correct_fixed :
  forall (h : list ev) (groups : list (list nat)),
    NoDup (flat_map (fun e => match e with EAssert t true => [t] | _ => [] end) h) ->
    (forall g, In g groups -> group_ok (run true h) g) ->
    impl_masks (run true h) [] groups = Some (spec_masks [] groups).
Proof. exact ItpRequest.request_mask_correct_fixed. Qed.
Print Assumptions request_mask_correct_fixed.

(* ... and wrong in general, for the repaired front end too: re-assertion after pop, duplicate term, folding `and` group
   (refused / wrong mask).  Each witness is replayed on the implementation by corpus/C08. *)
Theorem request_mask_correct_refuted :
  impl_masks (run true h_popped) [] [[2]; [0; 3]] = Some [[1]]
  /\ spec_masks [] [[2]; [0; 3]] = [[2]]
  /\ impl_masks (run true h_dup) [] [[2; 1; 3]; [0]] = Some [[1; 3]]
  /\ spec_masks [] [[2; 1; 3]; [0]] = [[2; 1; 3]]
  /\ impl_masks (run true h_fold) [] [[1; 2]; [0]] = None
  /\ impl_masks (run true h_fold2) [] [[3; 0]; [1; 2]] = Some [[3]]
  /\ spec_masks [] [[3; 0]; [1; 2]] = [[3; 0]]
  /\ run true h_popped = run false h_popped /\ run true h_dup = run false h_dup
  /\ run true h_fold = run false h_fold /\ run true h_fold2 = run false h_fold2.
Proof. exact ItpRequest.request_mask_correct_refuted. Qed.
Print Assumptions request_mask_correct_refuted.

(* The front end before /repo commit 125fd6d: a rejected non-Bool assert shifted the indices (DESIGN §9 #7,
   corpus/C08/index_shift_rejected_assert.smt2); the repaired one (the tree as it is now) computes the requested mask. *)
Theorem request_mask_unrepaired_refuted :
  impl_masks (run false h_rejected) [] [[0]; [1; 2]] = Some [[1]]
  /\ spec_masks [] [[0]; [1; 2]] = [[0]]
  /\ impl_masks (run true h_rejected) [] [[0]; [1; 2]] = Some [[0]].
Proof. exact ItpRequest.request_mask_unrepaired_refuted. Qed.
Print Assumptions request_mask_unrepaired_refuted.

(* ---- non-vacuity ---------------------------------------------------------------------------------- *)
(* A = { p \/ q, not q } (partition 0), B = { not p \/ r, not r } (partition 1); the refutation resolves on q, r, p. *)
Definition ex_input : input_t :=
  [ ([(0, true); (1, true)], [0]); ([(1, false)], [0]); ([(0, false); (2, true)], [1]); ([(2, false)], [1]) ].
Definition ex_proof : proof :=
  [ Leaf [(0, true); (1, true)] [0]; Leaf [(1, false)] [0]; Leaf [(0, false); (2, true)] [1]; Leaf [(2, false)] [1];
    Res 0 1 1; Res 2 3 2; Res 4 5 0 ].
Definition no_th : clause -> (var -> colour) -> form := fun _ _ => FTrue.

Example ex_itps :
  map (fun g => impl_itp (vmask_of ex_input) no_th g [0] ex_proof) [McMillan; Pudlak; McMillanP; PS; PSW; PSS]
  = [ Some (FAnd (FOr (FOr (FVar 0) FFalse) FFalse) (FAnd FTrue FTrue));
      Some (FAnd (FOr (FOr FFalse FFalse) (FVar 0)) (FOr (FAnd FTrue FTrue) (FNot (FVar 0))));
      Some (FOr (FOr FFalse FFalse) (FAnd (FAnd (FVar 0) FTrue) FTrue));
      Some (FAnd (FOr (FOr (FVar 0) FFalse) FFalse) (FAnd FTrue FTrue));
      Some (FAnd (FOr (FOr FFalse FFalse) (FVar 0)) (FOr (FAnd FTrue FTrue) (FNot (FVar 0))));
      Some (FAnd (FOr (FOr (FVar 0) FFalse) FFalse) (FAnd FTrue FTrue)) ].
Proof. vm_compute. reflexivity. Qed.

Example ex_hypotheses :
  covers (vmask_of ex_input) ex_input
  /\ th_contract (fun _ => True) (vmask_of ex_input) [0] (fun _ _ => FTrue) = th_contract (fun _ => True) (vmask_of ex_input) [0] no_th
  /\ valid_refutation (fun _ => True) (vmask_of ex_input) [0] no_th (impl_label PS [0] ex_proof) ex_input ex_proof.
Proof.
  split; [apply vmask_of_covers|]. split; [reflexivity|].
  unfold valid_refutation, ex_proof. simpl.
  repeat (split; [try (simpl; tauto); try (intros d1 d2 [= <-] [= <-]; simpl; split; intros H; repeat destruct H as [H|H]; try discriminate; auto)|intros ? [= <-]]).
  exact I.
Qed.
