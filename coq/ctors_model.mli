
val implb : bool -> bool -> bool

val xorb : bool -> bool -> bool

val negb : bool -> bool

type nat =
| O
| S of nat

val option_map : ('a1 -> 'a2) -> 'a1 option -> 'a2 option

val fst : ('a1 * 'a2) -> 'a1

val snd : ('a1 * 'a2) -> 'a2

val length : 'a1 list -> nat

val app : 'a1 list -> 'a1 list -> 'a1 list

type comparison =
| Eq
| Lt
| Gt

val compOpp : comparison -> comparison

val add : nat -> nat -> nat

type positive =
| XI of positive
| XO of positive
| XH

type z =
| Z0
| Zpos of positive
| Zneg of positive

val eqb : bool -> bool -> bool

module Nat :
 sig
  val eqb : nat -> nat -> bool
 end

module Pos :
 sig
  type mask =
  | IsNul
  | IsPos of positive
  | IsNeg
 end

module Coq_Pos :
 sig
  val succ : positive -> positive

  val add : positive -> positive -> positive

  val add_carry : positive -> positive -> positive

  val pred_double : positive -> positive

  type mask = Pos.mask =
  | IsNul
  | IsPos of positive
  | IsNeg

  val succ_double_mask : mask -> mask

  val double_mask : mask -> mask

  val double_pred_mask : positive -> mask

  val sub_mask : positive -> positive -> mask

  val sub_mask_carry : positive -> positive -> mask

  val sub : positive -> positive -> positive

  val mul : positive -> positive -> positive

  val size_nat : positive -> nat

  val compare_cont : comparison -> positive -> positive -> comparison

  val compare : positive -> positive -> comparison

  val eqb : positive -> positive -> bool

  val gcdn : nat -> positive -> positive -> positive

  val gcd : positive -> positive -> positive

  val ggcdn : nat -> positive -> positive -> positive * (positive * positive)

  val ggcd : positive -> positive -> positive * (positive * positive)
 end

module Z :
 sig
  val double : z -> z

  val succ_double : z -> z

  val pred_double : z -> z

  val pos_sub : positive -> positive -> z

  val add : z -> z -> z

  val opp : z -> z

  val sub : z -> z -> z

  val mul : z -> z -> z

  val compare : z -> z -> comparison

  val sgn : z -> z

  val leb : z -> z -> bool

  val ltb : z -> z -> bool

  val eqb : z -> z -> bool

  val abs : z -> z

  val to_pos : z -> positive

  val pos_div_eucl : positive -> z -> z * z

  val div_eucl : z -> z -> z * z

  val div : z -> z -> z

  val modulo : z -> z -> z

  val gcd : z -> z -> z

  val ggcd : z -> z -> z * (z * z)
 end

val zeq_bool : z -> z -> bool

val rev : 'a1 list -> 'a1 list

val map : ('a1 -> 'a2) -> 'a1 list -> 'a2 list

val flat_map : ('a1 -> 'a2 list) -> 'a1 list -> 'a2 list

val fold_left : ('a1 -> 'a2 -> 'a1) -> 'a2 list -> 'a1 -> 'a1

val fold_right : ('a2 -> 'a1 -> 'a1) -> 'a1 -> 'a2 list -> 'a1

val existsb : ('a1 -> bool) -> 'a1 list -> bool

val forallb : ('a1 -> bool) -> 'a1 list -> bool

val filter : ('a1 -> bool) -> 'a1 list -> 'a1 list

type q = { qnum : z; qden : positive }

val inject_Z : z -> q

val qeq_bool : q -> q -> bool

val qle_bool : q -> q -> bool

val qplus : q -> q -> q

val qmult : q -> q -> q

val qopp : q -> q

val qminus : q -> q -> q

val qinv : q -> q

val qdiv : q -> q -> q

val qred : q -> q

val qfloor : q -> z

val qceiling : q -> z

val q_floor : q -> z

val q_ceil : q -> z

val real_div : z -> z -> q

val fold_div : z -> z -> z option

val fold_mod : z -> z -> z option

val smt_div : z -> z -> z

val smt_mod : z -> z -> z

type sort =
| SBool
| SInt
| SReal
| SU of nat

type op =
| OAnd
| OOr
| ONot
| OXor
| OImpl
| OIte
| OEq
| ODistinct
| OPlus
| OMinus
| OTimes
| ORDiv
| OIDiv
| OMod
| OLeq
| OLt
| OGeq
| OGt
| OUF of nat * sort

type term =
| TVar of sort * nat
| TBool of bool
| TNum of sort * q * nat
| TUc of sort * nat
| TApp of op * term list

val sort_eqb : sort -> sort -> bool

val op_eqb : op -> op -> bool

val q_eqb : q -> q -> bool

val term_eqb : term -> term -> bool

type value =
| VB of bool
| VN of q
| VU of nat

val asB : value -> bool

val asN : value -> q

val asU : value -> nat

val veqb : value -> value -> bool

type interp = { vi : (sort -> nat -> value); fi : (nat -> value list -> value) }

val coerce : sort -> value -> value

val chainb : ('a1 -> 'a1 -> bool) -> 'a1 list -> bool

val pairwiseb : ('a1 -> 'a1 -> bool) -> 'a1 list -> bool

val qsum : q list -> q

val qprod : q list -> q

val qltb : q -> q -> bool

val eval_op : interp -> op -> value list -> value

val eval : interp -> term -> value

val sort_of : term -> sort

val is_num_sort : sort -> bool

val q_is_int : q -> bool

val all_sort : sort -> sort list -> bool

val op_ok : op -> sort list -> bool

val wsort : term -> bool

val nfb : term -> bool

val canonb : term -> bool

val wf_nc : term -> bool

val wf : term -> bool

val is_const : term -> bool

val insert_by : ('a1 -> 'a1 -> bool) -> 'a1 -> 'a1 list -> 'a1 list

val isort : ('a1 -> 'a1 -> bool) -> 'a1 list -> 'a1 list

val is_true : term -> bool

val is_false : term -> bool

val is_bool : term -> bool

val mkNot_raw : term -> term

val mkNot : term -> term option

type lit = term * bool

val split_lit : term -> lit

val lit_term : lit -> term

val lit_leb : (term -> term -> bool) -> lit -> lit -> bool

val ltb0 : (term -> term -> bool) -> term -> term -> bool

val sel_min :
  (term -> term -> bool) -> term -> term -> term list -> (term * term
  list) * bool

val sel_sort : (term -> term -> bool) -> nat -> term list -> term list

val tsort : (term -> term -> bool) -> term list -> term list

val and_scan : lit option -> lit list -> lit list option

val or_scan : lit option -> lit list -> lit list option

val mkAnd : (term -> term -> bool) -> term list -> term option

val mkOr : (term -> term -> bool) -> term list -> term option

val mkXor : (term -> term -> bool) -> term list -> term option

val mkImpl : (term -> term -> bool) -> term list -> term option

val mkIte : term list -> term option

val core_mkBinaryEq : (term -> term -> bool) -> term -> term -> term option

val eq_chain : (term -> term -> term option) -> term list -> term list option

val mkEq_gen :
  (term -> term -> bool) -> (term -> term -> term option) -> term list ->
  term option

val has_adjacent_dup : term list -> bool

val all_pairs : term list -> (term * term) list

val sequence : 'a1 option list -> 'a1 list option

val mkDistinct2 : (term -> term -> term option) -> term -> term -> term option

val mkDistinct_gen :
  (term -> term -> bool) -> (term -> term -> term option) -> bool -> term
  list -> term option

val mkUF : nat -> sort -> term list -> term option

val qabs : q -> q

type mono = term * q

type poly = mono list * q

val is_num_const : term -> bool

val num_val : term -> q

val is_plus : term -> bool

val is_times : term -> bool

val is_atom : term -> bool

val lin_factor : term -> poly option

val padd : poly -> poly -> poly

val pscale : q -> poly -> poly

val pzero : poly

val psum : poly option list -> poly option

val linearize : term -> poly option

val madd : term -> q -> mono list -> mono list

val merge : mono list -> mono list

val nonzero : mono -> bool

val pnorm : poly -> poly

val num : sort -> q -> term

val mono_term : (term -> term -> bool) -> sort -> mono -> term

val to_term : (term -> term -> bool) -> sort -> poly -> term

val same_num_sort : term list -> sort option

val mkPlus : (term -> term -> bool) -> term list -> term option

val mkNeg : (term -> term -> bool) -> term -> term option

val mkMinus : (term -> term -> bool) -> term list -> term option

val flatten_times : term list -> term list

val last_only : 'a1 list -> 'a1 list

val mkTimes : (term -> term -> bool) -> bool -> term list -> term option

val mkRealDiv : (term -> term -> bool) -> term list -> term option

val int_of : term -> z

val mkIntDiv : (term -> term -> bool) -> term list -> term option

val mkMod : term list -> term option

val lead_of : (term -> term -> bool) -> mono -> mono list -> mono

val zgcd_list : z list -> z

val all_int : mono list -> bool

val norm_div : (term -> term -> bool) -> sort -> mono list -> q option

val scale_monos : q -> mono list -> mono list

val leq_of_poly : (term -> term -> bool) -> sort -> poly -> term option

val diff_poly : term -> term -> poly option

val mkBinaryLeq : (term -> term -> bool) -> term -> term -> term option

val mkBinaryGeq : (term -> term -> bool) -> term -> term -> term option

val mkBinaryLt : (term -> term -> bool) -> term -> term -> term option

val mkBinaryGt : (term -> term -> bool) -> term -> term -> term option

val mkCmp :
  (term -> term -> bool) -> (term -> term -> term option) -> term list ->
  term option

val mkLeq : (term -> term -> bool) -> term list -> term option

val mkGeq : (term -> term -> bool) -> term list -> term option

val mkLt : (term -> term -> bool) -> term list -> term option

val mkGt : (term -> term -> bool) -> term list -> term option

val eq_of_poly : (term -> term -> bool) -> sort -> poly -> term option

val arith_mkBinaryEq :
  (term -> term -> bool) -> bool -> term -> term -> term option

val mkEq : (term -> term -> bool) -> bool -> term list -> term option

val mkDistinct :
  (term -> term -> bool) -> bool -> bool -> term list -> term option
