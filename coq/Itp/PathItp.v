(* C09: path interpolants (InterpolationContext::getPathInterpolants, src/proof/InterpolationContext.cc:880-906):
   one interpolant per A-mask, all computed on ONE proof graph with ONE interpolation algorithm; the masks are the
   cumulative masks built by Interpret::getInterpolants (src/api/Interpret.cc:1326-1362), hence nested.
   Definitions only; proofs in PathItpProofs.v. *)
From Coq Require Import List Bool Arith PeanoNat Lia.
From OsmtV.Itp Require Import Labelled.
Import ListNotations.

(* getPathInterpolants: for (i = 0; i < A_masks.size(); ++i) getSingleInterpolant(interpolants, A_masks[i]) *)
Definition path_itps (vmask : var -> mask) (th : clause -> (var -> colour) -> form) (g : alg)
           (masks : list mask) (P : proof) : list (option form) :=
  map (fun A => impl_itp vmask th g A P) masks.

(* the cumulative masks of a request with groups g1 ... gk (each a list of partition indices): g1, g1+g2, ... (the last
   group is ignored by the front end) *)
Fixpoint cumulative (acc : mask) (groups : list mask) : list mask :=
  match groups with
  | [] => []
  | [_] => []
  | g :: r => (acc ++ g) :: cumulative (acc ++ g) r
  end.

Definition nested (A1 A2 : mask) : Prop := forall i, mem i A1 = true -> mem i A2 = true.

(* the strength order on colours  b <= ab <= a  (D'Silva et al.): the a-bit may only be switched on, the b-bit only off *)
Definition cle (x y : colour) : bool := implb (fst x) (fst y) && implb (snd y) (snd x).

(* a literal whose colours under the two labellings are not both a and not both b *)
Definition in_S (x y : colour) : bool := negb ((is_a x && is_a y) || (is_b x && is_b y)).

(* the condition under which the path property is proved: on the variables shared under both masks the leaf labelling for
   the smaller A-mask is below the one for the larger A-mask *)
Definition lab_le (vmask : var -> mask) (A1 A2 : mask) (L1 L2 : nat -> var -> colour) : Prop :=
  forall idx v, vclass vmask A1 v = CAB -> vclass vmask A2 v = CAB -> cle (L1 idx v) (L2 idx v) = true.
