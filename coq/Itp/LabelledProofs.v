(* C08: correctness of the labelled interpolation systems of Labelled.v for EVERY valid refutation and EVERY
   locality-preserving labelling (invariant of D'Silva et al., "Interpolant strength", Theorem 2):
       A /\ not (C restricted to the literals coloured a or ab)  |=  I_C
       B /\ not (C restricted to the literals coloured b or ab) /\ I_C  |=  false
       atoms(I_C) are shared
   by induction over the proof DAG. *)
From Coq Require Import List Bool Arith PeanoNat Lia.
From OsmtV.Itp Require Import Labelled.
Import ListNotations.

(* ---- specification vocabulary ------------------------------------------------------------------ *)
(* the input: original clauses with their partition masks *)
Definition input_t := list (clause * mask).

(* a clause of partition i mentions only variables whose mask contains i (PartitionManager::propagatePartitionMask) *)
Definition covers (vmask : var -> mask) (input : input_t) : Prop :=
  forall c m l, In (c, m) input -> In l c -> incl m (vmask (fst l)).

Definition satA (A : mask) (input : input_t) (a : assignment) : Prop :=
  forall c m, In (c, m) input -> in_A m A = true -> clause_true a c = true.
Definition satB (A : mask) (input : input_t) (a : assignment) : Prop :=
  forall c m, In (c, m) input -> in_B m A = true -> clause_true a c = true.

(* D'Silva's locality: A-local variables are coloured a, B-local ones b (built into [var_colour]); what remains to be
   required of the leaf labelling is that every shared variable of a leaf gets one of a / b / ab *)
Definition locality_preserving (vmask : var -> mask) (A : mask) (L : nat -> var -> colour) : Prop :=
  forall idx v, vclass vmask A v = CAB -> is_none (L idx v) = false.

(* the contract of a theory interpolator for the T-valid clause c whose atoms carry the colours colf *)
Definition th_contract (Tcons : assignment -> Prop) (vmask : var -> mask) (A : mask)
           (th_itp : clause -> (var -> colour) -> form) : Prop :=
  forall c colf,
    (forall a, Tcons a -> clause_true a c = true) ->
    (forall l, In l c -> is_none (colf (fst l)) = false) ->
    (forall a, Tcons a -> (forall l, In l c -> fst (colf (fst l)) = true -> lit_true a l = false) -> feval a (th_itp c colf) = true)
    /\ (forall a, Tcons a -> (forall l, In l c -> snd (colf (fst l)) = true -> lit_true a l = false) -> feval a (th_itp c colf) = false)
    /\ (forall v, In v (fvars (th_itp c colf)) -> vclass vmask A v = CAB).

Definition node_ok (Tcons : assignment -> Prop) (vmask : var -> mask) (A : mask) (input : input_t) (acc : list ndata) (n : node) : Prop :=
  match n with
  | Leaf c m => In (c, m) input
  | ThLeaf c => (forall a, Tcons a -> clause_true a c = true) /\ (forall l, In l c -> vclass vmask A (fst l) <> CNone)
  | Res i j p => forall d1 d2, nth_error acc i = Some d1 -> nth_error acc j = Some d2 ->
                               ~ In (p, false) (nd_clause d1) /\ ~ In (p, true) (nd_clause d2)
  end.

(* a valid derivation: leaves are input clauses, theory leaves are T-valid, resolution steps are on a pivot that does not
   occur with the other polarity in the same antecedent (clauses of the solver are never tautologies) *)
Fixpoint valid_from (Tcons : assignment -> Prop) (vmask : var -> mask) (A : mask) (th : clause -> (var -> colour) -> form)
         (L : nat -> var -> colour) (input : input_t) (acc : list ndata) (P : proof) : Prop :=
  match P with
  | [] => True
  | n :: r => node_ok Tcons vmask A input acc n /\
              forall d, step vmask A th L acc n = Some d -> valid_from Tcons vmask A th L input (acc ++ [d]) r
  end.
Definition valid_refutation Tcons vmask A th L input (P : proof) : Prop := valid_from Tcons vmask A th L input [] P.

(* ---- small lemmas ------------------------------------------------------------------------------ *)
Lemma mem_In : forall i m, mem i m = true <-> In i m.
Proof.
  intros i m. unfold mem. rewrite existsb_exists. split.
  - intros [x [Hx He]]. apply Nat.eqb_eq in He. now subst.
  - intros H. exists i. split; auto. apply Nat.eqb_refl.
Qed.

Lemma in_A_incl : forall m m' A, incl m m' -> in_A m A = true -> in_A m' A = true.
Proof.
  unfold in_A. intros m m' A Hi H. apply existsb_exists in H. destruct H as [x [Hx H]].
  apply existsb_exists. exists x. split; auto.
Qed.

Lemma in_B_incl : forall m m' A, incl m m' -> in_B m A = true -> in_B m' A = true.
Proof.
  unfold in_B. intros m m' A Hi H. apply existsb_exists in H. destruct H as [x [Hx H]].
  apply existsb_exists. exists x. split; auto.
Qed.

Lemma cget_notin : forall m v, ~ In v (map fst m) -> cget m v = cnone.
Proof.
  induction m as [|[w c] m IH]; simpl; intros v H; auto.
  destruct (Nat.eqb_spec v w) as [->|N]; [exfalso; apply H; now left|]. apply IH. tauto.
Qed.

Lemma cget_map_keys : forall (f : var -> colour) ks v,
  cget (map (fun w => (w, f w)) ks) v = if existsb (Nat.eqb v) ks then f v else cnone.
Proof.
  induction ks as [|k ks IH]; simpl; intros v; auto.
  destruct (Nat.eqb_spec v k) as [->|N]; simpl; auto.
Qed.

Lemma cor_none : cor cnone cnone = cnone. Proof. reflexivity. Qed.

Lemma cget_cmerge : forall m1 m2 v, cget (cmerge m1 m2) v = cor (cget m1 v) (cget m2 v).
Proof.
  intros m1 m2 v. unfold cmerge. rewrite cget_map_keys.
  destruct (existsb (Nat.eqb v) (map fst (m1 ++ m2))) eqn:E; auto.
  assert (Hn : ~ In v (map fst (m1 ++ m2))).
  { intros Hin. assert (existsb (Nat.eqb v) (map fst (m1 ++ m2)) = true).
    { apply existsb_exists. exists v. split; auto. apply Nat.eqb_refl. } congruence. }
  rewrite map_app in Hn. rewrite !cget_notin; auto; intros Hin; apply Hn; apply in_or_app; auto.
Qed.

Lemma cget_cremove : forall p m v, cget (cremove p m) v = if Nat.eqb v p then cnone else cget m v.
Proof.
  induction m as [|[w c] m IH]; simpl; intros v.
  - now destruct (Nat.eqb v p).
  - destruct (Nat.eqb_spec w p) as [->|N]; simpl.
    + rewrite IH. destruct (Nat.eqb_spec v p) as [->|N2]; auto.
    + rewrite IH. destruct (Nat.eqb_spec v w) as [->|N2]; auto.
      destruct (Nat.eqb_spec w p); [contradiction|reflexivity].
Qed.

Lemma cget_map_lits : forall (g : var -> colour) (ls : list lit) v,
  cget (map (fun l => (fst l, g (fst l))) ls) v = if existsb (fun l => Nat.eqb v (fst l)) ls then g v else cnone.
Proof.
  induction ls as [|[w b] ls IH]; simpl; intros v; auto.
  destruct (Nat.eqb_spec v w) as [->|N]; simpl; [reflexivity | apply IH].
Qed.

Lemma feval_big_or : forall a fs, feval a (big_or fs) = existsb (feval a) fs.
Proof. induction fs; simpl; auto. now rewrite IHfs. Qed.
Lemma feval_big_and : forall a fs, feval a (big_and fs) = forallb (feval a) fs.
Proof. induction fs; simpl; auto. now rewrite IHfs. Qed.
Lemma feval_flit : forall a l, feval a (flit l) = lit_true a l.
Proof. intros a [v []]; unfold flit, lit_true; simpl; destruct (a v); reflexivity. Qed.
Lemma feval_fnlit : forall a l, feval a (fnlit l) = negb (lit_true a l).
Proof. intros a [v []]; unfold fnlit, lit_true; simpl; destruct (a v); reflexivity. Qed.
Lemma fvars_flit : forall l, fvars (flit l) = [fst l]. Proof. intros [v []]; reflexivity. Qed.
Lemma fvars_fnlit : forall l, fvars (fnlit l) = [fst l]. Proof. intros [v []]; reflexivity. Qed.

Lemma fvars_big_or : forall fs v, In v (fvars (big_or fs)) -> exists f, In f fs /\ In v (fvars f).
Proof.
  induction fs as [|f fs IH]; simpl; intros v H; [contradiction|].
  apply in_app_or in H. destruct H as [H|H]; [exists f; auto|]. destruct (IH v H) as [g [Hg Hv]]. exists g; auto.
Qed.
Lemma fvars_big_and : forall fs v, In v (fvars (big_and fs)) -> exists f, In f fs /\ In v (fvars f).
Proof.
  induction fs as [|f fs IH]; simpl; intros v H; [contradiction|].
  apply in_app_or in H. destruct H as [H|H]; [exists f; auto|]. destruct (IH v H) as [g [Hg Hv]]. exists g; auto.
Qed.

Lemma clause_true_iff : forall a c, clause_true a c = true <-> exists l, In l c /\ lit_true a l = true.
Proof. intros; unfold clause_true; apply existsb_exists. Qed.

Lemma lit_eqb_eq : forall l k, lit_eqb l k = true <-> l = k.
Proof.
  intros [v b] [w d]. unfold lit_eqb; simpl. rewrite andb_true_iff, Nat.eqb_eq, eqb_true_iff.
  split; [intros [-> ->]; reflexivity | intros [= -> ->]; auto].
Qed.

Lemma in_remove_lit : forall k c l, In l (remove_lit k c) <-> In l c /\ l <> k.
Proof.
  intros k c l. unfold remove_lit. rewrite filter_In, negb_true_iff. split; intros [H1 H2]; split; auto.
  - intros E. subst. rewrite (proj2 (lit_eqb_eq _ _) eq_refl) in H2. discriminate.
  - destruct (lit_eqb l k) eqn:E; auto. apply lit_eqb_eq in E. contradiction.
Qed.

Lemma colour_cases : forall c : colour, is_none c = false -> fst c = false -> snd c = true.
Proof. intros [[] []]; unfold is_none; simpl; intros; congruence. Qed.
Lemma colour_cases' : forall c : colour, is_none c = false -> snd c = false -> fst c = true.
Proof. intros [[] []]; unfold is_none; simpl; intros; congruence. Qed.

(* ---- the invariant ----------------------------------------------------------------------------- *)
Section Correct.
  Variable Tcons : assignment -> Prop.
  Variable vmask : var -> mask.
  Variable A : mask.
  Variable th_itp : clause -> (var -> colour) -> form.
  Variable L : nat -> var -> colour.
  Variable input : input_t.

  Hypothesis Hcov : covers vmask input.
  Hypothesis Hloc : locality_preserving vmask A L.
  Hypothesis Hth : th_contract Tcons vmask A th_itp.

  Notation vcol := (var_colour vmask A).
  Notation vcls := (vclass vmask A).

  Definition inv (d : ndata) : Prop :=
    (forall a, Tcons a -> satA A input a ->
               (forall l, In l (nd_clause d) -> fst (vcol (nd_col d) (fst l)) = true -> lit_true a l = false) ->
               feval a (nd_itp d) = true)
    /\ (forall a, Tcons a -> satB A input a ->
                  (forall l, In l (nd_clause d) -> snd (vcol (nd_col d) (fst l)) = true -> lit_true a l = false) ->
                  feval a (nd_itp d) = false)
    /\ (forall v, In v (fvars (nd_itp d)) -> vcls v = CAB).

  Lemma cget_leaf_col : forall idx c l, In l c -> vcls (fst l) = CAB -> cget (leaf_col vmask A L idx c) (fst l) = L idx (fst l).
  Proof.
    intros idx c l Hl Hc. unfold leaf_col. rewrite cget_map_lits.
    match goal with |- (if ?e then _ else _) = _ => assert (He : e = true) end.
    { apply existsb_exists. exists l. split; [|apply Nat.eqb_refl]. apply filter_In. split; auto. now rewrite Hc. }
    now rewrite He.
  Qed.

  Lemma leaf_colour_not_none : forall idx c l, In l c -> vcls (fst l) <> CNone ->
    is_none (vcol (leaf_col vmask A L idx c) (fst l)) = false.
  Proof.
    intros idx c l Hl Hn. unfold var_colour. destruct (vcls (fst l)) eqn:E; try reflexivity; try congruence.
    rewrite cget_leaf_col; auto.
  Qed.

  Lemma class_not_none_of_clause : forall c m l, In (c, m) input -> In l c -> get_class m A <> CNone -> vcls (fst l) <> CNone.
  Proof.
    intros c m l Hin Hl Hn. pose proof (Hcov c m l Hin Hl) as Hi. unfold vclass, get_class in *.
    destruct (in_A m A) eqn:Ea; destruct (in_B m A) eqn:Eb; try congruence.
    - rewrite (in_A_incl _ _ _ Hi Ea). destruct (in_B (vmask (fst l)) A); congruence.
    - rewrite (in_A_incl _ _ _ Hi Ea). destruct (in_B (vmask (fst l)) A); congruence.
    - rewrite (in_B_incl _ _ _ Hi Eb). destruct (in_A (vmask (fst l)) A); congruence.
  Qed.

  Lemma leaf_inv_A : forall idx c m, In (c, m) input -> in_A m A = true ->
    inv (c, leaf_col vmask A L idx c, leaf_itp vmask A c (leaf_col vmask A L idx c) true).
  Proof.
    intros idx c m Hin HA. set (col := leaf_col vmask A L idx c).
    assert (Hnn : forall l, In l c -> is_none (vcol col (fst l)) = false).
    { intros l Hl. apply leaf_colour_not_none; auto. eapply class_not_none_of_clause; eauto.
      unfold get_class. rewrite HA. destruct (in_B m A); congruence. }
    unfold inv, nd_clause, nd_col, nd_itp, leaf_itp; simpl. repeat split.
    - intros a Ht Hs H. rewrite feval_big_or. apply existsb_exists.
      pose proof (Hs c m Hin HA) as Hc. apply clause_true_iff in Hc. destruct Hc as [l [Hl Tl]].
      exists (flit l). rewrite feval_flit. split; auto. apply in_map. apply filter_In. split; auto.
      unfold is_b. destruct (fst (vcol col (fst l))) eqn:E.
      + rewrite (H l Hl E) in Tl. discriminate.
      + rewrite (colour_cases _ (Hnn l Hl) E). reflexivity.
    - intros a Ht Hs H. rewrite feval_big_or.
      destruct (existsb (feval a) _) eqn:E; auto. apply existsb_exists in E. destruct E as [f [Hf Tf]].
      apply in_map_iff in Hf. destruct Hf as [l [<- Hl]]. apply filter_In in Hl. destruct Hl as [Hl Hb].
      rewrite feval_flit in Tf. unfold is_b in Hb. apply andb_true_iff in Hb. destruct Hb as [_ Hb].
      rewrite (H l Hl Hb) in Tf. discriminate.
    - intros v Hv. apply fvars_big_or in Hv. destruct Hv as [f [Hf Hv]].
      apply in_map_iff in Hf. destruct Hf as [l [<- Hl]]. apply filter_In in Hl. destruct Hl as [Hl Hb].
      rewrite fvars_flit in Hv. destruct Hv as [<-|[]].
      pose proof (Hcov c m l Hin Hl) as Hi. pose proof (in_A_incl _ _ _ Hi HA) as HA'.
      unfold var_colour in Hb. unfold vclass, get_class in *. rewrite HA' in *.
      destruct (in_B (vmask (fst l)) A); auto. discriminate.
  Qed.

  Lemma leaf_inv_B : forall idx c m, In (c, m) input -> in_A m A = false -> in_B m A = true ->
    inv (c, leaf_col vmask A L idx c, leaf_itp vmask A c (leaf_col vmask A L idx c) false).
  Proof.
    intros idx c m Hin HA HB. set (col := leaf_col vmask A L idx c).
    assert (Hnn : forall l, In l c -> is_none (vcol col (fst l)) = false).
    { intros l Hl. apply leaf_colour_not_none; auto. eapply class_not_none_of_clause; eauto.
      unfold get_class. rewrite HA, HB. congruence. }
    unfold inv, nd_clause, nd_col, nd_itp, leaf_itp; simpl. repeat split.
    - intros a Ht Hs H. rewrite feval_big_and. apply forallb_forall. intros f Hf.
      apply in_map_iff in Hf. destruct Hf as [l [<- Hl]]. apply filter_In in Hl. destruct Hl as [Hl Ha].
      rewrite feval_fnlit. unfold is_a in Ha. apply andb_true_iff in Ha. destruct Ha as [Ha _].
      now rewrite (H l Hl Ha).
    - intros a Ht Hs H. rewrite feval_big_and.
      pose proof (Hs c m Hin HB) as Hc. apply clause_true_iff in Hc. destruct Hc as [l [Hl Tl]].
      destruct (forallb (feval a) _) eqn:E; auto. rewrite forallb_forall in E.
      assert (Hin2 : In (fnlit l) (map fnlit (filter (fun l0 => is_a (vcol col (fst l0))) c))).
      { apply in_map. apply filter_In. split; auto. unfold is_a.
        destruct (snd (vcol col (fst l))) eqn:E2.
        - rewrite (H l Hl E2) in Tl. discriminate.
        - rewrite (colour_cases' _ (Hnn l Hl) E2). reflexivity. }
      specialize (E _ Hin2). rewrite feval_fnlit, Tl in E. discriminate.
    - intros v Hv. apply fvars_big_and in Hv. destruct Hv as [f [Hf Hv]].
      apply in_map_iff in Hf. destruct Hf as [l [<- Hl]]. apply filter_In in Hl. destruct Hl as [Hl Ha].
      rewrite fvars_fnlit in Hv. destruct Hv as [<-|[]].
      pose proof (Hcov c m l Hin Hl) as Hi. pose proof (in_B_incl _ _ _ Hi HB) as HB'.
      unfold var_colour in Ha. unfold vclass, get_class in *. rewrite HB' in *.
      destruct (in_A (vmask (fst l)) A); auto. discriminate.
  Qed.

  (* colours only grow from an antecedent to the resolvent (for literals other than the pivot) *)
  Lemma vcol_merge_l : forall m1 m2 p v, v <> p ->
    fst (vcol m1 v) = true -> fst (vcol (cremove p (cmerge m1 m2)) v) = true.
  Proof.
    intros m1 m2 p v Hv. unfold var_colour. destruct (vcls v); auto.
    rewrite cget_cremove, cget_cmerge. destruct (Nat.eqb_spec v p); [contradiction|]. simpl. intros ->. reflexivity.
  Qed.
  Lemma vcol_merge_r : forall m1 m2 p v, v <> p ->
    fst (vcol m2 v) = true -> fst (vcol (cremove p (cmerge m1 m2)) v) = true.
  Proof.
    intros m1 m2 p v Hv. unfold var_colour. destruct (vcls v); auto.
    rewrite cget_cremove, cget_cmerge. destruct (Nat.eqb_spec v p); [contradiction|]. simpl. intros ->. apply orb_true_r.
  Qed.
  Lemma vcol_merge_l' : forall m1 m2 p v, v <> p ->
    snd (vcol m1 v) = true -> snd (vcol (cremove p (cmerge m1 m2)) v) = true.
  Proof.
    intros m1 m2 p v Hv. unfold var_colour. destruct (vcls v); auto.
    rewrite cget_cremove, cget_cmerge. destruct (Nat.eqb_spec v p); [contradiction|]. simpl. intros ->. reflexivity.
  Qed.
  Lemma vcol_merge_r' : forall m1 m2 p v, v <> p ->
    snd (vcol m2 v) = true -> snd (vcol (cremove p (cmerge m1 m2)) v) = true.
  Proof.
    intros m1 m2 p v Hv. unfold var_colour. destruct (vcls v); auto.
    rewrite cget_cremove, cget_cmerge. destruct (Nat.eqb_spec v p); [contradiction|]. simpl. intros ->. apply orb_true_r.
  Qed.

  (* what the merged pivot colour says about the pivot's colour in each antecedent *)
  Lemma pivot_a : forall m1 m2 p pc, pivot_colour vmask A (cmerge m1 m2) p = Some pc -> is_a pc = true ->
    snd (vcol m1 p) = false /\ snd (vcol m2 p) = false.
  Proof.
    intros m1 m2 p pc. unfold pivot_colour, var_colour. destruct (vcls p); try discriminate.
    - intros [= <-] _. auto.
    - intros [= <-]. discriminate.
    - rewrite cget_cmerge. destruct (is_none _); [discriminate|]. intros [= <-]. unfold is_a, cor; simpl.
      intros H. apply andb_true_iff in H. destruct H as [_ H]. apply negb_true_iff, orb_false_iff in H. exact H.
  Qed.
  Lemma pivot_b : forall m1 m2 p pc, pivot_colour vmask A (cmerge m1 m2) p = Some pc -> is_b pc = true ->
    fst (vcol m1 p) = false /\ fst (vcol m2 p) = false.
  Proof.
    intros m1 m2 p pc. unfold pivot_colour, var_colour. destruct (vcls p); try discriminate.
    - intros [= <-]. discriminate.
    - intros [= <-] _. auto.
    - rewrite cget_cmerge. destruct (is_none _); [discriminate|]. intros [= <-]. unfold is_b, cor; simpl.
      intros H. apply andb_true_iff in H. destruct H as [H _]. apply negb_true_iff, orb_false_iff in H. exact H.
  Qed.
  Lemma pivot_ab_shared : forall m p pc, pivot_colour vmask A m p = Some pc -> is_a pc = false -> is_b pc = false -> vcls p = CAB.
  Proof.
    intros m p pc. unfold pivot_colour. destruct (vcls p); try discriminate; auto.
    - intros [= <-]. discriminate.
    - intros [= <-] _. discriminate.
  Qed.

  Lemma res_inv : forall d1 d2 p pc,
    inv d1 -> inv d2 ->
    ~ In (p, false) (nd_clause d1) -> ~ In (p, true) (nd_clause d2) ->
    pivot_colour vmask A (cmerge (nd_col d1) (nd_col d2)) p = Some pc ->
    inv (resolve (nd_clause d1) (nd_clause d2) p, cremove p (cmerge (nd_col d1) (nd_col d2)),
         inner_itp pc p (nd_itp d1) (nd_itp d2)).
  Proof.
    intros [[c1 m1] I1] [[c2 m2] I2] p pc [IA1 [IB1 IV1]] [IA2 [IB2 IV2]] Hn1 Hn2 Hpc.
    unfold nd_clause, nd_col, nd_itp in *; simpl in *.
    set (col := cremove p (cmerge m1 m2)).
    (* literals of the antecedents other than the pivot are literals of the resolvent with a variable other than p *)
    assert (F1 : forall l, In l c1 -> l <> (p, true) -> In l (resolve c1 c2 p) /\ fst l <> p).
    { intros l Hl Hne. split.
      - unfold resolve. apply in_or_app. left. apply in_remove_lit. auto.
      - intros E. destruct l as [v b]. simpl in E. subst v. destruct b; [now apply Hne | now apply Hn1]. }
    assert (F2 : forall l, In l c2 -> l <> (p, false) -> In l (resolve c1 c2 p) /\ fst l <> p).
    { intros l Hl Hne. split.
      - unfold resolve. apply in_or_app. right. apply in_remove_lit. auto.
      - intros E. destruct l as [v b]. simpl in E. subst v. destruct b; [now apply Hn2 | now apply Hne]. }
    assert (lit_dec : forall l k : lit, l = k \/ l <> k).
    { intros l k. destruct (lit_eqb l k) eqn:E; [left; now apply lit_eqb_eq | right; intros ->].
      assert (lit_eqb k k = true) by now apply lit_eqb_eq. congruence. }
    unfold inv, nd_clause, nd_col, nd_itp; simpl. repeat split.
    - (* A side *)
      intros a Ht Hs H.
      assert (T1 : a p = false \/ fst (vcol m1 p) = false -> feval a I1 = true).
      { intros Hp. apply IA1; auto. intros l Hl Hc. destruct (lit_dec l (p, true)) as [->|Hne].
        - destruct Hp as [Hp|Hp]; [unfold lit_true; simpl; now rewrite Hp | simpl in Hc; congruence].
        - destruct (F1 l Hl Hne) as [Hr Hv]. apply H; auto. apply vcol_merge_l; auto. }
      assert (T2 : a p = true \/ fst (vcol m2 p) = false -> feval a I2 = true).
      { intros Hp. apply IA2; auto. intros l Hl Hc. destruct (lit_dec l (p, false)) as [->|Hne].
        - destruct Hp as [Hp|Hp]; [unfold lit_true; simpl; now rewrite Hp | simpl in Hc; congruence].
        - destruct (F2 l Hl Hne) as [Hr Hv]. apply H; auto. apply vcol_merge_r; auto. }
      unfold inner_itp. destruct (is_a pc) eqn:Ea; [|destruct (is_b pc) eqn:Eb]; simpl.
      + destruct (a p) eqn:Ep; [rewrite T2; auto using orb_true_r | rewrite T1; auto].
      + destruct (pivot_b _ _ _ _ Hpc Eb) as [P1 P2]. rewrite T1, T2; auto.
      + destruct (a p) eqn:Ep; simpl.
        * rewrite T2; auto. now rewrite orb_true_r.
        * rewrite T1; auto. simpl. now rewrite orb_true_r.
    - (* B side *)
      intros a Ht Hs H.
      assert (T1 : a p = false \/ snd (vcol m1 p) = false -> feval a I1 = false).
      { intros Hp. apply IB1; auto. intros l Hl Hc. destruct (lit_dec l (p, true)) as [->|Hne].
        - destruct Hp as [Hp|Hp]; [unfold lit_true; simpl; now rewrite Hp | simpl in Hc; congruence].
        - destruct (F1 l Hl Hne) as [Hr Hv]. apply H; auto. apply vcol_merge_l'; auto. }
      assert (T2 : a p = true \/ snd (vcol m2 p) = false -> feval a I2 = false).
      { intros Hp. apply IB2; auto. intros l Hl Hc. destruct (lit_dec l (p, false)) as [->|Hne].
        - destruct Hp as [Hp|Hp]; [unfold lit_true; simpl; now rewrite Hp | simpl in Hc; congruence].
        - destruct (F2 l Hl Hne) as [Hr Hv]. apply H; auto. apply vcol_merge_r'; auto. }
      unfold inner_itp. destruct (is_a pc) eqn:Ea; [|destruct (is_b pc) eqn:Eb]; simpl.
      + destruct (pivot_a _ _ _ _ Hpc Ea) as [P1 P2]. rewrite T1, T2; auto.
      + destruct (a p) eqn:Ep; [rewrite T2; auto using andb_false_r | rewrite T1; auto].
      + destruct (a p) eqn:Ep; simpl.
        * rewrite T2; auto. now rewrite andb_false_r.
        * rewrite T1; auto.
    - (* symbols *)
      intros v Hv. unfold inner_itp in Hv.
      destruct (is_a pc) eqn:Ea; [|destruct (is_b pc) eqn:Eb]; simpl in Hv.
      + apply in_app_or in Hv. destruct Hv; auto.
      + apply in_app_or in Hv. destruct Hv; auto.
      + pose proof (pivot_ab_shared _ _ _ Hpc Ea Eb) as Hs.
        repeat (apply in_app_or in Hv; destruct Hv as [Hv|Hv]); auto; simpl in Hv; destruct Hv as [<-|[]]; auto.
  Qed.

  Lemma step_inv : forall acc n d, Forall inv acc -> node_ok Tcons vmask A input acc n ->
    step vmask A th_itp L acc n = Some d -> inv d.
  Proof.
    intros acc n d Hacc Hok Hs. destruct n as [c m|c|i j p]; simpl in *.
    - unfold get_class in Hs. destruct (in_A m A) eqn:Ea; destruct (in_B m A) eqn:Eb; try discriminate;
        injection Hs as <-.
      + eapply leaf_inv_A; eauto.
      + eapply leaf_inv_A; eauto.
      + eapply leaf_inv_B; eauto.
    - injection Hs as <-. destruct Hok as [Hv Hc].
      destruct (Hth c (vcol (leaf_col vmask A L (length acc) c)) Hv) as [H1 [H2 H3]].
      { intros l Hl. apply leaf_colour_not_none; auto. }
      unfold inv, nd_clause, nd_col, nd_itp; simpl. repeat split.
      + intros a Ht _ H. apply H1; auto.
      + intros a Ht _ H. apply H2; auto.
      + exact H3.
    - destruct (nth_error acc i) as [d1|] eqn:E1; [|discriminate].
      destruct (nth_error acc j) as [d2|] eqn:E2; [|discriminate].
      destruct (pivot_colour vmask A (cmerge (nd_col d1) (nd_col d2)) p) as [pc|] eqn:Ep; [|discriminate].
      injection Hs as <-. destruct (Hok d1 d2 eq_refl eq_refl) as [N1 N2].
      rewrite Forall_forall in Hacc.
      apply res_inv; auto; apply Hacc; eapply nth_error_In; eauto.
  Qed.

  Lemma run_inv : forall P acc acc', Forall inv acc -> valid_from Tcons vmask A th_itp L input acc P ->
    run vmask A th_itp L acc P = Some acc' -> Forall inv acc'.
  Proof.
    induction P as [|n P IH]; simpl; intros acc acc' Hacc Hv Hr.
    - now injection Hr as <-.
    - destruct Hv as [Hok Hv]. destruct (step vmask A th_itp L acc n) as [d|] eqn:Es; [|discriminate].
      apply (IH (acc ++ [d])); auto. apply Forall_app. split; auto. constructor; auto. eapply step_inv; eauto.
  Qed.

  Theorem itp_correct : forall P I,
    valid_refutation Tcons vmask A th_itp L input P -> itp vmask A th_itp L P = Some I ->
    (forall a, Tcons a -> satA A input a -> feval a I = true)
    /\ (forall a, Tcons a -> satB A input a -> feval a I = false)
    /\ (forall v, In v (fvars I) -> vcls v = CAB).
  Proof.
    intros P I Hv Hi. unfold itp in Hi.
    destruct (run vmask A th_itp L [] P) as [acc|] eqn:Er; [|discriminate].
    pose proof (run_inv P [] acc (Forall_nil _) Hv Er) as Hall.
    destruct (rev acc) as [|d r] eqn:Erev; [discriminate|].
    destruct (nd_clause d) eqn:Ec; [|discriminate]. injection Hi as <-.
    assert (Hd : inv d).
    { rewrite Forall_forall in Hall. apply Hall. apply in_rev. rewrite Erev. now left. }
    destruct Hd as [HA [HB HV]]. rewrite Ec in *. repeat split; auto.
    - intros a Ht Hs. apply HA; auto. intros l [].
    - intros a Ht Hs. apply HB; auto. intros l [].
  Qed.
End Correct.

(* ---- the six labellings of the implementation are locality preserving ------------------------- *)
Lemma impl_label_locality : forall g vmask A P, locality_preserving vmask A (impl_label g A P).
Proof.
  intros g vmask A P idx v _. unfold impl_label. destruct g; try reflexivity; destruct (ps_is_a A P v); reflexivity.
Qed.

(* variable classes computed from the occurrences: a shared variable occurs in a clause of A and in a clause of B *)
Lemma vmask_of_covers : forall input, covers (vmask_of input) input.
Proof.
  intros input c m l Hin Hl i Hi. unfold vmask_of. apply in_flat_map. exists (c, m). split; auto. simpl.
  assert (mentions c (fst l) = true) as ->.
  { apply existsb_exists. exists l. split; auto. apply Nat.eqb_refl. } exact Hi.
Qed.

Lemma vmask_of_shared : forall input A v, vclass (vmask_of input) A v = CAB ->
  (exists c m, In (c, m) input /\ in_A m A = true /\ mentions c v = true)
  /\ (exists c m, In (c, m) input /\ in_B m A = true /\ mentions c v = true).
Proof.
  intros input A v. unfold vclass, get_class.
  destruct (in_A (vmask_of input v) A) eqn:Ea; destruct (in_B (vmask_of input v) A) eqn:Eb; try discriminate.
  intros _. split.
  - unfold in_A in Ea. apply existsb_exists in Ea. destruct Ea as [i [Hi Hm]].
    unfold vmask_of in Hi. apply in_flat_map in Hi. destruct Hi as [[c m] [Hin Hi]]. simpl in Hi.
    destruct (mentions c v) eqn:Em; [|contradiction]. exists c, m. repeat split; auto.
    apply existsb_exists. exists i. auto.
  - unfold in_B in Eb. apply existsb_exists in Eb. destruct Eb as [i [Hi Hm]].
    unfold vmask_of in Hi. apply in_flat_map in Hi. destruct Hi as [[c m] [Hin Hi]]. simpl in Hi.
    destruct (mentions c v) eqn:Em; [|contradiction]. exists c, m. repeat split; auto.
    apply existsb_exists. exists i. auto.
Qed.
