(* C09: the path-interpolation property  I_i /\ G_{i+1} |= I_{i+1}  for two labelled interpolation systems over the SAME
   refutation, for nested A-masks A1 <= A2, provided the leaf labelling for A1 is below the one for A2 in the strength
   order b <= ab <= a on the variables shared under both masks ([lab_le]).  All six labelling functions of the
   implementation satisfy this condition for nested masks (McMillan / Pudlak / McMillan' trivially; the proof-sensitive
   ones because the occurrence counts of computePSFunction are monotone in the A-mask).

   Invariant (for every node, by induction over the DAG; S = literals whose two colours are not both a and not both b):
        I1_C /\ (clauses moved from B to A) /\ not (C restricted to S)  |=  I2_C                                      *)
From Coq Require Import List Bool Arith PeanoNat Lia.
From OsmtV.Itp Require Import Labelled LabelledProofs PathItp.
Import ListNotations.

(* contract of the theory interpolator for two colourings of the same T-valid clause *)
Definition th_path_contract (Tcons : assignment -> Prop) (th : clause -> (var -> colour) -> form) : Prop :=
  forall c colf1 colf2,
    (forall a, Tcons a -> clause_true a c = true) ->
    (forall l, In l c -> is_none (colf1 (fst l)) = false /\ is_none (colf2 (fst l)) = false) ->
    (forall l, In l c -> cle (colf1 (fst l)) (colf2 (fst l)) = true) ->
    forall a, Tcons a -> feval a (th c colf1) = true ->
      (forall l, In l c -> in_S (colf1 (fst l)) (colf2 (fst l)) = true -> lit_true a l = false) ->
      feval a (th c colf2) = true.

(* G_{i+1}: the clauses that are in A under the larger mask but not under the smaller one *)
Definition satMoved (A1 A2 : mask) (input : input_t) (a : assignment) : Prop :=
  forall c m, In (c, m) input -> in_A m A2 = true -> in_A m A1 = false -> clause_true a c = true.

(* ---- masks ------------------------------------------------------------------------------------- *)
Lemma nested_in_A : forall A1 A2 m, nested A1 A2 -> in_A m A1 = true -> in_A m A2 = true.
Proof.
  unfold in_A. intros A1 A2 m Hn H. apply existsb_exists in H. destruct H as [i [Hi H]].
  apply existsb_exists. exists i. auto.
Qed.

Lemma nested_in_B : forall A1 A2 m, nested A1 A2 -> in_B m A2 = true -> in_B m A1 = true.
Proof.
  unfold in_B. intros A1 A2 m Hn H. apply existsb_exists in H. destruct H as [i [Hi H]].
  apply existsb_exists. exists i. split; auto. apply negb_true_iff in H. apply negb_true_iff.
  destruct (mem i A1) eqn:E; auto. rewrite (Hn i E) in H. discriminate.
Qed.

Lemma empty_mask : forall m A, in_A m A = false -> in_B m A = false -> m = [].
Proof.
  intros [|i m] A; auto. unfold in_A, in_B; simpl. destruct (mem i A); simpl; discriminate.
Qed.

Lemma class_none_indep : forall m A1 A2, get_class m A1 <> CNone -> get_class m A2 <> CNone.
Proof.
  intros m A1 A2 H. unfold get_class in *.
  destruct (in_A m A2) eqn:Ea; destruct (in_B m A2) eqn:Eb; try congruence.
  pose proof (empty_mask _ _ Ea Eb) as ->. simpl in H. congruence.
Qed.

(* ---- colours ----------------------------------------------------------------------------------- *)
Lemma cle_cor : forall x y x' y', cle x y = true -> cle x' y' = true -> cle (cor x x') (cor y y') = true.
Proof. intros [[] []] [[] []] [[] []] [[] []]; reflexivity || discriminate. Qed.

Lemma cle_none : cle cnone cnone = true. Proof. reflexivity. Qed.

Lemma in_S_up : forall x y X Y : colour,
  (fst x = true -> fst X = true) -> (snd x = true -> snd X = true) ->
  (fst y = true -> fst Y = true) -> (snd y = true -> snd Y = true) ->
  is_none x = false -> is_none y = false -> in_S x y = true -> in_S X Y = true.
Proof.
  intros [[] []] [[] []] [[] []] [[] []]; unfold in_S, is_a, is_b, is_none; simpl; intros H1 H2 H3 H4 H5 H6 H7;
    try reflexivity; try discriminate;
    try (specialize (H1 eq_refl); discriminate); try (specialize (H2 eq_refl); discriminate);
    try (specialize (H3 eq_refl); discriminate); try (specialize (H4 eq_refl); discriminate).
Qed.

Lemma in_S_b_notb : forall x y, is_b x = true -> is_b y = false -> in_S x y = true.
Proof. intros [[] []] [[] []]; unfold in_S, is_a, is_b; simpl; intros; congruence. Qed.
Lemma in_S_nota_a : forall x y, is_a x = false -> is_a y = true -> in_S x y = true.
Proof. intros [[] []] [[] []]; unfold in_S, is_a, is_b; simpl; intros; congruence. Qed.

Lemma not_none_up : forall x X : colour,
  (fst x = true -> fst X = true) -> (snd x = true -> snd X = true) -> is_none x = false -> is_none X = false.
Proof.
  intros [[] []] [[] []]; unfold is_none; simpl; intros H1 H2 H3; try reflexivity; try discriminate;
    try (specialize (H1 eq_refl); discriminate); try (specialize (H2 eq_refl); discriminate).
Qed.

Lemma Forall2_nth : forall (X Y : Type) (R : X -> Y -> Prop) l1 l2 i x y,
  Forall2 R l1 l2 -> nth_error l1 i = Some x -> nth_error l2 i = Some y -> R x y.
Proof.
  intros X Y R l1 l2 i x y H. revert i. induction H; intros [|i]; simpl; try discriminate.
  - intros [= <-] [= <-]. assumption.
  - apply IHForall2.
Qed.

Lemma Forall2_snoc : forall (X Y : Type) (R : X -> Y -> Prop) l1 l2 x y,
  Forall2 R l1 l2 -> R x y -> Forall2 R (l1 ++ [x]) (l2 ++ [y]).
Proof. intros. apply Forall2_app; auto. Qed.

Lemma Forall2_rev' : forall (X Y : Type) (R : X -> Y -> Prop) l1 l2, Forall2 R l1 l2 -> Forall2 R (rev l1) (rev l2).
Proof. induction 1; simpl; [constructor | apply Forall2_snoc; auto]. Qed.

Lemma Forall2_length' : forall (X Y : Type) (R : X -> Y -> Prop) l1 l2, Forall2 R l1 l2 -> length l1 = length l2.
Proof. induction 1; simpl; auto. Qed.

Section Path.
  Variable Tcons : assignment -> Prop.
  Variable vmask : var -> mask.
  Variables A1 A2 : mask.
  Variable th : clause -> (var -> colour) -> form.
  Variables L1 L2 : nat -> var -> colour.
  Variable input : input_t.

  Hypothesis Hcov : covers vmask input.
  Hypothesis Hnest : nested A1 A2.
  Hypothesis Hloc1 : locality_preserving vmask A1 L1.
  Hypothesis Hloc2 : locality_preserving vmask A2 L2.
  Hypothesis Hle : lab_le vmask A1 A2 L1 L2.
  Hypothesis Hth : th_path_contract Tcons th.

  Notation vcol1 := (var_colour vmask A1).
  Notation vcol2 := (var_colour vmask A2).
  Notation cls1 := (vclass vmask A1).
  Notation cls2 := (vclass vmask A2).

  Definition Rcol (c1 c2 : colmap) : Prop := forall v, cls1 v = CAB -> cls2 v = CAB -> cle (cget c1 v) (cget c2 v) = true.

  Lemma vcol_cle : forall c1 c2 v, Rcol c1 c2 -> cle (vcol1 c1 v) (vcol2 c2 v) = true.
  Proof.
    intros c1 c2 v HR. specialize (HR v). unfold var_colour, vclass, get_class in *.
    destruct (in_A (vmask v) A1) eqn:Ea1; destruct (in_B (vmask v) A1) eqn:Eb1;
      destruct (in_A (vmask v) A2) eqn:Ea2; destruct (in_B (vmask v) A2) eqn:Eb2;
      try (rewrite (nested_in_A _ _ _ Hnest Ea1) in Ea2; discriminate);
      try (rewrite (nested_in_B _ _ _ Hnest Eb2) in Eb1; discriminate);
      try (pose proof (empty_mask _ _ Ea1 Eb1) as E; rewrite E in *; simpl in *; discriminate);
      try reflexivity; try (apply HR; reflexivity);
      try (destruct (cget c2 v) as [[] []]; reflexivity);
      try (destruct (cget c1 v) as [[] []]; reflexivity).
  Qed.

  Definition pinv (d1 d2 : ndata) : Prop :=
    nd_clause d1 = nd_clause d2
    /\ Rcol (nd_col d1) (nd_col d2)
    /\ (forall l, In l (nd_clause d1) ->
                  is_none (vcol1 (nd_col d1) (fst l)) = false /\ is_none (vcol2 (nd_col d2) (fst l)) = false)
    /\ (forall a, Tcons a -> satMoved A1 A2 input a -> feval a (nd_itp d1) = true ->
                  (forall l, In l (nd_clause d1) ->
                             in_S (vcol1 (nd_col d1) (fst l)) (vcol2 (nd_col d2) (fst l)) = true -> lit_true a l = false) ->
                  feval a (nd_itp d2) = true).

  (* ---- leaves ---- *)
  Lemma cget_leaf_col_gen : forall A L idx c v, vclass vmask A v = CAB ->
    cget (leaf_col vmask A L idx c) v = if mentions c v then L idx v else cnone.
  Proof.
    intros A L idx c v Hv. unfold leaf_col, mentions. induction c as [|[w b] c IH]; simpl; auto.
    destruct (Nat.eqb_spec w v) as [->|N]; simpl.
    - rewrite Hv. simpl. now rewrite Nat.eqb_refl.
    - destruct (vclass vmask A w); simpl; auto.
      destruct (Nat.eqb_spec v w) as [E|_]; [symmetry in E; contradiction|]. exact IH.
  Qed.

  Lemma leaf_col_R : forall idx c, Rcol (leaf_col vmask A1 L1 idx c) (leaf_col vmask A2 L2 idx c).
  Proof.
    intros idx c v H1 H2. rewrite (cget_leaf_col_gen A1 L1 idx c v H1), (cget_leaf_col_gen A2 L2 idx c v H2).
    destruct (mentions c v); [apply Hle; auto | reflexivity].
  Qed.

  Lemma step_leaf : forall A L acc c m d, step vmask A th L acc (Leaf c m) = Some d ->
    d = (c, leaf_col vmask A L (length acc) c, leaf_itp vmask A c (leaf_col vmask A L (length acc) c) (in_A m A))
    /\ get_class m A <> CNone.
  Proof.
    intros A L acc c m d. simpl. unfold get_class.
    destruct (in_A m A); destruct (in_B m A); intros [= <-]; split; auto; discriminate.
  Qed.

  Lemma leaf_pinv : forall idx c m, In (c, m) input -> get_class m A1 <> CNone ->
    pinv (c, leaf_col vmask A1 L1 idx c, leaf_itp vmask A1 c (leaf_col vmask A1 L1 idx c) (in_A m A1))
         (c, leaf_col vmask A2 L2 idx c, leaf_itp vmask A2 c (leaf_col vmask A2 L2 idx c) (in_A m A2)).
  Proof.
    intros idx c m Hin Hn1.
    pose proof (class_none_indep m A1 A2 Hn1) as Hn2.
    set (col1 := leaf_col vmask A1 L1 idx c). set (col2 := leaf_col vmask A2 L2 idx c).
    unfold pinv, nd_clause, nd_col, nd_itp; simpl. split; [reflexivity|]. split; [apply leaf_col_R|]. split.
    - intros l Hl. split; apply leaf_colour_not_none; auto; eapply class_not_none_of_clause; eauto.
    - intros a Ht Hm HI H. unfold leaf_itp in *.
      destruct (in_A m A1) eqn:E1.
      + (* A under both masks *)
        rewrite (nested_in_A _ _ _ Hnest E1).
        rewrite feval_big_or in *. apply existsb_exists in HI. destruct HI as [f [Hf Tf]].
        apply in_map_iff in Hf. destruct Hf as [l [<- Hl]]. apply filter_In in Hl. destruct Hl as [Hl Hb].
        rewrite feval_flit in Tf. apply existsb_exists. exists (flit l). rewrite feval_flit. split; auto.
        apply in_map. apply filter_In. split; auto.
        destruct (is_b (vcol2 col2 (fst l))) eqn:E; auto.
        assert (HS : in_S (vcol1 col1 (fst l)) (vcol2 col2 (fst l)) = true) by (apply in_S_b_notb; auto).
        rewrite (H l Hl HS) in Tf. discriminate.
      + destruct (in_A m A2) eqn:E2.
        * (* B under the smaller mask, A under the larger one: the clause has moved *)
          pose proof (Hm c m Hin E2 E1) as Hc. apply clause_true_iff in Hc. destruct Hc as [l [Hl Tl]].
          rewrite feval_big_or. apply existsb_exists. exists (flit l). rewrite feval_flit. split; auto.
          apply in_map. apply filter_In. split; auto.
          rewrite feval_big_and in HI. rewrite forallb_forall in HI.
          destruct (in_S (vcol1 col1 (fst l)) (vcol2 col2 (fst l))) eqn:ES.
          { rewrite (H l Hl ES) in Tl. discriminate. }
          unfold in_S in ES. apply negb_false_iff, orb_true_iff in ES. destruct ES as [ES|ES]; apply andb_true_iff in ES; destruct ES as [X Y]; auto.
          assert (Hf : In (fnlit l) (map fnlit (filter (fun l0 : lit => is_a (vcol1 col1 (fst l0))) c))).
          { apply in_map. apply filter_In. auto. }
          specialize (HI _ Hf). rewrite feval_fnlit, Tl in HI. discriminate.
        * (* B under both masks *)
          rewrite feval_big_and in *. rewrite forallb_forall in *. intros f Hf.
          apply in_map_iff in Hf. destruct Hf as [l [<- Hl]]. apply filter_In in Hl. destruct Hl as [Hl Ha].
          destruct (is_a (vcol1 col1 (fst l))) eqn:E.
          { apply HI. apply in_map. apply filter_In. auto. }
          assert (HS : in_S (vcol1 col1 (fst l)) (vcol2 col2 (fst l)) = true) by (apply in_S_nota_a; auto).
          rewrite feval_fnlit. now rewrite (H l Hl HS).
  Qed.

  (* ---- inner nodes ---- *)
  Lemma pivot_colour_spec : forall A m p pc, pivot_colour vmask A m p = Some pc ->
    pc = var_colour vmask A m p /\ is_none pc = false.
  Proof.
    intros A m p pc. unfold pivot_colour, var_colour. destruct (vclass vmask A p); try discriminate.
    - intros [= <-]; auto.
    - intros [= <-]; auto.
    - destruct (is_none (cget m p)) eqn:E; [discriminate|]. intros [= <-]; auto.
  Qed.

  Lemma Rcol_merge : forall m1 m2 n1 n2 p, Rcol m1 m2 -> Rcol n1 n2 ->
    Rcol (cremove p (cmerge m1 n1)) (cremove p (cmerge m2 n2)).
  Proof.
    intros m1 m2 n1 n2 p H1 H2 v C1 C2. rewrite !cget_cremove, !cget_cmerge.
    destruct (Nat.eqb v p); [reflexivity|]. apply cle_cor; auto.
  Qed.
  Lemma Rcol_merge' : forall m1 m2 n1 n2, Rcol m1 m2 -> Rcol n1 n2 -> Rcol (cmerge m1 n1) (cmerge m2 n2).
  Proof. intros m1 m2 n1 n2 H1 H2 v C1 C2. rewrite !cget_cmerge. apply cle_cor; auto. Qed.

  Lemma res_pinv : forall x1 x2 y1 y2 p pc1 pc2,
    pinv x1 x2 -> pinv y1 y2 ->
    ~ In (p, false) (nd_clause x1) -> ~ In (p, true) (nd_clause y1) ->
    pivot_colour vmask A1 (cmerge (nd_col x1) (nd_col y1)) p = Some pc1 ->
    pivot_colour vmask A2 (cmerge (nd_col x2) (nd_col y2)) p = Some pc2 ->
    pinv (resolve (nd_clause x1) (nd_clause y1) p, cremove p (cmerge (nd_col x1) (nd_col y1)),
          inner_itp pc1 p (nd_itp x1) (nd_itp y1))
         (resolve (nd_clause x2) (nd_clause y2) p, cremove p (cmerge (nd_col x2) (nd_col y2)),
          inner_itp pc2 p (nd_itp x2) (nd_itp y2)).
  Proof.
    intros [[c1 m1] I1] [[c1' m2] I2] [[d1 n1] J1] [[d1' n2] J2] p pc1 pc2.
    intros [Ec [Rx [Wx Px]]] [Ed [Ry [Wy Py]]] Hn1 Hn2 Hp1 Hp2.
    unfold nd_clause, nd_col, nd_itp in *; simpl in *. subst c1' d1'.
    set (col1 := cremove p (cmerge m1 n1)). set (col2 := cremove p (cmerge m2 n2)).
    assert (F1 : forall l, In l c1 -> l <> (p, true) -> In l (resolve c1 d1 p) /\ fst l <> p).
    { intros l Hl Hne. split.
      - unfold resolve. apply in_or_app. left. apply in_remove_lit. auto.
      - intros E. destruct l as [v b]. simpl in E. subst v. destruct b; [now apply Hne | now apply Hn1]. }
    assert (F2 : forall l, In l d1 -> l <> (p, false) -> In l (resolve c1 d1 p) /\ fst l <> p).
    { intros l Hl Hne. split.
      - unfold resolve. apply in_or_app. right. apply in_remove_lit. auto.
      - intros E. destruct l as [v b]. simpl in E. subst v. destruct b; [now apply Hn2 | now apply Hne]. }
    assert (lit_dec : forall l k : lit, l = k \/ l <> k).
    { intros l k. destruct (lit_eqb l k) eqn:E; [left; now apply lit_eqb_eq | right; intros ->].
      rewrite (proj2 (lit_eqb_eq _ _) eq_refl) in E. discriminate. }
    destruct (pivot_colour_spec _ _ _ _ Hp1) as [Epc1 Nn1]. destruct (pivot_colour_spec _ _ _ _ Hp2) as [Epc2 Nn2].
    assert (Hcle : cle pc1 pc2 = true).
    { rewrite Epc1, Epc2. apply vcol_cle. apply Rcol_merge'; auto. }
    unfold pinv, nd_clause, nd_col, nd_itp; simpl. split; [reflexivity|]. split; [apply Rcol_merge; auto|]. split.
    - (* every literal of the resolvent is coloured *)
      intros l Hl. unfold resolve in Hl. apply in_app_or in Hl. destruct Hl as [Hl|Hl]; apply in_remove_lit in Hl; destruct Hl as [Hl Hne].
      + destruct (F1 l Hl Hne) as [_ Hv]. destruct (Wx l Hl) as [W1 W2]. split.
        * eapply not_none_up; [| |exact W1]; [apply vcol_merge_l | apply vcol_merge_l']; auto.
        * eapply not_none_up; [| |exact W2]; [apply vcol_merge_l | apply vcol_merge_l']; auto.
      + destruct (F2 l Hl Hne) as [_ Hv]. destruct (Wy l Hl) as [W1 W2]. split.
        * eapply not_none_up; [| |exact W1]; [apply vcol_merge_r | apply vcol_merge_r']; auto.
        * eapply not_none_up; [| |exact W2]; [apply vcol_merge_r | apply vcol_merge_r']; auto.
    - intros a Ht Hm HI H.
      assert (U1 : (a p = false \/ (In (p, true) c1 -> in_S (vcol1 m1 p) (vcol2 m2 p) = false)) ->
                   feval a I1 = true -> feval a I2 = true).
      { intros Hp T. apply Px; auto. intros l Hl HS. destruct (lit_dec l (p, true)) as [->|Hne].
        - destruct Hp as [Hp|Hp]; [unfold lit_true; simpl; now rewrite Hp | simpl in HS; rewrite (Hp Hl) in HS; discriminate].
        - destruct (F1 l Hl Hne) as [Hr Hv]. destruct (Wx l Hl) as [W1 W2]. apply H; auto.
          eapply in_S_up; [| | | |exact W1|exact W2|exact HS];
            [apply vcol_merge_l | apply vcol_merge_l' | apply vcol_merge_l | apply vcol_merge_l']; auto. }
      assert (U2 : (a p = true \/ (In (p, false) d1 -> in_S (vcol1 n1 p) (vcol2 n2 p) = false)) ->
                   feval a J1 = true -> feval a J2 = true).
      { intros Hp T. apply Py; auto. intros l Hl HS. destruct (lit_dec l (p, false)) as [->|Hne].
        - destruct Hp as [Hp|Hp]; [unfold lit_true; simpl; now rewrite Hp | simpl in HS; rewrite (Hp Hl) in HS; discriminate].
        - destruct (F2 l Hl Hne) as [Hr Hv]. destruct (Wy l Hl) as [W1 W2]. apply H; auto.
          eapply in_S_up; [| | | |exact W1|exact W2|exact HS];
            [apply vcol_merge_r | apply vcol_merge_r' | apply vcol_merge_r | apply vcol_merge_r']; auto. }
      (* pivot coloured a under both labellings, or b under both: the pivot literals of the antecedents are outside S *)
      assert (Saa : is_a pc1 = true -> is_a pc2 = true ->
                    (In (p, true) c1 -> in_S (vcol1 m1 p) (vcol2 m2 p) = false)
                    /\ (In (p, false) d1 -> in_S (vcol1 n1 p) (vcol2 n2 p) = false)).
      { intros E1 E2. destruct (pivot_a _ _ _ _ _ _ Hp1 E1) as [P1 P2]. destruct (pivot_a _ _ _ _ _ _ Hp2 E2) as [Q1 Q2].
        split; intros Hl.
        - destruct (Wx _ Hl) as [W1 W2]; simpl in W1, W2. unfold in_S, is_a, is_b.
          destruct (vcol1 m1 p) as [[] []]; destruct (vcol2 m2 p) as [[] []]; simpl in *; try discriminate; reflexivity.
        - destruct (Wy _ Hl) as [W1 W2]; simpl in W1, W2. unfold in_S, is_a, is_b.
          destruct (vcol1 n1 p) as [[] []]; destruct (vcol2 n2 p) as [[] []]; simpl in *; try discriminate; reflexivity. }
      assert (Sbb : is_b pc1 = true -> is_b pc2 = true ->
                    (In (p, true) c1 -> in_S (vcol1 m1 p) (vcol2 m2 p) = false)
                    /\ (In (p, false) d1 -> in_S (vcol1 n1 p) (vcol2 n2 p) = false)).
      { intros E1 E2. destruct (pivot_b _ _ _ _ _ _ Hp1 E1) as [P1 P2]. destruct (pivot_b _ _ _ _ _ _ Hp2 E2) as [Q1 Q2].
        split; intros Hl.
        - destruct (Wx _ Hl) as [W1 W2]; simpl in W1, W2. unfold in_S, is_a, is_b.
          destruct (vcol1 m1 p) as [[] []]; destruct (vcol2 m2 p) as [[] []]; simpl in *; try discriminate; reflexivity.
        - destruct (Wy _ Hl) as [W1 W2]; simpl in W1, W2. unfold in_S, is_a, is_b.
          destruct (vcol1 n1 p) as [[] []]; destruct (vcol2 n2 p) as [[] []]; simpl in *; try discriminate; reflexivity. }
      clear Epc1 Epc2 Hp1 Hp2.
      destruct pc1 as [[] []]; destruct pc2 as [[] []]; try discriminate;
        unfold inner_itp, is_a, is_b in *; simpl in *.
      + (* ab, ab *)
        apply andb_true_iff in HI. destruct HI as [X Y]. destruct (a p) eqn:Ep; simpl in *.
        * rewrite orb_false_r in Y. rewrite (U2 (or_introl eq_refl) Y). now rewrite orb_true_r.
        * rewrite orb_false_r in X. rewrite (U1 (or_introl eq_refl) X). simpl. now rewrite orb_true_r.
      + (* ab, a *)
        apply andb_true_iff in HI. destruct HI as [X Y]. destruct (a p) eqn:Ep; simpl in *.
        * rewrite orb_false_r in Y. rewrite (U2 (or_introl eq_refl) Y). now rewrite orb_true_r.
        * rewrite orb_false_r in X. now rewrite (U1 (or_introl eq_refl) X).
      + (* a, a *)
        destruct (Saa eq_refl eq_refl) as [S1 S2]. apply orb_true_iff in HI. destruct HI as [X|Y].
        * now rewrite (U1 (or_intror S1) X).
        * rewrite (U2 (or_intror S2) Y). now rewrite orb_true_r.
      + (* b, ab *)
        apply andb_true_iff in HI. destruct HI as [X Y]. destruct (a p) eqn:Ep; simpl.
        * rewrite (U2 (or_introl eq_refl) Y). now rewrite orb_true_r.
        * rewrite (U1 (or_introl eq_refl) X). simpl. now rewrite orb_true_r.
      + (* b, a *)
        apply andb_true_iff in HI. destruct HI as [X Y]. destruct (a p) eqn:Ep.
        * rewrite (U2 (or_introl eq_refl) Y). now rewrite orb_true_r.
        * now rewrite (U1 (or_introl eq_refl) X).
      + (* b, b *)
        destruct (Sbb eq_refl eq_refl) as [S1 S2]. apply andb_true_iff in HI. destruct HI as [X Y].
        now rewrite (U1 (or_intror S1) X), (U2 (or_intror S2) Y).
  Qed.

  Lemma step_pinv : forall acc1 acc2 n d1 d2,
    Forall2 pinv acc1 acc2 -> node_ok Tcons vmask A1 input acc1 n ->
    step vmask A1 th L1 acc1 n = Some d1 -> step vmask A2 th L2 acc2 n = Some d2 -> pinv d1 d2.
  Proof.
    intros acc1 acc2 n d1 d2 Hacc Hok H1 H2. pose proof (Forall2_length' _ _ _ _ _ Hacc) as Hlen.
    destruct n as [c m|c|i j p].
    - apply step_leaf in H1. apply step_leaf in H2. destruct H1 as [-> N1]. destruct H2 as [-> N2].
      rewrite <- Hlen. apply leaf_pinv; auto.
    - simpl in *. injection H1 as <-. injection H2 as <-. destruct Hok as [Hv Hc]. rewrite <- Hlen.
      set (col1 := leaf_col vmask A1 L1 (length acc1) c). set (col2 := leaf_col vmask A2 L2 (length acc1) c).
      assert (W : forall l, In l c -> is_none (vcol1 col1 (fst l)) = false /\ is_none (vcol2 col2 (fst l)) = false).
      { intros l Hl. split; apply leaf_colour_not_none; auto.
        unfold vclass. apply (class_none_indep _ A1 A2). apply Hc; auto. }
      unfold pinv, nd_clause, nd_col, nd_itp; simpl. split; [reflexivity|]. split; [apply leaf_col_R|]. split; [exact W|].
      intros a Ht Hm HI H. eapply Hth; eauto. intros l Hl. apply vcol_cle. apply leaf_col_R.
    - simpl in *.
      destruct (nth_error acc1 i) as [x1|] eqn:E1; [|discriminate].
      destruct (nth_error acc1 j) as [y1|] eqn:E2; [|discriminate].
      destruct (nth_error acc2 i) as [x2|] eqn:E3; [|discriminate].
      destruct (nth_error acc2 j) as [y2|] eqn:E4; [|discriminate].
      destruct (pivot_colour vmask A1 _ p) as [pc1|] eqn:P1; [|discriminate].
      destruct (pivot_colour vmask A2 _ p) as [pc2|] eqn:P2; [|discriminate].
      injection H1 as <-. injection H2 as <-. destruct (Hok x1 y1 eq_refl eq_refl) as [N1 N2].
      apply res_pinv; auto; eapply Forall2_nth; eauto.
  Qed.

  Lemma run_pinv : forall P acc1 acc2 r1 r2,
    Forall2 pinv acc1 acc2 -> valid_from Tcons vmask A1 th L1 input acc1 P ->
    run vmask A1 th L1 acc1 P = Some r1 -> run vmask A2 th L2 acc2 P = Some r2 -> Forall2 pinv r1 r2.
  Proof.
    induction P as [|n P IH]; simpl; intros acc1 acc2 r1 r2 Hacc Hv H1 H2.
    - injection H1 as <-. injection H2 as <-. exact Hacc.
    - destruct Hv as [Hok Hv].
      destruct (step vmask A1 th L1 acc1 n) as [d1|] eqn:S1; [|discriminate].
      destruct (step vmask A2 th L2 acc2 n) as [d2|] eqn:S2; [|discriminate].
      apply (IH (acc1 ++ [d1]) (acc2 ++ [d2])); auto. apply Forall2_snoc; auto. eapply step_pinv; eauto.
  Qed.

  Theorem path_step : forall P I1 I2,
    valid_refutation Tcons vmask A1 th L1 input P ->
    itp vmask A1 th L1 P = Some I1 -> itp vmask A2 th L2 P = Some I2 ->
    forall a, Tcons a -> satMoved A1 A2 input a -> feval a I1 = true -> feval a I2 = true.
  Proof.
    intros P I1 I2 Hv H1 H2 a Ht Hm HI. unfold itp in *.
    destruct (run vmask A1 th L1 [] P) as [r1|] eqn:R1; [|discriminate].
    destruct (run vmask A2 th L2 [] P) as [r2|] eqn:R2; [|discriminate].
    pose proof (run_pinv P [] [] r1 r2 (Forall2_nil _) Hv R1 R2) as Hall.
    apply Forall2_rev' in Hall.
    destruct (rev r1) as [|d1 t1]; [discriminate|]. destruct (rev r2) as [|d2 t2]; [discriminate|].
    inversion Hall as [|? ? ? ? Hd _]; subst.
    destruct (nd_clause d1) eqn:C1; [|discriminate]. destruct (nd_clause d2) eqn:C2; [|discriminate].
    injection H1 as <-. injection H2 as <-. destruct Hd as [_ [_ [_ Hp]]]. apply Hp; auto.
    rewrite C1. intros l [].
  Qed.
End Path.

(* ---- the six labellings of the implementation are monotone in the A-mask ------------------------ *)
Lemma ps_count_mono : forall A1 A2 P v, nested A1 A2 ->
  fst (ps_count A1 P v) <= fst (ps_count A2 P v) /\ snd (ps_count A2 P v) <= snd (ps_count A1 P v).
Proof.
  intros A1 A2 P v Hn. induction P as [|n P IH]; simpl; [split; auto|].
  destruct n as [c m| |]; auto.
  destruct (ps_count A1 P v) as [a1 b1]. destruct (ps_count A2 P v) as [a2 b2]. simpl in IH. destruct IH as [Ia Ib].
  destruct (mentions c v); [|simpl; auto].
  unfold get_class.
  destruct (in_A m A1) eqn:Ea1; destruct (in_B m A1) eqn:Eb1; destruct (in_A m A2) eqn:Ea2; destruct (in_B m A2) eqn:Eb2;
    simpl; try (split; lia);
    try (rewrite (nested_in_A _ _ _ Hn Ea1) in Ea2; discriminate);
    try (rewrite (nested_in_B _ _ _ Hn Eb2) in Eb1; discriminate).
Qed.

Lemma ps_is_a_mono : forall A1 A2 P v, nested A1 A2 -> ps_is_a A1 P v = true -> ps_is_a A2 P v = true.
Proof.
  intros A1 A2 P v Hn. unfold ps_is_a. pose proof (ps_count_mono A1 A2 P v Hn) as [Ha Hb].
  destruct (ps_count A1 P v) as [a1 b1]. destruct (ps_count A2 P v) as [a2 b2]. simpl in *.
  rewrite !Nat.ltb_lt. lia.
Qed.

Lemma impl_label_le : forall g vmask A1 A2 P, nested A1 A2 -> lab_le vmask A1 A2 (impl_label g A1 P) (impl_label g A2 P).
Proof.
  intros g vmask A1 A2 P Hn idx v _ _. unfold impl_label. destruct g; try reflexivity;
    destruct (ps_is_a A1 P v) eqn:E1; try rewrite (ps_is_a_mono _ _ _ _ Hn E1); try reflexivity;
    destruct (ps_is_a A2 P v); reflexivity.
Qed.

(* ---- the cumulative masks of a request are nested --------------------------------------------- *)
Lemma nested_app : forall A g, nested A (A ++ g).
Proof. intros A g i H. unfold mem in *. rewrite existsb_app, H. reflexivity. Qed.

Lemma cumulative_nested : forall groups acc i A1 A2,
  nth_error (cumulative acc groups) i = Some A1 -> nth_error (cumulative acc groups) (S i) = Some A2 -> nested A1 A2.
Proof.
  induction groups as [|g r IH]; intros acc i A1 A2 H1 H2; [destruct i; discriminate|].
  destruct r as [|g2 r]; [destruct i; discriminate|].
  change (cumulative acc (g :: g2 :: r)) with ((acc ++ g) :: cumulative (acc ++ g) (g2 :: r)) in *.
  destruct i as [|i]; simpl in H1, H2.
  - injection H1 as <-. destruct r as [|g3 r]; [discriminate|].
    change (cumulative (acc ++ g) (g2 :: g3 :: r)) with (((acc ++ g) ++ g2) :: cumulative ((acc ++ g) ++ g2) (g3 :: r)) in H2.
    simpl in H2. injection H2 as <-. apply nested_app.
  - eapply IH; eauto.
Qed.

(* the whole sequence computed by getPathInterpolants has the path property, for each of the six algorithms *)
Theorem path_itps_impl : forall Tcons vmask th input g groups P i I1 I2,
  covers vmask input -> th_path_contract Tcons th ->
  (forall A, In A (cumulative [] groups) -> valid_refutation Tcons vmask A th (impl_label g A P) input P) ->
  nth_error (path_itps vmask th g (cumulative [] groups) P) i = Some (Some I1) ->
  nth_error (path_itps vmask th g (cumulative [] groups) P) (S i) = Some (Some I2) ->
  exists A1 A2, nth_error (cumulative [] groups) i = Some A1 /\ nth_error (cumulative [] groups) (S i) = Some A2 /\
    forall a, Tcons a -> satMoved A1 A2 input a -> feval a I1 = true -> feval a I2 = true.
Proof.
  intros Tcons vmask th input g groups P i I1 I2 Hcov Hth Hval H1 H2. unfold path_itps in *.
  rewrite nth_error_map in H1, H2.
  destruct (nth_error (cumulative [] groups) i) as [A1|] eqn:E1; [|discriminate].
  destruct (nth_error (cumulative [] groups) (S i)) as [A2|] eqn:E2; [|discriminate].
  simpl in H1, H2. injection H1 as H1. injection H2 as H2. exists A1, A2. repeat split; auto.
  pose proof (cumulative_nested groups [] i A1 A2 E1 E2) as Hn.
  unfold impl_itp in *.
  eapply (path_step Tcons vmask A1 A2 th (impl_label g A1 P) (impl_label g A2 P) input); eauto.
  - apply impl_label_locality.
  - apply impl_label_locality.
  - apply impl_label_le; auto.
  - apply Hval. eapply nth_error_In; eauto.
Qed.
