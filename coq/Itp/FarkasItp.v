(* C08: Farkas interpolants of an LRA conflict (src/tsolvers/lasolver/FarkasInterpolator.cc) over Q.

   A conflict (explanation) is a list of literals  0 <= p_i  or  0 < p_i  (a negated atom `not (c <= t)` is the strict
   inequality 0 < c - t, FarkasInterpolator.cc:337-341 / 594-598) with positive Farkas coefficients k_i
   (LASolver::getConflict; validity of the certificate is C26's subject and a HYPOTHESIS here: [valid_cert]).

     weightedSum / getFarkasInterpolant(A)   583-617   I  = sum of k_i * (i-th literal) over the literals coloured a or ab      [farkas_itp]
     getFarkasInterpolant(B) (dual, "weak")  606-617   I' = not (sum over the literals coloured b or ab)                       [dual_farkas_itp]
     getFlexibleInterpolant(factor)          619-659   c1 + (upper - lower) * factor <= t   -- ALWAYS non-strict            [flexible_itp]
     getDecomposedInterpolant                413-560   conjunction of sums with non-negative coefficient vectors b_j that
                                                       decompose the Farkas coefficients (sum_j alpha_j b_j = k on the A side,
                                                       alpha_j > 0); the linear algebra that FINDS the vectors (Gaussian elimination,
                                                       null-space basis, 85-318) is not modelled: the decomposition is a parameter   [decomposed_itp]
     LIAInterpolator (LIAInterpolator.cc:13-55)        not (c <= t)  is replaced by  -(c-1) <= -t  over the integers            [lia_strengthen]

   Theorems: farkas_itp_correct, dual_farkas_itp_correct, farkas_path (the two-colouring contract needed by C09),
   decomposed_itp_correct, flexible_itp_A, flexible_itp_B (under the condition that holds), flexible_itp_refuted
   (the non-strict answer is consistent with B when only the A side is strict and the bounds coincide). *)
From Coq Require Import QArith List Bool PArith ZArith Lia Lqa.
Import ListNotations.
Local Open Scope Q_scope.

Definition lin := list (positive * Q).
Definition qassign := positive -> Q.

Fixpoint eval (a : qassign) (l : lin) : Q :=
  match l with [] => 0 | (v, c) :: r => c * a v + eval a r end.
Fixpoint coef (v : positive) (l : lin) : Q :=
  match l with [] => 0 | (w, c) :: r => (if Pos.eqb v w then c else 0) + coef v r end.
Definition lscale (k : Q) (l : lin) : lin := map (fun p => (fst p, k * snd p)) l.
Definition occurs (v : positive) (l : lin) : bool := existsb (fun p => Pos.eqb v (fst p)) l.

Record cstr := mk_cstr { c_lin : lin; c_k : Q; c_strict : bool }.      (* 0 <= lin + k   or   0 < lin + k *)
Definition val (a : qassign) (c : cstr) : Q := eval a (c_lin c) + c_k c.
Definition holds (a : qassign) (c : cstr) : Prop := if c_strict c then 0 < val a c else 0 <= val a c.

Record entry := mk_entry { e_c : cstr; e_coeff : Q; e_col : bool * bool }.   (* literal, Farkas coefficient, colour (a-bit, b-bit) *)

(* sum of kf(e) * e over the selected entries; strict iff a selected strict entry has a non-zero coefficient
   (sumInequalities skips zero coefficients, FarkasInterpolator.cc:330) *)
Fixpoint wsum (sel : entry -> bool) (kf : entry -> Q) (es : list entry) : cstr :=
  match es with
  | [] => mk_cstr [] 0 false
  | e :: r =>
      let s := wsum sel kf r in
      if sel e then mk_cstr (lscale (kf e) (c_lin (e_c e)) ++ c_lin s) (kf e * c_k (e_c e) + c_k s)
                            ((c_strict (e_c e) && negb (Qeq_bool (kf e) 0)) || c_strict s)
      else s
  end.

Definition all_sel (e : entry) : bool := true.
Definition sideA (e : entry) : bool := fst (e_col e).            (* coloured a or ab: put into the A system (FarkasInterpolator.cc:610) *)
Definition sideBdual (e : entry) : bool := snd (e_col e).        (* coloured b or ab: the system of the dual interpolant *)

Definition valid_cert (es : list entry) : Prop :=
  (forall e, In e es -> 0 < e_coeff e)
  /\ (forall v, coef v (c_lin (wsum all_sel e_coeff es)) == 0)
  /\ (c_k (wsum all_sel e_coeff es) < 0
      \/ (c_k (wsum all_sel e_coeff es) <= 0 /\ c_strict (wsum all_sel e_coeff es) = true)).

Definition farkas_itp (es : list entry) : cstr := wsum sideA e_coeff es.
Definition dual_farkas_itp (es : list entry) : cstr := wsum sideBdual e_coeff es.     (* the interpolant is its NEGATION *)

(* getFlexibleInterpolant: A-sum  0 <= tA + kA  i.e. c1 = -kA <= tA;  B-sum gives tA <= kB;  new constant c1 + (kB - c1) * f *)
Definition flexible_itp (f : Q) (es : list entry) : cstr :=
  let sa := wsum sideA e_coeff es in
  let sb := wsum (fun e => negb (sideA e)) e_coeff es in
  mk_cstr (c_lin sa) (c_k sa - (c_k sa + c_k sb) * f) false.

Definition decomposed_itp (bs : list (entry -> Q)) (es : list entry) : list cstr :=
  map (fun b => wsum sideA b es) bs.

(* ---- linear forms ------------------------------------------------------------------------------- *)
Lemma eval_app : forall a p q, eval a (p ++ q) == eval a p + eval a q.
Proof. induction p as [|[v c] p IH]; intros; simpl; [ring | rewrite IH; ring]. Qed.

Lemma eval_lscale : forall a k l, eval a (lscale k l) == k * eval a l.
Proof. induction l as [|[v c] l IH]; simpl; [ring | rewrite IH; ring]. Qed.

Lemma coef_app : forall v p q, coef v (p ++ q) == coef v p + coef v q.
Proof. induction p as [|[w c] p IH]; intros; simpl; [ring | rewrite IH; ring]. Qed.

Lemma coef_lscale : forall v k l, coef v (lscale k l) == k * coef v l.
Proof.
  induction l as [|[w c] l IH]; simpl; [ring|]. rewrite IH. destruct (Pos.eqb v w); ring.
Qed.

Lemma coef_not_occurs : forall v l, occurs v l = false -> coef v l == 0.
Proof.
  induction l as [|[w c] l IH]; simpl; intros H; [reflexivity|].
  apply orb_false_iff in H. destruct H as [H1 H2]. rewrite H1, (IH H2). ring.
Qed.

Definition remv (v : positive) (l : lin) : lin := filter (fun p => negb (Pos.eqb v (fst p))) l.

Lemma eval_remv : forall a v l, eval a l == coef v l * a v + eval a (remv v l).
Proof.
  induction l as [|[w c] l IH]; simpl; [ring|].
  destruct (Pos.eqb_spec v w) as [->|N]; simpl; rewrite IH; ring.
Qed.

Lemma coef_remv : forall w v l, coef w (remv v l) == if Pos.eqb w v then 0 else coef w l.
Proof.
  induction l as [|[u c] l IH]; simpl.
  - destruct (Pos.eqb w v); reflexivity.
  - destruct (Pos.eqb_spec v u) as [->|N]; simpl.
    + rewrite IH. destruct (Pos.eqb_spec w u) as [->|N2]; [reflexivity | ring].
    + rewrite IH. destruct (Pos.eqb_spec w v) as [->|N2].
      * destruct (Pos.eqb_spec v u); [contradiction | ring].
      * reflexivity.
Qed.

Lemma length_remv : forall v l, (length (remv v l) <= length l)%nat.
Proof. intros v l. unfold remv. induction l as [|x l IH]; simpl; auto. destruct (negb (Pos.eqb v (fst x))); simpl; lia. Qed.

Lemma eval_zero_of_coef : forall a l, (forall v, coef v l == 0) -> eval a l == 0.
Proof.
  intros a l. remember (length l) as n eqn:En. revert l En.
  induction n as [n IH] using lt_wf_ind. intros [|[v c] r] En H; [reflexivity|].
  rewrite (eval_remv a v). rewrite (H v).
  assert (E : eval a (remv v ((v, c) :: r)) == 0).
  { apply (IH (length (remv v ((v, c) :: r)))); auto.
    - subst n. simpl. rewrite Pos.eqb_refl. simpl. pose proof (length_remv v r). lia.
    - intros w. rewrite coef_remv. destruct (Pos.eqb w v); [reflexivity | apply H]. }
  rewrite E. ring.
Qed.

(* ---- weighted sums -------------------------------------------------------------------------------- *)
Lemma Qeq_bool_false_neq : forall x, Qeq_bool x 0 = false -> ~ x == 0.
Proof. intros x H E. apply Qeq_bool_iff in E. congruence. Qed.

Lemma holds_wsum_aux : forall a sel kf es,
  (forall e, In e es -> sel e = true -> 0 <= kf e /\ holds a (e_c e)) ->
  0 <= val a (wsum sel kf es) /\ (c_strict (wsum sel kf es) = true -> 0 < val a (wsum sel kf es)).
Proof.
  intros a sel kf. induction es as [|e r IH]; intros H.
  - unfold val; simpl. split; [lra | discriminate].
  - assert (Hr : forall e0, In e0 r -> sel e0 = true -> 0 <= kf e0 /\ holds a (e_c e0)) by (intros; apply H; simpl; auto).
    specialize (IH Hr). destruct IH as [I1 I2]. simpl.
    destruct (sel e) eqn:Es; [|split; auto].
    destruct (H e (or_introl eq_refl) Es) as [Hk Hh].
    unfold val in *; simpl. rewrite eval_app, eval_lscale.
    assert (Hv : 0 <= eval a (c_lin (e_c e)) + c_k (e_c e)).
    { unfold holds, val in Hh. destruct (c_strict (e_c e)); lra. }
    assert (Hp : 0 <= kf e * (eval a (c_lin (e_c e)) + c_k (e_c e))) by (apply Qmult_le_0_compat; auto).
    split; [lra|].
    intros Hs. apply orb_true_iff in Hs. destruct Hs as [Hs|Hs].
    + apply andb_true_iff in Hs. destruct Hs as [S1 S2]. apply negb_true_iff in S2. apply Qeq_bool_false_neq in S2.
      unfold holds, val in Hh. rewrite S1 in Hh.
      assert (0 < kf e) by (destruct (Qlt_le_dec 0 (kf e)); auto; exfalso; apply S2; lra).
      assert (0 < kf e * (eval a (c_lin (e_c e)) + c_k (e_c e))) by (apply Qmult_lt_0_compat; auto).
      lra.
    + specialize (I2 Hs). lra.
Qed.

Lemma holds_wsum : forall a sel kf es,
  (forall e, In e es -> sel e = true -> 0 <= kf e /\ holds a (e_c e)) -> holds a (wsum sel kf es).
Proof.
  intros a sel kf es H. destruct (holds_wsum_aux a sel kf es H) as [H1 H2].
  unfold holds. destruct (c_strict (wsum sel kf es)); auto.
Qed.

(* a selection that is the disjoint union of two others *)
Definition splits (sel s1 s2 : entry -> bool) : Prop :=
  forall e, sel e = (s1 e || s2 e) /\ (s1 e && s2 e = false).

Lemma wsum_split : forall a sel s1 s2 kf es, splits sel s1 s2 ->
  val a (wsum sel kf es) == val a (wsum s1 kf es) + val a (wsum s2 kf es)
  /\ c_strict (wsum sel kf es) = (c_strict (wsum s1 kf es) || c_strict (wsum s2 kf es))
  /\ (forall v, coef v (c_lin (wsum sel kf es)) == coef v (c_lin (wsum s1 kf es)) + coef v (c_lin (wsum s2 kf es))).
Proof.
  intros a sel s1 s2 kf es Hs. induction es as [|e r [I1 [I2 I3]]].
  - unfold val; simpl. split; [ring|]. split; [reflexivity|]. intros; ring.
  - destruct (Hs e) as [E1 E2]. simpl. rewrite E1.
    destruct (s1 e) eqn:S1; destruct (s2 e) eqn:S2; simpl in *; try discriminate.
    + unfold val in *; simpl. rewrite !eval_app. repeat split.
      * lra.
      * rewrite I2. now rewrite orb_assoc.
      * intros v. rewrite !coef_app, I3. ring.
    + unfold val in *; simpl. rewrite !eval_app. repeat split.
      * lra.
      * rewrite I2. rewrite !orb_assoc. f_equal. apply orb_comm.
      * intros v. rewrite !coef_app, I3. ring.
    + repeat split; auto.
Qed.

Lemma splits_A : splits all_sel sideA (fun e => negb (sideA e)).
Proof. intros e. unfold all_sel. destruct (sideA e); auto. Qed.

Lemma coef_wsum_occurs : forall v sel kf es, ~ coef v (c_lin (wsum sel kf es)) == 0 ->
  exists e, In e es /\ sel e = true /\ occurs v (c_lin (e_c e)) = true.
Proof.
  intros v sel kf. induction es as [|e r IH]; simpl; intros H.
  - exfalso. apply H. reflexivity.
  - destruct (sel e) eqn:Es.
    + simpl in H. destruct (occurs v (c_lin (e_c e))) eqn:Eo.
      * exists e. auto.
      * assert (Hr : ~ coef v (c_lin (wsum sel kf r)) == 0).
        { intros E. apply H. rewrite coef_app, coef_lscale, (coef_not_occurs _ _ Eo), E. ring. }
        destruct (IH Hr) as [e' [H1 [H2 H3]]]. exists e'. auto.
    + destruct (IH H) as [e' [H1 [H2 H3]]]. exists e'. auto.
Qed.

(* ---- the Farkas interpolant ----------------------------------------------------------------------- *)
Theorem farkas_itp_correct : forall es, valid_cert es ->
  (forall a, (forall e, In e es -> sideA e = true -> holds a (e_c e)) -> holds a (farkas_itp es))
  /\ (forall a, holds a (farkas_itp es) -> (forall e, In e es -> sideA e = false -> holds a (e_c e)) -> False)
  /\ (forall v, ~ coef v (c_lin (farkas_itp es)) == 0 ->
        (exists e, In e es /\ sideA e = true /\ occurs v (c_lin (e_c e)) = true)
        /\ (exists e, In e es /\ sideA e = false /\ occurs v (c_lin (e_c e)) = true)).
Proof.
  intros es [Hpos [Hzero Hneg]]. unfold farkas_itp. repeat split.
  - intros a H. apply holds_wsum. intros e He Hs. split; [apply Qlt_le_weak; auto | auto].
  - intros a HI HB.
    assert (HB' : holds a (wsum (fun e => negb (sideA e)) e_coeff es)).
    { apply holds_wsum. intros e He Hs. apply negb_true_iff in Hs. split; [apply Qlt_le_weak; auto | auto]. }
    destruct (wsum_split a all_sel sideA (fun e => negb (sideA e)) e_coeff es splits_A) as [V [S _]].
    assert (Z : val a (wsum all_sel e_coeff es) == c_k (wsum all_sel e_coeff es)).
    { unfold val. rewrite (eval_zero_of_coef a _ Hzero). ring. }
    unfold holds in HI, HB'.
    destruct Hneg as [N|[N1 N2]].
    + destruct (c_strict (wsum sideA e_coeff es)); destruct (c_strict (wsum (fun e => negb (sideA e)) e_coeff es)); lra.
    + rewrite S in N2.
      destruct (c_strict (wsum sideA e_coeff es)); destruct (c_strict (wsum (fun e => negb (sideA e)) e_coeff es));
        simpl in N2; try discriminate; lra.
  - apply coef_wsum_occurs in H. exact H.
  - destruct (wsum_split (fun _ => 0) all_sel sideA (fun e => negb (sideA e)) e_coeff es splits_A) as [_ [_ C]].
    assert (Hb : ~ coef v (c_lin (wsum (fun e => negb (sideA e)) e_coeff es)) == 0).
    { intros E. apply H. pose proof (C v) as Cv. rewrite (Hzero v), E in Cv. lra. }
    apply coef_wsum_occurs in Hb. destruct Hb as [e [H1 [H2 H3]]]. exists e. apply negb_true_iff in H2. auto.
Qed.

(* the dual ("weak") interpolant is the negation of the sum over the literals coloured b or ab *)
Theorem dual_farkas_itp_correct : forall es, valid_cert es ->
  (forall a, (forall e, In e es -> sideBdual e = false -> holds a (e_c e)) -> ~ holds a (dual_farkas_itp es))
  /\ (forall a, ~ holds a (dual_farkas_itp es) -> (forall e, In e es -> sideBdual e = true -> holds a (e_c e)) -> False)
  /\ (forall v, ~ coef v (c_lin (dual_farkas_itp es)) == 0 ->
        (exists e, In e es /\ sideBdual e = false /\ occurs v (c_lin (e_c e)) = true)
        /\ (exists e, In e es /\ sideBdual e = true /\ occurs v (c_lin (e_c e)) = true)).
Proof.
  intros es [Hpos [Hzero Hneg]]. unfold dual_farkas_itp.
  assert (Sp : splits all_sel sideBdual (fun e => negb (sideBdual e))).
  { intros e. unfold all_sel. destruct (sideBdual e); auto. }
  repeat split.
  - intros a HA HI.
    assert (HA' : holds a (wsum (fun e => negb (sideBdual e)) e_coeff es)).
    { apply holds_wsum. intros e He Hs. apply negb_true_iff in Hs. split; [apply Qlt_le_weak; auto | auto]. }
    destruct (wsum_split a all_sel sideBdual (fun e => negb (sideBdual e)) e_coeff es Sp) as [V [S _]].
    assert (Z : val a (wsum all_sel e_coeff es) == c_k (wsum all_sel e_coeff es)).
    { unfold val. rewrite (eval_zero_of_coef a _ Hzero). ring. }
    unfold holds in HI, HA'.
    destruct Hneg as [N|[N1 N2]].
    + destruct (c_strict (wsum sideBdual e_coeff es)); destruct (c_strict (wsum (fun e => negb (sideBdual e)) e_coeff es)); lra.
    + rewrite S in N2.
      destruct (c_strict (wsum sideBdual e_coeff es)); destruct (c_strict (wsum (fun e => negb (sideBdual e)) e_coeff es));
        simpl in N2; try discriminate; lra.
  - intros a HI HB. apply HI. apply holds_wsum. intros e He Hs. split; [apply Qlt_le_weak; auto | auto].
  - destruct (wsum_split (fun _ => 0) all_sel sideBdual (fun e => negb (sideBdual e)) e_coeff es Sp) as [_ [_ C]].
    assert (Hb : ~ coef v (c_lin (wsum (fun e => negb (sideBdual e)) e_coeff es)) == 0).
    { intros E. apply H. pose proof (C v) as Cv. rewrite (Hzero v), E in Cv. lra. }
    apply coef_wsum_occurs in Hb. destruct Hb as [e [H1 [H2 H3]]]. exists e. apply negb_true_iff in H2. auto.
  - apply coef_wsum_occurs in H. exact H.
Qed.

(* two colourings of the same conflict, the A side growing: I1 together with the moved literals implies I2 (C09) *)
Theorem farkas_path : forall (s1 s2 : entry -> bool) es a,
  (forall e, In e es -> 0 < e_coeff e) ->
  (forall e, s1 e = true -> s2 e = true) ->
  holds a (wsum s1 e_coeff es) ->
  (forall e, In e es -> s2 e = true -> s1 e = false -> holds a (e_c e)) ->
  holds a (wsum s2 e_coeff es).
Proof.
  intros s1 s2 es a Hpos Hsub H1 HM.
  assert (Sp : splits s2 s1 (fun e => s2 e && negb (s1 e))).
  { intros e. destruct (s1 e) eqn:E1; destruct (s2 e) eqn:E2; simpl; auto. rewrite (Hsub e E1) in E2. discriminate. }
  destruct (wsum_split a s2 s1 (fun e => s2 e && negb (s1 e)) e_coeff es Sp) as [V [S _]].
  assert (H2 : holds a (wsum (fun e => s2 e && negb (s1 e)) e_coeff es)).
  { apply holds_wsum. intros e He Hs. apply andb_true_iff in Hs. destruct Hs as [X Y]. apply negb_true_iff in Y.
    split; [apply Qlt_le_weak; auto | auto]. }
  unfold holds in *. rewrite S.
  destruct (c_strict (wsum s1 e_coeff es)); destruct (c_strict (wsum (fun e => s2 e && negb (s1 e)) e_coeff es)); simpl; lra.
Qed.

(* ---- decomposed interpolants ---------------------------------------------------------------------- *)
(* bs: non-negative coefficient vectors; alphas: positive coordinates with  sum_j alpha_j * b_j(e) = k_e  on the A side *)
Fixpoint comb (alphas : list Q) (bs : list (entry -> Q)) (e : entry) : Q :=
  match alphas, bs with
  | al :: ar, b :: br => al * b e + comb ar br e
  | _, _ => 0
  end.

Lemma val_wsum_linear : forall a sel (alphas : list Q) (bs : list (entry -> Q)) es,
  length alphas = length bs ->
  val a (wsum sel (comb alphas bs) es)
  == fold_right Qplus 0 (map (fun p => fst p * val a (wsum sel (snd p) es)) (combine alphas bs)).
Proof.
  intros a sel alphas bs es. revert bs. induction alphas as [|al ar IH]; intros [|b br] Hl; try discriminate.
  - simpl. induction es as [|e r IHe]; [unfold val; simpl; ring|]. simpl. destruct (sel e); auto.
    unfold val in *; simpl. rewrite eval_app, eval_lscale. lra.
  - simpl in Hl. injection Hl as Hl. simpl. rewrite <- (IH br Hl). clear IH.
    induction es as [|e r IHe]; [unfold val; simpl; ring|]. simpl. destruct (sel e); auto.
    unfold val in *; simpl. rewrite !eval_app, !eval_lscale. lra.
Qed.

Theorem decomposed_itp_correct : forall es alphas bs,
  valid_cert es -> length alphas = length bs ->
  (forall b e, In b bs -> 0 <= b e) -> (forall al, In al alphas -> 0 < al) ->
  (forall e, In e es -> sideA e = true -> comb alphas bs e == e_coeff e) ->
  (* A implies every conjunct *)
  (forall a, (forall e, In e es -> sideA e = true -> holds a (e_c e)) -> forall c, In c (decomposed_itp bs es) -> holds a c)
  (* the conjunction is inconsistent with B (non-strict reading: it implies the non-strict Farkas sum) *)
  /\ (forall a, (forall c, In c (decomposed_itp bs es) -> holds a c) -> 0 <= val a (wsum sideA (comb alphas bs) es)).
Proof.
  intros es alphas bs Hc Hl Hb Hal Hcomb. split.
  - intros a HA c Hin. unfold decomposed_itp in Hin. apply in_map_iff in Hin. destruct Hin as [b [<- Hbin]].
    apply holds_wsum. intros e He Hs. split; auto.
  - intros a Hall. rewrite (val_wsum_linear a sideA alphas bs es Hl).
    assert (G : forall (al : list Q) (bl : list (entry -> Q)), (forall x, In x al -> 0 < x) -> (forall b, In b bl -> In b bs) ->
                0 <= fold_right Qplus 0 (map (fun p => fst p * val a (wsum sideA (snd p) es)) (combine al bl))).
    { induction al as [|x al IH]; intros [|b bl] Hx Hbl; simpl; try lra.
      assert (0 <= val a (wsum sideA b es)).
      { assert (Hh : holds a (wsum sideA b es)) by (apply Hall; unfold decomposed_itp; apply (in_map (fun b1 => wsum sideA b1 es)); apply Hbl; simpl; auto).
        unfold holds in Hh. destruct (c_strict (wsum sideA b es)); lra. }
      assert (0 <= x * val a (wsum sideA b es)) by (apply Qmult_le_0_compat; [apply Qlt_le_weak; apply Hx; simpl; auto | auto]).
      assert (0 <= fold_right Qplus 0 (map (fun p => fst p * val a (wsum sideA (snd p) es)) (combine al bl))).
      { apply IH; intros; [apply Hx | apply Hbl]; simpl; auto. }
      lra. }
    apply G; auto.
Qed.

(* ---- the flexible interpolant ("factor", :interpolation-lra-algorithm 3) ---------------------------- *)
Theorem flexible_itp_A : forall es f, valid_cert es -> 0 <= f ->
  forall a, (forall e, In e es -> sideA e = true -> holds a (e_c e)) -> holds a (flexible_itp f es).
Proof.
  intros es f [Hpos [Hzero Hneg]] Hf a HA.
  assert (H1 : holds a (wsum sideA e_coeff es)).
  { apply holds_wsum. intros e He Hs. split; [apply Qlt_le_weak; auto | auto]. }
  destruct (wsum_split a all_sel sideA (fun e => negb (sideA e)) e_coeff es splits_A) as [_ [_ _]].
  assert (K : c_k (wsum all_sel e_coeff es) == c_k (wsum sideA e_coeff es) + c_k (wsum (fun e => negb (sideA e)) e_coeff es)).
  { clear. induction es as [|e r IH]; simpl; [ring|]. unfold all_sel in *. destruct (sideA e); simpl; rewrite IH; ring. }
  assert (N : c_k (wsum sideA e_coeff es) + c_k (wsum (fun e => negb (sideA e)) e_coeff es) <= 0).
  { rewrite <- K. destruct Hneg as [N|[N _]]; lra. }
  unfold holds, flexible_itp, val in *; simpl.
  assert (0 <= - (c_k (wsum sideA e_coeff es) + c_k (wsum (fun e => negb (sideA e)) e_coeff es)) * f)
    by (apply Qmult_le_0_compat; lra).
  destruct (c_strict (wsum sideA e_coeff es)); lra.
Qed.

(* it is inconsistent with B when the certificate's constant is negative or the B side carries the strictness *)
Theorem flexible_itp_B : forall es f, valid_cert es -> f < 1 ->
  (c_k (wsum all_sel e_coeff es) < 0 \/ c_strict (wsum (fun e => negb (sideA e)) e_coeff es) = true) ->
  forall a, holds a (flexible_itp f es) -> (forall e, In e es -> sideA e = false -> holds a (e_c e)) -> False.
Proof.
  intros es f [Hpos [Hzero Hneg]] Hf Hcond a HI HB.
  assert (HB' : holds a (wsum (fun e => negb (sideA e)) e_coeff es)).
  { apply holds_wsum. intros e He Hs. apply negb_true_iff in Hs. split; [apply Qlt_le_weak; auto | auto]. }
  destruct (wsum_split a all_sel sideA (fun e => negb (sideA e)) e_coeff es splits_A) as [V _].
  assert (Z : val a (wsum all_sel e_coeff es) == c_k (wsum all_sel e_coeff es)).
  { unfold val. rewrite (eval_zero_of_coef a _ Hzero). ring. }
  assert (K : c_k (wsum all_sel e_coeff es) == c_k (wsum sideA e_coeff es) + c_k (wsum (fun e => negb (sideA e)) e_coeff es)).
  { clear. induction es as [|e r IH]; simpl; [ring|]. unfold all_sel in *. destruct (sideA e); simpl; rewrite IH; ring. }
  unfold holds, flexible_itp, val in *; simpl in *.
  set (ka := c_k (wsum sideA e_coeff es)) in *. set (kb := c_k (wsum (fun e => negb (sideA e)) e_coeff es)) in *.
  set (ta := eval a (c_lin (wsum sideA e_coeff es))) in *. set (tb := eval a (c_lin (wsum (fun e => negb (sideA e)) e_coeff es))) in *.
  assert (T : ta + tb == 0) by lra.
  assert (Kle : ka + kb <= 0) by (destruct Hneg as [N|[N _]]; lra).
  (* 0 <= ta + ka - (ka+kb) f   and   0 <=(<) tb + kb   give   0 <=(<) (ka+kb)(1-f) *)
  assert (P : (ka + kb) * (1 - f) <= 0).
  { assert (0 <= (- (ka + kb)) * (1 - f)) by (apply Qmult_le_0_compat; lra). lra. }
  destruct Hcond as [C|C].
  - assert (P' : (ka + kb) * (1 - f) < 0).
    { assert (0 < (- (ka + kb)) * (1 - f)) by (apply Qmult_lt_0_compat; lra). lra. }
    destruct (c_strict (wsum (fun e => negb (sideA e)) e_coeff es)); lra.
  - rewrite C in HB'. lra.
Qed.

(* ... and it is NOT an interpolant in general: A = { 0 < x - y, 0 < y - z }, B = { 0 <= -x, 0 <= z }, all coefficients 1.
   The certificate is valid (sum: 0 < 0), the answer is 0 <= x - z (non-strict), and x = y = z = 0 satisfies it together with B.
   Replayed on the implementation: corpus/C08/lra_factor_strict.smt2 *)
Definition w_x : positive := 1%positive.
Definition w_y : positive := 2%positive.
Definition w_z : positive := 3%positive.
Definition w_es : list entry :=
  [ mk_entry (mk_cstr [(w_x, 1); (w_y, -(1))] 0 true) 1 (true, false);
    mk_entry (mk_cstr [(w_y, 1); (w_z, -(1))] 0 true) 1 (true, false);
    mk_entry (mk_cstr [(w_x, -(1))] 0 false) 1 (false, true);
    mk_entry (mk_cstr [(w_z, 1)] 0 false) 1 (false, true) ].

Lemma w_es_valid : valid_cert w_es.
Proof.
  unfold valid_cert. repeat split.
  - intros e [<-|[<-|[<-|[<-|[]]]]]; reflexivity.
  - intros v.
    destruct (Pos.eqb_spec v 1) as [->|N1]; [reflexivity|]. destruct (Pos.eqb_spec v 2) as [->|N2]; [reflexivity|].
    destruct (Pos.eqb_spec v 3) as [->|N3]; [reflexivity|].
    apply coef_not_occurs. cbn -[Pos.eqb]. unfold w_x, w_y, w_z.
    apply Pos.eqb_neq in N1, N2, N3. rewrite N1, N2, N3. reflexivity.
  - right. split; [simpl; lra | reflexivity].
Qed.

Theorem flexible_itp_refuted :
  exists es f a, valid_cert es /\ 0 <= f /\ f < 1 /\ holds a (flexible_itp f es)
                 /\ (forall e, In e es -> sideA e = false -> holds a (e_c e)).
Proof.
  exists w_es, (1 # 2), (fun _ => 0). split; [exact w_es_valid|]. repeat split; try (simpl; lra).
  - unfold holds, flexible_itp, val; simpl. lra.
  - intros e [<-|[<-|[<-|[<-|[]]]]]; simpl; intros H; try discriminate; unfold holds, val; simpl; lra.
Qed.

(* ---- LIA: strengthening a negated inequality (LIAInterpolator.cc:27-38) is an equivalence over Z ---- *)
Lemma lia_strengthen : forall c t : Z, (~ (c <= t) <-> - (c - 1) <= - t)%Z.
Proof. intros; lia. Qed.

(* non-vacuity: the Farkas interpolant of the witness conflict is  0 < x - z *)
Example farkas_itp_example : c_strict (farkas_itp w_es) = true /\ occurs w_x (c_lin (farkas_itp w_es)) = true.
Proof. split; reflexivity. Qed.

(* ---- decomposed interpolants do NOT have the path property (C09) ---------------------------------------
   The decomposition is not unique, and getDecomposedInterpolant chooses its basis from the order of the explanation: two
   calls for nested A sides may decompose the SAME A-side inequalities differently, and the conjunction for the smaller A
   side does not imply every conjunct for the larger one.  Witness = the A side of corpus/C09/path_decomposed_farkas.smt2
   (one A-local variable u, Farkas coefficients 2,2,4,4,1):
       c0: 0 <= -u + s0    c1: 0 < 2u + s1 + 1    c2: 0 <= -u + s2 - 1    c3: 0 <= s3 + 1    c4: 0 <= 2u + s4 + 1
   first call  (groups (c..) | b2 | b1, cut 1):  c3,  c0 + 1/2 c4,  c2 + 1/2 c4,  c0 + 3/2 c1 + 2 c2
   second call (cut 2, b2 moved into A):         c3,  c0 + 1/2 c1,  c2 + 1/2 c1,  c0 + 2 c2 + 3/2 c4   (and b2 itself)
   s0 = 0, s1 = -3/4, s2 = 7/8, s3 = 0, s4 = -3/4 satisfies every conjunct of the first and violates  c2 + 1/2 c1  of the second. *)
Definition d_u : positive := 1%positive.
Definition d_c (i : positive) (lin : lin) (k : Q) (strict : bool) (coeff : Q) : entry :=
  mk_entry (mk_cstr ((Pos.add 10 i, 1) :: lin) k strict) coeff (true, false).
Definition d_es : list entry :=
  [ d_c 1 [(d_u, -(1))] 0 false 2;          (* c0, shared variable s0 = 11 *)
    d_c 2 [(d_u, 2)] 1 true 2;              (* c1, s1 = 12 *)
    d_c 3 [(d_u, -(1))] (-(1)) false 4;     (* c2, s2 = 13 *)
    d_c 4 [] 1 false 4;                     (* c3, s3 = 14 *)
    d_c 5 [(d_u, 2)] 1 false 1 ].           (* c4, s4 = 15 *)
Definition d_idx (e : entry) : positive := match c_lin (e_c e) with (v, _) :: _ => v | [] => 1%positive end.
Definition d_vec (q0 q1 q2 q3 q4 : Q) : entry -> Q := fun e =>
  if Pos.eqb (d_idx e) 11 then q0 else if Pos.eqb (d_idx e) 12 then q1 else if Pos.eqb (d_idx e) 13 then q2
  else if Pos.eqb (d_idx e) 14 then q3 else q4.
Definition d_bs1 : list (entry -> Q) := [d_vec 0 0 0 1 0; d_vec 1 0 0 0 (1#2); d_vec 0 0 1 0 (1#2); d_vec 1 (3#2) 2 0 0].
Definition d_al1 : list Q := [4; 2#3; 4#3; 4#3].
Definition d_bs2 : list (entry -> Q) := [d_vec 0 0 0 1 0; d_vec 1 (1#2) 0 0 0; d_vec 0 (1#2) 1 0 0; d_vec 1 0 2 0 (3#2)].
Definition d_al2 : list Q := [4; 4#3; 8#3; 2#3].
Definition d_a : qassign := fun v =>
  if Pos.eqb v 12 then -(3#4) else if Pos.eqb v 13 then 7#8 else if Pos.eqb v 15 then -(3#4) else 0.

Theorem decomposed_path_refuted :
  (* both are decompositions of the same A-side coefficients in the sense of decomposed_itp_correct ... *)
  (forall e, In e d_es -> sideA e = true /\ comb d_al1 d_bs1 e == e_coeff e /\ comb d_al2 d_bs2 e == e_coeff e)
  /\ (forall b e, In b (d_bs1 ++ d_bs2) -> In e d_es -> 0 <= b e)
  /\ (forall al, In al (d_al1 ++ d_al2) -> 0 < al)
  (* ... the assignment satisfies every conjunct of the first and falsifies a conjunct of the second *)
  /\ (forall c, In c (decomposed_itp d_bs1 d_es) -> holds d_a c)
  /\ (exists c, In c (decomposed_itp d_bs2 d_es) /\ ~ holds d_a c).
Proof.
  split; [|split; [|split; [|split]]].
  - intros e [<-|[<-|[<-|[<-|[<-|[]]]]]]; repeat split; vm_compute; reflexivity.
  - intros b e Hb He. simpl in Hb.
    repeat (destruct Hb as [<-|Hb]; [destruct He as [<-|[<-|[<-|[<-|[<-|[]]]]]]; vm_compute; discriminate|]). contradiction.
  - intros al H. simpl in H. repeat (destruct H as [<-|H]; [reflexivity|]). contradiction.
  - intros c [<-|[<-|[<-|[<-|[]]]]]; vm_compute; try discriminate; reflexivity.
  - exists (wsum sideA (d_vec 0 (1#2) 1 0 0) d_es). split; [simpl; auto|]. vm_compute. intros H. discriminate.
Qed.
