(* C08: labelled interpolation systems over resolution refutations
   (src/proof/InterpolationContext.cc, class SingleInterpolationComputationContext; D'Silva, Kroening,
   Purandare, Weissenbacher: "Interpolant strength", VMCAI 2010).  Definitions only; proofs in LabelledProofs.v.

   What is modelled (file:line of the pinned tree, src/proof/InterpolationContext.cc unless said otherwise):
     getClass                               256-275   class of a partition mask w.r.t. the A-mask: A / B / AB / none (throws)
     getVarClass / getVarClassFromCache     319-323, 22-27   class of a variable from its partition mask (PartitionManager)
     getClauseColor                         327-330   class of an original clause from its partition mask
     InterpolationNodeData                  169-219   colour of a shared variable in a node = two bits (a-bit, b-bit):
                                                      a = (1,0), b = (0,1), ab = (1,1), missing = (0,0)
     setLeaf{McMillan,Pudlak,McMillanPrime,PS,PSW,PSS}Labeling   770-826   leaf labelling of the class-AB variables
     computePSFunction                      332-363   proof-sensitive label: a iff #A-leaves containing v > #B-leaves containing v
     getVarColor / getSharedVarColorInNode  278-286, 81-91   colour of a variable in a node: its class if local, the node's bits if shared
     getRestrictedNodeClause, getInterpolantForOriginalClause   615-650   leaf partial interpolant:
                                                      A-clause: OR of the literals coloured b;  B-clause: AND of the negated literals coloured a
     computePartialInterpolantForOriginalClause   654-666   an AB-class clause is treated as an A-clause
     computePartialInterpolantForTheoryClause     668-692   theory leaf: interpolant of the conflict, colours handed to the theory solver
                                                      (Section variable [th_itp] with the leaf contract [th_contract_ok])
     updateColoringfromAnts / clearPivotColoring / getPivotColor   57-70, 291-315   inner node: bitwise OR of the antecedents' colours,
                                                      pivot's colour read off the merged bits (throws when missing), then cleared
     compInterpLabelingInner                721-768   pivot a: I1 \/ I2;  pivot b: I1 /\ I2;  pivot ab: (I1 \/ p) /\ (I2 \/ ~p)
                                                      (ant1 holds the positive occurrence of the pivot)
     produceSingleInterpolant               519-589   nodes in topological order, root = empty clause
   Interpolation algorithm numbers: src/options/SMTConfig.h:163-168 (0 McMillan, 1 Pudlak, 2 McMillan', 3 PS, 4 PSw, 5 PSs).

   NOT modelled: assumption (frame) literals of incremental solving (colour I_S, InterpolationContext.cc:311-313, 729-739),
   split clauses (treated like original clauses by the code, 702-717), the alternative ab-rule (757-760; equivalent formula),
   simplification of the formulas by Logic::mkAnd/mkOr and InterpolationContext::simplifyInterpolant (semantics preserving),
   proof reduction (PGTransformationAlgorithms.cc) — the theorems hold for EVERY valid refutation, reduced or not. *)
From Coq Require Import List Bool Arith PeanoNat Lia.
Import ListNotations.

Definition var := nat.
Definition lit := (var * bool)%type.            (* (v, true) = v,  (v, false) = not v *)
Definition clause := list lit.
Definition assignment := var -> bool.

Definition lit_true (a : assignment) (l : lit) : bool := Bool.eqb (a (fst l)) (snd l).
Definition clause_true (a : assignment) (c : clause) : bool := existsb (lit_true a) c.

Inductive form := FTrue | FFalse | FVar (v : var) | FNot (f : form) | FAnd (f g : form) | FOr (f g : form).

Fixpoint feval (a : assignment) (f : form) : bool :=
  match f with
  | FTrue => true | FFalse => false | FVar v => a v | FNot g => negb (feval a g)
  | FAnd g h => feval a g && feval a h | FOr g h => feval a g || feval a h
  end.

Fixpoint fvars (f : form) : list var :=
  match f with
  | FTrue | FFalse => [] | FVar v => [v] | FNot g => fvars g
  | FAnd g h | FOr g h => fvars g ++ fvars h
  end.

Definition flit (l : lit) : form := if snd l then FVar (fst l) else FNot (FVar (fst l)).
Definition fnlit (l : lit) : form := if snd l then FNot (FVar (fst l)) else FVar (fst l).
Fixpoint big_or (fs : list form) : form := match fs with [] => FFalse | f :: r => FOr f (big_or r) end.
Fixpoint big_and (fs : list form) : form := match fs with [] => FTrue | f :: r => FAnd f (big_and r) end.

(* ---- partition masks (ipartitions_t as the set of its bit positions) ------------------------ *)
Definition mask := list nat.
Definition mem (i : nat) (m : mask) : bool := existsb (Nat.eqb i) m.
Definition in_A (m A : mask) : bool := existsb (fun i => mem i A) m.           (* (mask & A_mask) != 0  *)
Definition in_B (m A : mask) : bool := existsb (fun i => negb (mem i A)) m.    (* (mask & ~A_mask) != 0 *)

Inductive cls := CA | CB | CAB | CNone.
Definition get_class (m A : mask) : cls :=
  match in_A m A, in_B m A with
  | true, false => CA | false, true => CB | true, true => CAB | false, false => CNone
  end.

(* ---- colours -------------------------------------------------------------------------------- *)
Definition colour := (bool * bool)%type.       (* (a-bit, b-bit) *)
Definition ca : colour := (true, false).
Definition cb : colour := (false, true).
Definition cab : colour := (true, true).
Definition cnone : colour := (false, false).
Definition cor (x y : colour) : colour := (fst x || fst y, snd x || snd y).
Definition is_a (c : colour) : bool := fst c && negb (snd c).
Definition is_b (c : colour) : bool := negb (fst c) && snd c.
Definition is_none (c : colour) : bool := negb (fst c) && negb (snd c).

Definition colmap := list (var * colour).
Fixpoint cget (m : colmap) (v : var) : colour :=
  match m with [] => cnone | (w, c) :: r => if Nat.eqb v w then c else cget r v end.
Definition cmerge (m1 m2 : colmap) : colmap :=
  map (fun v => (v, cor (cget m1 v) (cget m2 v))) (map fst (m1 ++ m2)).
Definition cremove (p : var) (m : colmap) : colmap := filter (fun e => negb (Nat.eqb (fst e) p)) m.

(* ---- proofs --------------------------------------------------------------------------------- *)
Inductive node :=
| Leaf (c : clause) (m : mask)      (* original clause with the partition mask of the clause (PartitionInfo::clause_class) *)
| ThLeaf (c : clause)               (* theory clause *)
| Res (i j : nat) (p : var).        (* resolvent of the earlier nodes i (contains p) and j (contains not p) *)
Definition proof := list node.

Definition lit_eqb (l k : lit) : bool := Nat.eqb (fst l) (fst k) && Bool.eqb (snd l) (snd k).
Definition remove_lit (l : lit) (c : clause) : clause := filter (fun k => negb (lit_eqb k l)) c.
Definition resolve (c1 c2 : clause) (p : var) : clause := remove_lit (p, true) c1 ++ remove_lit (p, false) c2.

Definition ndata := (clause * colmap * form)%type.
Definition nd_clause (d : ndata) : clause := fst (fst d).
Definition nd_col (d : ndata) : colmap := snd (fst d).
Definition nd_itp (d : ndata) : form := snd d.

Section LIS.
  Variable vmask : var -> mask.            (* PartitionManager::getIPartitions(varToPTRef v) *)
  Variable A : mask.                       (* the A-mask of the request *)
  Variable th_itp : clause -> (var -> colour) -> form.    (* THandler::getInterpolant for the conflict "not c" *)
  Variable L : nat -> var -> colour.       (* leaf labelling of the shared variables: node index -> variable -> colour *)

  Definition vclass (v : var) : cls := get_class (vmask v) A.

  (* getVarColor / the lookup in verifyPartialInterpolant*, getRestrictedNodeClause *)
  Definition var_colour (col : colmap) (v : var) : colour :=
    match vclass v with CA => ca | CB => cb | CAB => cget col v | CNone => cnone end.

  (* setLeafLabeling: only class-AB variables get bits *)
  Definition leaf_col (idx : nat) (c : clause) : colmap :=
    map (fun l => (fst l, L idx (fst l)))
        (filter (fun l => match vclass (fst l) with CAB => true | _ => false end) c).

  (* getInterpolantForOriginalClause *)
  Definition leaf_itp (c : clause) (col : colmap) (isA : bool) : form :=
    if isA then big_or (map flit (filter (fun l => is_b (var_colour col (fst l))) c))
    else big_and (map fnlit (filter (fun l => is_a (var_colour col (fst l))) c)).

  (* getPivotColor after updateColoringfromAnts *)
  Definition pivot_colour (merged : colmap) (p : var) : option colour :=
    match vclass p with
    | CA => Some ca
    | CB => Some cb
    | CAB => let c := cget merged p in if is_none c then None else Some c
    | CNone => None
    end.

  (* compInterpLabelingInner *)
  Definition inner_itp (pc : colour) (p : var) (I1 I2 : form) : form :=
    if is_a pc then FOr I1 I2
    else if is_b pc then FAnd I1 I2
    else FAnd (FOr I1 (FVar p)) (FOr I2 (FNot (FVar p))).

  (* one node; None = the code throws InternalException *)
  Definition step (acc : list ndata) (n : node) : option ndata :=
    match n with
    | Leaf c m =>
        match get_class m A with
        | CNone => None
        | CB => let col := leaf_col (length acc) c in Some (c, col, leaf_itp c col false)
        | _ => let col := leaf_col (length acc) c in Some (c, col, leaf_itp c col true)
        end
    | ThLeaf c => let col := leaf_col (length acc) c in Some (c, col, th_itp c (var_colour col))
    | Res i j p =>
        match nth_error acc i, nth_error acc j with
        | Some d1, Some d2 =>
            let merged := cmerge (nd_col d1) (nd_col d2) in
            match pivot_colour merged p with
            | None => None
            | Some pc => Some (resolve (nd_clause d1) (nd_clause d2) p, cremove p merged,
                               inner_itp pc p (nd_itp d1) (nd_itp d2))
            end
        | _, _ => None
        end
    end.

  Fixpoint run (acc : list ndata) (P : proof) : option (list ndata) :=
    match P with
    | [] => Some acc
    | n :: r => match step acc n with None => None | Some d => run (acc ++ [d]) r end
    end.

  (* produceSingleInterpolant: partial interpolant of the root (the last node, which must be the empty clause) *)
  Definition itp (P : proof) : option form :=
    match run [] P with
    | Some acc => match rev acc with
                  | d :: _ => match nd_clause d with [] => Some (nd_itp d) | _ => None end
                  | [] => None
                  end
    | None => None
    end.
End LIS.

(* ---- the six labelling functions of the implementation --------------------------------------- *)
Inductive alg := McMillan | Pudlak | McMillanP | PS | PSW | PSS.
Definition alg_of_nat (n : nat) : option alg :=
  match n with 0 => Some McMillan | 1 => Some Pudlak | 2 => Some McMillanP | 3 => Some PS | 4 => Some PSW | 5 => Some PSS | _ => None end.

Definition mentions (c : clause) (v : var) : bool := existsb (fun l => Nat.eqb (fst l) v) c.

(* computePSFunction: occurrences of v in original leaves of class A resp. class B (AB-class leaves count for neither) *)
Fixpoint ps_count (A : mask) (P : proof) (v : var) : nat * nat :=
  match P with
  | [] => (0, 0)
  | Leaf c m :: r =>
      let (na, nb) := ps_count A r v in
      if mentions c v then
        match get_class m A with CA => (S na, nb) | CB => (na, S nb) | _ => (na, nb) end
      else (na, nb)
  | _ :: r => ps_count A r v
  end.
Definition ps_is_a (A : mask) (P : proof) (v : var) : bool := let (na, nb) := ps_count A P v in Nat.ltb nb na.

(* a variable that is in no counted leaf has no entry in the C++ map (labels.find(v) == end(): undefined behaviour);
   the model gives it the else-branch of "qtta > qttb" *)
Definition impl_label (g : alg) (A : mask) (P : proof) : nat -> var -> colour :=
  fun _ v =>
    match g with
    | McMillan => cb
    | Pudlak => cab
    | McMillanP => ca
    | PS => if ps_is_a A P v then ca else cb
    | PSW => if ps_is_a A P v then ca else cab
    | PSS => if ps_is_a A P v then cab else cb
    end.

Definition impl_itp (vmask : var -> mask) (th : clause -> (var -> colour) -> form) (g : alg) (A : mask) (P : proof) : option form :=
  itp vmask A th (impl_label g A P) P.

(* variable masks computed from the occurrences in the input clauses *)
Definition vmask_of (input : list (clause * mask)) (v : var) : mask :=
  flat_map (fun cm => if mentions (fst cm) v then snd cm else []) input.
