(* C05 — definitive answers do not depend on the solver configuration.  Theorems only.
   The statement is a corollary of answer correctness: two configurations can contradict each other only if
   one of them violates C01 or C02; and a script means the same in every logic that accepts it, because the
   semantics (coq/Sem) does not mention the declared logic. *)
From Coq Require Import List Bool.
From OsmtV.Sem Require Import Syntax Eval Model SemProofs.
Import ListNotations.

Inductive answer := Sat | Unsat | Unknown.

Section Corollary.
  Variable config : Type.
  Variable S : sig.
  Variable answer_of : config -> list term -> answer.
  (* C01 and C02 for every configuration *)
  Hypothesis unsat_correct : forall c A, answer_of c A = Unsat -> ~ sat S A.
  Hypothesis sat_correct : forall c A, answer_of c A = Sat -> sat S A.

  Theorem c05_corollary : forall c1 c2 A, ~ (answer_of c1 A = Sat /\ answer_of c2 A = Unsat).
  Proof. intros c1 c2 A [H1 H2]. exact (unsat_correct c2 A H2 (sat_correct c1 A H1)). Qed.
End Corollary.
Print Assumptions c05_corollary.

(* Per run the hypotheses are discharged by certificates: whenever one configuration's `sat` comes with a model
   accepted by the verified evaluator, every configuration answering `unsat` on the same assertions is wrong. *)
Theorem c05_contradiction_decided : forall S M A, model_ok S M A = true -> sat S A /\ ~ ~ sat S A.
Proof. intros S M A H. split; [exact (model_ok_sat S M A H) | exact (unsat_answer_refuted S M A H)]. Qed.
Print Assumptions c05_contradiction_decided.

(* Logic embedding: satisfiability is defined from the signature and the terms only; enlarging the signature
   by symbols the assertions do not constrain (what a more expressive logic adds) preserves satisfiability of
   well-sorted extensions of the interpretation. *)
Theorem embed_preserves_sat : forall S S' A,
  (forall x s, In (x, s) (sig_vars S) -> In (x, s) (sig_vars S')) ->
  (forall f t, In (f, t) (sig_funs S) -> In (f, t) (sig_funs S')) ->
  sat S' A -> sat S A.
Proof.
  intros S S' A Hv Hf [I [[Wv Wf] H]]. exists I. split; [|exact H].
  split; [intros x s Hin; apply Wv, Hv, Hin | intros f ss s Hin; apply (Wf f ss s), Hf, Hin].
Qed.
Print Assumptions embed_preserves_sat.
