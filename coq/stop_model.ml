
(** val negb : bool -> bool **)

let negb = function
| true -> false
| false -> true

type nat =
| O
| S of nat

(** val fst : ('a1 * 'a2) -> 'a1 **)

let fst = function
| (x, _) -> x

(** val snd : ('a1 * 'a2) -> 'a2 **)

let snd = function
| (_, y) -> y



module Nat =
 struct
  (** val eqb : nat -> nat -> bool **)

  let rec eqb n m =
    match n with
    | O -> (match m with
            | O -> true
            | S _ -> false)
    | S n' -> (match m with
               | O -> false
               | S m' -> eqb n' m')

  (** val leb : nat -> nat -> bool **)

  let rec leb n m =
    match n with
    | O -> true
    | S n' -> (match m with
               | O -> false
               | S m' -> leb n' m')

  (** val ltb : nat -> nat -> bool **)

  let ltb n m =
    leb (S n) m
 end

(** val existsb : ('a1 -> bool) -> 'a1 list -> bool **)

let rec existsb f = function
| [] -> false
| a :: l0 -> (||) (f a) (existsb f l0)

type lbool =
| LTrue
| LFalse
| LUndef

type outcome =
| Cont
| Ret of lbool

type elim_out =
| EMore
| EDone
| EConflict

type pc =
| PElimHead
| PElimWork
| PElimCleanup
| PSolveHead
| PSearchInit
| PSearchHead
| PProp
| PAfterProp
| PRest
| PSearchBreak
| PAfterSearch of lbool
| PDone of lbool

(** val is_poll : pc -> bool **)

let is_poll = function
| PElimHead -> true
| PSolveHead -> true
| PSearchHead -> true
| PAfterProp -> true
| _ -> false

type flagfn = nat -> nat -> bool

(** val nostop : flagfn **)

let nostop _ _ =
  false

(** val stop_at_step : nat -> flagfn **)

let stop_at_step k i _ =
  Nat.leb k i

(** val stop_at_poll : nat -> flagfn **)

let stop_at_poll n _ j =
  Nat.leb n j

type 's cfg = { c_pc : pc; c_st : 's; c_steps : nat; c_polls : nat }

(** val step_ps :
    bool -> ('a1 -> 'a1 * elim_out) -> ('a1 -> 'a1) -> ('a1 -> 'a1 * lbool
    option) -> ('a1 -> 'a1 * bool) -> ('a1 -> 'a1 * outcome) -> ('a1 -> 'a1)
    -> ('a1 -> 'a1) -> bool -> pc -> 'a1 -> pc * 'a1 **)

let step_ps pac elim_work elim_cleanup search_init prop rest cancel0 restart b p s =
  match p with
  | PElimHead -> if b then (PElimCleanup, s) else (PElimWork, s)
  | PElimWork ->
    let (s', o) = elim_work s in
    (match o with
     | EMore -> (PElimHead, s')
     | EDone -> (PElimCleanup, s')
     | EConflict -> ((PDone LFalse), (elim_cleanup s')))
  | PElimCleanup -> (PSolveHead, (elim_cleanup s))
  | PSolveHead -> if b then ((PDone LUndef), s) else (PSearchInit, s)
  | PSearchInit ->
    let (s', o) = search_init s in
    (match o with
     | Some r -> ((PAfterSearch r), s')
     | None -> (PSearchHead, s'))
  | PSearchHead -> if b then (PSearchBreak, s) else (PProp, s)
  | PProp ->
    let (s', c) = prop s in
    if (&&) c (negb pac) then (PRest, s') else (PAfterProp, s')
  | PAfterProp -> if b then (PSearchBreak, s) else (PRest, s)
  | PRest ->
    let (s', o) = rest s in
    (match o with
     | Cont -> (PSearchHead, s')
     | Ret r -> ((PAfterSearch r), s'))
  | PSearchBreak -> ((PAfterSearch LUndef), (cancel0 s))
  | PAfterSearch r ->
    (match r with
     | LUndef -> (PSolveHead, (restart s))
     | _ -> ((PDone r), (restart s)))
  | PDone r -> ((PDone r), s)

(** val step :
    bool -> ('a1 -> 'a1 * elim_out) -> ('a1 -> 'a1) -> ('a1 -> 'a1 * lbool
    option) -> ('a1 -> 'a1 * bool) -> ('a1 -> 'a1 * outcome) -> ('a1 -> 'a1)
    -> ('a1 -> 'a1) -> flagfn -> 'a1 cfg -> 'a1 cfg **)

let step pac elim_work elim_cleanup search_init prop rest cancel0 restart f c =
  match c.c_pc with
  | PDone _ -> c
  | x ->
    let ps =
      step_ps pac elim_work elim_cleanup search_init prop rest cancel0
        restart (f c.c_steps c.c_polls) x c.c_st
    in
    { c_pc = (fst ps); c_st = (snd ps); c_steps = (S c.c_steps); c_polls =
    (if is_poll x then S c.c_polls else c.c_polls) }

(** val run :
    bool -> ('a1 -> 'a1 * elim_out) -> ('a1 -> 'a1) -> ('a1 -> 'a1 * lbool
    option) -> ('a1 -> 'a1 * bool) -> ('a1 -> 'a1 * outcome) -> ('a1 -> 'a1)
    -> ('a1 -> 'a1) -> nat -> flagfn -> 'a1 cfg -> 'a1 cfg **)

let rec run pac elim_work elim_cleanup search_init prop rest cancel0 restart fuel f c =
  match fuel with
  | O -> c
  | S n ->
    run pac elim_work elim_cleanup search_init prop rest cancel0 restart n f
      (step pac elim_work elim_cleanup search_init prop rest cancel0 restart
        f c)

(** val result : 'a1 cfg -> lbool option **)

let result c =
  match c.c_pc with
  | PDone r -> Some r
  | _ -> None

(** val entry : bool -> 'a1 -> 'a1 cfg **)

let entry do_simp s =
  { c_pc = (if do_simp then PElimWork else PSolveHead); c_st = s; c_steps =
    O; c_polls = O }

(** val predict : nat -> lbool -> nat -> lbool **)

let predict n r0 n0 =
  if Nat.ltb n0 n then LUndef else r0

type access = { a_tid : nat; a_write : bool }

(** val conflicting : access -> access -> bool **)

let conflicting a b =
  (&&) (negb (Nat.eqb a.a_tid b.a_tid)) ((||) a.a_write b.a_write)

(** val has_conflict : access list -> bool **)

let rec has_conflict = function
| [] -> false
| a :: r -> (||) (existsb (conflicting a) r) (has_conflict r)

(** val data_race : bool -> access list -> bool **)

let data_race atomic0 tr =
  (&&) (negb atomic0) (has_conflict tr)

type ev =
| EvElim of elim_out
| EvInit of lbool option
| EvProp of bool
| EvRest of outcome

type script = ev list

(** val sc_elim : script -> script * elim_out **)

let sc_elim s = match s with
| [] -> (s, EDone)
| e :: r -> (match e with
             | EvElim o -> (r, o)
             | _ -> (s, EDone))

(** val sc_init : script -> script * lbool option **)

let sc_init s = match s with
| [] -> (s, (Some LUndef))
| e :: r -> (match e with
             | EvInit o -> (r, o)
             | _ -> (s, (Some LUndef)))

(** val sc_rest : script -> script * outcome **)

let sc_rest s = match s with
| [] -> (s, (Ret LUndef))
| e :: r -> (match e with
             | EvRest o -> (r, o)
             | _ -> (s, (Ret LUndef)))

(** val sc_prop : script -> script * bool **)

let sc_prop s = match s with
| [] -> (s, false)
| e :: r -> (match e with
             | EvProp c -> (r, c)
             | _ -> (s, false))

(** val sc_id : script -> script **)

let sc_id s =
  s

(** val run_script :
    bool -> bool -> nat -> flagfn -> script -> lbool option * nat **)

let run_script pac do_simp fuel f s =
  let c =
    run pac sc_elim sc_id sc_init sc_prop sc_rest sc_id sc_id fuel f
      (entry do_simp s)
  in
  ((result c), c.c_polls)

(** val atomic : bool **)

let atomic =
  true

(** val lookahead_polls : bool **)

let lookahead_polls =
  false

(** val poll_after_conflict : bool **)

let poll_after_conflict =
  false
