(* C19 — a rejected command leaves the solver state unchanged.  Theorems only; the model is
   Front/InterpBook.v (the interpreter's bookkeeping as a state machine over abstract commands, with the
   name tables of Names/TermNames.v and Names/DefinedFuns.v inside), the proofs Front/InterpBookProofs.v.

   Full statement:   forall b c, rejected (step b c) -> obs_equiv (state after) b.
   It is FALSE on the model of the code as it is (three independent witnesses below, each replayed on
   the implementation by checks/C19.py), TRUE for every command outside the three patterns
   (c19_rejected_is_noop_partial), and TRUE without restriction once the three repairs are made
   (c19_rejected_is_noop_repaired). *)
From Coq Require Import List NArith ZArith Bool.
From OsmtV.Names Require Import ScopedVec TermNames DefinedFuns.
From OsmtV.Front Require Import InterpBook InterpBookProofs.
Import ListNotations.
Local Open Scope N_scope.

(* [benign b c] (InterpBook.v) excludes exactly: an assert whose term is well-formed but not Bool or
   carries a :named annotation; a define-fun / get-value whose term carries a :named annotation; a pop
   of more levels than exist at a positive level.  Everything else that is rejected -- commands before
   set-logic, set-logic twice or unknown, late pre-initialisation options, declare-sort twice,
   declarations and definitions with unknown sorts, ill-sorted or unknown terms, wrong return sort,
   duplicate define-fun, negative or out-of-range push/pop, pop at level 0, get-model / get-value /
   get-assignment outside sat, get-unsat-core / get-interpolants without the option or outside unsat,
   get-interpolants with unknown, popped or non-assertion names -- returns the very same state,
   in every variant of the model. *)
Theorem c19_rejected_is_noop_partial : forall fx b c b',
  benign b c = true -> step fx b c = Some (b', RErr) -> b' = b /\ obs_equiv b' b.
Proof.
  intros fx b c b' Hb H. pose proof (rejected_noop_partial_lemma fx b c b' Hb H) as ->.
  split; [reflexivity|apply obs_equiv_refl].
Qed.
Print Assumptions c19_rejected_is_noop_partial.

(* Witness 1 (DESIGN.md §9 #7): a well-formed non-Bool assert is rejected by insertFormula AFTER
   Interpret::assertions has grown; assertion indices and partition indices are shifted against each
   other from then on: get-interpolants A .. builds the mask {1} where the partition of A is 0. *)
Theorem c19_nonbool_assert_refuted : exists b c b' cs gs b2 b3,
  reachable as_is b /\ step as_is b c = Some (b', RErr) /\ ~ obs_equiv b' b /\
  run_from as_is b' cs = Some b2 /\ run_from as_is b cs = Some b3 /\
  masks b3 gs = Some [[0%nat]] /\ group_parts b3 [1] = Some [0%nat] /\
  masks b2 gs = Some [[1%nat]] /\ group_parts b2 [1] = Some [0%nat].
Proof.
  pose (pre := [CSetOpt OItp true; CSetLogic true; CDeclFun 0 true]).
  pose (c := CAssert (mk_aterm [] 50 false)).
  pose (cs := [CAssert (mk_aterm [PName 1 61] 61 true); CAssert (mk_aterm [PName 2 62] 62 true); CCheckSat StUnsat]).
  destruct (run_from as_is book_init pre) as [b|] eqn:Eb; [|vm_compute in Eb; discriminate].
  destruct (step as_is b c) as [[b' r]|] eqn:Es; [|vm_compute in Eb; inversion Eb; subst; vm_compute in Es; discriminate].
  destruct (run_from as_is b' cs) as [b2|] eqn:E2; [|vm_compute in Eb; inversion Eb; subst; vm_compute in Es; inversion Es; subst; vm_compute in E2; discriminate].
  destruct (run_from as_is b cs) as [b3|] eqn:E3; [|vm_compute in Eb; inversion Eb; subst; vm_compute in E3; discriminate].
  exists b, c, b', cs, [[1]; [2]], b2, b3.
  vm_compute in Eb. inversion Eb; subst b; clear Eb.
  vm_compute in Es. inversion Es; subst b' r; clear Es.
  vm_compute in E2. inversion E2; subst b2; clear E2.
  vm_compute in E3. inversion E3; subst b3; clear E3.
  split; [exists pre; vm_compute; reflexivity|].
  split; [reflexivity|]. split.
  - intros (_ & _ & _ & _ & _ & _ & H & _). vm_compute in H. discriminate.
  - repeat split; vm_compute; reflexivity.
Qed.
Print Assumptions c19_nonbool_assert_refuted.

(* ... and this happens for EVERY well-formed non-Bool assert, in every initialised state. *)
Theorem c19_nonbool_assert_always_changes : forall b a,
  b_init b = true -> snd (parse b (a_evs a)) = true -> a_bool a = false ->
  exists b', step as_is b (CAssert a) = Some (b', RErr) /\
             b_assertions b' = b_assertions b ++ [a_id a] /\ b_inserted b' = b_inserted b.
Proof. exact nonbool_assert_always_changes_lemma. Qed.
Print Assumptions c19_nonbool_assert_always_changes.

(* Witness 2: a name given inside a term is entered at the annotation; when the enclosing command is
   rejected afterwards the name stays, and a later valid use of the same name is refused. *)
Theorem c19_named_then_rejected_refuted : exists b c b' later,
  reachable as_is b /\ step as_is b c = Some (b', RErr) /\ ~ obs_equiv b' b /\
  (exists b3, step as_is b later = Some (b3, ROk)) /\ (exists b2, step as_is b' later = Some (b2, RErr)).
Proof.
  pose (pre := [CSetLogic true; CDeclFun 0 true]).
  pose (c := CAssert (mk_aterm [PName 1 61; PFail] 0 true)).
  pose (later := CAssert (mk_aterm [PName 1 62] 62 true)).
  destruct (run_from as_is book_init pre) as [b|] eqn:Eb; [|vm_compute in Eb; discriminate].
  destruct (step as_is b c) as [[b' r]|] eqn:Es; [|vm_compute in Eb; inversion Eb; subst; vm_compute in Es; discriminate].
  exists b, c, b', later.
  vm_compute in Eb. inversion Eb; subst b; clear Eb.
  vm_compute in Es. inversion Es; subst b' r; clear Es.
  split; [exists pre; vm_compute; reflexivity|]. split; [reflexivity|]. split.
  - intros (_ & _ & _ & _ & _ & _ & _ & _ & _ & _ & H & _). vm_compute in H. discriminate.
  - split; eexists; vm_compute; reflexivity.
Qed.
Print Assumptions c19_named_then_rejected_refuted.

(* Witness 3: (pop 3) at level 2 is rejected after it has popped both levels. *)
Theorem c19_partial_pop_refuted : exists b b',
  reachable as_is b /\ level b = 2%nat /\ step as_is b (CPop 3) = Some (b', RErr) /\
  level b' = 0%nat /\ ~ obs_equiv b' b.
Proof.
  pose (pre := [CSetLogic true; CDeclFun 0 true; CPush 1; CAssert (mk_aterm [PName 1 61] 61 true); CPush 1]).
  destruct (run_from as_is book_init pre) as [b|] eqn:Eb; [|vm_compute in Eb; discriminate].
  destruct (step as_is b (CPop 3)) as [[b' r]|] eqn:Es; [|vm_compute in Eb; inversion Eb; subst; vm_compute in Es; discriminate].
  exists b, b'.
  vm_compute in Eb. inversion Eb; subst b; clear Eb.
  vm_compute in Es. inversion Es; subst b' r; clear Es.
  split; [exists pre; vm_compute; reflexivity|]. repeat split; try (vm_compute; reflexivity).
  intros (_ & _ & _ & _ & _ & _ & _ & _ & H & _). vm_compute in H. discriminate.
Qed.
Print Assumptions c19_partial_pop_refuted.

Theorem c19_partial_pop_always_changes : forall b n b' r,
  b_init b = true -> (Z.of_nat (level b) < n <= int_max)%Z -> (0 < level b)%nat ->
  step as_is b (CPop n) = Some (b', r) -> r = RErr /\ level b' = 0%nat.
Proof. exact partial_pop_always_changes_lemma. Qed.
Print Assumptions c19_partial_pop_always_changes.

(* The repaired interpreter (assertions.push after insertFormula; pop checks the bound first; names
   of a rejected command rolled back): the full statement, no restriction on the command. *)
Theorem c19_rejected_is_noop_repaired : forall fx b c b',
  fx_assert fx = true -> fx_pop fx = true -> fx_names fx = true ->
  step fx b c = Some (b', RErr) -> b' = b /\ obs_equiv b' b.
Proof.
  intros fx b c b' Ha Hp Hn H. pose proof (rejected_noop_repaired_lemma fx b c b' Ha Hp Hn H) as ->.
  split; [reflexivity|apply obs_equiv_refl].
Qed.
Print Assumptions c19_rejected_is_noop_repaired.

(* non-vacuity: rejected commands of many kinds exist in a reachable state and satisfy [benign] *)
Example partial_nonvacuous :
  exists b, run_from as_is book_init [CSetOpt OModels true; CSetLogic true; CDeclFun 0 true;
                                      CAssert (mk_aterm [PName 1 61] 61 true); CCheckSat StSat] = Some b /\
    forall c, In c [CSetLogic true; CSetOpt OItp true; CDeclSort 0; CDeclFun 9 false;
                    CDefFun 100 true (mk_aterm [PFail] 0 true) true; CAssert (mk_aterm [PUse 77] 0 true);
                    CAssert (mk_aterm [PName 1 62] 62 true) (* duplicate name: not benign, still a no-op *);
                    CPush (-1); CPop 1; CPop (-1); CGetUnsatCore; CGetItp [[1]; [1]]; CGetValue [mk_aterm [PFail] 0 true]] ->
      exists b', step as_is b c = Some (b', RErr) /\ b' = b.
Proof.
  eexists. split; [vm_compute; reflexivity|].
  intros c Hc. cbn [In] in Hc.
  repeat (destruct Hc as [<-|Hc]; [eexists; split; vm_compute; reflexivity|]). contradiction.
Qed.
