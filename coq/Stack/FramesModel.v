(* C04: the assertion-stack bookkeeping of MainSolver (src/api/MainSolver.cc: push, pop, insertFormula,
   check, simplifyFormulas, rememberUnsatFrame, isLastFrameUnsat) as a state machine.  Definitions only.

   Abstractions (stated in design/C04.md): formulas are an abstract type; what is handed to the SAT engine for
   a frame is the frame's assertions themselves (preprocessing is C13); the engine is an oracle consulted with
   the formulas given under the ids of the currently enabled frames. *)
From Coq Require Import List Arith Bool Lia.
Import ListNotations.

Section Frames.
  Variable F : Type.

  Record frame := { fid : nat; fml : list F; funsat : bool }.

  (* given: every (frame id, formula) ever handed to the engine — never shrinks (clauses stay in the SAT solver,
     guarded by the literal of their frame id) *)
  Record st := { frames : list frame; fns : nat; next_id : nat; given : list (nat * F); inserted : nat }.

  Inductive eresult := ESat | EUnsat (conflict_frame : nat) | EUnknown.
  Inductive answer := Sat | Unsat | Unknown.

  (* the engine sees, per enabled frame (bottom first), the formulas given under that frame's id *)
  Variable engine : list (list F) -> eresult.
  (* level-0 conflict while clauses of a frame are added (giveToSolver returns s_False) *)
  Variable early : list (list F) -> bool.

  Definition init : st := {| frames := [{| fid := 0; fml := []; funsat := false |}]; fns := 0; next_id := 1; given := []; inserted := 0 |}.

  Definition given_of (g : list (nat * F)) (id : nat) : list F :=
    map snd (filter (fun p => Nat.eqb (fst p) id) g).
  Definition view (s : st) (fs : list frame) : list (list F) := map (fun fr => given_of (given s) (fid fr)) fs.

  Definition last_unsat (s : st) : bool := match rev (frames s) with fr :: _ => funsat fr | [] => false end.

  Definition push (s : st) : st :=
    {| frames := frames s ++ [{| fid := next_id s; fml := []; funsat := last_unsat s |}];
       fns := fns s; next_id := S (next_id s); given := given s; inserted := inserted s |}.

  (* MainSolver::pop: refuses at level 0 *)
  Definition pop (s : st) : option st :=
    match rev (frames s) with
    | _ :: ((_ :: _) as r) =>
        let fs := rev r in
        Some {| frames := fs; fns := Nat.min (fns s) (length fs); next_id := next_id s; given := given s; inserted := inserted s |}
    | _ => None
    end.

  Definition add_last (f : F) (fs : list frame) : list frame :=
    match rev fs with
    | fr :: r => rev r ++ [{| fid := fid fr; fml := fml fr ++ [f]; funsat := funsat fr |}]
    | [] => []
    end.

  Definition insert (f : F) (s : st) : st :=
    {| frames := add_last f (frames s); fns := Nat.min (fns s) (length (frames s) - 1);
       next_id := next_id s; given := given s; inserted := S (inserted s) |}.

  (* rememberUnsatFrame k: flags k, k+1, ... *)
  Fixpoint mark_from (k : nat) (fs : list frame) : list frame :=
    match fs with
    | [] => []
    | fr :: r => match k with
                 | 0 => {| fid := fid fr; fml := fml fr; funsat := true |} :: mark_from 0 r
                 | S k' => fr :: mark_from k' r
                 end
    end.

  Definition give (s : st) (fr : frame) : list (nat * F) := given s ++ map (fun f => (fid fr, f)) (fml fr).

  (* simplifyFormulas: frames fns .. count-1 are handed over in order; stops at the first early conflict *)
  Fixpoint simplify (fuel : nat) (s : st) : st * bool :=
    match fuel with
    | 0 => (s, false)
    | S n =>
        match nth_error (frames s) (fns s) with
        | None => (s, false)
        | Some fr =>
            let i := fns s in
            let s1 := {| frames := frames s; fns := S i; next_id := next_id s; given := give s fr; inserted := inserted s |} in
            if early (view s1 (firstn (S i) (frames s1)))
            then ({| frames := mark_from i (frames s1); fns := S i; next_id := next_id s1; given := given s1; inserted := inserted s1 |}, true)
            else simplify n s1
        end
    end.

  Definition check (s : st) : st * answer :=
    if last_unsat s then (s, Unsat)
    else
      let (s1, conflict) := simplify (length (frames s) - fns s) s in
      if conflict then (s1, Unsat)
      else match engine (view s1 (frames s1)) with
           | ESat => (s1, Sat)
           | EUnknown => (s1, Unknown)
           | EUnsat k => ({| frames := mark_from k (frames s1); fns := fns s1; next_id := next_id s1; given := given s1; inserted := inserted s1 |}, Unsat)
           end.

  Inductive op := OPush | OPop | OAssert (f : F) | OCheck.

  Definition step (s : st) (o : op) : st * option answer :=
    match o with
    | OPush => (push s, None)
    | OPop => (match pop s with Some s' => s' | None => s end, None)
    | OAssert f => (insert f s, None)
    | OCheck => let (s', a) := check s in (s', Some a)
    end.

  Fixpoint run (s : st) (h : list op) : st * list answer :=
    match h with
    | [] => (s, [])
    | o :: r => let (s1, a) := step s o in
                let (s2, l) := run s1 r in
                (s2, match a with Some x => x :: l | None => l end)
    end.

  Definition assertions (s : st) : list F := concat (map fml (frames s)).
End Frames.

Arguments fid {F}. Arguments fml {F}. Arguments funsat {F}.
Arguments frames {F}. Arguments fns {F}. Arguments next_id {F}. Arguments given {F}. Arguments inserted {F}.
Arguments init {F}. Arguments given_of {F}. Arguments view {F}. Arguments last_unsat {F}. Arguments push {F}.
Arguments pop {F}. Arguments add_last {F}. Arguments insert {F}. Arguments mark_from {F}. Arguments give {F}.
Arguments simplify {F}. Arguments check {F}. Arguments step {F}. Arguments run {F}. Arguments assertions {F}.
Arguments OPush {F}. Arguments OPop {F}. Arguments OAssert {F}. Arguments OCheck {F}.
