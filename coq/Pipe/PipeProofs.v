(* C20: proofs about Pipe/PipeModel.v and Pipe/LexStates.v.
   A. the regenerated flag update is the five-mode scanner machine
   B. the indexed buffer loop refines the character machine (sstep / sfold)
   C. chunking: what is read in which pieces does not matter up to the first stopping event
   D. buffer invariants (the asserts of the code) for feasible read sequences *)
From Coq Require Import List Ascii Bool ZArith Lia.
From OsmtV.Pipe Require Import PipeBase Gen_PipeFlags LexStates PipeModel.
Import ListNotations.
Local Open Scope Z_scope.

(* ------------------------------------------------------------------------------------------- *)
(* A. regenerated code = mode machine                                                           *)
(* ------------------------------------------------------------------------------------------- *)

Lemma emit_cond_spec : forall p, gen_emit_cond p = (p =? 0).
Proof. intro p. reflexivity. Qed.

Lemma unbal_cond_spec : forall p, gen_unbal_cond p = (p <? 0).
Proof. intro p. reflexivity. Qed.

Lemma init_buf_sz_pos : 1 < gen_init_buf_sz.
Proof. vm_compute. reflexivity. Qed.

Lemma gen_step_modes : forall m c,
  (gen_has_string_escape = true \/ m <> LStrEsc) ->
  gen_flag_step (mode_flags m) c =
  (mode_flags (fst (scan_mode_step gen_has_string_escape m c)), snd (scan_mode_step gen_has_string_escape m c)).
Proof.
  intros m c H.
  destruct m;
    first [ solve [ destruct c as [[] [] [] [] [] [] [] []]; vm_compute; reflexivity ]
          | exfalso; destruct H as [H | H]; [ vm_compute in H; discriminate H | apply H; reflexivity ] ].
Qed.

(* ------------------------------------------------------------------------------------------- *)
(* B. buffer loop refines the character machine                                                 *)
(* ------------------------------------------------------------------------------------------- *)
Section Refine.
  Variable parse_ok : text -> bool.
  Variable exits : text -> bool.

  Notation on_char := (on_char parse_ok exits).
  Notation sstep := (sstep parse_ok exits).
  Notation sfold := (sfold parse_ok exits).
  Notation scan_loop := (scan_loop parse_ok exits).
  Notation feed := (feed parse_ok exits).
  Notation run_from := (run_from parse_ok exits).
  Notation parse_and_execute := (parse_and_execute parse_ok exits).

  Definition Rel (s : pst) (ss : sst) (todo : text) : Prop :=
    buf s = pend ss ++ todo /\ pos s = length (pend ss) /\ par s = spar ss /\ fl s = sfl ss /\
    fexit s = sfexit ss /\ done s = sdone ss.

  Lemma firstn_S_app : forall (p : text) c todo, firstn (S (length p)) (p ++ c :: todo) = p ++ [c].
  Proof.
    induction p as [| a p IH]; intros; simpl.
    - reflexivity.
    - f_equal. apply IH.
  Qed.

  Lemma skipn_S_app : forall (p : text) c todo, skipn (S (length p)) (p ++ c :: todo) = todo.
  Proof.
    induction p as [| a p IH]; intros; simpl.
    - reflexivity.
    - apply IH.
  Qed.

  Lemma nth_error_mid : forall (p : text) c todo, nth_error (p ++ c :: todo) (length p) = Some c.
  Proof. induction p; intros; simpl; auto. Qed.

  Lemma step_rel : forall s ss c todo,
    Rel s ss (c :: todo) ->
    snd (on_char s c) = snd (sstep ss c) /\ Rel (fst (on_char s c)) (fst (sstep ss c)) todo /\
    bufsz (fst (on_char s c)) = bufsz s.
  Proof.
    intros s ss c todo (Hb & Hp & Hpar & Hfl & Hfx & Hdn).
    unfold on_char, sstep, Rel. rewrite Hfl, Hpar, Hfx, Hdn, Hb, Hp.
    rewrite firstn_S_app, skipn_S_app.
    assert (Hbuf : pend ss ++ c :: todo = (pend ss ++ [c]) ++ todo) by (rewrite <- app_assoc; reflexivity).
    assert (Hlen : S (length (pend ss)) = length (pend ss ++ [c])) by (rewrite app_length; simpl; lia).
    destruct (gen_flag_step (sfl ss) c) as [f' cont].
    destruct cont; [simpl; auto 10 |].
    destruct (Ascii.eqb c ch_lp); [simpl; auto 10 |].
    destruct (Ascii.eqb c ch_rp); [| simpl; auto 10].
    destruct (gen_emit_cond (spar ss - 1)).
    - destruct (parse_and_execute (sfexit ss) (sdone ss) (pend ss ++ [c])) as [[fx' dn'] e].
      destruct (gen_unbal_cond (spar ss - 1)); simpl; auto 10.
    - destruct (gen_unbal_cond (spar ss - 1)); simpl; auto 10.
  Qed.

  Lemma loop_rel : forall todo s ss,
    Rel s ss todo ->
    snd (scan_loop (length todo) s) = snd (sfold ss todo) /\
    Rel (fst (scan_loop (length todo) s)) (fst (sfold ss todo)) [] /\
    bufsz (fst (scan_loop (length todo) s)) = bufsz s.
  Proof.
    induction todo as [| c todo IH]; intros s ss HR.
    - simpl. auto.
    - simpl. destruct HR as (Hb & Hp & HR').
      rewrite Hb, Hp, nth_error_mid.
      assert (HR : Rel s ss (c :: todo)) by (unfold Rel; auto).
      destruct (step_rel s ss c todo HR) as (He & HR1 & Hsz).
      destruct (on_char s c) as [s1 e1]. destruct (sstep ss c) as [ss1 e1'].
      simpl in He, HR1, Hsz. subst e1'.
      destruct (IH s1 ss1 HR1) as (He2 & HR2 & Hsz2).
      destruct (scan_loop (length todo) s1) as [s2 e2]. destruct (sfold ss1 todo) as [ss2 e2'].
      simpl in *. subst e2'. split; [reflexivity | split; [assumption | congruence]].
  Qed.

  Lemma feed_rel : forall s ss chunk,
    Rel s ss [] ->
    snd (feed s chunk) = snd (sfold ss chunk) /\ Rel (fst (feed s chunk)) (fst (sfold ss chunk)) [] /\
    bufsz (fst (feed s chunk)) = grown s.
  Proof.
    intros s ss chunk (Hb & Hp & Hpar & Hfl & Hfx & Hdn).
    unfold feed. simpl.
    rewrite app_nil_r in Hb.
    assert (Hfuel : (length (buf s ++ chunk) - pos s)%nat = length chunk)
      by (rewrite app_length, Hp, Hb; lia).
    rewrite Hfuel.
    set (s1 := mkPst (buf s ++ chunk) (pos s) (par s) (fl s) (fexit s) (done s) (grown s)).
    assert (HR : Rel s1 ss chunk) by (unfold Rel, s1; simpl; rewrite Hb; auto 10).
    destruct (loop_rel chunk s1 ss HR) as (He & HR' & Hsz). auto.
  Qed.

  Lemma sfold_app : forall a b ss,
    sfold ss (a ++ b) =
    (fst (sfold (fst (sfold ss a)) b), snd (sfold ss a) ++ snd (sfold (fst (sfold ss a)) b)).
  Proof.
    induction a as [| c a IH]; intros b ss; simpl.
    - destruct (sfold ss b); reflexivity.
    - destruct (sstep ss c) as [s1 e1]. rewrite (IH b s1).
      destruct (sfold s1 a) as [s2 e2]. simpl.
      destruct (sfold s2 b) as [s3 e3]. simpl. rewrite app_assoc. reflexivity.
  Qed.

  (* ----------------------------------------------------------------------------------------- *)
  (* C. chunking                                                                                *)
  (* ----------------------------------------------------------------------------------------- *)
  Notation stops := (stops exits).
  Notation cut := (cut exits).

  Definition has_stop (es : list event) : bool := existsb stops es.

  Lemma has_stop_app : forall a b, has_stop (a ++ b) = has_stop a || has_stop b.
  Proof. intros. unfold has_stop. apply existsb_app. Qed.

  Lemma cut_app_stop : forall h r, has_stop h = true -> cut (h ++ r) = cut h.
  Proof.
    induction h as [| e h IH]; intros r H; simpl in *.
    - discriminate.
    - destruct (stops e); [reflexivity |]. simpl in H. f_equal. apply IH. exact H.
  Qed.

  Lemma cut_app_nostop : forall h r, has_stop h = false -> cut (h ++ r) = h ++ cut r.
  Proof.
    induction h as [| e h IH]; intros r H; simpl in *.
    - reflexivity.
    - destruct (stops e); [discriminate |]. simpl in H. f_equal. apply IH. exact H.
  Qed.

  Lemma lexecho_nostop : forall t, has_stop (lexecho t) = false.
  Proof. intro t. unfold lexecho. destruct (lex_echo t); reflexivity. Qed.

  (* done or f_exit set  =>  a stopping event has been emitted *)
  Definition Inv (ss : sst) (hist : list event) : Prop :=
    (sdone ss = true -> has_stop hist = true) /\ (sfexit ss = true -> has_stop hist = true).

  Lemma pae_inv : forall fx dn frame hist,
    (dn = true -> has_stop hist = true) -> (fx = true -> has_stop hist = true) ->
    let '(fx', dn', e) := parse_and_execute fx dn frame in
    (dn' = true -> has_stop (hist ++ e) = true) /\ (fx' = true -> has_stop (hist ++ e) = true).
  Proof.
    intros fx dn frame hist Hd Hf. unfold parse_and_execute.
    destruct (parse_ok (cstring frame)).
    - rewrite !has_stop_app, lexecho_nostop. simpl.
      destruct fx; simpl.
      + rewrite Hf by reflexivity. auto.
      + destruct (exits (cstring frame)); simpl; rewrite ?orb_true_r; split; intro; auto; discriminate.
    - rewrite has_stop_app. split; intro H; [rewrite (Hd H) | rewrite (Hf H)]; reflexivity.
  Qed.

  Lemma sstep_inv : forall ss c hist,
    Inv ss hist -> Inv (fst (sstep ss c)) (hist ++ snd (sstep ss c)).
  Proof.
    intros ss c hist [Hd Hf]. unfold sstep, Inv.
    destruct (gen_flag_step (sfl ss) c) as [f' cont].
    destruct cont; [simpl; rewrite app_nil_r; auto |].
    destruct (Ascii.eqb c ch_lp); [simpl; rewrite app_nil_r; auto |].
    destruct (Ascii.eqb c ch_rp); [| simpl; rewrite app_nil_r; auto].
    destruct (gen_emit_cond (spar ss - 1)).
    - pose proof (pae_inv (sfexit ss) (sdone ss) (pend ss ++ [c]) hist Hd Hf) as P.
      destruct (parse_and_execute (sfexit ss) (sdone ss) (pend ss ++ [c])) as [[fx' dn'] e].
      destruct P as [P1 P2].
      destruct (gen_unbal_cond (spar ss - 1)); simpl.
      + rewrite app_assoc, has_stop_app. simpl. rewrite !orb_true_r. auto.
      + auto.
    - destruct (gen_unbal_cond (spar ss - 1)); simpl.
      + rewrite has_stop_app. simpl. rewrite !orb_true_r. auto.
      + rewrite app_nil_r. auto.
  Qed.

  Lemma sfold_inv : forall t ss hist,
    Inv ss hist -> Inv (fst (sfold ss t)) (hist ++ snd (sfold ss t)).
  Proof.
    induction t as [| c t IH]; intros ss hist H; simpl.
    - rewrite app_nil_r. exact H.
    - pose proof (sstep_inv ss c hist H) as H1.
      destruct (sstep ss c) as [s1 e1]. simpl in H1.
      pose proof (IH s1 (hist ++ e1) H1) as H2.
      destruct (sfold s1 t) as [s2 e2]. simpl in *. rewrite app_assoc. exact H2.
  Qed.

  Definition no_empty (cs : list text) : Prop := Forall (fun c => c <> []) cs.

  Lemma run_cut : forall cs s ss hist,
    Rel s ss [] -> Inv ss hist -> no_empty cs ->
    cut (hist ++ snd (run_from s cs)) = cut (hist ++ snd (sfold ss (concat cs))).
  Proof.
    induction cs as [| c cs IH]; intros s ss hist HR HI HN.
    - reflexivity.
    - simpl. inversion HN as [| ? ? Hc HN']; subst.
      destruct (done s) eqn:Hd.
      + assert (Hs : has_stop hist = true).
        { destruct HI as [HI _]. apply HI. destruct HR as (_ & _ & _ & _ & _ & Hdn). congruence. }
        simpl. rewrite app_nil_r. symmetry. apply cut_app_stop. exact Hs.
      + destruct c as [| a c']; [congruence |].
        remember (a :: c') as ch eqn:Ech. clear Ech Hc.
        destruct (feed_rel s ss ch HR) as (He & HR1 & _).
        rewrite sfold_app.
        pose proof (sfold_inv ch ss hist HI) as HI1.
        destruct (feed s ch) as [s1 e1].
        destruct (sfold ss ch) as [ss1 e1']. cbn [fst snd] in He, HR1, HI1 |- *. subst e1'.
        pose proof (IH s1 ss1 (hist ++ e1) HR1 HI1 HN') as IH1.
        destruct (run_from s1 cs) as [s2 e2]. cbn [fst snd] in IH1 |- *.
        rewrite !app_assoc. exact IH1.
  Qed.

  Lemma Rel0 : Rel (pst0) (sst0) [].
  Proof. unfold Rel; simpl; auto 10. Qed.

  Lemma Inv0 : Inv sst0 [].
  Proof. split; simpl; intro; discriminate. Qed.

  Notation stream_events := (stream_events parse_ok exits).

  Lemma pipe_cut_stream : forall cs, no_empty cs ->
    cut (pipe_events parse_ok exits cs) = cut (stream_events (concat cs)).
  Proof. intros cs H. exact (run_cut cs pst0 sst0 [] Rel0 Inv0 H). Qed.

  Lemma chunking_irrelevant_lemma : forall cs cs',
    no_empty cs -> no_empty cs' -> concat cs = concat cs' ->
    cut (pipe_events parse_ok exits cs) = cut (pipe_events parse_ok exits cs').
  Proof. intros cs cs' H H' E. rewrite !pipe_cut_stream by assumption. rewrite E. reflexivity. Qed.

  (* the commands executed: independent of chunking as long as no unbalanced ')' is seen *)
  Notation executed := PipeModel.executed.

  Lemma executed_app : forall a b, executed (a ++ b) = executed a ++ executed b.
  Proof. intros. unfold executed. apply flat_map_app. Qed.

  Lemma lexecho_noexec : forall t, executed (lexecho t) = [].
  Proof. intro t. unfold lexecho. destruct (lex_echo t); reflexivity. Qed.

  Lemma sstep_fexit : forall ss c, sfexit ss = true ->
    sfexit (fst (sstep ss c)) = true /\ executed (snd (sstep ss c)) = [].
  Proof.
    intros ss c H. unfold sstep.
    destruct (gen_flag_step (sfl ss) c) as [f' cont].
    destruct cont; [simpl; auto |].
    destruct (Ascii.eqb c ch_lp); [simpl; auto |].
    destruct (Ascii.eqb c ch_rp); [| simpl; auto].
    destruct (gen_emit_cond (spar ss - 1)).
    - unfold PipeModel.parse_and_execute. rewrite H.
      destruct (parse_ok (cstring (pend ss ++ [c])));
        destruct (gen_unbal_cond (spar ss - 1)); simpl;
        rewrite ?executed_app, ?lexecho_noexec; simpl; auto.
    - destruct (gen_unbal_cond (spar ss - 1)); simpl; auto.
  Qed.

  Lemma sfold_fexit : forall t ss, sfexit ss = true -> executed (snd (sfold ss t)) = [].
  Proof.
    induction t as [| c t IH]; intros ss H; simpl; [reflexivity |].
    destruct (sstep_fexit ss c H) as [H1 H2].
    destruct (sstep ss c) as [s1 e1]. simpl in *.
    pose proof (IH s1 H1) as H3. destruct (sfold s1 t) as [s2 e2]. simpl in *.
    rewrite executed_app, H2, H3. reflexivity.
  Qed.

  Lemma sstep_done_fexit : forall ss c,
    (sdone ss = true -> sfexit ss = true) -> ~ In EUnbal (snd (sstep ss c)) ->
    (sdone (fst (sstep ss c)) = true -> sfexit (fst (sstep ss c)) = true).
  Proof.
    intros ss c H. unfold sstep.
    destruct (gen_flag_step (sfl ss) c) as [f' cont].
    destruct cont; [simpl; auto |].
    destruct (Ascii.eqb c ch_lp); [simpl; auto |].
    destruct (Ascii.eqb c ch_rp); [| simpl; auto].
    destruct (gen_emit_cond (spar ss - 1)).
    - unfold PipeModel.parse_and_execute.
      destruct (parse_ok (cstring (pend ss ++ [c])));
        destruct (gen_unbal_cond (spar ss - 1)); simpl; intros HN; auto;
        try (exfalso; apply HN; rewrite ?in_app_iff; simpl; auto).
    - destruct (gen_unbal_cond (spar ss - 1)); simpl; intros HN; auto;
        try (exfalso; apply HN; rewrite ?in_app_iff; simpl; auto).
  Qed.

  Lemma sfold_done_fexit : forall t ss,
    (sdone ss = true -> sfexit ss = true) -> ~ In EUnbal (snd (sfold ss t)) ->
    (sdone (fst (sfold ss t)) = true -> sfexit (fst (sfold ss t)) = true).
  Proof.
    induction t as [| c t IH]; intros ss H HN; simpl in *; [exact H |].
    pose proof (sstep_done_fexit ss c H) as H1.
    destruct (sstep ss c) as [s1 e1]. simpl in *.
    pose proof (IH s1) as H2.
    destruct (sfold s1 t) as [s2 e2]. simpl in *.
    apply H2.
    - apply H1. intro X. apply HN. apply in_or_app. left. exact X.
    - intro X. apply HN. apply in_or_app. right. exact X.
  Qed.

  Lemma run_executed : forall cs s ss,
    Rel s ss [] -> (sdone ss = true -> sfexit ss = true) -> no_empty cs ->
    ~ In EUnbal (snd (sfold ss (concat cs))) ->
    executed (snd (run_from s cs)) = executed (snd (sfold ss (concat cs))).
  Proof.
    induction cs as [| c cs IH]; intros s ss HR HD HN HU.
    - reflexivity.
    - simpl. inversion HN as [| ? ? Hc HN']; subst.
      destruct (done s) eqn:Hd.
      + simpl. symmetry. apply sfold_fexit. apply HD.
        destruct HR as (_ & _ & _ & _ & _ & Hdn). congruence.
      + destruct c as [| a c']; [congruence |].
        remember (a :: c') as ch eqn:Ech. clear Ech Hc.
        destruct (feed_rel s ss ch HR) as (He & HR1 & _).
        simpl concat in HU. rewrite sfold_app in HU. rewrite sfold_app.
        pose proof (sfold_done_fexit ch ss HD) as HD1.
        destruct (feed s ch) as [s1 e1].
        destruct (sfold ss ch) as [ss1 e1']. cbn [fst snd] in He, HR1, HD1, HU |- *. subst e1'.
        assert (HU1 : ~ In EUnbal e1) by (intro X; apply HU; apply in_or_app; left; exact X).
        assert (HU2 : ~ In EUnbal (snd (sfold ss1 (concat cs)))) by (intro X; apply HU; apply in_or_app; right; exact X).
        pose proof (IH s1 ss1 HR1 (HD1 HU1) HN' HU2) as IH1.
        destruct (run_from s1 cs) as [s2 e2]. cbn [fst snd] in IH1 |- *.
        rewrite !executed_app. rewrite IH1. reflexivity.
  Qed.

  Lemma pipe_executed_stream : forall cs, no_empty cs ->
    ~ In EUnbal (stream_events (concat cs)) ->
    executed (pipe_events parse_ok exits cs) = executed (stream_events (concat cs)).
  Proof.
    intros cs H HU. apply (run_executed cs pst0 sst0 Rel0); auto.
  Qed.

  (* ----------------------------------------------------------------------------------------- *)
  (* D. buffer invariants                                                                       *)
  (* ----------------------------------------------------------------------------------------- *)
  Definition bufinv (s : pst) : Prop :=
    Z.of_nat (length (buf s)) < bufsz s /\ 1 < bufsz s /\ pos s = length (buf s).

  Lemma request_pos : forall s, bufinv s -> 0 < request s /\ Z.of_nat (length (buf s)) + request s < grown s.
  Proof.
    intros s (H1 & H2 & _). unfold request, grown.
    destruct (Z.of_nat (length (buf s)) =? bufsz s - 1) eqn:E.
    - apply Z.eqb_eq in E. lia.
    - apply Z.eqb_neq in E. lia.
  Qed.

  Lemma sstep_pend_len : forall ss c, (length (pend (fst (sstep ss c))) <= S (length (pend ss)))%nat.
  Proof.
    intros ss c. unfold sstep.
    assert (L : length (pend ss ++ [c]) = S (length (pend ss))) by (rewrite app_length; simpl; lia).
    destruct (gen_flag_step (sfl ss) c) as [f' cont].
    destruct cont; [simpl; lia |].
    destruct (Ascii.eqb c ch_lp); [simpl; lia |].
    destruct (Ascii.eqb c ch_rp); [| simpl; lia].
    destruct (gen_emit_cond (spar ss - 1)).
    - destruct (PipeModel.parse_and_execute parse_ok exits (sfexit ss) (sdone ss) (pend ss ++ [c])) as [[fx' dn'] e].
      destruct (gen_unbal_cond (spar ss - 1)); simpl; lia.
    - destruct (gen_unbal_cond (spar ss - 1)); simpl; lia.
  Qed.

  Lemma sfold_pend_len : forall t ss, (length (pend (fst (sfold ss t))) <= length (pend ss) + length t)%nat.
  Proof.
    induction t as [| c t IH]; intros ss; simpl; [lia |].
    pose proof (sstep_pend_len ss c) as H1.
    destruct (sstep ss c) as [s1 e1]. simpl in *.
    pose proof (IH s1) as H2. destruct (sfold s1 t) as [s2 e2]. simpl in *. lia.
  Qed.

  Lemma feed_bufinv : forall s ss chunk,
    Rel s ss [] -> bufinv s -> 0 < Z.of_nat (length chunk) <= request s ->
    bufinv (fst (feed s chunk)).
  Proof.
    intros s ss chunk HR HB HL.
    destruct (feed_rel s ss chunk HR) as (_ & HR1 & Hsz).
    destruct (request_pos s HB) as [Hq1 Hq2].
    destruct HR1 as (Hb1 & Hp1 & _). rewrite app_nil_r in Hb1.
    destruct HR as (Hb & _). rewrite app_nil_r in Hb.
    pose proof (sfold_pend_len chunk ss) as HLn.
    unfold bufinv. rewrite Hsz, Hb1, Hp1.
    destruct HB as (HB1 & HB2 & _).
    assert (G : 1 < grown s) by (unfold grown; destruct (Z.of_nat (length (buf s)) =? bufsz s - 1); lia).
    rewrite Hb in *. repeat split; lia.
  Qed.

  Lemma run_bufinv : forall cs s ss,
    Rel s ss [] -> bufinv s -> feasible_from parse_ok exits s cs ->
    bufinv (fst (run_from s cs)).
  Proof.
    induction cs as [| c cs IH]; intros s ss HR HB HF; simpl.
    - exact HB.
    - destruct (done s); [exact HB |].
      destruct c as [| a c']; [exact HB |].
      remember (a :: c') as ch eqn:Ech. clear Ech.
      cbn [feasible_from] in HF. destruct HF as [HL HF'].
      pose proof (feed_bufinv s ss ch HR HB HL) as HB1.
      destruct (feed_rel s ss ch HR) as (_ & HR1 & _).
      destruct (feed s ch) as [s1 e1]. cbn [fst snd] in *.
      pose proof (IH s1 _ HR1 HB1 HF') as H2.
      destruct (run_from s1 cs) as [s2 e2]. exact H2.
  Qed.

  Lemma bufinv0 : bufinv pst0.
  Proof. unfold bufinv, pst0. simpl. pose proof init_buf_sz_pos. lia. Qed.
End Refine.
