(* C20: Interpret::interpPipe (src/api/Interpret.cc:1133-1244) as a fold over the results of the
   successive read(2) calls, and Interpret::interpFile (1110-1119) + Interpret::execute (1101-1108).
   Definitions only; proofs are in PipeProofs.v.

   The code (pipe mode):
     buf (capacity buf_sz, initially 16), rd_head = number of bytes held, i = scan position,
     par = nesting depth, flags inComment/inString/inQuotedSymbol, done.
     while (!done):  if rd_head == buf_sz-1 then buf_sz *= 2;   rd_chunk = buf_sz - rd_head - 1;
                     bts_rd = read(0, buf+rd_head, rd_chunk);   0 -> break (EOF; pending text is dropped)
                     rd_head += bts_rd;
                     for (; i < rd_head; i++):   -- does NOT test `done`
                        c = buf[i]; <flag update, regenerated: Gen_PipeFlags.gen_flag_step>, may `continue`
                        '(' -> par++        ')' -> par--;
                              if (par == 0): frame = buf[0..i] (handed to the parser as a C string: cut at
                                   the first NUL), the rest buf[i+1..rd_head) moves to the front, i = -1;
                                   parse error -> (error "scanner");  else execute(); done = f_exit
                              if (par < 0):  (error "pipe reader: unbalanced parentheses"); done = true
   A chunk below is what one read returns; the empty chunk is EOF.

   The parser and the command interpreter are parameters: [parse_ok t] = osmt_yyparse accepts the text t,
   [exits t] = executing the commands of t sets f_exit (the text contains an exit command). *)
From Coq Require Import List Ascii Bool ZArith.
From OsmtV.Pipe Require Import PipeBase Gen_PipeFlags LexStates.
Import ListNotations.
Local Open Scope Z_scope.

(* a char* handed to yy_scan_string ends at the first NUL *)
Fixpoint cstring (t : text) : text :=
  match t with
  | [] => []
  | c :: r => if Ascii.eqb c ch_nul then [] else c :: cstring r
  end.

(* what can be observed of a run, in order *)
Inductive event :=
| ELexEcho (e : text)    (* characters the lexer ECHOed to stdout while reading an accepted text *)
| EExec (t : text)       (* text parsed and its commands executed *)
| ESkip (t : text)       (* text parsed, nothing executed because f_exit was already set (pipe mode) *)
| ESyntax (t : text)     (* the parser rejected the text; pipe mode: (error "scanner"), okStatus cleared *)
| EUnbal.                (* (error "pipe reader: unbalanced parentheses") *)

(* the texts handed to the parser *)
Definition frame_texts (es : list event) : list text :=
  flat_map (fun e => match e with EExec t | ESkip t | ESyntax t => [t] | _ => [] end) es.

(* what of a run reaches stdout: everything but the frames parsed and not executed after exit *)
Definition visible (es : list event) : list event :=
  filter (fun e => match e with ESkip _ => false | _ => true end) es.

Definition lexecho (t : text) : list event :=
  match lex_echo t with [] => [] | e => [ELexEcho e] end.

Section Scanner.
  Variable parse_ok : text -> bool.
  Variable exits : text -> bool.

  Record pst := mkPst { buf : text; pos : nat; par : Z; fl : flags; fexit : bool; done : bool; bufsz : Z }.
  Definition pst0 : pst := mkPst [] 0%nat 0 flags0 false false gen_init_buf_sz.

  (* Smt2newContext context(buf_out); rval = osmt_yyparse(&context); ... *)
  Definition parse_and_execute (fx dn : bool) (frame : text) : bool * bool * list event :=
    let t := cstring frame in
    if parse_ok t then
      let fx' := fx || exits t in
      (fx', fx', lexecho t ++ [if fx then ESkip t else EExec t])
    else (fx, dn, [ESyntax t]).

  (* one iteration of the for loop at c = buf[i] *)
  Definition on_char (s : pst) (c : ascii) : pst * list event :=
    let '(f', cont) := gen_flag_step (fl s) c in
    if cont then (mkPst (buf s) (S (pos s)) (par s) f' (fexit s) (done s) (bufsz s), [])
    else if Ascii.eqb c ch_lp then (mkPst (buf s) (S (pos s)) (par s + 1) f' (fexit s) (done s) (bufsz s), [])
    else if Ascii.eqb c ch_rp then
      let p1 := par s - 1 in
      let '(b1, i1, fx1, dn1, ev1) :=
        if gen_emit_cond p1 then
          let frame := firstn (S (pos s)) (buf s) in
          let rest := skipn (S (pos s)) (buf s) in
          let '(fx', dn', e) := parse_and_execute (fexit s) (done s) frame in
          (rest, 0%nat, fx', dn', e)                      (* i = -1, then i++ *)
        else (buf s, S (pos s), fexit s, done s, []) in
      if gen_unbal_cond p1 then (mkPst b1 i1 p1 f' fx1 true (bufsz s), ev1 ++ [EUnbal])
      else (mkPst b1 i1 p1 f' fx1 dn1 (bufsz s), ev1)
    else (mkPst (buf s) (S (pos s)) (par s) f' (fexit s) (done s) (bufsz s), []).

  (* for (; i < rd_head; i++) *)
  Fixpoint scan_loop (fuel : nat) (s : pst) : pst * list event :=
    match fuel with
    | O => (s, [])
    | S k => match nth_error (buf s) (pos s) with
             | None => (s, [])
             | Some c => let '(s1, e1) := on_char s c in
                         let '(s2, e2) := scan_loop k s1 in (s2, e1 ++ e2)
             end
    end.

  (* buffer growth and the size asked of read *)
  Definition grown (s : pst) : Z := if Z.of_nat (length (buf s)) =? bufsz s - 1 then 2 * bufsz s else bufsz s.
  Definition request (s : pst) : Z := grown s - Z.of_nat (length (buf s)) - 1.

  (* one iteration of the while loop with a non-empty read result *)
  Definition feed (s : pst) (chunk : text) : pst * list event :=
    let s1 := mkPst (buf s ++ chunk) (pos s) (par s) (fl s) (fexit s) (done s) (grown s) in
    scan_loop (length (buf s1) - pos s1) s1.

  Fixpoint run_from (s : pst) (cs : list text) : pst * list event :=
    match cs with
    | [] => (s, [])
    | c :: r =>
        if done s then (s, [])
        else match c with
             | [] => (s, [])                                  (* bts_rd == 0: EOF *)
             | _ => let '(s1, e1) := feed s c in
                    let '(s2, e2) := run_from s1 r in (s2, e1 ++ e2)
             end
    end.

  Definition pipe_events (cs : list text) : list event := snd (run_from pst0 cs).

  (* the reads a process can really see: read never returns more than it was asked for *)
  Fixpoint feasible_from (s : pst) (cs : list text) : Prop :=
    match cs with
    | [] => True
    | c :: r => (0 < Z.of_nat (length c) <= request s) /\ feasible_from (fst (feed s c)) r
    end.

  (* The environment: a writer hands over its chunks one at a time and waits until each has been read
     (harness/pipe_feed.py); a read returns at most `request` bytes, so a chunk longer than that arrives
     in pieces.  [read_pieces] is the list of read results the process sees. *)
  Fixpoint pieces_of (fuel : nat) (s : pst) (w : text) : pst * list text :=
    match fuel with
    | O => (s, [])
    | S k =>
        match w with
        | [] => (s, [])
        | _ => if done s then (s, [])
               else let n := Z.to_nat (request s) in
                    let piece := firstn n w in
                    let '(s1, _) := feed s piece in
                    let '(s2, ps) := pieces_of k s1 (skipn n w) in (s2, piece :: ps)
        end
    end.

  Fixpoint read_pieces_from (s : pst) (ws : list text) : list text :=
    match ws with
    | [] => []
    | w :: r => let '(s1, ps) := pieces_of (length w) s w in ps ++ read_pieces_from s1 r
    end.
  Definition read_pieces (ws : list text) : list text := read_pieces_from pst0 ws.

  (* ------------------------------------------------------------------------------------------
     The same scanner as a machine over single characters (no buffer indices, no chunks).
     ------------------------------------------------------------------------------------------ *)
  Record sst := mkS { pend : text; spar : Z; sfl : flags; sfexit : bool; sdone : bool }.
  Definition sst0 : sst := mkS [] 0 flags0 false false.

  Definition sstep (s : sst) (c : ascii) : sst * list event :=
    let '(f', cont) := gen_flag_step (sfl s) c in
    let pend' := pend s ++ [c] in
    if cont then (mkS pend' (spar s) f' (sfexit s) (sdone s), [])
    else if Ascii.eqb c ch_lp then (mkS pend' (spar s + 1) f' (sfexit s) (sdone s), [])
    else if Ascii.eqb c ch_rp then
      let p1 := spar s - 1 in
      let '(b1, fx1, dn1, ev1) :=
        if gen_emit_cond p1 then
          let '(fx', dn', e) := parse_and_execute (sfexit s) (sdone s) pend' in
          ([], fx', dn', e)
        else (pend', sfexit s, sdone s, []) in
      if gen_unbal_cond p1 then (mkS b1 p1 f' fx1 true, ev1 ++ [EUnbal])
      else (mkS b1 p1 f' fx1 dn1, ev1)
    else (mkS pend' (spar s) f' (sfexit s) (sdone s), []).

  Fixpoint sfold (s : sst) (t : text) : sst * list event :=
    match t with
    | [] => (s, [])
    | c :: r => let '(s1, e1) := sstep s c in let '(s2, e2) := sfold s1 r in (s2, e1 ++ e2)
    end.

  (* the events of the character machine over a whole text *)
  Definition stream_events (t : text) : list event := snd (sfold sst0 t).

  (* an event after which the reader loop will not read again (done becomes true) *)
  Definition stops (e : event) : bool :=
    match e with
    | EUnbal => true
    | EExec t => exits t
    | ESkip _ => true
    | _ => false
    end.

  (* the events up to and including the first stopping one *)
  Fixpoint cut (es : list event) : list event :=
    match es with
    | [] => []
    | e :: r => if stops e then [e] else e :: cut r
    end.

  Definition executed (es : list event) : list text :=
    flat_map (fun e => match e with EExec t => [t] | _ => [] end) es.

  (* ------------------------------------------------------------------------------------------
     File mode: interpFile parses the whole file (one parser call, lexer ECHO happens here), then
     execute() runs the commands in order while f_exit is not set.  A parse error prints the
     parser's message and executes nothing (and does not clear okStatus: property C18).
     ------------------------------------------------------------------------------------------ *)
  Variable parse_file_ok : text -> bool.

  (* for (; i != end && !f_exit; i++) interp(i-th command) *)
  Fixpoint execute_loop (fx : bool) (cmds : list text) : list event :=
    match cmds with
    | [] => []
    | t :: r => if fx then [] else EExec t :: execute_loop (fx || exits t) r
    end.

  Definition file_events (s : text) : list event :=
    if parse_file_ok s then lexecho s ++ execute_loop false (file_commands s)
    else [ESyntax s].

  (* the prefix of a command list up to and including the first exit *)
  Fixpoint upto_exit (cmds : list text) : list text :=
    match cmds with
    | [] => []
    | t :: r => if exits t then [t] else t :: upto_exit r
    end.
End Scanner.

(* ---------------------------------------------------------------------------------------------
   A concrete [exits] for the extracted model: the text is one command `( exit )` with arbitrary
   white space and comments around the tokens (the only form the grammar accepts, .yy `'(' TK_EXIT ')'`).
   --------------------------------------------------------------------------------------------- *)
Fixpoint skip_triv (in_comment : bool) (t : text) : text :=
  match t with
  | [] => []
  | c :: r => if in_comment then skip_triv (negb (Ascii.eqb c ch_nl)) r
              else if is_ws c then skip_triv false r
              else if Ascii.eqb c ch_semi then skip_triv true r
              else t
  end.
Definition skip_trivia (t : text) : text := skip_triv false t.

Fixpoint starts_with (p t : text) : option text :=
  match p, t with
  | [], _ => Some t
  | a :: p', b :: t' => if Ascii.eqb a b then starts_with p' t' else None
  | _ :: _, [] => None
  end.

Definition exit_word : text := ["e"; "x"; "i"; "t"]%char.

Definition is_exit_command (t : text) : bool :=
  match skip_trivia t with
  | c :: r =>
      if Ascii.eqb c ch_lp then
        match starts_with exit_word (skip_trivia r) with
        | Some r2 =>
            match skip_trivia r2 with
            | d :: r3 => Ascii.eqb d ch_rp
                         && (match r2 with e :: _ => is_ws e || Ascii.eqb e ch_semi || Ascii.eqb e ch_rp | [] => false end)
                         && (match skip_trivia r3 with [] => true | _ => false end)
            | [] => false
            end
        | None => false
        end
      else false
  | [] => false
  end.
