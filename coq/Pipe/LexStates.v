(* C20: the lexer's view (DQ stands for the double-quote character in these comments)
   the lexer's view of a script text (src/parsers/smt2new/smt2newlexer.ll), at the level that
   decides where commands begin and end.  Definitions only.

   Start conditions of the .ll file and the rules that switch between them:
     INITIAL   \;.*            comment up to (not including) the next newline          (.ll:65)
               \DQ              yy_push_state(STR)                                      (.ll:148)
               \|              yy_push_state(PSYM)                                     (.ll:161)
               [()]            the only rule producing the tokens '(' and ')'          (.ll:146)
     <STR>     \\\DQ  \\\\      two-character escapes, do not end the literal           (.ll:154-155)
               [^\\\n\DQ] [ ] [\t] \n   ordinary characters                             (.ll:151-156)
               \DQ              end of the literal, yy_pop_state                        (.ll:157)
               a backslash followed by anything else matches no <STR> rule: flex's default
               rule ECHOes the backslash to yyout (= stdout) *at lexing time* and the literal
               continues with the next character
     <PSYM>    \|              end of the quoted symbol                                (.ll:168)
               \\              printf('Syntax error ...') and exit(1)                  (.ll:170)
               anything else   ordinary character
   The two-character rules are modelled by the extra mode [LStrEsc] = 'inside a string literal, the
   previous character was an unconsumed backslash'. *)
From Coq Require Import List Ascii Bool ZArith.
From OsmtV.Pipe Require Import PipeBase Gen_LexRules.
Import ListNotations.
Local Open Scope Z_scope.

Inductive lmode := LInit | LComment | LStr | LStrEsc | LPsym.

Definition lmode_eqb (a b : lmode) : bool :=
  match a, b with
  | LInit, LInit | LComment, LComment | LStr, LStr | LStrEsc, LStrEsc | LPsym, LPsym => true
  | _, _ => false
  end.

Definition lex_step (m : lmode) (c : ascii) : lmode :=
  match m with
  | LInit => if Ascii.eqb c ch_semi then LComment
             else if Ascii.eqb c ch_dq then LStr
             else if Ascii.eqb c ch_bar then LPsym else LInit
  | LComment => if Ascii.eqb c ch_nl then LInit else LComment
  | LStr => if Ascii.eqb c ch_dq then LInit else if Ascii.eqb c ch_bs then LStrEsc else LStr
  | LStrEsc => LStr
  | LPsym => if Ascii.eqb c ch_bar then LInit else LPsym
  end.

(* the pipe scanner's flag logic, read as a machine over the same five modes; [esc] says whether the
   scanner has an escape state inside string literals (the unchanged tree: no).  The boolean is the
   scanner's `continue` (character not looked at by the parenthesis counter).  Pipe/PipeProofs.v proves
   that the flag update regenerated from the C++ text (Gen_PipeFlags.gen_flag_step) is this machine. *)
Definition scan_mode_step (esc : bool) (m : lmode) (c : ascii) : lmode * bool :=
  match m with
  | LInit => if Ascii.eqb c ch_semi then (LComment, true)
             else if Ascii.eqb c ch_bar then (LPsym, true)
             else if Ascii.eqb c ch_dq then (LStr, true) else (LInit, false)
  | LComment => if Ascii.eqb c ch_nl then (LInit, false) else (LComment, true)
  | LPsym => if Ascii.eqb c ch_bar then (LInit, false) else (LPsym, true)
  | LStr => if esc && Ascii.eqb c ch_bs then (LStrEsc, true)
            else if Ascii.eqb c ch_dq then (LInit, false) else (LStr, true)
  | LStrEsc => (LStr, true)
  end.

Definition mode_flags (m : lmode) : flags :=
  match m with
  | LInit => mkFlags false false false false
  | LComment => mkFlags true false false false
  | LPsym => mkFlags false true false false
  | LStr => mkFlags false false true false
  | LStrEsc => mkFlags false false true true
  end.

(* ---------------------------------------------------------------------------------------------
   Commands of a file as the lexer delimits them: a command ends at a ')' token (a ')' read in
   INITIAL) that brings the nesting depth back to 0; its text is everything since the end of the
   previous command (leading white space and comments included: they produce no tokens).
   --------------------------------------------------------------------------------------------- *)
Record fstate := mkF { f_mode : lmode; f_depth : Z; f_cur : text }.
Definition fstate0 : fstate := mkF LInit 0 [].

Definition file_step (s : fstate) (c : ascii) : fstate * list text :=
  let m' := lex_step (f_mode s) c in
  let cur' := f_cur s ++ [c] in
  match f_mode s with
  | LInit =>
      if Ascii.eqb c ch_lp then (mkF m' (f_depth s + 1) cur', [])
      else if Ascii.eqb c ch_rp then
        if f_depth s - 1 =? 0 then (mkF m' 0 [], [cur']) else (mkF m' (f_depth s - 1) cur', [])
      else (mkF m' (f_depth s) cur', [])
  | _ => (mkF m' (f_depth s) cur', [])
  end.

Fixpoint file_fold (s : fstate) (t : text) : fstate * list text :=
  match t with
  | [] => (s, [])
  | c :: r => let '(s1, o1) := file_step s c in let '(s2, o2) := file_fold s1 r in (s2, o1 ++ o2)
  end.

Definition file_commands (t : text) : list text := snd (file_fold fstate0 t).

(* ---------------------------------------------------------------------------------------------
   Validity at the level of the lexer modes and of nesting ('the text can be a sequence of
   parenthesised commands'), and the two string-literal features the pipe scanner may not know.
   --------------------------------------------------------------------------------------------- *)
(* the white-space rule of the .ll file, regenerated (Gen_LexRules.gen_ws_chars) *)
Definition is_ws (c : ascii) : bool := existsb (Ascii.eqb c) gen_ws_chars.

(* one character is acceptable in lexer mode m at depth d *)
Definition char_ok (m : lmode) (d : Z) (c : ascii) : bool :=
  negb (Ascii.eqb c ch_nul) &&
  match m with
  | LInit => if Ascii.eqb c ch_rp then 0 <? d
             else if d =? 0 then is_ws c || Ascii.eqb c ch_semi || Ascii.eqb c ch_lp   (* nothing but commands at top level *)
             else true
  | LPsym => negb (gen_psym_backslash_fatal && Ascii.eqb c ch_bs)                      (* .ll:170: exit(1) *)
  | _ => true
  end.

Definition depth_step (m : lmode) (d : Z) (c : ascii) : Z :=
  match m with
  | LInit => if Ascii.eqb c ch_lp then d + 1 else if Ascii.eqb c ch_rp then d - 1 else d
  | _ => d
  end.

Fixpoint lex_valid_from (m : lmode) (d : Z) (t : text) : bool :=
  match t with
  | [] => (d =? 0) && (lmode_eqb m LInit || lmode_eqb m LComment)
  | c :: r => char_ok m d c && lex_valid_from (lex_step m c) (depth_step m d c) r
  end.
Definition lex_valid (t : text) : bool := lex_valid_from LInit 0 t.

(* the lexer never takes the backslash-DQ escape (the quote after a backslash inside a string literal) *)
Fixpoint no_escaped_quote_from (m : lmode) (t : text) : bool :=
  match t with
  | [] => true
  | c :: r => negb (lmode_eqb m LStrEsc && Ascii.eqb c ch_dq) && no_escaped_quote_from (lex_step m c) r
  end.
Definition no_escaped_quote (t : text) : bool := no_escaped_quote_from LInit t.

(* characters the lexer ECHOes to stdout while reading the text: a backslash inside a string
   literal that is followed by neither DQ nor backslash (flex default rule; Gen_LexRules says whether
   the .ll file still has no <STR> rule for a single backslash) *)
Fixpoint lex_echo_from (m : lmode) (t : text) : text :=
  match t with
  | [] => []
  | c :: r =>
      (if gen_lone_backslash_echo && lmode_eqb m LStrEsc && negb (Ascii.eqb c ch_dq) && negb (Ascii.eqb c ch_bs)
       then [ch_bs] else [])
      ++ lex_echo_from (lex_step m c) r
  end.
Definition lex_echo (t : text) : text := lex_echo_from LInit t.
