(* C20: shared base of the pipe-scanner model: texts are lists of bytes (Coq [ascii]), the scanner's
   flag state is a record of four booleans.

   Interpret::interpPipe (src/api/Interpret.cc) declares three flags
       bool inComment = false;  bool inString = false;  bool inQuotedSymbol = false;
   The record has a fourth field [fE] for one further flag (an escape state inside string literals,
   which the unchanged tree does not have: there the field is never set).  translate/pipe_flags.py
   maps the declared flags to the fields by name and refuses anything it cannot map. *)
From Coq Require Import List Ascii Bool.
Import ListNotations.

Definition text := list ascii.

Record flags := mkFlags { fC : bool; fQ : bool; fS : bool; fE : bool }.
Definition flags0 : flags := mkFlags false false false false.

Definition flags_eqb (a b : flags) : bool :=
  Bool.eqb (fC a) (fC b) && Bool.eqb (fQ a) (fQ b) && Bool.eqb (fS a) (fS b) && Bool.eqb (fE a) (fE b).

(* characters the scanner and the lexer look at *)
Definition ch_nl : ascii := "010"%char.
Definition ch_semi : ascii := ";"%char.
Definition ch_bar : ascii := "|"%char.
Definition ch_dq : ascii := """"%char.
Definition ch_bs : ascii := "\"%char.
Definition ch_lp : ascii := "("%char.
Definition ch_rp : ascii := ")"%char.
Definition ch_nul : ascii := "000"%char.
Definition ch_sp : ascii := " "%char.
Definition ch_tab : ascii := "009"%char.
