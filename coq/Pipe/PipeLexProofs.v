(* C20: the pipe scanner against the lexer's view of the same text.
   E. simulation: frames of the scanner = commands of the file (under the exact flag-level guard)
   F. events of a valid script, executed commands, lexer ECHO, exit *)
From Coq Require Import List Ascii Bool ZArith Lia.
From OsmtV.Pipe Require Import PipeBase Gen_PipeFlags LexStates PipeModel PipeProofs.
Import ListNotations.
Local Open Scope Z_scope.

(* the scanner mode that corresponds to a lexer mode *)
Definition smode (esc : bool) (ml : lmode) : lmode :=
  if esc then ml else match ml with LStrEsc => LStr | m => m end.

Lemma smode_reach : forall esc ml, esc = true \/ smode esc ml <> LStrEsc.
Proof. intros [] ml; [left; reflexivity | right; destruct ml; simpl; discriminate]. Qed.

(* one character: unless the lexer takes the backslash-quote escape and the scanner has no escape state, the
   scanner's mode follows the lexer's, and a parenthesis is counted by the scanner exactly when the
   lexer reads it in INITIAL *)
Lemma step_sim : forall esc ml c,
  (esc = true \/ (lmode_eqb ml LStrEsc && Ascii.eqb c ch_dq) = false) ->
  fst (scan_mode_step esc (smode esc ml) c) = smode esc (lex_step ml c) /\
  ((Ascii.eqb c ch_lp || Ascii.eqb c ch_rp) = true ->
   snd (scan_mode_step esc (smode esc ml) c) = negb (lmode_eqb ml LInit)).
Proof.
  intros esc ml c H.
  destruct esc; destruct ml; destruct c as [[] [] [] [] [] [] [] []];
    first [ split; [ reflexivity | vm_compute; intro X; first [ reflexivity | discriminate X ] ]
          | exfalso; destruct H as [H | H]; vm_compute in H; discriminate H ].
Qed.

Lemma frame_texts_app : forall a b, frame_texts (a ++ b) = frame_texts a ++ frame_texts b.
Proof. intros. unfold frame_texts. apply flat_map_app. Qed.

Lemma frame_texts_lexecho : forall t, frame_texts (lexecho t) = [].
Proof. intro t. unfold lexecho. destruct (lex_echo t); reflexivity. Qed.

Section Sim.
  Variable parse_ok : text -> bool.
  Variable exits : text -> bool.
  Notation sstep := (sstep parse_ok exits).
  Notation sfold := (sfold parse_ok exits).
  Notation esc := gen_has_string_escape.

  Definition SimRel (ss : sst) (fs : fstate) : Prop :=
    sfl ss = mode_flags (smode esc (f_mode fs)) /\ spar ss = f_depth fs /\ pend ss = f_cur fs.

  Lemma pae_frame_texts : forall fx dn frame,
    frame_texts (snd (parse_and_execute parse_ok exits fx dn frame)) = [cstring frame].
  Proof.
    intros. unfold parse_and_execute. destruct (parse_ok (cstring frame)); simpl.
    - rewrite frame_texts_app, frame_texts_lexecho. destruct fx; reflexivity.
    - reflexivity.
  Qed.

  Lemma sstep_sim : forall ss fs c,
    SimRel ss fs ->
    (esc = true \/ (lmode_eqb (f_mode fs) LStrEsc && Ascii.eqb c ch_dq) = false) ->
    SimRel (fst (sstep ss c)) (fst (file_step fs c)) /\
    frame_texts (snd (sstep ss c)) = map cstring (snd (file_step fs c)).
  Proof.
    intros ss fs c (Hfl & Hpar & Hpend) G.
    unfold sstep, file_step, SimRel.
    rewrite Hfl, Hpar, Hpend.
    rewrite (gen_step_modes _ c (smode_reach esc (f_mode fs))).
    destruct (step_sim esc (f_mode fs) c G) as [Hm Hp].
    rewrite Hm. rewrite emit_cond_spec, unbal_cond_spec.
    destruct (Ascii.eqb c ch_lp) eqn:Elp.
    - (* '(' *)
      rewrite (Hp eq_refl).
      destruct (f_mode fs); simpl; auto.
    - destruct (Ascii.eqb c ch_rp) eqn:Erp.
      + rewrite (Hp eq_refl).
        destruct (f_mode fs) eqn:Em; simpl; auto.
        destruct (f_depth fs - 1 =? 0) eqn:E0.
        * apply Z.eqb_eq in E0. rewrite E0.
          destruct (parse_and_execute parse_ok exits (sfexit ss) (sdone ss) (f_cur fs ++ [c])) as [[fx' dn'] e] eqn:Epae.
          assert (Hft : frame_texts e = [cstring (f_cur fs ++ [c])]).
          { pose proof (pae_frame_texts (sfexit ss) (sdone ss) (f_cur fs ++ [c])) as X. rewrite Epae in X. exact X. }
          simpl. auto.
        * destruct (f_depth fs - 1 <? 0); simpl; auto.
      + (* neither: the parenthesis branch is never taken, whatever `continue` says *)
        destruct (snd (scan_mode_step esc (smode esc (f_mode fs)) c)); destruct (f_mode fs); simpl; auto.
  Qed.

  Fixpoint guard_from (m : lmode) (t : text) : Prop :=
    match t with
    | [] => True
    | c :: r => (esc = true \/ (lmode_eqb m LStrEsc && Ascii.eqb c ch_dq) = false) /\ guard_from (lex_step m c) r
    end.

  Lemma file_step_mode : forall fs c, f_mode (fst (file_step fs c)) = lex_step (f_mode fs) c.
  Proof.
    intros fs c. unfold file_step.
    destruct (f_mode fs); simpl; try reflexivity.
    destruct (Ascii.eqb c ch_lp); [reflexivity |].
    destruct (Ascii.eqb c ch_rp); [| reflexivity].
    destruct (f_depth fs - 1 =? 0); reflexivity.
  Qed.

  Lemma sfold_sim : forall t ss fs,
    SimRel ss fs -> guard_from (f_mode fs) t ->
    frame_texts (snd (sfold ss t)) = map cstring (snd (file_fold fs t)).
  Proof.
    induction t as [| c t IH]; intros ss fs HR HG; simpl.
    - reflexivity.
    - destruct HG as [G HG'].
      destruct (sstep_sim ss fs c HR G) as [HR1 He].
      pose proof (file_step_mode fs c) as Hm.
      destruct (sstep ss c) as [ss1 e1]. destruct (file_step fs c) as [fs1 o1]. simpl in *.
      rewrite <- Hm in HG'.
      pose proof (IH ss1 fs1 HR1 HG') as H2.
      destruct (sfold ss1 t) as [ss2 e2]. destruct (file_fold fs1 t) as [fs2 o2]. simpl in *.
      rewrite frame_texts_app, map_app, He, H2. reflexivity.
  Qed.

  Lemma guard_of_bool : forall t m,
    (esc = true \/ no_escaped_quote_from m t = true) -> guard_from m t.
  Proof.
    induction t as [| c t IH]; intros m H; simpl; [exact I |].
    destruct H as [H | H].
    - split; [left; exact H | apply IH; left; exact H].
    - simpl in H. apply andb_true_iff in H. destruct H as [H1 H2].
      split; [right; apply negb_true_iff; exact H1 | apply IH; right; exact H2].
  Qed.

  Lemma SimRel0 : SimRel sst0 fstate0.
  Proof. unfold SimRel, sst0, fstate0, smode. simpl. destruct esc; auto. Qed.

  (* E. the frames handed to the parser are the file's commands *)
  Lemma stream_frames_eq_file : forall s,
    (esc = true \/ no_escaped_quote s = true) ->
    frame_texts (stream_events parse_ok exits s) = map cstring (file_commands s).
  Proof.
    intros s G. unfold stream_events, file_commands.
    apply sfold_sim; [exact SimRel0 | apply guard_of_bool; exact G].
  Qed.

  (* -------------------------------------------------------------------------------------------
     F. valid scripts: the exact event sequence
     ------------------------------------------------------------------------------------------- *)
  Fixpoint pipe_ideal (fx : bool) (cmds : list text) : list event :=
    match cmds with
    | [] => []
    | t :: r => lexecho t ++ [if fx then ESkip t else EExec t] ++ pipe_ideal (fx || exits t) r
    end.

  Lemma cstring_nonul : forall t, forallb (fun c => negb (Ascii.eqb c ch_nul)) t = true -> cstring t = t.
  Proof.
    induction t as [| c t IH]; intro H; simpl in *; [reflexivity |].
    apply andb_true_iff in H. destruct H as [H1 H2].
    apply negb_true_iff in H1. rewrite H1. f_equal. apply IH. exact H2.
  Qed.

  Definition nonul (t : text) : bool := forallb (fun c => negb (Ascii.eqb c ch_nul)) t.

  Lemma nonul_app1 : forall t c, nonul t = true -> Ascii.eqb c ch_nul = false -> nonul (t ++ [c]) = true.
  Proof. intros. unfold nonul. rewrite forallb_app. simpl. unfold nonul in H. rewrite H, H0. reflexivity. Qed.

  Lemma sstep_valid : forall ss fs c,
    SimRel ss fs -> nonul (f_cur fs) = true ->
    (esc = true \/ (lmode_eqb (f_mode fs) LStrEsc && Ascii.eqb c ch_dq) = false) ->
    char_ok (f_mode fs) (f_depth fs) c = true ->
    Forall (fun t => parse_ok t = true) (snd (file_step fs c)) ->
    SimRel (fst (sstep ss c)) (fst (file_step fs c)) /\
    nonul (f_cur (fst (file_step fs c))) = true /\
    f_depth (fst (file_step fs c)) = depth_step (f_mode fs) (f_depth fs) c /\
    sdone (fst (sstep ss c)) = (if existsb (fun _ => true) (snd (file_step fs c)) then sfexit (fst (sstep ss c)) else sdone ss) /\
    sfexit (fst (sstep ss c)) = fold_left (fun b t => b || exits t) (snd (file_step fs c)) (sfexit ss) /\
    snd (sstep ss c) = pipe_ideal (sfexit ss) (snd (file_step fs c)).
  Proof.
    intros ss fs c HR HN G HC HP.
    destruct (sstep_sim ss fs c HR G) as [HR1 _]. split; [exact HR1 |]. clear HR1.
    destruct HR as (Hfl & Hpar & Hpend).
    unfold char_ok in HC. apply andb_true_iff in HC. destruct HC as [Hnul HC].
    apply negb_true_iff in Hnul.
    pose proof (nonul_app1 (f_cur fs) c HN Hnul) as HN1.
    revert HP. unfold sstep, file_step, depth_step.
    rewrite Hfl, Hpar, Hpend.
    rewrite (gen_step_modes _ c (smode_reach esc (f_mode fs))).
    destruct (step_sim esc (f_mode fs) c G) as [Hm Hp].
    rewrite emit_cond_spec, unbal_cond_spec.
    destruct (Ascii.eqb c ch_lp) eqn:Elp.
    - rewrite (Hp eq_refl). destruct (f_mode fs); simpl; auto 10.
    - destruct (Ascii.eqb c ch_rp) eqn:Erp.
      + rewrite (Hp eq_refl).
        destruct (f_mode fs) eqn:Em; simpl; auto 10.
        apply Z.ltb_lt in HC.
        destruct (f_depth fs - 1 =? 0) eqn:E0.
        * apply Z.eqb_eq in E0. rewrite E0. intro HP. inversion HP as [| ? ? Hpok _]; subst.
          unfold parse_and_execute. rewrite (cstring_nonul _ HN1). rewrite Hpok.
          simpl. auto 10.
        * intros _. assert (Hlt : (f_depth fs - 1 <? 0) = false) by (apply Z.ltb_ge; lia).
          rewrite Hlt. simpl. auto 10.
      + destruct (snd (scan_mode_step esc (smode esc (f_mode fs)) c)); destruct (f_mode fs); simpl; auto 10.
  Qed.

  Lemma pipe_ideal_app : forall a b fx,
    pipe_ideal fx (a ++ b) = pipe_ideal fx a ++ pipe_ideal (fold_left (fun b t => b || exits t) a fx) b.
  Proof.
    induction a as [| t a IH]; intros b fx; simpl; [reflexivity |].
    rewrite IH. rewrite <- !app_assoc. reflexivity.
  Qed.

  Lemma sfold_valid : forall t ss fs,
    SimRel ss fs -> nonul (f_cur fs) = true -> guard_from (f_mode fs) t ->
    lex_valid_from (f_mode fs) (f_depth fs) t = true ->
    Forall (fun x => parse_ok x = true) (snd (file_fold fs t)) ->
    snd (sfold ss t) = pipe_ideal (sfexit ss) (snd (file_fold fs t)).
  Proof.
    induction t as [| c t IH]; intros ss fs HR HN HG HV HP; simpl.
    - reflexivity.
    - destruct HG as [G HG']. simpl in HV. apply andb_true_iff in HV. destruct HV as [HC HV'].
      simpl in HP.
      pose proof (file_step_mode fs c) as Hm.
      pose proof (sstep_valid ss fs c HR HN G HC) as SV.
      destruct (sstep ss c) as [ss1 e1]. destruct (file_step fs c) as [fs1 o1]. simpl in *.
      destruct (file_fold fs1 t) as [fs2 o2] eqn:Eff. simpl in HP.
      apply Forall_app in HP. destruct HP as [HP1 HP2].
      destruct (SV HP1) as (HR1 & HN1 & Hd1 & _ & Hfx1 & He1).
      rewrite <- Hm in HG', HV'. rewrite <- Hd1 in HV'.
      pose proof (IH ss1 fs1 HR1 HN1 HG' HV') as H2. rewrite Eff in H2. simpl in H2.
      specialize (H2 HP2).
      destruct (sfold ss1 t) as [ss2 e2]. simpl in *.
      rewrite pipe_ideal_app, He1, H2, Hfx1. reflexivity.
  Qed.

  Definition all_parse_ok (s : text) : Prop := Forall (fun x => parse_ok x = true) (file_commands s).

  Lemma stream_events_valid : forall s,
    lex_valid s = true -> (esc = true \/ no_escaped_quote s = true) -> all_parse_ok s ->
    stream_events parse_ok exits s = pipe_ideal false (file_commands s).
  Proof.
    intros s HV G HP. unfold stream_events, file_commands.
    apply (sfold_valid s sst0 fstate0 SimRel0); auto.
    apply guard_of_bool; exact G.
  Qed.

  Notation executed := PipeModel.executed.
  Notation upto_exit := (upto_exit exits).

  Lemma executed_pipe_ideal : forall cmds fx,
    executed (pipe_ideal fx cmds) = if fx then [] else upto_exit cmds.
  Proof.
    induction cmds as [| t r IH]; intros fx; simpl.
    - destruct fx; reflexivity.
    - rewrite executed_app, lexecho_noexec.
      destruct fx; unfold PipeModel.executed; simpl; fold PipeModel.executed; rewrite IH; simpl.
      + reflexivity.
      + destruct (exits t); reflexivity.
  Qed.

  Lemma pipe_ideal_no_unbal : forall cmds fx, ~ In EUnbal (pipe_ideal fx cmds).
  Proof.
    induction cmds as [| t r IH]; intros fx; simpl; [tauto |].
    intro H. apply in_app_or in H. destruct H as [H | H].
    - unfold lexecho in H. destruct (lex_echo t); simpl in H; [tauto | destruct H; [discriminate | tauto]].
    - simpl in H. destruct H as [H | H]; [destruct fx; discriminate | exact (IH _ H)].
  Qed.

  Lemma executed_execute_loop : forall cmds fx,
    executed (execute_loop exits fx cmds) = if fx then [] else upto_exit cmds.
  Proof.
    induction cmds as [| t r IH]; intros fx; simpl.
    - destruct fx; reflexivity.
    - destruct fx; simpl; [reflexivity |]. rewrite IH. destruct (exits t); reflexivity.
  Qed.

  (* the commands pipe mode executes, for every way the text arrives *)
  Lemma pipe_executed_valid : forall cs,
    no_empty cs -> lex_valid (concat cs) = true ->
    (esc = true \/ no_escaped_quote (concat cs) = true) -> all_parse_ok (concat cs) ->
    executed (pipe_events parse_ok exits cs) = upto_exit (file_commands (concat cs)).
  Proof.
    intros cs HN HV G HP.
    pose proof (stream_events_valid (concat cs) HV G HP) as HS.
    rewrite pipe_executed_stream; auto.
    - rewrite HS. apply executed_pipe_ideal.
    - rewrite HS. apply pipe_ideal_no_unbal.
  Qed.

  Lemma file_executed : forall parse_file_ok s,
    parse_file_ok s = true ->
    executed (file_events exits parse_file_ok s) = upto_exit (file_commands s).
  Proof.
    intros pf s H. unfold file_events. rewrite H.
    rewrite executed_app, lexecho_noexec. simpl. apply executed_execute_loop.
  Qed.

  (* -------------------------------------------------------------------------------------------
     lexer ECHO is compositional over commands
     ------------------------------------------------------------------------------------------- *)
  Definition mode_after (m : lmode) (t : text) : lmode := fold_left lex_step t m.

  Lemma lex_echo_from_app : forall a b m,
    lex_echo_from m (a ++ b) = lex_echo_from m a ++ lex_echo_from (mode_after m a) b.
  Proof.
    induction a as [| c a IH]; intros b m; simpl; [reflexivity |].
    rewrite IH, ?app_assoc. reflexivity.
  Qed.

  Lemma mode_after_app1 : forall t m c, mode_after m (t ++ [c]) = lex_step (mode_after m t) c.
  Proof. intros. unfold mode_after. rewrite fold_left_app. reflexivity. Qed.

  Definition FInv (fs : fstate) : Prop := f_mode fs = mode_after LInit (f_cur fs).

  Lemma file_step_inv : forall fs c,
    FInv fs ->
    FInv (fst (file_step fs c)) /\
    f_cur fs ++ [c] = concat (snd (file_step fs c)) ++ f_cur (fst (file_step fs c)) /\
    Forall (fun x => mode_after LInit x = LInit) (snd (file_step fs c)).
  Proof.
    intros fs c H. unfold FInv in *. unfold file_step.
    assert (M : lex_step (f_mode fs) c = mode_after LInit (f_cur fs ++ [c])) by (rewrite mode_after_app1, H; reflexivity).
    destruct (f_mode fs) eqn:Em; simpl; try (split; [exact M | split; [reflexivity | constructor]]).
    destruct (Ascii.eqb c ch_lp) eqn:Elp; [simpl; split; [exact M | split; [reflexivity | constructor]] |].
    destruct (Ascii.eqb c ch_rp) eqn:Erp; [| simpl; split; [exact M | split; [reflexivity | constructor]]].
    destruct (f_depth fs - 1 =? 0); simpl.
    - apply Ascii.eqb_eq in Erp. subst c.
      split; [reflexivity | split; [rewrite !app_nil_r; reflexivity |]].
      constructor; [| constructor]. rewrite <- M. reflexivity.
    - split; [exact M | split; [reflexivity | constructor]].
  Qed.

  Lemma file_fold_inv : forall t fs,
    FInv fs ->
    f_cur fs ++ t = concat (snd (file_fold fs t)) ++ f_cur (fst (file_fold fs t)) /\
    Forall (fun x => mode_after LInit x = LInit) (snd (file_fold fs t)).
  Proof.
    induction t as [| c t IH]; intros fs H; simpl.
    - rewrite app_nil_r. split; [reflexivity | constructor].
    - destruct (file_step_inv fs c H) as (H1 & H2 & H3).
      destruct (file_step fs c) as [fs1 o1]. simpl in *.
      destruct (IH fs1 H1) as (H4 & H5).
      destruct (file_fold fs1 t) as [fs2 o2]. simpl in *.
      split.
      + rewrite concat_app, <- app_assoc, <- H4, app_assoc, <- H2, <- app_assoc. reflexivity.
      + apply Forall_app. split; assumption.
  Qed.

  Lemma lex_echo_concat : forall cmds rest,
    Forall (fun x => mode_after LInit x = LInit) cmds ->
    lex_echo (concat cmds ++ rest) = concat (map lex_echo cmds) ++ lex_echo rest.
  Proof.
    induction cmds as [| t r IH]; intros rest H; simpl; [reflexivity |].
    inversion H as [| ? ? Ht Hr]; subst.
    unfold lex_echo at 1. rewrite <- app_assoc, lex_echo_from_app, Ht.
    fold (lex_echo (concat r ++ rest)). rewrite (IH rest Hr), <- app_assoc. reflexivity.
  Qed.

  Lemma lex_echo_commands : forall s,
    lex_echo s = [] -> Forall (fun t => lex_echo t = []) (file_commands s).
  Proof.
    intros s H. unfold file_commands.
    assert (F0 : FInv fstate0) by reflexivity.
    destruct (file_fold_inv s fstate0 F0) as [H1 H2]. simpl in H1.
    rewrite H1 in H. rewrite (lex_echo_concat _ _ H2) in H.
    apply app_eq_nil in H. destruct H as [H _].
    revert H. generalize (snd (file_fold fstate0 s)). induction l as [| t r IH]; intro H; [constructor |].
    simpl in H. apply app_eq_nil in H. destruct H as [Ha Hb]. constructor; [exact Ha | exact (IH Hb)].
  Qed.

  Lemma visible_app : forall a b, visible (a ++ b) = visible a ++ visible b.
  Proof. intros. unfold visible. apply filter_app. Qed.

  Definition plain (e : event) : Prop := match e with EExec _ | ESkip _ => True | _ => False end.

  Lemma sstep_fexit_visible : forall ss c, sfexit ss = true -> Forall plain (snd (sstep ss c)) ->
    sfexit (fst (sstep ss c)) = true /\ visible (snd (sstep ss c)) = [].
  Proof.
    intros ss c H. unfold sstep.
    destruct (gen_flag_step (sfl ss) c) as [f' cont].
    destruct cont; [simpl; auto |].
    destruct (Ascii.eqb c ch_lp); [simpl; auto |].
    destruct (Ascii.eqb c ch_rp); [| simpl; auto].
    destruct (gen_emit_cond (spar ss - 1)).
    - unfold parse_and_execute. rewrite H.
      destruct (parse_ok (cstring (pend ss ++ [c])));
        destruct (gen_unbal_cond (spar ss - 1)); simpl; intro HP.
      + apply Forall_app in HP. destruct HP as [_ HP]. inversion HP as [| ? ? X _]; subst. destruct X.
      + apply Forall_app in HP. destruct HP as [HP _].
        unfold lexecho in *. destruct (lex_echo (cstring (pend ss ++ [c]))); simpl in *; [auto |].
        inversion HP as [| ? ? X _]; subst. destruct X.
      + inversion HP as [| ? ? X _]; subst. destruct X.
      + inversion HP as [| ? ? X _]; subst. destruct X.
    - destruct (gen_unbal_cond (spar ss - 1)); simpl; intro HP; auto.
      inversion HP as [| ? ? X _]; subst. destruct X.
  Qed.

  Lemma sfold_fexit_visible : forall t ss, sfexit ss = true -> Forall plain (snd (sfold ss t)) ->
    visible (snd (sfold ss t)) = [].
  Proof.
    induction t as [| c t IH]; intros ss H HP; simpl; [reflexivity |].
    pose proof (sstep_fexit_visible ss c H) as H1.
    simpl in HP.
    destruct (sstep ss c) as [s1 e1]. simpl in *.
    pose proof (IH s1) as H3. destruct (sfold s1 t) as [s2 e2]. simpl in *.
    apply Forall_app in HP. destruct HP as [HP1 HP2].
    destruct (H1 HP1) as [H1a H1b].
    rewrite visible_app, H1b, (H3 H1a HP2). reflexivity.
  Qed.

  Lemma plain_no_unbal : forall es, Forall plain es -> ~ In EUnbal es.
  Proof. intros es H X. rewrite Forall_forall in H. exact (H _ X). Qed.

  Lemma run_visible : forall cs s ss,
    Rel s ss [] -> (sdone ss = true -> sfexit ss = true) -> no_empty cs ->
    Forall plain (snd (sfold ss (concat cs))) ->
    visible (snd (run_from parse_ok exits s cs)) = visible (snd (sfold ss (concat cs))).
  Proof.
    induction cs as [| c cs IH]; intros s ss HR HD HN HU.
    - reflexivity.
    - simpl. inversion HN as [| ? ? Hc HN']; subst.
      destruct (done s) eqn:Hd.
      + simpl. symmetry. apply sfold_fexit_visible; [| exact HU]. apply HD.
        destruct HR as (_ & _ & _ & _ & _ & Hdn). congruence.
      + destruct c as [| a c']; [congruence |].
        remember (a :: c') as ch eqn:Ech. clear Ech Hc.
        destruct (feed_rel parse_ok exits s ss ch HR) as (He & HR1 & _).
        simpl concat in HU. rewrite sfold_app in HU. rewrite sfold_app.
        pose proof (sfold_done_fexit parse_ok exits ch ss HD) as HD1.
        destruct (feed parse_ok exits s ch) as [s1 e1].
        destruct (sfold ss ch) as [ss1 e1']. cbn [fst snd] in He, HR1, HD1, HU |- *. subst e1'.
        apply Forall_app in HU. destruct HU as [HU1 HU2].
        pose proof (IH s1 ss1 HR1 (HD1 (plain_no_unbal _ HU1)) HN' HU2) as IH1.
        destruct (run_from parse_ok exits s1 cs) as [s2 e2]. cbn [fst snd] in IH1 |- *.
        rewrite !visible_app. rewrite IH1. reflexivity.
  Qed.

  Lemma pipe_ideal_plain : forall cmds fx,
    Forall (fun t => lex_echo t = []) cmds -> Forall plain (pipe_ideal fx cmds).
  Proof.
    induction cmds as [| t r IH]; intros fx H; simpl; [constructor |].
    inversion H as [| ? ? Ht Hr]; subst.
    unfold lexecho. rewrite Ht. simpl. constructor; [destruct fx; exact I | apply IH; exact Hr].
  Qed.

  Lemma visible_pipe_ideal : forall cmds fx,
    Forall (fun t => lex_echo t = []) cmds ->
    visible (pipe_ideal fx cmds) = execute_loop exits fx cmds.
  Proof.
    induction cmds as [| t r IH]; intros fx H; simpl; [reflexivity |].
    inversion H as [| ? ? Ht Hr]; subst.
    unfold lexecho. rewrite Ht. simpl.
    destruct fx; simpl.
    - rewrite (IH true Hr). destruct r; reflexivity.
    - rewrite (IH _ Hr). reflexivity.
  Qed.

  (* pipe mode and file mode show the same things, in the same order *)
  Lemma pipe_visible_eq_file : forall parse_file_ok cs,
    no_empty cs -> lex_valid (concat cs) = true ->
    (esc = true \/ no_escaped_quote (concat cs) = true) -> lex_echo (concat cs) = [] ->
    all_parse_ok (concat cs) -> parse_file_ok (concat cs) = true ->
    visible (pipe_events parse_ok exits cs) = file_events exits parse_file_ok (concat cs).
  Proof.
    intros pf cs HN HV G HE HP HF.
    pose proof (stream_events_valid (concat cs) HV G HP) as HS.
    pose proof (lex_echo_commands _ HE) as HC.
    unfold pipe_events.
    rewrite (run_visible cs pst0 sst0 Rel0); auto.
    - fold (stream_events parse_ok exits (concat cs)). rewrite HS.
      rewrite (visible_pipe_ideal _ false HC).
      unfold file_events. rewrite HF. unfold lexecho. rewrite HE. reflexivity.
    - fold (stream_events parse_ok exits (concat cs)). rewrite HS. apply pipe_ideal_plain. exact HC.
  Qed.
End Sim.
