(* C20: concrete witnesses (refutations, non-vacuity) and the last glue lemmas.
   DQ in comments stands for the double-quote character. *)
From Coq Require Import List Ascii String Bool ZArith Lia.
From OsmtV.Pipe Require Import PipeBase Gen_PipeFlags Gen_LexRules LexStates PipeModel PipeProofs PipeLexProofs.
Import ListNotations.
Local Open Scope Z_scope.

Definition txt (s : string) : text := list_ascii_of_string s.

(* split conjunctions only (never try eq_refl by lazy conversion on big terms) *)
Ltac conj := repeat match goal with |- _ /\ _ => split end.

Definition all_ok : text -> bool := fun _ => true.

(* one read returning the whole text: the reader is the character machine *)
Lemma pipe_single : forall parse_ok exits s, s <> [] ->
  pipe_events parse_ok exits [s] = stream_events parse_ok exits s.
Proof.
  intros parse_ok exits s Hs. unfold pipe_events, stream_events. simpl.
  destruct s as [| a s']; [congruence |].
  remember (a :: s') as ch. clear Heqch Hs.
  destruct (feed_rel parse_ok exits pst0 sst0 ch Rel0) as (He & _ & _).
  destruct (feed parse_ok exits pst0 ch) as [s1 e1]. simpl in *. rewrite app_nil_r. exact He.
Qed.

Lemma lex_echo_from_fixed : gen_lone_backslash_echo = false -> forall t m, lex_echo_from m t = [].
Proof.
  intros H. induction t as [| c t IH]; intro m; [reflexivity |].
  cbn - [gen_lone_backslash_echo]. rewrite H. simpl. apply IH.
Qed.

(* ---------------------------------------------------------------------------------------------
   W1.  (echo DQ a \ DQ ( b DQ)(check-sat)  -- the escaped quote, DESIGN.md section 9 item 1
   --------------------------------------------------------------------------------------------- *)
Definition w_escq : text := txt "(set-logic QF_UF)(echo ""a\""(b"")(check-sat)".

Lemma w_escq_valid : lex_valid w_escq = true /\ lex_echo w_escq = [] /\ no_escaped_quote w_escq = false /\
  List.length (file_commands w_escq) = 3%nat.
Proof. conj; vm_compute; reflexivity. Qed.

(* the faithful scanner (no escape state) frames that text differently from the lexer: after the first
   command nothing is ever handed to the parser *)
Lemma pipe_eq_file_refuted_lemma :
  gen_has_string_escape = false ->
  exists s, lex_valid s = true /\ lex_echo s = [] /\
            frame_texts (pipe_events all_ok is_exit_command [s]) <> file_commands s /\
            executed (pipe_events all_ok is_exit_command [s]) <>
            executed (file_events is_exit_command all_ok s).
Proof.
  intro H.
  first [ solve [ vm_compute in H; discriminate H ]
        | exists w_escq; conj; first [ vm_compute; reflexivity | vm_compute; intro X; discriminate X ] ].
Qed.

(* an escaped quote does not always break the framing: the guard of pipe_eq_file is sufficient, not
   necessary *)
Definition w_escq_paired : text := txt "(echo ""a\""b\""c"")(echo ""q\\"")".
Lemma w_escq_paired_same :
  no_escaped_quote w_escq_paired = false /\
  frame_texts (pipe_events all_ok is_exit_command [w_escq_paired]) = file_commands w_escq_paired.
Proof. conj; vm_compute; reflexivity. Qed.

(* ---------------------------------------------------------------------------------------------
   W2.  (echo DQ x DQ)(echo DQ a \ b DQ)  -- a backslash followed by an ordinary character
   flex ECHOes the backslash while *lexing*: file mode lexes the whole file before executing anything
   --------------------------------------------------------------------------------------------- *)
Definition w_lonebs : text := txt "(echo ""x"")(echo ""a\b"")".

Lemma lone_backslash_refuted_lemma :
  gen_lone_backslash_echo = true ->
  exists s, lex_valid s = true /\ no_escaped_quote s = true /\
            frame_texts (pipe_events all_ok is_exit_command [s]) = file_commands s /\
            visible (pipe_events all_ok is_exit_command [s]) <> file_events is_exit_command all_ok s.
Proof.
  intro H.
  first [ solve [ vm_compute in H; discriminate H ]
        | exists w_lonebs; conj; first [ vm_compute; reflexivity | vm_compute; intro X; discriminate X ] ].
Qed.

(* ---------------------------------------------------------------------------------------------
   W3.  after a stopping event the rest of the *same* read is still scanned
   --------------------------------------------------------------------------------------------- *)
Lemma chunking_past_stop_refuted_lemma :
  exists cs cs', no_empty cs /\ no_empty cs' /\ List.concat cs = List.concat cs' /\
    pipe_events all_ok is_exit_command cs <> pipe_events all_ok is_exit_command cs'.
Proof.
  exists [txt "(exit))"], [txt "(exit)"; txt ")"].
  conj.
  - constructor; [discriminate | constructor].
  - constructor; [discriminate | constructor; [discriminate | constructor]].
  - vm_compute. reflexivity.
  - vm_compute. intro X. discriminate X.
Qed.

(* ---------------------------------------------------------------------------------------------
   W4.  non-vacuity: a valid script with adversarial layout, split inside tokens
   --------------------------------------------------------------------------------------------- *)
Definition nl : string := String "010"%char EmptyString.
Definition w_layout_s : string :=
  ("; a comment with ( and DQ " ++ nl ++
   "(set-logic QF_UF) ; ) |" ++ nl ++
   "(declare-fun |a;b(" ++ nl ++ " ""c| () Bool)(echo ""s;|)(""""|"")" ++ nl ++
   "(assert |a;b(" ++ nl ++ " ""c|)(check-sat)(exit)(echo ""not reached"")")%string.
Definition w_layout : text := txt w_layout_s.

Fixpoint chop (n : nat) (k : nat) (t : text) : list text :=
  match n with
  | O => match t with [] => [] | _ => [t] end
  | S n' => match t with
            | [] => []
            | _ => firstn k t :: chop n' k (skipn k t)
            end
  end.

Lemma w_layout_ok :
  lex_valid w_layout = true /\ no_escaped_quote w_layout = true /\ lex_echo w_layout = [] /\
  List.length (file_commands w_layout) = 7%nat /\
  List.length (executed (pipe_events all_ok is_exit_command (chop 400 1 w_layout))) = 6%nat /\
  executed (pipe_events all_ok is_exit_command (chop 400 1 w_layout)) =
  executed (pipe_events all_ok is_exit_command (chop 400 7 w_layout)) /\
  List.concat (chop 400 7 w_layout) = w_layout.
Proof. conj; vm_compute; reflexivity. Qed.

(* the concrete exit recogniser *)
Example is_exit_examples :
  is_exit_command (txt "(exit)") = true /\
  is_exit_command (txt " ; c
 ( exit ; x
 ) ") = true /\
  is_exit_command (txt "(exit )") = true /\
  is_exit_command (txt "(exitt)") = false /\ is_exit_command (txt "(echo ""exit"")") = false /\
  is_exit_command (txt "(exit)(exit)") = false.
Proof. conj; vm_compute; reflexivity. Qed.

(* the current tree (reader with a string-escape state, lexer with a rule for a single backslash): pipe_eq_file
   without any guard on string literals *)
Lemma pipe_eq_file_current_lemma : forall parse_ok exits parse_file_ok cs,
  no_empty cs -> lex_valid (List.concat cs) = true ->
  all_parse_ok parse_ok (List.concat cs) -> parse_file_ok (List.concat cs) = true ->
  visible (pipe_events parse_ok exits cs) = file_events exits parse_file_ok (List.concat cs).
Proof.
  intros p e pf cs H1 H2 H3 H4.
  exact (pipe_visible_eq_file p e pf cs H1 H2 (or_introl eq_refl) (lex_echo_from_fixed eq_refl _ LInit) H3 H4).
Qed.
