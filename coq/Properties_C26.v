(* C26 — arithmetic conflicts carry valid Farkas certificates.  Theorems only; proofs are in Th/*.v *)
From Coq Require Import QArith List Bool.
From OsmtV.Th Require Import Farkas LiaCheck SimplexRow.
Import ListNotations.
Local Open Scope Q_scope.

(* The checker the tie runs on every emitted certificate is sound: an accepted certificate refutes the
   conjunction of its constraints over the reals. *)
Theorem farkas_check_sound : forall cs ks,
  farkas_check cs ks = true -> forall a, ~ all_hold a cs.
Proof. exact Farkas.farkas_check_sound. Qed.
Print Assumptions farkas_check_sound.

(* ... and it accepts exactly what the property asks for: positive coefficients (non-zero for equalities), the
   weighted sum of the left-hand sides cancels every variable, the weighted constant inequality is false. *)
Theorem farkas_certificate_characterised : forall cs ks,
  farkas_check cs ks = true <->
  (length cs = length ks /\
   Forall2 (fun c k => match cop c with Eq => ~ k == 0 | _ => 0 < k end) cs ks /\
   (forall a, eval a (weighted_lhs cs ks) == 0) /\
   (if some_strict cs then weighted_rhs cs ks <= 0 else weighted_rhs cs ks < 0)).
Proof.
  intros cs ks. split.
  - exact (farkas_check_spec cs ks).
  - intros (H1 & H2 & H3 & H4). exact (farkas_check_complete cs ks H1 H2 H3 H4).
Qed.
Print Assumptions farkas_certificate_characterised.

(* Simplex::getConflictingBounds: for every row that holds, all non-zero coefficients, all bound values (strict
   bounds through delta-rationals): if the row variable is beyond its bound even at the extreme value the bounds of
   the other variables allow, the returned (bounds, coefficients) are an accepted Farkas certificate. *)
Theorem row_explanation_is_farkas : forall (def : var -> lin) (lb ub : var -> option delta) x row onLower E,
  (forall a, eval a (def x) == row_value def a row) ->
  Forall (fun p => ~ snd p == 0) row ->
  getConflictingBounds lb ub x row onLower = Some E ->
  violated lb ub x row onLower ->
  farkas_check (expl_constrs def E) (expl_coeffs E) = true.
Proof. exact SimplexRow.row_explanation_is_farkas. Qed.
Print Assumptions row_explanation_is_farkas.

(* The state in which Simplex::checkSimplex asks for the explanation (basic variable out of bound, no non-basic
   variable of the row can move: findNonBasicForPivotBy* return Undef) implies [violated]. *)
Theorem stuck_row_violated : forall (lb ub : var -> option delta) (beta : var -> delta) x row onLower,
  Forall (fun p => ~ snd p == 0) row ->
  deq (beta x) (beta_row beta row) ->
  stuck lb ub beta onLower row ->
  (if onLower then exists l, lb x = Some l /\ dlt (beta x) l else exists u, ub x = Some u /\ dlt u (beta x)) ->
  violated lb ub x row onLower.
Proof. exact SimplexRow.stuck_row_violated. Qed.
Print Assumptions stuck_row_violated.

(* Simplex::assertBound: a new bound that clashes with the opposite bound *)
Theorem bound_clash_is_farkas : forall (def : var -> lin) v (newIsUpper : bool) newv cur,
  (if newIsUpper then dlt newv cur else dlt cur newv) ->
  farkas_check (expl_constrs def (clash_expl v newIsUpper newv cur))
               (expl_coeffs (clash_expl v newIsUpper newv cur)) = true.
Proof. exact SimplexRow.bound_clash_is_farkas. Qed.
Print Assumptions bound_clash_is_farkas.

(* A bound is, as a constraint, exactly its delta-rational meaning. *)
Theorem bound_constraint_meaning : forall def a b,
  holds a (bound_constr def b) <->
  match bty b with
  | Upper => dle (mkD (eval a (def (bvar b))) 0) (bval b)
  | Lower => dle (bval b) (mkD (eval a (def (bvar b))) 0)
  end.
Proof. exact SimplexRow.bound_constr_holds_iff. Qed.
Print Assumptions bound_constraint_meaning.

(* LASolver::addBound/getBoundsValue + storeExplanation: reported as literals (with the integer tightening of
   integer terms), the explanation is accepted by the checker of the tie. *)
Theorem la_explanation_certified : forall def isInt (E : expl) (lits : list lalit),
  Forall2 (lit_of_bound def isInt) (map fst E) lits ->
  (isInt = true -> forallb (fun l => lin_integral (lterm l)) lits = true) ->
  farkas_check (expl_constrs def E) (expl_coeffs E) = true ->
  la_conflict_check isInt lits (expl_coeffs E) = true.
Proof. exact SimplexRow.la_explanation_certified. Qed.
Print Assumptions la_explanation_certified.

(* What acceptance by the tie's checker means for the literals themselves. *)
Theorem la_conflict_check_sound : forall lits ks,
  (la_conflict_check false lits ks = true -> forall a, ~ Forall (lit_true a) lits) /\
  (la_conflict_check true lits ks = true -> forall a, int_assign a -> ~ Forall (lit_true a) lits) /\
  (forall isInt, la_conflict_check isInt lits ks = true -> length lits = length ks /\ Forall (fun k => 0 < k) ks).
Proof.
  intros lits ks. split; [|split].
  - exact (la_conflict_check_sound_real lits ks).
  - exact (la_conflict_check_sound_int lits ks).
  - intros isInt. exact (la_conflict_check_positive isInt lits ks).
Qed.
Print Assumptions la_conflict_check_sound.

(* ---- non-vacuity -------------------------------------------------------------------------------- *)
(* x <= 1, -x < -1 (i.e. x > 1): coefficients 1, 1 *)
Example farkas_nonvacuous :
  farkas_check [mkC [(1%positive, 1)] Le 1; mkC [(1%positive, -1)] Lt (-1)] [1; 1] = true /\
  farkas_check [mkC [(1%positive, 1)] Le 1; mkC [(1%positive, -1)] Le (-1)] [1; 1] = false.
Proof. split; vm_compute; reflexivity. Qed.

(* row  s = 2 y - 3 z  (s = LA var 3 standing for 2y - 3z), bounds  s >= 5,  y <= 1,  z > -1:
   max of the row = 2*1 - 3*(-1 + delta) = 5 - 3*delta < 5 : conflict on the lower bound of s, by strictness only *)
Definition ex_def (v : var) : lin :=
  match v with 3%positive => [(1%positive, 2); (2%positive, -3)] | _ => [(v, 1)] end.
Definition ex_lb (v : var) : option delta :=
  match v with 3%positive => Some (mkD 5 0) | 2%positive => Some (mkD (-1) 1) | _ => None end.
Definition ex_ub (v : var) : option delta := match v with 1%positive => Some (mkD 1 0) | _ => None end.
Definition ex_row : list (var * Q) := [(1%positive, 2); (2%positive, -3)].

Example row_explanation_nonvacuous :
  exists E, getConflictingBounds ex_lb ex_ub 3%positive ex_row true = Some E /\
            violated ex_lb ex_ub 3%positive ex_row true /\
            expl_coeffs E = [1; 2; 3] /\
            farkas_check (expl_constrs ex_def E) (expl_coeffs E) = true.
Proof.
  eexists. split; [reflexivity|]. split; [|split; [reflexivity | vm_compute; reflexivity]].
  unfold violated. simpl. right. split; vm_compute; reflexivity.
Qed.

(* integer tightening: not (2 <= x) and not (-1 <= -x) is a conflict over the integers only *)
Example la_conflict_int_nonvacuous :
  la_conflict_check true [mkL [(1%positive, 1)] 2 false; mkL [(1%positive, -1)] (-1) false] [1; 1] = true /\
  la_conflict_check false [mkL [(1%positive, 1)] 2 false; mkL [(1%positive, -1)] (-1) false] [1; 1] = false.
Proof. split; vm_compute; reflexivity. Qed.
