(* C17: the printing sites (disambiguation, formal parameters, get-assignment, get-value echo, unsat-core names,
   sort names, default definitions): what fails on the faithful model, what holds on the repaired one. *)
From Coq Require Import String Ascii List Bool Arith Lia DecimalString Decimal DecimalNat.
From OsmtV.Print Require Import Gen_Tokens Reader ReaderProofs Quote QuoteProofs.
Import ListNotations.
Open Scope string_scope.
Open Scope nat_scope.

Definition U : sort := Sort "U" [].
Definition B : sort := Sort "Bool" [].
Definition usym (name : string) (args : list sort) (ret : sort) : symdecl :=
  {| sd_name := name; sd_args := args; sd_ret := ret; sd_interp := false |}.

(* ---------------------------------------------------------------------------------------------
   A. disambiguation of overloaded nullary symbols *)
Lemma removelast_app_char : forall s c, removelast_str (s ++ String c EmptyString) = s.
Proof.
  induction s as [|d r IH]; intros c; [reflexivity|].
  cbn [append removelast_str]. rewrite IH. destruct r; reflexivity.
Qed.

Lemma inner_in_bars : forall s, inner (in_bars s) = s.
Proof. intros s. unfold inner, in_bars, bar. cbn [append tail_str]. apply removelast_app_char. Qed.

Lemma back_app_char : forall s c, back (s ++ String c EmptyString) = c.
Proof.
  induction s as [|d r IH]; intros c; [reflexivity|].
  cbn [append back]. destruct r as [|e r']; [reflexivity|]. exact (IH c).
Qed.

Lemma isQuoted_in_bars : forall s, nonempty s = true -> isQuoted (in_bars s) = true.
Proof.
  intros s H. unfold isQuoted, in_bars, bar. cbn [append front].
  rewrite (back_app_char s c_bar). rewrite Ascii.eqb_refl. rewrite andb_true_r.
  destruct s as [|c r]; [discriminate|]. cbn [append String.length]. rewrite length_app. simpl. reflexivity.
Qed.

Lemma isQuoted_legal_bare : forall s, legal_symbol s -> isQuoted s = false.
Proof.
  intros s H. unfold isQuoted. rewrite (legal_front_not_bar s H). rewrite andb_false_r. reflexivity.
Qed.

(* two different symbols, one printed text *)
Theorem disambiguation_refuted : exists env d1 d2,
  In d1 env /\ In d2 env /\ d1 <> d2 /\ legal_symbol (sd_name d1) /\
  print_term faithful env (TApp d1 []) = print_term faithful env (TApp d2 []).
Proof.
  exists [usym "a b" [] U; usym "a b" [] B], (usym "a b" [] U), (usym "a b" [] B).
  repeat split; try (simpl; auto; fail); try discriminate; vm_compute; reflexivity.
Qed.

(* the repaired lookup: an overloaded nullary name is always printed qualified *)
Theorem disambiguation_repaired : forall env d,
  legal_symbol (sd_name d) -> nonempty (sd_name d) = true -> sd_interp d = false -> sd_nullary d = true ->
  is_ambiguous env (sd_name d) = true ->
  symToString repaired env d =
  "(as " ++ protectName repaired (sd_name d) false ++ " " ++ sortToString repaired (sd_ret d) ++ ")".
Proof.
  intros env d Hl Hne Hi Hn Ha. unfold symToString, disambiguateName. rewrite Hi, Hn.
  cbn [negb orb v_view_key_bug repaired andb].
  destruct (protect_cases repaired (sd_name d)) as [E | (E & _)]; rewrite E.
  - rewrite (isQuoted_in_bars _ Hne), andb_false_r, inner_in_bars, Ha, orb_true_r. reflexivity.
  - rewrite (isQuoted_legal_bare _ Hl), Ha, orb_true_r. reflexivity.
Qed.

(* ---------------------------------------------------------------------------------------------
   B. formal parameters of printed definitions never carry a user symbol's name *)
Definition user_names (user : list symdecl) : list string := map sd_name user.

Definition params_fresh (user : list symdecl) (df : definition) : Prop :=
  forall p, In p (df_params df) -> ~ In (fst p) (user_names user).

(* faithful: a Boolean constant x0 and a unary function f over U; f's definition gets the parameter x0 and
   passes the clash resolver unchanged *)
Theorem formal_arg_fresh_refuted : exists user d,
  In d user /\
  let df := default_definition faithful d in
  resolve_one faithful user d df 0 = Some (df, 0) /\ ~ params_fresh user df.
Proof.
  exists [usym "x0" [] B; usym "f" [U] U], (usym "f" [U] U).
  split; [simpl; auto|]. split; [vm_compute; reflexivity|].
  intros H. apply (H ("x0", U)); vm_compute; auto.
Qed.

(* the same through ModelBuilder (a function the solver has a valuation for) *)
Theorem formal_arg_fresh_refuted_builder : exists user d,
  In d user /\
  let df := fst (builder_definition faithful d 0) in
  resolve_one faithful user d df 0 = Some (df, 0) /\ ~ params_fresh user df.
Proof.
  exists [usym "x0" [] B; usym "f" [U] U], (usym "f" [U] U).
  split; [simpl; auto|]. split; [vm_compute; reflexivity|].
  intros H. apply (H ("x0", U)); vm_compute; auto.
Qed.

Lemma clashes_repaired : forall user p, clashes repaired user p = false -> ~ In (fst p) (user_names user).
Proof.
  intros user p H Hin. unfold clashes in H. cbn [v_formal_by_term repaired] in H.
  unfold user_names in Hin. apply in_map_iff in Hin as [u [E Hu]].
  assert (existsb (fun u0 => String.eqb (sd_name u0) (fst p)) user = true).
  { apply existsb_exists. exists u. split; [assumption|]. rewrite E. apply String.eqb_refl. }
  congruence.
Qed.

Lemma fresh_param_fresh : forall user prefix s fuel num name num',
  fresh_param repaired user prefix s num fuel = Some (name, num') -> ~ In name (user_names user).
Proof.
  induction fuel; intros num name num' H; [discriminate|]. cbn [fresh_param] in H.
  destruct (clashes repaired user (prefix ++ dec num, s)) eqn:E.
  - eapply IHfuel; eassumption.
  - inversion H; subst. exact (clashes_repaired user _ E).
Qed.

Lemma rename_params_fresh : forall user prefix ps num l n2,
  rename_params repaired user prefix ps num = Some (l, n2) ->
  forall p, In p l -> ~ In (fst p) (user_names user).
Proof.
  induction ps as [|[x s] r IH]; intros num l n2 H p Hp.
  - inversion H; subst. destruct Hp.
  - cbn [rename_params] in H.
    destruct (fresh_param repaired user prefix s num (S (List.length user))) as [[name num']|] eqn:E; [|discriminate].
    destruct (rename_params repaired user prefix r num') as [[l' n3]|] eqn:E2; [|discriminate].
    inversion H; subst. destruct Hp as [Hp|Hp].
    + subst p. simpl. eapply fresh_param_fresh; eassumption.
    + eapply IH; eassumption.
Qed.

Theorem formal_arg_fresh_repaired : forall user d df num df' num',
  resolve_one repaired user d df num = Some (df', num') -> params_fresh user df'.
Proof.
  intros user d df num df' num' H. unfold resolve_one in H.
  destruct (existsb (clashes repaired user) (df_params df)) eqn:E.
  - destruct (rename_params repaired user (safe_prefix (sd_name d)) (df_params df) num) as [[ps n2]|] eqn:E2; [|discriminate].
    inversion H; subst. intros p Hp. simpl in Hp. eapply rename_params_fresh; eassumption.
  - inversion H; subst. intros p Hp.
    apply clashes_repaired. destruct (clashes repaired user p) eqn:C; [|reflexivity].
    assert (existsb (clashes repaired user) (df_params df') = true) by (apply existsb_exists; eauto). congruence.
Qed.

(* the loop always finds a name: among length user + 1 consecutive candidates one is not a user name *)
Lemma dec_inj : forall a b, dec a = dec b -> a = b.
Proof.
  intros a b H. unfold dec in H.
  assert (Ha : NilZero.uint_of_string (NilZero.string_of_uint (Nat.to_uint a)) = Some (Nat.to_uint a)).
  { apply NilZero.usu. intro E. apply (f_equal Nat.of_uint) in E. rewrite Unsigned.of_to in E.
    destruct a; [|]; revert E; clear.
    - intros E. pose proof (Unsigned.to_uint_nonnil 0). auto.
    - intros E. pose proof (Unsigned.to_uint_nonnil (S a)). auto. }
  assert (Hb : NilZero.uint_of_string (NilZero.string_of_uint (Nat.to_uint b)) = Some (Nat.to_uint b)).
  { apply NilZero.usu. apply Unsigned.to_uint_nonnil. }
  rewrite H in Ha. rewrite Ha in Hb. inversion Hb as [E].
  apply (f_equal Nat.of_uint) in E. rewrite !Unsigned.of_to in E. exact E.
Qed.
