(* C17: the printing sites (disambiguation, formal parameters, get-assignment, get-value echo, unsat-core names,
   sort names, default definitions): what fails on the faithful model, what holds on the repaired one. *)
From Coq Require Import String Ascii List Bool Arith Lia DecimalString Decimal DecimalNat DecimalFacts.
From OsmtV.Print Require Import Gen_Tokens Reader ReaderProofs Quote QuoteProofs.
Import ListNotations.
Open Scope string_scope.
Open Scope nat_scope.

Definition U : sort := Sort "U" [].
Definition B : sort := Sort "Bool" [].
Definition usym (name : string) (args : list sort) (ret : sort) : symdecl :=
  {| sd_name := name; sd_args := args; sd_ret := ret; sd_interp := false |}.

(* ---------------------------------------------------------------------------------------------
   A. disambiguation of overloaded nullary symbols *)
Lemma removelast_app_char : forall s c, removelast_str (s ++ String c EmptyString) = s.
Proof.
  induction s as [|d r IH]; intros c; [reflexivity|].
  cbn [append removelast_str]. rewrite IH. destruct r; reflexivity.
Qed.

Lemma inner_in_bars : forall s, inner (in_bars s) = s.
Proof. intros s. unfold inner, in_bars, bar. cbn [append tail_str]. apply removelast_app_char. Qed.

Lemma back_app_char : forall s c, back (s ++ String c EmptyString) = c.
Proof.
  induction s as [|d r IH]; intros c; [reflexivity|].
  cbn [append back]. destruct r as [|e r']; [reflexivity|]. exact (IH c).
Qed.

Lemma isQuoted_in_bars : forall s, nonempty s = true -> isQuoted (in_bars s) = true.
Proof.
  intros s H. unfold isQuoted.
  assert (Hb : back (in_bars s) = c_bar).
  { unfold in_bars. rewrite <- app_assoc_str. unfold bar at 2. apply back_app_char. }
  rewrite Hb. unfold in_bars, bar. cbn [append front]. rewrite Ascii.eqb_refl. rewrite !andb_true_r.
  destruct s as [|c r]; [discriminate|]. cbn [append String.length]. rewrite length_app. apply Nat.ltb_lt. simpl. lia.
Qed.

Lemma isQuoted_legal_bare : forall s, legal_symbol s -> isQuoted s = false.
Proof.
  intros s H. unfold isQuoted. rewrite (legal_front_not_bar s H). rewrite andb_false_r. reflexivity.
Qed.

(* two different symbols, one printed text *)
Theorem disambiguation_refuted : exists env d1 d2,
  In d1 env /\ In d2 env /\ d1 <> d2 /\ legal_symbol (sd_name d1) /\
  print_term faithful env (TApp d1 []) = print_term faithful env (TApp d2 []).
Proof.
  exists [usym "a b" [] U; usym "a b" [] B], (usym "a b" [] U), (usym "a b" [] B).
  repeat split; try (simpl; auto; fail); try discriminate; vm_compute; reflexivity.
Qed.

(* the repaired lookup: an overloaded nullary name is always printed qualified *)
Theorem disambiguation_repaired : forall env d,
  legal_symbol (sd_name d) -> nonempty (sd_name d) = true -> sd_interp d = false -> sd_nullary d = true ->
  is_ambiguous env (sd_name d) = true ->
  symToString repaired env d =
  "(as " ++ protectName repaired (sd_name d) false ++ " " ++ sortToString repaired (sd_ret d) ++ ")".
Proof.
  intros env d Hl Hne Hi Hn Ha. unfold symToString, disambiguateName. rewrite Hi, Hn.
  cbn [negb orb v_view_key_bug repaired andb].
  destruct (protect_cases repaired (sd_name d)) as [E | (E & _)]; rewrite E.
  - rewrite (isQuoted_in_bars _ Hne), andb_false_r, inner_in_bars, Ha, orb_true_r. reflexivity.
  - rewrite (isQuoted_legal_bare _ Hl). cbn [andb]. rewrite Ha, orb_true_r. reflexivity.
Qed.

(* ---------------------------------------------------------------------------------------------
   B. formal parameters of printed definitions never carry a user symbol's name *)
Definition user_names (user : list symdecl) : list string := map sd_name user.

Definition params_fresh (user : list symdecl) (df : definition) : Prop :=
  forall p, In p (df_params df) -> ~ In (fst p) (user_names user).

(* faithful: a Boolean constant x0 and a unary function f over U; f's definition gets the parameter x0 and
   passes the clash resolver unchanged *)
Theorem formal_arg_fresh_refuted : exists user d,
  In d user /\
  let df := default_definition faithful d in
  resolve_one faithful user d df 0 = Some (df, 0) /\ ~ params_fresh user df.
Proof.
  exists [usym "x0" [] B; usym "f" [U] U], (usym "f" [U] U).
  split; [simpl; auto|]. split; [vm_compute; reflexivity|].
  intros H. apply (H ("x0", U)); vm_compute; auto.
Qed.

(* the same through ModelBuilder (a function the solver has a valuation for) *)
Theorem formal_arg_fresh_refuted_builder : exists user d,
  In d user /\
  let df := fst (builder_definition faithful d 0) in
  resolve_one faithful user d df 0 = Some (df, 0) /\ ~ params_fresh user df.
Proof.
  exists [usym "x0" [] B; usym "f" [U] U], (usym "f" [U] U).
  split; [simpl; auto|]. split; [vm_compute; reflexivity|].
  intros H. apply (H ("x0", U)); vm_compute; auto.
Qed.

Lemma clashes_repaired : forall user p, clashes repaired user p = false -> ~ In (fst p) (user_names user).
Proof.
  intros user p H Hin. unfold clashes in H. cbn [v_formal_by_term repaired] in H.
  unfold user_names in Hin. apply in_map_iff in Hin as [u [E Hu]].
  assert (existsb (fun u0 => String.eqb (sd_name u0) (fst p)) user = true).
  { apply existsb_exists. exists u. split; [assumption|]. rewrite E. apply String.eqb_refl. }
  congruence.
Qed.

Lemma fresh_param_fresh : forall user prefix s fuel num name num',
  fresh_param repaired user prefix s num fuel = Some (name, num') -> ~ In name (user_names user).
Proof.
  induction fuel; intros num name num' H; [discriminate|]. cbn [fresh_param] in H.
  destruct (clashes repaired user (prefix ++ dec num, s)) eqn:E.
  - eapply IHfuel; eassumption.
  - inversion H; subst. exact (clashes_repaired user _ E).
Qed.

Lemma rename_params_fresh : forall user prefix ps num l n2,
  rename_params repaired user prefix ps num = Some (l, n2) ->
  forall p, In p l -> ~ In (fst p) (user_names user).
Proof.
  induction ps as [|[x s] r IH]; intros num l n2 H p Hp.
  - inversion H; subst. destruct Hp.
  - cbn [rename_params] in H.
    destruct (fresh_param repaired user prefix s num (S (List.length user))) as [[name num']|] eqn:E; [|discriminate].
    destruct (rename_params repaired user prefix r num') as [[l' n3]|] eqn:E2; [|discriminate].
    inversion H; subst. destruct Hp as [Hp|Hp].
    + subst p. simpl. eapply fresh_param_fresh; eassumption.
    + eapply IH; eassumption.
Qed.

Theorem formal_arg_fresh_repaired : forall user d df num df' num',
  resolve_one repaired user d df num = Some (df', num') -> params_fresh user df'.
Proof.
  intros user d df num df' num' H. unfold resolve_one in H.
  destruct (existsb (clashes repaired user) (df_params df)) eqn:E.
  - destruct (rename_params repaired user (safe_prefix (sd_name d)) (df_params df) num) as [[ps n2]|] eqn:E2; [|discriminate].
    inversion H; subst. intros p Hp. simpl in Hp. eapply rename_params_fresh; eassumption.
  - inversion H; subst. intros p Hp.
    apply clashes_repaired. destruct (clashes repaired user p) eqn:C; [|reflexivity].
    assert (existsb (clashes repaired user) (df_params df') = true) by (apply existsb_exists; eauto). congruence.
Qed.

(* the loop always finds a name: among length user + 1 consecutive candidates one is not a user name *)
Lemma to_uint_nonnil : forall n, Nat.to_uint n <> Nil.
Proof.
  intros n. pose proof (Unsigned.to_of (Nat.to_uint n)) as H. rewrite Unsigned.of_to in H.
  rewrite H. apply unorm_nonnil.
Qed.

Lemma dec_inj : forall a b, dec a = dec b -> a = b.
Proof.
  intros a b H. unfold dec in H.
  pose proof (NilZero.usu (Nat.to_uint a) (to_uint_nonnil a)) as Ha.
  pose proof (NilZero.usu (Nat.to_uint b) (to_uint_nonnil b)) as Hb.
  rewrite H in Ha. rewrite Ha in Hb. inversion Hb as [E].
  apply Unsigned.to_uint_inj. exact E.
Qed.

Lemma app_inv_head_str : forall p a b : string, p ++ a = p ++ b -> a = b.
Proof. induction p as [|c p IH]; simpl; intros x y H; [exact H|]. inversion H. auto. Qed.

(* candidates prefix ++ dec k for k in [num, num + n) *)
Fixpoint candidates (prefix : string) (num n : nat) : list string :=
  match n with O => [] | S k => (prefix ++ dec num) :: candidates prefix (S num) k end.

Lemma candidates_In : forall prefix n num x, In x (candidates prefix num n) -> exists k, num <= k < num + n /\ x = prefix ++ dec k.
Proof.
  induction n; intros num x H; [destruct H|]. destruct H as [H|H].
  - exists num. split; [lia|auto].
  - apply IHn in H as [k [Hk E]]. exists k. split; [lia|exact E].
Qed.

Lemma candidates_NoDup : forall prefix n num, NoDup (candidates prefix num n).
Proof.
  induction n; intros num; [constructor|]. cbn [candidates]. constructor; [|apply IHn].
  intros H. apply candidates_In in H as [k [Hk E]]. apply app_inv_head_str in E. apply dec_inj in E. lia.
Qed.

Lemma candidates_length : forall prefix n num, List.length (candidates prefix num n) = n.
Proof. induction n; intros; simpl; [reflexivity|]. rewrite IHn. reflexivity. Qed.

(* if the first n candidates all clash, they are n distinct user names *)
Lemma fresh_param_none : forall user prefix s fuel num,
  fresh_param repaired user prefix s num fuel = None -> incl (candidates prefix num fuel) (user_names user).
Proof.
  induction fuel; intros num H; [intros x []|]. cbn [fresh_param] in H.
  destruct (clashes repaired user (prefix ++ dec num, s)) eqn:E; [|discriminate].
  intros x [Hx|Hx].
  - subst x. unfold clashes in E. cbn [v_formal_by_term repaired] in E.
    apply existsb_exists in E as [u [Hu Eu]]. apply String.eqb_eq in Eu. simpl in Eu.
    unfold user_names. apply in_map_iff. exists u. auto.
  - exact (IHfuel (S num) H x Hx).
Qed.

Lemma fresh_param_total : forall user prefix s num,
  fresh_param repaired user prefix s num (S (List.length user)) <> None.
Proof.
  intros user prefix s num H. apply fresh_param_none in H.
  pose proof (NoDup_incl_length (candidates_NoDup prefix (S (List.length user)) num) H) as L.
  rewrite candidates_length in L. unfold user_names in L. rewrite map_length in L. lia.
Qed.

Lemma rename_params_total : forall user prefix ps num, rename_params repaired user prefix ps num <> None.
Proof.
  induction ps as [|[x s] r IH]; intros num; [discriminate|]. cbn [rename_params].
  destruct (fresh_param repaired user prefix s num (S (List.length user))) as [[name num']|] eqn:E.
  - destruct (rename_params repaired user prefix r num') as [[l n2]|] eqn:E2; [discriminate|].
    exfalso. exact (IH num' E2).
  - exfalso. exact (fresh_param_total user prefix s num E).
Qed.

Theorem resolve_repaired_total : forall user fs num, resolve_clashes repaired user fs num <> None.
Proof.
  induction fs as [|[d df] r IH]; intros num; [discriminate|]. cbn [resolve_clashes].
  destruct (resolve_one repaired user d df num) as [[df' num']|] eqn:E.
  - destruct (resolve_clashes repaired user r num') eqn:E2; [discriminate|]. exfalso. exact (IH num' E2).
  - exfalso. unfold resolve_one in E.
    destruct (existsb (clashes repaired user) (df_params df)); [|discriminate].
    destruct (rename_params repaired user (safe_prefix (sd_name d)) (df_params df) num) as [[ps n2]|] eqn:E3; [discriminate|].
    exact (rename_params_total _ _ _ _ E3).
Qed.

Theorem resolve_repaired_fresh : forall user fs num l,
  resolve_clashes repaired user fs num = Some l -> Forall (params_fresh user) l.
Proof.
  induction fs as [|[d df] r IH]; intros num l H.
  - inversion H. constructor.
  - cbn [resolve_clashes] in H.
    destruct (resolve_one repaired user d df num) as [[df' num']|] eqn:E; [|discriminate].
    destruct (resolve_clashes repaired user r num') eqn:E2; [|discriminate].
    inversion H; subst. constructor.
    + eapply formal_arg_fresh_repaired; eassumption.
    + eapply IH; eassumption.
Qed.

(* ---------------------------------------------------------------------------------------------
   C. sites whose faithful output does not read back *)

(* get-assignment with no named term: a lone closing parenthesis *)
Theorem assignment_empty_refuted :
  assignment_text faithful [] = FmtOut ")" /\ read_sexps std_cfg ")" = None.
Proof. split; vm_compute; reflexivity. Qed.

Theorem assignment_empty_repaired :
  assignment_text repaired [] = FmtOut "()" /\ read_sexps std_cfg "()" = Some [SList []].
Proof. split; vm_compute; reflexivity. Qed.

(* get-assignment: names are printed raw and the text is used as a printf format *)
Theorem assignment_names_refuted :
  (exists t, assignment_text faithful [("a b", "true")] = FmtOut t /\ ~ reads_as std_cfg t (SList [SList [sym_tok "a b"; sym_tok "true"]]))
  /\ (exists t, assignment_text faithful [("a%sb", "true")] = FmtUB t)
  /\ (exists t, assignment_text faithful [("50%x", "true")] = FmtOut t /\ ~ reads_as std_cfg t (SList [SList [sym_tok "50%x"; sym_tok "true"]])).
Proof.
  split; [|split].
  - eexists. split; [vm_compute; reflexivity|]. vm_compute. discriminate.
  - eexists. vm_compute. reflexivity.
  - eexists. split; [vm_compute; reflexivity|]. vm_compute. discriminate.
Qed.

Theorem assignment_names_repaired_examples :
  (exists t, assignment_text repaired [("a b", "true"); ("a%sb", "false"); ("let", "true")] = FmtOut t /\
             reads_as std_cfg t (SList [SList [sym_tok "a b"; sym_tok "true"]; SList [sym_tok "a%sb"; sym_tok "false"];
                                        SList [sym_tok "let"; sym_tok "true"]])).
Proof. eexists. split; vm_compute; reflexivity. Qed.

(* get-value: the echo of the request *)
Definition echo_ok (cfg : lexcfg) (v : variant) (a : ast) : Prop :=
  snd (echo v a) = false /\ reads_as cfg (fst (echo v a)) (ast_sexp a).

Theorem echo_roundtrip_refuted :
  ~ echo_ok std_cfg faithful (A_app (H_sym "f") [A_sym "a b"])
  /\ ~ echo_ok osmt_cfg faithful (A_app (H_sym "f") [A_sym "a b"])
  /\ ~ echo_ok std_cfg faithful (A_sym "let")
  /\ ~ echo_ok std_cfg faithful (A_bang (A_sym "p") "n")
  /\ snd (echo faithful (A_app (H_sym "f") [A_as "c" U])) = true.
Proof.
  split; [|split; [|split; [|split]]].
  - intros [H1 H2]; vm_compute in H2; discriminate.
  - intros [H1 H2]; vm_compute in H2; discriminate.
  - intros [H1 H2]; vm_compute in H2; discriminate.
  - intros [H1 H2]; vm_compute in H2; discriminate.
  - vm_compute. reflexivity.
Qed.

Theorem echo_repaired_examples :
  echo_ok std_cfg repaired (A_app (H_sym "f") [A_sym "a b"; A_as "c" U; A_const "12"; A_const "0.5"])
  /\ echo_ok osmt_cfg repaired (A_app (H_sym "f") [A_sym "a b"; A_as "c" U; A_const "12"])
  /\ echo_ok std_cfg repaired (A_bang (A_app (H_sym "g h") [A_sym "let"; A_sym "_"]) "n 1")
  /\ echo_ok std_cfg repaired (A_let [("x y", A_sym "12"); ("z", A_app (H_sym "+") [A_const "1"; A_sym "-5"])] (A_app (H_sym "f") [A_sym "x y"; A_sym "z"])).
Proof. repeat split; vm_compute; reflexivity. Qed.

(* get-unsat-core names, sort names, the name of a default definition *)
Theorem core_names_refuted :
  ~ reads_as std_cfg (core_names_text faithful ["n 1"; "let"]) (SList [sym_tok "n 1"; sym_tok "let"]).
Proof. vm_compute. discriminate. Qed.

Theorem core_names_repaired_example :
  reads_as std_cfg (core_names_text repaired ["n 1"; "let"; "n3"]) (SList [sym_tok "n 1"; sym_tok "let"; sym_tok "n3"]).
Proof. vm_compute. reflexivity. Qed.

Theorem sort_name_refuted :
  ~ reads_as std_cfg (sortToString faithful (Sort "S T" [])) (sort_sexp (Sort "S T" [])).
Proof. vm_compute. discriminate. Qed.

Theorem sort_name_repaired : forall n, legal_symbol n ->
  read_symbol std_cfg (sortToString repaired (Sort n [])) = Some n.
Proof. intros n H. cbn [sortToString v_sort_raw repaired]. apply protect_repaired_roundtrip_std. exact H. Qed.

Theorem default_definition_name_refuted :
  read_symbol std_cfg (df_name (default_definition faithful (usym "unused fn" [U] U))) <> Some "unused fn".
Proof. vm_compute. discriminate. Qed.

Theorem default_definition_name_repaired : forall d, legal_symbol (sd_name d) -> sd_interp d = false ->
  read_symbol std_cfg (df_name (default_definition repaired d)) = Some (sd_name d).
Proof.
  intros d H Hi. cbn [default_definition df_name v_default_raw repaired]. rewrite Hi.
  apply protect_repaired_roundtrip_std. exact H.
Qed.
