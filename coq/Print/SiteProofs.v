(* C17: the printing sites (disambiguation, formal parameters, get-assignment, get-value echo, unsat-core names,
   sort names, default definitions): what fails on the faithful model, what holds on the repaired one. *)
From Coq Require Import String Ascii List Bool Arith Lia DecimalString Decimal DecimalNat DecimalFacts.
From OsmtV.Print Require Import Gen_Tokens Reader ReaderProofs Quote QuoteProofs.
Import ListNotations.
Open Scope string_scope.
Open Scope nat_scope.

Definition U : sort := Sort "U" [].
Definition B : sort := Sort "Bool" [].
Definition usym (name : string) (args : list sort) (ret : sort) : symdecl :=
  {| sd_name := name; sd_args := args; sd_ret := ret; sd_interp := false |}.

(* ---------------------------------------------------------------------------------------------
   A. disambiguation of overloaded nullary symbols *)
Lemma removelast_app_char : forall s c, removelast_str (s ++ String c EmptyString) = s.
Proof.
  induction s as [|d r IH]; intros c; [reflexivity|].
  cbn [append removelast_str]. rewrite IH. destruct r; reflexivity.
Qed.

Lemma inner_in_bars : forall s, inner (in_bars s) = s.
Proof. intros s. unfold inner, in_bars, bar. cbn [append tail_str]. apply removelast_app_char. Qed.

Lemma back_app_char : forall s c, back (s ++ String c EmptyString) = c.
Proof.
  induction s as [|d r IH]; intros c; [reflexivity|].
  cbn [append back]. destruct r as [|e r']; [reflexivity|]. exact (IH c).
Qed.

Lemma isQuoted_in_bars : forall s, nonempty s = true -> isQuoted (in_bars s) = true.
Proof.
  intros s H. unfold isQuoted.
  assert (Hb : back (in_bars s) = c_bar).
  { unfold in_bars. rewrite <- app_assoc_str. unfold bar at 2. apply back_app_char. }
  rewrite Hb. unfold in_bars, bar. cbn [append front]. rewrite Ascii.eqb_refl. rewrite !andb_true_r.
  destruct s as [|c r]; [discriminate|]. cbn [append String.length]. rewrite length_app. apply Nat.ltb_lt. simpl. lia.
Qed.

Lemma isQuoted_legal_bare : forall s, legal_symbol s -> isQuoted s = false.
Proof.
  intros s H. unfold isQuoted. rewrite (legal_front_not_bar s H). rewrite andb_false_r. reflexivity.
Qed.

(* two different symbols, one printed text *)
Theorem disambiguation_refuted : exists env d1 d2,
  In d1 env /\ In d2 env /\ d1 <> d2 /\ legal_symbol (sd_name d1) /\
  print_term pinned env (TApp d1 []) = print_term pinned env (TApp d2 []).
Proof.
  exists [usym "a b" [] U; usym "a b" [] B], (usym "a b" [] U), (usym "a b" [] B).
  repeat split; try (simpl; auto; fail); try discriminate; vm_compute; reflexivity.
Qed.

(* the repaired lookup: an overloaded nullary name is always printed qualified *)
Theorem disambiguation_repaired : forall env d,
  legal_symbol (sd_name d) -> nonempty (sd_name d) = true -> sd_interp d = false -> sd_nullary d = true ->
  is_ambiguous env (sd_name d) = true ->
  symToString repaired env d =
  "(as " ++ protectName repaired (sd_name d) false ++ " " ++ sortToString repaired (sd_ret d) ++ ")".
Proof.
  intros env d Hl Hne Hi Hn Ha. unfold symToString, disambiguateName. rewrite Hi, Hn. unfold is_ambiguous in Ha.
  cbn [negb orb v_view_key_bug repaired andb].
  destruct (protect_cases repaired (sd_name d)) as [E | (E & _)]; rewrite E.
  - rewrite (isQuoted_in_bars _ Hne), andb_false_r, inner_in_bars, Ha, orb_true_r. reflexivity.
  - rewrite (isQuoted_legal_bare _ Hl). cbn [andb]. rewrite Ha, orb_true_r. reflexivity.
Qed.

(* ---------------------------------------------------------------------------------------------
   B. formal parameters of printed definitions never carry a user symbol's name *)
Definition user_names (user : list symdecl) : list string := map sd_name user.

Definition params_fresh (user : list symdecl) (df : definition) : Prop :=
  forall p, In p (df_params df) -> ~ In (fst p) (user_names user).

(* pinned: a Boolean constant x0 and a unary function f over U; f's definition gets the parameter x0 and
   passes the clash resolver unchanged *)
Theorem formal_arg_fresh_refuted : exists user d df tbl',
  In d user /\ default_definition pinned user d = Some (df, tbl') /\
  resolve_clashes pinned user [(d, df)] = Some [df] /\ ~ params_fresh user df.
Proof.
  exists [usym "x0" [] B; usym "f" [U] U], (usym "f" [U] U).
  eexists. eexists. split; [simpl; auto|]. split; [vm_compute; reflexivity|]. split; [vm_compute; reflexivity|].
  intros H. apply (H ("x0", U)); vm_compute; auto.
Qed.

(* the same through ModelBuilder (a function the solver has a valuation for) *)
Theorem formal_arg_fresh_refuted_builder : exists user d df u' tbl',
  In d user /\ builder_definition pinned user d 0 = Some (df, u', tbl') /\
  resolve_clashes pinned user [(d, df)] = Some [df] /\ ~ params_fresh user df.
Proof.
  exists [usym "x0" [] B; usym "f" [U] U], (usym "f" [U] U).
  eexists. eexists. eexists. split; [simpl; auto|]. split; [vm_compute; reflexivity|]. split; [vm_compute; reflexivity|].
  intros H. apply (H ("x0", U)); vm_compute; auto.
Qed.

(* creation (repaired): a formal parameter never overloads a symbol of the logic *)
Definition no_overload (tbl : list symdecl) (name : string) (s : sort) : Prop :=
  forall d, In d tbl -> sd_name d = name -> sd_nullary d = true /\ sort_eqb (sd_ret d) s = true.

Lemma arg_name_free_spec : forall tbl name s, arg_name_free tbl name s = true -> no_overload tbl name s.
Proof.
  intros tbl name s H d Hd E. unfold arg_name_free in H. rewrite forallb_forall in H. specialize (H d Hd).
  rewrite E, String.eqb_refl in H. simpl in H. apply andb_true_iff in H. exact H.
Qed.

Lemma next_param_free : forall tbl base s fuel num name num',
  next_param repaired tbl base s num fuel = Some (name, num') -> no_overload tbl name s.
Proof.
  induction fuel; intros num name num' H; [discriminate|]. cbn [next_param v_create_any repaired orb] in H.
  destruct (arg_name_free tbl (base ++ dec num) s) eqn:E.
  - inversion H; subst. apply arg_name_free_spec. exact E.
  - eapply IHfuel; eassumption.
Qed.

(* the table grows only by variables that do not overload anything present when they are created *)
Inductive grows : list symdecl -> list symdecl -> Prop :=
| grows_refl : forall t, grows t t
| grows_step : forall t t' name s, no_overload t name s -> grows (var_decl name s :: t) t' -> grows t t'.

Theorem creation_no_overload : forall sorts tbl base num ps n' tbl',
  create_params repaired tbl base num sorts = Some (ps, n', tbl') -> grows tbl tbl'.
Proof.
  induction sorts as [|s r IH]; intros tbl base num ps n' tbl' H.
  - inversion H; subst. constructor.
  - cbn [create_params] in H.
    destruct (next_param repaired tbl base s num (S (List.length tbl))) as [[name num']|] eqn:E; [|discriminate].
    destruct (create_params repaired (var_decl name s :: tbl) base num' r) as [[[ps' n2] tbl2]|] eqn:E2; [|discriminate].
    inversion H; subst. eapply grows_step; [eapply next_param_free; exact E|]. eapply IH; exact E2.
Qed.

Lemma clashes_repaired : forall user allp p, clashes repaired user allp p = false -> ~ In (fst p) (user_names user).
Proof.
  intros user allp p H Hin. unfold clashes in H. cbn [v_formal_by_term repaired] in H.
  apply orb_false_iff in H as [H _].
  unfold user_names in Hin. apply in_map_iff in Hin as [u [E Hu]].
  assert (existsb (fun u0 => String.eqb (sd_name u0) (fst p)) user = true).
  { apply existsb_exists. exists u. split; [assumption|]. rewrite E. apply String.eqb_refl. }
  congruence.
Qed.

Lemma fresh_param_fresh : forall user avoid prefix s fuel num name num',
  fresh_param repaired user avoid prefix s num fuel = Some (name, num') -> ~ In name avoid.
Proof.
  induction fuel; intros num name num' H; [discriminate|]. cbn [fresh_param] in H.
  destruct (taken repaired user avoid (prefix ++ dec num) s) eqn:E.
  - eapply IHfuel; eassumption.
  - inversion H; subst. unfold taken in E. cbn [v_formal_by_term repaired] in E.
    apply mem_str_In_false. exact E.
Qed.

Lemma rename_params_fresh : forall user prefix ps avoid num l n2 av2,
  rename_params repaired user avoid prefix ps num = Some (l, n2, av2) ->
  (forall p, In p l -> ~ In (fst p) avoid) /\ incl avoid av2.
Proof.
  induction ps as [|[x s] r IH]; intros avoid num l n2 av2 H.
  - inversion H; subst. split; [intros p []|apply incl_refl].
  - cbn [rename_params] in H.
    destruct (fresh_param repaired user avoid prefix s num (S (List.length user + List.length avoid))) as [[name num']|] eqn:E; [|discriminate].
    destruct (rename_params repaired user (name :: avoid) prefix r num') as [[[l' n3] av3]|] eqn:E2; [|discriminate].
    inversion H; subst. destruct (IH _ _ _ _ _ E2) as [F I]. split.
    + intros p [Hp|Hp].
      * subst p. simpl. eapply fresh_param_fresh; eassumption.
      * intros Hin. apply (F p Hp). right. exact Hin.
    + intros y Hy. apply I. right. exact Hy.
Qed.

Lemma resolve_one_fresh : forall user allp avoid d df num df' num' av',
  incl (user_names user) avoid ->
  resolve_one repaired user allp avoid d df num = Some (df', num', av') ->
  params_fresh user df' /\ incl avoid av'.
Proof.
  intros user allp avoid d df num df' num' av' Hinc H. unfold resolve_one in H.
  destruct (existsb (clashes repaired user allp) (df_params df)) eqn:E.
  - destruct (rename_params repaired user avoid (safe_prefix (sd_name d)) (df_params df) num) as [[[ps n2] av2]|] eqn:E2; [|discriminate].
    inversion H; subst. destruct (rename_params_fresh _ _ _ _ _ _ _ _ E2) as [F I]. split; [|exact I].
    intros p Hp Hin. simpl in Hp. apply (F p Hp). apply Hinc. exact Hin.
  - inversion H; subst. split; [|apply incl_refl]. intros p Hp.
    apply (clashes_repaired user allp). destruct (clashes repaired user allp p) eqn:C; [|reflexivity].
    assert (existsb (clashes repaired user allp) (df_params df') = true) by (apply existsb_exists; eauto). congruence.
Qed.

Lemma resolve_loop_fresh : forall user allp fs avoid num l,
  incl (user_names user) avoid ->
  resolve_loop repaired user allp avoid fs num = Some l -> Forall (params_fresh user) l.
Proof.
  induction fs as [|[d df] r IH]; intros avoid num l Hinc H.
  - inversion H. constructor.
  - cbn [resolve_loop] in H.
    destruct (resolve_one repaired user allp avoid d df num) as [[[df' num'] av']|] eqn:E; [|discriminate].
    destruct (resolve_loop repaired user allp av' r num') eqn:E2; [|discriminate].
    inversion H; subst. destruct (resolve_one_fresh _ _ _ _ _ _ _ _ _ Hinc E) as [F I]. constructor; [exact F|].
    eapply IH; [|eassumption]. intros y Hy. apply I. apply Hinc. exact Hy.
Qed.

Theorem resolve_repaired_fresh : forall user fs l,
  resolve_clashes repaired user fs = Some l -> Forall (params_fresh user) l.
Proof.
  intros user fs l H. unfold resolve_clashes in H. eapply resolve_loop_fresh; [|eassumption].
  intros y Hy. apply in_or_app. left. exact Hy.
Qed.

(* the loop always finds a name: among length avoid + 1 consecutive candidates one is not known to the logic *)
Lemma to_uint_nonnil : forall n, Nat.to_uint n <> Nil.
Proof.
  intros n. pose proof (Unsigned.to_of (Nat.to_uint n)) as H. rewrite Unsigned.of_to in H.
  rewrite H. apply unorm_nonnil.
Qed.

Lemma dec_inj : forall a b, dec a = dec b -> a = b.
Proof.
  intros a b H. unfold dec in H.
  pose proof (NilZero.usu (Nat.to_uint a) (to_uint_nonnil a)) as Ha.
  pose proof (NilZero.usu (Nat.to_uint b) (to_uint_nonnil b)) as Hb.
  rewrite H in Ha. rewrite Ha in Hb. inversion Hb as [E].
  apply Unsigned.to_uint_inj. exact E.
Qed.

Lemma app_inv_head_str : forall p a b : string, p ++ a = p ++ b -> a = b.
Proof. induction p as [|c p IH]; simpl; intros x y H; [exact H|]. inversion H. auto. Qed.

(* candidates prefix ++ dec k for k in [num, num + n) *)
Fixpoint candidates (prefix : string) (num n : nat) : list string :=
  match n with O => [] | S k => (prefix ++ dec num) :: candidates prefix (S num) k end.

Lemma candidates_In : forall prefix n num x, In x (candidates prefix num n) -> exists k, num <= k < num + n /\ x = prefix ++ dec k.
Proof.
  induction n; intros num x H; [destruct H|]. destruct H as [H|H].
  - exists num. split; [lia|auto].
  - apply IHn in H as [k [Hk E]]. exists k. split; [lia|exact E].
Qed.

Lemma candidates_NoDup : forall prefix n num, NoDup (candidates prefix num n).
Proof.
  induction n; intros num; [constructor|]. cbn [candidates]. constructor; [|apply IHn].
  intros H. apply candidates_In in H as [k [Hk E]]. apply app_inv_head_str in E. apply dec_inj in E. lia.
Qed.

Lemma candidates_length : forall prefix n num, List.length (candidates prefix num n) = n.
Proof. induction n; intros; simpl; [reflexivity|]. rewrite IHn. reflexivity. Qed.

Lemma fresh_param_none : forall user avoid prefix s fuel num,
  fresh_param repaired user avoid prefix s num fuel = None -> incl (candidates prefix num fuel) avoid.
Proof.
  induction fuel; intros num H; [intros x []|]. cbn [fresh_param] in H.
  destruct (taken repaired user avoid (prefix ++ dec num) s) eqn:E; [|discriminate].
  intros x [Hx|Hx].
  - subst x. unfold taken in E. cbn [v_formal_by_term repaired] in E. apply mem_str_In. exact E.
  - exact (IHfuel (S num) H x Hx).
Qed.

Lemma fresh_param_total : forall user avoid prefix s num,
  fresh_param repaired user avoid prefix s num (S (List.length user + List.length avoid)) <> None.
Proof.
  intros user avoid prefix s num H. apply fresh_param_none in H.
  pose proof (NoDup_incl_length (candidates_NoDup prefix (S (List.length user + List.length avoid)) num) H) as L.
  rewrite candidates_length in L. lia.
Qed.

Lemma rename_params_total : forall user prefix ps avoid num, rename_params repaired user avoid prefix ps num <> None.
Proof.
  induction ps as [|[x s] r IH]; intros avoid num; [discriminate|]. cbn [rename_params].
  destruct (fresh_param repaired user avoid prefix s num (S (List.length user + List.length avoid))) as [[name num']|] eqn:E.
  - destruct (rename_params repaired user (name :: avoid) prefix r num') as [[[l n2] av2]|] eqn:E2; [discriminate|].
    exfalso. exact (IH _ num' E2).
  - exfalso. exact (fresh_param_total user avoid prefix s num E).
Qed.

Lemma resolve_loop_total : forall user allp fs avoid num, resolve_loop repaired user allp avoid fs num <> None.
Proof.
  induction fs as [|[d df] r IH]; intros avoid num; [discriminate|]. cbn [resolve_loop].
  destruct (resolve_one repaired user allp avoid d df num) as [[[df' num'] av']|] eqn:E.
  - destruct (resolve_loop repaired user allp av' r num') eqn:E2; [discriminate|]. exfalso. exact (IH _ num' E2).
  - exfalso. unfold resolve_one in E.
    destruct (existsb (clashes repaired user allp) (df_params df)); [|discriminate].
    destruct (rename_params repaired user avoid (safe_prefix (sd_name d)) (df_params df) num) as [[[ps n2] av2]|] eqn:E3; [discriminate|].
    exact (rename_params_total _ _ _ _ _ E3).
Qed.

Theorem resolve_repaired_total : forall user fs, resolve_clashes repaired user fs <> None.
Proof. intros user fs. unfold resolve_clashes. apply resolve_loop_total. Qed.

Lemma forallb_false_exists : forall (A : Type) (p : A -> bool) l, forallb p l = false -> exists x, In x l /\ p x = false.
Proof.
  induction l as [|x r IH]; intros H; [discriminate|]. cbn [forallb] in H.
  apply andb_false_iff in H as [H|H].
  - exists x. split; [left; reflexivity|exact H].
  - destruct (IH H) as [y [Hy Hp]]. exists y. split; [right; exact Hy|exact Hp].
Qed.

(* creation always finds a name: a candidate that is not free is the name of a symbol of the table *)
Lemma next_param_none : forall tbl base s fuel num,
  next_param repaired tbl base s num fuel = None -> incl (candidates base num fuel) (map sd_name tbl).
Proof.
  induction fuel; intros num H; [intros x []|]. cbn [next_param v_create_any repaired orb] in H.
  destruct (arg_name_free tbl (base ++ dec num) s) eqn:E; [discriminate|].
  intros x [Hx|Hx].
  - subst x. unfold arg_name_free in E. apply forallb_false_exists in E as [d [Hd Hp]].
    apply orb_false_iff in Hp as [Hn _]. apply negb_false_iff in Hn. apply String.eqb_eq in Hn.
    apply in_map_iff. exists d. split; assumption.
  - exact (IHfuel (S num) H x Hx).
Qed.

Lemma next_param_total : forall tbl base s num, next_param repaired tbl base s num (S (List.length tbl)) <> None.
Proof.
  intros tbl base s num H. apply next_param_none in H.
  pose proof (NoDup_incl_length (candidates_NoDup base (S (List.length tbl)) num) H) as L.
  rewrite candidates_length, map_length in L. lia.
Qed.

Theorem creation_total : forall sorts tbl base num, create_params repaired tbl base num sorts <> None.
Proof.
  induction sorts as [|s r IH]; intros tbl base num; [discriminate|]. cbn [create_params].
  destruct (next_param repaired tbl base s num (S (List.length tbl))) as [[name num']|] eqn:E.
  - destruct (create_params repaired (var_decl name s :: tbl) base num' r) as [[[ps n2] tbl2]|] eqn:E2; [discriminate|].
    exfalso. exact (IH _ _ _ E2).
  - exfalso. exact (next_param_total tbl base s num E).
Qed.

(* ---------------------------------------------------------------------------------------------
   C. sites whose faithful output does not read back *)

(* get-assignment with no named term: a lone closing parenthesis *)
Theorem assignment_empty_refuted :
  assignment_text pinned [] = FmtOut ")" /\ read_sexps std_cfg ")" = None.
Proof. split; vm_compute; reflexivity. Qed.

Theorem assignment_empty_repaired :
  assignment_text repaired [] = FmtOut "()" /\ read_sexps std_cfg "()" = Some [SList []].
Proof. split; vm_compute; reflexivity. Qed.

(* get-assignment: names are printed raw and the text is used as a printf format *)
Theorem assignment_names_refuted :
  (exists t, assignment_text pinned [("a b", "true")] = FmtOut t /\ ~ reads_as std_cfg t (SList [SList [sym_tok "a b"; sym_tok "true"]]))
  /\ (exists t, assignment_text pinned [("a%sb", "true")] = FmtUB t)
  /\ (exists t, assignment_text pinned [("50%x", "true")] = FmtOut t /\ ~ reads_as std_cfg t (SList [SList [sym_tok "50%x"; sym_tok "true"]])).
Proof.
  split; [|split].
  - eexists. split; [vm_compute; reflexivity|]. vm_compute. discriminate.
  - eexists. vm_compute. reflexivity.
  - eexists. split; [vm_compute; reflexivity|]. vm_compute. discriminate.
Qed.

Theorem assignment_names_repaired_examples :
  (exists t, assignment_text repaired [("a b", "true"); ("a%sb", "false"); ("let", "true")] = FmtOut t /\
             reads_as std_cfg t (SList [SList [sym_tok "a b"; sym_tok "true"]; SList [sym_tok "a%sb"; sym_tok "false"];
                                        SList [sym_tok "let"; sym_tok "true"]])).
Proof. eexists. split; vm_compute; reflexivity. Qed.

(* get-value: the echo of the request *)
Definition echo_ok (cfg : lexcfg) (v : variant) (a : ast) : Prop :=
  snd (echo v a) = false /\ reads_as cfg (fst (echo v a)) (ast_sexp a).

Theorem echo_roundtrip_refuted :
  ~ echo_ok std_cfg pinned (A_app (H_sym "f") [A_sym "a b"])
  /\ ~ echo_ok osmt_cfg pinned (A_app (H_sym "f") [A_sym "a b"])
  /\ ~ echo_ok std_cfg pinned (A_sym "let")
  /\ ~ echo_ok std_cfg pinned (A_bang (A_sym "p") "n")
  /\ snd (echo pinned (A_app (H_sym "f") [A_as "c" U])) = true.
Proof.
  split; [|split; [|split; [|split]]].
  - intros [H1 H2]; vm_compute in H2; discriminate.
  - intros [H1 H2]; vm_compute in H2; discriminate.
  - intros [H1 H2]; vm_compute in H2; discriminate.
  - intros [H1 H2]; vm_compute in H2; discriminate.
  - vm_compute. reflexivity.
Qed.

Theorem echo_repaired_examples :
  echo_ok std_cfg repaired (A_app (H_sym "f") [A_sym "a b"; A_as "c" U; A_const "12"; A_const "0.5"])
  /\ echo_ok osmt_cfg repaired (A_app (H_sym "f") [A_sym "a b"; A_as "c" U; A_const "12"])
  /\ echo_ok std_cfg repaired (A_bang (A_app (H_sym "g h") [A_sym "let"; A_sym "_"]) "n 1")
  /\ echo_ok std_cfg repaired (A_let [("x y", A_sym "12"); ("z", A_app (H_sym "+") [A_const "1"; A_sym "-5"])] (A_app (H_sym "f") [A_sym "x y"; A_sym "z"])).
Proof. repeat split; vm_compute; reflexivity. Qed.

(* get-unsat-core names, sort names, the name of a default definition *)
Theorem core_names_refuted :
  ~ reads_as std_cfg (core_names_text pinned ["n 1"; "let"]) (SList [sym_tok "n 1"; sym_tok "let"]).
Proof. vm_compute. discriminate. Qed.

Theorem core_names_repaired_example :
  reads_as std_cfg (core_names_text repaired ["n 1"; "let"; "n3"]) (SList [sym_tok "n 1"; sym_tok "let"; sym_tok "n3"]).
Proof. vm_compute. reflexivity. Qed.

Theorem sort_name_refuted :
  ~ reads_as std_cfg (sortToString pinned (Sort "S T" [])) (sort_sexp (Sort "S T" [])).
Proof. vm_compute. discriminate. Qed.

Theorem sort_name_repaired : forall n, legal_symbol n ->
  read_symbol std_cfg (sortToString repaired (Sort n [])) = Some n.
Proof. intros n H. cbn [sortToString v_sort_raw repaired]. apply protect_repaired_roundtrip_std. exact H. Qed.

Theorem default_definition_name_refuted : exists df tbl',
  default_definition pinned [] (usym "unused fn" [U] U) = Some (df, tbl') /\
  read_symbol std_cfg (df_name df) <> Some "unused fn".
Proof. eexists. eexists. split; [vm_compute; reflexivity|]. vm_compute. discriminate. Qed.

Theorem default_definition_name_repaired : forall tbl d df tbl', legal_symbol (sd_name d) -> sd_interp d = false ->
  default_definition repaired tbl d = Some (df, tbl') ->
  read_symbol std_cfg (df_name df) = Some (sd_name d).
Proof.
  intros tbl d df tbl' H Hi E. unfold default_definition in E.
  destruct (create_params repaired tbl (formal_base (sd_name d)) 0 (sd_args d)) as [[[ps n] t2]|]; [|discriminate].
  inversion E; subst. cbn [df_name v_default_raw repaired]. rewrite Hi.
  apply protect_repaired_roundtrip_std. exact H.
Qed.
